(** SPEC for C12: what a structured multi-line field is supposed to look like,
    written directly from the documentation (deb822.py class docstrings, Debian
    archive formats) and not from the code paths of [get_as_string]:

      * a record is one line: a blank, then the sub-field values separated by one blank;
      * a multi-line field is the field name, a colon, and one such line per record,
        each on its own continuation line;
      * in Release and pdiff Index files the size column is right-aligned: width 16
        ("apt-ftparchive"), or the longest size present ("dak", pdiff Index);
      * parsing gives back, per line, the sub-field names paired with the values.

    The literals "size" and 16 below are the documented ones; the model takes its
    own from the source (Gen/MvTables.v). *)
From Coq Require Import String.
From Verif Require Import Lib.Base Lib.PyStr Lib.Dec Gen.PyChars Deb822.Multivalued.
Local Open Scope string_scope.

(** ** The DOCUMENTED structured fields and their sub-field names, per class.
    Written by hand from the module documentation of debian.deb822 ("Multivalued
    fields:" lists under Dsc, Release, Changes, PdiffIndex) and, for BuildInfo (not
    listed there), from deb-buildinfo(5): Checksums-Md5/-Sha1/-Sha256 lines are
    "checksum size filename", exposed as md5/sha1/sha256(/sha512), size, name.
    Field names are spelt as documented; they are case-insensitive. *)
Definition doc_Dsc : list (string * list string) :=
  [("Files", ["md5sum"; "size"; "name"]);
   ("Checksums-Sha1", ["sha1"; "size"; "name"]);
   ("Checksums-Sha256", ["sha256"; "size"; "name"]);
   ("Checksums-Sha512", ["sha512"; "size"; "name"])].
Definition doc_Changes : list (string * list string) :=
  [("Files", ["md5sum"; "size"; "section"; "priority"; "name"]);
   ("Checksums-Sha1", ["sha1"; "size"; "name"]);
   ("Checksums-Sha256", ["sha256"; "size"; "name"]);
   ("Checksums-Sha512", ["sha512"; "size"; "name"])].
Definition doc_BuildInfo : list (string * list string) :=
  [("Checksums-Md5", ["md5"; "size"; "name"]);
   ("Checksums-Sha1", ["sha1"; "size"; "name"]);
   ("Checksums-Sha256", ["sha256"; "size"; "name"]);
   ("Checksums-Sha512", ["sha512"; "size"; "name"])].
Definition doc_PdiffIndex : list (string * list string) :=
  [("SHA1-Current", ["SHA1"; "size"]);
   ("SHA1-History", ["SHA1"; "size"; "date"]);
   ("SHA1-Patches", ["SHA1"; "size"; "date"]);
   ("SHA1-Download", ["SHA1"; "size"; "filename"]);
   ("X-Unmerged-SHA1-History", ["SHA1"; "size"; "date"]);
   ("X-Unmerged-SHA1-Patches", ["SHA1"; "size"; "date"]);
   ("X-Unmerged-SHA1-Download", ["SHA1"; "size"; "filename"]);
   ("SHA256-Current", ["SHA256"; "size"]);
   ("SHA256-History", ["SHA256"; "size"; "date"]);
   ("SHA256-Patches", ["SHA256"; "size"; "date"]);
   ("SHA256-Download", ["SHA256"; "size"; "filename"]);
   ("X-Unmerged-SHA256-History", ["SHA256"; "size"; "date"]);
   ("X-Unmerged-SHA256-Patches", ["SHA256"; "size"; "date"]);
   ("X-Unmerged-SHA256-Download", ["SHA256"; "size"; "filename"])].
Definition doc_Release : list (string * list string) :=
  [("MD5Sum", ["md5sum"; "size"; "name"]);
   ("SHA1", ["sha1"; "size"; "name"]);
   ("SHA256", ["sha256"; "size"; "name"]);
   ("SHA512", ["sha512"; "size"; "name"])].

Definition dec_table (t : list (string * list string)) : list (str * list str) :=
  map (fun kv => (dec (fst kv), map dec (snd kv))) t.
(* one constant per class, so that the VM decodes each literal table once *)
Definition doc_table_Dsc := dec_table doc_Dsc.
Definition doc_table_Changes := dec_table doc_Changes.
Definition doc_table_BuildInfo := dec_table doc_BuildInfo.
Definition doc_table_PdiffIndex := dec_table doc_PdiffIndex.
Definition doc_table_Release := dec_table doc_Release.
Definition doc_table (c : cls) : list (str * list str) :=
  match c with
  | Dsc => doc_table_Dsc
  | Changes => doc_table_Changes
  | BuildInfo => doc_table_BuildInfo
  | PdiffIndex => doc_table_PdiffIndex
  | Release => doc_table_Release
  end.
Local Close Scope string_scope.

Definition token_ok (t : str) : bool :=
  nonempty t && forallb (fun ch => negb (py_isspace ch)) t.

(** A row gives one value per documented sub-field. *)
Definition row_ok (order row : list str) : bool :=
  (length row =? length order)%nat && forallb token_ok row.

Definition spec_size_name : str := dec "size".

(** Right-justification: blanks on the left, the value on the right. *)
Definition rjust (w : nat) (t : str) : str := repeat SP (w - length t) ++ t.

Inductive width_rule := NoWidth | FixedWidth (w : nat) | LongestPresent.

Definition width_rule_of (c : cls) (b : behav) : width_rule :=
  match c with
  | Release => match b with Apt => FixedWidth 16 | Dak => LongestPresent end
  | PdiffIndex => LongestPresent
  | _ => NoWidth
  end.

(** The size values of the rows of one field. *)
Definition sizes_of (order : list str) (rows : list (list str)) : list str :=
  flat_map (fun row => map snd (filter (fun xt => str_eqb (fst xt) spec_size_name) (combine order row))) rows.

Definition longest (ts : list str) : nat := fold_right Nat.max 0 (map (@length N) ts).

Definition spec_width (c : cls) (b : behav) (order : list str) (rows : list (list str)) : option nat :=
  match width_rule_of c b with
  | NoWidth => None
  | FixedWidth w => Some w
  | LongestPresent => Some (longest (sizes_of order rows))
  end.

Definition spec_col (w : option nat) (x t : str) : str :=
  match w with
  | Some n => if str_eqb x spec_size_name then rjust n t else t
  | None => t
  end.

(** One record line, without the line terminator. *)
Definition spec_line (w : option nat) (order row : list str) : str :=
  concat (map (fun xt => SP :: spec_col w (fst xt) (snd xt)) (combine order row)).

(** The value of a structured field holding [rows] (at least one). *)
Definition spec_value (c : cls) (b : behav) (order : list str) (rows : list (list str)) : str :=
  let w := spec_width c b order rows in
  concat (map (fun row => LF :: spec_line w order row) rows).

(** The records a field with these rows denotes. *)
Definition spec_records (order : list str) (rows : list (list str)) : list record :=
  map (combine order) rows.

(** A paragraph as the specification sees it: field name and either the rows of a
    structured field or a plain text value. *)
Inductive sval := SRows (rows : list (list str)) | SText (s : str).
Definition spara := list (str * sval).

(* field names are case-insensitive: looked up in lower case *)
Definition lower_keys (t : list (str * list str)) : list (str * list str) :=
  map (fun kv => (ascii_lower (fst kv), snd kv)) t.
Definition doc_lower_Dsc := lower_keys doc_table_Dsc.
Definition doc_lower_Changes := lower_keys doc_table_Changes.
Definition doc_lower_BuildInfo := lower_keys doc_table_BuildInfo.
Definition doc_lower_PdiffIndex := lower_keys doc_table_PdiffIndex.
Definition doc_lower_Release := lower_keys doc_table_Release.
Definition doc_lower (c : cls) : list (str * list str) :=
  match c with
  | Dsc => doc_lower_Dsc
  | Changes => doc_lower_Changes
  | BuildInfo => doc_lower_BuildInfo
  | PdiffIndex => doc_lower_PdiffIndex
  | Release => doc_lower_Release
  end.
Definition spec_order (c : cls) (key : str) : option (list str) :=
  lookup_exact (ascii_lower key) (doc_lower c).

Definition spec_entry (c : cls) (b : behav) (kv : str * sval) : str :=
  match snd kv with
  | SRows rows =>
      match spec_order c (fst kv) with
      | Some order => fst kv ++ [COLON] ++ spec_value c b order rows ++ [LF]
      | None => []
      end
  | SText s =>
      match s with
      | [] => fst kv ++ [COLON; LF]
      | ch :: _ => if (ch =? LF)%N then fst kv ++ [COLON] ++ s ++ [LF]
                   else fst kv ++ [COLON; SP] ++ s ++ [LF]
      end
  end.

Definition spec_dump (c : cls) (b : behav) (p : spara) : str :=
  concat (map (spec_entry c b) p).

(** ** Reading a structured field's stored text as rows: every continuation line
    (the text after each LF) holds exactly one value per sub-field and nothing
    that Python would treat as another line boundary. *)
Definition spec_rows (order : list str) (contents : str) : option (list (list str)) :=
  match contents with
  | ch :: rest =>
      if (ch =? LF)%N then
        let lines := split_on LF rest in
        let rows := map (split_ws py_isspace) lines in
        if forallb (fun l => negb (existsb py_islinebreak l)) lines
           && forallb (fun r => (length r =? length order)%nat) rows
        then Some rows else None
      else None
  | [] => None
  end.

(** The single-line form ("SHA1-Current: <hash> <size>" in a pdiff Index): a stored
    value without any line boundary holding exactly one value per sub-field. *)
Definition spec_single (order : list str) (contents : str) : option (list str) :=
  if existsb py_islinebreak contents then None
  else let toks := split_ws py_isspace contents in
       if (length toks =? length order)%nat then Some toks else None.

(** The one combination in which the single-line form cannot be dumped: a Release
    under "dak" measures every present field, and a mapping cannot be measured
    (documented exclusion; the code raises TypeError there). *)
Definition single_breaks (c : cls) (b : behav) : bool :=
  match c, b with Release, Dak => true | _, _ => false end.

(** A parsed text all of whose PRESENT structured fields have complete lines (one value
    per sub-field on each continuation line), or are in the single-line form where the
    class can dump that.  Nothing is asked about absent fields. *)
Definition raw_ok (c : cls) (b : behav) (raw : list (str * str)) : bool :=
  forallb (fun kv => match spec_order c (fst kv) with
                     | Some order =>
                         match spec_rows order (snd kv) with
                         | Some _ => true
                         | None => match spec_single order (snd kv) with
                                   | Some _ => negb (single_breaks c b)
                                   | None => false
                                   end
                         end
                     | None => true
                     end) raw.

(** ** The property's domain, as a boolean/partial function on model paragraphs *)

(** Plain fields that may accompany the structured ones in a generated paragraph. *)
Definition plain_key_ok (k : str) : bool :=
  match k with
  | ch :: _ => (((65 <=? ch) && (ch <=? 90)) || ((97 <=? ch) && (ch <=? 122)))%N
               && forallb (fun x => (((65 <=? x) && (x <=? 90)) || ((97 <=? x) && (x <=? 122))
                                     || ((48 <=? x) && (x <=? 57)) || (x =? 45))%N) k
  | [] => false
  end.
Definition plain_value_ok (s : str) : bool :=
  match s, last_opt s with
  | ch :: _, Some l => negb (py_isspace ch) && negb (py_isspace l) && negb (existsb py_islinebreak s)
  | _, _ => false
  end.

(** A field as the specification sees it; [None] = outside the property's domain.
    Domain: a list of AT LEAST ONE record, every record giving exactly the DOCUMENTED
    sub-fields, in order, with non-empty whitespace-free values.  (A field with no
    record is not representable in the format: documented exclusion.)
    [strict]: also restrict the accompanying plain fields (built paragraphs). *)
Definition sval_of (strict : bool) (k : cls) (key : str) (v : fvalue) : option sval :=
  match spec_order k key with
  | Some order =>
      match v with
      | Multi (r :: rs) =>
          if forallb (fun r => list_eqb str_eqb (map fst r) order && forallb token_ok (map snd r)) (r :: rs)
          then Some (SRows (map (map snd) (r :: rs))) else None
      | _ => None
      end
  | None =>
      match v with
      | Plain s => if negb strict || (plain_key_ok key && plain_value_ok s) then Some (SText s) else None
      | _ => None
      end
  end.

Fixpoint spara_of (strict : bool) (k : cls) (p : para) : option spara :=
  match p with
  | [] => Some []
  | (key, v) :: p' =>
      match sval_of strict k key v, spara_of strict k p' with
      | Some sv, Some sp => Some ((key, sv) :: sp)
      | _, _ => None
      end
  end.

Fixpoint distinct_keys (ks : list str) : bool :=
  match ks with
  | [] => true
  | k :: ks' => negb (existsb (fun k' => str_eqb (ascii_lower k') (ascii_lower k)) ks') && distinct_keys ks'
  end.

Definition in_domain (k : cls) (p : para) : option spara :=
  if distinct_keys (map fst p) then spara_of true k p else None.

(** The paragraph the specification expects back from a spec-level paragraph. *)
Definition fvalue_of_sval (k : cls) (key : str) (sv : sval) : fvalue :=
  match sv with
  | SRows rows => match spec_order k key with
                  | Some order => Multi (spec_records order rows)
                  | None => Multi []
                  end
  | SText s => Plain s
  end.
Definition para_of_spara (k : cls) (sp : spara) : para :=
  map (fun kv => (fst kv, fvalue_of_sval k (fst kv) (snd kv))) sp.

(** ** "Dumpable": what the caller must have put into the PRESENT fields for a dump to
    be possible at all (wider than the property's domain: values need not be
    whitespace-free, records may have extra sub-fields, names may repeat) *)

(** the record has every sub-field of [order], none containing a line feed *)
Definition rec_complete (ci : bool) (order : list str) (r : record) : bool :=
  forallb (fun x => match rec_get ci x r with
                    | Ok v => negb (mem_char LF v)
                    | Err _ => false
                    end) order.

Definition val_dumpable (c : cls) (b : behav) (ci : bool) (order : list str) (v : fvalue) : bool :=
  match v with
  | Multi (r :: rs) => forallb (rec_complete ci order) (r :: rs)
  | Single r => rec_complete ci order r && negb (single_breaks c b)
  | _ => false
  end.

(** Conditions on the entries that ARE there; nothing is asked about the
    structured fields of the class that are absent. *)
Definition entry_dumpable (c : cls) (b : behav) (ci : bool) (kv : str * fvalue) : bool :=
  match lookup_exact (ascii_lower (fst kv)) (table_of c) with
  | Some order => val_dumpable c b ci order (snd kv)
  | None => match snd kv with Plain _ => true | _ => false end
  end.

Definition para_dumpable (c : cls) (b : behav) (ci : bool) (p : para) : bool :=
  forallb (entry_dumpable c b ci) p.

(** ** Well-formed in-place edits (case format of MvCheck) *)

Definition rec_ok (c : cls) (ci : bool) (key : str) (r : record) : bool :=
  match lookup_exact (ascii_lower key) (table_of c) with
  | Some order => rec_complete ci order r
  | None => false
  end.

(** an edit that hands over complete records / LF-free values / a dumpable value
    (indices and the presence of the key are NOT constrained: a failing edit raises
    and leaves no new state) *)
Definition edit_ok (c : cls) (b : behav) (ci : bool) (e : edit) : bool :=
  match e with
  | ESetRec key _ r | ERotate key r | EAppend key r => rec_ok c ci key r
  | ESetSub _ _ _ v => negb (mem_char LF v)
  | EAssign key v => entry_dumpable c b ci (key, v)
  | EDel _ => true
  end.

