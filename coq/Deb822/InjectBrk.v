(** validate_input, character by character *)
From Coq Require Import Lia ZifyBool.
From Verif Require Import Lib.Base Lib.PyStr Gen.PyChars Deb822.Model Deb822.Spec Deb822.InjectSpec
  Deb822.ProofsStr Deb822.InjectStr.

Local Open Scope N_scope.

Definition lf_free (l : str) : bool := forallb (fun c => negb (c =? LF)) l.

(** the text after a line end, if any, starts with space/tab *)
Definition lead_ok (s : str) : bool := match s with [] => true | d :: _ => is_sp_tab d end.

(** every line end inside [s] (LF, CR LF, or a CR not followed by LF) is
    followed by space/tab or by nothing *)
Fixpoint brk_ok (s : str) : bool :=
  match s with
  | [] => true
  | c :: s' =>
      (if (c =? LF) || ((c =? CR) && negb (startswith [LF] s')) then lead_ok s' else true)
      && brk_ok s'
  end.

Definition ite_ok (b : bool) : result unit := if b then Ok tt else Err ValueError.

Lemma nonlb_not_lf_cr x : py_islinebreak x = false -> (x =? LF) = false /\ (x =? CR) = false.
Proof.
  intros H. split.
  - destruct (N.eqb_spec x LF) as [E|]; [subst x; discriminate|reflexivity].
  - destruct (N.eqb_spec x CR) as [E|]; [subst x; discriminate|reflexivity].
Qed.

Lemma splitlines_aux_lb_first x t :
  py_islinebreak x = true -> exists r, splitlines_aux py_islinebreak false (x :: t) [] = [] :: r.
Proof.
  intros H. destruct t as [|y t].
  - cbn [splitlines_aux]. rewrite H. now eexists.
  - rewrite splitlines_aux_cons2, H. destruct ((x =? 13) && (y =? 10)); now eexists.
Qed.

Lemma tl_prepend p ls : tl (prepend p ls) = tl ls.
Proof. destruct ls; [destruct p; reflexivity|reflexivity]. Qed.

Lemma tl_splitlines_aux_cur s cur :
  tl (splitlines_aux py_islinebreak false s cur) = tl (splitlines_aux py_islinebreak false s []).
Proof.
  change cur with ([] ++ cur). rewrite splitlines_aux_cur. apply tl_prepend.
Qed.

(** the lines after the first, and (H) all lines, of a text of the alphabet *)
Lemma check_tl_brk s :
  c08_dom s = true ->
  check_cont_lines (tl (splitlines_aux py_islinebreak false s [])) = ite_ok (brk_ok s)
  /\ check_cont_lines (splitlines_aux py_islinebreak false s []) = ite_ok (lead_ok s && brk_ok s).
Proof.
  (* H from T *)
  assert (HT : forall s, c08_dom s = true ->
            check_cont_lines (tl (splitlines_aux py_islinebreak false s [])) = ite_ok (brk_ok s) ->
            check_cont_lines (splitlines_aux py_islinebreak false s []) = ite_ok (lead_ok s && brk_ok s)).
  { intros [|d t] Hd HT; [reflexivity|].
    cbn [c08_dom forallb] in Hd. apply andb_true_iff in Hd. destruct Hd as [Hdc _].
    destruct (py_islinebreak d) eqn:Ed.
    - destruct (splitlines_aux_lb_first d t Ed) as [r ->]. cbn [check_cont_lines lead_ok].
      destruct (c08_lb d Hdc Ed) as [->| ->]; reflexivity.
    - assert (E : splitlines_aux py_islinebreak false (d :: t) []
                  = prepend [d] (splitlines_aux py_islinebreak false t [])).
      { cbn [splitlines_aux]. rewrite Ed.
        change [d] with ([] ++ [d]) at 1. now rewrite splitlines_aux_cur. }
      assert (E2 : exists h r, splitlines_aux py_islinebreak false (d :: t) [] = (d :: h) :: r).
      { rewrite E. destruct (splitlines_aux py_islinebreak false t []); cbn [prepend app]; eauto. }
      destruct E2 as (h & r & E2). rewrite E2 in *. cbn [check_cont_lines tl] in *. cbn [lead_ok].
      destruct (py_isspace d) eqn:Es.
      + rewrite (c08_space d Hdc Ed Es). exact HT.
      + assert (Hn : is_sp_tab d = false).
        { destruct (is_sp_tab d) eqn:E3; [|reflexivity]. apply sp_tab_pyspace in E3. congruence. }
        now rewrite Hn. }
  assert (T : forall s, c08_dom s = true ->
            check_cont_lines (tl (splitlines_aux py_islinebreak false s [])) = ite_ok (brk_ok s)).
  { clear s. induction s as [| x | x y v IH1 IH2] using list_ind2; intros Hd.
    - reflexivity.
    - cbn [c08_dom forallb] in Hd. rewrite andb_true_r in Hd. cbn [splitlines_aux].
      destruct (py_islinebreak x) eqn:Ex.
      + destruct (c08_lb x Hd Ex) as [->| ->]; reflexivity.
      + destruct (nonlb_not_lf_cr x Ex) as [E1 E2]. cbn [tl check_cont_lines brk_ok]. now rewrite E1, E2.
    - cbn [c08_dom forallb] in Hd. apply andb_true_iff in Hd. destruct Hd as [Hx Hd].
      assert (Hd1 : c08_dom v = true) by (cbn [c08_dom forallb] in Hd; apply andb_true_iff in Hd; tauto).
      change (brk_ok (x :: y :: v))
        with ((if (x =? LF) || ((x =? CR) && negb (startswith [LF] (y :: v))) then lead_ok (y :: v) else true)
              && brk_ok (y :: v)).
      rewrite splitlines_aux_cons2. destruct (py_islinebreak x) eqn:Ex.
      + destruct (c08_lb x Hx Ex) as [->| ->].
        * replace ((LF =? 13) && (y =? 10)) with false by reflexivity. cbn [tl].
          rewrite (HT (y :: v) Hd (IH2 Hd)). reflexivity.
        * replace (CR =? 13) with true by reflexivity. cbn [andb].
          destruct (N.eqb_spec y 10) as [Ey|Ey].
          -- subst y. cbn [tl]. rewrite (HT v Hd1 (IH1 Hd1)). reflexivity.
          -- cbn [tl]. rewrite (HT (y :: v) Hd (IH2 Hd)). cbn [startswith].
             replace (LF =? y) with false
               by (symmetry; apply N.eqb_neq; intros E; apply Ey; now rewrite <- E).
             reflexivity.
      + destruct (nonlb_not_lf_cr x Ex) as [E1 E2]. rewrite tl_splitlines_aux_cur.
        rewrite E1, E2. cbn [orb andb]. now apply IH2. }
  intros Hd. split; [now apply T|]. apply HT; [exact Hd|now apply T].
Qed.

Theorem validate_input_brk s :
  c08_dom s = true ->
  validate_input s = ite_ok (negb (endswith [LF] s) && brk_ok s).
Proof.
  intros Hd. unfold validate_input. destruct (endswith [LF] s); [reflexivity|].
  cbn [negb andb]. unfold splitlines. now apply check_tl_brk.
Qed.

(** * Algebra of [brk_ok] *)

Lemma brk_ok_cons c s :
  brk_ok (c :: s)
  = (if (c =? LF) || ((c =? CR) && negb (startswith [LF] s)) then lead_ok s else true) && brk_ok s.
Proof. reflexivity. Qed.

Lemma brk_ok_app a b : brk_ok (a ++ b) = true -> brk_ok a = true /\ brk_ok b = true.
Proof.
  induction a as [|c a IH]; intros H; [now split|].
  cbn [app] in H. rewrite brk_ok_cons in *. apply andb_true_iff in H. destruct H as [H1 H2].
  destruct (IH H2) as [Ha Hb]. split; [|exact Hb]. rewrite Ha, andb_true_r.
  destruct a as [|x a]; [|exact H1].
  destruct ((c =? LF) || ((c =? CR) && negb (startswith [LF] []))); reflexivity.
Qed.

Lemma brk_ok_join a b :
  brk_ok a = true -> lf_free a = true -> brk_ok b = true -> lead_ok b = true ->
  brk_ok (a ++ LF :: b) = true.
Proof.
  induction a as [|c a IH]; intros Ha Hl Hb Hlead.
  - cbn [app]. rewrite brk_ok_cons. replace (LF =? LF) with true by reflexivity.
    cbn [orb]. now rewrite Hlead, Hb.
  - cbn [app]. rewrite brk_ok_cons in *. apply andb_true_iff in Ha. destruct Ha as [H1 H2].
    cbn [lf_free forallb] in Hl. apply andb_true_iff in Hl. destruct Hl as [Hc Hl].
    apply negb_true_iff in Hc. rewrite IH by assumption. rewrite andb_true_r.
    rewrite Hc in *. cbn [orb] in *. destruct (c =? CR); [|reflexivity]. cbn [andb] in *.
    destruct a as [|x a]; [reflexivity|exact H1].
Qed.

Lemma rdropwhile_split' {A} (p : A -> bool) l : exists e, l = rdropwhile p l ++ e.
Proof.
  unfold rdropwhile. exists (rev (fst (span p (rev l)))).
  rewrite dropwhile_span, <- rev_app_distr, span_app. now rewrite rev_involutive.
Qed.

Lemma brk_ok_dropwhile p s : brk_ok s = true -> brk_ok (dropwhile p s) = true.
Proof.
  intros H. rewrite <- (span_app p s) in H. apply brk_ok_app in H. now rewrite dropwhile_span.
Qed.

Lemma brk_ok_rdropwhile p s : brk_ok s = true -> brk_ok (rdropwhile p s) = true.
Proof.
  intros H. destruct (rdropwhile_split' p s) as [e E]. rewrite E in H. now apply brk_ok_app in H.
Qed.

Lemma brk_ok_strip p s : brk_ok s = true -> brk_ok (strip_by p s) = true.
Proof. intros H. unfold strip_by, lstrip_by, rstrip_by. now apply brk_ok_rdropwhile, brk_ok_dropwhile. Qed.

Lemma no_linebreak_brk_ok l : no_linebreak l = true -> brk_ok l = true.
Proof.
  induction l as [|c l IH]; [reflexivity|]. rewrite no_linebreak_cons, brk_ok_cons. intros H.
  apply andb_true_iff in H. destruct H as [Hc Hl]. apply negb_true_iff in Hc.
  destruct (nonlb_not_lf_cr c Hc) as [-> ->]. cbn [orb andb]. now apply IH.
Qed.

Lemma no_linebreak_lf_free l : no_linebreak l = true -> lf_free l = true.
Proof.
  apply forallb_impl. intros c H. apply negb_true_iff in H.
  destruct (nonlb_not_lf_cr c H) as [-> _]. reflexivity.
Qed.

Lemma lf_free_mem_lf l : lf_free l = true -> mem_char LF l = false.
Proof.
  induction l as [|c l IH]; [reflexivity|]. cbn [lf_free forallb]. intros H.
  apply andb_true_iff in H. destruct H as [Hc Hl]. apply negb_true_iff in Hc.
  change (mem_char LF (c :: l)) with ((LF =? c) || mem_char LF l).
  rewrite (IH Hl), orb_false_r. now rewrite N.eqb_sym.
Qed.

Lemma lf_free_endswith l : lf_free l = true -> endswith [LF] l = false.
Proof.
  intros H. unfold endswith. destruct (rev l) as [|c t] eqn:E; [reflexivity|].
  cbn [rev app startswith].
  assert (Hc : In c l) by (apply in_rev; rewrite E; now left).
  unfold lf_free in H. rewrite forallb_forall in H. specialize (H c Hc).
  apply negb_true_iff in H. rewrite N.eqb_sym. now rewrite H.
Qed.

Lemma lf_free_strip p l : lf_free l = true -> lf_free (strip_by p l) = true.
Proof.
  intros H. unfold strip_by, lstrip_by, rstrip_by. now apply rdropwhile_forallb, dropwhile_forallb.
Qed.

Lemma c08_dom_strip p l : c08_dom l = true -> c08_dom (strip_by p l) = true.
Proof.
  intros H. unfold strip_by, lstrip_by, rstrip_by. now apply rdropwhile_forallb, dropwhile_forallb.
Qed.

(** * Values assembled from pieces *)

(** a piece of text without LF that validate_input has nothing against *)
Definition piece_ok (l : str) : bool := lf_free l && c08_dom l && brk_ok l.
(** a continuation line: non-empty, starts with space/tab *)
Definition cont_ok (l : str) : bool := negb (is_nil' l) && lead_ok l && piece_ok l.

Lemma piece_ok_inv l :
  piece_ok l = true -> lf_free l = true /\ c08_dom l = true /\ brk_ok l = true.
Proof.
  unfold piece_ok. intros H. apply andb_true_iff in H. destruct H as [H H3].
  apply andb_true_iff in H. tauto.
Qed.

Lemma cont_ok_inv l :
  cont_ok l = true ->
  exists c r, l = c :: r /\ is_sp_tab c = true /\ lf_free r = true /\ piece_ok l = true.
Proof.
  unfold cont_ok. intros H. apply andb_true_iff in H. destruct H as [H H3].
  apply andb_true_iff in H. destruct H as [H1 H2]. destruct l as [|c r]; [discriminate|].
  exists c, r. repeat split; try assumption.
  destruct (piece_ok_inv _ H3) as (Hl & _). cbn [lf_free forallb] in Hl.
  apply andb_true_iff in Hl. tauto.
Qed.

Lemma piece_ok_strip p l : piece_ok l = true -> piece_ok (strip_by p l) = true.
Proof.
  intros H. destruct (piece_ok_inv l H) as (H1 & H2 & H3). unfold piece_ok.
  now rewrite lf_free_strip, c08_dom_strip, brk_ok_strip.
Qed.

Lemma value_of_cons' first c conts : value_of first (c :: conts) = first ++ LF :: value_of c conts.
Proof. unfold value_of. cbn [map concat]. cbn [app]. reflexivity. Qed.

Lemma value_of_nil' first : value_of first [] = first.
Proof. unfold value_of. cbn. apply app_nil_r. Qed.

Lemma endswith1_app_nonnil' x a b : b <> [] -> endswith [x] (a ++ b) = endswith [x] b.
Proof.
  intros Hb. unfold endswith. rewrite rev_app_distr.
  destruct (rev b) as [|c t] eqn:E.
  - exfalso. apply Hb. apply (f_equal (@rev N)) in E. now rewrite rev_involutive in E.
  - reflexivity.
Qed.

Lemma value_of_facts conts : forall first,
  piece_ok first = true -> forallb cont_ok conts = true ->
  c08_dom (value_of first conts) = true
  /\ endswith [LF] (value_of first conts) = false
  /\ brk_ok (value_of first conts) = true.
Proof.
  induction conts as [|c conts IH]; intros first Hf Hc.
  - rewrite value_of_nil'. destruct (piece_ok_inv _ Hf) as (H1 & H2 & H3).
    repeat split; try assumption. now apply lf_free_endswith.
  - cbn [forallb] in Hc. apply andb_true_iff in Hc. destruct Hc as [Hc Hcs].
    destruct (cont_ok_inv c Hc) as (c0 & r & Ec & Hsp & _ & Hp).
    destruct (IH c Hp Hcs) as (I1 & I2 & I3).
    destruct (piece_ok_inv _ Hf) as (H1 & H2 & H3).
    rewrite value_of_cons'. repeat split.
    + unfold c08_dom in *. rewrite forallb_app, H2. cbn [forallb]. now rewrite I1.
    + change (first ++ LF :: value_of c conts) with (first ++ [LF] ++ value_of c conts).
      rewrite app_assoc, endswith1_app_nonnil'; [exact I2|].
      subst c. unfold value_of. discriminate.
    + apply brk_ok_join; try assumption. subst c. unfold value_of. cbn [app lead_ok]. exact Hsp.
Qed.

Theorem validate_value first conts :
  piece_ok first = true -> forallb cont_ok conts = true ->
  validate_input (value_of first conts) = Ok tt.
Proof.
  intros Hf Hc. destruct (value_of_facts conts first Hf Hc) as (H1 & H2 & H3).
  rewrite validate_input_brk by exact H1. now rewrite H2, H3.
Qed.

(** an accepted value, conversely *)
Lemma validate_brk_inv v :
  c08_dom v = true -> validate_input v = Ok tt -> endswith [LF] v = false /\ brk_ok v = true.
Proof.
  intros Hd Hv. rewrite validate_input_brk in Hv by exact Hd.
  destruct (endswith [LF] v); [discriminate|]. destruct (brk_ok v); [now split|discriminate].
Qed.
