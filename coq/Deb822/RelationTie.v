(** TIE BY REGENERATION (DESIGN §3.1b) for PkgRelation.str / PkgRelation.parse_relations of
    lib/debian/deb822.py — proofs.

    Gen/TrRelation.v is regenerated from the source on every run by harness/py2coq.py: the bodies of
    [PkgRelation.str] with its nested [pp_arch], [pp_restrictions], [pp_atomic_dep] and of
    [PkgRelation.parse_relations] with its nested [parse_archs], [parse_restrictions], [parse_rel] as
    the working tree has them now.  This file proves each of them equal, on ALL inputs and including
    the exception kind and the number of warnings, to the hand-written model function of
    Deb822/Relation.v that the theorems of Props/C13.v are about and that [agree] runs. *)
From Coq Require Import Lia.
From Verif Require Import Lib.Base Lib.PyStr Lib.PySlice Lib.Tr Gen.PyChars.
From Verif Require Import Deb822.Relation Deb822.RelationTrPrims Gen.TrRelation.
Local Open Scope Z_scope.

(** * The formatter *)

Lemma tr_pp_arch_eq t : tr_pp_arch t = Ok (pp_term t).
Proof.
  unfold tr_pp_arch, pp_term, trp_archr_enabled, trp_archr_arch.
  cbn [app]. rewrite app_nil_r. reflexivity.
Qed.

Lemma tr_pp_restrictions_loop_eq restrictions : forall it s,
  tr_pp_restrictions_loop1 it restrictions s = Ok ([LT] ++ join [SP] (s ++ map pp_term it) ++ [GT]).
Proof.
  induction it as [|t it IH]; intros s; cbn [tr_pp_restrictions_loop1 map].
  - rewrite app_nil_r. reflexivity.
  - cbv zeta. rewrite IH. unfold pp_term, trp_buildr_enabled, trp_buildr_profile.
    cbn [app]. rewrite app_nil_r, <- app_assoc. reflexivity.
Qed.

Lemma tr_pp_restrictions_eq g : tr_pp_restrictions g = Ok (pp_group g).
Proof. unfold tr_pp_restrictions. cbv zeta. apply tr_pp_restrictions_loop_eq. Qed.

Lemma mapM_pp_arch a : tr_mapM (fun x => do y <- tr_pp_arch x; Ok y) a = Ok (map pp_term a).
Proof. apply tr_mapM_ok. intros t _. rewrite tr_pp_arch_eq. reflexivity. Qed.

Lemma mapM_pp_restrictions r :
  tr_mapM (fun x => do y <- tr_pp_restrictions x; Ok y) r = Ok (map pp_group r).
Proof. apply tr_mapM_ok. intros g _. rewrite tr_pp_restrictions_eq. reflexivity. Qed.

Lemma tr_pp_atomic_dep_eq d : tr_pp_atomic_dep d = Ok (pp_atomic d).
Proof.
  unfold tr_pp_atomic_dep, pp_atomic, trp_rel_item_name, trp_rel_item_archqual, trp_rel_get_archqual,
    trp_rel_get_version, trp_rel_get_arch, trp_rel_get_restrictions, trp_join.
  cbv zeta.
  destruct d as [nm aq ver ar rs]; cbn [r_name r_archqual r_version r_arch r_restr].
  destruct aq as [q|]; cbn [tr_is_some bind];
    destruct ver as [[o v]|]; destruct ar as [a|]; destruct rs as [r|];
    rewrite ?mapM_pp_arch, ?mapM_pp_restrictions; cbn [bind]; rewrite ?app_nil_r;
    repeat (progress (cbn [app]; rewrite <- ?app_assoc)); reflexivity.
Qed.

Lemma mapM_pp_atomic alts :
  tr_mapM (fun x => do y <- tr_pp_atomic_dep x; Ok y) alts = Ok (map pp_atomic alts).
Proof. apply tr_mapM_ok. intros d _. rewrite tr_pp_atomic_dep_eq. reflexivity. Qed.

Lemma tr_rel_str_eq rels : tr_rel_str rels = Ok (rel_str rels).
Proof.
  unfold tr_rel_str, rel_str, trp_join.
  rewrite (tr_mapM_ok _ pp_alts); [reflexivity|].
  intros alts _. rewrite mapM_pp_atomic. reflexivity.
Qed.

(** * The parser *)

(** ** small facts about the runtime *)

(** [arch[1:]] of a non-empty string is its tail *)
Lemma tr_slice_tail {A} (c : A) r : tr_slice (c :: r) (Some 1) None = r.
Proof.
  unfold tr_slice, slice.
  rewrite !clamp_index_in_range by (cbn [length]; lia).
  rewrite Nat2Z.id. change (Z.to_nat 1) with 1%nat.
  cbn [length skipn]. rewrite Nat.sub_succ, Nat.sub_0_r. apply firstn_all.
Qed.

(** ** parse_archs *)
Lemma tr_parse_archs_loop_eq raw : forall it archs,
  tr_parse_archs_loop1 it raw archs = (do r <- parse_arch_pieces it; Ok (archs ++ r)).
Proof.
  induction it as [|p it IH]; intros archs; cbn [tr_parse_archs_loop1 parse_arch_pieces bind].
  - rewrite app_nil_r. reflexivity.
  - cbv zeta. destruct p as [|c t]; [reflexivity|].
    change (tr_index (c :: t) 0) with (Ok c). cbn [bind].
    rewrite tr_slice_tail. unfold trp_arch_restriction. change BANG with 33%N.
    destruct (c =? 33)%N; cbn [negb]; rewrite IH;
      (destruct (parse_arch_pieces it) as [r|e]; cbn [bind]; [|reflexivity]);
      rewrite <- app_assoc; reflexivity.
Qed.

(** called with [parts['archs']] : Optional[str]; on None, [raw.strip()] would be an AttributeError *)
Lemma tr_parse_archs_eq o :
  tr_parse_archs o = match o with Some raw => parse_archs raw | None => Err OtherError end.
Proof.
  unfold tr_parse_archs, parse_archs, trp_blank_split, trp_strip. cbv zeta.
  destruct o as [raw|]; cbn [tr_unwrap bind]; [|reflexivity].
  rewrite tr_parse_archs_loop_eq.
  destruct (parse_arch_pieces _) as [r|e]; reflexivity.
Qed.

(** ** parse_restrictions *)
Lemma restr_groups_roundtrip (m : term) :
  (negb (tr_opt_str_eqb (trp_restr_enabled m tt) [33]%N), trp_restr_profile m tt) = m.
Proof. destruct m as [[|] p]; reflexivity. Qed.

Lemma tr_parse_restrictions_inner_eq kx raw restrictions groups rgrp : forall it group,
  tr_parse_restrictions_loop2 it kx raw restrictions groups rgrp group
  = kx raw restrictions groups rgrp (group ++ filter_map parse_term it).
Proof.
  induction it as [|x it IH]; intros group; cbn [tr_parse_restrictions_loop2 filter_map].
  - rewrite app_nil_r. reflexivity.
  - cbv zeta. unfold trp_restriction_match, trp_restr_groupdict, trp_build_restriction.
    destruct (parse_term x) as [m|]; [|apply IH].
    rewrite restr_groups_roundtrip, IH, <- app_assoc. reflexivity.
Qed.

Lemma tr_parse_restrictions_outer_eq raw groups : forall it restrictions,
  tr_parse_restrictions_loop1 it raw restrictions groups
  = Ok (restrictions ++ map (fun g => filter_map parse_term (blank_split g)) it).
Proof.
  induction it as [|g it IH]; intros restrictions; cbn [tr_parse_restrictions_loop1 map].
  - rewrite app_nil_r. reflexivity.
  - cbv zeta. rewrite tr_parse_restrictions_inner_eq. cbv zeta. rewrite IH.
    cbn [app]. rewrite <- app_assoc. reflexivity.
Qed.

Lemma tr_parse_restrictions_eq o :
  tr_parse_restrictions o
  = match o with Some raw => Ok (parse_restrictions raw) | None => Err OtherError end.
Proof.
  unfold tr_parse_restrictions, parse_restrictions, trp_restriction_sep_split, trp_strip_chars, trp_lower.
  cbv zeta. destruct o as [raw|]; cbn [tr_unwrap bind]; [|reflexivity].
  rewrite tr_parse_restrictions_outer_eq. reflexivity.
Qed.

(** ** parse_rel *)

(** The optional groups of a match of __dep_RE are never empty when they take part ([+] in the
    pattern): the truth value that parse_rel tests is "the group took part". *)
Lemma scan_version_nonempty r o v r' : scan_version r = Some (Some (o, v), r') -> o <> [].
Proof.
  unfold scan_version. destruct r as [|x t]; [discriminate|].
  destruct (N.eq_dec x 40) as [->|Hx].
  - destruct (span relop_char (dropwhile ws t)) as [op t2]. destruct op as [|o1 op]; [discriminate|].
    destruct (span ver_char (dropwhile ws t2)) as [vv t4]. destruct vv as [|v1 vv]; [discriminate|].
    destruct (dropwhile ws t4) as [|y t6]; [discriminate|].
    destruct (N.eq_dec y 41) as [->|Hy].
    + intros H. injection H as <- _ _. discriminate.
    + destruct y as [|py]; [discriminate|].
      do 6 (destruct py as [py|py|]; try discriminate). congruence.
  - destruct x as [|px]; [discriminate|].
    do 6 (destruct px as [px|px|]; try discriminate). congruence.
Qed.

Lemma scan_archs_nonempty r a r' : scan_archs r = Some (Some a, r') -> a <> [].
Proof.
  unfold scan_archs. destruct r as [|x t]; [discriminate|].
  destruct (N.eq_dec x 91) as [->|Hx].
  - destruct (span archs_char t) as [aa t1]. destruct aa as [|a1 aa]; [discriminate|].
    destruct t1 as [|y t2]; [discriminate|].
    destruct (N.eq_dec y 93) as [->|Hy].
    + intros H. injection H as <- _. discriminate.
    + destruct y as [|py]; [discriminate|].
      do 7 (destruct py as [py|py|]; try discriminate). congruence.
  - destruct x as [|px]; [discriminate|].
    do 7 (destruct px as [px|px|]; try discriminate). congruence.
Qed.

Lemma scan_restr_nonempty r x : scan_restr r = Some (Some x) -> x <> [].
Proof.
  unfold scan_restr. destruct r as [|c t]; [discriminate|].
  destruct (N.eq_dec c 60) as [->|Hc].
  - destruct (rev (rdropwhile ws t)) as [|y p]; [discriminate|].
    destruct (N.eq_dec y 62) as [->|Hy].
    + destruct (negb (is_nil p) && negb (mem_char 10 p)); [|discriminate].
      intros H. injection H as <-. discriminate.
    + destruct y as [|py]; [discriminate|].
      do 6 (destruct py as [py|py|]; try discriminate). congruence.
  - destruct c as [|pc]; [discriminate|].
    do 6 (destruct pc as [pc|pc|]; try discriminate). congruence.
Qed.

Lemma match_dep_groups_nonempty raw g : match_dep raw = Some g ->
  (forall o v, g_version g = Some (o, v) -> o <> [])
  /\ (forall a, g_archs g = Some a -> a <> [])
  /\ (forall r, g_restr g = Some r -> r <> []).
Proof.
  unfold match_dep. destruct (dropwhile ws raw) as [|c t]; [discriminate|].
  destruct (is_alnum c); [|discriminate].
  destruct (span name_char t) as [nm r1].
  destruct (scan_archqual r1) as [[aq r2]|]; [|discriminate].
  destruct (scan_version (dropwhile ws r2)) as [[ver r3]|] eqn:Ev; [|discriminate].
  destruct (scan_archs (dropwhile ws r3)) as [[ar r4]|] eqn:Ea; [|discriminate].
  destruct (scan_restr (dropwhile ws r4)) as [rs|] eqn:Er; [|discriminate].
  intros H. injection H as <-. cbn [g_version g_archs g_restr].
  repeat split.
  - intros o v ->. eapply scan_version_nonempty, Ev.
  - intros a ->. eapply scan_archs_nonempty, Ea.
  - intros r ->. eapply scan_restr_nonempty, Er.
Qed.

(** parse_rel on a state of [n] warnings emitted so far: the structure, and one more warning exactly
    when the model's flag says so; on the IndexError of parse_archs no warning has been emitted *)
Lemma tr_parse_rel_eq n raw :
  tr_parse_rel n raw
  = match parse_rel raw with
    | Ok (d, w) => MOk d (n + (if w then 1 else 0))%N
    | Err e => MErr e n
    end.
Proof.
  unfold tr_parse_rel, parse_rel, trp_dep_match, trp_dep_groupdict, trp_warn, trp_rel_new. cbv zeta.
  destruct (match_dep raw) as [g|] eqn:E; [|reflexivity].
  destruct (match_dep_groups_nonempty raw g E) as (Hv & Ha & Hr).
  unfold trp_dep_name, trp_dep_archqual, trp_dep_relop, trp_dep_version, trp_dep_archs, trp_dep_restrictions.
  rewrite !tr_parse_archs_eq, !tr_parse_restrictions_eq.
  destruct g as [nm aq ver ar rs]; cbn [g_name g_archqual g_version g_archs g_restr] in *.
  destruct ver as [[[|o1 o] v]|]; [exfalso; eapply Hv; reflexivity| |];
    cbn [option_map fst snd tr_opt_nonempty orb trp_rel_set_version r_name r_archqual r_version r_arch r_restr];
    (destruct ar as [[|a1 a]|]; [exfalso; eapply Ha; reflexivity| |]);
    cbn [tr_opt_nonempty bind];
    try (destruct (parse_archs (a1 :: a)) as [l|e]; cbn [bind]; [|reflexivity]);
    (destruct rs as [[|r1 r]|]; [exfalso; eapply Hr; reflexivity| |]);
    cbn [tr_opt_nonempty option_map trp_rel_set_arch trp_rel_set_restrictions
         r_name r_archqual r_version r_arch r_restr]; rewrite ?N.add_0_r; reflexivity.
Qed.

(** ** parse_relations *)

(** A translated result read in the model's shape: the value and the state (here: the number of
    warnings) on normal return, the exception kind otherwise. *)
Definition mres_result {A S} (m : mres A S) : result (A * S) :=
  match m with MOk a s => Ok (a, s) | MErr e _ => Err e end.

(** the inner comprehension [[parse_rel(or_dep) for or_dep in or_deps]] from [n] warnings on *)
Lemma parse_alts_mapS (F : N -> str -> mres rel N) :
  (forall n x, F n x = tr_parse_rel n x) ->
  forall l n, mres_result (tr_mapS F l n) = (do rn <- parse_alts l; Ok (fst rn, (n + snd rn)%N)).
Proof.
  intros HF. induction l as [|x l IH]; intros n; cbn [tr_mapS parse_alts bind mres_result].
  - cbn [fst snd]. rewrite N.add_0_r. reflexivity.
  - rewrite HF, tr_parse_rel_eq.
    destruct (parse_rel x) as [[d w]|e]; cbn [bind mres_result]; [|reflexivity].
    specialize (IH (n + (if w then 1 else 0))%N).
    destruct (tr_mapS F l (n + (if w then 1 else 0))%N) as [bs s|e s];
      destruct (parse_alts l) as [[ds k]|e']; cbn [bind mres_result fst snd] in IH |- *;
      try discriminate; [|congruence].
    injection IH as -> ->. rewrite N.add_assoc. reflexivity.
Qed.

(** the outer comprehension, over the pieces of the top-level split *)
Lemma parse_conj_mapS (G : N -> list str -> mres (list rel) N) :
  (forall n l, mres_result (G n l) = (do rn <- parse_alts l; Ok (fst rn, (n + snd rn)%N))) ->
  forall ls n, mres_result (tr_mapS G ls n) = (do rn <- parse_conj ls; Ok (fst rn, (n + snd rn)%N)).
Proof.
  intros HG. induction ls as [|l ls IH]; intros n; cbn [tr_mapS parse_conj bind mres_result].
  - cbn [fst snd]. rewrite N.add_0_r. reflexivity.
  - specialize (HG n l).
    destruct (G n l) as [a s|e s]; destruct (parse_alts l) as [[ds k]|e'];
      cbn [bind mres_result fst snd] in HG |- *; try discriminate; [|congruence].
    injection HG as -> ->.
    specialize (IH (n + k)%N).
    destruct (tr_mapS G ls (n + k)%N) as [bs s|e s];
      destruct (parse_conj ls) as [[dss k']|e']; cbn [bind mres_result fst snd] in IH |- *;
      try discriminate; [|congruence].
    injection IH as -> ->. rewrite N.add_assoc. reflexivity.
Qed.

(** PkgRelation.parse_relations(raw) when [n] warnings have been emitted before: the same structure
    and [n] plus the model's number of warnings, or the same exception kind *)
Lemma tr_parse_relations_eq n raw :
  mres_result (tr_parse_relations n raw)
  = (do rn <- parse_relations raw; Ok (fst rn, (n + snd rn)%N)).
Proof.
  unfold tr_parse_relations, parse_relations, trp_comma_split, trp_pipe_split, trp_strip. cbv zeta.
  match goal with
  | |- mres_result (match ?m with MOk _ _ => _ | MErr _ _ => _ end) = _ =>
      transitivity (mres_result m); [destruct m; reflexivity|]
  end.
  apply parse_conj_mapS. intros k l.
  match goal with
  | |- mres_result (match ?m with MOk _ _ => _ | MErr _ _ => _ end) = _ =>
      transitivity (mres_result m); [destruct m; reflexivity|]
  end.
  apply parse_alts_mapS. intros k' x. destruct (tr_parse_rel k' x); reflexivity.
Qed.

(** … and from a fresh count: exactly the model's result *)
Lemma tr_parse_relations_eq0 raw :
  mres_result (tr_parse_relations 0%N raw) = parse_relations raw.
Proof.
  rewrite tr_parse_relations_eq. destruct (parse_relations raw) as [[r w]|e]; reflexivity.
Qed.
