(** C02 proofs, part 4: texts without a final line end; the constructor on a
    whole document (it reads the first paragraph). *)
From Coq Require Import Lia ZifyBool.
From Verif Require Import Lib.Base Lib.PyStr Gen.PyChars Deb822.Model Deb822.Spec
  Deb822.ProofsStr Deb822.ProofsParse Deb822.ProofsConsume Deb822.Proofs.

Local Open Scope N_scope.

(** * A last line without line end *)

Lemma splitlines_aux_unlines_last islb keep ls last :
  forallb (lb_free islb) ls = true -> lb_free islb last = true -> last <> [] -> islb LF = true ->
  splitlines_aux islb keep (unlines ls ++ last) []
  = map (fun l => l ++ if keep then [LF] else []) ls ++ [last].
Proof.
  intros Hls Hlast Hne Hlf. induction ls as [|l ls IH].
  - cbn [unlines map concat app]. rewrite splitlines_aux_last by exact Hlast. cbn [rev app].
    destruct last; [congruence|reflexivity].
  - cbn [forallb] in Hls. apply andb_true_iff in Hls. destruct Hls as [Hl Hls].
    rewrite unlines_cons, <- app_assoc. cbn [app]. rewrite splitlines_aux_line by assumption.
    cbn [rev app map]. now rewrite IH.
Qed.

Lemma splitlines_aux_unlines_crlf_last islb keep ls last :
  forallb (lb_free islb) ls = true -> lb_free islb last = true -> last <> [] -> islb CR = true ->
  splitlines_aux islb keep (unlines_with [CR; LF] ls ++ last) []
  = map (fun l => l ++ if keep then [CR; LF] else []) ls ++ [last].
Proof.
  intros Hls Hlast Hne Hcr. induction ls as [|l ls IH].
  - cbn [unlines_with map concat app]. rewrite splitlines_aux_last by exact Hlast. cbn [rev app].
    destruct last; [congruence|reflexivity].
  - cbn [forallb] in Hls. apply andb_true_iff in Hls. destruct Hls as [Hl Hls].
    rewrite unlines_with_crlf_cons, <- app_assoc. cbn [app].
    rewrite splitlines_aux_line_crlf by assumption. cbn [rev app map]. now rewrite IH.
Qed.

(** the text of [init ++ [last]] whose last line has no line end *)
Definition text_nofinal (crlf : bool) (init : list str) (last : str) : str :=
  unlines_with (eol_of crlf) init ++ last.

Definition forms_nofinal (crlf : bool) (init : list str) (last : str) : list input :=
  let t := text_nofinal crlf init last in
  [InStr t; InBytes t; InFile t; InLines (map (fun l => l ++ eol_of crlf) init ++ [last])].

Lemma splitlines_text_nofinal islb crlf init last :
  forallb (lb_free islb) init = true -> lb_free islb last = true -> last <> [] ->
  islb LF = true -> islb CR = true ->
  splitlines islb false (text_nofinal crlf init last) = init ++ [last].
Proof.
  intros Hi Hl Hne Hlf Hcr. unfold splitlines, text_nofinal. destruct crlf; cbn [eol_of].
  - rewrite splitlines_aux_unlines_crlf_last by assumption. now rewrite map_app_nil.
  - change (unlines_with [LF] init) with (unlines init).
    rewrite splitlines_aux_unlines_last by assumption. now rewrite map_app_nil.
Qed.

Lemma file_lines_text_nofinal crlf init last :
  forallb no_linebreak init = true -> no_linebreak last = true -> last <> [] ->
  file_lines (text_nofinal crlf init last) = map (fun l => l ++ eol_of crlf) init ++ [last].
Proof.
  intros Hi Hl Hne. unfold file_lines, splitlines, text_nofinal. destruct crlf; cbn [eol_of].
  - replace (unlines_with [CR; LF] init) with (unlines (map (fun l => l ++ [CR]) init)).
    2:{ unfold unlines, unlines_with. rewrite map_map. f_equal. apply map_ext. intros l.
        now rewrite <- app_assoc. }
    rewrite splitlines_aux_unlines_last; [| |now apply no_linebreak_lb_free_lf|exact Hne|reflexivity].
    + rewrite map_map. f_equal. apply map_ext. intros l. now rewrite <- app_assoc.
    + rewrite forallb_forall. intros x Hx. apply in_map_iff in Hx. destruct Hx as (l & <- & Hin).
      apply lb_free_lf_cr. rewrite forallb_forall in Hi. now apply Hi.
  - change (unlines_with [LF] init) with (unlines init).
    apply splitlines_aux_unlines_last; [|now apply no_linebreak_lb_free_lf|exact Hne|reflexivity].
    eapply forallb_impl; [|exact Hi]. apply no_linebreak_lb_free_lf.
Qed.

Lemma lines_id_ok ls :
  forallb no_linebreak ls = true -> forallb line_ok ls = true /\ map chomp ls = ls.
Proof.
  intros H. split.
  - eapply forallb_impl; [|exact H]. intros l Hl. unfold line_ok, chomp. now rewrite chomp_id.
  - induction ls as [|l ls IH]; [reflexivity|]. cbn [forallb map] in *.
    apply andb_true_iff in H. destruct H as [Hl Hls]. unfold chomp at 1. now rewrite chomp_id, IH.
Qed.

Lemma lines_of_forms_nofinal crlf init last i :
  forallb no_linebreak (init ++ [last]) = true -> last <> [] ->
  In i (forms_nofinal crlf init last) ->
  forallb line_ok (lines_of i) = true /\ map chomp (lines_of i) = init ++ [last].
Proof.
  intros H Hne Hi. pose proof (lines_id_ok _ H) as Hid.
  rewrite forallb_app in H. apply andb_true_iff in H. destruct H as [Hinit Hlast].
  cbn [forallb] in Hlast. rewrite andb_true_r in Hlast.
  assert (Hmix : forallb line_ok (map (fun l => l ++ eol_of crlf) init ++ [last]) = true
                 /\ map chomp (map (fun l => l ++ eol_of crlf) init ++ [last]) = init ++ [last]).
  { split.
    - rewrite forallb_app, (line_ok_eol _ _ Hinit). cbn [forallb andb]. rewrite andb_true_r.
      unfold line_ok, chomp. now rewrite chomp_id.
    - rewrite map_app, (map_chomp_eol _ _ Hinit). cbn [map]. unfold chomp at 1. now rewrite chomp_id. }
  cbn [forms_nofinal In] in Hi. destruct Hi as [<-|[<-|[<-|[<-|[]]]]]; cbn [lines_of].
  - rewrite splitlines_text_nofinal; [exact Hid|exact Hinit|exact Hlast|exact Hne|reflexivity|reflexivity].
  - rewrite splitlines_text_nofinal;
      [exact Hid|now apply lb_free_all_bytes|now apply no_linebreak_lb_free_bytes|exact Hne|reflexivity|reflexivity].
  - rewrite file_lines_text_nofinal by assumption. exact Hmix.
  - exact Hmix.
Qed.

(** input_form_invariant for texts whose last line has no line end *)
Theorem iter_paragraphs_forms_nofinal c ws crlf init last i :
  forallb no_linebreak (init ++ [last]) = true -> last <> [] ->
  In i (forms_nofinal crlf init last) ->
  iter_paragraphs c ws i = iter_lines c ws (init ++ [last]).
Proof.
  intros H Hne Hi. destruct (lines_of_forms_nofinal crlf init last i H Hne Hi) as [Hok Hch].
  unfold iter_paragraphs. rewrite <- (iter_lines_chomp c ws _ Hok). now rewrite Hch.
Qed.

(** * The constructor on a document reads its first paragraph *)

Lemma deb822_new_init c ws i :
  exists c', deb822_new c ws i = fst (init_of c' ws (lines_of i)).
Proof.
  destruct c.
  - exists CDeb822. destruct i; reflexivity.
  - destruct i; [exists CDeb822|exists CDeb822|exists CGpgMv|exists CGpgMv]; reflexivity.
Qed.

Theorem deb822_new_doc c ws crlf lead b bs i :
  forallb ws_line lead = true -> valid_blocks ws (b :: bs) = true ->
  In i (forms_of crlf (doc_lines lead (b :: bs))) ->
  deb822_new c ws i = Ok (expected_para (b_para b)).
Proof.
  intros Hlead Hbs Hi.
  pose proof (doc_lines_no_linebreak ws _ _ Hlead Hbs) as Hnl.
  destruct (lines_of_forms crlf _ i Hnl Hi) as [Hok Hch].
  destruct (deb822_new_init c ws i) as [c' ->].
  assert (E : fst (init_of c' ws (lines_of i)) = fst (init_of c' ws (map chomp (lines_of i))))
    by now rewrite init_of_chomp.
  rewrite E, Hch. cbn [valid_blocks] in Hbs. apply andb_true_iff in Hbs. destruct Hbs as [Hb _].
  unfold doc_lines. cbn [map concat].
  destruct (init_of_block c' ws (is_nil' bs) lead b (concat (map block_lines bs)) Hlead Hb) as (E2 & _).
  { destruct bs; [reflexivity|discriminate]. }
  now rewrite E2.
Qed.

(** for Deb822 itself also with comment lines anywhere *)
Theorem deb822_new_doc_comments ws crlf lead b bs ls i :
  forallb ws_line lead = true -> valid_blocks ws (b :: bs) = true ->
  forallb no_linebreak ls = true -> filter not_comment ls = doc_lines lead (b :: bs) ->
  In i (forms_of crlf ls) ->
  deb822_new CDeb822 ws i = Ok (expected_para (b_para b)).
Proof.
  intros Hlead Hbs Hls Hf Hi. rewrite (deb822_new_forms ws crlf ls i Hls Hi).
  rewrite deb822_init_comments, Hf.
  cbn [valid_blocks] in Hbs. apply andb_true_iff in Hbs. destruct Hbs as [Hb _].
  unfold doc_lines. cbn [map concat].
  destruct (init_of_block CDeb822 ws (is_nil' bs) lead b (concat (map block_lines bs)) Hlead Hb) as (E2 & _).
  { destruct bs; [reflexivity|discriminate]. }
  cbn [init_of] in E2. now rewrite E2.
Qed.

(** * split_gpg_and_payload itself (the static method, raw iterator) *)

Theorem split_payload_armor ws lead a d rest :
  forallb ws_line lead = true -> valid_armor ws a = true -> valid_para d = true -> d <> [] ->
  exists pre post,
    split_gpg_and_payload ws (lead ++ armor_lines a (para_lines d) ++ rest)
    = (Ok (pre, para_lines d, post), rest).
Proof.
  intros Hlead Ha Hv Hne. unfold split_gpg_and_payload.
  destruct (consume_armor false ws lead a (para_lines d) rest Hlead Ha (para_lines_safe d Hv))
    as (g' & E & El).
  rewrite E. unfold gpg_result. rewrite El.
  pose proof (para_lines_nonnil d Hne) as Hn.
  destruct (para_lines d) as [|l ls] eqn:Ep; [congruence|]. now exists (g_pre g'), (g_post g').
Qed.

Theorem split_payload_plain ws lead d sep rest :
  forallb ws_line lead = true -> valid_para d = true -> d <> [] -> sep_line ws sep = true ->
  split_gpg_and_payload ws (lead ++ para_lines d ++ sep :: rest) = (Ok ([], para_lines d, []), rest)
  /\ split_gpg_and_payload ws (lead ++ para_lines d) = (Ok ([], para_lines d, []), []).
Proof.
  intros Hlead Hv Hne Hs. unfold split_gpg_and_payload.
  pose proof (para_lines_nonnil d Hne) as Hn. pose proof (para_lines_safe d Hv) as Hsafe.
  destruct (para_lines d) as [|l ls] eqn:Ep; [congruence|]. split.
  - now rewrite consume_plain_sep.
  - now rewrite consume_plain_end.
Qed.
