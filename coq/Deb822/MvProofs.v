(** Proofs for C12 (structured multi-line fields). *)
From Verif Require Import Lib.Base Lib.PyStr Lib.Dec Gen.PyChars Gen.MvTables
  Deb822.Multivalued Deb822.MvSpec.

(** The hand-written choice of [_fixed_field_lengths] implementation agrees with
    what the source defines (regenerated). *)
Lemma ffl_kind_matches_tables : forall c,
  has_ffl c = match ffl_kind c with Some _ => true | None => false end.
Proof. destruct c; reflexivity. Qed.
