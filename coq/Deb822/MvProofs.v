(** Proofs for C12 (structured multi-line fields).

    Layout:
      1. generic lemmas (mapM, keys, records)
      2. properties of the REGENERATED tables, established by computation over
         Gen/MvTables.v (finite tables: a complete sweep)
      3. one record line: [fmt_item] = the documented line
      4. the size column width: [fixed_field_lengths] = the documented rule
      5. [get_as_string] = [spec_value]; [dump_para] = [spec_dump] on the domain
      6. totality of [dump_para] on every paragraph whose PRESENT fields are dumpable
      7. parsing: [mv_parse_field] of the documented text gives the records back
      8. the whole paragraph: [mv_init] *)
From Coq Require Import Lia.
From Verif Require Import Lib.Base Lib.PyStr Lib.Dec Gen.PyChars Gen.MvTables
  Deb822.Multivalued Deb822.MvSpec.

(** The hand-written choice of [_fixed_field_lengths] implementation agrees with
    what the source defines (regenerated). *)
Lemma ffl_kind_matches_tables : forall c,
  has_ffl c = match ffl_kind c with Some _ => true | None => false end.
Proof. destruct c; reflexivity. Qed.

(** * 1. Generic lemmas *)

Lemma mapM_ok_map {A B} (f : A -> result B) (g : A -> B) l :
  (forall a, In a l -> f a = Ok (g a)) -> mapM f l = Ok (map g l).
Proof.
  induction l as [|a l IH]; simpl; intros H; [reflexivity|].
  rewrite H by now left. simpl. rewrite IH; [reflexivity|].
  intros b Hb. apply H. now right.
Qed.

Lemma mapM_is_ok {A B} (f : A -> result B) l :
  (forall a, In a l -> is_ok (f a) = true) -> is_ok (mapM f l) = true.
Proof.
  induction l as [|a l IH]; simpl; intros H; [reflexivity|].
  pose proof (H a (or_introl eq_refl)) as Ha.
  destruct (f a) as [b|e]; [|discriminate]. simpl.
  assert (Hl : is_ok (mapM f l) = true) by (apply IH; intros; apply H; now right).
  destruct (mapM f l); [reflexivity|discriminate].
Qed.

Lemma is_ok_exists {A} (r : result A) : is_ok r = true -> exists a, r = Ok a.
Proof. destruct r; [eauto|discriminate]. Qed.

Lemma key_eqb_refl ci a : key_eqb ci a a = true.
Proof. destruct ci; simpl; apply str_eqb_refl. Qed.

Lemma key_eqb_weaken ci a b : key_eqb ci a b = false -> key_eqb false a b = false.
Proof.
  destruct ci; [|auto]. simpl. intros H.
  destruct (str_eqb a b) eqn:E; [|reflexivity].
  apply str_eqb_eq in E. subst. now rewrite str_eqb_refl in H.
Qed.

Lemma key_eqb_true_false ci a b : key_eqb true a b = false -> key_eqb ci a b = false.
Proof. destruct ci; [auto|]. apply (key_eqb_weaken true). Qed.

(** [x] is not (up to [ci]) among the keys [l] *)
Definition notin (ci : bool) (x : str) (l : list str) : bool :=
  forallb (fun k => negb (key_eqb ci k x)) l.

Lemma notin_ci ci x l : notin true x l = true -> notin ci x l = true.
Proof.
  unfold notin. rewrite !forallb_forall. intros H k Hk.
  specialize (H k Hk). apply negb_true_iff in H. apply negb_true_iff.
  now apply key_eqb_true_false.
Qed.

Lemma notin_app ci x a b : notin ci x (a ++ b) = notin ci x a && notin ci x b.
Proof. unfold notin. apply forallb_app. Qed.

(** sub-field names pairwise different, even up to case *)
Fixpoint nodup_ci (l : list str) : bool :=
  match l with
  | [] => true
  | x :: l' => forallb (fun y => negb (key_eqb true x y)) l' && nodup_ci l'
  end.

Lemma rec_get_skip ci x : forall pre rpre rest,
  length pre = length rpre -> notin ci x pre = true ->
  rec_get ci x (combine pre rpre ++ rest) = rec_get ci x rest.
Proof.
  induction pre as [|k pre IH]; intros rpre rest Hlen Hn; [reflexivity|].
  destruct rpre as [|t rpre]; [discriminate|].
  simpl in *. apply andb_true_iff in Hn. destruct Hn as [Hk Hn].
  apply negb_true_iff in Hk. rewrite Hk. apply IH; [lia|assumption].
Qed.

Lemma combine_snoc {A B} (a : list A) (b : list B) x y :
  length a = length b -> combine (a ++ [x]) (b ++ [y]) = combine a b ++ [(x, y)].
Proof.
  revert b. induction a as [|a0 a IH]; intros [|b0 b] H; try discriminate; [reflexivity|].
  simpl in *. f_equal. apply IH. lia.
Qed.

Lemma existsb_repeat {A} (p : A -> bool) a n : p a = false -> existsb p (repeat a n) = false.
Proof. intros H. induction n; simpl; [reflexivity|]. now rewrite H. Qed.

Lemma forallb_repeat {A} (p : A -> bool) a n : p a = true -> forallb p (repeat a n) = true.
Proof. intros H. induction n; simpl; [reflexivity|]. now rewrite H. Qed.

Lemma mem_char_pad n t : mem_char LF (pad_left n t) = mem_char LF t.
Proof.
  unfold pad_left, mem_char. rewrite existsb_app, existsb_repeat; [reflexivity|].
  reflexivity.
Qed.

(** * 3. One record line *)

(** The text of one column, as the model prints it. *)
Definition col (len : option N) (x t : str) : str :=
  match (if str_eqb x mv_size_key then len else None) with
  | Some n => pad_left n t
  | None => t
  end.

Lemma mem_char_col len x t : mem_char LF (col len x t) = mem_char LF t.
Proof.
  unfold col. destruct (str_eqb x mv_size_key); [destruct len|]; auto using mem_char_pad.
Qed.

Lemma fmt_cols ci len : forall order row pre rpre,
  length row = length order -> length pre = length rpre ->
  (forall y, In y order -> notin true y pre = true) ->
  nodup_ci order = true ->
  forallb (fun t => negb (mem_char LF t)) row = true ->
  mapM (fmt_col ci len (RecItem (combine pre rpre ++ combine order row))) order
  = Ok (map (fun xt => SP :: col len (fst xt) (snd xt)) (combine order row)).
Proof.
  induction order as [|x order IH]; intros row pre rpre Hlen Hpre Hnotin Hnd Hlf; [reflexivity|].
  destruct row as [|t row]; [discriminate|].
  simpl in Hlen, Hnd, Hlf.
  apply andb_true_iff in Hnd. destruct Hnd as [Hx Hnd].
  apply andb_true_iff in Hlf. destruct Hlf as [Ht Hlf].
  cbn [mapM combine map fst snd].
  assert (Hget : rec_get ci x (combine pre rpre ++ (x, t) :: combine order row) = Ok t).
  { rewrite rec_get_skip; [|assumption|apply notin_ci, Hnotin; now left].
    simpl. now rewrite key_eqb_refl. }
  unfold fmt_col at 1. cbn [item_get]. rewrite Hget. cbn [bind].
  fold (col len x t). rewrite mem_char_col.
  apply negb_true_iff in Ht. rewrite Ht. cbn [bind].
  replace (combine pre rpre ++ (x, t) :: combine order row)
    with (combine (pre ++ [x]) (rpre ++ [t]) ++ combine order row)
    by (rewrite combine_snoc by assumption; now rewrite <- app_assoc).
  rewrite IH; [reflexivity|lia|rewrite !app_length; simpl; lia| |assumption|assumption].
  intros y Hy. rewrite notin_app. rewrite Hnotin by now right. simpl.
  rewrite forallb_forall in Hx. rewrite (Hx y Hy). reflexivity.
Qed.

Lemma fmt_item_row ci len order row :
  length row = length order -> nodup_ci order = true ->
  forallb (fun t => negb (mem_char LF t)) row = true ->
  fmt_item ci order len (RecItem (combine order row))
  = Ok (concat (map (fun xt => SP :: col len (fst xt) (snd xt)) (combine order row)) ++ [LF]).
Proof.
  intros Hlen Hnd Hlf. unfold fmt_item.
  pose proof (fmt_cols ci len order row [] [] Hlen eq_refl (fun _ _ => eq_refl) Hnd Hlf) as H.
  cbn [combine app] in H. rewrite H. reflexivity.
Qed.

(** * 2. Facts about the regenerated tables (complete sweeps of finite tables) *)

Definition is_nil {A} (l : list A) : bool := match l with [] => true | _ => false end.

(** any sub-field name equal to the size key up to case IS the size key *)
Definition size_exact (order : list str) : bool :=
  forallb (fun x => Bool.eqb (key_eqb true x mv_size_key) (str_eqb x mv_size_key)) order.
Definition has_size (order : list str) : bool := existsb (fun x => str_eqb x mv_size_key) order.

Definition order_ok (order : list str) : bool :=
  nodup_ci order && negb (is_nil order) && size_exact order.

Fixpoint nodup_exact (l : list str) : bool :=
  match l with
  | [] => true
  | x :: l' => negb (existsb (str_eqb x) l') && nodup_exact l'
  end.

Definition table_ok (c : cls) : bool :=
  forallb (fun kv => str_eqb (ascii_lower (fst kv)) (fst kv)
                     && order_ok (snd kv)
                     && match ffl_kind c with None => true | Some _ => has_size (snd kv) end)
          (table_of c)
  && nodup_exact (map fst (table_of c)).

Lemma tables_ok : forall c, table_ok c = true.
Proof. destruct c; vm_compute; reflexivity. Qed.

(** The regenerated tables are the documented ones (field names in lower case,
    sub-field names as documented, same order). *)
Lemma tables_match_doc : forall c, table_of c = doc_lower c.
Proof. destruct c; vm_compute; reflexivity. Qed.

Lemma spec_size_is_model_size : spec_size_name = mv_size_key.
Proof. vm_compute. reflexivity. Qed.

Lemma fixed_width_is_16 : release_fixed_width = 16%N.
Proof. vm_compute. reflexivity. Qed.

Lemma linebreak_is_space c : py_islinebreak c = true -> py_isspace c = true.
Proof.
  unfold py_islinebreak. intros H. apply existsb_exists in H. destruct H as [x [Hin Hx]].
  apply N.eqb_eq in Hx. subst x.
  assert (G : forallb py_isspace py_linebreaks = true) by (vm_compute; reflexivity).
  rewrite forallb_forall in G. now apply G.
Qed.

Lemma table_lookup_in c k order :
  lookup_exact k (table_of c) = Some order -> In (k, order) (table_of c).
Proof.
  generalize (table_of c). induction l as [|[k' o] l IH]; simpl; [discriminate|].
  destruct (str_eqb k' k) eqn:E.
  - intros [= <-]. apply str_eqb_eq in E. subst. now left.
  - intros H. right. now apply IH.
Qed.

Lemma table_entry_ok c k order :
  In (k, order) (table_of c) ->
  ascii_lower k = k /\ order_ok order = true
  /\ (ffl_kind c <> None -> has_size order = true).
Proof.
  intros Hin. pose proof (tables_ok c) as H. unfold table_ok in H.
  apply andb_true_iff in H. destruct H as [H _].
  rewrite forallb_forall in H. specialize (H _ Hin). cbn [fst snd] in H.
  apply andb_true_iff in H. destruct H as [H H3].
  apply andb_true_iff in H. destruct H as [H1 H2].
  apply str_eqb_eq in H1. repeat split; auto.
  intros Hk. destruct (ffl_kind c); [assumption|congruence].
Qed.

Lemma order_ok_parts order :
  order_ok order = true -> nodup_ci order = true /\ order <> [] /\ size_exact order = true.
Proof.
  unfold order_ok. intros H.
  apply andb_true_iff in H. destruct H as [H H3].
  apply andb_true_iff in H. destruct H as [H1 H2].
  repeat split; auto. destruct order; [discriminate|congruence].
Qed.

(** * 4. The width of the size column *)

Lemma rec_get_lookup ci : forall order row,
  size_exact order = true ->
  rec_get ci mv_size_key (combine order row)
  = match lookup_exact mv_size_key (combine order row) with
    | Some t => Ok t
    | None => Err KeyError
    end.
Proof.
  induction order as [|x order IH]; intros row Hse; [reflexivity|].
  destruct row as [|t row]; [reflexivity|].
  simpl in Hse. apply andb_true_iff in Hse. destruct Hse as [Hx Hse].
  apply eqb_prop in Hx. cbn [combine rec_get lookup_exact].
  assert (E : key_eqb ci x mv_size_key = str_eqb x mv_size_key).
  { destruct ci; [exact Hx|reflexivity]. }
  rewrite E. destruct (str_eqb x mv_size_key); [reflexivity|]. now apply IH.
Qed.

Lemma filter_lookup k : forall order row,
  nodup_ci order = true ->
  map snd (filter (fun xt => str_eqb (fst xt) k) (combine order row))
  = match lookup_exact k (combine order row) with Some t => [t] | None => @nil str end.
Proof.
  induction order as [|x order IH]; intros row Hnd; [reflexivity|].
  destruct row as [|t row]; [reflexivity|].
  cbn [nodup_ci] in Hnd. apply andb_true_iff in Hnd. destruct Hnd as [Hx Hnd].
  cbn [combine filter lookup_exact fst]. destruct (str_eqb x k) eqn:E.
  - apply str_eqb_eq in E. subst x. cbn [map snd]. f_equal.
    (* no other column carries the same name *)
    clear IH Hnd. revert row. induction order as [|y order IH]; intros row; [reflexivity|].
    destruct row as [|u row]; [reflexivity|].
    cbn [forallb] in Hx. apply andb_true_iff in Hx. destruct Hx as [Hy Hx].
    cbn [combine filter fst]. destruct (str_eqb y k) eqn:E2.
    + apply str_eqb_eq in E2. subst y. now rewrite key_eqb_refl in Hy.
    + now apply IH.
  - now apply IH.
Qed.

Lemma lookup_size_some : forall (order : list str) (row : list str),
  has_size order = true -> length row = length order ->
  exists t, lookup_exact mv_size_key (combine order row) = Some t.
Proof.
  induction order as [|x order IH]; intros row Hs Hlen; [discriminate|].
  destruct row as [|t row]; [discriminate|].
  simpl in Hs, Hlen. cbn [combine lookup_exact].
  destruct (str_eqb x mv_size_key); [eauto|]. simpl in Hs. apply IH; [assumption|lia].
Qed.

Definition measure (t : str) : N := N.of_nat (length t).

Lemma size_lengths ci order : forall rows,
  nodup_ci order = true -> size_exact order = true -> has_size order = true ->
  forallb (fun row => (length row =? length order)%nat) rows = true ->
  mapM (fun it => do s <- item_get ci mv_size_key it; Ok (N.of_nat (length s)))
       (map RecItem (map (combine order) rows))
  = Ok (map measure (sizes_of order rows)).
Proof.
  intros rows Hnd Hse Hs. induction rows as [|row rows IH]; intros Hl; [reflexivity|].
  simpl in Hl. apply andb_true_iff in Hl. destruct Hl as [Hr Hl].
  apply Nat.eqb_eq in Hr.
  cbn [map mapM item_get]. rewrite rec_get_lookup by assumption.
  destruct (lookup_size_some order row Hs Hr) as [t Ht].
  unfold sizes_of. cbn [flat_map]. rewrite spec_size_is_model_size.
  rewrite filter_lookup by assumption. rewrite Ht. cbn [bind].
  fold (sizes_of order rows). unfold sizes_of in IH. rewrite spec_size_is_model_size in IH.
  rewrite IH by assumption. reflexivity.
Qed.

Lemma sizes_of_nonempty order row rows :
  nodup_ci order = true -> has_size order = true -> length row = length order ->
  exists t ts, sizes_of order (row :: rows) = t :: ts.
Proof.
  intros Hnd Hs Hr. unfold sizes_of. cbn [flat_map]. rewrite spec_size_is_model_size.
  rewrite filter_lookup by assumption.
  destruct (lookup_size_some order row Hs Hr) as [t ->]. simpl. eauto.
Qed.

Lemma max_of_nat l :
  fold_right N.max 0%N (map measure l) = N.of_nat (longest l).
Proof.
  unfold longest, measure. induction l as [|t l IH]; [reflexivity|].
  cbn [map fold_right]. rewrite IH. now rewrite Nat2N.inj_max.
Qed.

(** [_get_size_field_length] on a list of complete records *)
Lemma size_field_length_rows ci order row rows :
  nodup_ci order = true -> size_exact order = true -> has_size order = true ->
  forallb (fun r => (length r =? length order)%nat) (row :: rows) = true ->
  size_field_length ci (Multi (spec_records order (row :: rows)))
  = Ok (N.of_nat (longest (sizes_of order (row :: rows)))).
Proof.
  intros Hnd Hse Hs Hl. unfold size_field_length, spec_records. cbn [items_iter].
  rewrite size_lengths by assumption. cbn [bind].
  assert (Hr : length row = length order).
  { simpl in Hl. apply andb_true_iff in Hl. destruct Hl as [Hr _]. now apply Nat.eqb_eq. }
  destruct (sizes_of_nonempty order row rows Hnd Hs Hr) as [t [ts E]].
  rewrite E. cbn [map]. rewrite <- E. f_equal. rewrite <- max_of_nat. now rewrite E.
Qed.

(** ** [_fixed_field_lengths] as a pure function, when no lookup fails *)

Definition W (ci : bool) (v : fvalue) : N :=
  match size_field_length ci v with Ok n => n | Err _ => 0%N end.

(** the entry recorded for a present field holding [v] ([None]: no entry) *)
Definition ffl_entry (c : cls) (b : behav) (ci : bool) (v : fvalue) : option N :=
  match ffl_kind c with
  | None => None
  | Some FflPdiff => if has_keys v then None else Some (W ci v)
  | Some FflRelease => Some (match b with Apt => release_fixed_width | Dak => W ci v end)
  end.

(** does computing that entry call [_get_size_field_length] on [v]? *)
Definition ffl_measures (c : cls) (b : behav) (v : fvalue) : bool :=
  match ffl_kind c with
  | None => false
  | Some FflPdiff => negb (has_keys v)
  | Some FflRelease => match b with Apt => false | Dak => true end
  end.

Definition ffl_expect (w : fvalue -> option N) (keys : list str) (p : para) : list (str * N) :=
  flat_map (fun k => match para_get k p with
                     | Some v => match w v with Some n => [(k, n)] | None => [] end
                     | None => []
                     end) keys.

Definition ffl_model (c : cls) (b : behav) (ci : bool) (p : para) : option (list (str * N)) :=
  match ffl_kind c with
  | None => None
  | Some _ => Some (ffl_expect (ffl_entry c b ci) (map fst (table_of c)) p)
  end.

(** whenever [_get_size_field_length] is called on a PRESENT structured field, that
    field is a list whose records all carry a size *)
Definition sized_ok (c : cls) (b : behav) (ci : bool) (p : para) : Prop :=
  forall k v, In k (map fst (table_of c)) -> para_get k p = Some v ->
    ffl_measures c b v = true -> is_ok (size_field_length ci v) = true.

Lemma W_ok ci v : is_ok (size_field_length ci v) = true -> size_field_length ci v = Ok (W ci v).
Proof. unfold W. destruct (size_field_length ci v); [reflexivity|discriminate]. Qed.

Lemma ffl_pdiff_expect ci p : forall keys,
  (forall k v, In k keys -> para_get k p = Some v -> has_keys v = false ->
     is_ok (size_field_length ci v) = true) ->
  ffl_pdiff ci keys p
  = Ok (ffl_expect (fun v => if has_keys v then None else Some (W ci v)) keys p).
Proof.
  induction keys as [|k keys IH]; intros H; [reflexivity|].
  cbn [ffl_pdiff ffl_expect flat_map].
  assert (IH' : ffl_pdiff ci keys p
                = Ok (ffl_expect (fun v => if has_keys v then None else Some (W ci v)) keys p)).
  { apply IH. intros k' v' Hin. apply H. now right. }
  destruct (para_get k p) as [v|] eqn:E; [|exact IH'].
  destruct (has_keys v) eqn:Hk; [exact IH'|].
  rewrite (W_ok ci v (H k v (or_introl eq_refl) E Hk)). cbn [bind]. rewrite IH'. reflexivity.
Qed.

Lemma ffl_release_apt_expect ci p : forall keys,
  ffl_release Apt ci keys p = Ok (ffl_expect (fun _ => Some release_fixed_width) keys p).
Proof.
  induction keys as [|k keys IH]; [reflexivity|].
  cbn [ffl_release ffl_expect flat_map]. rewrite IH.
  destruct (para_get k p); reflexivity.
Qed.

Lemma ffl_release_dak_expect ci p : forall keys,
  (forall k v, In k keys -> para_get k p = Some v -> is_ok (size_field_length ci v) = true) ->
  ffl_release Dak ci keys p = Ok (ffl_expect (fun v => Some (W ci v)) keys p).
Proof.
  induction keys as [|k keys IH]; intros H; [reflexivity|].
  cbn [ffl_release ffl_expect flat_map].
  assert (IH' : ffl_release Dak ci keys p = Ok (ffl_expect (fun v => Some (W ci v)) keys p)).
  { apply IH. intros k' v' Hin. apply H. now right. }
  destruct (para_get k p) as [v|] eqn:E.
  - rewrite (W_ok ci v (H k v (or_introl eq_refl) E)). cbn [bind]. rewrite IH'. reflexivity.
  - exact IH'.
Qed.

Lemma fixed_field_lengths_model c b ci p :
  sized_ok c b ci p -> fixed_field_lengths c b ci p = Ok (ffl_model c b ci p).
Proof.
  intros H. unfold fixed_field_lengths, ffl_model, ffl_entry, sized_ok, ffl_measures in *.
  destruct (ffl_kind c) as [[|]|]; [| |reflexivity].
  - rewrite ffl_pdiff_expect; [reflexivity|].
    intros k v Hin Hg Hk. apply (H k v Hin Hg). now rewrite Hk.
  - destruct b.
    + rewrite ffl_release_apt_expect. reflexivity.
    + rewrite ffl_release_dak_expect; [reflexivity|].
      intros k v Hin Hg. now apply (H k v).
Qed.

Lemma ffl_expect_lookup w p : forall keys k v,
  In k keys -> para_get k p = Some v -> lookup_exact k (ffl_expect w keys p) = w v.
Proof.
  intros keys k v Hin Hg. destruct (w v) as [n|] eqn:Ew.
  - revert Hin. induction keys as [|k0 keys IH]; intros Hin; [contradiction|].
    cbn [ffl_expect flat_map]. destruct (str_eqb k0 k) eqn:E.
    + apply str_eqb_eq in E. subst k0. rewrite Hg, Ew. cbn [app lookup_exact].
      now rewrite str_eqb_refl.
    + assert (Hin' : In k keys).
      { destruct Hin as [->|]; [now rewrite str_eqb_refl in E|assumption]. }
      destruct (para_get k0 p) as [v0|]; [|now apply IH].
      destruct (w v0); [|now apply IH]. cbn [app lookup_exact]. rewrite E. now apply IH.
  - clear Hin. induction keys as [|k0 keys IH]; [reflexivity|].
    cbn [ffl_expect flat_map]. destruct (para_get k0 p) as [v0|] eqn:E0; [|exact IH].
    destruct (w v0) as [n0|] eqn:Ew0; [|exact IH]. cbn [app lookup_exact].
    destruct (str_eqb k0 k) eqn:E; [|exact IH].
    apply str_eqb_eq in E. subst k0. congruence.
Qed.

(** The width [get_as_string] uses for the field stored under table key [k]. *)
Lemma ffl_model_lookup c b ci p k v :
  In k (map fst (table_of c)) -> para_get k p = Some v ->
  match ffl_model c b ci p with Some l => lookup_exact k l | None => None end
  = ffl_entry c b ci v.
Proof.
  intros Hin Hg. unfold ffl_model.
  destruct (ffl_kind c) eqn:Ek.
  - now apply ffl_expect_lookup.
  - unfold ffl_entry. now rewrite Ek.
Qed.

(** * 5. [get_as_string] prints the documented text *)

Lemma ascii_lower_idem s : ascii_lower (ascii_lower s) = ascii_lower s.
Proof.
  unfold ascii_lower. rewrite map_map. apply map_ext. intros c.
  unfold ascii_lower_char.
  destruct ((65 <=? c)%N && (c <=? 90)%N) eqn:E; [|now rewrite E].
  apply andb_true_iff in E. destruct E as [E1 E2].
  apply N.leb_le in E1. apply N.leb_le in E2.
  destruct ((65 <=? c + 32)%N && (c + 32 <=? 90)%N) eqn:E3; [|reflexivity].
  apply andb_true_iff in E3. destruct E3 as [_ E3]. apply N.leb_le in E3. lia.
Qed.

Lemma para_get_lower key p : para_get (ascii_lower key) p = para_get key p.
Proof.
  induction p as [|[k v] p IH]; [reflexivity|].
  cbn [para_get key_eqb]. rewrite ascii_lower_idem. now rewrite IH.
Qed.

Lemma mapM_map_ok {A B C} (f : B -> result C) (g : A -> B) (h : A -> C) l :
  (forall a, In a l -> f (g a) = Ok (h a)) -> mapM f (map g l) = Ok (map h l).
Proof.
  induction l as [|a l IH]; simpl; intros H; [reflexivity|].
  rewrite H by now left. simpl. rewrite IH; [reflexivity|].
  intros b Hb. apply H. now right.
Qed.

Lemma pad_is_rjust n t : pad_left (N.of_nat n) t = rjust n t.
Proof. unfold pad_left, rjust. f_equal. f_equal. lia. Qed.

Lemma col_spec w x t : col (option_map N.of_nat w) x t = spec_col w x t.
Proof.
  unfold col, spec_col. rewrite spec_size_is_model_size.
  destruct w as [n|]; cbn [option_map].
  - destruct (str_eqb x mv_size_key); [apply pad_is_rjust|reflexivity].
  - now destruct (str_eqb x mv_size_key).
Qed.

Lemma token_no_lf t : token_ok t = true -> negb (mem_char LF t) = true.
Proof.
  unfold token_ok. intros H. apply andb_true_iff in H. destruct H as [_ H].
  apply negb_true_iff. unfold mem_char.
  destruct (existsb (N.eqb LF) t) eqn:E; [|reflexivity].
  apply existsb_exists in E. destruct E as [c [Hin Hc]]. apply N.eqb_eq in Hc. subst c.
  rewrite forallb_forall in H. specialize (H _ Hin). discriminate H.
Qed.

Lemma row_ok_parts order row :
  row_ok order row = true ->
  length row = length order /\ forallb token_ok row = true
  /\ forallb (fun t => negb (mem_char LF t)) row = true.
Proof.
  unfold row_ok. intros H. apply andb_true_iff in H. destruct H as [H1 H2].
  apply Nat.eqb_eq in H1. repeat split; auto.
  rewrite forallb_forall in *. intros t Ht. apply token_no_lf. now apply H2.
Qed.

(** the text ends in a character that is not white space *)
Definition ends_ok (s : str) : bool :=
  match last_opt s with Some c => negb (py_isspace c) | None => false end.

Lemma last_opt_app {A} (a b : list A) : b <> [] -> last_opt (a ++ b) = last_opt b.
Proof.
  intros Hb. induction a as [|x a IH]; [reflexivity|].
  cbn [app]. destruct (a ++ b) eqn:E.
  - destruct a; [simpl in E; congruence|discriminate].
  - exact IH.
Qed.

Lemma ends_ok_app a b : ends_ok b = true -> ends_ok (a ++ b) = true.
Proof.
  unfold ends_ok. intros H. rewrite last_opt_app; [assumption|].
  intros ->. discriminate.
Qed.

Lemma last_opt_snoc {A} (s : list A) c : last_opt s = Some c -> exists y, s = y ++ [c].
Proof.
  induction s as [|x s IH]; [discriminate|].
  destruct s as [|x' s'].
  - intros [= ->]. now exists [].
  - intros H. destruct (IH H) as [y Hy]. exists (x :: y). simpl. now rewrite <- Hy.
Qed.

Lemma rstrip_lf_ends_ok s : ends_ok s = true -> rstrip_by (N.eqb LF) s = s.
Proof.
  unfold ends_ok. destruct (last_opt s) as [c|] eqn:E; [|discriminate]. intros Hc.
  destruct (last_opt_snoc s c E) as [y ->]. unfold rstrip_by.
  apply rdropwhile_app_keep. destruct (N.eqb_spec LF c) as [<-|]; [|reflexivity].
  discriminate Hc.
Qed.

Lemma token_ends_ok t : token_ok t = true -> ends_ok t = true.
Proof.
  unfold token_ok, ends_ok. intros H. apply andb_true_iff in H. destruct H as [Hne H].
  destruct (last_opt t) as [c|] eqn:E.
  - destruct (last_opt_snoc t c E) as [y ->]. rewrite forallb_app in H.
    apply andb_true_iff in H. destruct H as [_ H]. simpl in H. now rewrite andb_true_r in H.
  - destruct t as [|x t]; [discriminate|]. exfalso. clear -E.
    revert x E. induction t as [|x' t IH]; intros x E; [discriminate|]. exact (IH x' E).
Qed.

Lemma spec_col_ends_ok w x t : token_ok t = true -> ends_ok (spec_col w x t) = true.
Proof.
  intros H. unfold spec_col. destruct w; [|now apply token_ends_ok].
  destruct (str_eqb x spec_size_name); [|now apply token_ends_ok].
  unfold rjust. apply ends_ok_app. now apply token_ends_ok.
Qed.

Lemma spec_line_cons w x order t row :
  spec_line w (x :: order) (t :: row) = (SP :: spec_col w x t) ++ spec_line w order row.
Proof. reflexivity. Qed.

Lemma spec_line_ends_ok w : forall order row,
  order <> [] -> length row = length order -> forallb token_ok row = true ->
  ends_ok (spec_line w order row) = true.
Proof.
  induction order as [|x order IH]; intros row Hne Hlen Htok; [congruence|].
  destruct row as [|t row]; [discriminate|].
  simpl in Hlen, Htok. apply andb_true_iff in Htok. destruct Htok as [Ht Htok].
  rewrite spec_line_cons. destruct order as [|x' order'].
  - destruct row; [|discriminate]. unfold spec_line. simpl. rewrite app_nil_r.
    change (SP :: spec_col w x t) with ([SP] ++ spec_col w x t).
    apply ends_ok_app. now apply spec_col_ends_ok.
  - apply ends_ok_app. apply IH; [discriminate|lia|assumption].
Qed.

Lemma shift_lf : forall bs : list str,
  LF :: concat (map (fun b => b ++ [LF]) bs) = concat (map (fun b => LF :: b) bs) ++ [LF].
Proof.
  induction bs as [|b bs IH]; [reflexivity|].
  cbn [map concat]. rewrite <- !app_assoc. cbn [app]. f_equal. f_equal. exact IH.
Qed.

Lemma value_ends_ok w order : forall row rows,
  order <> [] -> forallb (row_ok order) (row :: rows) = true ->
  ends_ok (concat (map (fun r => LF :: spec_line w order r) (row :: rows))) = true.
Proof.
  intros row rows Hne. revert row. induction rows as [|r2 rows IH]; intros row H.
  - cbn [map concat]. rewrite app_nil_r.
    simpl in H. rewrite andb_true_r in H. destruct (row_ok_parts _ _ H) as [Hl [Ht _]].
    change (LF :: spec_line w order row) with ([LF] ++ spec_line w order row).
    apply ends_ok_app. now apply spec_line_ends_ok.
  - cbn [forallb] in H. apply andb_true_iff in H. destruct H as [_ H].
    change (concat (map (fun r => LF :: spec_line w order r) (row :: r2 :: rows)))
      with ((LF :: spec_line w order row) ++ concat (map (fun r => LF :: spec_line w order r) (r2 :: rows))).
    apply ends_ok_app. now apply IH.
Qed.

(** The width the model uses is the documented one. *)
Lemma width_agrees c b ci k order row rows :
  In (k, order) (table_of c) ->
  forallb (row_ok order) (row :: rows) = true ->
  ffl_entry c b ci (Multi (spec_records order (row :: rows)))
  = option_map N.of_nat (spec_width c b order (row :: rows)).
Proof.
  intros Hin Hrows.
  destruct (table_entry_ok c k order Hin) as [_ [Hok Hsz]].
  destruct (order_ok_parts order Hok) as [Hnd [_ Hse]].
  assert (Hlens : forallb (fun r => (length r =? length order)%nat) (row :: rows) = true).
  { rewrite forallb_forall in *. intros r Hr. specialize (Hrows r Hr).
    destruct (row_ok_parts _ _ Hrows) as [-> _]. apply Nat.eqb_refl. }
  assert (HW : ffl_kind c <> None ->
               W ci (Multi (spec_records order (row :: rows)))
               = N.of_nat (longest (sizes_of order (row :: rows)))).
  { intros Hk. unfold W. rewrite size_field_length_rows; auto. }
  unfold ffl_entry, spec_width, width_rule_of.
  destruct c; cbn [ffl_kind option_map has_keys] in *; try reflexivity.
  - rewrite HW by discriminate. reflexivity.
  - destruct b; cbn [option_map]; [reflexivity|]. rewrite HW by discriminate. reflexivity.
Qed.

Lemma lookup_in_keys c k order :
  lookup_exact k (table_of c) = Some order -> In k (map fst (table_of c)).
Proof. intros H. apply table_lookup_in in H. now apply (in_map fst) in H. Qed.

(** [get_as_string] on a structured field holding complete records of
    whitespace-free tokens is the documented value text. *)
Lemma get_as_string_rows c b ci p key order row rows :
  lookup_exact (ascii_lower key) (table_of c) = Some order ->
  para_get key p = Some (Multi (spec_records order (row :: rows))) ->
  forallb (row_ok order) (row :: rows) = true ->
  sized_ok c b ci p ->
  get_as_string c b ci p key = Ok (spec_value c b order (row :: rows)).
Proof.
  intros Hlook Hget Hrows Hsized.
  pose proof (table_lookup_in _ _ _ Hlook) as Hin.
  destruct (table_entry_ok c _ order Hin) as [_ [Hok _]].
  destruct (order_ok_parts order Hok) as [Hnd [Hne _]].
  unfold get_as_string. rewrite Hlook, Hget.
  rewrite (fixed_field_lengths_model c b ci p Hsized). cbn [bind].
  rewrite (ffl_model_lookup c b ci p (ascii_lower key) (Multi (spec_records order (row :: rows)))
             (lookup_in_keys _ _ _ Hlook))
    by (rewrite para_get_lower; exact Hget).
  rewrite (width_agrees c b ci _ order row rows Hin Hrows).
  set (w := spec_width c b order (row :: rows)).
  unfold spec_records. rewrite map_map.
  rewrite (mapM_map_ok _ _ (fun r => spec_line w order r ++ [LF])).
  - cbn [bind]. unfold spec_value. fold w.
    change ([LF] ++ concat (map (fun r => spec_line w order r ++ [LF]) (row :: rows)))
      with (LF :: concat (map (fun b => b ++ [LF]) (map (spec_line w order) (row :: rows)))
            ) at 1 || idtac.
    rewrite <- (map_map (spec_line w order) (fun b => b ++ [LF])).
    cbn [app]. rewrite shift_lf. rewrite map_map.
    unfold rstrip_by. rewrite rdropwhile_app_drop by reflexivity.
    f_equal. apply rstrip_lf_ends_ok. now apply value_ends_ok.
  - intros r Hr. rewrite forallb_forall in Hrows. specialize (Hrows r Hr).
    destruct (row_ok_parts _ _ Hrows) as [Hl [_ Hlf]].
    rewrite fmt_item_row by assumption. f_equal. f_equal. unfold spec_line. f_equal.
    apply map_ext. intros [x t]. cbn [fst snd]. now rewrite col_spec.
Qed.

(** ** From the property's domain to the model's paragraph *)

Lemma combine_fst_snd {A B} (r : list (A * B)) : combine (map fst r) (map snd r) = r.
Proof. induction r as [|[a b] r IH]; [reflexivity|]. simpl. now rewrite IH. Qed.

Lemma spec_order_is_lookup c key :
  spec_order c key = lookup_exact (ascii_lower key) (table_of c).
Proof. unfold spec_order. destruct c; reflexivity. Qed.

Definition rec_in_domain (order : list str) (r : record) : bool :=
  list_eqb str_eqb (map fst r) order && forallb token_ok (map snd r).

Lemma rec_in_domain_inv order r :
  rec_in_domain order r = true ->
  r = combine order (map snd r) /\ row_ok order (map snd r) = true.
Proof.
  unfold rec_in_domain, row_ok. intros H. apply andb_true_iff in H. destruct H as [H1 H2].
  apply strs_eqb_eq in H1. split.
  - rewrite <- H1. symmetry. apply combine_fst_snd.
  - rewrite H2, andb_true_r. apply Nat.eqb_eq. rewrite <- H1. now rewrite !map_length.
Qed.

Lemma recs_in_domain_inv order rs :
  forallb (rec_in_domain order) rs = true ->
  rs = spec_records order (map (map snd) rs)
  /\ forallb (row_ok order) (map (map snd) rs) = true.
Proof.
  induction rs as [|r rs IH]; intros H; [split; reflexivity|].
  cbn [forallb] in H. apply andb_true_iff in H. destruct H as [Hr H].
  destruct (rec_in_domain_inv _ _ Hr) as [E1 E2]. destruct (IH H) as [E3 E4].
  split.
  - unfold spec_records in *. cbn [map]. now rewrite <- E1, <- E3.
  - cbn [map forallb]. now rewrite E2, E4.
Qed.

Inductive entry_shape (c : cls) (key : str) (v : fvalue) (sv : sval) : Prop :=
| ShapeRows order row rows :
    lookup_exact (ascii_lower key) (table_of c) = Some order ->
    v = Multi (spec_records order (row :: rows)) ->
    forallb (row_ok order) (row :: rows) = true ->
    sv = SRows (row :: rows) ->
    entry_shape c key v sv
| ShapeText s :
    lookup_exact (ascii_lower key) (table_of c) = None ->
    v = Plain s -> sv = SText s ->
    entry_shape c key v sv.

Lemma sval_of_inv strict c key v sv :
  sval_of strict c key v = Some sv -> entry_shape c key v sv.
Proof.
  unfold sval_of. rewrite spec_order_is_lookup.
  destruct (lookup_exact (ascii_lower key) (table_of c)) as [order|] eqn:E.
  - destruct v as [s|r|[|r rs]]; try discriminate.
    change (forallb (fun r0 : list (str * str) =>
              list_eqb str_eqb (map fst r0) order && forallb token_ok (map snd r0)) (r :: rs))
      with (forallb (rec_in_domain order) (r :: rs)).
    destruct (forallb (rec_in_domain order) (r :: rs)) eqn:F; [|discriminate].
    intros [= <-]. destruct (recs_in_domain_inv _ _ F) as [E1 E2].
    cbn [map] in *. eapply ShapeRows; eauto. now f_equal.
  - destruct v as [s|r|rs]; try discriminate.
    destruct (negb strict || _); [|discriminate]. intros [= <-].
    eapply ShapeText; eauto.
Qed.

Lemma spara_of_cons strict c key v p sp :
  spara_of strict c ((key, v) :: p) = Some sp ->
  exists sv sp', sval_of strict c key v = Some sv /\ spara_of strict c p = Some sp'
                 /\ sp = (key, sv) :: sp'.
Proof.
  cbn [spara_of]. destruct (sval_of strict c key v) as [sv|]; [|discriminate].
  destruct (spara_of strict c p) as [sp'|]; [|discriminate].
  intros [= <-]. eauto.
Qed.

Lemma spara_of_in strict c : forall p sp key v,
  spara_of strict c p = Some sp -> In (key, v) p ->
  exists sv, sval_of strict c key v = Some sv.
Proof.
  induction p as [|[k0 v0] p IH]; intros sp key v H Hin; [contradiction|].
  destruct (spara_of_cons _ _ _ _ _ _ H) as [sv [sp' [H1 [H2 _]]]].
  destruct Hin as [[= -> ->]|Hin]; [eauto|]. eapply IH; eauto.
Qed.

Lemma para_get_in k : forall p v,
  para_get k p = Some v -> exists key', In (key', v) p /\ key_eqb true key' k = true.
Proof.
  induction p as [|[k0 v0] p IH]; intros v H; [discriminate|].
  cbn [para_get] in H. destruct (key_eqb true k0 k) eqn:E.
  - injection H as <-. exists k0. split; [now left|assumption].
  - destruct (IH v H) as [key' [Hin Hk]]. exists key'. split; [now right|assumption].
Qed.

Lemma lookup_exact_some_of_in {A} k (l : list (str * A)) :
  In k (map fst l) -> exists a, lookup_exact k l = Some a.
Proof.
  induction l as [|[k0 a0] l IH]; [contradiction|].
  cbn [map fst lookup_exact]. intros [->|Hin].
  - rewrite str_eqb_refl. eauto.
  - destruct (str_eqb k0 k); eauto.
Qed.

(** a paragraph of the domain never makes [_fixed_field_lengths] fail *)
Lemma in_domain_sized strict c b ci p sp :
  spara_of strict c p = Some sp -> sized_ok c b ci p.
Proof.
  intros Hsp k v Hk Hget Hm.
  assert (Hffl : ffl_kind c <> None).
  { unfold ffl_measures in Hm. destruct (ffl_kind c); [discriminate|discriminate Hm]. }
  destruct (para_get_in _ _ _ Hget) as [key' [Hin Heq]].
  destruct (spara_of_in _ _ _ _ _ _ Hsp Hin) as [sv Hsv].
  destruct (lookup_exact_some_of_in _ _ Hk) as [order Hlook].
  pose proof (table_lookup_in _ _ _ Hlook) as Hino.
  destruct (table_entry_ok c k order Hino) as [Hlow [Hok Hsz]].
  cbn [key_eqb] in Heq. apply str_eqb_eq in Heq. rewrite Hlow in Heq.
  destruct (sval_of_inv _ _ _ _ _ Hsv) as [order' row rows Hl Hv Hrows _|s Hl _ _];
    rewrite Heq in Hl; [|congruence].
  assert (order' = order) as -> by congruence.
  destruct (order_ok_parts order Hok) as [Hnd [_ Hse]].
  subst v.
  rewrite size_field_length_rows; auto.
  rewrite forallb_forall in *. intros r Hr. specialize (Hrows r Hr).
  destruct (row_ok_parts _ _ Hrows) as [-> _]. apply Nat.eqb_refl.
Qed.

Lemma para_get_distinct : forall p k v,
  distinct_keys (map fst p) = true -> In (k, v) p -> para_get k p = Some v.
Proof.
  induction p as [|[k0 v0] p IH]; intros k v Hd Hin; [contradiction|].
  cbn [map fst distinct_keys] in Hd. apply andb_true_iff in Hd. destruct Hd as [Hk0 Hd].
  cbn [para_get]. destruct Hin as [[= -> ->]|Hin].
  - now rewrite key_eqb_refl.
  - assert (E : key_eqb true k0 k = false).
    { cbn [key_eqb]. apply negb_true_iff in Hk0.
      destruct (str_eqb (ascii_lower k0) (ascii_lower k)) eqn:E; [|reflexivity].
      apply str_eqb_eq in E. exfalso.
      assert (X : existsb (fun k' => str_eqb (ascii_lower k') (ascii_lower k0)) (map fst p) = true).
      { apply existsb_exists. exists k. split; [now apply (in_map fst) in Hin|].
        rewrite E. apply str_eqb_refl. }
      congruence. }
    rewrite E. now apply IH.
Qed.

Lemma spec_value_head c b order row rows :
  exists rest, spec_value c b order (row :: rows) = LF :: rest.
Proof. unfold spec_value. cbn [map concat app]. eauto. Qed.

(** One entry of the dump. *)
Lemma dump_entry strict c b ci P key v sv :
  sized_ok c b ci P -> para_get key P = Some v ->
  sval_of strict c key v = Some sv ->
  (do s <- get_as_string c b ci P key; Ok (entry key s)) = Ok (spec_entry c b (key, sv)).
Proof.
  intros Hsized Hget Hsv.
  destruct (sval_of_inv _ _ _ _ _ Hsv) as [order row rows Hl Hv Hrows Hs|s Hl Hv Hs]; subst v sv.
  - rewrite (get_as_string_rows c b ci P key order row rows) by assumption.
    cbn [bind]. unfold spec_entry. cbn [fst snd]. rewrite spec_order_is_lookup, Hl.
    destruct (spec_value_head c b order row rows) as [rest ->].
    unfold entry. now rewrite N.eqb_refl.
  - unfold get_as_string. rewrite Hl, Hget. cbn [bind]. unfold spec_entry, entry. cbn [fst snd].
    destruct s as [|ch s]; [reflexivity|]. destruct (ch =? LF)%N; reflexivity.
Qed.

(** [dump] of a paragraph with distinct field names, whose structured fields hold
    complete records of whitespace-free tokens ([strict] = false: the other fields are
    arbitrary strings), is the documented text. *)
Lemma dump_para_spec_gen strict c b ci p sp :
  distinct_keys (map fst p) = true -> spara_of strict c p = Some sp ->
  dump_para c b ci p = Ok (spec_dump c b sp).
Proof.
  intros Hd Hsp.
  pose proof (in_domain_sized strict c b ci p sp Hsp) as Hsized.
  unfold dump_para, spec_dump.
  assert (G : forall p' sp', spara_of strict c p' = Some sp' ->
              (forall kv, In kv p' -> In kv p) ->
              mapM (fun kv => do v <- get_as_string c b ci p (fst kv); Ok (entry (fst kv) v)) p'
              = Ok (map (spec_entry c b) sp')).
  { induction p' as [|[key v] p' IH]; intros sp' Hsp' Hsub.
    - injection Hsp' as <-. reflexivity.
    - destruct (spara_of_cons _ _ _ _ _ _ Hsp') as [sv [sp'' [H1 [H2 ->]]]].
      cbn [mapM map fst].
      rewrite (dump_entry strict c b ci p key v sv Hsized); [|
        apply para_get_distinct; [assumption|apply Hsub; now left]|assumption].
      cbn [bind]. rewrite (IH sp'' H2); [reflexivity|].
      intros kv Hkv. apply Hsub. now right. }
  rewrite (G p sp Hsp); [reflexivity|auto].
Qed.

(** [dump] of a paragraph of the domain is the documented text. *)
Lemma dump_para_spec c b ci p sp :
  in_domain c p = Some sp -> dump_para c b ci p = Ok (spec_dump c b sp).
Proof.
  unfold in_domain. destruct (distinct_keys (map fst p)) eqn:Hd; [|discriminate].
  now apply dump_para_spec_gen.
Qed.

(** * 6. [dump] never fails on a paragraph whose PRESENT fields are dumpable *)

Lemma single_breaks_model c b :
  single_breaks c b = match ffl_kind c, b with Some FflRelease, Dak => true | _, _ => false end.
Proof. destruct c, b; reflexivity. Qed.

Lemma mapM_length {A B} (f : A -> result B) : forall l bs,
  mapM f l = Ok bs -> length bs = length l.
Proof.
  induction l as [|a l IH]; intros bs H.
  - injection H as <-. reflexivity.
  - cbn [mapM] in H. destruct (f a); [|discriminate]. cbn [bind] in H.
    destruct (mapM f l) as [bs'|]; [|discriminate]. injection H as <-.
    simpl. f_equal. now apply IH.
Qed.

Lemma has_size_in order : has_size order = true -> In mv_size_key order.
Proof.
  unfold has_size. intros H. apply existsb_exists in H. destruct H as [x [Hin Hx]].
  apply str_eqb_eq in Hx. now subst.
Qed.

Lemma size_field_length_complete ci order r rs :
  has_size order = true -> forallb (rec_complete ci order) (r :: rs) = true ->
  is_ok (size_field_length ci (Multi (r :: rs))) = true.
Proof.
  intros Hs Hc. unfold size_field_length. cbn [items_iter].
  assert (G : is_ok (mapM (fun it => do s <- item_get ci mv_size_key it; Ok (N.of_nat (length s)))
                          (map RecItem (r :: rs))) = true).
  { apply mapM_is_ok. intros it Hit. apply in_map_iff in Hit. destruct Hit as [r0 [<- Hr0]].
    rewrite forallb_forall in Hc. specialize (Hc r0 Hr0). unfold rec_complete in Hc.
    rewrite forallb_forall in Hc. specialize (Hc _ (has_size_in _ Hs)).
    cbn [item_get]. destruct (rec_get ci mv_size_key r0); [reflexivity|discriminate]. }
  destruct (is_ok_exists _ G) as [ls E]. rewrite E. cbn [bind].
  apply mapM_length in E. destruct ls; [discriminate|reflexivity].
Qed.

Lemma dumpable_entry_of_get c b ci p k v :
  para_dumpable c b ci p = true -> para_get k p = Some v ->
  exists key', ascii_lower key' = ascii_lower k /\ entry_dumpable c b ci (key', v) = true.
Proof.
  intros Hd Hget. destruct (para_get_in _ _ _ Hget) as [key' [Hin Heq]].
  unfold para_dumpable in Hd. rewrite forallb_forall in Hd.
  exists key'. split; [|now apply Hd].
  cbn [key_eqb] in Heq. now apply str_eqb_eq in Heq.
Qed.

Lemma dumpable_sized c b ci p : para_dumpable c b ci p = true -> sized_ok c b ci p.
Proof.
  intros Hd k v Hk Hget Hm.
  assert (Hffl : ffl_kind c <> None).
  { unfold ffl_measures in Hm. destruct (ffl_kind c); [discriminate|discriminate Hm]. }
  destruct (dumpable_entry_of_get _ _ _ _ _ _ Hd Hget) as [key' [Hlow He]].
  destruct (lookup_exact_some_of_in _ _ Hk) as [order Hlook].
  pose proof (table_lookup_in _ _ _ Hlook) as Hino.
  destruct (table_entry_ok c k order Hino) as [Hlk [_ Hsz]].
  unfold entry_dumpable in He. cbn [fst snd] in He. rewrite Hlow, Hlk, Hlook in He.
  destruct v as [s|r|[|r rs]]; try discriminate.
  - (* single-line form: only where it is not measured *)
    cbn [val_dumpable] in He. apply andb_true_iff in He. destruct He as [_ He].
    apply negb_true_iff in He. rewrite single_breaks_model in He. unfold ffl_measures in Hm.
    cbn [has_keys negb] in Hm. destruct (ffl_kind c) as [[|]|]; try discriminate.
    destruct b; discriminate.
  - apply (size_field_length_complete ci order); auto.
Qed.

Lemma fmt_item_complete ci order len r :
  rec_complete ci order r = true -> is_ok (fmt_item ci order len (RecItem r)) = true.
Proof.
  intros Hc. unfold fmt_item.
  assert (G : is_ok (mapM (fmt_col ci len (RecItem r)) order) = true).
  { apply mapM_is_ok. intros x Hx. unfold rec_complete in Hc. rewrite forallb_forall in Hc.
    specialize (Hc x Hx). unfold fmt_col. cbn [item_get].
    destruct (rec_get ci x r) as [raw|]; [|discriminate]. cbn [bind].
    fold (col len x raw). rewrite mem_char_col. apply negb_true_iff in Hc. now rewrite Hc. }
  destruct (is_ok_exists _ G) as [cols ->]. reflexivity.
Qed.

Lemma get_as_string_total c b ci p key v :
  para_dumpable c b ci p = true -> para_get key p = Some v ->
  is_ok (get_as_string c b ci p key) = true.
Proof.
  intros Hd Hget.
  destruct (dumpable_entry_of_get _ _ _ _ _ _ Hd Hget) as [key' [Hlow He]].
  unfold entry_dumpable in He. cbn [fst snd] in He. rewrite Hlow in He.
  unfold get_as_string. rewrite Hget.
  destruct (lookup_exact (ascii_lower key) (table_of c)) as [order|].
  - rewrite (fixed_field_lengths_model c b ci p (dumpable_sized _ _ _ _ Hd)).
    destruct v as [s|r|[|r rs]]; try discriminate; cbn [val_dumpable] in He; cbn [bind].
    + apply andb_true_iff in He. destruct He as [He _]. cbn [mapM].
      pose proof (fmt_item_complete ci order
                    (match ffl_model c b ci p with
                     | Some l => lookup_exact (ascii_lower key) l
                     | None => None
                     end) r He) as G.
      destruct (is_ok_exists _ G) as [line ->]. reflexivity.
    + match goal with |- context [mapM ?f ?l] =>
        assert (G : is_ok (mapM f l) = true) end.
      { apply mapM_is_ok. intros it Hit. apply in_map_iff in Hit. destruct Hit as [r0 [<- Hr0]].
        apply fmt_item_complete. rewrite forallb_forall in He. now apply He. }
      destruct (is_ok_exists _ G) as [lines ->]. reflexivity.
  - destruct v; [reflexivity|discriminate|discriminate].
Qed.

Lemma para_get_some_of_in : forall p k v, In (k, v) p -> exists v', para_get k p = Some v'.
Proof.
  induction p as [|[k0 v0] p IH]; intros k v Hin; [contradiction|].
  cbn [para_get]. destruct (key_eqb true k0 k) eqn:E; [eauto|].
  destruct Hin as [[= -> ->]|Hin]; [now rewrite key_eqb_refl in E|]. eapply IH; eauto.
Qed.

Lemma dump_para_total c b ci p :
  para_dumpable c b ci p = true -> is_ok (dump_para c b ci p) = true.
Proof.
  intros Hd. unfold dump_para.
  match goal with |- context [mapM ?f ?l] => assert (G : is_ok (mapM f l) = true) end.
  { apply mapM_is_ok. intros [k v] Hin. cbn [fst].
    destruct (para_get_some_of_in _ _ _ Hin) as [v' Hget].
    pose proof (get_as_string_total c b ci p k v' Hd Hget) as H.
    destruct (get_as_string c b ci p k); [reflexivity|discriminate]. }
  destruct (is_ok_exists _ G) as [es ->]. reflexivity.
Qed.

(** * 7. Parsing the documented text gives the records back *)

(** ** str.splitlines on LF-introduced, boundary-free lines *)
Section Splitlines.
Variable islb : N -> bool.
Hypothesis islb_lf : islb LF = true.

Lemma splitlines_aux_free : forall l cur rest,
  forallb (fun ch => negb (islb ch)) l = true ->
  splitlines_aux islb false (l ++ rest) cur = splitlines_aux islb false rest (rev l ++ cur).
Proof.
  induction l as [|x l IH]; intros cur rest H; [reflexivity|].
  cbn [forallb] in H. apply andb_true_iff in H. destruct H as [Hx H].
  apply negb_true_iff in Hx. cbn [app splitlines_aux]. rewrite Hx.
  rewrite IH by assumption. cbn [rev]. now rewrite <- app_assoc.
Qed.

Lemma splitlines_aux_lf cur s :
  s <> [] -> splitlines_aux islb false (LF :: s) cur = rev cur :: splitlines_aux islb false s [].
Proof.
  intros Hs. destruct s as [|y s]; [congruence|].
  cbn [splitlines_aux]. rewrite islb_lf. cbn [N.eqb LF Pos.eqb andb]. now rewrite app_nil_r.
Qed.

Lemma splitlines_aux_lines : forall ls cur,
  ls <> [] ->
  forallb (forallb (fun ch => negb (islb ch))) ls = true ->
  forallb nonempty ls = true ->
  splitlines_aux islb false (concat (map (fun l => LF :: l) ls)) cur = rev cur :: ls.
Proof.
  induction ls as [|l ls IH]; intros cur Hne Hfree Hnon; [congruence|].
  cbn [forallb] in Hfree, Hnon.
  apply andb_true_iff in Hfree. destruct Hfree as [Hl Hfree].
  apply andb_true_iff in Hnon. destruct Hnon as [Hln Hnon].
  cbn [map concat app].
  rewrite splitlines_aux_lf by (destruct l; [discriminate|discriminate]).
  f_equal. rewrite splitlines_aux_free by assumption. rewrite app_nil_r.
  destruct ls as [|l2 ls].
  - cbn [map concat splitlines_aux]. destruct (rev l) eqn:E.
    + destruct l; [discriminate|]. apply (f_equal (@length N)) in E.
      rewrite rev_length in E. discriminate.
    + rewrite <- E. now rewrite rev_involutive.
  - rewrite IH; [now rewrite rev_involutive|discriminate|assumption|assumption].
Qed.
End Splitlines.

(** ** str.split() on blank-introduced tokens *)
Section SplitWs.
Variable isspace : N -> bool.

Lemma split_ws_aux_pad : forall pad s,
  forallb isspace pad = true -> split_ws_aux isspace (pad ++ s) [] = split_ws_aux isspace s [].
Proof.
  induction pad as [|x pad IH]; intros s H; [reflexivity|].
  cbn [forallb] in H. apply andb_true_iff in H. destruct H as [Hx H].
  cbn [app split_ws_aux]. rewrite Hx. now apply IH.
Qed.

Lemma split_ws_aux_tok : forall t cur rest,
  forallb (fun ch => negb (isspace ch)) t = true ->
  split_ws_aux isspace (t ++ rest) cur = split_ws_aux isspace rest (rev t ++ cur).
Proof.
  induction t as [|x t IH]; intros cur rest H; [reflexivity|].
  cbn [forallb] in H. apply andb_true_iff in H. destruct H as [Hx H].
  apply negb_true_iff in Hx. cbn [app split_ws_aux]. rewrite Hx.
  rewrite IH by assumption. cbn [rev]. now rewrite <- app_assoc.
Qed.

(** a blank-free, non-empty token followed by the end or by a blank *)
Lemma split_ws_aux_word pad t rest :
  forallb isspace pad = true ->
  t <> [] -> forallb (fun ch => negb (isspace ch)) t = true ->
  match rest with [] => True | ch :: _ => isspace ch = true end ->
  split_ws_aux isspace (pad ++ t ++ rest) [] = t :: split_ws_aux isspace rest [].
Proof.
  intros Hpad Hne Ht Hrest. rewrite split_ws_aux_pad by assumption.
  rewrite split_ws_aux_tok by assumption. rewrite app_nil_r.
  assert (Hr : rev t <> []).
  { intros E. apply (f_equal (@length N)) in E. rewrite rev_length in E.
    destruct t; [congruence|discriminate]. }
  destruct rest as [|ch rest].
  - cbn [split_ws_aux]. destruct (rev t) eqn:E; [congruence|].
    rewrite <- E. now rewrite rev_involutive.
  - cbn [split_ws_aux]. rewrite Hrest. destruct (rev t) eqn:E; [congruence|].
    rewrite <- E. now rewrite rev_involutive.
Qed.
End SplitWs.

Lemma sp_is_space : py_isspace SP = true.
Proof. vm_compute. reflexivity. Qed.
Lemma lf_is_linebreak : py_islinebreak LF = true.
Proof. vm_compute. reflexivity. Qed.
Lemma sp_not_linebreak : py_islinebreak SP = false.
Proof. vm_compute. reflexivity. Qed.

Lemma token_ok_parts t :
  token_ok t = true -> t <> [] /\ forallb (fun ch => negb (py_isspace ch)) t = true.
Proof.
  unfold token_ok. intros H. apply andb_true_iff in H. destruct H as [H1 H2].
  split; [|assumption]. destruct t; [discriminate|congruence].
Qed.

(** the column text is blanks followed by the token *)
Lemma spec_col_shape w x t : exists pad,
  spec_col w x t = pad ++ t /\ forallb py_isspace pad = true
  /\ forallb (fun ch => negb (py_islinebreak ch)) pad = true.
Proof.
  unfold spec_col. destruct w as [n|]; [|exists []; auto].
  destruct (str_eqb x spec_size_name); [|exists []; auto].
  exists (repeat SP (n - length t)). unfold rjust. repeat split.
  - apply forallb_repeat. exact sp_is_space.
  - apply forallb_repeat. now rewrite sp_not_linebreak.
Qed.

Lemma spec_line_head w order row :
  match spec_line w order row with [] => True | ch :: _ => py_isspace ch = true end.
Proof.
  destruct order as [|x order]; [exact I|]. destruct row as [|t row]; [exact I|].
  rewrite spec_line_cons. cbn [app]. exact sp_is_space.
Qed.

Lemma split_ws_line w : forall order row,
  length row = length order -> forallb token_ok row = true ->
  split_ws py_isspace (spec_line w order row) = row.
Proof.
  unfold split_ws.
  induction order as [|x order IH]; intros row Hlen Htok.
  - destruct row; [reflexivity|discriminate].
  - destruct row as [|t row]; [discriminate|].
    simpl in Hlen. cbn [forallb] in Htok. apply andb_true_iff in Htok. destruct Htok as [Ht Htok].
    rewrite spec_line_cons. destruct (spec_col_shape w x t) as [pad [-> [Hpad _]]].
    destruct (token_ok_parts t Ht) as [Hne Hfree].
    replace ((SP :: pad ++ t) ++ spec_line w order row)
      with ((SP :: pad) ++ t ++ spec_line w order row)
      by (cbn [app]; now rewrite <- app_assoc).
    rewrite split_ws_aux_word; auto.
    + f_equal. apply IH; [lia|assumption].
    + apply spec_line_head.
Qed.

Lemma token_lb_free t :
  token_ok t = true -> forallb (fun ch => negb (py_islinebreak ch)) t = true.
Proof.
  intros H. destruct (token_ok_parts t H) as [_ Hf].
  rewrite forallb_forall in *. intros ch Hch. specialize (Hf ch Hch).
  apply negb_true_iff in Hf. apply negb_true_iff.
  destruct (py_islinebreak ch) eqn:E; [|reflexivity].
  apply linebreak_is_space in E. congruence.
Qed.

Lemma spec_line_lb_free w : forall order row,
  forallb token_ok row = true ->
  forallb (fun ch => negb (py_islinebreak ch)) (spec_line w order row) = true.
Proof.
  induction order as [|x order IH]; intros row Htok; [reflexivity|].
  destruct row as [|t row]; [reflexivity|].
  cbn [forallb] in Htok. apply andb_true_iff in Htok. destruct Htok as [Ht Htok].
  rewrite spec_line_cons. destruct (spec_col_shape w x t) as [pad [-> [_ Hpad]]].
  cbn [app forallb]. rewrite sp_not_linebreak. cbn [negb andb].
  rewrite !forallb_app. rewrite Hpad, (token_lb_free t Ht). cbn [andb]. now apply IH.
Qed.

Lemma spec_line_nonempty w order row :
  order <> [] -> length row = length order -> nonempty (spec_line w order row) = true.
Proof.
  intros Hne Hlen. destruct order as [|x order]; [congruence|].
  destruct row as [|t row]; [discriminate|]. reflexivity.
Qed.

(** ** Deb822Dict(zip(fields, tokens)) *)
Lemma rec_set_new k v : forall r,
  forallb (fun kv => negb (key_eqb true (fst kv) k)) r = true ->
  rec_set true k v r = r ++ [(k, v)].
Proof.
  induction r as [|[k' v'] r IH]; intros H; [reflexivity|].
  cbn [forallb fst] in H. apply andb_true_iff in H. destruct H as [Hk H].
  apply negb_true_iff in Hk. cbn [rec_set app]. rewrite Hk. now rewrite IH.
Qed.

Lemma rec_of_pairs_combine : forall order row acc,
  nodup_ci order = true ->
  (forall y, In y order -> forallb (fun kv => negb (key_eqb true (fst kv) y)) acc = true) ->
  rec_of_pairs (combine order row) acc = acc ++ combine order row.
Proof.
  unfold rec_of_pairs.
  induction order as [|x order IH]; intros row acc Hnd Hacc; [now rewrite app_nil_r|].
  destruct row as [|t row]; [now rewrite app_nil_r|].
  cbn [nodup_ci] in Hnd. apply andb_true_iff in Hnd. destruct Hnd as [Hx Hnd].
  cbn [combine fold_left fst snd]. rewrite rec_set_new by (apply Hacc; now left).
  rewrite IH; [now rewrite <- app_assoc|assumption|].
  intros y Hy. rewrite forallb_app. rewrite Hacc by now right.
  cbn [forallb fst andb]. rewrite forallb_forall in Hx. now rewrite (Hx y Hy).
Qed.

Lemma mk_record_combine order row :
  nodup_ci order = true -> mk_record order row = combine order row.
Proof.
  intros Hnd. unfold mk_record. now rewrite rec_of_pairs_combine.
Qed.

Lemma filter_all {A} (f : A -> bool) l : forallb f l = true -> filter f l = l.
Proof.
  induction l as [|a l IH]; intros H; [reflexivity|].
  cbn [forallb] in H. apply andb_true_iff in H. destruct H as [Ha H].
  cbn [filter]. rewrite Ha. now rewrite IH.
Qed.

(** The round trip of one structured field. *)
Lemma parse_spec_value c b order row rows :
  order_ok order = true ->
  forallb (row_ok order) (row :: rows) = true ->
  mv_parse_field order (spec_value c b order (row :: rows))
  = Multi (spec_records order (row :: rows)).
Proof.
  intros Hok Hrows. destruct (order_ok_parts order Hok) as [Hnd [Hne _]].
  unfold mv_parse_field.
  assert (Hm : mem_char LF (spec_value c b order (row :: rows)) = true).
  { destruct (spec_value_head c b order row rows) as [rest ->].
    unfold mem_char. cbn [existsb]. now rewrite N.eqb_refl. }
  rewrite Hm. f_equal. unfold spec_value. set (w := spec_width c b order (row :: rows)).
  rewrite <- (map_map (spec_line w order) (fun l => LF :: l)).
  unfold splitlines.
  rewrite (splitlines_aux_lines py_islinebreak lf_is_linebreak).
  - cbn [rev filter nonempty]. 
    assert (Hf : filter nonempty (map (spec_line w order) (row :: rows))
                 = map (spec_line w order) (row :: rows)).
    { apply filter_all. rewrite forallb_forall. intros l Hl.
      apply in_map_iff in Hl. destruct Hl as [r [<- Hr]].
      rewrite forallb_forall in Hrows. destruct (row_ok_parts _ _ (Hrows r Hr)) as [Hlen _].
      now apply spec_line_nonempty. }
    rewrite Hf. rewrite map_map. unfold spec_records. apply map_ext_in.
    intros r Hr. rewrite forallb_forall in Hrows.
    destruct (row_ok_parts _ _ (Hrows r Hr)) as [Hlen [Htok _]].
    rewrite split_ws_line by assumption. now apply mk_record_combine.
  - discriminate.
  - rewrite forallb_forall. intros l Hl. apply in_map_iff in Hl. destruct Hl as [r [<- Hr]].
    rewrite forallb_forall in Hrows. destruct (row_ok_parts _ _ (Hrows r Hr)) as [_ [Htok _]].
    now apply spec_line_lb_free.
  - rewrite forallb_forall. intros l Hl. apply in_map_iff in Hl. destruct Hl as [r [<- Hr]].
    rewrite forallb_forall in Hrows. destruct (row_ok_parts _ _ (Hrows r Hr)) as [Hlen _].
    now apply spec_line_nonempty.
Qed.

(** ** Parsing ANY stored text whose continuation lines each hold one value per
       sub-field: every line becomes a record with the documented names *)

Lemma lf_join_lines : forall lines : list str,
  lines <> [] -> LF :: join [LF] lines = concat (map (fun l => LF :: l) lines).
Proof.
  induction lines as [|l lines IH]; intros Hne; [congruence|].
  destruct lines as [|l2 lines].
  - cbn. now rewrite app_nil_r.
  - rewrite join_cons by discriminate. cbn [map concat app].
    f_equal. f_equal. cbn [app] in IH. apply IH. discriminate.
Qed.

Lemma parse_spec_rows order contents rows :
  nodup_ci order = true -> order <> [] ->
  spec_rows order contents = Some rows ->
  mv_parse_field order contents = Multi (spec_records order rows).
Proof.
  intros Hnd Hne. unfold spec_rows.
  destruct contents as [|ch rest]; [discriminate|].
  destruct (N.eqb_spec ch LF) as [->|]; [|discriminate].
  set (lines := split_on LF rest).
  destruct (forallb (fun l => negb (existsb py_islinebreak l)) lines) eqn:Hfree; [|discriminate].
  destruct (forallb (fun r => (length r =? length order)%nat) (map (split_ws py_isspace) lines)) eqn:Hlen;
    [|discriminate].
  cbn [andb]. intros [= <-].
  assert (Hc : LF :: rest = concat (map (fun l => LF :: l) lines)).
  { rewrite <- lf_join_lines by apply split_on_nonempty.
    unfold lines. now rewrite join_split_on. }
  assert (Hnon : forallb nonempty lines = true).
  { rewrite forallb_forall in *. intros l Hl.
    specialize (Hlen (split_ws py_isspace l) (in_map _ _ _ Hl)).
    apply Nat.eqb_eq in Hlen. destruct l; [|reflexivity].
    cbn in Hlen. destruct order; [congruence|discriminate]. }
  unfold mv_parse_field.
  assert (Hm : mem_char LF (LF :: rest) = true).
  { unfold mem_char. cbn [existsb]. now rewrite N.eqb_refl. }
  rewrite Hm. f_equal. rewrite Hc. unfold splitlines.
  rewrite (splitlines_aux_lines py_islinebreak lf_is_linebreak).
  - cbn [rev filter nonempty]. rewrite (filter_all _ _ Hnon).
    unfold spec_records. rewrite map_map. apply map_ext.
    intros l. now apply mk_record_combine.
  - apply split_on_nonempty.
  - rewrite forallb_forall in *. intros l Hl. specialize (Hfree l Hl).
    apply negb_true_iff in Hfree. rewrite forallb_forall. intros ch Hch.
    apply negb_true_iff. destruct (py_islinebreak ch) eqn:E; [|reflexivity].
    assert (X : existsb py_islinebreak l = true) by (apply existsb_exists; eauto). congruence.
  - exact Hnon.
Qed.

(** * 8. The whole paragraph: [_multivalued.__init__] *)

(** what [__init__] makes of one (key, raw value) pair *)
Definition parse_entry (tbl : list (str * list str)) (kv : str * str) : str * fvalue :=
  (fst kv, match lookup_exact (ascii_lower (fst kv)) tbl with
           | Some fields => mv_parse_field fields (snd kv)
           | None => Plain (snd kv)
           end).

Lemma lookup_exact_app_miss {A} k f (a : A) : forall l,
  str_eqb f k = false -> lookup_exact k (l ++ [(f, a)]) = lookup_exact k l.
Proof.
  induction l as [|[k' a'] l IH]; intros H; cbn [app lookup_exact].
  - now rewrite H.
  - destruct (str_eqb k' k); [reflexivity|]. now apply IH.
Qed.

Lemma lookup_exact_app_hit {A} f (a : A) : forall l,
  lookup_exact f l = None -> lookup_exact f (l ++ [(f, a)]) = Some a.
Proof.
  induction l as [|[k' a'] l IH]; intros H; cbn [app lookup_exact] in *.
  - now rewrite str_eqb_refl.
  - destruct (str_eqb k' f); [discriminate|]. now apply IH.
Qed.

Lemma mv_init_step_cons e p fe :
  key_eqb true (fst e) (fst fe) = false ->
  mv_init_step (Ok (e :: p)) fe
  = match mv_init_step (Ok p) fe with Ok q => Ok (e :: q) | Err x => Err x end.
Proof.
  intros H. destruct e as [k v]. cbn [fst] in H.
  unfold mv_init_step. cbn [bind para_get]. rewrite H.
  destruct (para_get (fst fe) p) as [[c|r|rs]|]; try reflexivity.
  cbn [para_set]. now rewrite H.
Qed.

Lemma parse_entry_miss done f fields kv :
  str_eqb f (ascii_lower (fst kv)) = false ->
  parse_entry (done ++ [(f, fields)]) kv = parse_entry done kv.
Proof. intros H. unfold parse_entry. now rewrite lookup_exact_app_miss. Qed.

Lemma mv_init_step_map done f fields : forall raw,
  distinct_keys (map fst raw) = true ->
  lookup_exact f done = None -> ascii_lower f = f ->
  mv_init_step (Ok (map (parse_entry done) raw)) (f, fields)
  = Ok (map (parse_entry (done ++ [(f, fields)])) raw).
Proof.
  induction raw as [|[k s] raw IH]; intros Hd Hnone Hlow; [reflexivity|].
  cbn [map fst distinct_keys] in Hd. apply andb_true_iff in Hd. destruct Hd as [Hk Hd].
  cbn [map]. destruct (key_eqb true k f) eqn:E.
  - (* this is the field: the others cannot be, by distinctness *)
    cbn [key_eqb] in E. rewrite Hlow in E. apply str_eqb_eq in E. subst f.
    unfold mv_init_step. cbn [bind fst snd]. unfold parse_entry at 1. cbn [fst snd para_get key_eqb].
    rewrite Hlow, str_eqb_refl, Hnone. unfold parse_entry at 1. cbn [para_set key_eqb fst snd].
    rewrite Hlow, str_eqb_refl. f_equal. f_equal.
    + unfold parse_entry. cbn [fst snd]. now rewrite lookup_exact_app_hit.
    + apply map_ext_in. intros [k' s'] Hin. symmetry. apply parse_entry_miss. cbn [fst].
      destruct (str_eqb (ascii_lower k) (ascii_lower k')) eqn:E2; [|reflexivity]. exfalso.
      apply str_eqb_eq in E2. apply negb_true_iff in Hk.
      assert (X : existsb (fun k0 => str_eqb (ascii_lower k0) (ascii_lower k)) (map fst raw) = true).
      { apply existsb_exists. exists k'. split; [now apply (in_map fst) in Hin|].
        rewrite E2. apply str_eqb_refl. }
      congruence.
  - rewrite mv_init_step_cons by (cbn [fst parse_entry]; exact E).
    rewrite IH by assumption. f_equal. f_equal. symmetry. apply parse_entry_miss. cbn [fst].
    cbn [key_eqb] in E. rewrite Hlow in E.
    destruct (str_eqb f (ascii_lower k)) eqn:E2; [|reflexivity].
    apply str_eqb_eq in E2. rewrite <- E2, str_eqb_refl in E. discriminate.
Qed.

Lemma mv_init_fold raw : forall rest done,
  distinct_keys (map fst raw) = true ->
  nodup_exact (map fst rest) = true ->
  (forall f, In f (map fst rest) -> ascii_lower f = f /\ lookup_exact f done = None) ->
  fold_left mv_init_step rest (Ok (map (parse_entry done) raw))
  = Ok (map (parse_entry (done ++ rest)) raw).
Proof.
  induction rest as [|[f fields] rest IH]; intros done Hd Hnd Hf; [now rewrite app_nil_r|].
  cbn [map fst nodup_exact] in Hnd. apply andb_true_iff in Hnd. destruct Hnd as [Hf0 Hnd].
  destruct (Hf f (or_introl eq_refl)) as [Hlow Hnone].
  cbn [fold_left]. rewrite mv_init_step_map by assumption.
  rewrite IH; [now rewrite <- app_assoc|assumption|assumption|].
  intros f' Hin'. destruct (Hf f' (or_intror Hin')) as [Hl' Hn']. split; [assumption|].
  rewrite lookup_exact_app_miss; [assumption|].
  destruct (str_eqb f f') eqn:E; [|reflexivity]. exfalso.
  apply negb_true_iff in Hf0.
  assert (X : existsb (str_eqb f) (map fst rest) = true) by (apply existsb_exists; eauto).
  congruence.
Qed.

(** [K(text)] for every class: each structured field present is replaced by its
    records, everything else (and the order of the fields) is kept. *)
Lemma mv_init_map c raw :
  distinct_keys (map fst raw) = true ->
  mv_init (table_of c) raw = Ok (map (parse_entry (table_of c)) raw).
Proof.
  intros Hd. unfold mv_init.
  rewrite (map_ext _ (parse_entry [])) by reflexivity.
  pose proof (tables_ok c) as Hok. unfold table_ok in Hok.
  apply andb_true_iff in Hok. destruct Hok as [Hents Hnd].
  rewrite mv_init_fold; [reflexivity|assumption|assumption|].
  intros f Hin. split; [|reflexivity].
  apply in_map_iff in Hin. destruct Hin as [[f' o] [<- Hin]].
  now destruct (table_entry_ok c f' o Hin) as [Hlow _].
Qed.

(** The raw (key, value) pairs of the documented text. *)
Definition spec_raw (c : cls) (b : behav) (sp : spara) : list (str * str) :=
  map (fun kv => (fst kv,
                  match snd kv with
                  | SRows rows => match spec_order c (fst kv) with
                                  | Some order => spec_value c b order rows
                                  | None => []
                                  end
                  | SText s => s
                  end)) sp.

Lemma in_domain_shapes strict c : forall p sp,
  spara_of strict c p = Some sp ->
  map fst sp = map fst p
  /\ para_of_spara c sp = p
  /\ forall b, map (parse_entry (table_of c)) (spec_raw c b sp) = p.
Proof.
  induction p as [|[key v] p IH]; intros sp H.
  - injection H as <-. repeat split.
  - destruct (spara_of_cons _ _ _ _ _ _ H) as [sv [sp' [H1 [H2 ->]]]].
    destruct (IH sp' H2) as [E1 [E2 E3]].
    destruct (sval_of_inv _ _ _ _ _ H1) as [order row rows Hl Hv Hrows Hs|s Hl Hv Hs]; subst v sv.
    + pose proof (table_lookup_in _ _ _ Hl) as Hin.
      destruct (table_entry_ok c _ order Hin) as [_ [Hok _]].
      repeat split.
      * cbn [map fst]. now rewrite E1.
      * unfold para_of_spara in *. cbn [map fst snd fvalue_of_sval].
        rewrite spec_order_is_lookup, Hl. now rewrite E2.
      * intros b. unfold spec_raw in *. cbn [map fst snd]. rewrite E3.
        unfold parse_entry at 1. cbn [fst snd]. rewrite spec_order_is_lookup, Hl.
        now rewrite parse_spec_value.
    + repeat split.
      * cbn [map fst]. now rewrite E1.
      * unfold para_of_spara in *. cbn [map fst snd fvalue_of_sval]. now rewrite E2.
      * intros b. unfold spec_raw in *. cbn [map fst snd]. rewrite E3.
        unfold parse_entry at 1. cbn [fst snd]. now rewrite Hl.
Qed.

(** Re-parsing the documented text of a paragraph of the domain gives the same
    paragraph: same fields, same records, same order. *)
Lemma reparse_in_domain c b p sp :
  in_domain c p = Some sp ->
  mv_init (table_of c) (spec_raw c b sp) = Ok p.
Proof.
  unfold in_domain. destruct (distinct_keys (map fst p)) eqn:Hd; [|discriminate]. intros Hsp.
  destruct (in_domain_shapes true c p sp Hsp) as [E1 [_ E3]].
  rewrite mv_init_map.
  - now rewrite E3.
  - unfold spec_raw. rewrite map_map. cbn [fst]. rewrite (map_ext _ fst) by reflexivity.
    now rewrite E1.
Qed.

(** * 9. Building a paragraph of the domain by assignment: [p[key] = value] *)

Lemma para_set_new k v : forall p,
  forallb (fun kv => negb (key_eqb true (fst kv) k)) p = true ->
  para_set k v p = p ++ [(k, v)].
Proof.
  induction p as [|[k' v'] p IH]; intros H; [reflexivity|].
  cbn [forallb fst] in H. apply andb_true_iff in H. destruct H as [Hk H].
  apply negb_true_iff in Hk. cbn [para_set app]. rewrite Hk. now rewrite IH.
Qed.

Lemma splitlines_lb_free s :
  forallb (fun ch => negb (py_islinebreak ch)) s = true ->
  tl (splitlines py_islinebreak false s) = [].
Proof.
  intros H. unfold splitlines.
  rewrite <- (app_nil_r s). rewrite splitlines_aux_free by assumption.
  cbn [splitlines_aux]. now destruct (rev s ++ []).
Qed.

Lemma validate_plain_ok c key s :
  lookup_exact (ascii_lower key) (table_of c) = None ->
  plain_value_ok s = true -> validate_input c key (Plain s) = Ok tt.
Proof.
  intros Hl Hs. unfold validate_input. rewrite Hl. unfold plain_value_ok in Hs.
  destruct s as [|ch s']; [discriminate|].
  destruct (last_opt (ch :: s')) as [l|] eqn:El; [|discriminate].
  apply andb_true_iff in Hs. destruct Hs as [Hs Hlb].
  apply andb_true_iff in Hs. destruct Hs as [_ Hlast].
  destruct (last_opt_snoc _ _ El) as [y Ey]. rewrite Ey.
  unfold endswith. rewrite rev_app_distr. cbn [rev app startswith].
  assert (Hne : (LF =? l)%N = false).
  { destruct (N.eqb_spec LF l) as [<-|]; [discriminate Hlast|reflexivity]. }
  rewrite Hne. cbn [andb]. rewrite <- Ey. rewrite splitlines_lb_free; [reflexivity|].
  apply negb_true_iff in Hlb. rewrite forallb_forall. intros x Hx.
  apply negb_true_iff. destruct (py_islinebreak x) eqn:E; [|reflexivity].
  assert (X : existsb py_islinebreak (ch :: s') = true) by (apply existsb_exists; eauto).
  congruence.
Qed.

Lemma sval_of_validate c key v sv :
  sval_of true c key v = Some sv -> validate_input c key v = Ok tt.
Proof.
  unfold sval_of. rewrite spec_order_is_lookup.
  destruct (lookup_exact (ascii_lower key) (table_of c)) as [order|] eqn:E.
  - intros _. unfold validate_input. now rewrite E.
  - destruct v as [s|r|rs]; try discriminate. cbn [negb orb].
    destruct (plain_key_ok key && plain_value_ok s) eqn:F; [|discriminate]. intros _.
    apply andb_true_iff in F. destruct F as [_ F]. now apply validate_plain_ok.
Qed.

Lemma build_fold c : forall ops acc sp,
  spara_of true c ops = Some sp ->
  distinct_keys (map fst ops) = true ->
  (forall kv, In kv ops -> forallb (fun kv' => negb (key_eqb true (fst kv') (fst kv))) acc = true) ->
  fold_left (build_step c) ops (Ok acc) = Ok (acc ++ ops).
Proof.
  induction ops as [|[k v] ops IH]; intros acc sp Hsp Hd Hacc; [now rewrite app_nil_r|].
  destruct (spara_of_cons _ _ _ _ _ _ Hsp) as [sv [sp' [H1 [H2 _]]]].
  cbn [map fst distinct_keys] in Hd. apply andb_true_iff in Hd. destruct Hd as [Hk Hd].
  cbn [fold_left]. unfold build_step at 2. cbn [bind fst snd].
  rewrite (sval_of_validate _ _ _ _ H1). cbn [bind].
  rewrite para_set_new by (apply (Hacc (k, v)); now left).
  rewrite (IH _ sp' H2 Hd); [now rewrite <- app_assoc|].
  intros [k2 v2] Hin. rewrite forallb_app. rewrite (Hacc (k2, v2)) by now right.
  cbn [forallb fst andb key_eqb]. apply negb_true_iff in Hk.
  destruct (str_eqb (ascii_lower k) (ascii_lower k2)) eqn:E; [|reflexivity]. exfalso.
  apply str_eqb_eq in E.
  assert (X : existsb (fun k' => str_eqb (ascii_lower k') (ascii_lower k)) (map fst ops) = true).
  { apply existsb_exists. exists k2. split; [now apply (in_map fst) in Hin|].
    rewrite E. apply str_eqb_refl. }
  congruence.
Qed.

(** Assigning the fields of a paragraph of the domain one after the other to an
    empty object raises nothing and yields that paragraph. *)
Lemma build_in_domain c p sp : in_domain c p = Some sp -> build c p = Ok p.
Proof.
  unfold in_domain. destruct (distinct_keys (map fst p)) eqn:Hd; [|discriminate]. intros Hsp.
  unfold build. now rewrite (build_fold c p [] sp Hsp Hd).
Qed.

(** * 10. The size column, concretely *)

Lemma rjust_length w t : length (rjust w t) = Nat.max w (length t).
Proof. unfold rjust. rewrite app_length, repeat_length. lia. Qed.

Lemma longest_ge : forall l t, In t l -> length t <= longest l.
Proof.
  unfold longest. induction l as [|x l IH]; intros t Hin; [contradiction|].
  cbn [map fold_right]. destruct Hin as [->|Hin]; [lia|]. specialize (IH t Hin). lia.
Qed.

Lemma size_in_sizes_of order row rows t :
  In row rows -> In (spec_size_name, t) (combine order row) -> In t (sizes_of order rows).
Proof.
  intros Hr Ht. unfold sizes_of. apply in_flat_map. exists row. split; [assumption|].
  apply in_map_iff. exists (spec_size_name, t). split; [reflexivity|].
  apply filter_In. split; [assumption|]. apply str_eqb_refl.
Qed.

Lemma spec_width_cases c b order rows :
  spec_width c b order rows
  = match c, b with
    | Release, Apt => Some 16
    | Release, Dak | PdiffIndex, _ => Some (longest (sizes_of order rows))
    | _, _ => None
    end.
Proof. destruct c, b; reflexivity. Qed.

(** every size of the field, right-justified to the longest, has exactly that width *)
Lemma size_column_exact order rows t :
  In t (sizes_of order rows) ->
  length (rjust (longest (sizes_of order rows)) t) = longest (sizes_of order rows).
Proof. intros H. rewrite rjust_length. pose proof (longest_ge _ _ H). lia. Qed.

(** * 11. The statements of Props/C12.v *)

(** [size_right_aligned] *)
Lemma get_as_string_documented c b ci p key order row rows :
  lookup_exact (ascii_lower key) (table_of c) = Some order ->
  para_get key p = Some (Multi (spec_records order (row :: rows))) ->
  forallb (row_ok order) (row :: rows) = true ->
  para_dumpable c b ci p = true ->
  get_as_string c b ci p key = Ok (spec_value c b order (row :: rows)).
Proof.
  intros Hl Hg Hr Hd. apply get_as_string_rows; auto. now apply dumpable_sized.
Qed.

(** [record_roundtrip] *)
Lemma record_roundtrip c b ci p key order row rows :
  lookup_exact (ascii_lower key) (table_of c) = Some order ->
  para_get key p = Some (Multi (spec_records order (row :: rows))) ->
  forallb (row_ok order) (row :: rows) = true ->
  para_dumpable c b ci p = true ->
  exists s, get_as_string c b ci p key = Ok s
            /\ mv_parse_field order s = Multi (spec_records order (row :: rows)).
Proof.
  intros Hl Hg Hr Hd. exists (spec_value c b order (row :: rows)). split.
  - now apply get_as_string_documented.
  - apply parse_spec_value; [|assumption].
    now destruct (table_entry_ok c _ order (table_lookup_in _ _ _ Hl)) as [_ [Hok _]].
Qed.

(** parsing exposes each line as a record with the documented sub-field names *)
Lemma parse_exposes_records c key order contents rows :
  lookup_exact (ascii_lower key) (table_of c) = Some order ->
  spec_rows order contents = Some rows ->
  mv_parse_field order contents = Multi (spec_records order rows).
Proof.
  intros Hl Hr.
  destruct (table_entry_ok c _ order (table_lookup_in _ _ _ Hl)) as [_ [Hok _]].
  destruct (order_ok_parts order Hok) as [Hnd [Hne _]].
  now apply parse_spec_rows.
Qed.

Lemma rec_get_cols ci (P : str -> bool) : forall order row pre rpre,
  length row = length order -> length pre = length rpre ->
  (forall y, In y order -> notin true y pre = true) ->
  nodup_ci order = true ->
  forallb P row = true ->
  forallb (fun x => match rec_get ci x (combine pre rpre ++ combine order row) with
                    | Ok v => P v
                    | Err _ => false
                    end) order = true.
Proof.
  induction order as [|x order IH]; intros row pre rpre Hlen Hpre Hnotin Hnd HP; [reflexivity|].
  destruct row as [|t row]; [discriminate|].
  simpl in Hlen. cbn [nodup_ci] in Hnd. cbn [forallb] in HP.
  apply andb_true_iff in Hnd. destruct Hnd as [Hx Hnd].
  apply andb_true_iff in HP. destruct HP as [Ht HP].
  cbn [forallb combine].
  assert (Hget : rec_get ci x (combine pre rpre ++ (x, t) :: combine order row) = Ok t).
  { rewrite rec_get_skip; [|assumption|apply notin_ci, Hnotin; now left].
    cbn [rec_get]. now rewrite key_eqb_refl. }
  rewrite Hget, Ht. cbn [andb].
  replace (combine pre rpre ++ (x, t) :: combine order row)
    with (combine (pre ++ [x]) (rpre ++ [t]) ++ combine order row)
    by (rewrite combine_snoc by assumption; now rewrite <- app_assoc).
  apply IH; [lia|rewrite !app_length; simpl; lia| |assumption|assumption].
  intros y Hy. rewrite notin_app. rewrite Hnotin by now right.
  cbn [notin forallb andb]. rewrite forallb_forall in Hx. now rewrite (Hx y Hy).
Qed.

(** a paragraph of the domain is dumpable (so the totality theorem covers it) *)
Lemma in_domain_dumpable c b ci p sp : in_domain c p = Some sp -> para_dumpable c b ci p = true.
Proof.
  unfold in_domain. destruct (distinct_keys (map fst p)); [|discriminate]. intros Hsp.
  unfold para_dumpable. rewrite forallb_forall. intros [key v] Hin.
  destruct (spara_of_in _ _ _ _ _ _ Hsp Hin) as [sv Hsv].
  unfold entry_dumpable. cbn [fst snd].
  destruct (sval_of_inv _ _ _ _ _ Hsv) as [order row rows Hl Hv Hrows _|s Hl Hv _]; subst v; rewrite Hl;
    [|reflexivity].
  destruct (table_entry_ok c _ order (table_lookup_in _ _ _ Hl)) as [_ [Hok _]].
  destruct (order_ok_parts order Hok) as [Hnd _].
  unfold spec_records. cbn [val_dumpable map].
  change (combine order row :: map (combine order) rows) with (map (combine order) (row :: rows)).
  rewrite forallb_forall. intros r Hr. apply in_map_iff in Hr. destruct Hr as [r0 [<- Hr0]].
  rewrite forallb_forall in Hrows. destruct (row_ok_parts _ _ (Hrows r0 Hr0)) as [Hlen [_ Hlf]].
  exact (rec_get_cols ci _ order r0 [] [] Hlen eq_refl (fun _ _ => eq_refl) Hnd Hlf).
Qed.

(** * 12. Dumping a PARSED paragraph: total whichever structured fields are present *)

Lemma split_ws_aux_tokens isspace : forall s cur,
  forallb (fun ch => negb (isspace ch)) cur = true ->
  forallb (forallb (fun ch => negb (isspace ch))) (split_ws_aux isspace s cur) = true.
Proof.
  assert (Hrev : forall cur, forallb (fun ch => negb (isspace ch)) cur = true ->
                             forallb (fun ch => negb (isspace ch)) (rev cur) = true).
  { intros cur H. rewrite forallb_forall in *. intros x Hx. apply H. now apply in_rev. }
  induction s as [|x s IH]; intros cur Hcur; cbn [split_ws_aux].
  - destruct cur; [reflexivity|]. cbn [forallb]. now rewrite Hrev.
  - destruct (isspace x) eqn:E.
    + destruct cur; [now apply IH|]. cbn [forallb]. rewrite Hrev by assumption. now apply IH.
    + apply IH. cbn [forallb]. now rewrite E.
Qed.

Lemma lf_is_space : py_isspace LF = true.
Proof. vm_compute. reflexivity. Qed.

Lemma split_ws_no_lf s :
  forallb (fun t => negb (mem_char LF t)) (split_ws py_isspace s) = true.
Proof.
  pose proof (split_ws_aux_tokens py_isspace s [] eq_refl) as H. fold (split_ws py_isspace s) in H.
  rewrite forallb_forall in *. intros t Ht. specialize (H t Ht).
  apply negb_true_iff. unfold mem_char. destruct (existsb (N.eqb LF) t) eqn:E; [|reflexivity].
  apply existsb_exists in E. destruct E as [ch [Hin Hch]]. apply N.eqb_eq in Hch. subst ch.
  rewrite forallb_forall in H. specialize (H _ Hin). now rewrite lf_is_space in H.
Qed.

Lemma spec_rows_inv order contents rows :
  spec_rows order contents = Some rows ->
  rows <> []
  /\ forallb (fun r => (length r =? length order)%nat) rows = true
  /\ forallb (forallb (fun t => negb (mem_char LF t))) rows = true.
Proof.
  unfold spec_rows. destruct contents as [|ch rest]; [discriminate|].
  destruct (ch =? LF)%N; [|discriminate].
  destruct (forallb (fun l => negb (existsb py_islinebreak l)) (split_on LF rest)); [|discriminate].
  cbn [andb].
  destruct (forallb (fun r => (length r =? length order)%nat)
                    (map (split_ws py_isspace) (split_on LF rest))) eqn:Hlen; [|discriminate].
  intros [= <-]. repeat split.
  - pose proof (split_on_nonempty LF rest). destruct (split_on LF rest); [congruence|discriminate].
  - exact Hlen.
  - rewrite forallb_forall. intros r Hr. apply in_map_iff in Hr. destruct Hr as [l [<- _]].
    apply split_ws_no_lf.
Qed.

(** the single-line form parses to ONE mapping with the documented names *)
Lemma parse_spec_single order contents toks :
  nodup_ci order = true -> order <> [] ->
  spec_single order contents = Some toks ->
  mv_parse_field order contents = Single (combine order toks).
Proof.
  intros Hnd Hne. unfold spec_single.
  destruct (existsb py_islinebreak contents) eqn:Hlb; [discriminate|].
  destruct (length (split_ws py_isspace contents) =? length order)%nat eqn:Hlen; [|discriminate].
  intros [= <-]. apply Nat.eqb_eq in Hlen.
  assert (Hfree : forallb (fun ch => negb (py_islinebreak ch)) contents = true).
  { rewrite forallb_forall. intros ch Hch. apply negb_true_iff.
    destruct (py_islinebreak ch) eqn:E; [|reflexivity].
    assert (X : existsb py_islinebreak contents = true) by (apply existsb_exists; eauto).
    congruence. }
  assert (Hm : mem_char LF contents = false).
  { unfold mem_char. destruct (existsb (N.eqb LF) contents) eqn:E; [|reflexivity].
    apply existsb_exists in E. destruct E as [ch [Hin Hch]]. apply N.eqb_eq in Hch. subst ch.
    rewrite forallb_forall in Hfree. specialize (Hfree _ Hin).
    now rewrite lf_is_linebreak in Hfree. }
  assert (Hc : contents <> []).
  { intros ->. cbn in Hlen. destruct order; [congruence|discriminate]. }
  unfold mv_parse_field. rewrite Hm. f_equal.
  assert (Hs : splitlines py_islinebreak false contents = [contents]).
  { unfold splitlines. rewrite <- (app_nil_r contents) at 1.
    rewrite splitlines_aux_free by assumption. cbn [splitlines_aux]. rewrite app_nil_r.
    destruct (rev contents) eqn:E.
    - apply (f_equal (@length N)) in E. rewrite rev_length in E.
      destruct contents; [congruence|discriminate].
    - rewrite <- E. now rewrite rev_involutive. }
  rewrite Hs. cbn [filter]. destruct contents as [|ch rest]; [congruence|]. cbn [nonempty map fold_left].
  unfold rec_update. rewrite mk_record_combine by assumption.
  now rewrite rec_of_pairs_combine.
Qed.

Lemma parsed_dumpable c b raw :
  raw_ok c b raw = true -> para_dumpable c b true (map (parse_entry (table_of c)) raw) = true.
Proof.
  intros H. unfold para_dumpable. rewrite forallb_forall. intros e He.
  apply in_map_iff in He. destruct He as [[key s] [<- Hin]].
  unfold raw_ok in H. rewrite forallb_forall in H. specialize (H _ Hin). cbn [fst snd] in H.
  rewrite spec_order_is_lookup in H.
  unfold entry_dumpable, parse_entry. cbn [fst snd].
  destruct (lookup_exact (ascii_lower key) (table_of c)) as [order|] eqn:Hl; [|reflexivity].
  destruct (table_entry_ok c _ order (table_lookup_in _ _ _ Hl)) as [_ [Hok _]].
  destruct (order_ok_parts order Hok) as [Hnd [Hne _]].
  destruct (spec_rows order s) as [rows|] eqn:Hr.
  - rewrite (parse_spec_rows order s rows Hnd Hne Hr).
    destruct (spec_rows_inv _ _ _ Hr) as [Hrows [Hlen Hlf]].
    destruct rows as [|row rows]; [congruence|].
    unfold spec_records. cbn [val_dumpable map].
    change (combine order row :: map (combine order) rows) with (map (combine order) (row :: rows)).
    rewrite forallb_forall. intros r Hrr. apply in_map_iff in Hrr. destruct Hrr as [r0 [<- Hr0]].
    rewrite forallb_forall in Hlen, Hlf.
    pose proof (Hlen r0 Hr0) as Hl0. apply Nat.eqb_eq in Hl0.
    exact (rec_get_cols true _ order r0 [] [] Hl0 eq_refl (fun _ _ => eq_refl) Hnd (Hlf r0 Hr0)).
  - destruct (spec_single order s) as [toks|] eqn:Hs; [|discriminate].
    rewrite (parse_spec_single order s toks Hnd Hne Hs). cbn [val_dumpable]. rewrite H, andb_true_r.
    assert (Hlen : length toks = length order /\ toks = split_ws py_isspace s).
    { unfold spec_single in Hs. destruct (existsb py_islinebreak s); [discriminate|].
      destruct (length (split_ws py_isspace s) =? length order)%nat eqn:E; [|discriminate].
      injection Hs as <-. apply Nat.eqb_eq in E. auto. }
    destruct Hlen as [Hlen ->].
    exact (rec_get_cols true _ order _ [] [] Hlen eq_refl (fun _ _ => eq_refl) Hnd (split_ws_no_lf s)).
Qed.

(** [K(text).dump()] raises nothing, for every class, both behaviours, and EVERY subset
    of the class's structured fields being present in the text. *)
Lemma parsed_dump_total c b raw :
  distinct_keys (map fst raw) = true -> raw_ok c b raw = true ->
  exists q, mv_init (table_of c) raw = Ok q /\ is_ok (dump_para c b true q) = true.
Proof.
  intros Hd Hok. exists (map (parse_entry (table_of c)) raw). split.
  - now apply mv_init_map.
  - apply dump_para_total. now apply parsed_dumpable.
Qed.

Lemma in_domain_is_spec c p sp : in_domain c p = Some sp -> para_of_spara c sp = p.
Proof.
  unfold in_domain. destruct (distinct_keys (map fst p)); [|discriminate]. intros H.
  now destruct (in_domain_shapes true c p sp H) as [_ [E _]].
Qed.

(** Every sub-paragraph (any selection of the fields) of a dumpable paragraph dumps. *)
Lemma dump_total_subsets c b ci p (keep : str * fvalue -> bool) :
  para_dumpable c b ci p = true -> is_ok (dump_para c b ci (filter keep p)) = true.
Proof.
  intros H. apply dump_para_total. unfold para_dumpable in *.
  rewrite forallb_forall in *. intros kv Hkv. apply filter_In in Hkv. now apply H.
Qed.

Lemma parse_single_line c key order contents toks :
  lookup_exact (ascii_lower key) (table_of c) = Some order ->
  spec_single order contents = Some toks ->
  mv_parse_field order contents = Single (combine order toks).
Proof.
  intros Hl.
  destruct (table_entry_ok c _ order (table_lookup_in _ _ _ Hl)) as [_ [Hok _]].
  destruct (order_ok_parts order Hok) as [Hnd [Hne _]]. now apply parse_spec_single.
Qed.

(** * 13. "Can always be dumped": dumpability is an invariant of in-place edits *)

Lemma entry_dumpable_key c b ci k k' v :
  ascii_lower k' = ascii_lower k -> entry_dumpable c b ci (k', v) = entry_dumpable c b ci (k, v).
Proof. intros H. unfold entry_dumpable. cbn [fst snd]. now rewrite H. Qed.

Lemma para_set_dumpable c b ci k v : forall p,
  para_dumpable c b ci p = true -> entry_dumpable c b ci (k, v) = true ->
  para_dumpable c b ci (para_set k v p) = true.
Proof.
  unfold para_dumpable. induction p as [|[k' v'] p IH]; intros Hp He.
  - cbn. now rewrite He.
  - cbn [forallb] in Hp. apply andb_true_iff in Hp. destruct Hp as [H1 H2].
    cbn [para_set]. destruct (key_eqb true k' k) eqn:E.
    + cbn [forallb]. rewrite H2, andb_true_r.
      rewrite (entry_dumpable_key c b ci k k'); [assumption|].
      cbn [key_eqb] in E. now apply str_eqb_eq in E.
    + cbn [forallb]. rewrite H1. now apply IH.
Qed.

Lemma para_del_dumpable c b ci k : forall p p',
  para_dumpable c b ci p = true -> para_del k p = Some p' -> para_dumpable c b ci p' = true.
Proof.
  unfold para_dumpable. induction p as [|[k' v'] p IH]; intros p' Hp Hd; [discriminate|].
  cbn [forallb] in Hp. apply andb_true_iff in Hp. destruct Hp as [H1 H2].
  cbn [para_del] in Hd. destruct (key_eqb true k' k).
  - now injection Hd as <-.
  - destruct (para_del k p) as [q|] eqn:E; [|discriminate]. injection Hd as <-.
    cbn [forallb]. rewrite H1. now apply (IH q).
Qed.

Lemma set_nth_forallb {A} (P : A -> bool) a : forall i l l',
  forallb P l = true -> P a = true -> set_nth i a l = Some l' ->
  forallb P l' = true /\ l' <> [].
Proof.
  induction i as [|i IH]; intros [|x l] l' Hl Ha H; try discriminate.
  - injection H as <-. cbn [forallb] in *. apply andb_true_iff in Hl. destruct Hl as [_ Hl].
    rewrite Ha, Hl. split; [reflexivity|discriminate].
  - cbn [set_nth] in H. destruct (set_nth i a l) as [l0|] eqn:E; [|discriminate].
    injection H as <-. cbn [forallb] in *. apply andb_true_iff in Hl. destruct Hl as [Hx Hl].
    destruct (IH l l0 Hl Ha E) as [H0 _]. rewrite Hx, H0. split; [reflexivity|discriminate].
Qed.

(** [r[sub] = v] keeps a complete record complete *)
Lemma rec_set_complete ci order sub v : forall r,
  negb (mem_char LF v) = true ->
  rec_complete ci order r = true -> rec_complete ci order (rec_set ci sub v r) = true.
Proof.
  intros r Hv Hr. unfold rec_complete in *. rewrite forallb_forall in *. intros x Hx.
  specialize (Hr x Hx). clear Hx. revert Hr.
  induction r as [|[k' v'] r IH]; intros Hr; [discriminate Hr|].
  cbn [rec_set]. destruct (key_eqb ci k' sub) eqn:E.
  - cbn [rec_get] in *. destruct (key_eqb ci k' x); [exact Hv|exact Hr].
  - cbn [rec_get] in *. destruct (key_eqb ci k' x); [exact Hr|now apply IH].
Qed.

Lemma multi_dumpable c b ci order rs :
  rs <> [] -> forallb (rec_complete ci order) rs = true ->
  val_dumpable c b ci order (Multi rs) = true.
Proof. intros Hne H. destruct rs; [congruence|exact H]. Qed.

Lemma multi_dumpable_inv c b ci order rs :
  val_dumpable c b ci order (Multi rs) = true ->
  rs <> [] /\ forallb (rec_complete ci order) rs = true.
Proof. destruct rs; [discriminate|]. intros H. split; [discriminate|exact H]. Qed.

(** the entry under which [para_get key p] finds a list, seen through [key] *)
Lemma dumpable_multi_of_get c b ci p key rs :
  para_dumpable c b ci p = true -> para_get key p = Some (Multi rs) ->
  exists order, lookup_exact (ascii_lower key) (table_of c) = Some order
                /\ rs <> [] /\ forallb (rec_complete ci order) rs = true.
Proof.
  intros Hd Hg. destruct (dumpable_entry_of_get _ _ _ _ _ _ Hd Hg) as [key' [Hlow He]].
  unfold entry_dumpable in He. cbn [fst snd] in He. rewrite Hlow in He.
  destruct (lookup_exact (ascii_lower key) (table_of c)) as [order|]; [|discriminate].
  exists order. split; [reflexivity|]. now apply (multi_dumpable_inv c b ci).
Qed.

Lemma set_multi_dumpable c b ci p key order rs' :
  para_dumpable c b ci p = true ->
  lookup_exact (ascii_lower key) (table_of c) = Some order ->
  rs' <> [] -> forallb (rec_complete ci order) rs' = true ->
  para_dumpable c b ci (para_set key (Multi rs') p) = true.
Proof.
  intros Hd Hl Hne Hall. apply para_set_dumpable; [assumption|].
  unfold entry_dumpable. cbn [fst snd]. rewrite Hl. now apply multi_dumpable.
Qed.

Lemma edit_preserves_dumpable c b ci p e p' :
  para_dumpable c b ci p = true -> edit_ok c b ci e = true ->
  apply_edit c ci p e = Ok p' -> para_dumpable c b ci p' = true.
Proof.
  intros Hd He Ha. destruct e as [key i r|key i sub v|key r|key r|key v|key]; cbn [apply_edit edit_ok] in *.
  - destruct (para_get key p) as [[s|r0|rs]|] eqn:Hg; try discriminate.
    destruct (dumpable_multi_of_get _ _ _ _ _ _ Hd Hg) as [order [Hl [Hne Hall]]].
    unfold rec_ok in He. rewrite Hl in He.
    destruct (set_nth i r rs) as [rs'|] eqn:Es; [|discriminate]. injection Ha as <-.
    destruct (set_nth_forallb _ _ _ _ _ Hall He Es) as [H1 H2].
    now apply (set_multi_dumpable c b ci p key order).
  - destruct (para_get key p) as [[s|r0|rs]|] eqn:Hg; try discriminate.
    + destruct (i <? length s)%nat; discriminate.
    + destruct (dumpable_multi_of_get _ _ _ _ _ _ Hd Hg) as [order [Hl [Hne Hall]]].
      destruct (nth_error rs i) as [r|] eqn:En; [|discriminate].
      destruct (set_nth i (rec_set ci sub v r) rs) as [rs'|] eqn:Es; [|discriminate].
      injection Ha as <-.
      assert (Hr : rec_complete ci order r = true).
      { rewrite forallb_forall in Hall. apply Hall. eapply nth_error_In; eauto. }
      destruct (set_nth_forallb _ _ _ _ _ Hall (rec_set_complete ci order sub v r He Hr) Es) as [H1 H2].
      now apply (set_multi_dumpable c b ci p key order).
  - destruct (para_get key p) as [[s|r0|[|r1 rs]]|] eqn:Hg; try discriminate.
    destruct (dumpable_multi_of_get _ _ _ _ _ _ Hd Hg) as [order [Hl [Hne Hall]]].
    unfold rec_ok in He. rewrite Hl in He. injection Ha as <-.
    cbn [forallb] in Hall. apply andb_true_iff in Hall. destruct Hall as [_ Hall].
    apply (set_multi_dumpable c b ci p key order); auto.
    + destruct rs; discriminate.
    + rewrite forallb_app, Hall. cbn [forallb]. now rewrite He.
  - destruct (para_get key p) as [[s|r0|rs]|] eqn:Hg; try discriminate.
    destruct (dumpable_multi_of_get _ _ _ _ _ _ Hd Hg) as [order [Hl [Hne Hall]]].
    unfold rec_ok in He. rewrite Hl in He. injection Ha as <-.
    apply (set_multi_dumpable c b ci p key order); auto.
    + destruct rs; discriminate.
    + rewrite forallb_app, Hall. cbn [forallb]. now rewrite He.
  - unfold build_step in Ha. cbn [bind fst snd] in Ha.
    destruct (validate_input c key v); [|discriminate]. cbn [bind] in Ha. injection Ha as <-.
    now apply para_set_dumpable.
  - destruct (para_del key p) as [q|] eqn:E; [|discriminate]. injection Ha as <-.
    now apply (para_del_dumpable c b ci key p).
Qed.

(** the states an object goes through under a list of edits (it stops at the first
    edit that raises) *)
Fixpoint states (c : cls) (ci : bool) (p : para) (es : list edit) : list para :=
  p :: match es with
       | [] => []
       | e :: es' => match apply_edit c ci p e with
                     | Ok p' => states c ci p' es'
                     | Err _ => []
                     end
       end.

(** Starting from a dumpable object, after ANY sequence of such edits — fields
    deleted, fields added, records replaced, appended, rotated, values overwritten —
    the object can be dumped: in every state it goes through. *)
Lemma always_dumpable c b ci : forall es p q,
  para_dumpable c b ci p = true -> forallb (edit_ok c b ci) es = true ->
  In q (states c ci p es) -> is_ok (dump_para c b ci q) = true.
Proof.
  induction es as [|e es IH]; intros p q Hd Hes Hq.
  - destruct Hq as [<-|[]]. now apply dump_para_total.
  - cbn [forallb] in Hes. apply andb_true_iff in Hes. destruct Hes as [He Hes].
    cbn [states] in Hq. destruct Hq as [<-|Hq]; [now apply dump_para_total|].
    destruct (apply_edit c ci p e) as [p'|] eqn:Ea; [|contradiction].
    apply (IH p' q); auto. now apply (edit_preserves_dumpable c b ci p e).
Qed.
