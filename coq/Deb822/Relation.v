(** Model of debian.deb822.PkgRelation.parse_relations / PkgRelation.str
    (lib/debian/deb822.py, class PkgRelation) as the code is in /repo now.
    No proofs here: the model must still run when a proof breaks.

    Regular expressions are hand-written leaves following Python's
    leftmost/greedy semantics; each is compared on its own with the live
    compiled pattern by Deb822/RelationCheck.v (constructors CLeaf, CSplit). *)
From Verif Require Import Lib.Base Lib.PyStr Gen.PyChars.

(** \s of a str pattern and str.strip(): Py_UNICODE_ISSPACE. *)
Definition ws : N -> bool := py_isspace.

Definition BANG : N := 33.    (* ! *)
Definition LPAR : N := 40.    (* ( *)
Definition RPAR : N := 41.    (* ) *)
Definition COMMA : N := 44.   (* , *)
Definition COLON : N := 58.   (* : *)
Definition LT : N := 60.      (* < *)
Definition GT : N := 62.      (* > *)
Definition LBRK : N := 91.    (* [ *)
Definition RBRK : N := 93.    (* ] *)
Definition PIPE : N := 124.   (* | *)

(** * Character classes of __dep_RE (no re.IGNORECASE, str pattern) *)
Definition is_alnum (c : N) : bool :=                 (* [a-zA-Z0-9] *)
  ((48 <=? c) && (c <=? 57) || (65 <=? c) && (c <=? 90) || (97 <=? c) && (c <=? 122))%N.
Definition name_char (c : N) : bool :=                (* [a-zA-Z0-9.+\-] *)
  is_alnum c || (c =? 46)%N || (c =? 43)%N || (c =? 45)%N.
Definition aq_char (c : N) : bool :=                  (* [a-zA-Z0-9-] *)
  is_alnum c || (c =? 45)%N.
Definition relop_char (c : N) : bool :=               (* [>=<] *)
  (c =? 62)%N || (c =? 61)%N || (c =? 60)%N.
Definition ver_char (c : N) : bool :=                 (* [0-9a-zA-Z:\-+~.] *)
  is_alnum c || (c =? 58)%N || (c =? 45)%N || (c =? 43)%N || (c =? 126)%N || (c =? 46)%N.
Definition archs_char (c : N) : bool :=               (* [\s!\w\-] *)
  ws c || (c =? 33)%N || re_w c || (c =? 45)%N.

Definition is_nil {A} (l : list A) : bool := match l with [] => true | _ => false end.

(** * The separator splits *)

(** [re.compile(r'\s* C\s* ').split(s)] (blanks-C-blanks) for a one-character, non-blank C
    (__comma_sep_RE, __pipe_sep_RE).  A match is the maximal run of blanks
    before a C, the C, and the maximal run of blanks after it; so the pieces are
    those of [s.split(C)] with the blanks next to a separator removed — the
    outer ends of the first and last piece are left alone. *)
Fixpoint trim_pieces (first : bool) (ps : list str) : list str :=
  match ps with
  | [] => []
  | [p] => [if first then p else lstrip_by ws p]
  | p :: ps' => (if first then rstrip_by ws p else strip_by ws p) :: trim_pieces false ps'
  end.
Definition sep_split (c : N) (s : str) : list str := trim_pieces true (split_on c s).

Definition cons_head (x : N) (l : list str) : list str :=
  match l with p :: ps => (x :: p) :: ps | [] => [[x]] end.

(** [re.compile(r'\s+').split(s)] (__blank_sep_RE): cut at every maximal run of
    blanks; a leading or trailing run leaves an empty piece at that end. *)
Fixpoint blank_split_aux (inws : bool) (s : str) : list str :=
  match s with
  | [] => [[]]
  | x :: s' =>
      if ws x then (if inws then blank_split_aux true s' else [] :: blank_split_aux true s')
      else cons_head x (blank_split_aux false s')
  end.
Definition blank_split (s : str) : list str := blank_split_aux false s.

(** does [s] start with blanks followed by '<' ? *)
Fixpoint ws_then_lt (s : str) : bool :=
  match s with
  | x :: s' => if (x =? LT)%N then true else if ws x then ws_then_lt s' else false
  | [] => false
  end.

(** [re.compile('>', blanks, '<').split(s)] (__restriction_sep_RE).  [skip]: inside a
    separator, after its '>' — everything up to and including the next '<' is
    dropped (it is all blanks, by [ws_then_lt]). *)
Fixpoint restr_split_aux (skip : bool) (s : str) : list str :=
  match s with
  | [] => [[]]
  | x :: s' =>
      if skip then (if (x =? LT)%N then restr_split_aux false s' else restr_split_aux true s')
      else if (x =? GT)%N && ws_then_lt s' then [] :: restr_split_aux true s'
      else cons_head x (restr_split_aux false s')
  end.
Definition restr_split (s : str) : list str := restr_split_aux false s.

(** * __dep_RE as a deterministic scanner

    (pattern text with a blank inserted wherever it would otherwise close this comment)
    ^\s* (?P<name>[a-zA-Z0-9][a-zA-Z0-9.+\-]* )
    (:(?P<archqual>([a-zA-Z0-9][a-zA-Z0-9-]* )))?
    (\s* \(\s* (?P<relop>[>=<]+)\s* (?P<version>[0-9a-zA-Z:\-+~.]+)\s* \))?
    (\s* \[(?P<archs>[\s!\w\-]+)\])?\s*
    ((?P<restrictions><.+>))?\s* $

    Every optional group starts with a character — : ( [ < — that nothing else
    in the pattern can consume, every greedy class is followed by a character
    outside it, and the greedy <.+> must end at the last non-blank character
    (only blanks may follow, '.' does not cross a line feed).  So no
    back-tracking ever finds a second way to match: each stage either consumes
    its part or the whole match fails. *)
Record dep_groups := mkGroups {
  g_name : str;
  g_archqual : option str;
  g_version : option (str * str);          (* relop, version: one group, set together *)
  g_archs : option str;
  g_restr : option str;
}.

(** the optional archqual group, ':' [a-zA-Z0-9] [a-zA-Z0-9-]...;  [None]: the whole match fails *)
Definition scan_archqual (r : str) : option (option str * str) :=
  match r with
  | 58%N :: c :: t =>
      if is_alnum c then let (a, r') := span aq_char t in Some (Some (c :: a), r') else None
  | [58%N] => None
  | _ => Some (None, r)
  end.

(** the optional group '(' relop version ')' with blanks anywhere between,
    on input whose leading blanks are gone *)
Definition scan_version (r : str) : option (option (str * str) * str) :=
  match r with
  | 40%N :: t =>
      let (op, t2) := span relop_char (dropwhile ws t) in
      match op with
      | [] => None
      | _ =>
        let (v, t4) := span ver_char (dropwhile ws t2) in
        match v with
        | [] => None
        | _ => match dropwhile ws t4 with
               | 41%N :: t6 => Some (Some (op, v), t6)
               | _ => None
               end
        end
      end
  | _ => Some (None, r)
  end.

(** the optional group '[' archs ']', on input whose leading blanks are gone *)
Definition scan_archs (r : str) : option (option str * str) :=
  match r with
  | 91%N :: t =>
      let (a, t1) := span archs_char t in
      match a, t1 with
      | _ :: _, 93%N :: t2 => Some (Some a, t2)
      | _, _ => None
      end
  | _ => Some (None, r)
  end.

(** the optional restrictions group and the end anchor, on input whose leading blanks are gone:
    nothing left, or '<' … '>' where that '>' is the last non-blank character,
    at least one character in between and no line feed in between. *)
Definition scan_restr (r : str) : option (option str) :=
  match r with
  | [] => Some None
  | 60%N :: t =>
      let t' := rdropwhile ws t in
      match rev t' with
      | 62%N :: p => if negb (is_nil p) && negb (mem_char 10 p) then Some (Some (60%N :: t')) else None
      | _ => None
      end
  | _ => None
  end.

(** [__dep_RE.match(s)] and its named groups *)
Definition match_dep (s : str) : option dep_groups :=
  match dropwhile ws s with
  | [] => None
  | c :: t =>
    if is_alnum c then
      let (nm, r1) := span name_char t in
      match scan_archqual r1 with
      | None => None
      | Some (aq, r2) =>
        match scan_version (dropwhile ws r2) with
        | None => None
        | Some (ver, r3) =>
          match scan_archs (dropwhile ws r3) with
          | None => None
          | Some (ar, r4) =>
            match scan_restr (dropwhile ws r4) with
            | None => None
            | Some rs => Some (mkGroups (c :: nm) aq ver ar rs)
            end
          end
        end
      end
    else None
  end.

(** * The parsed structure *)
Definition term := (bool * str)%type.                 (* ArchRestriction / BuildRestriction: (enabled, text) *)

Record rel := mkRel {
  r_name : str;
  r_archqual : option str;
  r_version : option (str * str);
  r_arch : option (list term);
  r_restr : option (list (list term));
}.

(** parse_archs: [arch[0]] on an empty piece is the IndexError of the code
    (reached when the bracket holds blanks only). *)
Fixpoint parse_arch_pieces (ps : list str) : result (list term) :=
  match ps with
  | [] => Ok []
  | p :: ps' =>
      match p with
      | [] => Err IndexError
      | c :: t =>
          do r <- parse_arch_pieces ps';
          Ok ((if (c =? BANG)%N then (false, t) else (true, p)) :: r)
      end
  end.
Definition parse_archs (raw : str) : result (list term) :=
  parse_arch_pieces (blank_split (strip_by ws raw)).

(** [__restriction_RE.match(s)], pattern (?P<enabled>\!)?(?P<profile>[^\s]+):
    with [a] the maximal blank-free prefix of [s]: no match when [a] is empty;
    '!' followed by something is a negated profile; '!' alone is a profile named
    "!" (the optional group gives the character back).  The code applies it to
    the blank-free pieces of [blank_split], where [a] is the whole piece. *)
Definition nonws (c : N) : bool := negb (ws c).
Definition parse_term (s : str) : option term :=
  let a := takewhile nonws s in
  match a with
  | [] => None
  | c :: t => if (c =? BANG)%N && negb (is_nil t) then Some (false, t) else Some (true, a)
  end.

Fixpoint filter_map {A B} (f : A -> option B) (l : list A) : list B :=
  match l with
  | [] => []
  | a :: l' => match f a with Some b => b :: filter_map f l' | None => filter_map f l' end
  end.

(** parse_restrictions; [raw.lower()] is [ascii_lower] (claimed for text whose
    non-ASCII characters are unchanged by str.lower()). *)
Definition parse_restrictions (raw : str) : list (list term) :=
  map (fun g => filter_map parse_term (blank_split g))
      (restr_split (strip_by (in_chars [LT; GT; SP]) (ascii_lower raw))).

(** parse_rel: the structure and whether the warning was emitted *)
Definition parse_rel (raw : str) : result (rel * bool) :=
  match match_dep raw with
  | Some g =>
      do ar <- match g_archs g with
               | Some a => do l <- parse_archs a; Ok (Some l)
               | None => Ok None
               end;
      Ok (mkRel (g_name g) (g_archqual g) (g_version g) ar
                (option_map parse_restrictions (g_restr g)), false)
  | None => Ok (mkRel raw None None None None, true)
  end.

Fixpoint parse_alts (l : list str) : result (list rel * N) :=
  match l with
  | [] => Ok ([], 0%N)
  | x :: l' =>
      do rw <- parse_rel x;
      do rn <- parse_alts l';
      Ok (fst rw :: fst rn, ((if snd rw then 1 else 0) + snd rn)%N)
  end.

Fixpoint parse_conj (l : list (list str)) : result (list (list rel) * N) :=
  match l with
  | [] => Ok ([], 0%N)
  | x :: l' =>
      do rw <- parse_alts x;
      do rn <- parse_conj l';
      Ok (fst rw :: fst rn, (snd rw + snd rn)%N)
  end.

(** PkgRelation.parse_relations(raw): the structure and the number of warnings *)
Definition parse_relations (raw : str) : result (list (list rel) * N) :=
  parse_conj (map (sep_split PIPE) (sep_split COMMA (strip_by ws raw))).

(** * PkgRelation.str *)
Definition pp_term (t : term) : str := (if fst t then [] else [BANG]) ++ snd t.
Definition pp_group (g : list term) : str := [LT] ++ join [SP] (map pp_term g) ++ [GT].

Definition pp_atomic (d : rel) : str :=
  r_name d
  ++ match r_archqual d with Some q => COLON :: q | None => [] end
  ++ match r_version d with Some (o, v) => [SP; LPAR] ++ o ++ [SP] ++ v ++ [RPAR] | None => [] end
  ++ match r_arch d with Some a => [SP; LBRK] ++ join [SP] (map pp_term a) ++ [RBRK] | None => [] end
  ++ match r_restr d with Some r => SP :: join [SP] (map pp_group r) | None => [] end.

Definition pp_alts (alts : list rel) : str := join [SP; PIPE; SP] (map pp_atomic alts).

Definition rel_str (rels : list (list rel)) : str := join [COMMA; SP] (map pp_alts rels).
