(** TIE BY REGENERATION for C12: the functions of Gen/TrMvLengths.v and Gen/TrMultivalued.v
    (regenerated from lib/debian/deb822.py on every run) equal the model functions of
    Deb822/Multivalued.v — the ones MvCheck.agree runs and Props/C12.v is about — on all inputs.

    Layout:
      A. _get_size_field_length / _fixed_field_lengths of PdiffIndex and Release,
         Release.set_size_field_behavior, the dispatch of [self._fixed_field_lengths]
      B. _multivalued.get_as_string
      C. Deb822.is_single_line / is_multi_line, _multivalued.validate_input, Deb822.__setitem__,
         _multivalued.__init__ *)
From Coq Require Import Lia.
From Verif Require Import Lib.Base Lib.PyStr Lib.Dec Lib.Tr Gen.PyChars Gen.MvTables
  Deb822.Multivalued Deb822.MvSpec Deb822.MvProofs Deb822.MvTrPrims Gen.TrMvLengths
  Deb822.MvTrDispatch Gen.TrMultivalued.
Local Open Scope Z_scope.

(** * Generic *)

(** lengths are [N] in the model, Python ints ([Z]) in the regenerated code *)
Definition zlen (r : result N) : result Z :=
  match r with Ok n => Ok (Z.of_N n) | Err e => Err e end.
Definition zlens (l : list (str * N)) : trp_lengths := map (fun kn => (fst kn, Z.of_N (snd kn))) l.
Definition zlens_res (r : result (list (str * N))) : result trp_lengths :=
  match r with Ok l => Ok (zlens l) | Err e => Err e end.

Lemma size_key_lit : mv_size_key = [115; 105; 122; 101]%N.
Proof. reflexivity. Qed.
Lemma fixed_name_lit :
  release_fixed_name = [97; 112; 116; 45; 102; 116; 112; 97; 114; 99; 104; 105; 118; 101]%N.
Proof. reflexivity. Qed.
Lemma computed_name_lit : release_computed_name = [100; 97; 107]%N.
Proof. reflexivity. Qed.
Lemma fixed_width_lit : Z.of_N release_fixed_width = 16.
Proof. reflexivity. Qed.

Lemma bind_ret {A} (r : result A) : (do x <- r; Ok x) = r.
Proof. destruct r; reflexivity. Qed.

Lemma str_eqb_sym a b : str_eqb a b = str_eqb b a.
Proof.
  destruct (str_eqb a b) eqn:E1, (str_eqb b a) eqn:E2; try reflexivity.
  - apply str_eqb_eq in E1. subst. now rewrite str_eqb_refl in E2.
  - apply str_eqb_eq in E2. subst. now rewrite str_eqb_refl in E1.
Qed.

Lemma nodup_exact_NoDup : forall l, nodup_exact l = true -> NoDup l.
Proof.
  induction l as [|x l IH]; cbn [nodup_exact]; intros H; [constructor|].
  apply andb_true_iff in H. destruct H as [H1 H2]. constructor; [|auto].
  intros Hin. apply negb_true_iff in H1.
  assert (E : existsb (str_eqb x) l = true).
  { apply existsb_exists. exists x. split; [assumption|apply str_eqb_refl]. }
  congruence.
Qed.

(** * A. the size column widths *)

(** the comprehension [[len(str(item['size'])) for item in v]] and [max] *)
Lemma mapM_lengths ci : forall l : list item,
  tr_mapM (fun it => do t <- trp_item_getitem ci it [115; 105; 122; 101]%N; Ok (tr_len (trp_str t))) l
  = match mapM (fun it => do s <- item_get ci mv_size_key it; Ok (N.of_nat (length s))) l with
    | Ok ns => Ok (map Z.of_N ns)
    | Err e => Err e
    end.
Proof.
  induction l as [|it l IH]; cbn [tr_mapM mapM]; [reflexivity|].
  change (trp_item_getitem ci it [115; 105; 122; 101]%N) with (item_get ci mv_size_key it).
  destruct (item_get ci mv_size_key it) as [s|e]; cbn [bind]; [|reflexivity].
  rewrite IH. destruct (mapM _ l) as [ns|e]; cbn [bind map]; [|reflexivity].
  unfold tr_len, trp_str. now rewrite nat_N_Z.
Qed.

Lemma max_fold : forall (r : list N) (a : N),
  fold_left Z.max (map Z.of_N r) (Z.of_N a) = Z.of_N (N.max a (fold_right N.max 0%N r)).
Proof.
  induction r as [|x r IH]; intros a; cbn [map fold_left fold_right].
  - f_equal. lia.
  - rewrite <- N2Z.inj_max, IH. f_equal. lia.
Qed.

Lemma max_lengths (ns : list N) :
  trp_max (map Z.of_N ns)
  = match ns with [] => Err ValueError | _ => Ok (Z.of_N (fold_right N.max 0%N ns)) end.
Proof.
  destruct ns as [|n r]; [reflexivity|]. cbn [map trp_max]. now rewrite max_fold.
Qed.

Lemma size_length_value ci (v : fvalue) :
  (do ls <- tr_mapM (fun it => do t <- trp_item_getitem ci it [115; 105; 122; 101]%N;
                               Ok (tr_len (trp_str t))) (trp_value_iter v);
   do m <- trp_max ls; Ok m)
  = zlen (size_field_length ci v).
Proof.
  unfold trp_value_iter, size_field_length. rewrite mapM_lengths.
  destruct (mapM _ (items_iter v)) as [ns|e]; cbn [bind]; [|reflexivity].
  rewrite max_lengths. destruct ns; reflexivity.
Qed.

(** PdiffIndex._get_size_field_length *)
Lemma tr_pdiff_gsfl_eq ci self key :
  tr_pdiff_get_size_field_length ci self key
  = match para_get key self with
    | None => Err KeyError
    | Some v => zlen (size_field_length ci v)
    end.
Proof.
  unfold tr_pdiff_get_size_field_length, trp_para_getitem.
  destruct (para_get key self) as [v|]; cbn [bind]; [|reflexivity].
  apply size_length_value.
Qed.

(** Release._get_size_field_length, for ANY stored behaviour name *)
Lemma tr_release_gsfl_eq sfb ci self key :
  tr_release_get_size_field_length sfb ci self key
  = match behav_of_name sfb with
    | Ok Apt => Ok (Z.of_N release_fixed_width)
    | Ok Dak => match para_get key self with
                | None => Err KeyError
                | Some v => zlen (size_field_length ci v)
                end
    | Err _ => Err ValueError
    end.
Proof.
  unfold tr_release_get_size_field_length, behav_of_name, trp_size_field_behavior.
  rewrite <- fixed_name_lit, <- computed_name_lit.
  destruct (str_eqb sfb release_fixed_name); [reflexivity|].
  destruct (str_eqb sfb release_computed_name); [|reflexivity].
  unfold trp_para_getitem. destruct (para_get key self) as [v|]; cbn [bind]; [|reflexivity].
  apply size_length_value.
Qed.

(** [d[k] = v] for a new key appends *)
Lemma dict_set_fresh {V} (k : str) (v : V) : forall acc,
  ~ In k (map fst acc) -> tr_dict_set acc k v = acc ++ [(k, v)].
Proof.
  induction acc as [|[k' v'] acc IH]; cbn [tr_dict_set map fst app In]; intros H; [reflexivity|].
  destruct (str_eqb k' k) eqn:E.
  - apply str_eqb_eq in E. subst. exfalso. apply H. now left.
  - rewrite IH; [reflexivity|]. intros Hin. apply H. now right.
Qed.

Lemma zlens_app a b : zlens (a ++ b) = zlens a ++ zlens b.
Proof. apply map_app. Qed.

(** PdiffIndex._fixed_field_lengths: the loop, for any accumulated dict and any keys not yet in it *)
Lemma pdiff_loop mvf ci self : forall keys acc,
  NoDup (map fst acc ++ keys) ->
  tr_pdiff_fixed_field_lengths_loop1 keys mvf ci self acc
  = match ffl_pdiff ci keys self with
    | Ok l => Ok (acc ++ zlens l)
    | Err e => Err e
    end.
Proof.
  induction keys as [|k ks IH]; intros acc Hnd;
    cbn [tr_pdiff_fixed_field_lengths_loop1 ffl_pdiff].
  - cbn [zlens map]. now rewrite app_nil_r.
  - unfold trp_para_contains, trp_para_getitem.
    destruct (para_get k self) as [v|] eqn:Hg; cbn [tr_is_some negb bind].
    + unfold trp_hasattr_keys. destruct (has_keys v).
      * apply IH. now apply NoDup_remove_1 in Hnd.
      * rewrite tr_pdiff_gsfl_eq, Hg.
        destruct (size_field_length ci v) as [n|e]; cbn [zlen bind]; [|reflexivity].
        unfold trp_lengths_setitem, trp_sizedict_new.
        rewrite dict_set_fresh by (apply NoDup_remove_2 in Hnd; intros Hin; apply Hnd, in_or_app; now left).
        rewrite IH by (rewrite map_app, <- app_assoc; exact Hnd).
        destruct (ffl_pdiff ci ks self) as [rest|e]; cbn [bind]; [|reflexivity].
        cbn [zlens map fst snd]. now rewrite <- app_assoc.
    + apply IH. now apply NoDup_remove_1 in Hnd.
Qed.

Theorem tr_pdiff_ffl_eq mvf ci self :
  nodup_exact (map fst mvf) = true ->
  tr_pdiff_fixed_field_lengths mvf ci self = zlens_res (ffl_pdiff ci (map fst mvf) self).
Proof.
  intros H. unfold tr_pdiff_fixed_field_lengths, trp_table_keys, trp_lengths_empty.
  rewrite pdiff_loop by (cbn [map app]; now apply nodup_exact_NoDup).
  destruct (ffl_pdiff ci (map fst mvf) self); reflexivity.
Qed.

(** Release._fixed_field_lengths *)
Lemma release_loop mvf sfb b ci self : behav_of_name sfb = Ok b -> forall keys acc,
  NoDup (map fst acc ++ keys) ->
  tr_release_fixed_field_lengths_loop1 keys mvf sfb ci self acc
  = match ffl_release b ci keys self with
    | Ok l => Ok (acc ++ zlens l)
    | Err e => Err e
    end.
Proof.
  intros Hb. induction keys as [|k ks IH]; intros acc Hnd;
    cbn [tr_release_fixed_field_lengths_loop1 ffl_release].
  - cbn [zlens map]. now rewrite app_nil_r.
  - unfold trp_para_contains.
    destruct (para_get k self) as [v|] eqn:Hg; cbn [tr_is_some negb].
    + rewrite tr_release_gsfl_eq, Hb, Hg.
      assert (E : match b with
                  | Apt => Ok (Z.of_N release_fixed_width)
                  | Dak => zlen (size_field_length ci v)
                  end
                  = zlen match b with Apt => Ok release_fixed_width | Dak => size_field_length ci v end)
        by (destruct b; reflexivity).
      rewrite E. clear E.
      destruct (match b with Apt => Ok release_fixed_width | Dak => size_field_length ci v end) as [n|e];
        cbn [zlen bind]; [|reflexivity].
      unfold trp_lengths_setitem, trp_sizedict_new.
      rewrite dict_set_fresh by (apply NoDup_remove_2 in Hnd; intros Hin; apply Hnd, in_or_app; now left).
      rewrite IH by (rewrite map_app, <- app_assoc; exact Hnd).
      destruct (ffl_release b ci ks self) as [rest|e]; cbn [bind]; [|reflexivity].
      cbn [zlens map fst snd]. now rewrite <- app_assoc.
    + apply IH. now apply NoDup_remove_1 in Hnd.
Qed.

Theorem tr_release_ffl_eq mvf sfb b ci self :
  nodup_exact (map fst mvf) = true -> behav_of_name sfb = Ok b ->
  tr_release_fixed_field_lengths mvf sfb ci self = zlens_res (ffl_release b ci (map fst mvf) self).
Proof.
  intros H Hb. unfold tr_release_fixed_field_lengths, trp_table_keys, trp_lengths_empty.
  rewrite (release_loop mvf sfb b ci self Hb) by (cbn [map app]; now apply nodup_exact_NoDup).
  destruct (ffl_release b ci (map fst mvf) self); reflexivity.
Qed.

(** Release.set_size_field_behavior: the model's [behav_of_name] decides; a rejected name leaves the
    attribute as it was *)
Theorem tr_set_size_field_behavior_eq s value :
  tr_set_size_field_behavior s value
  = match behav_of_name value with Ok _ => MOk tt value | Err e => MErr e s end.
Proof.
  unfold tr_set_size_field_behavior, behav_of_name, tr_str_in.
  rewrite <- fixed_name_lit, <- computed_name_lit. cbn [existsb].
  destruct (str_eqb value release_fixed_name); [reflexivity|].
  destruct (str_eqb value release_computed_name); reflexivity.
Qed.

Lemma behav_name_ok b : behav_of_name (behav_name b) = Ok b.
Proof. destruct b; reflexivity. Qed.

Lemma table_nodup c : nodup_exact (map fst (table_of c)) = true.
Proof.
  pose proof (tables_ok c) as H. unfold table_ok in H. apply andb_true_iff in H. tauto.
Qed.

(** [self._fixed_field_lengths] for an object of class [c]: the model's [fixed_field_lengths]
    (its [None] — the class has no such attribute — is the AttributeError) *)
Theorem trp_fixed_field_lengths_eq c b ci p :
  trp_fixed_field_lengths c (behav_name b) ci p tt
  = match fixed_field_lengths c b ci p with
    | Ok (Some l) => Ok (zlens l)
    | Ok None => Err OtherError
    | Err e => Err e
    end.
Proof.
  unfold trp_fixed_field_lengths, fixed_field_lengths.
  destruct c; cbn [ffl_kind]; try reflexivity.
  - rewrite tr_pdiff_ffl_eq by apply table_nodup.
    destruct (ffl_pdiff ci (map fst (table_of PdiffIndex)) p); reflexivity.
  - rewrite (tr_release_ffl_eq _ _ b) by (apply table_nodup || apply behav_name_ok).
    destruct (ffl_release b ci (map fst (table_of Release)) p); reflexivity.
Qed.

(** the model's [fixed_field_lengths] never fails with the kind that stands for AttributeError
    (so [except AttributeError] catches exactly "the class has no such attribute") *)
Lemma mapM_err_in {A B} (f : A -> result B) : forall l e,
  mapM f l = Err e -> exists a, In a l /\ f a = Err e.
Proof.
  induction l as [|a l IH]; cbn [mapM]; intros e H; [discriminate|].
  destruct (f a) as [b|e'] eqn:Ha; cbn [bind] in H.
  - destruct (mapM f l) as [bs|e''] eqn:Hl; cbn [bind] in H; [discriminate|].
    injection H as <-. destruct (IH _ eq_refl) as [x [Hin Hx]]. exists x. split; [now right|assumption].
  - injection H as <-. exists a. split; [now left|assumption].
Qed.

Lemma rec_get_err ci k : forall r e, rec_get ci k r = Err e -> e = KeyError.
Proof.
  induction r as [|[k' v] r IH]; cbn [rec_get]; intros e H; [now injection H|].
  destruct (key_eqb ci k' k); [discriminate|auto].
Qed.

Lemma item_get_err ci k it e : item_get ci k it = Err e -> e = KeyError \/ e = TypeError.
Proof.
  destruct it; cbn [item_get]; intros H; [left; eapply rec_get_err; eauto|right; now injection H].
Qed.

Lemma size_field_length_err ci v e : size_field_length ci v = Err e -> e <> OtherError.
Proof.
  unfold size_field_length. intros H.
  destruct (mapM _ (items_iter v)) as [ls|e'] eqn:Hm; cbn [bind] in H.
  - destruct ls; [injection H as <-; discriminate|discriminate].
  - injection H as <-. apply mapM_err_in in Hm. destruct Hm as [it [_ Hit]].
    destruct (item_get ci mv_size_key it) as [s|e''] eqn:Hi; cbn [bind] in Hit; [discriminate|].
    injection Hit as <-. apply item_get_err in Hi. destruct Hi; subst; discriminate.
Qed.

Lemma ffl_pdiff_err ci p : forall keys e, ffl_pdiff ci keys p = Err e -> e <> OtherError.
Proof.
  induction keys as [|k ks IH]; cbn [ffl_pdiff]; intros e H; [discriminate|].
  destruct (para_get k p) as [v|]; [|eauto].
  destruct (has_keys v); [eauto|].
  destruct (size_field_length ci v) as [n|e'] eqn:Hs; cbn [bind] in H.
  - destruct (ffl_pdiff ci ks p) as [r|e''] eqn:Hr; cbn [bind] in H; [discriminate|].
    injection H as <-. eauto.
  - injection H as <-. eapply size_field_length_err; eauto.
Qed.

Lemma ffl_release_err b ci p : forall keys e, ffl_release b ci keys p = Err e -> e <> OtherError.
Proof.
  induction keys as [|k ks IH]; cbn [ffl_release]; intros e H; [discriminate|].
  destruct (para_get k p) as [v|]; [|eauto].
  destruct (match b with Apt => Ok release_fixed_width | Dak => size_field_length ci v end) as [n|e'] eqn:Hs;
    cbn [bind] in H.
  - destruct (ffl_release b ci ks p) as [r|e''] eqn:Hr; cbn [bind] in H; [discriminate|].
    injection H as <-. eauto.
  - injection H as <-. destruct b; [discriminate|]. eapply size_field_length_err; eauto.
Qed.

Lemma fixed_field_lengths_err c b ci p e : fixed_field_lengths c b ci p = Err e -> e <> OtherError.
Proof.
  unfold fixed_field_lengths. destruct (ffl_kind c) as [[]|]; [| |discriminate].
  - destruct (ffl_pdiff ci _ p) as [l|e'] eqn:H; cbn [bind]; [discriminate|].
    intros [= <-]. eapply ffl_pdiff_err; eauto.
  - destruct (ffl_release b ci _ p) as [l|e'] eqn:H; cbn [bind]; [discriminate|].
    intros [= <-]. eapply ffl_release_err; eauto.
Qed.

(** * B. get_as_string *)

Lemma concat_repeat_single {A} (a : A) n : concat (repeat [a] n) = repeat a n.
Proof. induction n; cbn [repeat concat app]; congruence. Qed.

(** [(length - len(raw)) * " " + raw] *)
Lemma pad_left_eq (n : N) (raw : str) :
  tr_repeat [32%N] (Z.of_N n - tr_len raw) ++ raw = pad_left n raw.
Proof.
  unfold tr_repeat, pad_left, tr_len, SP. rewrite concat_repeat_single. do 2 f_equal. lia.
Qed.

(** the dict {field: {"size": n}} against the model's list of lengths *)
Lemma dict_get_zlens k : forall l, tr_dict_get (zlens l) k = option_map Z.of_N (lookup_exact k l).
Proof.
  induction l as [|[k' n] l IH]; cbn [zlens map tr_dict_get lookup_exact fst snd]; [reflexivity|].
  destruct (str_eqb k' k); [reflexivity|exact IH].
Qed.

(** [field_lengths[keyl][x]] *)
Definition fl_lookup (fl : trp_lengths) (keyl x : str) : result Z :=
  do sd <- trp_lengths_getitem fl keyl; do n <- trp_sizedict_getitem sd x; Ok n.

Lemma fl_lookup_eq fl keyl x (len : option N) :
  tr_dict_get fl keyl = option_map Z.of_N len ->
  fl_lookup fl keyl x
  = match (if str_eqb x mv_size_key then len else None) with
    | Some n => Ok (Z.of_N n)
    | None => Err KeyError
    end.
Proof.
  intros H. unfold fl_lookup, trp_lengths_getitem, trp_sizedict_getitem, trp_sizedict in *. rewrite H.
  destruct len as [n|]; cbn [option_map bind].
  - destruct (str_eqb x mv_size_key); reflexivity.
  - destruct (str_eqb x mv_size_key); reflexivity.
Qed.

(** the inner loop: the columns of one item, appended to the buffer *)
Lemma gas_loop2 ci (len : option N) item0 : forall xs kx c sfb self key keyl fd array order fl,
  tr_dict_get fl keyl = option_map Z.of_N len ->
  tr_get_as_string_loop2 xs kx c sfb ci self key keyl fd array order fl item0
  = match mapM (fmt_col ci len item0) xs with
    | Ok cols => kx c sfb ci self key keyl (fd ++ concat cols) array order fl item0
    | Err e => Err e
    end.
Proof.
  induction xs as [|x xs IH]; intros kx c sfb self key keyl fd array order fl Hfl;
    cbn [tr_get_as_string_loop2 mapM].
  - cbn [concat]. now rewrite app_nil_r.
  - unfold fmt_col at 1. unfold trp_item_getitem.
    destruct (item_get ci x item0) as [raw|e]; cbn [bind]; [|reflexivity].
    unfold trp_str.
    change (do tmp8_ <- trp_lengths_getitem fl keyl; do tmp9_ <- trp_sizedict_getitem tmp8_ x; Ok tmp9_)
      with (fl_lookup fl keyl x).
    rewrite (fl_lookup_eq fl keyl x len Hfl).
    destruct (if str_eqb x mv_size_key then len else None) as [n|].
    + rewrite pad_left_eq.
      change (tr_char_in 10%N (pad_left n raw)) with (mem_char LF (pad_left n raw)).
      destruct (mem_char LF (pad_left n raw)); cbn [bind]; [reflexivity|].
      rewrite IH by assumption.
      destruct (mapM (fmt_col ci len item0) xs) as [cols|e]; cbn [bind]; [|reflexivity].
      cbn [concat]. rewrite app_nil_r, <- app_assoc. reflexivity.
    + change (tr_char_in 10%N raw) with (mem_char LF raw).
      destruct (mem_char LF raw); cbn [bind]; [reflexivity|].
      rewrite IH by assumption.
      destruct (mapM (fmt_col ci len item0) xs) as [cols|e]; cbn [bind]; [|reflexivity].
      cbn [concat]. rewrite app_nil_r, <- app_assoc. reflexivity.
Qed.

(** the outer loop: one line per item *)
Lemma gas_loop1 ci (len : option N) c sfb self key keyl array order fl :
  tr_dict_get fl keyl = option_map Z.of_N len ->
  forall items fd,
  tr_get_as_string_loop1 items c sfb ci self key keyl fd array order fl
  = match mapM (fmt_item ci order len) items with
    | Ok lines => Ok (trp_rstrip (fd ++ concat lines) [10%N])
    | Err e => Err e
    end.
Proof.
  intros Hfl. induction items as [|it items IH]; intros fd; cbn [tr_get_as_string_loop1 mapM].
  - cbn [concat]. now rewrite app_nil_r.
  - rewrite (gas_loop2 ci len it) by assumption. unfold fmt_item at 1.
    destruct (mapM (fmt_col ci len it) order) as [cols|e]; cbn [bind]; [|reflexivity].
    rewrite IH.
    destruct (mapM (fmt_item ci order len) items) as [lines|e]; cbn [bind]; [|reflexivity].
    cbn [concat]. now rewrite <- !app_assoc.
Qed.

Lemma dropwhile_ext {A} (p q : A -> bool) : (forall a, p a = q a) -> forall s, dropwhile p s = dropwhile q s.
Proof.
  intros H. induction s as [|a s IH]; cbn [dropwhile]; [reflexivity|].
  rewrite <- H. destruct (p a); [exact IH|reflexivity].
Qed.

Lemma rstrip_lf_eq s : trp_rstrip s [10%N] = rstrip_by (N.eqb LF) s.
Proof.
  unfold trp_rstrip, rstrip_by, rdropwhile. f_equal. apply dropwhile_ext.
  intros a. unfold tr_char_in. cbn [existsb]. rewrite orb_false_r. apply N.eqb_sym.
Qed.

(** _multivalued.get_as_string = the model's [get_as_string], for every class, behaviour, kind of
    mapping, object and key: same string or same exception. *)
Theorem tr_get_as_string_eq c b ci p key :
  tr_get_as_string c (behav_name b) ci p key = get_as_string c b ci p key.
Proof.
  unfold tr_get_as_string, get_as_string, trp_lower, trp_table_contains, trp_table_getitem.
  destruct (lookup_exact (ascii_lower key) (table_of c)) as [order|] eqn:Ho; cbn [tr_is_some];
    [|unfold trp_base_get_as_string; destruct (para_get key p) as [[| |]|]; reflexivity].
  unfold trp_para_getitem. destruct (para_get key p) as [v|] eqn:Hv; cbn [bind]; [|reflexivity].
  rewrite trp_fixed_field_lengths_eq, !bind_ret.
  (* what follows the two branches is the same; do the branches first *)
  assert (Tail : forall fd arr,
    (match
       match fixed_field_lengths c b ci p with
       | Ok (Some l) => Ok (zlens l)
       | Ok None => Err OtherError
       | Err e => Err e
       end
     with
     | Ok tmp3_ => tr_get_as_string_loop1 arr c (behav_name b) ci p key (ascii_lower key) fd arr order tmp3_
     | Err OtherError => tr_get_as_string_loop1 arr c (behav_name b) ci p key (ascii_lower key) fd arr order trp_lengths_empty
     | Err tmp4_ => Err tmp4_
     end)
    = (do lens <- fixed_field_lengths c b ci p;
       let len := match lens with Some l => lookup_exact (ascii_lower key) l | None => None end in
       do lines <- mapM (fmt_item ci order len) arr;
       Ok (rstrip_by (N.eqb LF) (fd ++ concat lines)))).
  { intros fd arr.
    destruct (fixed_field_lengths c b ci p) as [[l|]|e] eqn:Hf; cbn [bind].
    - rewrite (gas_loop1 ci (lookup_exact (ascii_lower key) l)) by apply dict_get_zlens.
      destruct (mapM (fmt_item ci order _) arr); cbn [bind]; [now rewrite rstrip_lf_eq|reflexivity].
    - rewrite (gas_loop1 ci None) by reflexivity.
      destruct (mapM (fmt_item ci order _) arr); cbn [bind]; [now rewrite rstrip_lf_eq|reflexivity].
    - apply fixed_field_lengths_err in Hf. destruct e; try reflexivity. congruence. }
  unfold trp_hasattr_keys.
  destruct v as [s|r|rs]; cbn [has_keys bind trp_item_of_value trp_value_iter items_iter];
    cbv zeta; rewrite Tail; reflexivity.
Qed.

(** * C. the reader *)

(** the object reached / the exception, without the state that an exception leaves (a constructor
    that raises leaves no object behind) *)
Definition mres_para (m : mres unit para) : result para :=
  match m with MOk _ p => Ok p | MErr e _ => Err e end.

Lemma count_is_zero (q : N -> bool) : forall s,
  (Z.of_nat (length (filter q s)) =? 0) = negb (existsb q s).
Proof.
  induction s as [|a s IH]; cbn [filter existsb]; [reflexivity|].
  destruct (q a); cbn [orb negb length]; [|exact IH]. apply Z.eqb_neq. lia.
Qed.

(** Deb822.is_single_line / is_multi_line on a dynamic value *)
Theorem tr_is_single_line_eq v :
  tr_is_single_line v
  = match v with
    | Plain s => Ok (negb (mem_char LF s))
    | Multi _ => Ok true
    | Single _ => Err OtherError
    end.
Proof.
  unfold tr_is_single_line, trp_value_count_lf. destruct v as [s|r|rs]; cbn [bind]; try reflexivity.
  rewrite count_is_zero. unfold mem_char. now rewrite !negb_involutive.
Qed.

Theorem tr_is_multi_line_eq v :
  tr_is_multi_line v
  = match v with
    | Plain s => Ok (mem_char LF s)
    | Multi _ => Ok false
    | Single _ => Err OtherError
    end.
Proof.
  unfold tr_is_multi_line. rewrite tr_is_single_line_eq.
  destruct v as [s|r|rs]; cbn [bind]; try reflexivity. now rewrite negb_involutive.
Qed.

(** _multivalued.validate_input: the model's [validate_input]; the object is not touched *)
Lemma validate_input_split c key v :
  validate_input c key v
  = if trp_table_contains (table_of c) (trp_lower key) then Ok tt else base_validate_input v.
Proof.
  unfold validate_input, trp_table_contains, trp_lower, base_validate_input.
  destruct (lookup_exact (ascii_lower key) (table_of c)); reflexivity.
Qed.

Theorem tr_mv_validate_input_eq c p0 self key value :
  tr_mv_validate_input c p0 self key value
  = match validate_input c key value with Ok _ => MOk tt self | Err e => MErr e self end.
Proof.
  unfold tr_mv_validate_input. rewrite validate_input_split.
  destruct (trp_table_contains (table_of c) (trp_lower key)); [reflexivity|].
  unfold trp_base_validate_input. destruct (base_validate_input value) as [[]|e]; reflexivity.
Qed.

(** Deb822.__setitem__ on a _multivalued object: validation, then the store; a rejected value leaves
    the object as it was (the model's [build_step]) *)
Theorem tr_mv_setitem_eq c p0 self key value :
  tr_mv_setitem c p0 self key value
  = match validate_input c key value with
    | Ok _ => MOk tt (para_set key value self)
    | Err e => MErr e self
    end.
Proof.
  unfold tr_mv_setitem. rewrite tr_mv_validate_input_eq.
  destruct (validate_input c key value) as [[]|e]; reflexivity.
Qed.

Corollary tr_mv_setitem_build_step c p0 self key value :
  mres_para (tr_mv_setitem c p0 self key value) = build_step c (Ok self) (key, value).
Proof.
  rewrite tr_mv_setitem_eq. unfold build_step. cbn [bind fst snd].
  destruct (validate_input c key value) as [[]|e]; reflexivity.
Qed.

Lemma para_get_set k v : forall p, para_get k (para_set k v p) = Some v.
Proof.
  induction p as [|[k' v'] p IH]; cbn [para_set para_get].
  - now rewrite key_eqb_refl.
  - destruct (key_eqb true k' k) eqn:E; cbn [para_get]; rewrite E; [reflexivity|exact IH].
Qed.

Lemma para_set_set k v1 v2 : forall p, para_set k v2 (para_set k v1 p) = para_set k v2 p.
Proof.
  induction p as [|[k' v'] p IH]; cbn [para_set].
  - now rewrite key_eqb_refl.
  - destruct (key_eqb true k' k) eqn:E; cbn [para_set]; rewrite E; [reflexivity|now rewrite IH].
Qed.

Lemma para_set_same k v : forall p, para_get k p = Some v -> para_set k v p = p.
Proof.
  induction p as [|[k' v'] p IH]; cbn [para_get para_set]; [discriminate|].
  destruct (key_eqb true k' k); [now intros [= ->]|]. intros H. now rewrite IH.
Qed.

(** the line loop with [updater_method = self[field].append] *)
Lemma init_loop2_append c p0 f fields contents : forall lines kx self rs,
  para_get f self = Some (Multi rs) ->
  tr_mv_init_loop2 lines kx c p0 self f fields contents (BoundAppend f)
  = kx c p0 (para_set f (Multi (rs ++ map (fun l => mk_record fields (split_ws py_isspace l)) lines)) self)
       f fields contents (BoundAppend f).
Proof.
  induction lines as [|l lines IH]; intros kx self rs Hg; cbn [tr_mv_init_loop2 map].
  - rewrite app_nil_r. f_equal.
    symmetry. now apply para_set_same.
  - unfold trp_call_updater. rewrite Hg.
    rewrite (IH kx _ (rs ++ [mk_record fields (split_ws py_isspace l)])) by apply para_get_set.
    now rewrite para_set_set, <- app_assoc.
Qed.

(** ... and with [updater_method = self[field].update] *)
Lemma init_loop2_update c p0 f fields contents : forall lines kx self r0,
  para_get f self = Some (Single r0) ->
  tr_mv_init_loop2 lines kx c p0 self f fields contents (BoundUpdate f)
  = kx c p0 (para_set f (Single (fold_left rec_update
                                   (map (fun l => mk_record fields (split_ws py_isspace l)) lines) r0)) self)
       f fields contents (BoundUpdate f).
Proof.
  induction lines as [|l lines IH]; intros kx self r0 Hg; cbn [tr_mv_init_loop2 map fold_left].
  - f_equal.
    symmetry. now apply para_set_same.
  - unfold trp_call_updater. rewrite Hg.
    rewrite (IH kx _ (rec_update r0 (mk_record fields (split_ws py_isspace l)))) by apply para_get_set.
    now rewrite para_set_set.
Qed.

Lemma init_step_err e : forall l, fold_left mv_init_step l (Err e) = Err e.
Proof. induction l as [|fe l IH]; cbn [fold_left]; [reflexivity|exact IH]. Qed.

(** every field name of a table is (in lower case) a structured field of that table: the store
    [self[field] = [] / Deb822Dict()] passes _multivalued.validate_input *)
Definition all_structured (c : cls) (l : list (str * list str)) : bool :=
  forallb (fun fe => trp_table_contains (table_of c) (trp_lower (fst fe))) l.

Lemma table_all_structured c : all_structured c (table_of c) = true.
Proof. destruct c; vm_compute; reflexivity. Qed.

(** the loop over [self._multivalued_fields.items()] *)
Lemma init_loop1 c p0 : forall l self,
  all_structured c l = true ->
  mres_para (tr_mv_init_loop1 l c p0 self) = fold_left mv_init_step l (Ok self).
Proof.
  induction l as [|[field fields] l IH]; intros self Hs; cbn [tr_mv_init_loop1 fold_left]; [reflexivity|].
  cbn [all_structured forallb fst] in Hs. apply andb_true_iff in Hs. destruct Hs as [Hf Hs].
  unfold mv_init_step at 2. cbn [bind fst snd].
  unfold trp_para_getitem. destruct (para_get field self) as [v|] eqn:Hg; cbn [bind].
  2: { now apply IH. }
  rewrite tr_is_multi_line_eq.
  assert (Hval : forall w, validate_input c field w = Ok tt).
  { intros w. rewrite validate_input_split. now rewrite Hf. }
  destruct v as [s|r|rs].
  - (* a str: the two forms *)
    rewrite !tr_mv_setitem_eq, !Hval. cbn [trp_value_splitlines].
    unfold mv_parse_field, trp_filter_none, trp_empty_mapping.
    destruct (mem_char LF s).
    + rewrite init_loop2_append with (rs := []) by apply para_get_set.
      rewrite para_set_set. cbn [app]. now apply IH.
    + rewrite init_loop2_update with (r0 := []) by apply para_get_set.
      rewrite para_set_set. now apply IH.
  - (* a mapping: no count *)
    cbn [mres_para]. now rewrite init_step_err.
  - (* a list: count is 0, then no splitlines *)
    rewrite tr_mv_setitem_eq, Hval. cbn [trp_value_splitlines mres_para]. now rewrite init_step_err.
Qed.

(** _multivalued.__init__: whatever mapping [p0] Deb822.__init__ left in the object, the loop of the
    model over the class's table, in the table's order *)
Theorem tr_mv_init_eq c p0 self :
  mres_para (tr_mv_init c p0 self) = fold_left mv_init_step (table_of c) (Ok p0).
Proof.
  unfold tr_mv_init, trp_deb822_init, trp_table_items. apply init_loop1, table_all_structured.
Qed.

(** ... i.e. the model's [mv_init] on the (name, raw value) pairs that Deb822 stored *)
Corollary tr_mv_init_mv_init c raw self :
  mres_para (tr_mv_init c (map (fun kv => (fst kv, Plain (snd kv))) raw) self) = mv_init (table_of c) raw.
Proof. apply tr_mv_init_eq. Qed.

(** reader and writer composed: what the regenerated constructor built, the regenerated writer
    prints as the model's [get_as_string] of the model's [mv_init] *)
Corollary tr_read_then_write c b raw self q key :
  mres_para (tr_mv_init c (map (fun kv => (fst kv, Plain (snd kv))) raw) self) = Ok q ->
  mv_init (table_of c) raw = Ok q
  /\ tr_get_as_string c (behav_name b) true q key = get_as_string c b true q key.
Proof.
  intros H. split; [now rewrite <- (tr_mv_init_mv_init c raw self)|apply tr_get_as_string_eq].
Qed.

(** * The property's theorems, read on the regenerated code *)

Lemma mapM_ext {A B} (f g : A -> result B) : (forall a, f a = g a) -> forall l, mapM f l = mapM g l.
Proof. intros H. induction l as [|a l IH]; cbn [mapM]; [reflexivity|]. now rewrite H, IH. Qed.

(** the model's [dump_para] is the regenerated writer applied to every field, through the model's
    [entry] (Deb822._dump_format, tied by C02 for str values) *)
Theorem dump_para_by_tr c b ci p :
  dump_para c b ci p
  = do es <- mapM (fun kv => do v <- tr_get_as_string c (behav_name b) ci p (fst kv);
                             Ok (entry (fst kv) v)) p;
    Ok (concat es).
Proof.
  unfold dump_para. erewrite mapM_ext; [reflexivity|].
  intros kv. cbv beta. now rewrite tr_get_as_string_eq.
Qed.

(** C12_record_roundtrip on the regenerated writer and the reader's per-field function *)
Theorem tr_record_roundtrip c b ci p key order row rows :
  lookup_exact (ascii_lower key) (table_of c) = Some order ->
  para_get key p = Some (Multi (spec_records order (row :: rows))) ->
  forallb (row_ok order) (row :: rows) = true ->
  para_dumpable c b ci p = true ->
  exists s, tr_get_as_string c (behav_name b) ci p key = Ok s
            /\ mv_parse_field order s = Multi (spec_records order (row :: rows)).
Proof. intros. rewrite tr_get_as_string_eq. now apply record_roundtrip. Qed.

(** C12_size_right_aligned on the regenerated writer *)
Theorem tr_get_as_string_documented c b ci p key order row rows :
  lookup_exact (ascii_lower key) (table_of c) = Some order ->
  para_get key p = Some (Multi (spec_records order (row :: rows))) ->
  forallb (row_ok order) (row :: rows) = true ->
  para_dumpable c b ci p = true ->
  tr_get_as_string c (behav_name b) ci p key = Ok (spec_value c b order (row :: rows)).
Proof. intros. rewrite tr_get_as_string_eq. now apply get_as_string_documented. Qed.

Lemma mapM_ok_weaken {A B C} (f : A -> result B) (g : A -> B -> C) : forall l,
  is_ok (mapM (fun a => do v <- f a; Ok (g a v)) l) = true -> is_ok (mapM f l) = true.
Proof.
  induction l as [|a l IH]; cbn [mapM]; [reflexivity|].
  destruct (f a) as [v|e]; cbn [bind]; [|discriminate].
  destruct (mapM (fun a0 => do v0 <- f a0; Ok (g a0 v0)) l); cbn [bind is_ok]; [|discriminate].
  intros _. specialize (IH eq_refl). destruct (mapM f l); [reflexivity|discriminate].
Qed.

(** C12_parsed_dump_total on the regenerated reader and writer: a text whose present structured
    fields are complete is read by the regenerated constructor into an object every field of which
    the regenerated writer prints *)
Theorem tr_parsed_then_printed c b raw self :
  distinct_keys (map fst raw) = true -> raw_ok c b raw = true ->
  exists q, mres_para (tr_mv_init c (map (fun kv => (fst kv, Plain (snd kv))) raw) self) = Ok q
            /\ is_ok (mapM (fun kv => tr_get_as_string c (behav_name b) true q (fst kv)) q) = true.
Proof.
  intros Hd Hr. destruct (parsed_dump_total c b raw Hd Hr) as [q [Hq Hdump]].
  exists q. split; [now rewrite tr_mv_init_mv_init|].
  rewrite dump_para_by_tr in Hdump.
  apply (mapM_ok_weaken _ (fun kv v => entry (fst kv) v)).
  destruct (mapM _ q) as [es|e]; [reflexivity|discriminate].
Qed.
