(** C08 proofs, part 2: the dump of a paragraph of accepted values has the
    shape of InjectProofs.v (head lines "name:rest", continuation lines starting
    with space/tab), hence reads back as one paragraph with the same names; the
    three rejection reasons of Spec are exactly what validate_input refuses;
    setitem. *)
From Coq Require Import Lia ZifyBool.
From Verif Require Import Lib.Base Lib.PyStr Gen.PyChars Deb822.Model Deb822.Spec
  Deb822.InjectSpec Deb822.ProofsStr Deb822.InjectStr Deb822.InjectBrk Deb822.InjectProofs.

Local Open Scope N_scope.

(** * The lines of one dumped field *)

(** what _dump_format puts between the colon and the value *)
Definition sep_of (v : str) : str :=
  match v with [] => [] | c :: _ => if c =? LF then [] else [SP] end.

Lemma dump_entry_eq k v : dump_entry (k, v) = (k ++ COLON :: sep_of v) ++ v ++ [LF].
Proof.
  unfold dump_entry, sep_of. destruct v as [|c v].
  - cbn [app]. now rewrite <- app_assoc.
  - destruct (c =? LF); rewrite <- app_assoc; reflexivity.
Qed.

Definition entry_of (kv : str * str) : pentry :=
  (fst kv, sep_of (snd kv) ++ hd [] (vlines (snd kv)), tl (vlines (snd kv))).

Lemma sep_of_no_linebreak v : no_linebreak (sep_of v) = true.
Proof. destruct v as [|c v]; [reflexivity|]. cbn [sep_of]. destruct (c =? LF); reflexivity. Qed.

Lemma entry_lines k v :
  no_linebreak k = true -> c08_dom v = true -> endswith [LF] v = false ->
  splitlines_aux py_islinebreak false ((k ++ COLON :: sep_of v) ++ v ++ [LF]) []
  = plines (entry_of (k, v)).
Proof.
  intros Hk Hd He.
  rewrite splitlines_aux_prefix.
  2:{ change (lb_free py_islinebreak (k ++ COLON :: sep_of v)) with (no_linebreak (k ++ [COLON] ++ sep_of v)).
      rewrite !no_linebreak_app, Hk, sep_of_no_linebreak. reflexivity. }
  rewrite app_nil_r.
  rewrite splitlines_aux_final_lf; [|exact Hd|exact He|].
  2:{ rewrite rev_involutive. destruct k; discriminate. }
  change (rev (k ++ COLON :: sep_of v)) with ([] ++ rev (k ++ COLON :: sep_of v)).
  rewrite splitlines_aux_cur, rev_involutive.
  unfold entry_of, vlines, splitlines. cbn [fst snd plines].
  destruct (splitlines_aux py_islinebreak false v []) as [|h t]; cbn [prepend hd tl].
  - rewrite app_nil_r. destruct k; reflexivity.
  - rewrite <- app_assoc. reflexivity.
Qed.

(** * Accepted values *)

Lemma is_ok_validate v : is_ok (validate_input v) = true -> validate_input v = Ok tt.
Proof. destruct (validate_input v) as [[]|]; [reflexivity|discriminate]. Qed.

Lemma validate_inv v :
  validate_input v = Ok tt ->
  endswith [LF] v = false /\ check_cont_lines (tl (vlines v)) = Ok tt.
Proof.
  unfold validate_input. destruct (endswith [LF] v); [discriminate|]. intros H. now split.
Qed.

Lemma line_dom_c08_dom l : line_dom l = true -> c08_dom l = true.
Proof. apply forallb_impl. intros c H. apply andb_true_iff in H. tauto. Qed.

Lemma line_dom_piece_ok l : line_dom l = true -> piece_ok l = true.
Proof.
  intros H. pose proof (line_dom_no_linebreak l H) as Hn. unfold piece_ok.
  now rewrite (no_linebreak_lf_free _ Hn), (line_dom_c08_dom _ H), (no_linebreak_brk_ok _ Hn).
Qed.

Lemma check_cont_lines_dom ls :
  forallb line_dom ls = true -> check_cont_lines ls = Ok tt -> forallb cont_ok ls = true.
Proof.
  induction ls as [|l ls IH]; [reflexivity|]. cbn [forallb check_cont_lines]. intros Hd Hc.
  apply andb_true_iff in Hd. destruct Hd as [Hl Hls].
  destruct l as [|c r]; [discriminate|].
  destruct (py_isspace c) eqn:Ec; [|discriminate].
  rewrite (IH Hls Hc), andb_true_r. unfold cont_ok. cbn [is_nil' negb lead_ok andb].
  rewrite (line_dom_head_space c r Hl Ec). now apply line_dom_piece_ok.
Qed.

Lemma accepted_conts v :
  c08_dom v = true -> validate_input v = Ok tt -> forallb cont_ok (tl (vlines v)) = true.
Proof.
  intros Hd Hv. destruct (validate_inv v Hv) as [_ Hc].
  apply check_cont_lines_dom; [|exact Hc]. apply forallb_tl. now apply vlines_line_dom.
Qed.

Lemma sep_of_line_dom v : line_dom (sep_of v) = true.
Proof. destruct v as [|c v]; [reflexivity|]. cbn [sep_of]. destruct (c =? LF); reflexivity. Qed.

Lemma accepted_entry_ok k v :
  valid_field_name k = true -> c08_dom v = true -> validate_input v = Ok tt ->
  pentry_ok (entry_of (k, v)) = true.
Proof.
  intros Hk Hd Hv. unfold entry_of, pentry_ok. cbn [fst snd].
  rewrite (valid_field_name_key_ok _ Hk), (accepted_conts v Hd Hv).
  cbn [andb]. rewrite andb_true_r. apply line_dom_piece_ok.
  unfold line_dom. rewrite forallb_app. fold (line_dom (sep_of v)). rewrite sep_of_line_dom. cbn [andb].
  apply (forallb_hd line_dom); [reflexivity|]. now apply vlines_line_dom.
Qed.

(** * okraw for the lines of an entry (str form: no boundary characters left) *)

Lemma okraw_nolb ws l :
  no_linebreak l = true -> is_nil l = false -> startswith [HASH] l = false ->
  blank_line ws l = false -> match_gpgre l = None -> okraw ws l = true.
Proof.
  intros H1 H2 H3 H4 H5. unfold okraw. now rewrite (strip_crlf_id _ H1), (chomp_id _ H1), H2, H3, H4, H5.
Qed.

Lemma head_facts ws k rest :
  key_ok k = true ->
  is_nil (k ++ COLON :: rest) = false /\ startswith [HASH] (k ++ COLON :: rest) = false
  /\ blank_line ws (k ++ COLON :: rest) = false /\ match_gpgre (k ++ COLON :: rest) = None.
Proof.
  intros Hko. destruct (key_ok_inv k Hko) as (c & r & E & Hh & Hkc).
  repeat split.
  - subst k. reflexivity.
  - subst k. cbn [app startswith]. now rewrite N.eqb_sym, Hh.
  - destruct ws; cbn [blank_line]; [now apply head_line_not_blank|].
    subst k. cbn [app blank_nows]. destruct r; reflexivity.
  - now apply match_gpgre_head.
Qed.

Lemma cont_facts ws c r :
  is_sp_tab c = true -> (ws = true -> blank_ws (c :: r) = false) ->
  is_nil (c :: r) = false /\ startswith [HASH] (c :: r) = false
  /\ blank_line ws (c :: r) = false /\ match_gpgre (c :: r) = None.
Proof.
  intros Hc Hb. repeat split.
  - unfold is_sp_tab in Hc. apply orb_true_iff in Hc.
    destruct Hc as [Hc|Hc]; apply N.eqb_eq in Hc; subst c; reflexivity.
  - destruct ws; cbn [blank_line]; [now apply Hb|].
    cbn [blank_nows]. destruct r; [|reflexivity].
    unfold is_sp_tab in Hc. apply orb_true_iff in Hc.
    destruct Hc as [Hc|Hc]; apply N.eqb_eq in Hc; subst c; reflexivity.
  - unfold match_gpgre. rewrite strip_prefix_nomatch; [reflexivity|].
    unfold is_sp_tab in Hc. apply orb_true_iff in Hc.
    destruct Hc as [Hc|Hc]; apply N.eqb_eq in Hc; subst c; reflexivity.
Qed.

Lemma okraw_head ws k rest :
  valid_field_name k = true -> no_linebreak rest = true -> okraw ws (k ++ COLON :: rest) = true.
Proof.
  intros Hk Hr. destruct (head_facts ws k rest (valid_field_name_key_ok _ Hk)) as (H2 & H3 & H4 & H5).
  apply okraw_nolb; try assumption.
  change (k ++ COLON :: rest) with (k ++ [COLON] ++ rest).
  rewrite !no_linebreak_app, (valid_field_name_no_linebreak _ Hk), Hr. reflexivity.
Qed.

Lemma okraw_cont ws l :
  cont_ok l = true -> no_linebreak l = true -> (ws = true -> blank_ws l = false) -> okraw ws l = true.
Proof.
  intros Hl Hn Hb. destruct (cont_ok_inv l Hl) as (c & r & E & Hc & _). subst l.
  destruct (cont_facts ws c r Hc Hb) as (H2 & H3 & H4 & H5). now apply okraw_nolb.
Qed.

Lemma okraws_conts ws ls :
  forallb cont_ok ls = true -> forallb no_linebreak ls = true ->
  (ws = true -> forallb (fun l => negb (blank_ws l)) ls = true) ->
  forallb (okraw ws) ls = true.
Proof.
  induction ls as [|l ls IH]; [reflexivity|]. cbn [forallb]. intros H Hn Hb.
  apply andb_true_iff in H. destruct H as [Hl Hls]. apply andb_true_iff in Hn. destruct Hn as [Hnl Hnls].
  rewrite okraw_cont, IH; try assumption; try reflexivity.
  - intros E. specialize (Hb E). apply andb_true_iff in Hb. tauto.
  - intros E. specialize (Hb E). apply andb_true_iff in Hb. destruct Hb as [Hb _].
    now apply negb_true_iff in Hb.
Qed.

Lemma no_blank_cont_vlines v :
  c08_dom v = true -> no_blank_cont v = true ->
  forallb (fun l => negb (blank_ws l)) (tl (vlines v)) = true.
Proof. intros Hd H. unfold no_blank_cont in H. now rewrite cont_lines_vlines in H. Qed.

Lemma entry_no_linebreak k v :
  valid_field_name k = true -> c08_dom v = true ->
  forallb no_linebreak (plines (entry_of (k, v))) = true.
Proof.
  intros Hk Hd. pose proof (vlines_line_dom v Hd) as Hl.
  unfold entry_of. cbn [fst snd plines forallb]. apply andb_true_iff. split.
  - change (k ++ COLON :: sep_of v ++ hd [] (vlines v)) with (k ++ [COLON] ++ sep_of v ++ hd [] (vlines v)).
    rewrite !no_linebreak_app, (valid_field_name_no_linebreak _ Hk), sep_of_no_linebreak. cbn [andb].
    apply line_dom_no_linebreak. now apply (forallb_hd line_dom).
  - apply forallb_tl. eapply forallb_impl; [|exact Hl]. apply line_dom_no_linebreak.
Qed.

Lemma okraws_entry ws k v :
  valid_field_name k = true -> c08_dom v = true -> validate_input v = Ok tt ->
  (ws = true -> no_blank_cont v = true) ->
  forallb (okraw ws) (plines (entry_of (k, v))) = true.
Proof.
  intros Hk Hd Hv Hb. pose proof (accepted_entry_ok k v Hk Hd Hv) as He.
  pose proof (entry_no_linebreak k v Hk Hd) as Hn.
  unfold entry_of in *. cbn [fst snd] in *. destruct (pentry_ok_inv _ _ _ He) as (_ & Hr & Hc).
  cbn [plines forallb] in *. apply andb_true_iff in Hn. destruct Hn as [Hn1 Hn2].
  rewrite okraw_head; [|assumption|].
  2:{ rewrite no_linebreak_app, sep_of_no_linebreak. cbn [andb]. apply line_dom_no_linebreak.
      apply (forallb_hd line_dom); [reflexivity|]. now apply vlines_line_dom. }
  cbn [andb]. apply okraws_conts; [exact Hc|exact Hn2|]. intros E. apply no_blank_cont_vlines; auto.
Qed.

(** * The value read back *)

Lemma strip_sep v first :
  strip_by py_isspace (sep_of v ++ first) = strip_by py_isspace first.
Proof.
  destruct v as [|c v]; [reflexivity|]. cbn [sep_of]. destruct (c =? LF); reflexivity.
Qed.

Lemma pvalue_entry k v : c08_dom v = true -> pvalue (entry_of (k, v)) = reread_value v.
Proof.
  intros Hd. unfold reread_value. rewrite <- vlines_value_lines by exact Hd.
  unfold entry_of, pvalue. cbn [fst snd]. rewrite strip_sep.
  destruct (vlines v) as [|first conts]; reflexivity.
Qed.

(** * The whole paragraph *)

(** every value of [d] was accepted by validate_input *)
Definition all_accepted (d : dict) : bool :=
  forallb (fun kv => is_ok (validate_input (snd kv))) d.

Lemma para_dom_inv d :
  para_dom d = true ->
  forallb valid_field_name (names d) = true /\ distinct_keys (names d) = true
  /\ forallb (fun kv => c08_dom (snd kv)) d = true.
Proof.
  unfold para_dom. intros H. apply andb_true_iff in H. destruct H as [H H3].
  apply andb_true_iff in H. tauto.
Qed.

Lemma para_dom_cons kv d :
  para_dom (kv :: d) = true ->
  valid_field_name (fst kv) = true /\ c08_dom (snd kv) = true
  /\ forallb valid_field_name (names d) = true /\ forallb (fun kv => c08_dom (snd kv)) d = true.
Proof.
  intros H. destruct (para_dom_inv _ H) as (H1 & _ & H3).
  cbn [names map forallb] in H1, H3. apply andb_true_iff in H1, H3. tauto.
Qed.

Section Para.
Variable ws : bool.

(** per-field facts, for a list of fields *)
Definition fields_ok (d : dict) : Prop :=
  forall kv, In kv d ->
    valid_field_name (fst kv) = true /\ c08_dom (snd kv) = true
    /\ validate_input (snd kv) = Ok tt /\ (ws = true -> no_blank_cont (snd kv) = true).

Lemma fields_ok_of d :
  para_dom d = true -> all_accepted d = true -> (ws = true -> para_no_blank_cont d = true) ->
  fields_ok d.
Proof.
  intros Hd Ha Hb kv Hin. destruct (para_dom_inv _ Hd) as (H1 & _ & H3).
  unfold names in H1. rewrite forallb_forall in H1, H3. unfold all_accepted in Ha.
  rewrite forallb_forall in Ha. repeat split.
  - apply H1. now apply in_map.
  - now apply H3.
  - apply is_ok_validate. now apply Ha.
  - intros E. specialize (Hb E). unfold para_no_blank_cont in Hb. rewrite forallb_forall in Hb.
    now apply Hb.
Qed.

Lemma dump_lines d :
  fields_ok d ->
  splitlines py_islinebreak false (dump d) = concat (map (fun kv => plines (entry_of kv)) d).
Proof.
  unfold splitlines. induction d as [|[k v] d IH]; intros H; [reflexivity|].
  destruct (H (k, v) (or_introl eq_refl)) as (Hk & Hd & Hv & _). cbn [fst snd] in *.
  destruct (validate_inv v Hv) as [He _].
  unfold dump. cbn [map concat]. fold (dump d). rewrite dump_entry_eq.
  replace (((k ++ COLON :: sep_of v) ++ v ++ [LF]) ++ dump d)
    with (((k ++ COLON :: sep_of v) ++ v) ++ LF :: dump d)
    by (rewrite <- !app_assoc; reflexivity).
  rewrite splitlines_aux_app_lf by reflexivity. rewrite <- app_assoc.
  rewrite entry_lines; [|now apply valid_field_name_no_linebreak|exact Hd|exact He].
  f_equal. apply IH. intros kv Hin. apply H. now right.
Qed.

Lemma entries_ok d : fields_ok d -> forallb pentry_ok (map entry_of d) = true.
Proof.
  induction d as [|[k v] d IH]; intros H; [reflexivity|].
  destruct (H (k, v) (or_introl eq_refl)) as (Hk & Hd & Hv & _). cbn [fst snd] in *.
  cbn [map forallb]. rewrite accepted_entry_ok by assumption. apply IH.
  intros kv Hin. apply H. now right.
Qed.

Lemma entries_okraws d :
  fields_ok d -> forallb (okraw ws) (concat (map plines (map entry_of d))) = true.
Proof.
  induction d as [|[k v] d IH]; intros H; [reflexivity|].
  destruct (H (k, v) (or_introl eq_refl)) as (Hk & Hd & Hv & Hb). cbn [fst snd] in *.
  cbn [map concat]. rewrite forallb_app, okraws_entry by assumption. apply IH.
  intros kv Hin. apply H. now right.
Qed.

Lemma entries_ppara d : fields_ok d -> ppara (map entry_of d) = reread_para d.
Proof.
  induction d as [|[k v] d IH]; intros H; [reflexivity|].
  destruct (H (k, v) (or_introl eq_refl)) as (_ & Hd & _). cbn [fst snd] in *.
  unfold ppara, reread_para in *. cbn [map pkey fst snd]. rewrite pvalue_entry by exact Hd.
  f_equal. apply IH. intros kv Hin. apply H. now right.
Qed.

Lemma entries_keys d : map pkey (map entry_of d) = names d.
Proof. unfold names. rewrite map_map. reflexivity. Qed.

Lemma entries_nolb d :
  fields_ok d -> forallb no_linebreak (concat (map plines (map entry_of d))) = true.
Proof.
  induction d as [|[k v] d IH]; intros H; [reflexivity|].
  destruct (H (k, v) (or_introl eq_refl)) as (Hk & Hd & _). cbn [fst snd] in *.
  cbn [map concat]. rewrite forallb_app, entry_no_linebreak by assumption. apply IH.
  intros kv Hin. apply H. now right.
Qed.

Lemma map_strip_crlf_id ls : forallb no_linebreak ls = true -> map strip_crlf ls = ls.
Proof.
  induction ls as [|l ls IH]; [reflexivity|]. cbn [forallb map]. intros H.
  apply andb_true_iff in H. destruct H as [Hl Hls]. now rewrite strip_crlf_id, IH.
Qed.

Theorem reread_instr d :
  para_dom d = true -> all_accepted d = true -> d <> [] ->
  (ws = true -> para_no_blank_cont d = true) ->
  iter_paragraphs CDeb822 ws (InStr (dump d)) = Ok [reread_para d].
Proof.
  intros Hd Ha Hne Hb. pose proof (fields_ok_of d Hd Ha Hb) as Hf.
  unfold iter_paragraphs. cbn [lines_of]. rewrite dump_lines by exact Hf.
  rewrite <- map_map. rewrite (iter_lines_para ws (map entry_of d)).
  - now rewrite entries_ppara.
  - destruct d; [congruence|discriminate].
  - now apply entries_ok.
  - rewrite entries_keys. now destruct (para_dom_inv _ Hd) as (_ & H2 & _).
  - apply map_strip_crlf_id. now apply entries_nolb.
  - now apply entries_okraws.
Qed.

End Para.

Lemma names_reread d : names (reread_para d) = names d.
Proof. unfold names, reread_para. rewrite map_map. reflexivity. Qed.

(** * The three rejection reasons are exactly what validate_input refuses *)

Definition bad_cont (l : str) : bool :=
  match l with [] => true | c :: _ => negb (is_sp_tab c) end.

Lemma check_cont_lines_bad ls :
  forallb line_dom ls = true ->
  check_cont_lines ls = if existsb bad_cont ls then Err ValueError else Ok tt.
Proof.
  induction ls as [|l ls IH]; [reflexivity|]. cbn [forallb check_cont_lines existsb]. intros Hd.
  apply andb_true_iff in Hd. destruct Hd as [Hl Hls].
  destruct l as [|c r]; [reflexivity|]. cbn [bad_cont].
  destruct (py_isspace c) eqn:Ec.
  - rewrite (line_dom_head_space c r Hl Ec). cbn [negb orb]. now apply IH.
  - assert (Hn : is_sp_tab c = false).
    { destruct (is_sp_tab c) eqn:E; [|reflexivity]. apply sp_tab_pyspace in E. congruence. }
    rewrite Hn. reflexivity.
Qed.

Theorem validate_input_spec v :
  c08_dom v = true ->
  validate_input v = if spec_rejects v then Err ValueError else Ok tt.
Proof.
  intros Hd. unfold validate_input, spec_rejects. destruct (endswith [LF] v); [reflexivity|].
  cbn [orb]. rewrite cont_lines_vlines by exact Hd.
  apply check_cont_lines_bad. apply forallb_tl. now apply vlines_line_dom.
Qed.

Theorem rejected_valueerror d k v :
  c08_dom v = true -> spec_rejects v = true ->
  validate_input v = Err ValueError /\ setitem d k v = Err ValueError.
Proof.
  intros Hd Hr. pose proof (validate_input_spec v Hd) as H. rewrite Hr in H.
  split; [exact H|]. unfold setitem. now rewrite H.
Qed.

Theorem accepted_ok d k v :
  c08_dom v = true -> spec_rejects v = false -> setitem d k v = Ok (spec_set d k v).
Proof.
  intros Hd Hr. pose proof (validate_input_spec v Hd) as H. rewrite Hr in H.
  unfold setitem. rewrite H. reflexivity.
Qed.

(** * validator_matches_parser *)

Theorem validator_matches_parser l :
  c08_dom l = true -> check_cont_lines [l] = Ok tt -> no_linebreak l = true ->
  match_single l = None /\ match_multi l = None /\ match_gpgre l = None.
Proof.
  intros Hd Hc Hn.
  assert (Hl : line_dom l = true).
  { unfold line_dom, line_char. unfold c08_dom in Hd. unfold no_linebreak in Hn.
    rewrite forallb_forall in *. intros c Hin. now rewrite (Hn c Hin), (Hd c Hin). }
  assert (Hk : cont_ok l = true).
  { pose proof (check_cont_lines_dom [l]) as H. cbn [forallb] in H. rewrite Hl in H.
    specialize (H eq_refl Hc). now apply andb_true_iff in H. }
  destruct (cont_not_field l Hk) as [H1 H2]. repeat split; try assumption.
  now apply match_gpgre_cont.
Qed.

(** the same for the continuation lines of an accepted value *)
Theorem validator_matches_parser_value v l :
  c08_dom v = true -> validate_input v = Ok tt ->
  In l (tl (splitlines py_islinebreak false v)) ->
  match_single l = None /\ match_multi l = None /\ match_gpgre l = None.
Proof.
  intros Hd Hv Hin. pose proof (accepted_conts v Hd Hv) as Hc. rewrite forallb_forall in Hc.
  specialize (Hc l Hin). destruct (cont_not_field l Hc) as [H1 H2]. repeat split; try assumption.
  now apply match_gpgre_cont.
Qed.

(** * setitem keeps a paragraph inside the domain *)

Lemma existsb_map_lower k ks :
  existsb (str_eqb (ascii_lower k)) (map ascii_lower ks)
  = existsb (fun k' => key_eqb k' k) ks.
Proof.
  induction ks as [|x ks IH]; [reflexivity|]. cbn [map existsb]. rewrite IH. f_equal.
  unfold key_eqb. destruct (str_eqb (ascii_lower k) (ascii_lower x)) eqn:E.
  - apply str_eqb_eq in E. rewrite E. symmetry. apply str_eqb_refl.
  - destruct (str_eqb (ascii_lower x) (ascii_lower k)) eqn:E2; [|reflexivity].
    apply str_eqb_eq in E2. rewrite E2, str_eqb_refl in E. discriminate.
Qed.

Lemma key_eqb_sym a b : key_eqb a b = key_eqb b a.
Proof.
  unfold key_eqb. destruct (str_eqb (ascii_lower a) (ascii_lower b)) eqn:E.
  - apply str_eqb_eq in E. rewrite E. symmetry. apply str_eqb_refl.
  - destruct (str_eqb (ascii_lower b) (ascii_lower a)) eqn:E2; [|reflexivity].
    apply str_eqb_eq in E2. rewrite E2, str_eqb_refl in E. discriminate.
Qed.

Lemma key_eqb_trans a b c : key_eqb a b = true -> key_eqb b c = true -> key_eqb a c = true.
Proof.
  unfold key_eqb. intros H1 H2. apply str_eqb_eq in H1, H2. rewrite H1, H2. apply str_eqb_refl.
Qed.

(** the names after an assignment *)
Lemma names_dict_set d k v :
  names (dict_set d k v)
  = if existsb (fun k' => key_eqb k' k) (names d) then names d else names d ++ [k].
Proof.
  induction d as [|[k' v'] d IH]; [reflexivity|]. cbn [dict_set names map existsb fst].
  destruct (key_eqb k' k) eqn:E; [reflexivity|]. cbn [orb names map fst].
  unfold names in IH. rewrite IH. destruct (existsb (fun k'0 => key_eqb k'0 k) (map fst d)); reflexivity.
Qed.

Lemma distinct_keys_snoc ks k :
  distinct_keys ks = true -> existsb (fun k' => key_eqb k' k) ks = false ->
  distinct_keys (ks ++ [k]) = true.
Proof.
  induction ks as [|x ks IH]; [reflexivity|]. cbn [distinct_keys app existsb]. intros Hd He.
  apply andb_true_iff in Hd. destruct Hd as [Hx Hd]. apply orb_false_iff in He. destruct He as [He1 He2].
  rewrite IH by assumption. rewrite andb_true_r. apply negb_true_iff. apply negb_true_iff in Hx.
  rewrite existsb_map_lower in *. rewrite existsb_app, Hx. cbn [existsb orb].
  rewrite orb_false_r. now rewrite key_eqb_sym.
Qed.

Theorem setitem_keeps_dom d k v d' :
  para_dom d = true -> all_accepted d = true ->
  valid_field_name k = true -> c08_dom v = true ->
  setitem d k v = Ok d' ->
  para_dom d' = true /\ all_accepted d' = true /\ d' <> [].
Proof.
  intros Hd Ha Hk Hv Hs. unfold setitem in Hs.
  destruct (validate_input v) as [[]|] eqn:Ev; [|discriminate]. cbn [bind] in Hs.
  injection Hs as <-. destruct (para_dom_inv _ Hd) as (H1 & H2 & H3).
  assert (Hvals : forall P : str * str -> bool, P (k, v) = true -> (forall k', P (k', v) = P (k, v)) ->
                  forallb P d = true -> forallb P (dict_set d k v) = true).
  { intros P HP Hk' HPd. clear -HP Hk' HPd. induction d as [|[k' v'] d IH]; cbn [dict_set forallb].
    - now rewrite HP.
    - cbn [forallb] in HPd. apply andb_true_iff in HPd. destruct HPd as [Hx HPd].
      destruct (key_eqb k' k); cbn [forallb].
      + now rewrite Hk', HP, HPd.
      + now rewrite Hx, IH. }
  repeat split.
  - unfold para_dom. rewrite names_dict_set.
    destruct (existsb (fun k' => key_eqb k' k) (names d)) eqn:Ex.
    + rewrite H1, H2. cbn [andb]. apply (Hvals (fun kv => c08_dom (snd kv))); auto.
    + rewrite forallb_app, H1. cbn [forallb]. rewrite Hk. cbn [andb].
      rewrite distinct_keys_snoc by assumption. cbn [andb].
      apply (Hvals (fun kv => c08_dom (snd kv))); auto.
  - unfold all_accepted. apply (Hvals (fun kv => is_ok (validate_input (snd kv)))); auto.
    cbn [snd]. now rewrite Ev.
  - destruct d as [|[k' v'] d]; cbn [dict_set]; [discriminate|]. destruct (key_eqb k' k); discriminate.
Qed.
