(** Case format evaluated by the correspondence check of C08.
    A case is a sequence of assignments p[k] = v on a fresh Deb822(), followed by
    p.dump() re-read four ways.
    [agree]: the model (Deb822/Model.v: [setitem], [dump], [iter_paragraphs])
             reproduces what the implementation did.
    [holds]: the property itself, judged on what the implementation did, against
             Deb822/Spec.v + Deb822/InjectSpec.v (never against the model). *)
From Coq Require Import String.
From Verif Require Import Lib.Base Lib.Dec Lib.PyStr Gen.PyChars
  Deb822.Model Deb822.Spec Deb822.InjectSpec.

Definition sdict := list (string * string).
Definition dec_dict (d : sdict) : dict := map (fun kv => (dec (fst kv), dec (snd kv))) d.

Record case := mk {
  c_ops : sdict;                          (* the assignments p[k] = v, in order *)
  c_errs : list (option err);             (* per assignment: exception kind (None = accepted) *)
  c_states : list (option sdict);         (* per assignment: [(k, p[k]) for k in p] afterwards; to keep the
                                             case files small the harness writes it (Some) only after the last
                                             assignment, after a refused one and before a refused one *)
  c_dump : string;                        (* p.dump() after the last assignment *)
  c_nows_str : result (list sdict);       (* list(Deb822.iter_paragraphs(dump, strict={'whitespace-separates-paragraphs': False})) *)
  c_nows_file : option (result (list sdict));   (* the same from io.StringIO(dump); None = equal to c_nows_str *)
  c_ws_str : option (result (list sdict));      (* default strictness, str; None = equal to c_nows_str *)
  c_ws_file : option (result (list sdict));     (* default strictness, file object; None = equal to c_ws_str *)
}.

Definition kv_eqb (a b : str * str) : bool := pair_eqb str_eqb str_eqb a b.
Definition dict_eqb : dict -> dict -> bool := list_eqb kv_eqb.
Definition dicts_eqb : list dict -> list dict -> bool := list_eqb dict_eqb.
Definition oerr_eqb : option err -> option err -> bool := option_eqb err_eqb.

Definition obs_dicts (o : result (list sdict)) : result (list dict) :=
  match o with Ok l => Ok (map dec_dict l) | Err e => Err e end.

Definition is_some {A} (o : option A) : bool := match o with Some _ => true | None => false end.

Definition or_else {A} (o : option A) (d : A) : A := match o with Some x => x | None => d end.

(** the four re-reads, with the sharing undone *)
Definition r_nows_str (c : case) := obs_dicts (c_nows_str c).
Definition r_nows_file (c : case) := obs_dicts (or_else (c_nows_file c) (c_nows_str c)).
Definition r_ws_str (c : case) := obs_dicts (or_else (c_ws_str c) (c_nows_str c)).
Definition r_ws_file (c : case) := obs_dicts (or_else (c_ws_file c) (or_else (c_ws_str c) (c_nows_str c))).

Definition dec_states (s : list (option sdict)) : list (option dict) :=
  map (fun x => match x with Some d => Some (dec_dict d) | None => None end) s.

(** * The model run *)

(** p[k] = v: the outcome and the mapping afterwards (unchanged on an exception) *)
Definition model_step (d : dict) (kv : str * str) : option err * dict :=
  match setitem d (fst kv) (snd kv) with
  | Ok d' => (None, d')
  | Err e => (Some e, d)
  end.

Fixpoint model_steps (d : dict) (ops : list (str * str)) : list (option err * dict) * dict :=
  match ops with
  | [] => ([], d)
  | kv :: ops' =>
    let st := model_step d kv in
    let (r, df) := model_steps (snd st) ops' in (st :: r, df)
  end.

(** A recorded state must be the model's; an unrecorded one is not compared.
    The harness must have recorded the state after the last assignment, after
    every assignment the model refuses and before it ([prev_rec]: the state
    before the current assignment is known; the initial one is the empty mapping). *)
Fixpoint states_agree (prev_rec : bool) (m : list (option err * dict)) (o : list (option dict)) : bool :=
  match m, o with
  | [], [] => true
  | (e, d) :: m', s :: o' =>
      (match s with Some d' => dict_eqb d d' | None => true end)
      && (match e with Some _ => prev_rec && is_some s | None => true end)
      && (match m' with [] => is_some s | _ => true end)
      && states_agree (is_some s) m' o'
  | _, _ => false
  end.

Definition agree (c : case) : bool :=
  let (steps, d) := model_steps [] (dec_dict (c_ops c)) in
  let text := dump d in
  list_eqb oerr_eqb (map fst steps) (c_errs c)
  && states_agree true steps (dec_states (c_states c))
  && str_eqb text (dec (c_dump c))
  && result_eqb dicts_eqb (iter_paragraphs CDeb822 false (InStr text)) (r_nows_str c)
  && result_eqb dicts_eqb (iter_paragraphs CDeb822 false (InFile text)) (r_nows_file c)
  && result_eqb dicts_eqb (iter_paragraphs CDeb822 true (InStr text)) (r_ws_str c)
  && result_eqb dicts_eqb (iter_paragraphs CDeb822 true (InFile text)) (r_ws_file c).

(** * The property *)

(** Every assignment: a refusal is a ValueError and leaves names and values as
    they were (both states must have been recorded); a value that ends in LF,
    has an empty continuation line, or a continuation line not starting with
    space/tab is refused. *)
Fixpoint steps_ok (prev : option dict) (ops : list (str * str)) (errs : list (option err))
         (states : list (option dict)) : bool :=
  match ops, errs, states with
  | [], [], [] => true
  | kv :: ops', e :: errs', st :: states' =>
      (match e with
       | Some e' =>
           err_eqb e' ValueError
           && match prev, st with Some p, Some a => dict_eqb a p | _, _ => false end
       | None => true
       end)
      && (if c08_dom (snd kv) && spec_rejects (snd kv) then is_some e else true)
      && steps_ok st ops' errs' states'
  | _, _, _ => false
  end.

(** the mapping after the last assignment (always recorded) *)
Definition final_state (states : list (option dict)) : option dict :=
  match rev states with
  | s :: _ => s
  | [] => Some []
  end.

(** The paragraph the implementation ended with (every value in it was accepted
    by the implementation), dumped by the implementation and read back. *)
Definition reread_ok (c : case) : bool :=
  match final_state (dec_states (c_states c)) with
  | None => false
  | Some d =>
    if para_dom d && negb (is_nil d) then
      one_para_with_names (names d) (r_nows_str c)
      && one_para_with_names (names d) (r_nows_file c)
      && (if para_no_blank_cont d then
            one_para_with_names (names d) (r_ws_str c)
            && one_para_with_names (names d) (r_ws_file c)
          else true)
    else true
  end.

Definition holds (c : case) : bool :=
  steps_ok (Some []) (dec_dict (c_ops c)) (c_errs c) (dec_states (c_states c)) && reread_ok c.

Definition bad_agree (cs : list case) : list N := bad agree cs.
Definition bad_holds (cs : list case) : list N := bad holds cs.
