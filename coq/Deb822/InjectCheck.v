(** Case format evaluated by the correspondence check of C08.
    A case is a sequence of assignments p[k] = v on a fresh Deb822(), followed by
    p.dump() re-read four ways.
    [agree]: the model (Deb822/Model.v: [setitem], [dump], [iter_paragraphs])
             reproduces what the implementation did.
    [holds]: the property itself, judged on what the implementation did, against
             Deb822/Spec.v + Deb822/InjectSpec.v (never against the model). *)
From Coq Require Import String.
From Verif Require Import Lib.Base Lib.Dec Lib.PyStr Gen.PyChars
  Deb822.Model Deb822.Spec Deb822.InjectSpec.

Definition sdict := list (string * string).
Definition dec_dict (d : sdict) : dict := map (fun kv => (dec (fst kv), dec (snd kv))) d.

Record case := mk {
  c_ops : sdict;                          (* the assignments p[k] = v, in order *)
  c_steps : list (option err * sdict);    (* per assignment: exception kind (None = accepted)
                                             and [(k, p[k]) for k in p] afterwards *)
  c_dump : string;                        (* p.dump() after the last assignment *)
  c_nows_str : result (list sdict);       (* list(Deb822.iter_paragraphs(dump, strict={'whitespace-separates-paragraphs': False})) *)
  c_nows_file : result (list sdict);      (* the same from io.StringIO(dump) *)
  c_ws_str : result (list sdict);         (* default strictness, str *)
  c_ws_file : result (list sdict);        (* default strictness, file object *)
}.

Definition kv_eqb (a b : str * str) : bool := pair_eqb str_eqb str_eqb a b.
Definition dict_eqb : dict -> dict -> bool := list_eqb kv_eqb.
Definition dicts_eqb : list dict -> list dict -> bool := list_eqb dict_eqb.
Definition oerr_eqb : option err -> option err -> bool := option_eqb err_eqb.
Definition step_eqb (a b : option err * dict) : bool := pair_eqb oerr_eqb dict_eqb a b.

Definition obs_dicts (o : result (list sdict)) : result (list dict) :=
  match o with Ok l => Ok (map dec_dict l) | Err e => Err e end.

Definition dec_steps (s : list (option err * sdict)) : list (option err * dict) :=
  map (fun x => (fst x, dec_dict (snd x))) s.

(** * The model run *)

(** p[k] = v: the outcome and the mapping afterwards (unchanged on an exception) *)
Definition model_step (d : dict) (kv : str * str) : option err * dict :=
  match setitem d (fst kv) (snd kv) with
  | Ok d' => (None, d')
  | Err e => (Some e, d)
  end.

Fixpoint model_steps (d : dict) (ops : list (str * str)) : list (option err * dict) * dict :=
  match ops with
  | [] => ([], d)
  | kv :: ops' =>
    let st := model_step d kv in
    let (r, df) := model_steps (snd st) ops' in (st :: r, df)
  end.

Definition agree (c : case) : bool :=
  let (steps, d) := model_steps [] (dec_dict (c_ops c)) in
  let text := dump d in
  list_eqb step_eqb steps (dec_steps (c_steps c))
  && str_eqb text (dec (c_dump c))
  && result_eqb dicts_eqb (iter_paragraphs CDeb822 false (InStr text)) (obs_dicts (c_nows_str c))
  && result_eqb dicts_eqb (iter_paragraphs CDeb822 false (InFile text)) (obs_dicts (c_nows_file c))
  && result_eqb dicts_eqb (iter_paragraphs CDeb822 true (InStr text)) (obs_dicts (c_ws_str c))
  && result_eqb dicts_eqb (iter_paragraphs CDeb822 true (InFile text)) (obs_dicts (c_ws_file c)).

(** * The property *)

Definition is_some {A} (o : option A) : bool := match o with Some _ => true | None => false end.

(** Every assignment: a refusal is a ValueError and leaves names and values as
    they were; a value that ends in LF, has an empty continuation line, or a
    continuation line not starting with space/tab is refused. *)
Fixpoint steps_ok (prev : dict) (ops : list (str * str)) (steps : list (option err * dict)) : bool :=
  match ops, steps with
  | [], [] => true
  | kv :: ops', (e, after) :: steps' =>
      (match e with
       | Some e' => err_eqb e' ValueError && dict_eqb after prev
       | None => true
       end)
      && (if c08_dom (snd kv) && spec_rejects (snd kv) then is_some e else true)
      && steps_ok after ops' steps'
  | _, _ => false
  end.

Definition final_state (steps : list (option err * dict)) : dict :=
  match rev steps with
  | (_, d) :: _ => d
  | [] => []
  end.

(** The paragraph the implementation ended with (every value in it was accepted
    by the implementation), dumped by the implementation and read back. *)
Definition reread_ok (c : case) : bool :=
  let d := final_state (dec_steps (c_steps c)) in
  if para_dom d && negb (is_nil d) then
    one_para_with_names (names d) (obs_dicts (c_nows_str c))
    && one_para_with_names (names d) (obs_dicts (c_nows_file c))
    && (if para_no_blank_cont d then
          one_para_with_names (names d) (obs_dicts (c_ws_str c))
          && one_para_with_names (names d) (obs_dicts (c_ws_file c))
        else true)
  else true.

Definition holds (c : case) : bool :=
  steps_ok [] (dec_dict (c_ops c)) (dec_steps (c_steps c)) && reread_ok c.

Definition bad_agree (cs : list case) : list N := bad agree cs.
Definition bad_holds (cs : list case) : list N := bad holds cs.
