(** Primitives that the regenerated control flow of the Deb822 reader / writer (Gen/TrDeb822.v,
    regenerated from lib/debian/deb822.py on every run) calls.  Everything here is hand-written;
    every regex leaf is DEFINED THROUGH the model's leaf of Deb822/Model.v ([match_gpgre],
    [blank_ws], [blank_nows], [match_single], [match_multi], [match_multidata]); the mapping
    primitives are the model's own [setitem] / [keys].  The pattern texts are asserted by the
    translator spec (harness/props/c02.py): a changed pattern fails the translation closed.

    str / bytes.  A line is a list of code points in both flavours (Model.v header: the codec is
    not modelled), so the dynamic type of the elements of [sequence] is not visible in the data:
    it is the leading parameter [is_bytes : bool] of the translated functions ("the elements of
    sequence are bytes objects").  [isinstance] reads it; [.encode()] and [decoder.decode()] are
    the identity on code points. *)
From Verif Require Import Lib.Base Lib.PyStr Lib.Tr Gen.PyChars Deb822.Model.

(** the classes that appear as second argument of [isinstance] *)
Inductive trp_pytype := TyBytes | TyStr.

(** [isinstance(line, bytes)] / [isinstance(line_, str)] for an element of [sequence] *)
Definition trp_isinstance (is_bytes : bool) (line : str) (t : trp_pytype) : bool :=
  match t with TyBytes => is_bytes | TyStr => negb is_bytes end.

(** [s.startswith(prefix)], [s.rstrip(chars)], [s.strip(chars)] (Lib/PyStr.v) *)
Definition trp_startswith (s pre : str) : bool := startswith pre s.
Definition trp_rstrip (s chars : str) : str := rstrip_by (in_chars chars) s.
Definition trp_strip (s chars : str) : str := strip_by (in_chars chars) s.

(** [line_.encode()] (str -> UTF-8 bytes) and [self.decoder.decode(linebytes)] (bytes -> str):
    the identity on the code points that represent both (Model.v header, harness ASSUMPTIONS). *)
Definition trp_encode (s : str) : str := s.
Definition trp_decode (s : str) : str := s.

(** [strict : Optional[Dict[str, bool]]]: None, or the dict as an association list. *)
Definition trp_strict := option (list (str * bool)).
(** truth value: None and the empty dict are falsy *)
Definition trp_strict_bool (s : trp_strict) : bool :=
  match s with Some (_ :: _) => true | _ => false end.
(** [{}] *)
Definition trp_strict_empty : trp_strict := Some [].
Fixpoint trp_assoc (l : list (str * bool)) (k : str) : option bool :=
  match l with
  | [] => None
  | (k', v) :: l' => if str_eqb k' k then Some v else trp_assoc l' k
  end.
(** [strict.get(key, default)]; on None it would be an AttributeError ([OtherError] — the tie
    shows it cannot happen: the code replaces a falsy [strict] by [{}] first) *)
Definition trp_strict_get (s : trp_strict) (k : str) (dflt : bool) : result bool :=
  match s with
  | None => Err OtherError
  | Some l => Ok (match trp_assoc l k with Some v => v | None => dflt end)
  end.

(** the two patterns that [blank_line] is bound to *)
Inductive trp_blank_pat := BlankWs | BlankNoWs.
(** [blank_line.match(line)] (only its truth value is used) *)
Definition trp_blank_match (p : trp_blank_pat) (line : str) : bool :=
  match p with BlankWs => blank_ws line | BlankNoWs => blank_nows line end.
(** [Deb822._initial_blank_line.match(line)] *)
Definition trp_initial_blank_match (line : str) : bool := blank_ws line.

(** [Deb822._gpgre.match(line)]: None, or the groups 'action' and 'what' as text *)
Definition trp_gpgre_match (line : str) : option (str * str) :=
  match match_gpgre line with
  | Some (b, what) => Some (if b then s_BEGIN else s_END, what)
  | None => None
  end.
Definition trp_group_action (m : str * str) (_ : unit) : str := fst m.
Definition trp_group_what (m : str * str) (_ : unit) : str := snd m.

(** ** _internal_parser *)

(** The object: the ordered mapping it holds (the model's [dict]).  [self[key] = value] is
    Deb822.__setitem__, which is TRANSLATED (Gen/TrDeb822.v: [tr_setitem] = validate_input, also
    translated, then Deb822Dict.__setitem__(self, key, value)).  The latter — OrderedSet.add of
    the case-insensitive key + the store in the underlying dict — is this primitive on the
    object's state: the model's [dict_set] (an existing name keeps its place and first
    spelling).  Calling convention of a primitive on the state (py2coq Call.stateprim): ghost
    parameters, the state, then the arguments of the call (here [self] once more). *)
Definition trp_map := dict.
Definition trp_dict_setitem (_ : bool) (_ : trp_map) (self : trp_map) (k v : str) : mres unit trp_map :=
  MOk tt (dict_set self k v).

(** validate_input: [value.endswith('\n')], [value.splitlines()] (str: Unicode line
    boundaries), [line[0].isspace()] *)
Definition trp_endswith (s suf : str) : bool := endswith suf s.
Definition trp_splitlines (s : str) : list str := splitlines py_islinebreak false s.
Definition trp_char_isspace (c : N) : bool := py_isspace c.

(** [isinstance(sequence, (str, bytes))] for a line sequence (list / file / iterator): false.
    (For a str/bytes argument the code first replaces it by [sequence.splitlines()], a list:
    the same path on [lines_of i], which is how Model.deb822_new is defined.)  The method of the
    dead branch is the identity. *)
Definition trp_seq_is_text (_ : list str) (_ : unit) : bool := false.
Definition trp_seq_splitlines (l : list str) : list str := l.

(** a match object of _single / _multi / _multidata: its named groups 'key' and 'data'
    (a pattern without the group: None; [m.group] of it would be an IndexError) *)
Definition trp_mobj := (option str * option str)%type.
Definition trp_single_match (line : str) : option trp_mobj :=
  match match_single line with Some (k, d) => Some (Some k, Some d) | None => None end.
Definition trp_multi_match (line : str) : option trp_mobj :=
  match match_multi line with Some k => Some (Some k, None) | None => None end.
Definition trp_multidata_match (line : str) : option trp_mobj :=
  match match_multidata line with Some d => Some (None, Some d) | None => None end.
Definition trp_group_key (m : trp_mobj) (_ : unit) : result str :=
  match fst m with Some k => Ok k | None => Err IndexError end.
Definition trp_group_data (m : trp_mobj) (_ : unit) : result str :=
  match snd m with Some d => Ok d | None => Err IndexError end.

(** ** The writer *)

(** [self[key]] (Deb822Dict.__getitem__): the value stored under the name, names compared as the
    model's [dict_set] compares them ([key_eqb]); KeyError when absent *)
Fixpoint trp_getitem (d : trp_map) (k : str) : result str :=
  match d with
  | [] => Err KeyError
  | (k', v) :: d' => if key_eqb k' k then Ok v else trp_getitem d' k
  end.
(** [for key in self]: the names in insertion order with their first spelling *)
Definition trp_keys (d : trp_map) : list str := keys d.
(** [str(x)] of a str *)
Definition trp_str_of_str (s : str) : str := s.
(** [sep.join(list)] *)
Definition trp_join (sep : str) (ls : list str) : str := join sep ls.
