(** C08 proofs, part 1: the reader (consume / fields_loop / iter_lines of
    Deb822/Model.v) on the raw lines of ANY paragraph whose head lines are
    "name:rest" and whose continuation lines start with space/tab, possibly with
    CRs inside (the file-object form) - the shape the dump of accepted values
    has.  Part 2 (InjectProofs2.v) ties this shape to [dump], [validate_input]
    and the two input forms. *)
From Coq Require Import Lia ZifyBool.
From Verif Require Import Lib.Base Lib.PyStr Gen.PyChars Deb822.Model Deb822.Spec
  Deb822.InjectSpec Deb822.ProofsStr Deb822.InjectStr Deb822.InjectBrk.

Local Open Scope N_scope.

(** * Names *)

(** what the reader needs of a name (model-level; implied by Spec's [valid_field_name]) *)
Definition key_ok (k : str) : bool :=
  match k with
  | [] => false
  | c :: _ => negb (c =? HASH) && forallb key_char k
  end.

Lemma field_char_key_char c : field_char c = true -> key_char c = true.
Proof.
  unfold field_char, key_char. intros H.
  apply andb_true_iff in H. destruct H as [H H3]. apply andb_true_iff in H. destruct H as [H1 H2].
  apply negb_true_iff in H1, H2. unfold COLON. rewrite H1. cbn [orb].
  destruct (bytes_isspace c) eqn:E; [|reflexivity].
  apply bytes_space_pyspace in E. congruence.
Qed.

Lemma valid_field_name_key_ok k : valid_field_name k = true -> key_ok k = true.
Proof.
  destruct k as [|c k]; [discriminate|]. unfold valid_field_name, key_ok. intros H.
  apply andb_true_iff in H. destruct H as [H1 H2]. unfold HASH. rewrite H1. cbn [andb].
  eapply forallb_impl; [|exact H2]. apply field_char_key_char.
Qed.

Lemma valid_field_name_no_linebreak k : valid_field_name k = true -> no_linebreak k = true.
Proof.
  destruct k as [|c k]; [discriminate|]. unfold valid_field_name. intros H.
  apply andb_true_iff in H. destruct H as [_ H]. eapply forallb_impl; [|exact H].
  intros x Hx. unfold field_char in Hx. apply andb_true_iff in Hx. tauto.
Qed.

Lemma key_ok_inv k :
  key_ok k = true -> exists c r, k = c :: r /\ (c =? HASH) = false /\ forallb key_char k = true.
Proof.
  destruct k as [|c r]; [discriminate|]. unfold key_ok. intros H.
  apply andb_true_iff in H. destruct H as [H1 H2]. apply negb_true_iff in H1. now exists c, r.
Qed.

Lemma key_char_not_space c : key_char c = true -> bytes_isspace c = false.
Proof. unfold key_char. intros H. apply negb_true_iff, orb_false_iff in H. tauto. Qed.

(** * Regex leaves on a head line "name:rest" *)

Lemma match_key_part_colon k rest :
  key_ok k = true -> match_key_part (k ++ COLON :: rest) = Some (k, rest).
Proof.
  intros Hk. destruct (key_ok_inv k Hk) as (c & r & -> & _ & Hkc).
  unfold match_key_part. rewrite span_forall_app; [|exact Hkc|reflexivity].
  cbn [dropwhile]. replace (py_isspace COLON) with false by reflexivity.
  now rewrite N.eqb_refl.
Qed.

(** visible text after the colon: _single matches, data = the trimmed text *)
Lemma match_single_head k rest c r :
  key_ok k = true -> lf_free rest = true -> dropwhile py_isspace rest = c :: r ->
  match_single (k ++ COLON :: rest) = Some (k, strip_by py_isspace rest).
Proof.
  intros Hk Hf Hd. unfold match_single. rewrite match_key_part_colon by exact Hk.
  rewrite Hd. unfold re_lazy_tail.
  assert (Hr : lf_free r = true).
  { pose proof (dropwhile_forallb py_isspace _ rest Hf) as H. rewrite Hd in H.
    cbn [forallb] in H. apply andb_true_iff in H. tauto. }
  unfold rstrip_by.
  rewrite (lf_free_mem_lf _ (rdropwhile_forallb py_isspace _ r Hr)).
  rewrite (strip_by_cons _ _ _ _ Hd). reflexivity.
Qed.

(** nothing but blanks after the colon: _single fails, _multi matches *)
Lemma match_single_head_blank k rest :
  key_ok k = true -> dropwhile py_isspace rest = [] ->
  match_single (k ++ COLON :: rest) = None /\ match_multi (k ++ COLON :: rest) = Some k.
Proof.
  intros Hk Hd. unfold match_single, match_multi. rewrite match_key_part_colon by exact Hk.
  rewrite Hd. split; [reflexivity|]. now rewrite (dropwhile_nil_all _ _ Hd).
Qed.

(** * Continuation lines *)

Lemma match_key_part_sp c r : bytes_isspace c = true -> match_key_part (c :: r) = None.
Proof. intros H. unfold match_key_part. cbn [span]. unfold key_char. rewrite H, orb_true_r. reflexivity. Qed.

(** validator_matches_parser, first half: a line starting with space/tab is
    neither a "name: value" nor a "name:" line *)
Lemma cont_not_field l :
  cont_ok l = true -> match_single l = None /\ match_multi l = None.
Proof.
  intros H. destruct (cont_ok_inv l H) as (c & r & -> & Hc & _).
  unfold match_single, match_multi. rewrite match_key_part_sp by now apply sp_tab_bytes_space.
  now split.
Qed.

(** _multidata matches every continuation line except a single blank *)
Lemma match_multidata_cont l :
  cont_ok l = true ->
  match match_multidata l with Some _ => true | None => false end = kept_cont l.
Proof.
  intros H. destruct (cont_ok_inv l H) as (c & r & -> & Hc & Hr & _).
  unfold match_multidata. rewrite (sp_tab_pyspace _ Hc).
  destruct r as [|r0 r']; [reflexivity|]. cbn [kept_cont].
  destruct (rstrip_by py_isspace (r0 :: r')) as [|p0 p] eqn:Ep.
  - cbn [lf_free forallb] in Hr. apply andb_true_iff in Hr. destruct Hr as [Hr0 _].
    apply negb_true_iff in Hr0. now rewrite Hr0.
  - pose proof (rdropwhile_forallb py_isspace _ _ Hr) as Hp. unfold rstrip_by in Ep. rewrite Ep in Hp.
    now rewrite (lf_free_mem_lf _ Hp).
Qed.

(** * The PGP armour pattern *)

Lemma strip_prefix_some pre : forall s r, strip_prefix pre s = Some r -> s = pre ++ r.
Proof.
  induction pre as [|a pre IH]; intros s r H.
  - cbn in H. now injection H as ->.
  - destruct s as [|b s]; [discriminate|]. cbn [strip_prefix] in H.
    destruct (N.eqb_spec a b) as [->|]; [|discriminate]. cbn [app]. f_equal. now apply IH.
Qed.

Lemma strip_prefix_nomatch pre s : startswith pre s = false -> strip_prefix pre s = None.
Proof.
  revert s. induction pre as [|a pre IH]; intros s H; [discriminate|].
  destruct s as [|b s]; [reflexivity|]. cbn [startswith] in H. cbn [strip_prefix].
  destruct (a =? b); [now apply IH|reflexivity].
Qed.

Definition s_armor_begin : str := s_dashes ++ s_BEGIN ++ s_PGP.
Definition s_armor_end : str := s_dashes ++ s_END ++ s_PGP.

Lemma match_gpgre_shape l x :
  match_gpgre l = Some x -> exists r, l = s_armor_begin ++ r \/ l = s_armor_end ++ r.
Proof.
  unfold match_gpgre. destruct (strip_prefix s_dashes l) as [r0|] eqn:E0; [|discriminate].
  apply strip_prefix_some in E0. subst l.
  destruct (strip_prefix s_BEGIN r0) as [r1|] eqn:E1.
  - apply strip_prefix_some in E1. subst r0.
    destruct (strip_prefix s_PGP r1) as [r2|] eqn:E2; [|discriminate].
    apply strip_prefix_some in E2. subst r1. intros _. exists r2. left.
    unfold s_armor_begin. now rewrite <- !app_assoc.
  - destruct (strip_prefix s_END r0) as [r1|] eqn:E1'; [|discriminate].
    apply strip_prefix_some in E1'. subst r0.
    destruct (strip_prefix s_PGP r1) as [r2|] eqn:E2; [|discriminate].
    apply strip_prefix_some in E2. subst r1. intros _. exists r2. right.
    unfold s_armor_end. now rewrite <- !app_assoc.
Qed.

(** a text "name:..." cannot begin with a colon-free text that contains a blank *)
Lemma prefix_conflict P : forall k rest r,
  k ++ COLON :: rest = P ++ r -> forallb key_char k = true ->
  forallb (fun c => negb (c =? COLON)) P = true -> existsb (fun c => c =? SP) P = true -> False.
Proof.
  induction P as [|p P IH]; intros k rest r E Hk Hc Hs; [discriminate|].
  cbn [forallb] in Hc. apply andb_true_iff in Hc. destruct Hc as [Hp Hc].
  cbn [existsb] in Hs. destruct k as [|c k].
  - cbn [app] in E. injection E as E _. subst p. discriminate.
  - cbn [app] in E. injection E as E1 E2. subst p.
    cbn [forallb] in Hk. apply andb_true_iff in Hk. destruct Hk as [Hck Hk].
    destruct (N.eqb_spec c SP) as [->|].
    + discriminate.
    + cbn [orb] in Hs. eapply IH; eassumption.
Qed.

Lemma match_gpgre_head k rest : forallb key_char k = true -> match_gpgre (k ++ COLON :: rest) = None.
Proof.
  intros Hk. destruct (match_gpgre (k ++ COLON :: rest)) as [x|] eqn:E; [|reflexivity].
  exfalso. destruct (match_gpgre_shape _ _ E) as [r [Hr|Hr]].
  - eapply (prefix_conflict s_armor_begin); [exact Hr|exact Hk|reflexivity|reflexivity].
  - eapply (prefix_conflict s_armor_end); [exact Hr|exact Hk|reflexivity|reflexivity].
Qed.

Lemma match_gpgre_cont l : cont_ok l = true -> match_gpgre l = None.
Proof.
  intros H. destruct (cont_ok_inv l H) as (c & r & -> & Hc & _).
  unfold match_gpgre. rewrite strip_prefix_nomatch; [reflexivity|].
  unfold is_sp_tab in Hc. apply orb_true_iff in Hc.
  destruct Hc as [Hc|Hc]; apply N.eqb_eq in Hc; subst c; reflexivity.
Qed.

(** * The line-consuming loop on raw lines that are neither comments, nor
      blank, nor armour *)

Definition okraw (ws : bool) (l : str) : bool :=
  negb (startswith [HASH] l) && negb (is_nil (rstrip_by is_crlf l))
  && negb (blank_line ws (strip_crlf l))
  && match match_gpgre (strip_crlf l) with None => true | Some _ => false end.

Lemma okraw_inv ws l :
  okraw ws l = true ->
  startswith [HASH] l = false /\ is_nil (rstrip_by is_crlf l) = false
  /\ blank_line ws (strip_crlf l) = false /\ match_gpgre (strip_crlf l) = None.
Proof.
  unfold okraw. intros H.
  apply andb_true_iff in H. destruct H as [H H4]. apply andb_true_iff in H. destruct H as [H H3].
  apply andb_true_iff in H. destruct H as [H1 H2].
  apply negb_true_iff in H1, H2, H3. destruct (match_gpgre (strip_crlf l)); [discriminate|]. tauto.
Qed.

Lemma consume_cons' skip ws ab g l rest :
  consume skip ws ab g (l :: rest)
  = if skip && startswith [HASH] l then consume skip ws ab g rest
    else if skip && ab && is_nil (rstrip_by is_crlf l) then consume skip ws ab g rest
    else let (g', brk) := gpg_step ws g l in
         if brk then (g', rest) else consume skip ws false g' rest.
Proof. reflexivity. Qed.

Lemma gpg_step_okraw ws g l :
  okraw ws l = true -> g_state g = s_SAFE -> g_first g && blank_ws (strip_crlf l) = false ->
  gpg_step ws g l = (mkG false s_SAFE (g_pre g) (g_lines g ++ [strip_crlf l]) (g_post g), false).
Proof.
  intros Hl Hst Hfb. destruct (okraw_inv ws l Hl) as (_ & _ & Hb & Hg).
  unfold gpg_step. rewrite Hfb, Hg, Hst.
  replace (str_eqb s_SAFE s_SAFE) with true by reflexivity.
  now rewrite Hb.
Qed.

Lemma consume_okraw skip ws ab g l rest :
  okraw ws l = true -> g_state g = s_SAFE -> g_first g && blank_ws (strip_crlf l) = false ->
  consume skip ws ab g (l :: rest)
  = consume skip ws false (mkG false s_SAFE (g_pre g) (g_lines g ++ [strip_crlf l]) (g_post g)) rest.
Proof.
  intros Hl Hst Hfb. destruct (okraw_inv ws l Hl) as (Hc & Hn & _ & _).
  rewrite consume_cons', Hc, andb_false_r. rewrite Hn, andb_false_r.
  now rewrite gpg_step_okraw.
Qed.

Lemma consume_okraws skip ws ls : forall pre lines post,
  forallb (okraw ws) ls = true ->
  consume skip ws false (mkG false s_SAFE pre lines post) ls
  = (mkG false s_SAFE pre (lines ++ map strip_crlf ls) post, []).
Proof.
  induction ls as [|l ls IH]; intros pre lines post H.
  - cbn. now rewrite app_nil_r.
  - cbn [forallb] in H. apply andb_true_iff in H. destruct H as [Hl Hls].
    rewrite consume_okraw by (exact Hl || reflexivity). cbn [g_pre g_lines g_post].
    rewrite IH by exact Hls. cbn [map]. now rewrite <- app_assoc.
Qed.

(** the whole line list is one paragraph *)
Lemma consume_all skip ws l ls :
  forallb (okraw ws) (l :: ls) = true -> blank_ws (strip_crlf l) = false ->
  consume skip ws true gpg_init (l :: ls)
  = (mkG false s_SAFE [] (map strip_crlf (l :: ls)) [], []).
Proof.
  intros H Hb. cbn [forallb] in H. apply andb_true_iff in H. destruct H as [Hl Hls].
  rewrite consume_okraw; [|exact Hl|reflexivity|cbn [gpg_init g_first andb]; exact Hb].
  cbn [gpg_init g_pre g_lines g_post app]. now rewrite consume_okraws.
Qed.

(** * dict_set on a fresh key *)

Definition fresh (d : dict) (k : str) : bool :=
  forallb (fun k' => negb (key_eqb k' k)) (map fst d).

Lemma dict_set_fresh' d k v : fresh d k = true -> dict_set d k v = d ++ [(k, v)].
Proof.
  induction d as [|[k' v'] d IH]; [reflexivity|]. unfold fresh. cbn [map forallb fst]. intros H.
  apply andb_true_iff in H. destruct H as [H1 H2]. apply negb_true_iff in H1.
  cbn [dict_set]. rewrite H1. cbn [app]. f_equal. now apply IH.
Qed.

Lemma distinct_keys_fresh a k r :
  distinct_keys (a ++ k :: r) = true ->
  forallb (fun k' => negb (key_eqb k' k)) a = true.
Proof.
  induction a as [|x a IH]; [reflexivity|]. cbn [app distinct_keys]. intros H.
  apply andb_true_iff in H. destruct H as [H1 H2]. cbn [forallb]. rewrite (IH H2), andb_true_r.
  apply negb_true_iff in H1. apply negb_true_iff.
  rewrite map_app, existsb_app in H1. apply orb_false_iff in H1. destruct H1 as [_ H1].
  cbn [map existsb] in H1. apply orb_false_iff in H1. destruct H1 as [H1 _]. exact H1.
Qed.

(** * The field loop on an abstract paragraph *)

(** a field as the reader sees it: (name, text after the colon, continuation lines) *)
Definition pentry := (str * str * list str)%type.
Definition pkey (e : pentry) : str := fst (fst e).
Definition plines (e : pentry) : list str :=
  match e with (k, rest, conts) => (k ++ COLON :: rest) :: conts end.
Definition pentry_ok (e : pentry) : bool :=
  match e with (k, rest, conts) => key_ok k && piece_ok rest && forallb cont_ok conts end.
(** the value the reader assembles *)
Definition pvalue (e : pentry) : str :=
  match e with (k, rest, conts) => value_of (strip_by py_isspace rest) (filter kept_cont conts) end.
Definition ppara (es : list pentry) : dict := map (fun e => (pkey e, pvalue e)) es.

Lemma pentry_ok_inv k rest conts :
  pentry_ok (k, rest, conts) = true ->
  key_ok k = true /\ piece_ok rest = true /\ forallb cont_ok conts = true.
Proof.
  unfold pentry_ok. intros H. apply andb_true_iff in H. destruct H as [H H3].
  apply andb_true_iff in H. tauto.
Qed.

Lemma forallb_filter {A} (p q : A -> bool) l : forallb p l = true -> forallb p (filter q l) = true.
Proof.
  induction l as [|x l IH]; [reflexivity|]. cbn [forallb filter]. intros H.
  apply andb_true_iff in H. destruct H as [Hx Hl]. destruct (q x); [|now apply IH].
  cbn [forallb]. rewrite Hx. now apply IH.
Qed.

Lemma pvalue_valid e : pentry_ok e = true -> validate_input (pvalue e) = Ok tt.
Proof.
  destruct e as [[k rest] conts]. intros H. destruct (pentry_ok_inv _ _ _ H) as (_ & Hr & Hc).
  apply validate_value; [now apply piece_ok_strip|now apply forallb_filter].
Qed.

Lemma fields_loop_conts' cs : forall d ck content rest,
  forallb cont_ok cs = true ->
  fields_loop d ck content (cs ++ rest)
  = fields_loop d ck (content ++ concat (map (cons LF) (filter kept_cont cs))) rest.
Proof.
  induction cs as [|l cs IH]; intros d ck content rest H.
  - cbn. now rewrite app_nil_r.
  - cbn [forallb] in H. apply andb_true_iff in H. destruct H as [Hl Hcs].
    destruct (cont_not_field l Hl) as (H1 & H2). pose proof (match_multidata_cont l Hl) as H3.
    cbn [app fields_loop filter]. rewrite H1, H2.
    destruct (match_multidata l) as [dd|]; rewrite <- H3.
    + rewrite IH by exact Hcs. cbn [map concat]. now rewrite <- app_assoc.
    + now rewrite IH by exact Hcs.
Qed.

Lemma fields_loop_entry e d ck content more :
  pentry_ok e = true ->
  fields_loop d ck content (plines e ++ more)
  = do d' <- flush d ck content; fields_loop d' (Some (pkey e)) (pvalue e) more.
Proof.
  destruct e as [[k rest] conts]. intros H. destruct (pentry_ok_inv _ _ _ H) as (Hk & Hr & Hc).
  cbn [plines app fields_loop pkey pvalue fst].
  destruct (dropwhile py_isspace rest) as [|c r] eqn:Hd.
  - destruct (match_single_head_blank k rest Hk Hd) as [H1 H2]. rewrite H1, H2.
    destruct (flush d ck content) as [d'|e]; [|reflexivity]. cbn [bind].
    rewrite fields_loop_conts' by exact Hc. rewrite (strip_by_blank _ _ Hd). reflexivity.
  - destruct (piece_ok_inv _ Hr) as (Hlf & _).
    rewrite (match_single_head k rest c r Hk Hlf Hd).
    destruct (flush d ck content) as [d'|e]; [|reflexivity]. cbn [bind].
    rewrite fields_loop_conts' by exact Hc. reflexivity.
Qed.

Lemma flush_fresh' d k v :
  key_ok k = true -> fresh d k = true -> validate_input v = Ok tt ->
  flush d (Some k) v = Ok (d ++ [(k, v)]).
Proof.
  intros Hk Hfr Hv. destruct (key_ok_inv k Hk) as (c & r & -> & _).
  unfold flush, setitem. rewrite Hv. cbn [bind]. now rewrite dict_set_fresh'.
Qed.

Lemma fields_loop_pending es : forall d k0 v0,
  forallb pentry_ok es = true -> key_ok k0 = true -> validate_input v0 = Ok tt ->
  distinct_keys (map fst d ++ k0 :: map pkey es) = true ->
  fields_loop d (Some k0) v0 (concat (map plines es)) = Ok (d ++ (k0, v0) :: ppara es).
Proof.
  induction es as [|e es IH]; intros d k0 v0 Hes Hk0 Hv0 Hd.
  - cbn [map concat fields_loop ppara]. apply flush_fresh'; try assumption.
    unfold fresh. eapply distinct_keys_fresh. exact Hd.
  - cbn [forallb] in Hes. apply andb_true_iff in Hes. destruct Hes as [He Hes].
    cbn [map concat]. rewrite fields_loop_entry by exact He.
    rewrite flush_fresh'; try assumption.
    2:{ unfold fresh. eapply distinct_keys_fresh. exact Hd. }
    cbn [bind]. rewrite IH; try assumption.
    + cbn [ppara map]. now rewrite <- app_assoc.
    + destruct e as [[k rest] conts]. now destruct (pentry_ok_inv _ _ _ He).
    + now apply pvalue_valid.
    + rewrite map_app. cbn [map fst]. rewrite <- app_assoc. exact Hd.
Qed.

Theorem fields_loop_para es :
  forallb pentry_ok es = true -> distinct_keys (map pkey es) = true ->
  fields_loop [] None [] (concat (map plines es)) = Ok (ppara es).
Proof.
  intros Hes Hd. destruct es as [|e es]; [reflexivity|].
  cbn [forallb] in Hes. apply andb_true_iff in Hes. destruct Hes as [He Hes].
  cbn [map concat]. rewrite fields_loop_entry by exact He. cbn [flush bind].
  rewrite fields_loop_pending; try assumption; [reflexivity| |now apply pvalue_valid].
  destruct e as [[k rest] conts]. now destruct (pentry_ok_inv _ _ _ He).
Qed.

(** * One paragraph from the iterator, and the iteration *)

Lemma head_line_not_blank k rest : key_ok k = true -> blank_ws (k ++ COLON :: rest) = false.
Proof.
  intros Hk. destruct (key_ok_inv k Hk) as (c & r & -> & _ & Hkc).
  cbn [forallb] in Hkc. apply andb_true_iff in Hkc. destruct Hkc as [Hc _].
  unfold blank_ws. cbn [app forallb]. now rewrite (key_char_not_space _ Hc).
Qed.

(** [raw]: the lines as the iterator yields them (line ends still on, in the
    file-object form); stripped of CR/LF at both ends they are the lines of [es] *)
Theorem iter_lines_para ws es raw :
  es <> [] -> forallb pentry_ok es = true -> distinct_keys (map pkey es) = true ->
  map strip_crlf raw = concat (map plines es) ->
  forallb (okraw ws) raw = true ->
  iter_lines CDeb822 ws raw = Ok [ppara es].
Proof.
  intros Hne Hes Hd Hraw Hok.
  pose proof (fields_loop_para es Hes Hd) as Hfl.
  destruct es as [|e es]; [congruence|].
  assert (Hb : exists l ls, concat (map plines (e :: es)) = l :: ls /\ blank_ws l = false).
  { destruct e as [[k rest] conts]. cbn [map concat plines app]. eexists _, _. split; [reflexivity|].
    apply head_line_not_blank. cbn [forallb] in Hes. apply andb_true_iff in Hes. destruct Hes as [He _].
    now destruct (pentry_ok_inv _ _ _ He). }
  destruct Hb as (l & ls & El & Hbl). rewrite El in *.
  destruct raw as [|r0 raw]; [discriminate|]. cbn [map] in Hraw. injection Hraw as Hr0 Hraw.
  unfold iter_lines. cbn [length iter_loop init_of]. unfold deb822_init at 1.
  rewrite consume_all; [|exact Hok|now rewrite Hr0].
  cbn [g_lines map]. rewrite Hr0, Hraw, Hfl. cbn [bind ppara map].
  destruct raw as [|r1 raw]; cbn [length iter_loop init_of]; unfold deb822_init; cbn; reflexivity.
Qed.
