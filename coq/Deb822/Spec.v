(** SPEC side of C02 / C08: the reference the properties are stated against.
    Nothing here mentions the model (Deb822/Model.v).

    C02: the reference is the field list itself ([expected_para]: same names,
    same order, same values with the first line trimmed) over the domain
    [valid_para].  C08: an association list with case-insensitive keys
    ([spec_set]) and the three rejection reasons written independently of
    str.splitlines ([spec_rejects]). *)
From Verif Require Import Lib.Base Lib.PyStr Gen.PyChars.

(** * C02 domain *)

(** Debian Policy 5.1: a field name is US-ASCII 33..126 except ':' and does not
    begin with '#' or '-'. *)
Definition name_char (c : N) : bool := (33 <=? c)%N && (c <=? 126)%N && negb (c =? 58)%N.
Definition valid_name (k : str) : bool :=
  match k with
  | [] => false
  | c :: _ => negb (c =? 35)%N && negb (c =? 45)%N && forallb name_char k
  end.

(** no character that any Python line splitter treats as a boundary *)
Definition no_linebreak (l : str) : bool := forallb (fun c => negb (py_islinebreak c)) l.

Definition is_sp_tab (c : N) : bool := (c =? SP)%N || (c =? TAB)%N.

(** a continuation line: starts with space/tab, has a non-blank character *)
Definition valid_cont (l : str) : bool :=
  match l with
  | c :: _ => is_sp_tab c && existsb (fun x => negb (bytes_isspace x)) l && no_linebreak l
  | [] => false
  end.

(** A field as (name, first line, continuation lines); its value is
    first ++ "\n" ++ cont1 ++ "\n" ++ cont2 ... *)
Definition sfield := (str * str * list str)%type.
Definition spara := list sfield.

Definition value_of (first : str) (conts : list str) : str :=
  first ++ concat (map (cons LF) conts).

Definition valid_sfield (f : sfield) : bool :=
  match f with (k, first, conts) => valid_name k && no_linebreak first && forallb valid_cont conts end.

Fixpoint distinct_keys (ks : list str) : bool :=
  match ks with
  | [] => true
  | k :: ks' => negb (existsb (str_eqb (ascii_lower k)) (map ascii_lower ks')) && distinct_keys ks'
  end.

Definition sname (f : sfield) : str := fst (fst f).

Definition valid_spara (p : spara) : bool :=
  forallb valid_sfield p && distinct_keys (map sname p).

(** what the mapping holds when built by assignment *)
Definition para_of (p : spara) : list (str * str) :=
  map (fun f => match f with (k, first, conts) => (k, value_of first conts) end) p.

(** what reading back must give: first line trimmed (Python whitespace) *)
Definition expected_of (p : spara) : list (str * str) :=
  map (fun f => match f with (k, first, conts) => (k, value_of (strip_by py_isspace first) conts) end) p.

(** The same on (name, value) pairs: the value is cut at its first LF. *)
Definition trim_value (v : str) : str :=
  match split_on_first LF v with
  | (first, None) => strip_by py_isspace first
  | (first, Some rest) => strip_by py_isspace first ++ LF :: rest
  end.

Definition expected_para (d : list (str * str)) : list (str * str) :=
  map (fun kv => (fst kv, trim_value (snd kv))) d.

Definition valid_value (v : str) : bool :=
  match split_on LF v with
  | first :: conts => no_linebreak first && forallb valid_cont conts
  | [] => false
  end.

Definition valid_para (d : list (str * str)) : bool :=
  forallb (fun kv => valid_name (fst kv) && valid_value (snd kv)) d
  && distinct_keys (map fst d).

(** * Documents *)

(** text of a list of lines, each terminated by LF *)
Definition unlines (ls : list str) : str := concat (map (fun l => l ++ [LF]) ls).

Definition is_comment (l : str) : bool := startswith [35%N] l.

(** * The lines of a dumped paragraph, as Policy 5.1 writes them
    ("Name: first line", then the continuation lines as they are; no blank after
    the colon when the first line is empty). *)
Definition head_line (k first : str) : str :=
  k ++ 58%N :: match first with [] => [] | _ => SP :: first end.
Definition sfield_lines (f : sfield) : list str :=
  match f with (k, first, conts) => head_line k first :: conts end.
Definition spara_lines (p : spara) : list str := concat (map sfield_lines p).

(** (name, value) -> (name, first line, continuation lines) *)
Definition sfield_of (kv : str * str) : sfield :=
  match split_on LF (snd kv) with
  | first :: conts => (fst kv, first, conts)
  | [] => (fst kv, [], [])
  end.

(** * Documents as line lists (the property's quantifier)

    A blank separator line: empty, or spaces/tabs when whitespace separates
    paragraphs ([ws = true], the default).  Initial blank lines of a paragraph
    may always contain spaces/tabs. *)
Definition ws_line (l : str) : bool := forallb is_sp_tab l.
Definition sep_line (ws : bool) (l : str) : bool := if ws then ws_line l else match l with [] => true | _ => false end.
(** a separator block: at least one line; the first one ends the paragraph *)
Definition valid_seps (ws : bool) (seps : list str) : bool :=
  match seps with
  | [] => false
  | s :: more => sep_line ws s && forallb ws_line more
  end.

Definition s_begin_signed : str :=
  [45;45;45;45;45;66;69;71;73;78;32;80;71;80;32;83;73;71;78;69;68;32;77;69;83;83;65;71;69;45;45;45;45;45]%N.
Definition s_begin_signature : str :=
  [45;45;45;45;45;66;69;71;73;78;32;80;71;80;32;83;73;71;78;65;84;85;82;69;45;45;45;45;45]%N.
Definition s_end_signature : str :=
  [45;45;45;45;45;69;78;68;32;80;71;80;32;83;73;71;78;65;84;85;82;69;45;45;45;45;45]%N.

(** trailing blanks tolerated on an armour line: CR is a line boundary for the
    str/bytes forms, so only spaces and tabs *)
Definition armor_pad (w : str) : bool := forallb is_sp_tab w.

(** an armour header line ("Hash: SHA256") or signature line (base64): any text
    that is not blank and does not begin like an armour line *)
Definition s_dashes5 : str := [45;45;45;45;45]%N.
Definition armor_text_line (l : str) : bool :=
  no_linebreak l && negb (forallb bytes_isspace l) && negb (startswith s_dashes5 l).
(** signature lines may also be blank *)
Definition sig_line (l : str) : bool := no_linebreak l && negb (startswith s_dashes5 l).

Record armor := mkArmor {
  a_w1 : str; a_w2 : str; a_w3 : str;      (* padding after the three armour lines *)
  a_hdr : list str;                         (* header lines *)
  a_blank : str;                            (* the blank line that ends the header *)
  a_sig : list str;                         (* lines between BEGIN/END PGP SIGNATURE *)
}.

Definition valid_armor (ws : bool) (a : armor) : bool :=
  armor_pad (a_w1 a) && armor_pad (a_w2 a) && armor_pad (a_w3 a)
  && forallb armor_text_line (a_hdr a) && sep_line ws (a_blank a) && forallb sig_line (a_sig a).

(** the clearsign envelope around the lines [body] *)
Definition armor_head (a : armor) : list str :=
  (s_begin_signed ++ a_w1 a) :: a_hdr a ++ [a_blank a].
Definition armor_tail (a : armor) : list str :=
  (s_begin_signature ++ a_w2 a) :: a_sig a ++ [s_end_signature ++ a_w3 a].
Definition armor_lines (a : armor) (body : list str) : list str :=
  armor_head a ++ body ++ armor_tail a.

(** the lines of a paragraph given as (name, value) pairs *)
Definition para_lines (d : list (str * str)) : list str := spara_lines (map sfield_of d).

(** One paragraph of a document with what surrounds it: an optional clearsign
    envelope, then the blank lines that follow. *)
Record block := mkBlock {
  b_para : list (str * str);
  b_armor : option armor;
  b_seps : list str;
}.

Definition wrap_lines (oa : option armor) (body : list str) : list str :=
  match oa with None => body | Some a => armor_lines a body end.

Definition block_lines (b : block) : list str :=
  wrap_lines (b_armor b) (para_lines (b_para b)) ++ b_seps b.

Definition is_nil' {A} (l : list A) : bool := match l with [] => true | _ => false end.

(** [last]: nothing follows the block, so an unsigned paragraph needs no
    separator.  A signed paragraph ends at its END line: separators optional. *)
Definition valid_block (ws last : bool) (b : block) : bool :=
  valid_para (b_para b) && negb (is_nil' (b_para b))
  && match b_armor b with
     | None => valid_seps ws (b_seps b) || (last && is_nil' (b_seps b))
     | Some a => valid_armor ws a && forallb ws_line (b_seps b)
     end.

Fixpoint valid_blocks (ws : bool) (bs : list block) : bool :=
  match bs with
  | [] => true
  | b :: bs' => valid_block ws (is_nil' bs') b && valid_blocks ws bs'
  end.

(** a document: optional leading blank lines, then the blocks *)
Definition doc_lines (lead : list str) (bs : list block) : list str :=
  lead ++ concat (map block_lines bs).

(** text of a list of lines with a chosen line end *)
Definition unlines_with (eol : str) (ls : list str) : str := concat (map (fun l => l ++ eol) ls).
Definition eol_of (crlf : bool) : str := if crlf then [CR; LF] else [LF].

Definition not_comment (l : str) : bool := negb (is_comment l).

(** * Documents with comment lines, structurally (Dsc/Changes, see Deb822/ProofsGpgMv.v)

    Between blocks there is a gap: comment lines and blank lines in any order
    (so also whole blocks of comment lines closed by blank lines).  Inside a
    block comment lines may stand anywhere among the paragraph's lines
    ([cb_body], whose non-comment lines are the paragraph's) and among the
    armour's header and signature lines (both [armor_text_line] and [sig_line]
    accept them).  A blank line of a gap may contain spaces/tabs under either
    strictness; only the line that ends an unsigned paragraph must be a
    [sep_line]. *)
Definition comment_line (l : str) : bool := is_comment l && no_linebreak l.
Definition gap_line (l : str) : bool := comment_line l || ws_line l.

Record cblock := mkCBlock {
  cb_para : list (str * str);
  cb_body : list str;
  cb_armor : option armor;
  cb_gap : list str;
}.

Definition cblock_lines (cb : cblock) : list str :=
  wrap_lines (cb_armor cb) (cb_body cb) ++ cb_gap cb.

(** an unsigned paragraph ends at a blank line (or at the end of the input) *)
Definition valid_cblock (ws last : bool) (cb : cblock) : bool :=
  valid_para (cb_para cb) && negb (is_nil' (cb_para cb))
  && forallb no_linebreak (cb_body cb)
  && strs_eqb (filter not_comment (cb_body cb)) (para_lines (cb_para cb))
  && forallb gap_line (cb_gap cb)
  && match cb_armor cb with
     | None => match cb_gap cb with [] => last | s :: _ => sep_line ws s end
     | Some a => valid_armor ws a
     end.

Fixpoint valid_cblocks (ws : bool) (cbs : list cblock) : bool :=
  match cbs with
  | [] => true
  | cb :: cbs' => valid_cblock ws (is_nil' cbs') cb && valid_cblocks ws cbs'
  end.

(** leading gap, then the blocks *)
Definition cdoc_lines (lead : list str) (cbs : list cblock) : list str :=
  lead ++ concat (map cblock_lines cbs).

(** * C08 *)

Fixpoint spec_set (d : list (str * str)) (k v : str) : list (str * str) :=
  match d with
  | [] => [(k, v)]
  | (k', v') :: d' =>
      if str_eqb (ascii_lower k') (ascii_lower k) then (k', v) :: d'
      else (k', v') :: spec_set d' k v
  end.

(** C08's alphabet: printable text, ':', '#', space, tab, CR, LF - i.e. anything
    except the other characters Python treats as whitespace or line boundaries. *)
Definition c08_char (c : N) : bool :=
  (c =? LF)%N || (c =? CR)%N || (c =? TAB)%N || (c =? SP)%N
  || negb (py_isspace c || py_islinebreak c).
Definition c08_dom (v : str) : bool := forallb c08_char v.

(** Lines of a control-file text: CRLF, CR and LF each end a line.  Written
    without reference to splitlines: CRLF -> LF, CR -> LF, then cut at LF. *)
Fixpoint norm_eol (s : str) : str :=
  match s with
  | [] => []
  | c :: s' =>
    if (c =? CR)%N then
      match s' with
      | d :: s'' => if (d =? LF)%N then LF :: norm_eol s'' else LF :: norm_eol s'
      | [] => [LF]
      end
    else c :: norm_eol s'
  end.

(** continuation lines of a value: all lines after the first; a final line end
    does not open another line *)
Definition cont_lines (v : str) : list str :=
  match rev (split_on LF (norm_eol v)) with
  | [] :: r => tl (rev r)
  | r => tl (rev r)
  end.

(** The three reasons for which the property says a value is rejected. *)
Definition spec_rejects (v : str) : bool :=
  endswith [LF] v
  || existsb (fun l => match l with [] => true | c :: _ => negb (is_sp_tab c) end)
             (cont_lines v).

(** "no continuation line is blank" *)
Definition no_blank_cont (v : str) : bool :=
  forallb (fun l => negb (forallb bytes_isspace l)) (cont_lines v).
