(** SPEC side of C02 / C08: the reference the properties are stated against.
    Nothing here mentions the model (Deb822/Model.v).

    C02: the reference is the field list itself ([expected_para]: same names,
    same order, same values with the first line trimmed) over the domain
    [valid_para].  C08: an association list with case-insensitive keys
    ([spec_set]) and the three rejection reasons written independently of
    str.splitlines ([spec_rejects]). *)
From Verif Require Import Lib.Base Lib.PyStr Gen.PyChars.

(** * C02 domain *)

(** Debian Policy 5.1: a field name is US-ASCII 33..126 except ':' and does not
    begin with '#' or '-'. *)
Definition name_char (c : N) : bool := (33 <=? c)%N && (c <=? 126)%N && negb (c =? 58)%N.
Definition valid_name (k : str) : bool :=
  match k with
  | [] => false
  | c :: _ => negb (c =? 35)%N && negb (c =? 45)%N && forallb name_char k
  end.

(** no character that any Python line splitter treats as a boundary *)
Definition no_linebreak (l : str) : bool := forallb (fun c => negb (py_islinebreak c)) l.

Definition is_sp_tab (c : N) : bool := (c =? SP)%N || (c =? TAB)%N.

(** a continuation line: starts with space/tab, has a non-blank character *)
Definition valid_cont (l : str) : bool :=
  match l with
  | c :: _ => is_sp_tab c && existsb (fun x => negb (bytes_isspace x)) l && no_linebreak l
  | [] => false
  end.

(** A field as (name, first line, continuation lines); its value is
    first ++ "\n" ++ cont1 ++ "\n" ++ cont2 ... *)
Definition sfield := (str * str * list str)%type.
Definition spara := list sfield.

Definition value_of (first : str) (conts : list str) : str :=
  first ++ concat (map (cons LF) conts).

Definition valid_sfield (f : sfield) : bool :=
  match f with (k, first, conts) => valid_name k && no_linebreak first && forallb valid_cont conts end.

Fixpoint distinct_keys (ks : list str) : bool :=
  match ks with
  | [] => true
  | k :: ks' => negb (existsb (str_eqb (ascii_lower k)) (map ascii_lower ks')) && distinct_keys ks'
  end.

Definition sname (f : sfield) : str := fst (fst f).

Definition valid_spara (p : spara) : bool :=
  forallb valid_sfield p && distinct_keys (map sname p).

(** what the mapping holds when built by assignment *)
Definition para_of (p : spara) : list (str * str) :=
  map (fun f => match f with (k, first, conts) => (k, value_of first conts) end) p.

(** what reading back must give: first line trimmed (Python whitespace) *)
Definition expected_of (p : spara) : list (str * str) :=
  map (fun f => match f with (k, first, conts) => (k, value_of (strip_by py_isspace first) conts) end) p.

(** The same on (name, value) pairs: the value is cut at its first LF. *)
Definition trim_value (v : str) : str :=
  match split_on_first LF v with
  | (first, None) => strip_by py_isspace first
  | (first, Some rest) => strip_by py_isspace first ++ LF :: rest
  end.

Definition expected_para (d : list (str * str)) : list (str * str) :=
  map (fun kv => (fst kv, trim_value (snd kv))) d.

Definition valid_value (v : str) : bool :=
  match split_on LF v with
  | first :: conts => no_linebreak first && forallb valid_cont conts
  | [] => false
  end.

Definition valid_para (d : list (str * str)) : bool :=
  forallb (fun kv => valid_name (fst kv) && valid_value (snd kv)) d
  && distinct_keys (map fst d).

(** * Documents *)

(** text of a list of lines, each terminated by LF *)
Definition unlines (ls : list str) : str := concat (map (fun l => l ++ [LF]) ls).

Definition is_comment (l : str) : bool := startswith [35%N] l.

(** * C08 *)

Fixpoint spec_set (d : list (str * str)) (k v : str) : list (str * str) :=
  match d with
  | [] => [(k, v)]
  | (k', v') :: d' =>
      if str_eqb (ascii_lower k') (ascii_lower k) then (k', v) :: d'
      else (k', v') :: spec_set d' k v
  end.

(** C08's alphabet: printable text, ':', '#', space, tab, CR, LF - i.e. anything
    except the other characters Python treats as whitespace or line boundaries. *)
Definition c08_char (c : N) : bool :=
  (c =? LF)%N || (c =? CR)%N || (c =? TAB)%N || (c =? SP)%N
  || negb (py_isspace c || py_islinebreak c).
Definition c08_dom (v : str) : bool := forallb c08_char v.

(** Lines of a control-file text: CRLF, CR and LF each end a line.  Written
    without reference to splitlines: CRLF -> LF, CR -> LF, then cut at LF. *)
Fixpoint norm_eol (s : str) : str :=
  match s with
  | [] => []
  | c :: s' =>
    if (c =? CR)%N then
      match s' with
      | d :: s'' => if (d =? LF)%N then LF :: norm_eol s'' else LF :: norm_eol s'
      | [] => [LF]
      end
    else c :: norm_eol s'
  end.

(** continuation lines of a value: all lines after the first; a final line end
    does not open another line *)
Definition cont_lines (v : str) : list str :=
  match rev (split_on LF (norm_eol v)) with
  | [] :: r => tl (rev r)
  | r => tl (rev r)
  end.

(** The three reasons for which the property says a value is rejected. *)
Definition spec_rejects (v : str) : bool :=
  endswith [LF] v
  || existsb (fun l => match l with [] => true | c :: _ => negb (is_sp_tab c) end)
             (cont_lines v).

(** "no continuation line is blank" *)
Definition no_blank_cont (v : str) : bool :=
  forallb (fun l => negb (forallb bytes_isspace l)) (cont_lines v).
