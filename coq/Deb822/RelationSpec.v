(** SPEC for C13 — "package relationship fields: format and parse are inverse".

    The property is a round trip, so its reference is the identity; what the
    spec has to fix is the DOMAIN — which structures count as relationship
    structures — and what "inverse" is judged on.  Both are written here from the
    property text and the documentation of [PkgRelation] / Debian Policy 7.1 and
    the build-profile specification, with their own character classes (plain
    code-point ranges and the interpreter's tables of Gen/PyChars.v), not with the
    scanner of Deb822/Relation.v:

      * a relationship field is a non-empty conjunction (", ") of non-empty
        alternatives (" | ") of atoms;
      * an atom has a package name ([a-zA-Z0-9] then [a-zA-Z0-9.+-]...),
        optionally an architecture qualifier after ':' ([a-zA-Z0-9] then
        [a-zA-Z0-9-]...), optionally a version constraint (a non-empty operator over
        the characters < = > — the five operators << <= = >= >> are instances — and a
        non-empty version over [0-9a-zA-Z:+~.-]), optionally a NON-EMPTY list of
        plain or negated architecture names, optionally a NON-EMPTY restriction
        formula of NON-EMPTY groups of plain or negated profile names;
      * an architecture name is non-empty, consists of word characters (Python's \w),
        '-' and '!', contains no blank, and a plain (not negated) one does not begin
        with '!' (the '!' is the negation mark);
      * a profile name is non-empty ASCII, lower-case (the parser lower-cases the
        formula), contains no blank and none of < > , | and a plain one does not
        begin with '!'.

    Only the structure type [rel] is shared with the model. *)
From Verif Require Import Lib.Base Lib.PyStr Gen.PyChars Deb822.Relation.

Definition in_range (lo hi c : N) : bool := ((lo <=? c) && (c <=? hi))%N.
Definition sp_alnum (c : N) : bool := in_range 48 57 c || in_range 65 90 c || in_range 97 122 c.

Definition sp_name_char (c : N) : bool := sp_alnum c || in_chars [43; 45; 46]%N c.        (* + - . *)
Definition sp_archqual_char (c : N) : bool := sp_alnum c || (c =? 45)%N.
Definition sp_relop_char (c : N) : bool := in_chars [60; 61; 62]%N c.                      (* < = > *)
Definition sp_version_char (c : N) : bool := sp_alnum c || in_chars [43; 45; 46; 58; 126]%N c.   (* + - . : ~ *)
Definition sp_arch_char (c : N) : bool :=
  (re_w c || in_chars [33; 45]%N c) && negb (py_isspace c).                                 (* \w ! - *)
Definition sp_profile_char (c : N) : bool :=
  (c <? 128)%N && negb (py_isspace c) && negb (in_chars [60; 62; 44; 124]%N c)              (* < > , | *)
  && negb (in_range 65 90 c).

(** first character by [first], the others by [other]; not empty *)
Definition headed (first other : N -> bool) (s : str) : bool :=
  match s with c :: t => first c && forallb other t | [] => false end.
Definition nonempty_of (p : N -> bool) (s : str) : bool := headed p p s.

Definition wf_name : str -> bool := headed sp_alnum sp_name_char.
Definition wf_archqual : str -> bool := headed sp_alnum sp_archqual_char.
Definition wf_relop : str -> bool := nonempty_of sp_relop_char.
Definition wf_version : str -> bool := nonempty_of sp_version_char.

(** a plain or negated name: non-empty, all characters allowed, and a plain one
    does not begin with the negation mark *)
Definition wf_signed (p : N -> bool) (t : term) : bool :=
  match snd t with
  | c :: _ => forallb p (snd t) && negb (fst t && (c =? 33)%N)
  | [] => false
  end.
Definition wf_arch : term -> bool := wf_signed sp_arch_char.
Definition wf_profile : term -> bool := wf_signed sp_profile_char.

Definition nonempty_all {A} (p : A -> bool) (l : list A) : bool :=
  match l with [] => false | _ => forallb p l end.

Definition opt_ok {A} (p : A -> bool) (o : option A) : bool :=
  match o with Some a => p a | None => true end.

Definition wf_rel (d : rel) : bool :=
  wf_name (r_name d)
  && opt_ok wf_archqual (r_archqual d)
  && opt_ok (fun ov => wf_relop (fst ov) && wf_version (snd ov)) (r_version d)
  && opt_ok (nonempty_all wf_arch) (r_arch d)
  && opt_ok (nonempty_all (nonempty_all wf_profile)) (r_restr d).

(** the domain of the property *)
Definition wf_rels (rels : list (list rel)) : bool :=
  nonempty_all (nonempty_all wf_rel) rels.

(** The five relational operators are operators. *)
Definition five_operators : list str := [[60; 60]; [60; 61]; [61]; [62; 61]; [62; 62]]%N.

(** ** Equality of structures *)
Definition term_eqb (a b : term) : bool := Bool.eqb (fst a) (fst b) && str_eqb (snd a) (snd b).
Definition rel_eqb (a b : rel) : bool :=
  str_eqb (r_name a) (r_name b)
  && option_eqb str_eqb (r_archqual a) (r_archqual b)
  && option_eqb (pair_eqb str_eqb str_eqb) (r_version a) (r_version b)
  && option_eqb (list_eqb term_eqb) (r_arch a) (r_arch b)
  && option_eqb (list_eqb (list_eqb term_eqb)) (r_restr a) (r_restr b).
Definition rels_eqb : list (list rel) -> list (list rel) -> bool := list_eqb (list_eqb rel_eqb).

(** ** What "inverse" is judged on.
    Given the structure, the string the formatter produced for it, what the parser
    returned for that string (structure and number of warnings, or an exception)
    and what the formatter produced for the parsed structure: the parse is the
    identical structure, no warning was emitted, the second string is the first. *)
Definition roundtrip_ok (rels : list (list rel)) (s1 : str)
    (parsed : result (list (list rel) * N)) (s2 : option str) : bool :=
  match parsed with
  | Ok (rels', warnings) =>
      rels_eqb rels' rels && (warnings =? 0)%N
      && match s2 with Some s => str_eqb s s1 | None => false end
  | Err _ => false
  end.
