(** C02 proofs, part 3: the theorems of the property, assembled from
    ProofsStr (strings), ProofsParse (field loop, dump) and ProofsConsume (line
    reader, envelopes, line ends, fuel). *)
From Coq Require Import Lia ZifyBool.
From Verif Require Import Lib.Base Lib.PyStr Gen.PyChars Deb822.Model Deb822.Spec
  Deb822.ProofsStr Deb822.ProofsParse Deb822.ProofsConsume.

Local Open Scope N_scope.

(** * The lines of a valid paragraph are safe lines *)

Lemma name_char_not_lb c : name_char c = true -> py_islinebreak c = false.
Proof.
  unfold name_char, py_islinebreak, py_linebreaks. cbn [existsb]. lia.
Qed.

Lemma valid_name_no_linebreak k : valid_name k = true -> no_linebreak k = true.
Proof.
  intros H. destruct (valid_name_inv k H) as (c & r & -> & _ & _ & Hn).
  eapply forallb_impl; [|exact Hn]. intros x Hx. now rewrite (name_char_not_lb _ Hx).
Qed.

Lemma head_line_safe k first :
  valid_name k = true -> no_linebreak first = true -> safe_line (head_line k first) = true.
Proof.
  intros Hk Hf. pose proof (valid_name_no_linebreak k Hk) as Hkl.
  destruct (valid_name_inv k Hk) as (c & r & -> & H35 & H45 & Hn).
  unfold safe_line. rewrite head_line_eq.
  assert (H1 : no_linebreak ((c :: r) ++ COLON :: after_colon first) = true).
  { rewrite no_linebreak_app, Hkl. rewrite no_linebreak_cons. cbn [andb].
    replace (py_islinebreak COLON) with false by reflexivity. cbn [negb andb].
    destruct first; [reflexivity|]. cbn [after_colon]. rewrite no_linebreak_cons.
    replace (py_islinebreak SP) with false by reflexivity. exact Hf. }
  rewrite H1. cbn [forallb] in Hn. apply andb_true_iff in Hn. destruct Hn as [Hc _].
  cbn [app startswith blank_ws forallb]. unfold HASH, s_dashes. cbn [startswith].
  rewrite (N.eqb_sym 35 c), H35, (N.eqb_sym 45 c), H45, (name_char_not_space _ Hc). reflexivity.
Qed.

Lemma cont_line_safe l : valid_cont l = true -> safe_line l = true.
Proof.
  intros H. destruct (valid_cont_inv l H) as (c & r & -> & Hc & Hex & Hnl).
  unfold safe_line. rewrite Hnl.
  assert (Hb : blank_ws (c :: r) = false).
  { unfold blank_ws. cbn [forallb]. rewrite (sp_tab_bytes_space _ Hc). cbn [andb].
    destruct (forallb bytes_isspace r) eqn:E; [|reflexivity].
    rewrite forallb_forall in E. apply existsb_exists in Hex. destruct Hex as (x & Hx & Hnx).
    rewrite (E x Hx) in Hnx. discriminate. }
  rewrite Hb. unfold HASH, s_dashes. cbn [startswith].
  unfold is_sp_tab in Hc. apply orb_true_iff in Hc.
  destruct Hc as [Hc|Hc]; apply N.eqb_eq in Hc; subst c; reflexivity.
Qed.

Lemma sfield_lines_safe f : valid_sfield f = true -> forallb safe_line (sfield_lines f) = true.
Proof.
  destruct f as [[k first] conts]. unfold valid_sfield. intros H.
  apply andb_true_iff in H. destruct H as [H Hc]. apply andb_true_iff in H. destruct H as [Hk Hf].
  cbn [sfield_lines forallb]. rewrite head_line_safe by assumption. cbn [andb].
  eapply forallb_impl; [|exact Hc]. apply cont_line_safe.
Qed.

Lemma spara_lines_safe p : forallb valid_sfield p = true -> forallb safe_line (spara_lines p) = true.
Proof.
  induction p as [|f p IH]; [reflexivity|]. cbn [forallb]. intros H.
  apply andb_true_iff in H. destruct H as [Hf Hp]. unfold spara_lines. cbn [map concat].
  rewrite forallb_app. rewrite sfield_lines_safe by exact Hf. now apply IH.
Qed.

Lemma safe_line_no_linebreak l : safe_line l = true -> no_linebreak l = true.
Proof. intros H. now destruct (safe_line_inv l H). Qed.

Lemma valid_para_fields d : valid_para d = true -> forallb valid_sfield (map sfield_of d) = true.
Proof.
  rewrite valid_para_sfields. unfold valid_spara. intros H. apply andb_true_iff in H. tauto.
Qed.

Lemma para_lines_safe d : valid_para d = true -> forallb safe_line (para_lines d) = true.
Proof. intros H. apply spara_lines_safe. now apply valid_para_fields. Qed.

Lemma para_lines_nonnil d : d <> [] -> para_lines d <> [].
Proof.
  destruct d as [|kv d]; [congruence|]. intros _. unfold para_lines, spara_lines. cbn [map concat].
  destruct (sfield_of kv) as [[k first] conts]. discriminate.
Qed.

(** dump() writes exactly those lines *)
Theorem dump_lines d : valid_para d = true -> dump d = unlines (para_lines d).
Proof.
  intros H. rewrite <- (para_of_sfields d) at 1. apply dump_para_of. now apply valid_para_fields.
Qed.

(** _internal_parser's loop on them gives the fields back, first lines trimmed *)
Theorem fields_loop_para d :
  valid_para d = true -> fields_loop [] None [] (para_lines d) = Ok (expected_para d).
Proof.
  intros H. unfold para_lines. rewrite fields_loop_spara by now rewrite <- valid_para_sfields.
  f_equal. apply expected_of_sfields. now apply valid_para_fields.
Qed.

(** * One paragraph read from the iterator *)

Lemma deb822_init_payload ws (P : list str) d :
  valid_para d = true -> d <> [] -> P = para_lines d ->
  fst (deb822_init ws P) = Ok (expected_para d).
Proof.
  intros Hv Hne ->. pose proof (para_lines_safe d Hv) as Hs. pose proof (para_lines_nonnil d Hne) as Hn.
  unfold deb822_init. destruct (para_lines d) as [|l ls] eqn:E; [congruence|].
  pose proof (consume_plain_end true ws [] l ls eq_refl Hs) as Hc. cbn [app] in Hc. rewrite Hc.
  cbn [g_lines fst]. rewrite <- E. now apply fields_loop_para.
Qed.

Lemma lines_init (lines rest : list str) d :
  valid_para d = true -> d <> [] -> lines = para_lines d ->
  match lines with
  | [] => (Ok [], rest)
  | l0 :: ls0 => (fields_loop [] None [] (l0 :: ls0), rest)
  end = (Ok (expected_para d), rest).
Proof.
  intros Hv Hne ->. pose proof (para_lines_nonnil d Hne) as Hn.
  destruct (para_lines d) as [|l ls] eqn:E2; [congruence|]. rewrite <- E2.
  now rewrite fields_loop_para.
Qed.

(** Dsc/Changes: when the raw split returns a payload whose first line is not a
    comment line, the loop of _gpg_multivalued.__init__ stops at once *)
Lemma gpgmv_init_payload ws ls g rest l0 ls0 :
  consume false ws true gpg_init ls = (g, rest) -> g_lines g = l0 :: ls0 ->
  ignorable_line l0 = false ->
  gpgmv_init ws ls = (fst (deb822_init ws (l0 :: ls0)), rest).
Proof.
  intros E El Hc. unfold gpgmv_init. rewrite gpgmv_split_S, E, El.
  cbn [forallb]. rewrite Hc, andb_false_r. reflexivity.
Qed.

Lemma safe_line_not_ignorable l : safe_line l = true -> ignorable_line l = false.
Proof.
  intros H. destruct (safe_line_inv l H) as (_ & Hc & Hb & _). unfold ignorable_line. now rewrite Hc, Hb.
Qed.

Lemma safe_head_not_comment l ls : forallb safe_line (l :: ls) = true -> ignorable_line l = false.
Proof.
  cbn [forallb]. intros H. apply andb_true_iff in H. destruct H as [H _].
  now apply safe_line_not_ignorable.
Qed.

(** the three ways a block can sit in front of [tail] *)
Definition after_block (b : block) (tail : list str) : list str :=
  match b_armor b with
  | None => tl (b_seps b) ++ tail
  | Some _ => b_seps b ++ tail
  end.

Lemma valid_block_inv ws last b :
  valid_block ws last b = true ->
  valid_para (b_para b) = true /\ b_para b <> []
  /\ match b_armor b with
     | None => valid_seps ws (b_seps b) = true \/ (last = true /\ b_seps b = [])
     | Some a => valid_armor ws a = true /\ forallb ws_line (b_seps b) = true
     end.
Proof.
  unfold valid_block. intros H. apply andb_true_iff in H. destruct H as [H H3].
  apply andb_true_iff in H. destruct H as [H1 H2]. split; [exact H1|]. split.
  { destruct (b_para b); [discriminate|discriminate]. }
  destruct (b_armor b) as [a|].
  - apply andb_true_iff in H3. exact H3.
  - apply orb_true_iff in H3. destruct H3 as [H3|H3]; [now left|right].
    apply andb_true_iff in H3. destruct H3 as [-> H3]. destruct (b_seps b); [tauto|discriminate].
Qed.

Lemma valid_seps_inv ws seps :
  valid_seps ws seps = true ->
  exists s more, seps = s :: more /\ sep_line ws s = true /\ forallb ws_line more = true.
Proof.
  destruct seps as [|s more]; [discriminate|]. cbn [valid_seps]. intros H.
  apply andb_true_iff in H. destruct H as [H1 H2]. now exists s, more.
Qed.

(** The reader, positioned before a block (after any leading blank lines),
    returns the block's paragraph and stops behind the block's first separator
    (unsigned) or its END line (signed). *)
Theorem init_of_block c ws last lead b tail :
  forallb ws_line lead = true -> valid_block ws last b = true -> (last = true -> tail = []) ->
  init_of c ws (lead ++ block_lines b ++ tail)
  = (Ok (expected_para (b_para b)), after_block b tail)
  /\ exists lead', after_block b tail = lead' ++ tail /\ forallb ws_line lead' = true.
Proof.
  intros Hlead Hb Htail. destruct (valid_block_inv ws last b Hb) as (Hv & Hne & Hshape).
  pose proof (para_lines_safe _ Hv) as Hs. pose proof (para_lines_nonnil _ Hne) as Hn.
  unfold block_lines, after_block. destruct (b_armor b) as [a|]; cbn [wrap_lines].
  - (* signed *)
    destruct Hshape as [Ha Hseps]. split; [|now exists (b_seps b)].
    rewrite <- app_assoc.
    assert (Hall : forall skip, exists g',
               consume skip ws true gpg_init
                 (lead ++ armor_lines a (para_lines (b_para b)) ++ b_seps b ++ tail)
               = (g', b_seps b ++ tail) /\ g_lines g' = para_lines (b_para b)).
    { intros skip. now apply consume_armor. }
    destruct c; cbn [init_of].
    + unfold deb822_init. destruct (Hall true) as (g' & E & El). rewrite E. now apply lines_init.
    + destruct (Hall false) as (g' & E & El).
      destruct (para_lines (b_para b)) as [|l0 ls0] eqn:Ep; [congruence|].
      rewrite (gpgmv_init_payload ws _ g' _ l0 ls0 E El (safe_head_not_comment _ _ Hs)).
      f_equal. rewrite <- Ep. eapply deb822_init_payload; [exact Hv|exact Hne|reflexivity].
  - (* unsigned *)
    destruct (para_lines (b_para b)) as [|l ls] eqn:E; [congruence|].
    assert (Hall : forall skip,
               consume skip ws true gpg_init (lead ++ ((l :: ls) ++ b_seps b) ++ tail)
               = (mkG false s_SAFE [] (l :: ls) [], tl (b_seps b) ++ tail)).
    { intros skip. destruct Hshape as [Hseps|[Hl Hnil]].
      - destruct (valid_seps_inv _ _ Hseps) as (s & more & -> & Hs1 & Hmore).
        rewrite <- app_assoc. cbn [tl]. change ((s :: more) ++ tail) with (s :: more ++ tail).
        now apply consume_plain_sep.
      - rewrite Hnil, (Htail Hl). cbn [tl app]. rewrite !app_nil_r. now apply consume_plain_end. }
    split.
    + destruct c; cbn [init_of].
      * unfold deb822_init. rewrite Hall. cbn [g_lines]. rewrite <- E. now rewrite fields_loop_para.
      * rewrite (gpgmv_init_payload ws _ _ _ l ls (Hall false) eq_refl (safe_head_not_comment _ _ Hs)).
        f_equal. rewrite <- E. eapply deb822_init_payload; [exact Hv|exact Hne|reflexivity].
    + destruct Hshape as [Hseps|[Hl Hnil]].
      * destruct (valid_seps_inv _ _ Hseps) as (s & more & -> & Hs1 & Hmore). now exists more.
      * rewrite Hnil. now exists [].
Qed.

(** * Documents *)

Lemma expected_para_nonnil d : d <> [] -> expected_para d <> [].
Proof. destruct d; [congruence|discriminate]. Qed.

Lemma iter_lines_step c ws ls x rest :
  init_of c ws ls = (Ok x, rest) -> x <> [] ->
  iter_lines c ws ls = do xs <- iter_lines c ws rest; Ok (x :: xs).
Proof.
  intros E Hx. unfold iter_lines at 1. cbn [iter_loop]. rewrite E. cbn [bind].
  destruct x as [|kv x]; [congruence|].
  rewrite (iter_loop_enough c ws rest (length ls)); [reflexivity|].
  pose proof (init_of_progress c ws ls kv x) as Hp. rewrite E in Hp. now apply Hp.
Qed.

Lemma iter_lines_blank c ws lead : forallb ws_line lead = true -> iter_lines c ws lead = Ok [].
Proof.
  intros H. unfold iter_lines. cbn [iter_loop].
  assert (E : init_of c ws lead = (Ok [], [])).
  { destruct c; cbn [init_of].
    - unfold deb822_init. now rewrite consume_blank_only by exact H.
    - unfold gpgmv_init. rewrite gpgmv_split_S, consume_blank_only by exact H. reflexivity. }
  now rewrite E.
Qed.

(** dump_parse_doc on line lists: every document made of leading blank lines
    and valid blocks reads back as the list of its paragraphs, first lines
    trimmed. *)
Theorem iter_lines_doc c ws bs : forall lead,
  forallb ws_line lead = true -> valid_blocks ws bs = true ->
  iter_lines c ws (doc_lines lead bs) = Ok (map (fun b => expected_para (b_para b)) bs).
Proof.
  induction bs as [|b bs IH]; intros lead Hlead Hbs.
  - unfold doc_lines. cbn [map concat]. rewrite app_nil_r. now apply iter_lines_blank.
  - cbn [valid_blocks] in Hbs. apply andb_true_iff in Hbs. destruct Hbs as [Hb Hbs].
    unfold doc_lines. cbn [map concat].
    destruct (init_of_block c ws (is_nil' bs) lead b (concat (map block_lines bs)) Hlead Hb)
      as (E & lead' & Eafter & Hlead').
    { destruct bs; [reflexivity|discriminate]. }
    destruct (valid_block_inv _ _ _ Hb) as (_ & Hne & _).
    rewrite (iter_lines_step _ _ _ _ _ E) by now apply expected_para_nonnil.
    rewrite Eafter. fold (doc_lines lead' bs). rewrite IH by assumption. reflexivity.
Qed.

(** * Comment lines *)

Lemma consume_filter ws ls : forall ab g,
  consume true ws ab g (filter not_comment ls)
  = (fst (consume true ws ab g ls), filter not_comment (snd (consume true ws ab g ls))).
Proof.
  induction ls as [|l ls IH]; intros ab g; [reflexivity|].
  cbn [filter]. unfold not_comment at 1, is_comment. rewrite (consume_cons true ws ab g l ls).
  change (startswith [35] l) with (startswith [HASH] l).
  destruct (startswith [HASH] l) eqn:Ec; cbn [negb andb]; [apply IH|].
  rewrite consume_cons, Ec. cbn [andb].
  destruct (ab && is_nil (rstrip_by is_crlf l)); [apply IH|].
  destruct (gpg_step ws g l) as [g' brk]. destruct brk; [reflexivity|apply IH].
Qed.

Lemma deb822_init_filter ws ls :
  deb822_init ws (filter not_comment ls)
  = (fst (deb822_init ws ls), filter not_comment (snd (deb822_init ws ls))).
Proof.
  unfold deb822_init. rewrite consume_filter.
  destruct (consume true ws true gpg_init ls) as [g rest]. cbn [fst snd].
  destruct (g_lines g); reflexivity.
Qed.

Lemma iter_loop_filter ws f : forall ls,
  iter_loop f CDeb822 ws (filter not_comment ls) = iter_loop f CDeb822 ws ls.
Proof.
  induction f as [|f IH]; intros ls; [reflexivity|].
  cbn [iter_loop init_of]. rewrite deb822_init_filter.
  destruct (deb822_init ws ls) as [r rest]. cbn [fst snd].
  destruct r as [x|e]; [|reflexivity]. cbn [bind]. destruct x; [reflexivity|]. now rewrite IH.
Qed.

Lemma filter_length_le {A} (p : A -> bool) l : (length (filter p l) <= length l)%nat.
Proof. induction l as [|x l IH]; [reflexivity|]. cbn [filter]. destruct (p x); cbn [length]; lia. Qed.

(** comments_ignored: for Deb822 itself, on ANY line list, removing (hence
    also inserting) comment lines changes nothing *)
Theorem iter_lines_comments ws ls :
  iter_lines CDeb822 ws ls = iter_lines CDeb822 ws (filter not_comment ls).
Proof.
  unfold iter_lines at 2.
  rewrite (iter_loop_fuel CDeb822 ws _ (S (length ls))).
  - now rewrite iter_loop_filter.
  - lia.
  - pose proof (filter_length_le not_comment ls). lia.
Qed.

Theorem deb822_init_comments ws ls :
  fst (deb822_init ws ls) = fst (deb822_init ws (filter not_comment ls)).
Proof. now rewrite deb822_init_filter. Qed.

(** * Input forms *)

Lemma lb_free_all_py ls : forallb no_linebreak ls = true -> forallb (lb_free py_islinebreak) ls = true.
Proof. exact (fun H => H). Qed.

Lemma lb_free_all_bytes ls : forallb no_linebreak ls = true -> forallb (lb_free bytes_islinebreak) ls = true.
Proof. apply forallb_impl. apply no_linebreak_lb_free_bytes. Qed.

Lemma map_app_nil (ls : list str) : map (fun l => l ++ []) ls = ls.
Proof. induction ls as [|l ls IH]; [reflexivity|]. cbn [map]. now rewrite app_nil_r, IH. Qed.

Lemma splitlines_text islb crlf ls :
  forallb (lb_free islb) ls = true -> islb LF = true -> islb CR = true ->
  splitlines islb false (unlines_with (eol_of crlf) ls) = ls.
Proof.
  intros H Hlf Hcr. destruct crlf; cbn [eol_of].
  - rewrite splitlines_unlines_crlf by assumption. apply map_app_nil.
  - change (unlines_with [LF] ls) with (unlines ls). rewrite splitlines_unlines by assumption.
    apply map_app_nil.
Qed.

Lemma lb_free_lf_cr l : no_linebreak l = true -> lb_free (N.eqb LF) (l ++ [CR]) = true.
Proof.
  intros H. unfold lb_free. rewrite forallb_app. fold (lb_free (N.eqb LF) l).
  rewrite (no_linebreak_lb_free_lf _ H). reflexivity.
Qed.

Lemma file_lines_text crlf ls :
  forallb no_linebreak ls = true ->
  file_lines (unlines_with (eol_of crlf) ls) = map (fun l => l ++ eol_of crlf) ls.
Proof.
  intros H. unfold file_lines. destruct crlf; cbn [eol_of].
  - replace (unlines_with [CR; LF] ls) with (unlines (map (fun l => l ++ [CR]) ls)).
    2:{ unfold unlines, unlines_with. rewrite map_map. f_equal. apply map_ext. intros l.
        now rewrite <- app_assoc. }
    rewrite splitlines_unlines; [|
      rewrite forallb_forall; intros x Hx; apply in_map_iff in Hx; destruct Hx as (l & <- & Hl);
      apply lb_free_lf_cr; rewrite forallb_forall in H; now apply H | reflexivity].
    rewrite map_map. apply map_ext. intros l. now rewrite <- app_assoc.
  - change (unlines_with [LF] ls) with (unlines ls). apply splitlines_unlines; [|reflexivity].
    eapply forallb_impl; [|exact H]. apply no_linebreak_lb_free_lf.
Qed.

Lemma eol_crlf crlf : forallb is_crlf (eol_of crlf) = true.
Proof. destruct crlf; reflexivity. Qed.

Lemma chomp_eol crlf l : no_linebreak l = true -> chomp (l ++ eol_of crlf) = l.
Proof.
  intros H. unfold chomp, rstrip_by. rewrite rdropwhile_app_drop by apply eol_crlf.
  now apply chomp_id.
Qed.

Lemma map_chomp_eol crlf ls :
  forallb no_linebreak ls = true -> map chomp (map (fun l => l ++ eol_of crlf) ls) = ls.
Proof.
  induction ls as [|l ls IH]; [reflexivity|]. cbn [forallb map]. intros H.
  apply andb_true_iff in H. destruct H as [Hl Hls]. now rewrite chomp_eol, IH.
Qed.

Lemma line_ok_eol crlf ls :
  forallb no_linebreak ls = true -> forallb line_ok (map (fun l => l ++ eol_of crlf) ls) = true.
Proof.
  intros H. rewrite forallb_forall. intros x Hx. apply in_map_iff in Hx.
  destruct Hx as (l & <- & Hl). rewrite forallb_forall in H. unfold line_ok.
  rewrite chomp_eol by now apply H. now apply H.
Qed.

(** Every physical form of the same logical lines presents the reader with
    lines that differ only in their line ends. *)
Definition forms_of (crlf : bool) (ls : list str) : list input :=
  let t := unlines_with (eol_of crlf) ls in
  [InStr t; InBytes t; InFile t; InLines ls; InLines (map (fun l => l ++ eol_of crlf) ls)].

Lemma lines_of_forms crlf ls i :
  forallb no_linebreak ls = true -> In i (forms_of crlf ls) ->
  forallb line_ok (lines_of i) = true /\ map chomp (lines_of i) = ls.
Proof.
  intros H Hi.
  assert (Hid : forallb line_ok ls = true /\ map chomp ls = ls).
  { split.
    - eapply forallb_impl; [|exact H]. intros l Hl. unfold line_ok, chomp. now rewrite chomp_id.
    - clear Hi. induction ls as [|l ls IH]; [reflexivity|]. cbn [forallb map] in *.
      apply andb_true_iff in H. destruct H as [Hl Hls]. unfold chomp at 1. now rewrite chomp_id, IH. }
  cbn [forms_of In] in Hi. destruct Hi as [<-|[<-|[<-|[<-|[<-|[]]]]]]; cbn [lines_of].
  - rewrite splitlines_text; [exact Hid|now apply lb_free_all_py|reflexivity|reflexivity].
  - rewrite splitlines_text; [exact Hid|now apply lb_free_all_bytes|reflexivity|reflexivity].
  - rewrite file_lines_text by exact H. split; [now apply line_ok_eol|now apply map_chomp_eol].
  - exact Hid.
  - split; [now apply line_ok_eol|now apply map_chomp_eol].
Qed.

(** input_form_invariant for iter_paragraphs, both classes *)
Theorem iter_paragraphs_forms c ws crlf ls i :
  forallb no_linebreak ls = true -> In i (forms_of crlf ls) ->
  iter_paragraphs c ws i = iter_lines c ws ls.
Proof.
  intros H Hi. destruct (lines_of_forms crlf ls i H Hi) as [Hok Hch].
  unfold iter_paragraphs. rewrite <- (iter_lines_chomp c ws _ Hok). now rewrite Hch.
Qed.

(** ... and for the constructor of Deb822 itself *)
Theorem deb822_new_forms ws crlf ls i :
  forallb no_linebreak ls = true -> In i (forms_of crlf ls) ->
  deb822_new CDeb822 ws i = fst (deb822_init ws ls).
Proof.
  intros H Hi. destruct (lines_of_forms crlf ls i H Hi) as [Hok Hch].
  assert (E : deb822_new CDeb822 ws i = fst (deb822_init ws (lines_of i))) by (destruct i; reflexivity).
  rewrite E, <- Hch. now rewrite deb822_init_chomp.
Qed.

(** * Texts *)

Definition block_text (b : block) : str :=
  match b_armor b with
  | None => dump (b_para b)
  | Some a => unlines (armor_head a) ++ dump (b_para b) ++ unlines (armor_tail a)
  end ++ unlines (b_seps b).

(** the document as a text with LF line ends *)
Definition doc_text (lead : list str) (bs : list block) : str :=
  unlines lead ++ concat (map block_text bs).

Lemma block_text_lines ws last b :
  valid_block ws last b = true -> block_text b = unlines (block_lines b).
Proof.
  intros H. destruct (valid_block_inv _ _ _ H) as (Hv & _ & _).
  unfold block_text, block_lines, wrap_lines, armor_lines. rewrite (dump_lines _ Hv).
  destruct (b_armor b); now rewrite !unlines_app.
Qed.

Lemma doc_text_lines ws lead bs :
  valid_blocks ws bs = true -> doc_text lead bs = unlines (doc_lines lead bs).
Proof.
  intros H. unfold doc_text, doc_lines. rewrite unlines_app. f_equal.
  induction bs as [|b bs IH]; [reflexivity|]. cbn [valid_blocks] in H.
  apply andb_true_iff in H. destruct H as [Hb Hbs]. cbn [map concat]. rewrite unlines_app.
  rewrite (block_text_lines _ _ _ Hb). f_equal. now apply IH.
Qed.

(** all lines of a valid document are free of line-boundary characters *)
Lemma sig_line_no_linebreak l : sig_line l = true -> no_linebreak l = true.
Proof. intros H. now destruct (sig_line_inv l H). Qed.

Lemma armor_text_line_no_linebreak l : armor_text_line l = true -> no_linebreak l = true.
Proof. intros H. now destruct (armor_text_line_inv l H). Qed.

Lemma block_lines_no_linebreak ws last b :
  valid_block ws last b = true -> forallb no_linebreak (block_lines b) = true.
Proof.
  intros H. destruct (valid_block_inv _ _ _ H) as (Hv & _ & Hshape).
  pose proof (para_lines_safe _ Hv) as Hs.
  assert (Hp : forallb no_linebreak (para_lines (b_para b)) = true).
  { eapply forallb_impl; [|exact Hs]. apply safe_line_no_linebreak. }
  unfold block_lines. rewrite forallb_app. destruct (b_armor b) as [a|]; cbn [wrap_lines].
  - destruct Hshape as [Ha Hseps]. destruct (valid_armor_inv _ _ Ha) as (Hw1 & Hw2 & Hw3 & Hhdr & Hbl & Hsig).
    unfold armor_lines, armor_head, armor_tail. rewrite !forallb_app. cbn [forallb]. rewrite !forallb_app.
    cbn [forallb]. rewrite Hp.
    rewrite !no_linebreak_app, (armor_pad_no_linebreak _ Hw1), (armor_pad_no_linebreak _ Hw2),
      (armor_pad_no_linebreak _ Hw3).
    rewrite (forallb_impl _ _ _ armor_text_line_no_linebreak Hhdr).
    rewrite (forallb_impl _ _ _ sig_line_no_linebreak Hsig).
    rewrite (ws_line_no_linebreak _ (sep_line_ws_line _ _ Hbl)).
    rewrite (forallb_impl _ _ _ ws_line_no_linebreak Hseps). reflexivity.
  - rewrite Hp. destruct Hshape as [Hseps|[_ ->]]; [|reflexivity].
    destruct (valid_seps_inv _ _ Hseps) as (s & more & -> & Hs1 & Hmore). cbn [forallb].
    rewrite (ws_line_no_linebreak _ (sep_line_ws_line _ _ Hs1)).
    now rewrite (forallb_impl _ _ _ ws_line_no_linebreak Hmore).
Qed.

Lemma doc_lines_no_linebreak ws lead bs :
  forallb ws_line lead = true -> valid_blocks ws bs = true ->
  forallb no_linebreak (doc_lines lead bs) = true.
Proof.
  intros Hlead H. unfold doc_lines. rewrite forallb_app.
  rewrite (forallb_impl _ _ _ ws_line_no_linebreak Hlead). cbn [andb].
  induction bs as [|b bs IH]; [reflexivity|]. cbn [valid_blocks] in H.
  apply andb_true_iff in H. destruct H as [Hb Hbs]. cbn [map concat]. rewrite forallb_app.
  rewrite (block_lines_no_linebreak _ _ _ Hb). now apply IH.
Qed.

(** * The property's theorems *)

(** dump_parse_doc: any number of paragraphs, >= 1 separating blank lines,
    optional leading and trailing blank lines, each paragraph optionally
    clearsigned; both classes. *)
Theorem dump_parse_doc c ws lead bs :
  forallb ws_line lead = true -> valid_blocks ws bs = true ->
  iter_paragraphs c ws (InStr (doc_text lead bs))
  = Ok (map (fun b => expected_para (b_para b)) bs).
Proof.
  intros Hlead Hbs. rewrite (doc_text_lines ws) by exact Hbs.
  rewrite (iter_paragraphs_forms c ws false (doc_lines lead bs)).
  - now apply iter_lines_doc.
  - now apply (doc_lines_no_linebreak ws).
  - left. reflexivity.
Qed.

(** dump_parse_para *)
Theorem dump_parse_para c ws d :
  valid_para d = true -> deb822_new c ws (InStr (dump d)) = Ok (expected_para d).
Proof.
  intros Hv. assert (E : deb822_new c ws (InStr (dump d)) = fst (deb822_init ws (lines_of (InStr (dump d)))))
    by (destruct c; reflexivity).
  rewrite E. cbn [lines_of]. rewrite (dump_lines _ Hv).
  pose proof (para_lines_safe _ Hv) as Hs.
  rewrite splitlines_unlines; [|eapply forallb_impl; [|exact Hs]; apply safe_line_no_linebreak|reflexivity].
  rewrite map_app_nil. destruct d as [|kv d]; [reflexivity|].
  eapply deb822_init_payload; [exact Hv|discriminate|reflexivity].
Qed.

(** Everything together: a document of valid blocks (plain or clearsigned),
    with comment lines inserted anywhere, in any of the input forms and with
    LF or CRLF line ends, reads back through Deb822.iter_paragraphs as its
    paragraphs with the first lines trimmed. *)
Theorem roundtrip_any_form ws crlf lead bs ls i :
  forallb ws_line lead = true -> valid_blocks ws bs = true ->
  forallb no_linebreak ls = true -> filter not_comment ls = doc_lines lead bs ->
  In i (forms_of crlf ls) ->
  iter_paragraphs CDeb822 ws i = Ok (map (fun b => expected_para (b_para b)) bs).
Proof.
  intros Hlead Hbs Hls Hf Hi. rewrite (iter_paragraphs_forms _ _ crlf ls i Hls Hi).
  rewrite iter_lines_comments, Hf. now apply iter_lines_doc.
Qed.

(** the same for Dsc/Changes when there are no comment lines *)
Theorem roundtrip_any_form_nocomment c ws crlf lead bs i :
  forallb ws_line lead = true -> valid_blocks ws bs = true ->
  In i (forms_of crlf (doc_lines lead bs)) ->
  iter_paragraphs c ws i = Ok (map (fun b => expected_para (b_para b)) bs).
Proof.
  intros Hlead Hbs Hi.
  rewrite (iter_paragraphs_forms _ _ crlf _ i (doc_lines_no_linebreak ws _ _ Hlead Hbs) Hi).
  now apply iter_lines_doc.
Qed.

(** armor_invariant: wrapping a paragraph in a clearsign envelope does not
    change what the constructor reads, and the reader stops behind END. *)
Theorem armor_invariant c ws lead a d rest :
  forallb ws_line lead = true -> valid_armor ws a = true -> valid_para d = true -> d <> [] ->
  init_of c ws (lead ++ armor_lines a (para_lines d) ++ rest) = (Ok (expected_para d), rest)
  /\ fst (init_of c ws (lead ++ para_lines d)) = Ok (expected_para d).
Proof.
  intros Hlead Ha Hv Hne. split.
  - pose (b := mkBlock d (Some a) []).
    assert (Hb : valid_block ws false b = true).
    { unfold valid_block. cbn [b b_para b_armor b_seps]. rewrite Hv, Ha.
      destruct d; [congruence|reflexivity]. }
    destruct (init_of_block c ws false lead b rest Hlead Hb) as (E & _); [discriminate|].
    unfold block_lines, after_block in E. cbn [b b_para b_armor b_seps wrap_lines app] in E.
    rewrite app_nil_r in E. exact E.
  - pose (b := mkBlock d None []).
    assert (Hb : valid_block ws true b = true).
    { unfold valid_block. cbn [b b_para b_armor b_seps]. rewrite Hv.
      destruct d; [congruence|reflexivity]. }
    destruct (init_of_block c ws true lead b [] Hlead Hb) as (E & _); [reflexivity|].
    unfold block_lines, after_block in E. cbn [b b_para b_armor b_seps wrap_lines app] in E.
    rewrite !app_nil_r in E. now rewrite E.
Qed.
