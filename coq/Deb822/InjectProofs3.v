(** C08 proofs, part 3: the dump of a paragraph of accepted values read back
    through a file object (lines cut at LF only, CRs stay inside the lines). *)
From Coq Require Import Lia ZifyBool.
From Verif Require Import Lib.Base Lib.PyStr Gen.PyChars Deb822.Model Deb822.Spec
  Deb822.InjectSpec Deb822.ProofsStr Deb822.InjectStr Deb822.InjectBrk Deb822.InjectProofs Deb822.InjectProofs2.

Local Open Scope N_scope.

(** * strip lemmas *)

Lemma dropwhile_app_nonnil {A} (p : A -> bool) a b z t :
  dropwhile p a = z :: t -> dropwhile p (a ++ b) = (z :: t) ++ b.
Proof.
  induction a as [|x a IH]; [discriminate|]. cbn [dropwhile app].
  destruct (p x); [exact IH|]. intros [= <- <-]. reflexivity.
Qed.

Lemma rdropwhile_cons_nonnil {A} (p : A -> bool) y l :
  rdropwhile p l <> [] -> rdropwhile p (y :: l) = y :: rdropwhile p l.
Proof.
  unfold rdropwhile. intros H. cbn [rev].
  destruct (dropwhile p (rev l)) as [|z t] eqn:E; [cbn in H; congruence|].
  rewrite (dropwhile_app_nonnil p (rev l) [y] z t E). rewrite rev_app_distr. reflexivity.
Qed.

Lemma rdropwhile_prefix_keep {A} (p : A -> bool) a c x :
  p c = false -> rdropwhile p (a ++ c :: x) = a ++ c :: rdropwhile p x.
Proof.
  intros Hc. induction a as [|y a IH]; cbn [app].
  - now apply rdropwhile_cons_keep.
  - rewrite rdropwhile_cons_nonnil; [now rewrite IH|]. rewrite IH. destruct a; discriminate.
Qed.

Lemma rdropwhile_split_all {A} (p : A -> bool) l :
  exists e, l = rdropwhile p l ++ e /\ forallb p e = true.
Proof.
  unfold rdropwhile. exists (rev (fst (span p (rev l)))). split.
  - rewrite dropwhile_span, <- rev_app_distr, span_app. now rewrite rev_involutive.
  - pose proof (span_all p (rev l)) as H. apply forallb_forall. intros x Hx.
    rewrite forallb_forall in H. apply H. now apply in_rev.
Qed.

(** rstrip of a sub-class, then strip = strip *)
Lemma strip_rstrip_sub (p q : N -> bool) x :
  (forall c, q c = true -> p c = true) ->
  strip_by p (rstrip_by q x) = strip_by p x.
Proof.
  intros Hqp. destruct (rdropwhile_split_all q x) as (e & E & He).
  assert (Hpe : forallb p e = true) by (eapply forallb_impl; [|exact He]; exact Hqp).
  unfold rstrip_by. remember (rdropwhile q x) as y eqn:Ey. clear Ey. subst x.
  unfold strip_by, lstrip_by, rstrip_by.
  destruct (dropwhile p y) as [|z t] eqn:Ed.
  - rewrite dropwhile_app_all by now apply dropwhile_nil_all.
    now rewrite (dropwhile_all _ _ Hpe).
  - rewrite (dropwhile_app_nonnil p y e z t Ed). now rewrite rdropwhile_app_drop.
Qed.

Lemma is_crlf_pyspace c : is_crlf c = true -> py_isspace c = true.
Proof.
  unfold is_crlf. intros H. apply orb_true_iff in H.
  destruct H as [H|H]; apply N.eqb_eq in H; subst c; reflexivity.
Qed.

Lemma is_crlf_bytes_space c : is_crlf c = true -> bytes_isspace c = true.
Proof.
  unfold is_crlf. intros H. apply orb_true_iff in H.
  destruct H as [H|H]; apply N.eqb_eq in H; subst c; reflexivity.
Qed.

Lemma sp_tab_not_crlf c : is_sp_tab c = true -> is_crlf c = false.
Proof.
  unfold is_sp_tab. intros H. apply orb_true_iff in H.
  destruct H as [H|H]; apply N.eqb_eq in H; subst c; reflexivity.
Qed.

Lemma key_char_not_crlf c : key_char c = true -> is_crlf c = false.
Proof.
  intros H. destruct (is_crlf c) eqn:E; [|reflexivity].
  apply is_crlf_bytes_space in E. apply key_char_not_space in H. congruence.
Qed.

(** a raw file line "text LF": what split_gpg_and_payload keeps of it *)
Definition head_not_crlf (l : str) : bool := match l with c :: _ => negb (is_crlf c) | [] => false end.

Lemma rstrip_crlf_line l : rstrip_by is_crlf (l ++ [LF]) = rstrip_by is_crlf l.
Proof. unfold rstrip_by. now rewrite rdropwhile_app_drop by reflexivity. Qed.

Lemma strip_crlf_line l :
  head_not_crlf l = true -> strip_crlf (l ++ [LF]) = rstrip_by is_crlf l.
Proof.
  destruct l as [|c r]; [discriminate|]. cbn [head_not_crlf]. intros Hc. apply negb_true_iff in Hc.
  unfold strip_crlf, strip_by, lstrip_by. cbn [app dropwhile]. rewrite Hc.
  change (c :: r ++ [LF]) with ((c :: r) ++ [LF]). apply rstrip_crlf_line.
Qed.

Lemma rstrip_head k x :
  rstrip_by is_crlf (k ++ COLON :: x) = k ++ COLON :: rstrip_by is_crlf x.
Proof. unfold rstrip_by. now rewrite rdropwhile_prefix_keep by reflexivity. Qed.

Lemma rstrip_cont c r :
  is_sp_tab c = true -> rstrip_by is_crlf (c :: r) = c :: rstrip_by is_crlf r.
Proof. intros H. unfold rstrip_by. now rewrite rdropwhile_cons_keep by now apply sp_tab_not_crlf. Qed.

Lemma head_not_crlf_key k x : key_ok k = true -> head_not_crlf (k ++ COLON :: x) = true.
Proof.
  intros Hk. destruct (key_ok_inv k Hk) as (c & r & -> & _ & Hkc).
  cbn [forallb] in Hkc. apply andb_true_iff in Hkc. destruct Hkc as [Hc _].
  cbn [app head_not_crlf]. now rewrite key_char_not_crlf.
Qed.

(** * The LF-pieces of an accepted value *)

Lemma split_on_lf_free v : forallb lf_free (split_on LF v) = true.
Proof.
  induction v as [|x v IH]; [reflexivity|]. cbn [split_on].
  destruct (x =? LF) eqn:E; [cbn [forallb]; now rewrite IH|].
  destruct (split_on LF v) as [|p ps]; cbn [forallb lf_free] in *; rewrite E; cbn [negb andb];
    [reflexivity|exact IH].
Qed.

Lemma endswith1_snoc x a : endswith [x] (a ++ [x]) = true.
Proof. unfold endswith. rewrite rev_app_distr. cbn. now rewrite N.eqb_refl. Qed.

Lemma pieces_ok vs : forall v1,
  c08_dom (value_of v1 vs) = true -> brk_ok (value_of v1 vs) = true ->
  endswith [LF] (value_of v1 vs) = false -> forallb lf_free (v1 :: vs) = true ->
  piece_ok v1 = true /\ forallb cont_ok vs = true.
Proof.
  induction vs as [|c vs IH]; intros v1 Hd Hb He Hl.
  - rewrite value_of_nil' in *. cbn [forallb] in Hl. rewrite andb_true_r in Hl.
    split; [|reflexivity]. unfold piece_ok. now rewrite Hl, Hd, Hb.
  - rewrite value_of_cons' in *. set (W := value_of c vs) in *.
    cbn [forallb] in Hl. apply andb_true_iff in Hl. destruct Hl as [Hl1 Hl].
    unfold c08_dom in Hd. rewrite forallb_app in Hd. apply andb_true_iff in Hd. destruct Hd as [Hd1 Hd].
    cbn [forallb] in Hd. apply andb_true_iff in Hd. destruct Hd as [_ HdW].
    apply brk_ok_app in Hb. destruct Hb as [Hb1 Hb]. rewrite brk_ok_cons in Hb.
    replace (LF =? LF) with true in Hb by reflexivity. cbn [orb] in Hb.
    apply andb_true_iff in Hb. destruct Hb as [HleadW HbW].
    assert (HW : W <> []).
    { intros E. rewrite E in He. change (v1 ++ [LF]) with (v1 ++ [LF]) in He.
      now rewrite endswith1_snoc in He. }
    change (v1 ++ LF :: W) with (v1 ++ [LF] ++ W) in He.
    rewrite app_assoc, endswith1_app_nonnil' in He by exact HW.
    assert (Hc : exists c0 r, c = c0 :: r /\ is_sp_tab c0 = true).
    { destruct c as [|c0 r].
      - exfalso. subst W. destruct vs as [|c2 vs]; [now apply HW|].
        unfold value_of in HleadW. cbn in HleadW. discriminate.
      - exists c0, r. split; [reflexivity|]. subst W. unfold value_of in HleadW. exact HleadW. }
    destruct Hc as (c0 & r & Ec & Hsp).
    destruct (IH c HdW HbW He Hl) as [Hpc Hcs].
    split.
    + unfold piece_ok, c08_dom. now rewrite Hl1, Hd1, Hb1.
    + cbn [forallb]. rewrite Hcs, andb_true_r. unfold cont_ok. rewrite Hpc. subst c.
      cbn [is_nil' negb lead_ok andb]. now rewrite Hsp.
Qed.

Lemma accepted_pieces v :
  c08_dom v = true -> validate_input v = Ok tt ->
  match split_on LF v with
  | v1 :: vs => piece_ok v1 = true /\ forallb cont_ok vs = true
  | [] => False
  end.
Proof.
  intros Hd Hv. destruct (validate_brk_inv v Hd Hv) as [He Hb].
  pose proof (value_of_split v) as Hs. pose proof (split_on_lf_free v) as Hl.
  destruct (split_on LF v) as [|v1 vs]; [contradiction|].
  apply pieces_ok; try assumption; now rewrite Hs.
Qed.

(** * The entry the reader sees through a file object *)

Definition fentry_of (kv : str * str) : pentry :=
  match split_on LF (snd kv) with
  | v1 :: vs => (fst kv, rstrip_by is_crlf (sep_of (snd kv) ++ v1), map (rstrip_by is_crlf) vs)
  | [] => (fst kv, [], [])
  end.

(** the text lines of one dumped field (line ends removed) *)
Definition flines (kv : str * str) : list str :=
  match split_on LF (snd kv) with
  | v1 :: vs => (fst kv ++ COLON :: sep_of (snd kv) ++ v1) :: vs
  | [] => []
  end.

Lemma piece_ok_rstrip p l : piece_ok l = true -> piece_ok (rstrip_by p l) = true.
Proof.
  intros H. destruct (piece_ok_inv l H) as (H1 & H2 & H3). unfold piece_ok, rstrip_by.
  rewrite brk_ok_rdropwhile by exact H3.
  unfold lf_free, c08_dom in *. now rewrite !rdropwhile_forallb.
Qed.

Lemma cont_ok_rstrip l : cont_ok l = true -> cont_ok (rstrip_by is_crlf l) = true.
Proof.
  intros H. destruct (cont_ok_inv l H) as (c & r & -> & Hc & _ & Hp).
  unfold cont_ok. rewrite (piece_ok_rstrip _ _ Hp), andb_true_r.
  rewrite rstrip_cont by exact Hc.
  cbn [is_nil' negb lead_ok andb]. exact Hc.
Qed.

Lemma sep_piece v v1 : piece_ok v1 = true -> piece_ok (sep_of v ++ v1) = true.
Proof.
  intros H. destruct v as [|c v]; [exact H|]. cbn [sep_of]. destruct (c =? LF); [exact H|].
  destruct (piece_ok_inv _ H) as (H1 & H2 & H3). unfold piece_ok. cbn [app lf_free c08_dom forallb].
  rewrite brk_ok_cons. unfold lf_free, c08_dom in *. rewrite H1, H2, H3. reflexivity.
Qed.

Lemma accepted_fentry_ok k v :
  valid_field_name k = true -> c08_dom v = true -> validate_input v = Ok tt ->
  pentry_ok (fentry_of (k, v)) = true.
Proof.
  intros Hk Hd Hv. pose proof (accepted_pieces v Hd Hv) as Hp.
  unfold fentry_of. cbn [fst snd]. destruct (split_on LF v) as [|v1 vs]; [contradiction|].
  destruct Hp as [Hp1 Hps]. unfold pentry_ok.
  rewrite (valid_field_name_key_ok _ Hk), piece_ok_rstrip by now apply sep_piece.
  cbn [andb]. rewrite forallb_forall. intros l Hin. apply in_map_iff in Hin.
  destruct Hin as (x & <- & Hx). apply cont_ok_rstrip. rewrite forallb_forall in Hps. now apply Hps.
Qed.

(** the raw file lines of the field, stripped, are the lines of [fentry_of] *)
Lemma flines_stripped k v :
  valid_field_name k = true -> c08_dom v = true -> validate_input v = Ok tt ->
  map strip_crlf (map (fun l => l ++ [LF]) (flines (k, v))) = plines (fentry_of (k, v)).
Proof.
  intros Hk Hd Hv. pose proof (accepted_pieces v Hd Hv) as Hp.
  unfold flines, fentry_of. cbn [fst snd]. destruct (split_on LF v) as [|v1 vs]; [contradiction|].
  destruct Hp as [_ Hps]. cbn [map plines]. f_equal.
  - change (k ++ COLON :: sep_of v ++ v1) with (k ++ COLON :: (sep_of v ++ v1)).
    rewrite strip_crlf_line by (apply head_not_crlf_key; now apply valid_field_name_key_ok).
    apply rstrip_head.
  - induction vs as [|p vs IH]; [reflexivity|]. cbn [forallb] in Hps.
    apply andb_true_iff in Hps. destruct Hps as [Hp Hps]. cbn [map]. rewrite IH by exact Hps.
    f_equal. destruct (cont_ok_inv p Hp) as (c & r & -> & Hc & _).
    apply strip_crlf_line. cbn [head_not_crlf]. now rewrite sp_tab_not_crlf.
Qed.

(** * dump as LF-terminated lines *)

Lemma unlines_cons' l ls : unlines (l :: ls) = l ++ LF :: unlines ls.
Proof. unfold unlines. cbn [map concat]. now rewrite <- app_assoc. Qed.

Lemma value_of_lf_unlines' first conts :
  value_of first conts ++ [LF] = first ++ LF :: unlines conts.
Proof.
  revert first. induction conts as [|c conts IH]; intros first.
  - now rewrite value_of_nil'.
  - rewrite value_of_cons', unlines_cons', <- app_assoc. cbn [app]. now rewrite IH.
Qed.

Lemma dump_entry_flines k v : dump_entry (k, v) = unlines (flines (k, v)).
Proof.
  rewrite dump_entry_eq. unfold flines. cbn [fst snd]. pose proof (value_of_split v) as Hs.
  destruct (split_on LF v) as [|v1 vs]; [contradiction|].
  rewrite unlines_cons'. rewrite <- Hs at 2. rewrite value_of_lf_unlines'.
  rewrite <- !app_assoc. cbn [app]. rewrite <- app_assoc. reflexivity.
Qed.

Lemma dump_flines d : dump d = unlines (concat (map flines d)).
Proof.
  induction d as [|[k v] d IH]; [reflexivity|]. unfold dump in *. cbn [map concat].
  rewrite unlines_app, dump_entry_flines. now rewrite IH.
Qed.

Lemma lf_free_lb_free l : lf_free l = true -> lb_free (N.eqb LF) l = true.
Proof. apply forallb_impl. intros c H. now rewrite N.eqb_sym. Qed.

Lemma flines_lf_free k v :
  no_linebreak k = true -> forallb lf_free (flines (k, v)) = true.
Proof.
  intros Hk. pose proof (split_on_lf_free v) as Hl. unfold flines. cbn [fst snd].
  destruct (split_on LF v) as [|v1 vs]; [reflexivity|]. cbn [forallb] in *.
  apply andb_true_iff in Hl. destruct Hl as [H1 Hl]. rewrite Hl, andb_true_r.
  unfold lf_free in *. rewrite forallb_app. fold (lf_free k). rewrite (no_linebreak_lf_free _ Hk).
  cbn [forallb andb]. rewrite forallb_app, H1, andb_true_r.
  destruct v as [|c v]; [reflexivity|]. cbn [sep_of]. destruct (c =? LF); reflexivity.
Qed.

(** * okraw for the raw file lines *)

Lemma okraw_file_head ws k x :
  valid_field_name k = true -> okraw ws ((k ++ COLON :: x) ++ [LF]) = true.
Proof.
  intros Hk. pose proof (valid_field_name_key_ok _ Hk) as Hko.
  destruct (head_facts ws k (rstrip_by is_crlf x) Hko) as (H2 & H3 & H4 & H5).
  unfold okraw. rewrite strip_crlf_line by now apply head_not_crlf_key.
  rewrite rstrip_crlf_line, rstrip_head, H2, H4, H5.
  destruct (key_ok_inv k Hko) as (c & r & -> & Hh & _). cbn [app startswith].
  now rewrite N.eqb_sym, Hh.
Qed.

Lemma blank_ws_rstrip l : blank_ws (rstrip_by is_crlf l) = true -> blank_ws l = true.
Proof.
  intros H. destruct (rdropwhile_split_all is_crlf l) as (e & E & He). rewrite E.
  unfold blank_ws in *. rewrite forallb_app. unfold rstrip_by in H. rewrite H. cbn [andb].
  eapply forallb_impl; [|exact He]. apply is_crlf_bytes_space.
Qed.

Lemma okraw_file_cont ws p :
  cont_ok p = true -> (ws = true -> blank_ws p = false) -> okraw ws (p ++ [LF]) = true.
Proof.
  intros Hp Hb. destruct (cont_ok_inv p Hp) as (c & r & -> & Hc & _).
  assert (Hb' : ws = true -> blank_ws (c :: rstrip_by is_crlf r) = false).
  { intros E. specialize (Hb E). destruct (blank_ws (c :: rstrip_by is_crlf r)) eqn:Eb; [|reflexivity].
    rewrite <- rstrip_cont in Eb by exact Hc. apply blank_ws_rstrip in Eb. congruence. }
  destruct (cont_facts ws c (rstrip_by is_crlf r) Hc Hb') as (H2 & H3 & H4 & H5).
  unfold okraw. rewrite strip_crlf_line by (cbn [head_not_crlf]; now rewrite sp_tab_not_crlf).
  rewrite rstrip_crlf_line, rstrip_cont by exact Hc.
  rewrite H2, H4, H5. cbn [app startswith].
  unfold is_sp_tab in Hc. apply orb_true_iff in Hc.
  destruct Hc as [Hc|Hc]; apply N.eqb_eq in Hc; subst c; reflexivity.
Qed.

(** * A whitespace-only LF-piece contains a whitespace-only continuation line *)

Lemma splitlines_aux_nonnil s : forall cur,
  s <> [] -> splitlines_aux py_islinebreak false s cur <> [].
Proof.
  induction s as [|x s IH]; intros cur H; [congruence|].
  cbn [splitlines_aux]. destruct (py_islinebreak x).
  - destruct s as [|y s]; [discriminate|]. destruct ((x =? 13) && (y =? 10)); discriminate.
  - destruct s as [|y s]; [cbn; discriminate|]. apply IH. discriminate.
Qed.

Lemma forallb_rev {A} (p : A -> bool) l : forallb p l = true -> forallb p (rev l) = true.
Proof.
  intros H. apply forallb_forall. intros c Hc. rewrite forallb_forall in H. apply H. now apply in_rev.
Qed.

Lemma blank_first c : forall X cur,
  forallb bytes_isspace c = true -> forallb bytes_isspace cur = true ->
  (X = [] \/ exists t, X = LF :: t) -> cur ++ c <> [] ->
  exists l ls, splitlines_aux py_islinebreak false (c ++ X) cur = l :: ls /\ blank_ws l = true.
Proof.
  induction c as [|x c IH]; intros X cur Hc Hcur HX Hne.
  - rewrite app_nil_r in Hne. cbn [app]. destruct HX as [->|[t ->]].
    + cbn [splitlines_aux]. destruct cur as [|c0 cur]; [congruence|].
      eexists _, _. split; [reflexivity|]. now apply forallb_rev.
    + cbn [splitlines_aux]. replace (py_islinebreak LF) with true by reflexivity.
      destruct t as [|y t].
      * eexists _, _. split; [reflexivity|]. unfold blank_ws. rewrite app_nil_r. now apply forallb_rev.
      * replace ((LF =? 13) && (y =? 10)) with false by reflexivity.
        eexists _, _. split; [reflexivity|]. unfold blank_ws. rewrite app_nil_r. now apply forallb_rev.
  - cbn [forallb] in Hc. apply andb_true_iff in Hc. destruct Hc as [Hx Hc].
    cbn [app splitlines_aux]. destruct (py_islinebreak x).
    + destruct (c ++ X) as [|y s].
      * eexists _, _. split; [reflexivity|]. unfold blank_ws. rewrite app_nil_r. now apply forallb_rev.
      * destruct ((x =? 13) && (y =? 10)); eexists _, _; (split; [reflexivity|]);
          unfold blank_ws; rewrite app_nil_r; now apply forallb_rev.
    + apply IH; try assumption.
      * cbn [forallb]. now rewrite Hx.
      * discriminate.
Qed.

Lemma tl_app_nonnil {A} (a b : list A) : a <> [] -> tl (a ++ b) = tl a ++ b.
Proof. destruct a; [congruence|reflexivity]. Qed.

Lemma no_blank_pieces vs : forall v1,
  forallb (fun p => negb (is_nil' p)) vs = true ->
  forallb (fun l => negb (blank_ws l)) (tl (vlines (value_of v1 vs))) = true ->
  forallb (fun p => negb (blank_ws p)) vs = true.
Proof.
  induction vs as [|c vs IH]; intros v1 Hn H; [reflexivity|].
  cbn [forallb] in Hn. apply andb_true_iff in Hn. destruct Hn as [Hc Hn].
  rewrite value_of_cons' in H. unfold vlines, splitlines in H.
  rewrite splitlines_aux_app_lf in H by reflexivity.
  rewrite tl_app_nonnil in H by (apply splitlines_aux_nonnil; destruct v1; discriminate).
  rewrite forallb_app in H. apply andb_true_iff in H. destruct H as [_ H].
  cbn [forallb]. apply andb_true_iff. split.
  - apply negb_true_iff. destruct (blank_ws c) eqn:Eb; [|reflexivity]. exfalso.
    assert (HX : concat (map (cons LF) vs) = [] \/ exists t, concat (map (cons LF) vs) = LF :: t).
    { destruct vs; [now left|right]. cbn. now eexists. }
    destruct (blank_first c _ [] Eb eq_refl HX) as (l & ls & E & Hl).
    { destruct c; [discriminate|discriminate]. }
    unfold value_of in H. rewrite E in H. cbn [forallb] in H. rewrite Hl in H. discriminate.
  - apply (IH c); [exact Hn|]. unfold vlines, splitlines. now apply forallb_tl.
Qed.

Lemma cont_ok_nonnil' ls : forallb cont_ok ls = true -> forallb (fun p => negb (is_nil' p)) ls = true.
Proof.
  apply forallb_impl. intros l H. unfold cont_ok in H. apply andb_true_iff in H. destruct H as [H _].
  apply andb_true_iff in H. tauto.
Qed.

Lemma okraws_file_entry ws k v :
  valid_field_name k = true -> c08_dom v = true -> validate_input v = Ok tt ->
  (ws = true -> no_blank_cont v = true) ->
  forallb (okraw ws) (map (fun l => l ++ [LF]) (flines (k, v))) = true.
Proof.
  intros Hk Hd Hv Hb. pose proof (accepted_pieces v Hd Hv) as Hp.
  pose proof (value_of_split v) as Hs.
  unfold flines. cbn [fst snd]. destruct (split_on LF v) as [|v1 vs]; [contradiction|].
  destruct Hp as [_ Hps]. cbn [map forallb].
  change (fst (k, v) ++ COLON :: sep_of v ++ v1) with (k ++ COLON :: (sep_of v ++ v1)).
  rewrite okraw_file_head by exact Hk. cbn [andb].
  assert (Hnb : ws = true -> forallb (fun p => negb (blank_ws p)) vs = true).
  { intros E. apply (no_blank_pieces vs v1); [now apply cont_ok_nonnil'|].
    rewrite Hs. apply no_blank_cont_vlines; auto. }
  clear Hs. induction vs as [|p vs IH]; [reflexivity|]. cbn [forallb] in Hps.
  apply andb_true_iff in Hps. destruct Hps as [Hp Hps]. cbn [map forallb].
  rewrite okraw_file_cont; [|exact Hp|].
  - cbn [andb]. apply IH; [exact Hps|]. intros E. specialize (Hnb E). cbn [forallb] in Hnb.
    apply andb_true_iff in Hnb. tauto.
  - intros E. specialize (Hnb E). cbn [forallb] in Hnb. apply andb_true_iff in Hnb.
    destruct Hnb as [Hnb _]. now apply negb_true_iff in Hnb.
Qed.

(** * The value read back *)

Lemma pvalue_fentry k v : pvalue (fentry_of (k, v)) = reread_value_file v.
Proof.
  unfold fentry_of, reread_value_file, pvalue. cbn [fst snd].
  pose proof (split_on_nonempty LF v) as Hn.
  destruct (split_on LF v) as [|v1 vs]; [congruence|].
  rewrite (strip_rstrip_sub py_isspace is_crlf) by exact is_crlf_pyspace.
  now rewrite strip_sep.
Qed.

(** * The whole paragraph *)

Section ParaFile.
Variable ws : bool.

Lemma file_lines_dump d :
  fields_ok ws d ->
  file_lines (dump d) = map (fun l => l ++ [LF]) (concat (map flines d)).
Proof.
  intros H. unfold file_lines. rewrite dump_flines.
  rewrite splitlines_unlines; [reflexivity| |reflexivity].
  induction d as [|[k v] d IH]; [reflexivity|].
  destruct (H (k, v) (or_introl eq_refl)) as (Hk & _). cbn [fst] in Hk.
  cbn [map concat]. rewrite forallb_app. apply andb_true_iff. split.
  - eapply forallb_impl; [|apply flines_lf_free; now apply valid_field_name_no_linebreak].
    apply lf_free_lb_free.
  - apply IH. intros kv Hin. apply H. now right.
Qed.

Lemma fentries_ok d : fields_ok ws d -> forallb pentry_ok (map fentry_of d) = true.
Proof.
  induction d as [|[k v] d IH]; intros H; [reflexivity|].
  destruct (H (k, v) (or_introl eq_refl)) as (Hk & Hd & Hv & _). cbn [fst snd] in *.
  cbn [map forallb]. rewrite accepted_fentry_ok by assumption. apply IH.
  intros kv Hin. apply H. now right.
Qed.

Lemma fentries_stripped d :
  fields_ok ws d ->
  map strip_crlf (map (fun l => l ++ [LF]) (concat (map flines d)))
  = concat (map plines (map fentry_of d)).
Proof.
  induction d as [|[k v] d IH]; intros H; [reflexivity|].
  destruct (H (k, v) (or_introl eq_refl)) as (Hk & Hd & Hv & _). cbn [fst snd] in *.
  cbn [map concat]. rewrite !map_app, flines_stripped by assumption. f_equal. apply IH.
  intros kv Hin. apply H. now right.
Qed.

Lemma fentries_okraws d :
  fields_ok ws d -> forallb (okraw ws) (map (fun l => l ++ [LF]) (concat (map flines d))) = true.
Proof.
  induction d as [|[k v] d IH]; intros H; [reflexivity|].
  destruct (H (k, v) (or_introl eq_refl)) as (Hk & Hd & Hv & Hb). cbn [fst snd] in *.
  cbn [map concat]. rewrite map_app, forallb_app, okraws_file_entry by assumption. apply IH.
  intros kv Hin. apply H. now right.
Qed.

Lemma fentries_ppara d : ppara (map fentry_of d) = reread_para_file d.
Proof.
  induction d as [|[k v] d IH]; [reflexivity|].
  unfold ppara, reread_para_file in *. cbn [map]. rewrite pvalue_fentry. f_equal; [|exact IH].
  unfold fentry_of, pkey. cbn [fst snd]. destruct (split_on LF v); reflexivity.
Qed.

Lemma fentries_keys d : map pkey (map fentry_of d) = names d.
Proof.
  unfold names. rewrite map_map. apply map_ext. intros [k v].
  unfold fentry_of, pkey. cbn [fst snd]. destruct (split_on LF v); reflexivity.
Qed.

Theorem reread_infile d :
  para_dom d = true -> all_accepted d = true -> d <> [] ->
  (ws = true -> para_no_blank_cont d = true) ->
  iter_paragraphs CDeb822 ws (InFile (dump d)) = Ok [reread_para_file d].
Proof.
  intros Hd Ha Hne Hb. pose proof (fields_ok_of ws d Hd Ha Hb) as Hf.
  unfold iter_paragraphs. cbn [lines_of]. rewrite file_lines_dump by exact Hf.
  rewrite (iter_lines_para ws (map fentry_of d)).
  - now rewrite fentries_ppara.
  - destruct d; [congruence|discriminate].
  - now apply fentries_ok.
  - rewrite fentries_keys. now destruct (para_dom_inv _ Hd) as (_ & H2 & _).
  - now apply fentries_stripped.
  - now apply fentries_okraws.
Qed.

End ParaFile.

Lemma names_reread_file d : names (reread_para_file d) = names d.
Proof. unfold names, reread_para_file. rewrite map_map. reflexivity. Qed.
