(** Tie by regeneration for C02 — proofs.  Gen/TrDeb822.v is regenerated from
    lib/debian/deb822.py on every run; this file proves each regenerated function equal to the
    model function of Deb822/Model.v on all inputs. *)
From Coq Require Import Lia.
From Verif Require Import Lib.Base Lib.PyStr Lib.PySlice Lib.Tr Gen.PyChars
  Deb822.Model Deb822.Spec Deb822.TrPrims Gen.TrDeb822.

(** * Small facts about the primitives *)

Lemma dropwhile_ext {A} (p q : A -> bool) (s : list A) :
  (forall c, p c = q c) -> dropwhile p s = dropwhile q s.
Proof.
  intros H. induction s as [|c s IH]; cbn [dropwhile]; [reflexivity|].
  rewrite <- H. destruct (p c); [exact IH|reflexivity].
Qed.

Lemma in_chars_crlf c : in_chars [13; 10]%N c = is_crlf c.
Proof. unfold in_chars, is_crlf, CR, LF. cbn [existsb]. now rewrite Bool.orb_false_r. Qed.

Lemma trp_rstrip_crlf l : trp_rstrip l [13; 10]%N = rstrip_by is_crlf l.
Proof.
  unfold trp_rstrip, rstrip_by, rdropwhile. f_equal. apply dropwhile_ext, in_chars_crlf.
Qed.

Lemma trp_strip_crlf l : trp_strip l [13; 10]%N = strip_crlf l.
Proof.
  unfold trp_strip, strip_crlf, strip_by, rstrip_by, lstrip_by, rdropwhile.
  rewrite (dropwhile_ext _ _ l in_chars_crlf). f_equal. apply dropwhile_ext, in_chars_crlf.
Qed.

Lemma tr_is_nil_eq {A} (l : list A) : tr_is_nil l = is_nil l.
Proof. reflexivity. Qed.

(** * _skip_useless_lines *)

(** The generator as a function on the whole line list: comment lines dropped everywhere, lines
    that are empty after rstrip('\r\n') dropped while [at_beg]. *)
Fixpoint skip_useless (at_beg : bool) (ls : list str) : list str :=
  match ls with
  | [] => []
  | l :: ls' =>
    if startswith [HASH] l then skip_useless at_beg ls'
    else if at_beg && is_nil (rstrip_by is_crlf l) then skip_useless at_beg ls'
    else l :: skip_useless false ls'
  end.

Lemma skip_loop_eq b seq : forall it out ab,
  tr_skip_useless_lines_loop1 it b seq out ab = Ok (out ++ skip_useless ab it).
Proof.
  induction it as [|l it IH]; intros out ab; cbn [tr_skip_useless_lines_loop1 skip_useless].
  - now rewrite app_nil_r.
  - rewrite !trp_rstrip_crlf, !Bool.negb_involutive, !tr_is_nil_eq.
    change (trp_startswith l [35]%N) with (startswith [HASH] l).
    destruct (trp_isinstance b l TyBytes); destruct (startswith [HASH] l); try apply IH.
    all: destruct ab; cbn [andb].
    all: try (destruct (is_nil (rstrip_by is_crlf l)); [apply IH|]).
    all: rewrite IH, <- app_assoc; reflexivity.
Qed.

Lemma tr_skip_useless_lines_eq b ls :
  tr_skip_useless_lines b ls = Ok (skip_useless true ls).
Proof. unfold tr_skip_useless_lines. now rewrite skip_loop_eq. Qed.

(** * split_gpg_and_payload *)

(** strict.get('whitespace-separates-paragraphs', True) after [if not strict: strict = {}] *)
Definition ws_key : str :=
  [119; 104; 105; 116; 101; 115; 112; 97; 99; 101; 45; 115; 101; 112; 97; 114; 97; 116; 101; 115; 45;
   112; 97; 114; 97; 103; 114; 97; 112; 104; 115]%N.
Definition ws_of (s : trp_strict) : bool :=
  match s with
  | Some l => match trp_assoc l ws_key with Some v => v | None => true end
  | None => true
  end.
Definition pat_of (ws : bool) : trp_blank_pat := if ws then BlankWs else BlankNoWs.

Lemma trp_blank_match_pat ws line : trp_blank_match (pat_of ws) line = blank_line ws line.
Proof. destruct ws; reflexivity. Qed.

Lemma consume_false_cons ws ab g l ls :
  consume false ws ab g (l :: ls)
  = let (g', brk) := gpg_step ws g l in if brk then (g', ls) else consume false ws false g' ls.
Proof. reflexivity. Qed.

Lemma split_loop_eq b seq strict ws : forall it pre lines post st first ab,
  tr_split_gpg_and_payload_loop1 it b seq strict pre lines post st (pat_of ws) first
  = gpg_result (fst (consume false ws ab (mkG first st pre lines post) it)).
Proof.
  induction it as [|l it IH]; intros pre lines post st first ab.
  - cbn [tr_split_gpg_and_payload_loop1 consume fst gpg_result g_lines g_pre g_post].
    destruct lines; reflexivity.
  - rewrite consume_false_cons. cbn [tr_split_gpg_and_payload_loop1].
    unfold gpg_step, trp_encode, trp_initial_blank_match, trp_gpgre_match.
    cbn [g_first g_state g_pre g_lines g_post].
    rewrite !trp_strip_crlf, !trp_blank_match_pat, !Bool.negb_involutive.
    change (@tr_is_nil str) with (@is_nil str).
    set (line := strip_crlf l).
    destruct (trp_isinstance b l TyStr).
    all: destruct first; cbn [andb].
    all: try (destruct (blank_ws line) eqn:Hbw; [apply IH|]).
    all: destruct (match_gpgre line) as [[[|] what]|]; cbn [tr_is_some negb tr_unwrap bind trp_group_action trp_group_what fst snd].
    all: try change (str_eqb s_BEGIN [66; 69; 71; 73; 78]%N) with true.
    all: try change (str_eqb s_END [66; 69; 71; 73; 78]%N) with false.
    all: try change (str_eqb s_END [69; 78; 68]%N) with true.
    all: cbv iota.
    all: change [83; 65; 70; 69]%N with s_SAFE;
         change [83; 73; 71; 78; 69; 68; 32; 77; 69; 83; 83; 65; 71; 69]%N with s_SIGNED_MESSAGE;
         change [83; 73; 71; 78; 65; 84; 85; 82; 69]%N with s_SIGNATURE.
    all: try (destruct (str_eqb st s_SAFE); [|destruct (str_eqb st s_SIGNED_MESSAGE); [|destruct (str_eqb st s_SIGNATURE)]]).
    all: destruct (blank_line ws line); cbn [negb].
    all: destruct lines as [|l0 lines0]; destruct pre as [|p0 pre0]; cbn [is_nil negb].
    all: try apply IH.
    all: try reflexivity.
Qed.

Lemma strict_prelude (s : trp_strict) :
  trp_strict_get (if negb (trp_strict_bool s) then trp_strict_empty else s) ws_key true = Ok (ws_of s).
Proof. destruct s as [[|kv l]|]; reflexivity. Qed.

(** (a) on a list of lines: the result of the model's function (the model also returns what is
    left of the iterator, see (b)) *)
Lemma tr_split_gpg_and_payload_eq b ls strict :
  tr_split_gpg_and_payload b ls strict = fst (split_gpg_and_payload (ws_of strict) ls).
Proof.
  unfold tr_split_gpg_and_payload, split_gpg_and_payload.
  pose proof (strict_prelude strict) as Hs. fold ws_key.
  destruct (negb (trp_strict_bool strict)); rewrite Hs; cbn [bind].
  all: destruct (ws_of strict); change BlankWs with (pat_of true); change BlankNoWs with (pat_of false).
  all: rewrite (split_loop_eq b ls _ _ ls [] [] [] s_SAFE true true).
  all: fold gpg_init; destruct (consume false _ true gpg_init ls); reflexivity.
Qed.

(** (b) on an iterator: result and rest of the iterator, on return and on EOFError alike *)
Definition mres_of {A S} (r : result A) (s : S) : mres A S :=
  match r with Ok a => MOk a s | Err e => MErr e s end.

Lemma split_it_loop_eq b strict ws : forall it fuel pre lines post st first ab,
  (length it < fuel)%nat ->
  tr_split_gpg_and_payload_it_loop1 fuel b strict it pre lines post st (pat_of ws) first
  = let (g, rest) := consume false ws ab (mkG first st pre lines post) it in mres_of (gpg_result g) rest.
Proof.
  induction it as [|l it IH]; intros fuel pre lines post st first ab Hf;
    (destruct fuel as [|fuel]; [cbn [length] in Hf; lia|]).
  - cbn [tr_split_gpg_and_payload_it_loop1 consume gpg_result g_lines g_pre g_post].
    destruct lines; reflexivity.
  - cbn [length] in Hf. assert (Hf' : (length it < fuel)%nat) by lia.
    rewrite consume_false_cons. cbn [tr_split_gpg_and_payload_it_loop1].
    unfold gpg_step, trp_encode, trp_initial_blank_match, trp_gpgre_match.
    cbn [g_first g_state g_pre g_lines g_post].
    rewrite !trp_strip_crlf, !trp_blank_match_pat, !Bool.negb_involutive.
    change (@tr_is_nil str) with (@is_nil str).
    set (line := strip_crlf l).
    destruct (trp_isinstance b l TyStr).
    all: destruct first; cbn [andb].
    all: try (destruct (blank_ws line) eqn:Hbw; [apply IH; exact Hf'|]).
    all: destruct (match_gpgre line) as [[[|] what]|]; cbn [tr_is_some negb tr_unwrap bind trp_group_action trp_group_what fst snd].
    all: try change (str_eqb s_BEGIN [66; 69; 71; 73; 78]%N) with true.
    all: try change (str_eqb s_END [66; 69; 71; 73; 78]%N) with false.
    all: try change (str_eqb s_END [69; 78; 68]%N) with true.
    all: cbv iota.
    all: change [83; 65; 70; 69]%N with s_SAFE;
         change [83; 73; 71; 78; 69; 68; 32; 77; 69; 83; 83; 65; 71; 69]%N with s_SIGNED_MESSAGE;
         change [83; 73; 71; 78; 65; 84; 85; 82; 69]%N with s_SIGNATURE.
    all: try (destruct (str_eqb st s_SAFE); [|destruct (str_eqb st s_SIGNED_MESSAGE); [|destruct (str_eqb st s_SIGNATURE)]]).
    all: destruct (blank_line ws line); cbn [negb].
    all: destruct lines as [|l0 lines0]; destruct pre as [|p0 pre0]; cbn [is_nil negb].
    all: try (apply IH; exact Hf').
    all: try reflexivity.
Qed.

Lemma tr_split_gpg_and_payload_it_eq b ls strict :
  tr_split_gpg_and_payload_it b ls strict
  = let (r, rest) := split_gpg_and_payload (ws_of strict) ls in mres_of r rest.
Proof.
  unfold tr_split_gpg_and_payload_it, split_gpg_and_payload.
  pose proof (strict_prelude strict) as Hs. fold ws_key.
  destruct (negb (trp_strict_bool strict)); rewrite Hs.
  all: destruct (ws_of strict); change BlankWs with (pat_of true); change BlankNoWs with (pat_of false).
  all: rewrite (split_it_loop_eq b _ _ ls (S (length ls)) [] [] [] s_SAFE true true) by lia.
  all: fold gpg_init; destruct (consume false _ true gpg_init ls); reflexivity.
Qed.

(** * gpg_stripped_paragraph *)

Lemma tr_gpg_stripped_paragraph_eq b ls strict :
  tr_gpg_stripped_paragraph b ls strict
  = match fst (split_gpg_and_payload (ws_of strict) ls) with
    | Ok (_, lines, _) => Ok lines
    | Err e => Err e
    end.
Proof.
  unfold tr_gpg_stripped_paragraph. rewrite tr_split_gpg_and_payload_eq.
  destruct (fst (split_gpg_and_payload (ws_of strict) ls)) as [[[p l] q]|e]; reflexivity.
Qed.

(** * The generator feeds the split lazily: [consume true] = [consume false] after the filter *)

(** The model fuses _skip_useless_lines into the loop of split_gpg_and_payload ([consume true]):
    it reads the shared iterator only as far as the split gets.  The translated code applies the
    generator to the whole sequence first.  Same state; and what the model leaves in the
    iterator, filtered, is what the split leaves of the filtered list. *)
Lemma consume_skip ws : forall ls ab g,
  consume false ws ab g (skip_useless ab ls)
  = let (g', r) := consume true ws ab g ls in (g', skip_useless false r).
Proof.
  induction ls as [|l ls IH]; intros ab g; cbn [skip_useless consume andb]; [reflexivity|].
  destruct (startswith [HASH] l); [apply IH|].
  destruct (ab && is_nil (rstrip_by is_crlf l)); [apply IH|].
  rewrite consume_false_cons.
  destruct (gpg_step ws g l) as [g' [|]]; [reflexivity|apply IH].
Qed.

Lemma consume_skip_fst ws ls ab g :
  fst (consume false ws ab g (skip_useless ab ls)) = fst (consume true ws ab g ls).
Proof. rewrite consume_skip. now destruct (consume true ws ab g ls). Qed.

(** * _internal_parser *)

(** the field loop with the mapping as state: on ValueError the mapping is the one reached
    before the failing store (validation precedes mutation) *)
Fixpoint parse_st (d : dict) (curkey : option str) (content : str) (ls : list str) : mres unit dict :=
  match ls with
  | [] => match flush d curkey content with Ok d' => MOk tt d' | Err e => MErr e d end
  | line :: ls' =>
    match match_single line with
    | Some (k, data) =>
      match flush d curkey content with Ok d' => parse_st d' (Some k) data ls' | Err e => MErr e d end
    | None =>
      match match_multi line with
      | Some k =>
        match flush d curkey content with Ok d' => parse_st d' (Some k) [] ls' | Err e => MErr e d end
      | None =>
        match match_multidata line with
        | Some _ => parse_st d curkey (content ++ LF :: line) ls'
        | None => parse_st d curkey content ls'
        end
      end
    end
  end.

Definition mres_result {A S} (m : mres A S) : result S :=
  match m with MOk _ s => Ok s | MErr e _ => Err e end.

Lemma parse_st_fields_loop : forall ls d curkey content,
  mres_result (parse_st d curkey content ls) = fields_loop d curkey content ls.
Proof.
  induction ls as [|line ls IH]; intros d curkey content; cbn [parse_st fields_loop].
  - destruct (flush d curkey content); reflexivity.
  - destruct (match_single line) as [[k data]|].
    + destruct (flush d curkey content); cbn [bind]; [apply IH|reflexivity].
    + destruct (match_multi line) as [k|].
      * destruct (flush d curkey content); cbn [bind]; [apply IH|reflexivity].
      * destruct (match_multidata line); apply IH.
Qed.

(** ** validate_input and __setitem__ (translated; called by [self[curkey] = content]) *)

Lemma tr_slice_tl {A} (l : list A) : tr_slice l (Some 1%Z) None = tl l.
Proof.
  unfold tr_slice, PySlice.slice, PySlice.clamp_index. destruct l as [|x l]; [reflexivity|].
  cbn [length tl].
  replace (1 <? 0)%Z with false by reflexivity.
  replace (Z.of_nat (S (length l)) <? 0)%Z with false by (symmetry; apply Z.ltb_ge; lia).
  rewrite Z.min_id, Nat2Z.id, Z.min_l by lia.
  change (Z.to_nat 1) with 1%nat. cbn [skipn]. replace (S (length l) - 1)%nat with (length l) by lia.
  apply firstn_all.
Qed.

Lemma validate_loop_eq b k v d : forall ls,
  tr_validate_input_loop1 ls b k v d = mres_of (check_cont_lines ls) d.
Proof.
  induction ls as [|l ls IH]; cbn [tr_validate_input_loop1 check_cont_lines]; [reflexivity|].
  destruct l as [|c l]; [reflexivity|]. cbn [tr_is_nil negb].
  change (tr_index (c :: l) 0) with (Ok c). unfold trp_char_isspace.
  destruct (py_isspace c); cbn [negb]; [apply IH|reflexivity].
Qed.

(** validate_input: the model's function; the mapping is untouched *)
Lemma tr_validate_input_eq b d k v :
  tr_validate_input b d k v = mres_of (validate_input v) d.
Proof.
  unfold tr_validate_input, validate_input, trp_endswith, trp_splitlines. fold LF.
  change [10%N] with [LF].
  destruct (endswith [LF] v); [reflexivity|]. rewrite tr_slice_tl. apply validate_loop_eq.
Qed.

(** Deb822.__setitem__: the model's [setitem]; on ValueError the mapping is unchanged *)
Lemma tr_setitem_eq b d k v :
  tr_setitem b d k v = match setitem d k v with Ok d' => MOk tt d' | Err e => MErr e d end.
Proof.
  unfold tr_setitem, setitem, trp_dict_setitem. rewrite tr_validate_input_eq.
  destruct (validate_input v) as [[]|e]; reflexivity.
Qed.

Lemma parser_loop_eq b seq strict : forall it d curkey content,
  tr_internal_parser_loop1 it b seq None strict d curkey content = parse_st d curkey content it.
Proof.
  induction it as [|line it IH]; intros d curkey content; cbn [tr_internal_parser_loop1 parse_st].
  - unfold flush.
    destruct curkey as [[|c k]|]; cbn [tr_opt_truthy]; try reflexivity.
    rewrite tr_setitem_eq. destruct (setitem d (c :: k) content); reflexivity.
  - unfold trp_decode, trp_single_match, trp_multi_match, trp_multidata_match.
    destruct (match_single line) as [[k data]|]; cbn [tr_is_some].
    + unfold flush, tr_wanted_field.
      cbn [tr_unwrap trp_group_key trp_group_data fst snd negb].
      destruct curkey as [[|c k']|]; cbn [tr_opt_truthy]; try apply IH.
      rewrite tr_setitem_eq.
      destruct (setitem d (c :: k') content); [apply IH|reflexivity].
    + destruct (match_multi line) as [k|]; cbn [tr_is_some].
      * unfold flush, tr_wanted_field.
        cbn [tr_unwrap trp_group_key trp_group_data fst snd negb].
        destruct curkey as [[|c k']|]; cbn [tr_opt_truthy]; try apply IH.
        rewrite tr_setitem_eq.
        destruct (setitem d (c :: k') content); [apply IH|reflexivity].
      * destruct (match_multidata line); cbn [tr_is_some]; apply IH.
Qed.

(** the whole method on a line sequence, [fields=None]: EOFError ([OtherError]) when the block
    has no payload line, else the field loop on the payload of the first block *)
Definition internal_parser_direct (ws : bool) (d : dict) (ls : list str) : mres unit dict :=
  let (g, _) := consume true ws true gpg_init ls in
  match g_lines g with
  | [] => MErr OtherError d
  | lines => parse_st d None [] lines
  end.

Lemma tr_internal_parser_eq b d ls strict :
  tr_internal_parser b d ls None strict = internal_parser_direct (ws_of strict) d ls.
Proof.
  unfold tr_internal_parser, internal_parser_direct. cbn [trp_seq_is_text].
  rewrite tr_skip_useless_lines_eq, tr_gpg_stripped_paragraph_eq.
  unfold split_gpg_and_payload.
  pose proof (consume_skip_fst (ws_of strict) ls true gpg_init) as H.
  destruct (consume false (ws_of strict) true gpg_init (skip_useless true ls)) as [g r].
  destruct (consume true (ws_of strict) true gpg_init ls) as [g' r']. cbn [fst] in H |- *. subst g'.
  unfold gpg_result. destruct (g_lines g) as [|l0 lines]; [reflexivity|].
  apply parser_loop_eq.
Qed.

(** Deb822.__init__ wraps the call in [try: … except EOFError: pass] (not translated: glue) *)
Definition catch_eof (m : mres unit dict) : result dict :=
  match m with
  | MOk _ d => Ok d
  | MErr OtherError d => Ok d
  | MErr e _ => Err e
  end.

Lemma flush_err d curkey content e : flush d curkey content = Err e -> e = ValueError.
Proof.
  unfold flush, setitem, validate_input. destruct curkey as [[|c k]|]; try discriminate.
  destruct (endswith [LF] content); [now intros [= <-]|].
  generalize (tl (splitlines py_islinebreak false content)). intros l.
  induction l as [|x l IHl]; cbn [check_cont_lines bind]; [discriminate|].
  destruct x as [|c0 x]; [now intros [= <-]|].
  destruct (py_isspace c0); [exact IHl|now intros [= <-]].
Qed.

Lemma parse_st_err : forall ls d curkey content e d',
  parse_st d curkey content ls = MErr e d' -> e = ValueError.
Proof.
  induction ls as [|line ls IH]; intros d curkey content e d'; cbn [parse_st].
  - destruct (flush d curkey content) eqn:Hf; [discriminate|]. intros [= <- _]. eapply flush_err, Hf.
  - destruct (match_single line) as [[k data]|].
    + destruct (flush d curkey content) eqn:Hf; [apply IH|]. intros [= <- _]. eapply flush_err, Hf.
    + destruct (match_multi line) as [k|].
      * destruct (flush d curkey content) eqn:Hf; [apply IH|]. intros [= <- _]. eapply flush_err, Hf.
      * destruct (match_multidata line); apply IH.
Qed.

(** … and with that glue, on a fresh object: the model's constructor *)
Lemma tr_internal_parser_init b ls strict :
  catch_eof (tr_internal_parser b [] ls None strict) = fst (deb822_init (ws_of strict) ls).
Proof.
  rewrite tr_internal_parser_eq. unfold internal_parser_direct, deb822_init.
  destruct (consume true (ws_of strict) true gpg_init ls) as [g r].
  destruct (g_lines g) as [|l0 lines]; [reflexivity|]. cbn [fst].
  rewrite <- parse_st_fields_loop.
  destruct (parse_st [] None [] (l0 :: lines)) as [u d|e d] eqn:Hp; [reflexivity|].
  apply parse_st_err in Hp. subst e. reflexivity.
Qed.

(** * The writer: get_as_string, _dump_format, _dump_str *)

(** the mapping's invariant: names pairwise distinct ignoring case ([Spec.distinct_keys], part of
    [valid_para]); every mapping built by assignment from the empty one has it *)
Lemma key_eqb_refl k : key_eqb k k = true.
Proof. apply str_eqb_refl. Qed.

Lemma dict_set_keys_fresh : forall d k v,
  existsb (str_eqb (ascii_lower k)) (map ascii_lower (keys d)) = false ->
  keys (dict_set d k v) = keys d ++ [k].
Proof.
  induction d as [|[k' v'] d IH]; intros k v H; cbn [dict_set keys map app]; [reflexivity|].
  cbn [keys map existsb fst] in H. apply Bool.orb_false_iff in H as [H1 H2].
  unfold key_eqb. destruct (str_eqb (ascii_lower k') (ascii_lower k)) eqn:E.
  - apply str_eqb_eq in E. rewrite E, str_eqb_refl in H1. discriminate.
  - cbn [map fst]. f_equal. apply IH. exact H2.
Qed.

Lemma dict_set_keys_present : forall d k v,
  existsb (str_eqb (ascii_lower k)) (map ascii_lower (keys d)) = true ->
  keys (dict_set d k v) = keys d.
Proof.
  induction d as [|[k' v'] d IH]; intros k v H; cbn [dict_set keys map]; [discriminate|].
  cbn [keys map existsb fst] in H. unfold key_eqb.
  destruct (str_eqb (ascii_lower k') (ascii_lower k)) eqn:E; [reflexivity|].
  cbn [map fst]. f_equal. apply IH.
  destruct (str_eqb (ascii_lower k) (ascii_lower k')) eqn:E'; [|exact H].
  apply str_eqb_eq in E'. rewrite E', str_eqb_refl in E. discriminate.
Qed.

Lemma distinct_keys_snoc : forall ks k,
  distinct_keys ks = true ->
  existsb (str_eqb (ascii_lower k)) (map ascii_lower ks) = false ->
  distinct_keys (ks ++ [k]) = true.
Proof.
  induction ks as [|x ks IH]; intros k Hd Hk; cbn [app distinct_keys]; [reflexivity|].
  cbn [distinct_keys] in Hd. apply Bool.andb_true_iff in Hd as [Hx Hd].
  cbn [map existsb] in Hk. apply Bool.orb_false_iff in Hk as [Hk1 Hk2].
  rewrite IH by assumption. rewrite Bool.andb_true_r.
  rewrite map_app, existsb_app. cbn [map existsb].
  apply Bool.negb_true_iff in Hx. rewrite Hx. cbn [orb]. rewrite Bool.orb_false_r.
  destruct (str_eqb (ascii_lower x) (ascii_lower k)) eqn:E; [|reflexivity].
  apply str_eqb_eq in E. rewrite E, str_eqb_refl in Hk1. discriminate.
Qed.

Lemma dict_set_distinct d k v :
  distinct_keys (keys d) = true -> distinct_keys (keys (dict_set d k v)) = true.
Proof.
  intros Hd. destruct (existsb (str_eqb (ascii_lower k)) (map ascii_lower (keys d))) eqn:E.
  - now rewrite dict_set_keys_present.
  - rewrite dict_set_keys_fresh by exact E. now apply distinct_keys_snoc.
Qed.

Lemma setitem_distinct d k v d' :
  distinct_keys (keys d) = true -> setitem d k v = Ok d' -> distinct_keys (keys d') = true.
Proof.
  unfold setitem. destruct (validate_input v); cbn [bind]; [|discriminate].
  intros Hd [= <-]. now apply dict_set_distinct.
Qed.

(** self[key] for a name taken from the mapping itself *)
Lemma getitem_member : forall pfx k v rest,
  distinct_keys (keys (pfx ++ (k, v) :: rest)) = true ->
  trp_getitem (pfx ++ (k, v) :: rest) k = Ok v.
Proof.
  induction pfx as [|[k' v'] pfx IH]; intros k v rest Hd; cbn [app trp_getitem].
  - now rewrite key_eqb_refl.
  - cbn [app keys map fst distinct_keys] in Hd. apply Bool.andb_true_iff in Hd as [Hx Hd].
    apply Bool.negb_true_iff in Hx. unfold keys in Hx. rewrite !map_app, existsb_app in Hx.
    apply Bool.orb_false_iff in Hx as [_ Hx]. cbn [map existsb fst] in Hx.
    apply Bool.orb_false_iff in Hx as [Hx _].
    unfold key_eqb. rewrite Hx. apply IH. exact Hd.
Qed.

Lemma dump_format_loop_eq d : forall sfx pfx out,
  d = pfx ++ sfx -> distinct_keys (keys d) = true ->
  tr_dump_format_loop1 (keys sfx) d out = Ok (out ++ map dump_entry sfx).
Proof.
  induction sfx as [|[k v] sfx IH]; intros pfx out Hd Hk; cbn [keys map tr_dump_format_loop1 fst].
  - now rewrite app_nil_r.
  - unfold tr_get_as_string, trp_str_of_str.
    rewrite Hd at 1. rewrite getitem_member by (rewrite <- Hd; exact Hk). cbn [bind].
    rewrite Bool.negb_involutive.
    assert (E : forall (K : str -> result (list str)),
      (do t <- (if tr_is_nil v then Ok true else do c <- tr_index v 0; Ok (c =? 10)%N);
       if t then K ([]%N ++ k ++ [58]%N ++ v ++ [10]%N) else K ([]%N ++ k ++ [58; 32]%N ++ v ++ [10]%N))
      = K (dump_entry (k, v))).
    { intros K. destruct v as [|c v]; [reflexivity|]. cbn [tr_is_nil dump_entry].
      change (tr_index (c :: v) 0) with (Ok c). cbn [bind]. fold LF.
      destruct (c =? LF)%N; reflexivity. }
    rewrite (E (fun entry => tr_dump_format_loop1 (map fst sfx) d (out ++ [entry]))).
    fold (keys sfx). rewrite (IH (pfx ++ [(k, v)])) by (try rewrite <- app_assoc; assumption).
    now rewrite <- app_assoc.
Qed.

Lemma tr_dump_format_eq d :
  distinct_keys (keys d) = true -> tr_dump_format d = Ok (map dump_entry d).
Proof.
  intros Hk. unfold tr_dump_format, trp_keys. now rewrite (dump_format_loop_eq d d [] []).
Qed.

Lemma join_nil_concat (ls : list str) : join [] ls = concat ls.
Proof.
  unfold join. induction ls as [|l ls IH]; [reflexivity|].
  cbn [intersperse_concat concat]. destruct ls as [|l' ls]; [now rewrite app_nil_r|].
  rewrite IH. reflexivity.
Qed.

Lemma tr_dump_str_eq d :
  distinct_keys (keys d) = true -> tr_dump_str d = Ok (dump d).
Proof.
  intros Hk. unfold tr_dump_str, trp_join, dump. rewrite tr_dump_format_eq by exact Hk.
  cbn [bind]. now rewrite join_nil_concat.
Qed.

(** get_as_string on its own: the model's lookup *)
Lemma tr_get_as_string_eq d k : tr_get_as_string d k = trp_getitem d k.
Proof. unfold tr_get_as_string, trp_str_of_str. destruct (trp_getitem d k); reflexivity. Qed.

(** the reader establishes the writer's guard *)
Lemma flush_distinct d ck c d' :
  distinct_keys (keys d) = true -> flush d ck c = Ok d' -> distinct_keys (keys d') = true.
Proof.
  unfold flush. destruct ck as [[|x k]|]; try (intros H [= <-]; exact H).
  intros H. now apply setitem_distinct.
Qed.

Lemma fields_loop_distinct : forall ls d ck c d',
  distinct_keys (keys d) = true -> fields_loop d ck c ls = Ok d' -> distinct_keys (keys d') = true.
Proof.
  induction ls as [|line ls IH]; intros d ck c d' Hd; cbn [fields_loop].
  - now apply flush_distinct.
  - destruct (match_single line) as [[k data]|].
    + destruct (flush d ck c) as [d1|] eqn:Hf; cbn [bind]; [|discriminate].
      apply IH. eapply flush_distinct; eassumption.
    + destruct (match_multi line) as [k|].
      * destruct (flush d ck c) as [d1|] eqn:Hf; cbn [bind]; [|discriminate].
        apply IH. eapply flush_distinct; eassumption.
      * destruct (match_multidata line); now apply IH.
Qed.

Lemma deb822_init_distinct ws ls d :
  fst (deb822_init ws ls) = Ok d -> distinct_keys (keys d) = true.
Proof.
  unfold deb822_init. destruct (consume true ws true gpg_init ls) as [g r].
  destruct (g_lines g) as [|l0 lines]; cbn [fst]; [now intros [= <-]|].
  now apply fields_loop_distinct.
Qed.

(** what the constructor read can be written: reader and writer composed *)
Lemma tr_read_then_dump b ls strict d :
  catch_eof (tr_internal_parser b [] ls None strict) = Ok d -> tr_dump_str d = Ok (dump d).
Proof.
  rewrite tr_internal_parser_init. intros H. apply tr_dump_str_eq. eapply deb822_init_distinct, H.
Qed.

Lemma tr_internal_parser_result b d ls strict :
  mres_result (tr_internal_parser b d ls None strict)
  = let (g, _) := consume true (ws_of strict) true gpg_init ls in
    match g_lines g with
    | [] => Err OtherError
    | lines => fields_loop d None [] lines
    end.
Proof.
  rewrite tr_internal_parser_eq. unfold internal_parser_direct.
  destruct (consume true (ws_of strict) true gpg_init ls) as [g r].
  destruct (g_lines g) as [|l0 lines]; [reflexivity|]. apply parse_st_fields_loop.
Qed.

Lemma tr_wanted_field_none f : tr_wanted_field None f = Ok true.
Proof. reflexivity. Qed.
