(** MODEL of the Deb822 reader/writer of /repo/lib/debian/deb822.py as it is now
    (properties C02 and C08).  No proofs in this file.

    Transcribed (Python name -> Gallina name):
      Deb822._key_part/_single/_multi/_multidata   -> [match_key_part] [match_single] [match_multi] [match_multidata]
      Deb822._gpgre                                 -> [match_gpgre]
      Deb822._initial_blank_line/_blank_line_*      -> [blank_ws] [blank_nows] [blank_line]
      Deb822._skip_useless_lines (generator)        -> the two [skip] tests of [consume]
      Deb822.split_gpg_and_payload                  -> [gpg_step] (loop body) + [consume] + [split_gpg_and_payload]
      Deb822._internal_parser                       -> [fields_loop] / [deb822_init]
      _gpg_multivalued.__init__ (Dsc, Changes)      -> [gpgmv_split] / [gpgmv_init]
      Deb822.validate_input / __setitem__           -> [validate_input] / [setitem]
      Deb822Dict.__setitem__ (+ OrderedSet.add)     -> [dict_set] on an association list
      Deb822._dump_format / dump()                  -> [dump_entry] / [dump]
      Deb822.__init__ / iter_paragraphs             -> [deb822_new] / [iter_paragraphs]

    Text is [list N] of CODE POINTS in every input form.  The bytes forms go
    through UTF-8 in the code ([line_.encode()] in split_gpg_and_payload,
    [self.decoder.decode(linebytes)] in _internal_parser).  ABSTRACTION: the
    model does not contain the codec; a bytes input is represented by the code
    points of its UTF-8 decoding (the harness decodes/encodes).  This is exact
    for valid UTF-8 because every byte-level operation applied before decoding
    - bytes.splitlines (LF, CR, CRLF only), startswith(b'#'), rstrip/strip(b'\r\n'),
    the bytes patterns _gpgre and ^\s*$ whose classes are ASCII - only inspects
    bytes < 128, and UTF-8 never uses such a byte inside a multi-byte sequence.
    Invalid UTF-8 (chardet fallback) and lone surrogates are outside the model.

    Keys compare by [ascii_lower] (str.lower() on ASCII names); [fields=None]. *)
From Verif Require Import Lib.Base Lib.PyStr Gen.PyChars.

Definition HASH : N := 35.
Definition COLON : N := 58.
Definition DASH : N := 45.

(** * Regex leaves *)

(** [^: \t\n\r\f\v] *)
Definition key_char (c : N) : bool := negb ((c =? COLON)%N || bytes_isspace c).

(** ^(?P<key>[^: \t\n\r\f\v]+)\s*:   -> (key, text after the colon).
    The key class contains no ':' and ':' is not \s, so the position of the colon
    is forced; the greedy choice (whole run) is the only one that can succeed. *)
Definition match_key_part (line : str) : option (str * str) :=
  let (run, r1) := span key_char line in
  match run with
  | [] => None
  | _ =>
    match dropwhile py_isspace r1 with
    | c :: rest => if (c =? COLON)%N then Some (run, rest) else None
    | [] => None
    end
  end.

(** (.*?)\s*$ after a fixed start: the lazy group is the text with trailing
    whitespace removed; '.' does not match LF. *)
Definition re_lazy_tail (r : str) : option str :=
  let p := rstrip_by py_isspace r in
  if mem_char LF p then None else Some p.

(** _single = _key_part + \s*(?P<data>\S.*?)\s*$   -> (key, data) *)
Definition match_single (line : str) : option (str * str) :=
  match match_key_part line with
  | None => None
  | Some (k, rest) =>
    match dropwhile py_isspace rest with
    | [] => None
    | c :: r =>
      match re_lazy_tail r with
      | Some p => Some (k, c :: p)
      | None => None
      end
    end
  end.

(** _multi = _key_part + \s*$   -> key *)
Definition match_multi (line : str) : option str :=
  match match_key_part line with
  | Some (k, rest) => if forallb py_isspace rest then Some k else None
  | None => None
  end.

(** _multidata = ^\s(?P<data>.+?)\s*$   -> data (the code only tests the match) *)
Definition match_multidata (line : str) : option str :=
  match line with
  | c0 :: r =>
    if py_isspace c0 then
      match r with
      | [] => None
      | r0 :: _ =>
        match rstrip_by py_isspace r with
        | [] => if (r0 =? LF)%N then None else Some [r0]
        | p => if mem_char LF p then None else Some p
        end
      end
    else None
  | [] => None
  end.

Fixpoint strip_prefix (pre s : str) : option str :=
  match pre, s with
  | [], _ => Some s
  | a :: pre', b :: s' => if (a =? b)%N then strip_prefix pre' s' else None
  | _ :: _, [] => None
  end.

Definition s_dashes : str := [45; 45; 45; 45; 45]%N.              (* ----- *)
Definition s_BEGIN : str := [66; 69; 71; 73; 78]%N.               (* BEGIN *)
Definition s_END : str := [69; 78; 68]%N.                         (* END *)
Definition s_PGP : str := [32; 80; 71; 80; 32]%N.                 (* " PGP " *)
Definition s_SAFE : str := [83; 65; 70; 69]%N.                    (* SAFE *)
Definition s_SIGNED_MESSAGE : str :=
  [83; 73; 71; 78; 69; 68; 32; 77; 69; 83; 83; 65; 71; 69]%N.     (* SIGNED MESSAGE *)
Definition s_SIGNATURE : str := [83; 73; 71; 78; 65; 84; 85; 82; 69]%N.  (* SIGNATURE *)

(** _gpgre = ^-----(?P<action>BEGIN|END) PGP (?P<what>[^-]+)-----[\r\t ]*$  (bytes)
    -> (action is BEGIN, what) *)
Definition match_gpgre (line : str) : option (bool * str) :=
  match strip_prefix s_dashes line with
  | None => None
  | Some r0 =>
    let act :=
      match strip_prefix s_BEGIN r0 with
      | Some r => Some (true, r)
      | None => match strip_prefix s_END r0 with
                | Some r => Some (false, r)
                | None => None
                end
      end in
    match act with
    | None => None
    | Some (b, r1) =>
      match strip_prefix s_PGP r1 with
      | None => None
      | Some r2 =>
        let (what, r3) := span (fun c => negb (c =? DASH)%N) r2 in
        match what with
        | [] => None
        | _ =>
          match strip_prefix s_dashes r3 with
          | None => None
          | Some r4 =>
            match dropwhile (in_chars [CR; TAB; SP]) r4 with
            | [] => Some (b, what)
            | [c] => if (c =? LF)%N then Some (b, what) else None
            | _ => None
            end
          end
        end
      end
    end
  end.

(** br'^\s*$' : \s of a bytes pattern is ASCII whitespace *)
Definition blank_ws (l : str) : bool := forallb bytes_isspace l.
(** br'^$' : '$' also matches before a final LF *)
Definition blank_nows (l : str) : bool :=
  match l with
  | [] => true
  | [c] => (c =? LF)%N
  | _ => false
  end.
(** strict.get('whitespace-separates-paragraphs', True) selects the pattern *)
Definition blank_line (ws_sep : bool) (l : str) : bool :=
  if ws_sep then blank_ws l else blank_nows l.

(** * split_gpg_and_payload *)

Definition is_crlf (c : N) : bool := (c =? CR)%N || (c =? LF)%N.
(** line.strip(b'\r\n') *)
Definition strip_crlf (l : str) : str := strip_by is_crlf l.

Record gpg := mkG {
  g_first : bool;          (* first_line *)
  g_state : str;           (* b'SAFE' | b'SIGNED MESSAGE' | b'SIGNATURE' | any other "what" *)
  g_pre : list str;        (* gpg_pre_lines *)
  g_lines : list str;      (* lines *)
  g_post : list str;       (* gpg_post_lines *)
}.
Definition gpg_init : gpg := mkG true s_SAFE [] [] [].

Definition is_nil {A} (l : list A) : bool := match l with [] => true | _ => false end.

(** One iteration of the [for line_ in sequence] loop; the boolean is [break]. *)
Definition gpg_step (ws_sep : bool) (g : gpg) (line_ : str) : gpg * bool :=
  let line := strip_crlf line_ in
  if g_first g && blank_ws line then (g, false)            (* skip initial blank lines *)
  else
    let st := g_state g in
    let pre := g_pre g in
    let lines := g_lines g in
    let post := g_post g in
    match match_gpgre line with
    | None =>
      if str_eqb st s_SAFE then
        if negb (blank_line ws_sep line) then (mkG false st pre (lines ++ [line]) post, false)
        else if is_nil pre then (mkG false st pre lines post, true)       (* no signature: stop here *)
        else (mkG false st pre lines post, false)                        (* blank line inside armour: swallowed *)
      else if str_eqb st s_SIGNED_MESSAGE then
        if blank_line ws_sep line then (mkG false s_SAFE pre lines post, false)
        else (mkG false st (pre ++ [line]) lines post, false)
      else if str_eqb st s_SIGNATURE then (mkG false st pre lines (post ++ [line]), false)
      else (mkG false st pre lines post, false)
    | Some (true, what) =>
      (* state = m.group('what'); then the common tail *)
      if negb (blank_line ws_sep line) then
        if is_nil lines then (mkG false what (pre ++ [line]) lines post, false)
        else (mkG false what pre lines (post ++ [line]), false)
      else (mkG false what pre lines post, false)
    | Some (false, _) =>
      (mkG false st pre lines (post ++ [line]), true)       (* END: append, break *)
    end.

(** The loop, reading from the shared line iterator [ls]; returns the final
    state and what is left of the iterator.  With [skip = true] the iterator is
    first filtered by the generator _skip_useless_lines (comment lines dropped
    everywhere; lines empty after rstrip('\r\n') dropped while [at_beg]). *)
Fixpoint consume (skip ws_sep at_beg : bool) (g : gpg) (ls : list str) : gpg * list str :=
  match ls with
  | [] => (g, [])
  | l :: ls' =>
    if skip && startswith [HASH] l then consume skip ws_sep at_beg g ls'
    else if skip && at_beg && is_nil (rstrip_by is_crlf l) then consume skip ws_sep at_beg g ls'
    else
      let (g', brk) := gpg_step ws_sep g l in
      if brk then (g', ls') else consume skip ws_sep false g' ls'
  end.

(** EOFError is reported as [OtherError] (it is always caught by the callers). *)
Definition gpg_result (g : gpg) : result (list str * list str * list str) :=
  match g_lines g with
  | [] => Err OtherError
  | _ => Ok (g_pre g, g_lines g, g_post g)
  end.

(** Deb822.split_gpg_and_payload(iter(ls), strict) and the rest of the iterator *)
Definition split_gpg_and_payload (ws_sep : bool) (ls : list str)
  : result (list str * list str * list str) * list str :=
  let (g, rest) := consume false ws_sep true gpg_init ls in (gpg_result g, rest).

(** * The mapping, validation, dump *)

Definition dict := list (str * str).

Definition key_eqb (a b : str) : bool := str_eqb (ascii_lower a) (ascii_lower b).

(** Deb822Dict.__setitem__: an existing key keeps its place and first spelling. *)
Fixpoint dict_set (d : dict) (k v : str) : dict :=
  match d with
  | [] => [(k, v)]
  | (k', v') :: d' => if key_eqb k' k then (k', v) :: d' else (k', v') :: dict_set d' k v
  end.

Definition keys (d : dict) : list str := map fst d.

(** for line in value.splitlines()[1:]: ... *)
Fixpoint check_cont_lines (ls : list str) : result unit :=
  match ls with
  | [] => Ok tt
  | l :: ls' =>
    match l with
    | [] => Err ValueError                                    (* blank line *)
    | c :: _ => if py_isspace c then check_cont_lines ls' else Err ValueError
    end
  end.

Definition validate_input (v : str) : result unit :=
  if endswith [LF] v then Err ValueError
  else check_cont_lines (tl (splitlines py_islinebreak false v)).

(** Deb822.__setitem__: validation precedes mutation. *)
Definition setitem (d : dict) (k v : str) : result dict :=
  do _ <- validate_input v; Ok (dict_set d k v).

(** one entry of _dump_format *)
Definition dump_entry (kv : str * str) : str :=
  let (k, v) := kv in
  match v with
  | [] => k ++ [COLON] ++ v ++ [LF]
  | c :: _ => if (c =? LF)%N then k ++ [COLON] ++ v ++ [LF]
              else k ++ [COLON; SP] ++ v ++ [LF]
  end.

(** dump() with fd=None *)
Definition dump (d : dict) : str := concat (map dump_entry d).

(** * _internal_parser *)

(** if curkey: self[curkey] = content *)
Definition flush (d : dict) (curkey : option str) (content : str) : result dict :=
  match curkey with
  | Some (c :: k) => setitem d (c :: k) content
  | _ => Ok d
  end.

Fixpoint fields_loop (d : dict) (curkey : option str) (content : str) (ls : list str)
  : result dict :=
  match ls with
  | [] => flush d curkey content
  | line :: ls' =>
    match match_single line with
    | Some (k, data) => do d' <- flush d curkey content; fields_loop d' (Some k) data ls'
    | None =>
      match match_multi line with
      | Some k => do d' <- flush d curkey content; fields_loop d' (Some k) [] ls'
      | None =>
        match match_multidata line with
        | Some _ => fields_loop d curkey (content ++ LF :: line) ls'   (* the whole line is kept *)
        | None => fields_loop d curkey content ls'                     (* silently ignored *)
        end
      end
    end
  end.

(** Deb822(iterator): one paragraph read from the shared iterator. *)
Definition deb822_init (ws_sep : bool) (ls : list str) : result dict * list str :=
  let (g, rest) := consume true ws_sep true gpg_init ls in
  match g_lines g with
  | [] => (Ok [], rest)                                 (* EOFError caught in __init__ *)
  | lines => (fields_loop [] None [] lines, rest)
  end.

(** Dsc(iterator) / Changes(iterator): _gpg_multivalued.__init__ first runs
    split_gpg_and_payload on the RAW iterator (comments not filtered), in a loop
    on the one shared iterator, until the block has gpg_pre_lines or a payload
    line that neither starts with '#' nor is whitespace-only (a block of comment
    and whitespace-only lines is not a paragraph); EOFError ends the loop with
    lines = [].  Every repeated round
    has consumed at least one line, so [S (length ls)] rounds suffice (Proofs:
    [gpgmv_split_fuel]).  It then hands the payload list to Deb822.__init__.
    Field names of the _multivalued_fields tables are outside this model (they
    are C12's). *)
(** ln.startswith(b'#') or not ln.strip() *)
Definition ignorable_line (l : str) : bool := startswith [HASH] l || blank_ws l.

Fixpoint gpgmv_split (fuel : nat) (ws_sep : bool) (ls : list str) : result (list str) * list str :=
  match fuel with
  | O => (Err OutOfFuel, ls)
  | S f =>
    let (g, rest) := consume false ws_sep true gpg_init ls in
    match g_lines g with
    | [] => (Ok [], rest)                                  (* EOFError: empty input *)
    | lines =>
      if is_nil (g_pre g) && forallb ignorable_line lines
      then gpgmv_split f ws_sep rest                       (* nothing but comments: next block *)
      else (Ok lines, rest)
    end
  end.

Definition gpgmv_init (ws_sep : bool) (ls : list str) : result dict * list str :=
  let (r, rest) := gpgmv_split (S (length ls)) ws_sep ls in
  (do lines <- r; fst (deb822_init ws_sep lines), rest).

Inductive cls := CDeb822 | CGpgMv.      (* Deb822 itself | Dsc, Changes *)

Definition init_of (c : cls) :=
  match c with CDeb822 => deb822_init | CGpgMv => gpgmv_init end.

(** * Input forms *)

Inductive input :=
| InStr (s : str)            (* str *)
| InBytes (s : str)          (* bytes (code points of its UTF-8 decoding) *)
| InLines (ls : list str)    (* list of str or of bytes lines, with or without line ends *)
| InFile (s : str).          (* text or binary file object: iteration yields LF-terminated lines *)

Definition file_lines (s : str) : list str := splitlines (N.eqb LF) true s.

Definition lines_of (i : input) : list str :=
  match i with
  | InStr s => splitlines py_islinebreak false s
  | InBytes s => splitlines bytes_islinebreak false s
  | InLines ls => ls
  | InFile s => file_lines s
  end.

(** cls(sequence, strict=...) for one paragraph.  For str/bytes the
    _gpg_multivalued constructor does not pre-split (it keeps raw_text). *)
Definition deb822_new (c : cls) (ws_sep : bool) (i : input) : result dict :=
  match c, i with
  | CGpgMv, InLines _ | CGpgMv, InFile _ => fst (gpgmv_init ws_sep (lines_of i))
  | _, _ => fst (deb822_init ws_sep (lines_of i))
  end.

(** The while-loop of iter_paragraphs over the shared iterator.  Every
    non-empty paragraph consumes at least one line, so [S (length ls)] rounds
    suffice (Proofs: [iter_loop_fuel]). *)
Fixpoint iter_loop (fuel : nat) (c : cls) (ws_sep : bool) (ls : list str) : result (list dict) :=
  match fuel with
  | O => Err OutOfFuel
  | S f =>
    let (r, rest) := init_of c ws_sep ls in
    do x <- r;
    match x with
    | [] => Ok []                                        (* if not x: break *)
    | _ => do xs <- iter_loop f c ws_sep rest; Ok (x :: xs)
    end
  end.

Definition iter_lines (c : cls) (ws_sep : bool) (ls : list str) : result (list dict) :=
  iter_loop (S (length ls)) c ws_sep ls.

(** list(cls.iter_paragraphs(sequence, strict=...)) *)
Definition iter_paragraphs (c : cls) (ws_sep : bool) (i : input) : result (list dict) :=
  iter_lines c ws_sep (lines_of i).
