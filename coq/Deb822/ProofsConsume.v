(** C02 proofs, part 2: the line-consuming loop (split_gpg_and_payload behind
    _skip_useless_lines) on paragraphs, separators, clearsign envelopes;
    independence of line ends; comment lines; fuel of iter_paragraphs. *)
From Coq Require Import Lia ZifyBool.
From Verif Require Import Lib.Base Lib.PyStr Gen.PyChars Deb822.Model Deb822.Spec
  Deb822.ProofsStr Deb822.ProofsParse.

Local Open Scope N_scope.

(** * Small facts *)

Lemma strip_prefix_app pre s : strip_prefix pre (pre ++ s) = Some s.
Proof. induction pre as [|a pre IH]; [reflexivity|]. cbn [app strip_prefix]. now rewrite N.eqb_refl. Qed.

Lemma strip_prefix_none pre s : startswith pre s = false -> strip_prefix pre s = None.
Proof.
  revert s. induction pre as [|a pre IH]; intros s H; [discriminate|].
  destruct s as [|b s]; [reflexivity|]. cbn [startswith] in H. cbn [strip_prefix].
  destruct (a =? b); [now apply IH|reflexivity].
Qed.

Lemma s_dashes_eq : s_dashes = s_dashes5.
Proof. reflexivity. Qed.

Lemma match_gpgre_nodash l : startswith s_dashes l = false -> match_gpgre l = None.
Proof. intros H. unfold match_gpgre. now rewrite strip_prefix_none. Qed.

Lemma consume_cons skip ws ab g l rest :
  consume skip ws ab g (l :: rest)
  = if skip && startswith [HASH] l then consume skip ws ab g rest
    else if skip && ab && is_nil (rstrip_by is_crlf l) then consume skip ws ab g rest
    else let (g', brk) := gpg_step ws g l in
         if brk then (g', rest) else consume skip ws false g' rest.
Proof. reflexivity. Qed.

(** * Safe lines: the lines of a dumped paragraph *)

Definition safe_line (l : str) : bool :=
  no_linebreak l && negb (startswith [HASH] l) && negb (blank_ws l) && negb (startswith s_dashes l).

Lemma safe_line_inv l :
  safe_line l = true ->
  no_linebreak l = true /\ startswith [HASH] l = false /\ blank_ws l = false
  /\ startswith s_dashes l = false.
Proof.
  unfold safe_line. intros H.
  apply andb_true_iff in H. destruct H as [H H4]. apply andb_true_iff in H. destruct H as [H H3].
  apply andb_true_iff in H. destruct H as [H1 H2].
  apply negb_true_iff in H2, H3, H4. tauto.
Qed.

Lemma not_blank_ws_line ws l : blank_ws l = false -> blank_line ws l = false.
Proof.
  intros H. destruct ws; [exact H|]. unfold blank_line, blank_nows.
  destruct l as [|c [|d r]]; try reflexivity; [discriminate|].
  destruct (N.eqb_spec c LF) as [->|]; [discriminate|reflexivity].
Qed.

Lemma not_blank_nonnil l : blank_ws l = false -> l <> [].
Proof. destruct l; [discriminate|discriminate]. Qed.

Lemma is_nil_false {A} (l : list A) : l <> [] -> is_nil l = false.
Proof. destruct l; [congruence|reflexivity]. Qed.

Lemma gpg_step_safe ws g l :
  safe_line l = true -> g_state g = s_SAFE ->
  gpg_step ws g l = (mkG false s_SAFE (g_pre g) (g_lines g ++ [l]) (g_post g), false).
Proof.
  intros Hl Hst. destruct (safe_line_inv l Hl) as (Hnl & _ & Hb & Hd).
  unfold gpg_step. rewrite (strip_crlf_id _ Hnl), Hb, andb_false_r.
  rewrite (match_gpgre_nodash _ Hd), Hst.
  replace (str_eqb s_SAFE s_SAFE) with true by reflexivity.
  now rewrite (not_blank_ws_line ws _ Hb).
Qed.

Lemma consume_safe_one skip ws ab g l rest :
  safe_line l = true -> g_state g = s_SAFE ->
  consume skip ws ab g (l :: rest)
  = consume skip ws false (mkG false s_SAFE (g_pre g) (g_lines g ++ [l]) (g_post g)) rest.
Proof.
  intros Hl Hst. destruct (safe_line_inv l Hl) as (Hnl & Hc & Hb & _).
  rewrite consume_cons, Hc, andb_false_r. rewrite (chomp_id _ Hnl).
  rewrite (is_nil_false _ (not_blank_nonnil _ Hb)), andb_false_r.
  now rewrite gpg_step_safe.
Qed.

Lemma consume_safe_nf skip ws ls : forall pre lines post rest,
  forallb safe_line ls = true ->
  consume skip ws false (mkG false s_SAFE pre lines post) (ls ++ rest)
  = consume skip ws false (mkG false s_SAFE pre (lines ++ ls) post) rest.
Proof.
  induction ls as [|l ls IH]; intros pre lines post rest H.
  - cbn [app]. now rewrite app_nil_r.
  - cbn [forallb] in H. apply andb_true_iff in H. destruct H as [Hl Hls].
    cbn [app]. rewrite consume_safe_one by (exact Hl || reflexivity). cbn [g_pre g_lines g_post].
    rewrite IH by exact Hls. now rewrite <- app_assoc.
Qed.

Lemma consume_safe skip ws ab g l ls rest :
  forallb safe_line (l :: ls) = true -> g_state g = s_SAFE ->
  consume skip ws ab g ((l :: ls) ++ rest)
  = consume skip ws false (mkG false s_SAFE (g_pre g) (g_lines g ++ l :: ls) (g_post g)) rest.
Proof.
  intros H Hst. cbn [forallb] in H. apply andb_true_iff in H. destruct H as [Hl Hls].
  cbn [app]. rewrite consume_safe_one by assumption. rewrite consume_safe_nf by exact Hls.
  now rewrite <- app_assoc.
Qed.

(** * Blank lines *)

Lemma ws_line_no_linebreak l : ws_line l = true -> no_linebreak l = true.
Proof.
  apply forallb_impl. intros c H. unfold is_sp_tab in H. apply orb_true_iff in H.
  destruct H as [H|H]; apply N.eqb_eq in H; subst c; reflexivity.
Qed.

Lemma ws_line_blank_ws l : ws_line l = true -> blank_ws l = true.
Proof. apply forallb_impl. apply sp_tab_bytes_space. Qed.

Lemma ws_line_not_comment l : ws_line l = true -> startswith [HASH] l = false.
Proof.
  destruct l as [|c r]; [reflexivity|]. cbn [ws_line forallb startswith]. intros H.
  apply andb_true_iff in H. destruct H as [H _]. unfold is_sp_tab in H. apply orb_true_iff in H.
  destruct H as [H|H]; apply N.eqb_eq in H; subst c; reflexivity.
Qed.

Lemma ws_line_not_dashes l : ws_line l = true -> startswith s_dashes l = false.
Proof.
  destruct l as [|c r]; [reflexivity|]. cbn [ws_line forallb]. intros H.
  apply andb_true_iff in H. destruct H as [H _]. unfold is_sp_tab in H. apply orb_true_iff in H.
  destruct H as [H|H]; apply N.eqb_eq in H; subst c; reflexivity.
Qed.

Lemma sep_line_ws_line ws l : sep_line ws l = true -> ws_line l = true.
Proof. destruct ws; [exact (fun H => H)|]. destruct l; [reflexivity|discriminate]. Qed.

Lemma sep_line_blank ws l : sep_line ws l = true -> blank_line ws l = true.
Proof.
  destruct ws; cbn [sep_line blank_line].
  - apply ws_line_blank_ws.
  - destruct l; [reflexivity|discriminate].
Qed.

Lemma rdropwhile_nil_all {A} (p : A -> bool) l : rdropwhile p l = [] -> forallb p l = true.
Proof.
  unfold rdropwhile. intros H. apply (f_equal (@rev A)) in H. rewrite rev_involutive in H.
  cbn in H. apply dropwhile_nil_all in H. apply forallb_forall. intros x Hx.
  rewrite forallb_forall in H. apply H. now apply in_rev in Hx.
Qed.

Lemma strip_all p l : forallb p l = true -> strip_by p l = [].
Proof. intros H. apply strip_by_blank. now apply dropwhile_all. Qed.

(** while first_line is set, the at_beginning flag of _skip_useless_lines is
    not observable: what it drops, split_gpg_and_payload would skip itself *)
Lemma consume_ab_irrel skip ws ls : forall g,
  g_first g = true -> consume skip ws false g ls = consume skip ws true g ls.
Proof.
  induction ls as [|l ls IH]; intros g Hg; [reflexivity|].
  rewrite !consume_cons. destruct (skip && startswith [HASH] l) eqn:E1; [now apply IH|].
  rewrite andb_false_r. cbn [andb].
  destruct skip; cbn [andb]; [|reflexivity].
  destruct (is_nil (rstrip_by is_crlf l)) eqn:E2; [|reflexivity].
  assert (Hs : strip_crlf l = []).
  { apply strip_all. apply rdropwhile_nil_all. unfold rstrip_by in E2.
    destruct (rdropwhile is_crlf l); [reflexivity|discriminate]. }
  unfold gpg_step. rewrite Hs, Hg. cbn [blank_ws forallb andb]. now apply IH.
Qed.

Lemma consume_ab skip ws ab g ls :
  g_first g = true -> consume skip ws ab g ls = consume skip ws true g ls.
Proof. intros H. destruct ab; [reflexivity|now apply consume_ab_irrel]. Qed.

Lemma consume_lead_one skip ws ab g b rest :
  g_first g = true -> ws_line b = true ->
  consume skip ws ab g (b :: rest) = consume skip ws true g rest.
Proof.
  intros Hg Hb. rewrite consume_cons, (ws_line_not_comment _ Hb), andb_false_r.
  destruct (skip && ab && is_nil (rstrip_by is_crlf b)); [now apply consume_ab|].
  unfold gpg_step. rewrite (strip_crlf_id _ (ws_line_no_linebreak _ Hb)), Hg.
  rewrite (ws_line_blank_ws _ Hb). cbn [andb]. now apply consume_ab.
Qed.

Lemma consume_lead skip ws bl : forall ab g rest,
  g_first g = true -> forallb ws_line bl = true ->
  consume skip ws ab g (bl ++ rest) = consume skip ws true g rest.
Proof.
  induction bl as [|b bl IH]; intros ab g rest Hg H.
  - now apply consume_ab.
  - cbn [forallb] in H. apply andb_true_iff in H. destruct H as [Hb Hbl].
    cbn [app]. rewrite consume_lead_one by assumption. now apply IH.
Qed.

(** a blank line after an unsigned paragraph ends it *)
Lemma consume_sep skip ws lines post sep rest :
  sep_line ws sep = true ->
  consume skip ws false (mkG false s_SAFE [] lines post) (sep :: rest)
  = (mkG false s_SAFE [] lines post, rest).
Proof.
  intros Hs. pose proof (sep_line_ws_line _ _ Hs) as Hw.
  rewrite consume_cons, (ws_line_not_comment _ Hw), andb_false_r. cbn [andb].
  unfold gpg_step. rewrite (strip_crlf_id _ (ws_line_no_linebreak _ Hw)). cbn [g_first andb].
  rewrite (match_gpgre_nodash _ (ws_line_not_dashes _ Hw)). cbn [g_state g_pre].
  replace (str_eqb s_SAFE s_SAFE) with true by reflexivity.
  rewrite (sep_line_blank _ _ Hs). reflexivity.
Qed.

(** * One unsigned paragraph *)

Theorem consume_plain_sep skip ws lead l ls sep rest :
  forallb ws_line lead = true -> forallb safe_line (l :: ls) = true -> sep_line ws sep = true ->
  consume skip ws true gpg_init (lead ++ (l :: ls) ++ sep :: rest)
  = (mkG false s_SAFE [] (l :: ls) [], rest).
Proof.
  intros Hlead Hp Hs. rewrite consume_lead by (reflexivity || assumption).
  rewrite consume_safe by (assumption || reflexivity). cbn [gpg_init g_pre g_lines g_post app].
  now apply consume_sep.
Qed.

Theorem consume_plain_end skip ws lead l ls :
  forallb ws_line lead = true -> forallb safe_line (l :: ls) = true ->
  consume skip ws true gpg_init (lead ++ l :: ls)
  = (mkG false s_SAFE [] (l :: ls) [], []).
Proof.
  intros Hlead Hp. replace (lead ++ l :: ls) with (lead ++ (l :: ls) ++ []) by now rewrite app_nil_r.
  rewrite consume_lead by (reflexivity || assumption).
  rewrite consume_safe by (assumption || reflexivity). reflexivity.
Qed.

Theorem consume_blank_only skip ws lead :
  forallb ws_line lead = true -> consume skip ws true gpg_init lead = (gpg_init, []).
Proof.
  intros H. replace lead with (lead ++ []) at 1 by apply app_nil_r.
  rewrite consume_lead by (reflexivity || assumption). reflexivity.
Qed.

(** * A clearsign envelope *)

Lemma sp_tab_in_chars c : is_sp_tab c = true -> in_chars [CR; TAB; SP] c = true.
Proof.
  unfold is_sp_tab. intros H. apply orb_true_iff in H.
  destruct H as [H|H]; apply N.eqb_eq in H; subst c; reflexivity.
Qed.

Lemma match_gpgre_armor (b : bool) what w :
  what <> [] -> forallb (fun c => negb (c =? DASH)) what = true -> armor_pad w = true ->
  match_gpgre (s_dashes ++ (if b then s_BEGIN else s_END) ++ s_PGP ++ what ++ s_dashes ++ w)
  = Some (b, what).
Proof.
  intros Hne Hw Hpad. unfold match_gpgre. rewrite strip_prefix_app.
  assert (Hact : match strip_prefix s_BEGIN ((if b then s_BEGIN else s_END) ++ s_PGP ++ what ++ s_dashes ++ w) with
                 | Some r => Some (true, r)
                 | None => match strip_prefix s_END ((if b then s_BEGIN else s_END) ++ s_PGP ++ what ++ s_dashes ++ w) with
                           | Some r => Some (false, r)
                           | None => None
                           end
                 end = Some (b, s_PGP ++ what ++ s_dashes ++ w)).
  { destruct b; [now rewrite strip_prefix_app|].
    replace (strip_prefix s_BEGIN (s_END ++ s_PGP ++ what ++ s_dashes ++ w)) with (@None str) by reflexivity.
    now rewrite strip_prefix_app. }
  rewrite Hact. rewrite strip_prefix_app.
  change (what ++ s_dashes ++ w) with (what ++ DASH :: ([DASH; DASH; DASH; DASH] ++ w)).
  rewrite span_forall_app by (exact Hw || reflexivity).
  destruct what as [|c0 what']; [congruence|].
  change (DASH :: [DASH; DASH; DASH; DASH] ++ w) with (s_dashes ++ w). rewrite strip_prefix_app.
  rewrite dropwhile_all; [reflexivity|].
  eapply forallb_impl; [|exact Hpad]. apply sp_tab_in_chars.
Qed.

Lemma begin_signed_eq w :
  s_begin_signed ++ w = s_dashes ++ s_BEGIN ++ s_PGP ++ s_SIGNED_MESSAGE ++ s_dashes ++ w.
Proof. reflexivity. Qed.
Lemma begin_signature_eq w :
  s_begin_signature ++ w = s_dashes ++ s_BEGIN ++ s_PGP ++ s_SIGNATURE ++ s_dashes ++ w.
Proof. reflexivity. Qed.
Lemma end_signature_eq w :
  s_end_signature ++ w = s_dashes ++ s_END ++ s_PGP ++ s_SIGNATURE ++ s_dashes ++ w.
Proof. reflexivity. Qed.

Lemma match_gpgre_begin_signed w :
  armor_pad w = true -> match_gpgre (s_begin_signed ++ w) = Some (true, s_SIGNED_MESSAGE).
Proof.
  intros H. rewrite begin_signed_eq. apply (match_gpgre_armor true); [discriminate|reflexivity|exact H].
Qed.
Lemma match_gpgre_begin_signature w :
  armor_pad w = true -> match_gpgre (s_begin_signature ++ w) = Some (true, s_SIGNATURE).
Proof.
  intros H. rewrite begin_signature_eq. apply (match_gpgre_armor true); [discriminate|reflexivity|exact H].
Qed.
Lemma match_gpgre_end_signature w :
  armor_pad w = true -> match_gpgre (s_end_signature ++ w) = Some (false, s_SIGNATURE).
Proof.
  intros H. rewrite end_signature_eq. apply (match_gpgre_armor false); [discriminate|reflexivity|exact H].
Qed.

Lemma armor_pad_no_linebreak w : armor_pad w = true -> no_linebreak w = true.
Proof. apply ws_line_no_linebreak. Qed.

(** facts shared by the three armour lines [s ++ w], [s] one of the constants *)
Definition armor_const (s : str) : bool :=
  no_linebreak s && negb (startswith [HASH] s) && negb (blank_ws s) && negb (is_nil s).

Lemma armor_line_facts s w :
  armor_const s = true -> armor_pad w = true ->
  no_linebreak (s ++ w) = true /\ startswith [HASH] (s ++ w) = false
  /\ blank_ws (s ++ w) = false /\ s ++ w <> [].
Proof.
  unfold armor_const. intros H Hw.
  apply andb_true_iff in H. destruct H as [H H4]. apply andb_true_iff in H. destruct H as [H H3].
  apply andb_true_iff in H. destruct H as [H1 H2]. apply negb_true_iff in H2, H3, H4.
  destruct s as [|c s]; [discriminate|]. repeat split.
  - rewrite no_linebreak_app, H1. now apply armor_pad_no_linebreak.
  - exact H2.
  - unfold blank_ws in *. cbn [app forallb] in *. apply andb_false_iff in H3.
    destruct H3 as [H3|H3]; [now rewrite H3|].
    rewrite forallb_app, H3. now rewrite andb_false_r.
  - discriminate.
Qed.

(** the reader steps over one armour line (not a comment, not empty) *)
Lemma consume_armor_line skip ws ab g s w rest :
  armor_const s = true -> armor_pad w = true ->
  consume skip ws ab g ((s ++ w) :: rest)
  = let (g', brk) := gpg_step ws g (s ++ w) in
    if brk then (g', rest) else consume skip ws false g' rest.
Proof.
  intros Hs Hw. destruct (armor_line_facts s w Hs Hw) as (Hnl & Hc & Hb & Hne).
  rewrite consume_cons, Hc, andb_false_r. rewrite (chomp_id _ Hnl), (is_nil_false _ Hne).
  now rewrite andb_false_r.
Qed.

Lemma gpg_step_begin ws g s w what :
  armor_const s = true -> armor_pad w = true ->
  match_gpgre (s ++ w) = Some (true, what) ->
  exists pre post,
    gpg_step ws g (s ++ w) = (mkG false what pre (g_lines g) post, false)
    /\ (g_lines g = [] -> pre <> []).
Proof.
  intros Hs Hw Hm. destruct (armor_line_facts s w Hs Hw) as (Hnl & Hc & Hb & Hne).
  unfold gpg_step. rewrite (strip_crlf_id _ Hnl), Hb, andb_false_r, Hm.
  rewrite (not_blank_ws_line ws _ Hb). cbn [negb].
  destruct (g_lines g) as [|l0 ls0] eqn:El; cbn [is_nil].
  - exists (g_pre g ++ [s ++ w]), (g_post g). split; [reflexivity|].
    intros _. destruct (g_pre g); discriminate.
  - exists (g_pre g), (g_post g ++ [s ++ w]). split; [reflexivity|]. discriminate.
Qed.

(** header lines between BEGIN PGP SIGNED MESSAGE and the blank line *)
Lemma armor_text_line_inv l :
  armor_text_line l = true ->
  no_linebreak l = true /\ blank_ws l = false /\ startswith s_dashes l = false.
Proof.
  unfold armor_text_line. intros H.
  apply andb_true_iff in H. destruct H as [H H3]. apply andb_true_iff in H. destruct H as [H1 H2].
  apply negb_true_iff in H2, H3. tauto.
Qed.

Lemma consume_hdr skip ws hdr : forall pre lines post rest,
  forallb armor_text_line hdr = true -> pre <> [] ->
  exists pre',
    pre' <> [] /\
    consume skip ws false (mkG false s_SIGNED_MESSAGE pre lines post) (hdr ++ rest)
    = consume skip ws false (mkG false s_SIGNED_MESSAGE pre' lines post) rest.
Proof.
  induction hdr as [|h hdr IH]; intros pre lines post rest H Hpre.
  - exists pre. now split.
  - cbn [forallb] in H. apply andb_true_iff in H. destruct H as [Hh Hhdr].
    destruct (armor_text_line_inv h Hh) as (Hnl & Hb & Hd).
    cbn [app]. rewrite consume_cons. rewrite andb_false_r. cbn [andb].
    destruct (skip && startswith [HASH] h); [now apply IH|].
    unfold gpg_step. rewrite (strip_crlf_id _ Hnl). cbn [g_first andb g_state g_pre g_lines g_post].
    rewrite (match_gpgre_nodash _ Hd).
    replace (str_eqb s_SIGNED_MESSAGE s_SAFE) with false by reflexivity.
    replace (str_eqb s_SIGNED_MESSAGE s_SIGNED_MESSAGE) with true by reflexivity.
    rewrite (not_blank_ws_line ws _ Hb).
    apply IH; [exact Hhdr|]. destruct pre; discriminate.
Qed.

Lemma consume_hdr_blank skip ws pre lines post b rest :
  sep_line ws b = true ->
  consume skip ws false (mkG false s_SIGNED_MESSAGE pre lines post) (b :: rest)
  = consume skip ws false (mkG false s_SAFE pre lines post) rest.
Proof.
  intros Hs. pose proof (sep_line_ws_line _ _ Hs) as Hw.
  rewrite consume_cons, (ws_line_not_comment _ Hw), andb_false_r. cbn [andb].
  unfold gpg_step. rewrite (strip_crlf_id _ (ws_line_no_linebreak _ Hw)). cbn [g_first andb].
  rewrite (match_gpgre_nodash _ (ws_line_not_dashes _ Hw)). cbn [g_state g_pre g_lines g_post].
  replace (str_eqb s_SIGNED_MESSAGE s_SAFE) with false by reflexivity.
  replace (str_eqb s_SIGNED_MESSAGE s_SIGNED_MESSAGE) with true by reflexivity.
  now rewrite (sep_line_blank _ _ Hs).
Qed.

Lemma sig_line_inv l :
  sig_line l = true -> no_linebreak l = true /\ startswith s_dashes l = false.
Proof.
  unfold sig_line. intros H. apply andb_true_iff in H. destruct H as [H1 H2].
  apply negb_true_iff in H2. tauto.
Qed.

Lemma consume_sig skip ws sig : forall pre lines post rest,
  forallb sig_line sig = true ->
  exists post',
    consume skip ws false (mkG false s_SIGNATURE pre lines post) (sig ++ rest)
    = consume skip ws false (mkG false s_SIGNATURE pre lines post') rest.
Proof.
  induction sig as [|s sig IH]; intros pre lines post rest H.
  - now exists post.
  - cbn [forallb] in H. apply andb_true_iff in H. destruct H as [Hs Hsig].
    destruct (sig_line_inv s Hs) as (Hnl & Hd).
    cbn [app]. rewrite consume_cons. rewrite andb_false_r. cbn [andb].
    destruct (skip && startswith [HASH] s); [now apply IH|].
    unfold gpg_step. rewrite (strip_crlf_id _ Hnl). cbn [g_first andb g_state g_pre g_lines g_post].
    rewrite (match_gpgre_nodash _ Hd).
    replace (str_eqb s_SIGNATURE s_SAFE) with false by reflexivity.
    replace (str_eqb s_SIGNATURE s_SIGNED_MESSAGE) with false by reflexivity.
    replace (str_eqb s_SIGNATURE s_SIGNATURE) with true by reflexivity.
    now apply IH.
Qed.

Lemma armor_const_begin_signed : armor_const s_begin_signed = true. Proof. reflexivity. Qed.
Lemma armor_const_begin_signature : armor_const s_begin_signature = true. Proof. reflexivity. Qed.
Lemma armor_const_end_signature : armor_const s_end_signature = true. Proof. reflexivity. Qed.

Lemma valid_armor_inv ws a :
  valid_armor ws a = true ->
  armor_pad (a_w1 a) = true /\ armor_pad (a_w2 a) = true /\ armor_pad (a_w3 a) = true
  /\ forallb armor_text_line (a_hdr a) = true /\ sep_line ws (a_blank a) = true
  /\ forallb sig_line (a_sig a) = true.
Proof.
  unfold valid_armor. intros H.
  apply andb_true_iff in H. destruct H as [H H6]. apply andb_true_iff in H. destruct H as [H H5].
  apply andb_true_iff in H. destruct H as [H H4]. apply andb_true_iff in H. destruct H as [H H3].
  apply andb_true_iff in H. destruct H as [H1 H2]. tauto.
Qed.

Lemma armor_lines_eq a body :
  armor_lines a body
  = (s_begin_signed ++ a_w1 a) :: a_hdr a ++ a_blank a :: body
    ++ (s_begin_signature ++ a_w2 a) :: a_sig a ++ [s_end_signature ++ a_w3 a].
Proof.
  unfold armor_lines, armor_head, armor_tail. cbn [app]. f_equal.
  rewrite <- app_assoc. reflexivity.
Qed.

(** One clearsigned paragraph: the payload lines are what is kept, and the
    reader stops right after the END line. *)
Theorem consume_armor skip ws lead a body rest :
  forallb ws_line lead = true -> valid_armor ws a = true -> forallb safe_line body = true ->
  exists g', consume skip ws true gpg_init (lead ++ armor_lines a body ++ rest) = (g', rest)
             /\ g_lines g' = body.
Proof.
  intros Hlead Ha Hbody.
  destruct (valid_armor_inv ws a Ha) as (Hw1 & Hw2 & Hw3 & Hhdr & Hbl & Hsig).
  rewrite consume_lead by (reflexivity || assumption).
  rewrite armor_lines_eq. cbn [app].
  (* BEGIN PGP SIGNED MESSAGE *)
  rewrite consume_armor_line by (exact armor_const_begin_signed || assumption).
  destruct (gpg_step_begin ws gpg_init _ _ _ armor_const_begin_signed Hw1
              (match_gpgre_begin_signed _ Hw1)) as (pre1 & post1 & E1 & Hpre1).
  rewrite E1. cbn [gpg_init g_lines] in *. specialize (Hpre1 eq_refl).
  (* header lines, blank line *)
  rewrite <- app_assoc.
  destruct (consume_hdr skip ws (a_hdr a) pre1 [] post1
              ((a_blank a :: body ++ (s_begin_signature ++ a_w2 a) :: a_sig a ++ [s_end_signature ++ a_w3 a]) ++ rest)
              Hhdr Hpre1) as (pre2 & Hpre2 & E2).
  rewrite E2. cbn [app]. rewrite consume_hdr_blank by exact Hbl.
  (* payload *)
  rewrite <- app_assoc. rewrite consume_safe_nf by exact Hbody. cbn [app].
  (* BEGIN PGP SIGNATURE *)
  rewrite consume_armor_line by (exact armor_const_begin_signature || assumption).
  destruct (gpg_step_begin ws (mkG false s_SAFE pre2 body post1) _ _ _ armor_const_begin_signature Hw2
              (match_gpgre_begin_signature _ Hw2)) as (pre3 & post3 & E3 & _).
  rewrite E3. cbn [g_lines].
  (* signature lines *)
  rewrite <- app_assoc.
  destruct (consume_sig skip ws (a_sig a) pre3 body post3 (@app str [s_end_signature ++ a_w3 a] rest) Hsig)
    as (post4 & E4).
  rewrite E4. cbn [app].
  (* END PGP SIGNATURE *)
  rewrite consume_armor_line by (exact armor_const_end_signature || assumption).
  destruct (armor_line_facts _ _ armor_const_end_signature Hw3) as (Hnl & _ & Hb & _).
  unfold gpg_step. rewrite (strip_crlf_id _ Hnl). cbn [g_first andb].
  rewrite (match_gpgre_end_signature _ Hw3).
  eexists. split; reflexivity.
Qed.

(** * Line ends do not matter *)

Definition chomp (l : str) : str := rstrip_by is_crlf l.
(** a physical line: boundary-free text followed by CR/LF characters only *)
Definition line_ok (l : str) : bool := no_linebreak (chomp l).

Lemma rdropwhile_split {A} (p : A -> bool) l :
  exists e, l = rdropwhile p l ++ e /\ forallb p e = true.
Proof.
  unfold rdropwhile. exists (rev (fst (span p (rev l)))). split.
  - rewrite dropwhile_span. rewrite <- rev_app_distr, span_app. now rewrite rev_involutive.
  - pose proof (span_all p (rev l)) as H. apply forallb_forall. intros x Hx.
    rewrite forallb_forall in H. apply H. now apply in_rev.
Qed.

Lemma crlf_not_hash c : is_crlf c = true -> (HASH =? c) = false.
Proof.
  unfold is_crlf. intros H. apply orb_true_iff in H.
  destruct H as [H|H]; apply N.eqb_eq in H; subst c; reflexivity.
Qed.

Lemma line_ok_facts l :
  line_ok l = true ->
  startswith [HASH] l = startswith [HASH] (chomp l)
  /\ strip_crlf l = chomp l /\ strip_crlf (chomp l) = chomp l.
Proof.
  unfold line_ok. intros H. destruct (rdropwhile_split is_crlf l) as (e & El & He).
  fold (rstrip_by is_crlf l) in El. fold (chomp l) in El.
  pose proof (strip_crlf_id _ H) as Hid. split; [|split; [|exact Hid]].
  - rewrite El at 1. destruct (chomp l) as [|c0 r]; [|reflexivity].
    destruct e as [|c e']; [reflexivity|]. cbn [app startswith].
    cbn [forallb] in He. apply andb_true_iff in He. destruct He as [Hc _].
    now rewrite (crlf_not_hash _ Hc).
  - unfold strip_crlf, strip_by, lstrip_by. destruct (chomp l) as [|c0 r] eqn:Ec.
    + cbn [app] in El. subst l. now rewrite dropwhile_all.
    + rewrite no_linebreak_cons in H. apply andb_true_iff in H. destruct H as [Hc0 _].
      apply negb_true_iff in Hc0. apply no_lb_not_crlf in Hc0.
      rewrite El at 1. cbn [app dropwhile]. rewrite Hc0.
      change (c0 :: r ++ e) with ((c0 :: r) ++ e). rewrite <- El. exact Ec.
Qed.

Lemma chomp_idem l : chomp (chomp l) = chomp l.
Proof. apply rdropwhile_idem. Qed.

Lemma gpg_step_chomp ws g l : line_ok l = true -> gpg_step ws g (chomp l) = gpg_step ws g l.
Proof.
  intros H. destruct (line_ok_facts l H) as (_ & H2 & H3). unfold gpg_step. now rewrite H2, H3.
Qed.

Theorem consume_chomp skip ws ls : forall ab g,
  forallb line_ok ls = true ->
  consume skip ws ab g (map chomp ls)
  = (fst (consume skip ws ab g ls), map chomp (snd (consume skip ws ab g ls))).
Proof.
  induction ls as [|l ls IH]; intros ab g H; [reflexivity|].
  cbn [forallb] in H. apply andb_true_iff in H. destruct H as [Hl Hls].
  destruct (line_ok_facts l Hl) as (H1 & _ & _).
  cbn [map]. rewrite !consume_cons. rewrite <- H1. fold (chomp l). rewrite chomp_idem.
  destruct (skip && startswith [HASH] l); [now apply IH|].
  destruct (skip && ab && is_nil (chomp l)); [now apply IH|].
  rewrite gpg_step_chomp by exact Hl. destruct (gpg_step ws g l) as [g' brk].
  destruct brk; [reflexivity|now apply IH].
Qed.

(** what is left of the iterator is a suffix of it *)
Lemma consume_suffix skip ws ls : forall ab g,
  exists pre, ls = pre ++ snd (consume skip ws ab g ls).
Proof.
  induction ls as [|l ls IH]; intros ab g; [now exists []|].
  rewrite consume_cons.
  destruct (skip && startswith [HASH] l).
  { destruct (IH ab g) as [pre E]. exists (l :: pre). cbn [app]. now rewrite <- E. }
  destruct (skip && ab && is_nil (rstrip_by is_crlf l)).
  { destruct (IH ab g) as [pre E]. exists (l :: pre). cbn [app]. now rewrite <- E. }
  destruct (gpg_step ws g l) as [g' brk]. destruct brk.
  - now exists [l].
  - destruct (IH false g') as [pre E]. exists (l :: pre). cbn [app]. now rewrite <- E.
Qed.

Lemma consume_rest_forallb {P : str -> bool} skip ws ab g ls :
  forallb P ls = true -> forallb P (snd (consume skip ws ab g ls)) = true.
Proof.
  intros H. destruct (consume_suffix skip ws ls ab g) as [pre E]. rewrite E in H.
  rewrite forallb_app in H. apply andb_true_iff in H. tauto.
Qed.

Lemma consume_rest_length skip ws ls : forall ab g,
  (length (snd (consume skip ws ab g ls)) <= length ls)%nat.
Proof.
  intros ab g. destruct (consume_suffix skip ws ls ab g) as [pre E].
  rewrite E at 2. rewrite app_length. lia.
Qed.

(** lines are only ever added from the iterator *)
Lemma consume_nil_lines skip ws ls : forall ab g,
  g_lines g = [] -> g_lines (fst (consume skip ws ab g ls)) <> [] ->
  (length (snd (consume skip ws ab g ls)) < length ls)%nat.
Proof.
  induction ls as [|l ls IH]; intros ab g Hg Hne.
  - cbn in Hne. congruence.
  - pose proof (consume_rest_length skip ws ls) as Hle.
    rewrite consume_cons in *.
    destruct (skip && startswith [HASH] l).
    { specialize (Hle ab g). cbn [length]. lia. }
    destruct (skip && ab && is_nil (rstrip_by is_crlf l)).
    { specialize (Hle ab g). cbn [length]. lia. }
    destruct (gpg_step ws g l) as [g' brk]. destruct brk.
    + cbn [snd length]. lia.
    + specialize (Hle false g'). cbn [length]. lia.
Qed.

(** * One paragraph from the iterator; the iteration *)

Lemma deb822_init_chomp ws ls :
  forallb line_ok ls = true ->
  deb822_init ws (map chomp ls) = (fst (deb822_init ws ls), map chomp (snd (deb822_init ws ls))).
Proof.
  intros H. unfold deb822_init. rewrite consume_chomp by exact H.
  destruct (consume true ws true gpg_init ls) as [g rest]. cbn [fst snd].
  destruct (g_lines g); reflexivity.
Qed.

Lemma gpgmv_split_S f ws ls :
  gpgmv_split (S f) ws ls
  = let (g, rest) := consume false ws true gpg_init ls in
    match g_lines g with
    | [] => (Ok [], rest)
    | l0 :: ls0 =>
      if is_nil (g_pre g) && forallb ignorable_line (l0 :: ls0)
      then gpgmv_split f ws rest else (Ok (l0 :: ls0), rest)
    end.
Proof. reflexivity. Qed.

Lemma gpgmv_split_chomp ws f : forall ls,
  forallb line_ok ls = true ->
  gpgmv_split f ws (map chomp ls)
  = (fst (gpgmv_split f ws ls), map chomp (snd (gpgmv_split f ws ls))).
Proof.
  induction f as [|f IH]; intros ls H; [reflexivity|].
  rewrite !gpgmv_split_S. rewrite consume_chomp by exact H.
  pose proof (consume_rest_forallb (P:=line_ok) false ws true gpg_init ls H) as Hr.
  destruct (consume false ws true gpg_init ls) as [g rest]. cbn [fst snd] in *.
  destruct (g_lines g) as [|l0 ls0]; [reflexivity|].
  destruct (is_nil (g_pre g) && forallb ignorable_line (l0 :: ls0)); [now apply IH|reflexivity].
Qed.

(** what one call of the loop does, for enough fuel: it never fails, and what
    is left is a suffix that is shorter whenever a payload was returned *)
Lemma gpgmv_split_props ws f : forall ls,
  (length ls < f)%nat ->
  exists lines pre,
    fst (gpgmv_split f ws ls) = Ok lines
    /\ ls = pre ++ snd (gpgmv_split f ws ls)
    /\ (lines <> [] -> pre <> []).
Proof.
  induction f as [|f IH]; intros ls Hf; [lia|].
  rewrite gpgmv_split_S.
  destruct (consume_suffix false ws ls true gpg_init) as [pre0 E0].
  pose proof (consume_nil_lines false ws ls true gpg_init eq_refl) as Hlt.
  destruct (consume false ws true gpg_init ls) as [g rest]. cbn [fst snd] in *.
  destruct (g_lines g) as [|l0 ls0].
  - exists [], pre0. cbn [fst snd]. repeat split; [exact E0|congruence].
  - specialize (Hlt ltac:(discriminate)).
    assert (Hpre0 : pre0 <> []).
    { intros ->. cbn [app] in E0. subst rest. lia. }
    destruct (is_nil (g_pre g) && forallb ignorable_line (l0 :: ls0)).
    + destruct (IH rest ltac:(lia)) as (lines & pre1 & H1 & H2 & H3).
      exists lines, (pre0 ++ pre1). split; [exact H1|]. split.
      * rewrite <- app_assoc, <- H2. exact E0.
      * intros _. destruct pre0; [congruence|discriminate].
    + exists (l0 :: ls0), pre0. cbn [fst snd]. repeat split; [exact E0|]. intros _. exact Hpre0.
Qed.

Lemma gpgmv_split_fuel ws : forall f f' ls,
  (length ls < f)%nat -> (length ls < f')%nat ->
  gpgmv_split f ws ls = gpgmv_split f' ws ls.
Proof.
  induction f as [|f IH]; intros f' ls Hf Hf'; [lia|].
  destruct f' as [|f']; [lia|]. rewrite !gpgmv_split_S.
  pose proof (consume_nil_lines false ws ls true gpg_init eq_refl) as Hlt.
  destruct (consume false ws true gpg_init ls) as [g rest]. cbn [fst snd] in *.
  destruct (g_lines g) as [|l0 ls0]; [reflexivity|]. specialize (Hlt ltac:(discriminate)).
  destruct (is_nil (g_pre g) && forallb ignorable_line (l0 :: ls0)); [|reflexivity].
  apply IH; lia.
Qed.

Lemma gpgmv_init_chomp ws ls :
  forallb line_ok ls = true ->
  gpgmv_init ws (map chomp ls) = (fst (gpgmv_init ws ls), map chomp (snd (gpgmv_init ws ls))).
Proof.
  intros H. unfold gpgmv_init. rewrite map_length. rewrite gpgmv_split_chomp by exact H.
  destruct (gpgmv_split (S (length ls)) ws ls) as [r rest]. reflexivity.
Qed.

Lemma init_of_chomp c ws ls :
  forallb line_ok ls = true ->
  init_of c ws (map chomp ls) = (fst (init_of c ws ls), map chomp (snd (init_of c ws ls))).
Proof. destruct c; [apply deb822_init_chomp|apply gpgmv_init_chomp]. Qed.

Lemma init_of_rest_forallb {P : str -> bool} c ws ls :
  forallb P ls = true -> forallb P (snd (init_of c ws ls)) = true.
Proof.
  intros H. destruct c; cbn [init_of]; unfold deb822_init, gpgmv_init.
  - pose proof (consume_rest_forallb (P:=P) true ws true gpg_init ls H) as Hr.
    destruct (consume true ws true gpg_init ls) as [g rest]. cbn [snd] in *.
    destruct (g_lines g); exact Hr.
  - destruct (gpgmv_split_props ws (S (length ls)) ls ltac:(lia)) as (lines & pre & _ & E & _).
    destruct (gpgmv_split (S (length ls)) ws ls) as [r rest]. cbn [snd] in *.
    rewrite E in H. rewrite forallb_app in H. apply andb_true_iff in H. tauto.
Qed.

Theorem iter_loop_chomp f c ws : forall ls,
  forallb line_ok ls = true ->
  iter_loop f c ws (map chomp ls) = iter_loop f c ws ls.
Proof.
  induction f as [|f IH]; intros ls H; [reflexivity|].
  cbn [iter_loop]. rewrite init_of_chomp by exact H.
  pose proof (init_of_rest_forallb (P:=line_ok) c ws ls H) as Hr.
  destruct (init_of c ws ls) as [r rest]. cbn [fst snd] in *.
  destruct r as [x|e]; [|reflexivity]. cbn [bind]. destruct x; [reflexivity|].
  now rewrite IH.
Qed.

Theorem iter_lines_chomp c ws ls :
  forallb line_ok ls = true -> iter_lines c ws (map chomp ls) = iter_lines c ws ls.
Proof. intros H. unfold iter_lines. rewrite map_length. now apply iter_loop_chomp. Qed.

(** ** Fuel *)

Lemma init_of_progress c ws ls x xs :
  fst (init_of c ws ls) = Ok (x :: xs) ->
  (length (snd (init_of c ws ls)) < length ls)%nat.
Proof.
  destruct c; cbn [init_of]; unfold deb822_init, gpgmv_init.
  - pose proof (consume_nil_lines true ws ls true gpg_init eq_refl) as Hlt.
    destruct (consume true ws true gpg_init ls) as [g rest]. cbn [fst snd] in *.
    destruct (g_lines g) as [|l0 lines]; [discriminate|]. intros _. apply Hlt. discriminate.
  - destruct (gpgmv_split_props ws (S (length ls)) ls ltac:(lia)) as (lines & pre & E1 & E2 & Hne).
    destruct (gpgmv_split (S (length ls)) ws ls) as [r rest]. cbn [fst snd] in *. subst r.
    cbn [bind]. destruct lines as [|l0 lines]; [discriminate|]. intros _.
    specialize (Hne ltac:(discriminate)). rewrite E2. rewrite app_length.
    destruct pre; [congruence|cbn [length]; lia].
Qed.

(** any fuel above the number of lines gives the same answer *)
Lemma iter_loop_fuel c ws : forall f f' ls,
  (length ls < f)%nat -> (length ls < f')%nat ->
  iter_loop f c ws ls = iter_loop f' c ws ls.
Proof.
  induction f as [|f IH]; intros f' ls Hf Hf'; [lia|].
  destruct f' as [|f']; [lia|]. cbn [iter_loop].
  pose proof (init_of_progress c ws ls) as Hp.
  destruct (init_of c ws ls) as [r rest]. cbn [fst snd] in Hp.
  destruct r as [x|e]; [|reflexivity]. cbn [bind]. destruct x as [|kv x]; [reflexivity|].
  specialize (Hp kv x eq_refl). rewrite (IH f' rest) by lia. reflexivity.
Qed.

Theorem iter_loop_enough c ws ls f :
  (length ls < f)%nat -> iter_loop f c ws ls = iter_lines c ws ls.
Proof. intros H. unfold iter_lines. apply iter_loop_fuel; lia. Qed.

(** the only error of the field loop is the ValueError of validate_input *)
Lemma check_cont_lines_err cl e : check_cont_lines cl = Err e -> e = ValueError.
Proof.
  induction cl as [|x cl IH]; [discriminate|]. cbn [check_cont_lines].
  destruct x as [|c1 x]; [now intros [= <-]|]. destruct (py_isspace c1); [exact IH|now intros [= <-]].
Qed.

Lemma flush_err d ck content e : flush d ck content = Err e -> e = ValueError.
Proof.
  unfold flush, setitem, validate_input. destruct ck as [[|c0 k0]|]; try discriminate.
  destruct (endswith [LF] content); [now intros [= <-]|].
  destruct (check_cont_lines (tl (splitlines py_islinebreak false content))) eqn:E; [discriminate|].
  cbn [bind]. intros [= <-]. eapply check_cont_lines_err. exact E.
Qed.

Lemma fields_loop_err lns : forall d ck content e,
  fields_loop d ck content lns = Err e -> e = ValueError.
Proof.
  induction lns as [|ln lns IH]; intros d ck content e.
  - cbn [fields_loop]. apply flush_err.
  - cbn [fields_loop].
    destruct (match_single ln) as [[k data]|].
    { destruct (flush d ck content) as [d'|e'] eqn:Ef; cbn [bind]; [apply IH|].
      intros [= <-]. eapply flush_err. exact Ef. }
    destruct (match_multi ln) as [k|].
    { destruct (flush d ck content) as [d'|e'] eqn:Ef; cbn [bind]; [apply IH|].
      intros [= <-]. eapply flush_err. exact Ef. }
    destruct (match_multidata ln); apply IH.
Qed.

Lemma deb822_init_err ws ls e : fst (deb822_init ws ls) = Err e -> e = ValueError.
Proof.
  unfold deb822_init. destruct (consume true ws true gpg_init ls) as [g r0].
  destruct (g_lines g) as [|l0 lines]; [discriminate|]. cbn [fst]. apply fields_loop_err.
Qed.

Lemma init_of_err c ws ls e : fst (init_of c ws ls) = Err e -> e = ValueError.
Proof.
  destruct c; cbn [init_of]; [apply deb822_init_err|]. unfold gpgmv_init.
  destruct (gpgmv_split_props ws (S (length ls)) ls ltac:(lia)) as (lines & pre & E1 & _).
  destruct (gpgmv_split (S (length ls)) ws ls) as [r rest]. cbn [fst] in *. subst r.
  cbn [bind]. apply deb822_init_err.
Qed.

(** the fuel of [iter_lines] is never exhausted *)
Theorem iter_loop_no_fuel_error c ws : forall f ls,
  (length ls < f)%nat -> iter_loop f c ws ls <> Err OutOfFuel.
Proof.
  induction f as [|f IH]; intros ls Hf; [lia|]. cbn [iter_loop].
  pose proof (init_of_progress c ws ls) as Hp. pose proof (init_of_err c ws ls) as He.
  destruct (init_of c ws ls) as [r rest]. cbn [fst snd] in Hp, He.
  destruct r as [x|e].
  - cbn [bind]. destruct x as [|kv x]; [discriminate|].
    specialize (Hp kv x eq_refl). specialize (IH rest ltac:(lia)).
    destruct (iter_loop f c ws rest); [discriminate|]. cbn [bind]. congruence.
  - cbn [bind]. specialize (He e eq_refl). subst e. discriminate.
Qed.

Theorem iter_lines_no_fuel_error c ws ls : iter_lines c ws ls <> Err OutOfFuel.
Proof. apply iter_loop_no_fuel_error. lia. Qed.
