(** C02 proofs, part 6: every line list whose non-comment lines are a valid
    document has the structure of Spec.v's commented documents ([cdoc_lines]),
    hence Dsc/Changes ignore comment lines anywhere. *)
From Coq Require Import Lia ZifyBool.
From Verif Require Import Lib.Base Lib.PyStr Gen.PyChars Deb822.Model Deb822.Spec
  Deb822.ProofsStr Deb822.ProofsParse Deb822.ProofsConsume Deb822.Proofs Deb822.ProofsMore Deb822.ProofsGpgMv.

Local Open Scope N_scope.

(** * filter and concatenation *)

Lemma filter_app_cons_inv {A} (p : A -> bool) ls : forall a x b,
  filter p ls = a ++ x :: b ->
  exists l1 l2, ls = l1 ++ x :: l2 /\ filter p l1 = a /\ filter p l2 = b.
Proof.
  induction ls as [|y ls IH]; intros a x b H.
  - destruct a; discriminate.
  - cbn [filter] in H. destruct (p y) eqn:Ey.
    + destruct a as [|a0 a].
      * cbn [app] in H. injection H as -> Hb. exists [], ls. now repeat split.
      * cbn [app] in H. injection H as -> Hb. destruct (IH _ _ _ Hb) as (l1 & l2 & -> & H1 & H2).
        exists (a0 :: l1), l2. repeat split; [|exact H2]. cbn [filter]. now rewrite Ey, H1.
    + destruct (IH _ _ _ H) as (l1 & l2 & -> & H1 & H2).
      exists (y :: l1), l2. repeat split; [|exact H2]. cbn [filter]. now rewrite Ey.
Qed.

Lemma filter_mid_true {A} (p : A -> bool) ls a x b : filter p ls = a ++ x :: b -> p x = true.
Proof.
  intros H. assert (Hin : In x (filter p ls)) by (rewrite H; apply in_elt).
  apply filter_In in Hin. tauto.
Qed.

Lemma forallb_via_filter {A} (p q : A -> bool) l :
  (forall x, In x l -> p x = false -> q x = true) ->
  forallb q (filter p l) = true -> forallb q l = true.
Proof.
  intros Hn Hf. apply forallb_forall. intros x Hx. destruct (p x) eqn:E.
  - rewrite forallb_forall in Hf. apply Hf. apply filter_In. now split.
  - now apply Hn.
Qed.

(** a line that the comment filter drops is a comment line *)
Lemma dropped_is_comment ls x :
  forallb no_linebreak ls = true -> In x ls -> not_comment x = false -> comment_line x = true.
Proof.
  intros Hnl Hx Hc. rewrite forallb_forall in Hnl. unfold comment_line. rewrite (Hnl x Hx).
  unfold not_comment in Hc. apply negb_false_iff in Hc. now rewrite Hc.
Qed.

Lemma comment_line_armor_text l : comment_line l = true -> armor_text_line l = true.
Proof.
  intros H. pose proof (comment_line_raw_safe l H) as Hr.
  destruct (raw_safe_inv l Hr) as (H1 & H2 & H3). unfold armor_text_line.
  rewrite H1. unfold blank_ws in H2. rewrite H2. rewrite <- s_dashes_eq, H3. reflexivity.
Qed.

Lemma comment_line_sig l : comment_line l = true -> sig_line l = true.
Proof.
  intros H. pose proof (comment_line_raw_safe l H) as Hr.
  destruct (raw_safe_inv l Hr) as (H1 & _ & H3). unfold sig_line.
  rewrite H1. rewrite <- s_dashes_eq, H3. reflexivity.
Qed.

(** lifting a class of lines through the comment filter *)
Lemma lift_lines (q : str -> bool) ls :
  forallb no_linebreak ls = true ->
  (forall l, comment_line l = true -> q l = true) ->
  forallb q (filter not_comment ls) = true -> forallb q ls = true.
Proof.
  intros Hnl Hq Hf. apply (forallb_via_filter not_comment); [|exact Hf].
  intros x Hx Hc. apply Hq. eapply dropped_is_comment; eassumption.
Qed.

Lemma gap_lines_lift ls :
  forallb no_linebreak ls = true -> forallb ws_line (filter not_comment ls) = true ->
  forallb gap_line ls = true.
Proof.
  intros Hnl Hf. apply lift_lines; [exact Hnl| |].
  - intros l Hl. unfold gap_line. now rewrite Hl.
  - eapply forallb_impl; [|exact Hf]. intros l Hl. unfold gap_line. now rewrite Hl, orb_true_r.
Qed.

(** * The decomposition *)

Lemma block_doc_shape_plain lead (P seps D : list str) :
  lead ++ (P ++ seps) ++ D = lead ++ P ++ seps ++ D.
Proof. now rewrite <- app_assoc. Qed.

Lemma armored_doc_shape lead a (P seps D : list str) :
  lead ++ (armor_lines a P ++ seps) ++ D
  = lead ++ (s_begin_signed ++ a_w1 a) :: (a_hdr a ++ a_blank a :: (P ++ (s_begin_signature ++ a_w2 a)
      :: (a_sig a ++ (s_end_signature ++ a_w3 a) :: (seps ++ D)))).
Proof.
  rewrite armor_lines_eq. cbn [app]. f_equal. f_equal.
  rewrite <- !app_assoc. cbn [app]. f_equal. f_equal. rewrite <- !app_assoc. cbn [app].
  f_equal. f_equal. rewrite <- !app_assoc. reflexivity.
Qed.

Theorem commented_doc_structure ws bs : forall lead ls,
  forallb no_linebreak ls = true -> filter not_comment ls = doc_lines lead bs ->
  valid_blocks ws bs = true -> forallb ws_line lead = true ->
  exists gap cbs,
    ls = cdoc_lines gap cbs /\ forallb gap_line gap = true /\ valid_cblocks ws cbs = true
    /\ map cb_para cbs = map b_para bs.
Proof.
  induction bs as [|b bs IH]; intros lead ls Hnl Hf Hbs Hslead.
  - unfold doc_lines in Hf. cbn [map concat] in Hf. rewrite app_nil_r in Hf.
    exists ls, []. unfold cdoc_lines. cbn [map concat]. rewrite app_nil_r. repeat split.
    apply gap_lines_lift; [exact Hnl|now rewrite Hf].
  - cbn [valid_blocks] in Hbs. apply andb_true_iff in Hbs. destruct Hbs as [Hb Hbs].
    destruct (valid_block_inv _ _ _ Hb) as (Hv & Hne & Hshape).
    pose proof (para_lines_nonnil _ Hne) as HPn.
    unfold doc_lines in Hf. cbn [map concat] in Hf. unfold block_lines in Hf.
    set (D := concat (map block_lines bs)) in *.
    destruct (b_armor b) as [a|] eqn:Ea; cbn [wrap_lines] in Hf.
    + (* signed block *)
      destruct Hshape as [Ha Hseps]. rewrite armored_doc_shape in Hf.
      destruct (valid_armor_inv _ _ Ha) as (Hw1 & Hw2 & Hw3 & Hhdr & Hbl & Hsig).
      destruct (filter_app_cons_inv _ _ _ _ _ Hf) as (l0 & l1 & -> & F0 & F1).
      destruct (filter_app_cons_inv _ _ _ _ _ F1) as (h' & l2 & -> & Fh & F2).
      destruct (filter_app_cons_inv _ _ _ _ _ F2) as (p' & l3 & -> & Fp & F3).
      destruct (filter_app_cons_inv _ _ _ _ _ F3) as (s' & l4 & -> & Fs & F4).
      apply forallb_app_iff in Hnl. destruct Hnl as [Hn0 Hnl]. cbn [forallb] in Hnl.
      apply andb_true_iff in Hnl. destruct Hnl as [_ Hnl].
      apply forallb_app_iff in Hnl. destruct Hnl as [Hnh Hnl]. cbn [forallb] in Hnl.
      apply andb_true_iff in Hnl. destruct Hnl as [_ Hnl].
      apply forallb_app_iff in Hnl. destruct Hnl as [Hnp Hnl]. cbn [forallb] in Hnl.
      apply andb_true_iff in Hnl. destruct Hnl as [_ Hnl].
      apply forallb_app_iff in Hnl. destruct Hnl as [Hns Hnl]. cbn [forallb] in Hnl.
      apply andb_true_iff in Hnl. destruct Hnl as [_ Hn4].
      destruct (IH (b_seps b) l4 Hn4 F4 Hbs Hseps) as (gap' & cbs' & -> & Hgap' & Hcbs' & Hmap).
      set (a' := mkArmor (a_w1 a) (a_w2 a) (a_w3 a) h' (a_blank a) s').
      exists l0, (mkCBlock (b_para b) p' (Some a') gap' :: cbs'). repeat split.
      * unfold cdoc_lines. cbn [map concat]. unfold cblock_lines. cbn [cb_armor cb_body cb_gap wrap_lines].
        rewrite armor_lines_eq. cbn [a' a_w1 a_w2 a_w3 a_hdr a_blank a_sig]. cbn [app]. f_equal. f_equal.
        rewrite <- !app_assoc. cbn [app]. f_equal. f_equal. rewrite <- !app_assoc. cbn [app].
        f_equal. f_equal. rewrite <- !app_assoc. reflexivity.
      * apply gap_lines_lift; [exact Hn0|now rewrite F0].
      * cbn [valid_cblocks]. rewrite Hcbs', andb_true_r. unfold valid_cblock.
        cbn [cb_para cb_body cb_armor cb_gap]. rewrite Hv, Hnp, Hgap'.
        replace (negb (is_nil' (b_para b))) with true by (destruct (b_para b); [congruence|reflexivity]).
        rewrite Fp, (proj2 (strs_eqb_eq _ _) eq_refl). cbn [andb].
        unfold valid_armor. cbn [a' a_w1 a_w2 a_w3 a_hdr a_blank a_sig]. rewrite Hw1, Hw2, Hw3, Hbl. cbn [andb].
        rewrite (lift_lines armor_text_line h' Hnh comment_line_armor_text) by now rewrite Fh.
        rewrite (lift_lines sig_line s' Hns comment_line_sig) by now rewrite Fs. reflexivity.
      * cbn [map cb_para]. now rewrite Hmap.
    + (* unsigned block *)
      destruct (para_lines (b_para b)) as [|x P'] eqn:EP; [congruence|].
      rewrite block_doc_shape_plain in Hf. cbn [app] in Hf.
      destruct (filter_app_cons_inv _ _ _ _ _ Hf) as (l0 & l1 & -> & F0 & F1).
      pose proof (filter_mid_true _ _ _ _ _ Hf) as Hx.
      apply forallb_app_iff in Hnl. destruct Hnl as [Hn0 Hnl]. cbn [forallb] in Hnl.
      apply andb_true_iff in Hnl. destruct Hnl as [Hnx Hn1].
      destruct Hshape as [Hseps|[Hlast Hnil]].
      * destruct (valid_seps_inv _ _ Hseps) as (s & more & Es & Hs1 & Hmore).
        rewrite Es in *. cbn [app] in F1.
        destruct (filter_app_cons_inv _ _ _ _ _ F1) as (pb & l2 & -> & Fp & F2).
        apply forallb_app_iff in Hn1. destruct Hn1 as [Hnp Hn1]. cbn [forallb] in Hn1.
        apply andb_true_iff in Hn1. destruct Hn1 as [_ Hn2].
        destruct (IH more l2 Hn2 F2 Hbs Hmore) as (gap' & cbs' & -> & Hgap' & Hcbs' & Hmap).
        exists l0, (mkCBlock (b_para b) (x :: pb) None (s :: gap') :: cbs'). repeat split.
        -- unfold cdoc_lines. cbn [map concat]. unfold cblock_lines. cbn [cb_armor cb_body cb_gap wrap_lines].
           cbn [app]. f_equal. f_equal. rewrite <- !app_assoc. reflexivity.
        -- apply gap_lines_lift; [exact Hn0|now rewrite F0].
        -- cbn [valid_cblocks]. rewrite Hcbs', andb_true_r. unfold valid_cblock.
           cbn [cb_para cb_body cb_armor cb_gap forallb]. rewrite Hv, Hnx, Hnp, Hgap', Hs1.
           replace (negb (is_nil' (b_para b))) with true by (destruct (b_para b); [congruence|reflexivity]).
           cbn [filter]. rewrite Hx, Fp, EP, (proj2 (strs_eqb_eq _ _) eq_refl).
           unfold gap_line. rewrite (sep_line_ws_line _ _ Hs1), orb_true_r. reflexivity.
        -- cbn [map cb_para]. now rewrite Hmap.
      * rewrite Hnil in F1. cbn [app] in F1.
        assert (Ebs : bs = []) by (destruct bs; [reflexivity|discriminate]). subst bs.
        cbn [map concat] in D. subst D. rewrite app_nil_r in F1.
        exists l0, [mkCBlock (b_para b) (x :: l1) None []]. repeat split.
        -- unfold cdoc_lines. cbn [map concat]. unfold cblock_lines. cbn [cb_armor cb_body cb_gap wrap_lines].
           now rewrite !app_nil_r.
        -- apply gap_lines_lift; [exact Hn0|now rewrite F0].
        -- cbn [valid_cblocks]. unfold valid_cblock.
           cbn [cb_para cb_body cb_armor cb_gap forallb is_nil']. rewrite Hv, Hnx, Hn1.
           replace (negb (is_nil' (b_para b))) with true by (destruct (b_para b); [congruence|reflexivity]).
           cbn [filter]. rewrite Hx, F1, EP, (proj2 (strs_eqb_eq _ _) eq_refl). reflexivity.
Qed.

(** * The theorems *)

(** comments_ignored for Dsc/Changes on line lists *)
Theorem iter_lines_gpgmv_comments ws lead bs ls :
  forallb ws_line lead = true -> valid_blocks ws bs = true ->
  forallb no_linebreak ls = true -> filter not_comment ls = doc_lines lead bs ->
  iter_lines CGpgMv ws ls = Ok (map (fun b => expected_para (b_para b)) bs).
Proof.
  intros Hlead Hbs Hnl Hf.
  destruct (commented_doc_structure ws bs lead ls Hnl Hf Hbs Hlead)
    as (gap & cbs & -> & Hgap & Hcbs & Hmap).
  rewrite (iter_lines_cdoc ws cbs gap Hgap Hcbs).
  f_equal. rewrite <- (map_map b_para expected_para), <- Hmap, map_map. reflexivity.
Qed.

(** the property as one statement, both classes *)
Theorem roundtrip_any_form_any_class c ws crlf lead bs ls i :
  forallb ws_line lead = true -> valid_blocks ws bs = true ->
  forallb no_linebreak ls = true -> filter not_comment ls = doc_lines lead bs ->
  In i (forms_of crlf ls) ->
  iter_paragraphs c ws i = Ok (map (fun b => expected_para (b_para b)) bs).
Proof.
  intros Hlead Hbs Hnl Hf Hi. destruct c.
  - now apply (roundtrip_any_form ws crlf lead bs ls i).
  - rewrite (iter_paragraphs_forms _ _ crlf ls i Hnl Hi).
    now apply (iter_lines_gpgmv_comments ws lead bs ls).
Qed.

(** the constructor of either class on a commented document reads its first paragraph *)
Theorem deb822_new_doc_comments_any c ws crlf lead b bs ls i :
  forallb ws_line lead = true -> valid_blocks ws (b :: bs) = true ->
  forallb no_linebreak ls = true -> filter not_comment ls = doc_lines lead (b :: bs) ->
  In i (forms_of crlf ls) ->
  deb822_new c ws i = Ok (expected_para (b_para b)).
Proof.
  intros Hlead Hbs Hnl Hf Hi.
  destruct (lines_of_forms crlf ls i Hnl Hi) as [Hok Hch].
  destruct (deb822_new_init c ws i) as [c' ->].
  assert (E : fst (init_of c' ws (lines_of i)) = fst (init_of c' ws (map chomp (lines_of i))))
    by now rewrite init_of_chomp.
  rewrite E, Hch. destruct c'; cbn [init_of].
  - rewrite deb822_init_comments, Hf.
    cbn [valid_blocks] in Hbs. apply andb_true_iff in Hbs. destruct Hbs as [Hb _].
    unfold doc_lines. cbn [map concat].
    destruct (init_of_block CDeb822 ws (is_nil' bs) lead b (concat (map block_lines bs)) Hlead Hb) as (E2 & _).
    { destruct bs; [reflexivity|discriminate]. }
    cbn [init_of] in E2. now rewrite E2.
  - destruct (commented_doc_structure ws (b :: bs) lead ls Hnl Hf Hbs Hlead)
      as (gap & cbs & -> & Hgap & Hcbs & Hmap).
    destruct cbs as [|cb cbs]; [discriminate|]. cbn [map] in Hmap. injection Hmap as Hp _.
    cbn [valid_cblocks] in Hcbs. apply andb_true_iff in Hcbs. destruct Hcbs as [Hcb _].
    unfold cdoc_lines. cbn [map concat].
    rewrite (gpgmv_init_cblock ws (is_nil' cbs) gap cb (concat (map cblock_lines cbs)) Hgap Hcb).
    + cbn [fst]. now rewrite Hp.
    + intros Hl. destruct cbs; [reflexivity|discriminate].
Qed.
