(** String-level lemmas used by the C02 proofs (Deb822/Proofs*.v): lines without
    line-boundary characters, splitlines of a text built from such lines, strip. *)
From Coq Require Import Lia ZifyBool.
From Verif Require Import Lib.Base Lib.PyStr Gen.PyChars Deb822.Model Deb822.Spec.

Local Open Scope N_scope.

(** * Character facts *)

Lemma bytes_lb_py_lb c : bytes_islinebreak c = true -> py_islinebreak c = true.
Proof.
  unfold bytes_islinebreak. intros H. apply orb_true_iff in H.
  destruct H as [H|H]; apply N.eqb_eq in H; subst c; reflexivity.
Qed.

Lemma is_crlf_py_lb c : is_crlf c = true -> py_islinebreak c = true.
Proof.
  unfold is_crlf. intros H. apply orb_true_iff in H.
  destruct H as [H|H]; apply N.eqb_eq in H; subst c; reflexivity.
Qed.

Lemma lf_py_lb : py_islinebreak LF = true.
Proof. reflexivity. Qed.

Lemma no_lb_not_crlf c : py_islinebreak c = false -> is_crlf c = false.
Proof. intros H. destruct (is_crlf c) eqn:E; [|reflexivity]. apply is_crlf_py_lb in E. congruence. Qed.

Lemma no_lb_not_lf c : py_islinebreak c = false -> (c =? LF) = false.
Proof.
  intros H. destruct (N.eqb_spec c LF) as [->|]; [|reflexivity]. discriminate.
Qed.

Lemma name_char_key_char c : name_char c = true -> key_char c = true.
Proof. unfold name_char, key_char, bytes_isspace, COLON. lia. Qed.

Lemma name_char_not_space c : name_char c = true -> bytes_isspace c = false.
Proof. unfold name_char, bytes_isspace. lia. Qed.

Lemma name_char_not_pyspace c : name_char c = true -> py_isspace c = false.
Proof.
  unfold name_char, py_isspace, in_ranges, py_space_ranges. cbn [existsb fst snd]. lia.
Qed.

Lemma sp_tab_pyspace c : is_sp_tab c = true -> py_isspace c = true.
Proof.
  unfold is_sp_tab. intros H. apply orb_true_iff in H.
  destruct H as [H|H]; apply N.eqb_eq in H; subst c; reflexivity.
Qed.

Lemma sp_tab_bytes_space c : is_sp_tab c = true -> bytes_isspace c = true.
Proof.
  unfold is_sp_tab. intros H. apply orb_true_iff in H.
  destruct H as [H|H]; apply N.eqb_eq in H; subst c; reflexivity.
Qed.

Lemma bytes_space_pyspace c : bytes_isspace c = true -> py_isspace c = true.
Proof.
  unfold bytes_isspace, py_isspace, in_ranges, py_space_ranges. cbn [existsb fst snd]. lia.
Qed.

(** * forallb helpers *)

Lemma forallb_impl {A} (p q : A -> bool) l :
  (forall x, p x = true -> q x = true) -> forallb p l = true -> forallb q l = true.
Proof.
  intros H. induction l as [|x l IH]; simpl; [reflexivity|].
  intros Hl. apply andb_true_iff in Hl. destruct Hl as [Hx Hl].
  rewrite (H _ Hx). now apply IH.
Qed.

Lemma forallb_app_iff {A} (p : A -> bool) a b :
  forallb p (a ++ b) = true <-> forallb p a = true /\ forallb p b = true.
Proof. rewrite forallb_app. apply andb_true_iff. Qed.

Lemma no_linebreak_app a b : no_linebreak (a ++ b) = no_linebreak a && no_linebreak b.
Proof. apply forallb_app. Qed.

Lemma no_linebreak_cons c l : no_linebreak (c :: l) = negb (py_islinebreak c) && no_linebreak l.
Proof. reflexivity. Qed.

(** * dropwhile / rdropwhile on text that has no character of the class *)

Lemma dropwhile_none {A} (p : A -> bool) l :
  forallb (fun c => negb (p c)) l = true -> dropwhile p l = l.
Proof.
  destruct l as [|c l]; [reflexivity|]. simpl. intros H.
  apply andb_true_iff in H. destruct H as [H _]. apply negb_true_iff in H. now rewrite H.
Qed.

Lemma rdropwhile_none {A} (p : A -> bool) l :
  forallb (fun c => negb (p c)) l = true -> rdropwhile p l = l.
Proof.
  intros H. unfold rdropwhile. rewrite dropwhile_none; [apply rev_involutive|].
  apply forallb_forall. intros x Hx. rewrite forallb_forall in H. apply H. now apply in_rev.
Qed.

Lemma rdropwhile_cons_keep {A} (p : A -> bool) c l :
  p c = false -> rdropwhile p (c :: l) = c :: rdropwhile p l.
Proof.
  intros Hc. unfold rdropwhile. cbn [rev].
  assert (G : forall r, dropwhile p (r ++ [c]) = dropwhile p r ++ [c]).
  { induction r as [|x r IH]; simpl; [now rewrite Hc|]. destruct (p x); [exact IH|reflexivity]. }
  rewrite G, rev_app_distr. reflexivity.
Qed.

Lemma rdropwhile_all {A} (p : A -> bool) l : forallb p l = true -> rdropwhile p l = [].
Proof.
  intros H. rewrite <- (app_nil_l l). rewrite rdropwhile_app_drop by exact H. reflexivity.
Qed.

Lemma rdropwhile_incl {A} (p : A -> bool) l x : In x (rdropwhile p l) -> In x l.
Proof.
  unfold rdropwhile. intros H. apply in_rev in H. apply in_rev.
  revert H. generalize (rev l). induction l0 as [|y r IH]; simpl; [tauto|].
  destruct (p y); [intros H; right; now apply IH|simpl; tauto].
Qed.

Lemma rdropwhile_forallb {A} (p q : A -> bool) l :
  forallb q l = true -> forallb q (rdropwhile p l) = true.
Proof.
  intros H. apply forallb_forall. intros x Hx. rewrite forallb_forall in H.
  apply H. eapply rdropwhile_incl. exact Hx.
Qed.

Lemma dropwhile_forallb {A} (p q : A -> bool) l :
  forallb q l = true -> forallb q (dropwhile p l) = true.
Proof.
  induction l as [|c l IH]; simpl; [reflexivity|]. intros H.
  destruct (p c); [|exact H]. apply andb_true_iff in H. now apply IH.
Qed.

Lemma dropwhile_nil_all {A} (p : A -> bool) l : dropwhile p l = [] -> forallb p l = true.
Proof.
  induction l as [|c l IH]; simpl; [reflexivity|].
  destruct (p c); [exact IH|discriminate].
Qed.

Lemma dropwhile_all {A} (p : A -> bool) l : forallb p l = true -> dropwhile p l = [].
Proof. intros H. rewrite <- (app_nil_r l). rewrite dropwhile_app_all by exact H. reflexivity. Qed.

Lemma dropwhile_head {A} (p : A -> bool) l c r : dropwhile p l = c :: r -> p c = false.
Proof. rewrite dropwhile_span. apply span_snd_head. Qed.

(** strip on a text whose left-stripped form is [c :: r] *)
Lemma strip_by_cons p s c r :
  dropwhile p s = c :: r -> strip_by p s = c :: rstrip_by p r.
Proof.
  intros H. unfold strip_by, lstrip_by, rstrip_by. rewrite H.
  apply rdropwhile_cons_keep. eapply dropwhile_head; eassumption.
Qed.

Lemma strip_by_blank p s : dropwhile p s = [] -> strip_by p s = [].
Proof. intros H. unfold strip_by, lstrip_by, rstrip_by. now rewrite H. Qed.

(** * Lines without CR/LF are fixed by the strippers of the reader *)

Lemma no_linebreak_no_crlf l :
  no_linebreak l = true -> forallb (fun c => negb (is_crlf c)) l = true.
Proof.
  apply forallb_impl. intros c H. apply negb_true_iff in H. apply negb_true_iff.
  now apply no_lb_not_crlf.
Qed.

Lemma strip_crlf_id l : no_linebreak l = true -> strip_crlf l = l.
Proof.
  intros H. apply no_linebreak_no_crlf in H. unfold strip_crlf, strip_by, lstrip_by, rstrip_by.
  rewrite dropwhile_none by exact H. now apply rdropwhile_none.
Qed.

Lemma chomp_id l : no_linebreak l = true -> rstrip_by is_crlf l = l.
Proof. intros H. apply no_linebreak_no_crlf in H. now apply rdropwhile_none. Qed.

Lemma no_linebreak_mem_lf l : no_linebreak l = true -> mem_char LF l = false.
Proof.
  induction l as [|c l IH]; [reflexivity|]. rewrite no_linebreak_cons. intros H.
  apply andb_true_iff in H. destruct H as [Hc Hl]. apply negb_true_iff in Hc.
  change (mem_char LF (c :: l)) with ((LF =? c) || mem_char LF l).
  rewrite (IH Hl), orb_false_r. rewrite N.eqb_sym. now apply no_lb_not_lf.
Qed.

(** * splitlines of a text assembled from boundary-free lines *)

Definition lb_free (islb : N -> bool) (l : str) : bool := forallb (fun c => negb (islb c)) l.

Lemma splitlines_aux_line islb keep l : forall cur rest,
  lb_free islb l = true -> islb LF = true ->
  splitlines_aux islb keep (l ++ LF :: rest) cur
  = (rev cur ++ l ++ if keep then [LF] else []) :: splitlines_aux islb keep rest [].
Proof.
  induction l as [|x l IH]; intros cur rest Hl Hlf.
  - cbn [app splitlines_aux]. rewrite Hlf. destruct rest as [|y r]; [reflexivity|].
    replace ((LF =? 13) && (y =? 10)) with false by reflexivity. reflexivity.
  - cbn [lb_free forallb] in Hl. apply andb_true_iff in Hl. destruct Hl as [Hx Hl].
    apply negb_true_iff in Hx. cbn [app splitlines_aux]. rewrite Hx.
    rewrite IH by assumption. cbn [rev]. now rewrite <- app_assoc.
Qed.

Lemma splitlines_aux_line_crlf islb keep l : forall cur rest,
  lb_free islb l = true -> islb CR = true ->
  splitlines_aux islb keep (l ++ CR :: LF :: rest) cur
  = (rev cur ++ l ++ if keep then [CR; LF] else []) :: splitlines_aux islb keep rest [].
Proof.
  induction l as [|x l IH]; intros cur rest Hl Hcr.
  - cbn [app splitlines_aux]. rewrite Hcr. reflexivity.
  - cbn [lb_free forallb] in Hl. apply andb_true_iff in Hl. destruct Hl as [Hx Hl].
    apply negb_true_iff in Hx. cbn [app splitlines_aux]. rewrite Hx.
    rewrite IH by assumption. cbn [rev]. now rewrite <- app_assoc.
Qed.

(** a final line without line end *)
Lemma splitlines_aux_last islb keep l : forall cur,
  lb_free islb l = true ->
  splitlines_aux islb keep l cur = match rev cur ++ l with [] => [] | x => [x] end.
Proof.
  induction l as [|x l IH]; intros cur Hl.
  - cbn [splitlines_aux]. rewrite app_nil_r. destruct cur as [|c cur]; [reflexivity|].
    cbn [rev]. destruct (rev cur); reflexivity.
  - cbn [lb_free forallb] in Hl. apply andb_true_iff in Hl. destruct Hl as [Hx Hl].
    apply negb_true_iff in Hx. cbn [splitlines_aux]. rewrite Hx.
    rewrite IH by assumption. cbn [rev]. now rewrite <- app_assoc.
Qed.

Lemma unlines_unlines_with ls : unlines ls = unlines_with [LF] ls.
Proof. reflexivity. Qed.

Lemma unlines_cons l ls : unlines (l :: ls) = l ++ LF :: unlines ls.
Proof. unfold unlines. cbn [map concat]. now rewrite <- app_assoc. Qed.

Lemma unlines_app a b : unlines (a ++ b) = unlines a ++ unlines b.
Proof. unfold unlines. now rewrite map_app, concat_app. Qed.

Lemma splitlines_unlines islb keep ls :
  forallb (lb_free islb) ls = true -> islb LF = true ->
  splitlines islb keep (unlines ls) = map (fun l => l ++ if keep then [LF] else []) ls.
Proof.
  intros Hls Hlf. unfold splitlines. induction ls as [|l ls IH]; [reflexivity|].
  cbn [forallb] in Hls. apply andb_true_iff in Hls. destruct Hls as [Hl Hls].
  rewrite unlines_cons, splitlines_aux_line by assumption. cbn [rev app map].
  now rewrite IH.
Qed.

Lemma unlines_with_crlf_cons l ls :
  unlines_with [CR; LF] (l :: ls) = l ++ CR :: LF :: unlines_with [CR; LF] ls.
Proof. unfold unlines_with. cbn [map concat]. now rewrite <- app_assoc. Qed.

Lemma splitlines_unlines_crlf islb keep ls :
  forallb (lb_free islb) ls = true -> islb CR = true ->
  splitlines islb keep (unlines_with [CR; LF] ls)
  = map (fun l => l ++ if keep then [CR; LF] else []) ls.
Proof.
  intros Hls Hcr. unfold splitlines. induction ls as [|l ls IH]; [reflexivity|].
  cbn [forallb] in Hls. apply andb_true_iff in Hls. destruct Hls as [Hl Hls].
  rewrite unlines_with_crlf_cons, splitlines_aux_line_crlf by assumption. cbn [rev app map].
  now rewrite IH.
Qed.

Lemma no_linebreak_lb_free_py l : no_linebreak l = true -> lb_free py_islinebreak l = true.
Proof. exact (fun H => H). Qed.

Lemma no_linebreak_lb_free_bytes l : no_linebreak l = true -> lb_free bytes_islinebreak l = true.
Proof.
  apply forallb_impl. intros c H. apply negb_true_iff in H. apply negb_true_iff.
  destruct (bytes_islinebreak c) eqn:E; [|reflexivity]. apply bytes_lb_py_lb in E. congruence.
Qed.

Lemma no_linebreak_lb_free_lf l : no_linebreak l = true -> lb_free (N.eqb LF) l = true.
Proof.
  apply forallb_impl. intros c H. apply negb_true_iff in H. apply negb_true_iff.
  rewrite N.eqb_sym. now apply no_lb_not_lf.
Qed.

(** * value_of / split_on *)

Lemma value_of_join first conts : value_of first conts = join [LF] (first :: conts).
Proof.
  unfold value_of. revert first. induction conts as [|c conts IH]; intros first.
  - simpl. now rewrite app_nil_r.
  - rewrite join_cons by discriminate. cbn [map concat app]. now rewrite IH.
Qed.

Lemma value_of_split v :
  match split_on LF v with first :: conts => value_of first conts = v | [] => False end.
Proof.
  pose proof (join_split_on LF v) as H. pose proof (split_on_nonempty LF v) as Hn.
  destruct (split_on LF v) as [|first conts]; [congruence|].
  now rewrite value_of_join.
Qed.

Lemma split_on_value_of first conts :
  no_linebreak first = true -> forallb no_linebreak conts = true ->
  split_on LF (value_of first conts) = first :: conts.
Proof.
  intros Hf Hc. rewrite value_of_join. apply split_on_join; [discriminate|].
  cbn [forallb]. rewrite (no_linebreak_mem_lf _ Hf). cbn [negb andb].
  eapply forallb_impl; [|exact Hc]. intros l Hl. now rewrite (no_linebreak_mem_lf _ Hl).
Qed.

Lemma split_on_first_app first rest :
  mem_char LF first = false ->
  split_on_first LF (first ++ LF :: rest) = (first, Some rest).
Proof.
  induction first as [|x f IH]; intros H.
  - reflexivity.
  - change (mem_char LF (x :: f)) with ((LF =? x) || mem_char LF f) in H.
    apply orb_false_iff in H. destruct H as [Hx Hf].
    cbn [app split_on_first]. rewrite N.eqb_sym in Hx. rewrite Hx. now rewrite IH.
Qed.

Lemma split_on_first_none first :
  mem_char LF first = false -> split_on_first LF first = (first, None).
Proof.
  induction first as [|x f IH]; intros H; [reflexivity|].
  change (mem_char LF (x :: f)) with ((LF =? x) || mem_char LF f) in H.
  apply orb_false_iff in H. destruct H as [Hx Hf].
  cbn [split_on_first]. rewrite N.eqb_sym in Hx. rewrite Hx. now rewrite IH.
Qed.

Lemma trim_value_value_of first conts :
  no_linebreak first = true ->
  trim_value (value_of first conts) = value_of (strip_by py_isspace first) conts.
Proof.
  intros Hf. apply no_linebreak_mem_lf in Hf. unfold trim_value, value_of.
  destruct conts as [|c conts].
  - cbn [map concat]. rewrite !app_nil_r. now rewrite split_on_first_none.
  - cbn [map concat]. cbn [app]. now rewrite split_on_first_app.
Qed.
