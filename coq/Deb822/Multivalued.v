(** MODEL of [deb822._multivalued] and of the five classes that carry a
    [_multivalued_fields] table (Dsc, Changes, BuildInfo, PdiffIndex, Release), as
    the code is in /repo now.  The tables, the set of classes that define
    [_fixed_field_lengths], the name of the size sub-field, the fixed width and the
    behaviour names come from Gen/MvTables.v (regenerated from the source AST).

    Transcribed:
      _multivalued.__init__          -> [mv_parse_field], [mv_init]
      _multivalued.validate_input / Deb822.validate_input / __setitem__ -> [validate_input], [build]
      _multivalued.get_as_string     -> [get_as_string]
      Deb822._dump_format/_dump_str  -> [entry], [dump_para]
      PdiffIndex._fixed_field_lengths / _get_size_field_length -> [ffl_pdiff], [size_field_length]
      Release._fixed_field_lengths / _get_size_field_length / set_size_field_behavior
                                     -> [ffl_release], [behav_of_name]
    Not modelled here: how Deb822 splits a text into (key, raw value) pairs (that is
    C02's model); [mv_init] starts from those pairs.  No proofs in this file. *)
From Verif Require Import Lib.Base Lib.PyStr Lib.Dec Gen.PyChars Gen.MvTables.

Inductive cls := Dsc | Changes | BuildInfo | PdiffIndex | Release.

Definition table_of (c : cls) : list (str * list str) :=
  match c with
  | Dsc => mv_fields_Dsc
  | Changes => mv_fields_Changes
  | BuildInfo => mv_fields_BuildInfo
  | PdiffIndex => mv_fields_PdiffIndex
  | Release => mv_fields_Release
  end.

(** [hasattr(self, "_fixed_field_lengths")], as found in the source. *)
Definition has_ffl (c : cls) : bool :=
  match c with
  | Dsc => has_fixed_field_lengths_Dsc
  | Changes => has_fixed_field_lengths_Changes
  | BuildInfo => has_fixed_field_lengths_BuildInfo
  | PdiffIndex => has_fixed_field_lengths_PdiffIndex
  | Release => has_fixed_field_lengths_Release
  end.

(** Which of the two hand-transcribed implementations a class uses.  MvProofs.v
    checks that this agrees with [has_ffl] (so a class gaining or losing the
    property breaks the build instead of being silently mis-modelled). *)
Inductive ffl_impl := FflPdiff | FflRelease.
Definition ffl_kind (c : cls) : option ffl_impl :=
  match c with PdiffIndex => Some FflPdiff | Release => Some FflRelease | _ => None end.

Fixpoint mapM {A B} (f : A -> result B) (l : list A) : result (list B) :=
  match l with
  | [] => Ok []
  | a :: l' => do b <- f a; do bs <- mapM f l'; Ok (b :: bs)
  end.

Fixpoint lookup_exact {A} (k : str) (l : list (str * A)) : option A :=
  match l with
  | [] => None
  | (k', a) :: l' => if str_eqb k' k then Some a else lookup_exact k l'
  end.

(** * Records: a Deb822Dict (case-insensitive, first spelling and position kept)
      or, when the caller passes plain dicts, case-sensitive ([ci = false]). *)
Definition key_eqb (ci : bool) (a b : str) : bool :=
  if ci then str_eqb (ascii_lower a) (ascii_lower b) else str_eqb a b.

Definition record := list (str * str).

(** [r[k]] *)
Fixpoint rec_get (ci : bool) (k : str) (r : record) : result str :=
  match r with
  | [] => Err KeyError
  | (k', v) :: r' => if key_eqb ci k' k then Ok v else rec_get ci k r'
  end.

(** [r[k] = v] *)
Fixpoint rec_set (ci : bool) (k v : str) (r : record) : record :=
  match r with
  | [] => [(k, v)]
  | (k', v') :: r' => if key_eqb ci k' k then (k', v) :: r' else (k', v') :: rec_set ci k v r'
  end.

(** [Deb822Dict(pairs)] and [a.update(b)] *)
Definition rec_of_pairs (kvs : list (str * str)) (r : record) : record :=
  fold_left (fun r kv => rec_set true (fst kv) (snd kv) r) kvs r.
(** [Deb822Dict(zip(fields, toks))]: [combine] truncates like [zip]. *)
Definition mk_record (fields toks : list str) : record := rec_of_pairs (combine fields toks) [].
Definition rec_update (a b : record) : record := rec_of_pairs b a.

(** * Paragraph values *)
Inductive fvalue :=
| Plain (s : str)               (* a string *)
| Single (r : record)           (* one mapping: the single-line form *)
| Multi (rs : list record).     (* a list of mappings: the multi-line form *)

(** The paragraph itself is a Deb822Dict: always case-insensitive. *)
Definition para := list (str * fvalue).

Fixpoint para_get (k : str) (p : para) : option fvalue :=
  match p with
  | [] => None
  | (k', v) :: p' => if key_eqb true k' k then Some v else para_get k p'
  end.

Fixpoint para_set (k : str) (v : fvalue) (p : para) : para :=
  match p with
  | [] => [(k, v)]
  | (k', v') :: p' => if key_eqb true k' k then (k', v) :: p' else (k', v') :: para_set k v p'
  end.

(** * _multivalued.__init__ *)
Definition nonempty (s : str) : bool := match s with [] => false | _ => true end.

(** One structured field: [contents] is what Deb822 stored for it. *)
Definition mv_parse_field (fields : list str) (contents : str) : fvalue :=
  let recs := map (fun l => mk_record fields (split_ws py_isspace l))
                  (filter nonempty (splitlines py_islinebreak false contents)) in
  if mem_char LF contents                     (* is_multi_line: s.count("\n") != 0 *)
  then Multi recs                             (* self[field] = [] ; append *)
  else Single (fold_left rec_update recs []). (* self[field] = Deb822Dict() ; update *)

(** The loop over [_multivalued_fields.items()] after Deb822.__init__ has stored
    the raw values.  A value that is not a string (possible only when the object
    is constructed from a mapping whose values are lists) has no [count]/[splitlines]:
    AttributeError. *)
Definition mv_init_step (p : result para) (fe : str * list str) : result para :=
  do p <- p;
  match para_get (fst fe) p with
  | None => Ok p                                           (* except KeyError: continue *)
  | Some (Plain c) => Ok (para_set (fst fe) (mv_parse_field (snd fe) c) p)
  | Some _ => Err OtherError
  end.
Definition mv_init (tbl : list (str * list str)) (raw : list (str * str)) : result para :=
  fold_left mv_init_step tbl (Ok (map (fun kv => (fst kv, Plain (snd kv))) raw)).

(** * Assignment: Deb822.__setitem__ = validate_input + Deb822Dict.__setitem__ *)
Fixpoint validate_lines (ls : list str) : result unit :=
  match ls with
  | [] => Ok tt
  | [] :: _ => Err ValueError                       (* blank line *)
  | (c :: _) :: ls' => if py_isspace c then validate_lines ls' else Err ValueError
  end.

Definition validate_input (c : cls) (key : str) (v : fvalue) : result unit :=
  match lookup_exact (ascii_lower key) (table_of c) with
  | Some _ => Ok tt                                  (* structured field: not validated *)
  | None =>
      match v with
      | Plain s =>
          if endswith [LF] s then Err ValueError
          else validate_lines (tl (splitlines py_islinebreak false s))
      | _ => Err OtherError                          (* list/dict has no endswith *)
      end
  end.

Definition build_step (c : cls) (p : result para) (kv : str * fvalue) : result para :=
  do p <- p; do _ <- validate_input c (fst kv) (snd kv); Ok (para_set (fst kv) (snd kv) p).
Definition build (c : cls) (ops : list (str * fvalue)) : result para :=
  fold_left (build_step c) ops (Ok []).

(** * Release.size_field_behavior *)
Inductive behav := Apt | Dak.
Definition behav_of_name (s : str) : result behav :=
  if str_eqb s release_fixed_name then Ok Apt
  else if str_eqb s release_computed_name then Ok Dak
  else Err ValueError.
(** [None]: the attribute was never assigned. *)
Definition behav_of (s : option str) : result behav :=
  match s with Some n => behav_of_name n | None => behav_of_name release_default_name end.

(** * _fixed_field_lengths *)

(** What [for item in self[key]] yields: the mappings of a list; but the KEYS
    (strings) of a mapping, and the characters of a string.  [item["size"]] on a
    string is a TypeError. *)
Inductive item := RecItem (r : record) | StrItem.
Definition item_get (ci : bool) (k : str) (it : item) : result str :=
  match it with RecItem r => rec_get ci k r | StrItem => Err TypeError end.
Definition items_iter (v : fvalue) : list item :=
  match v with
  | Multi rs => map RecItem rs
  | Single r => map (fun _ => StrItem) r
  | Plain s => map (fun _ => StrItem) s
  end.

(** [max([len(str(item['size'])) for item in self[key]])]; max([]) is a ValueError. *)
Definition size_field_length (ci : bool) (v : fvalue) : result N :=
  do ls <- mapM (fun it => do s <- item_get ci mv_size_key it; Ok (N.of_nat (length s))) (items_iter v);
  match ls with
  | [] => Err ValueError
  | _ => Ok (fold_right N.max 0%N ls)
  end.

Definition has_keys (v : fvalue) : bool := match v with Single _ => true | _ => false end.

(** PdiffIndex._fixed_field_lengths *)
Fixpoint ffl_pdiff (ci : bool) (keys : list str) (p : para) : result (list (str * N)) :=
  match keys with
  | [] => Ok []
  | k :: ks =>
      match para_get k p with
      | None => ffl_pdiff ci ks p                          (* if key not in self: continue *)
      | Some v =>
          if has_keys v then ffl_pdiff ci ks p             (* single line: continue *)
          else do n <- size_field_length ci v;
               do rest <- ffl_pdiff ci ks p;
               Ok ((k, n) :: rest)
      end
  end.

(** Release._fixed_field_lengths (no single-line test here) *)
Fixpoint ffl_release (b : behav) (ci : bool) (keys : list str) (p : para) : result (list (str * N)) :=
  match keys with
  | [] => Ok []
  | k :: ks =>
      match para_get k p with
      | None => ffl_release b ci ks p
      | Some v =>
          do n <- match b with Apt => Ok release_fixed_width | Dak => size_field_length ci v end;
          do rest <- ffl_release b ci ks p;
          Ok ((k, n) :: rest)
      end
  end.

(** [self._fixed_field_lengths], [None] = AttributeError = no fixed lengths. *)
Definition fixed_field_lengths (c : cls) (b : behav) (ci : bool) (p : para)
  : result (option (list (str * N))) :=
  match ffl_kind c with
  | None => Ok None
  | Some FflPdiff => do l <- ffl_pdiff ci (map fst (table_of c)) p; Ok (Some l)
  | Some FflRelease => do l <- ffl_release b ci (map fst (table_of c)) p; Ok (Some l)
  end.

(** * get_as_string *)

(** [(length - len(raw)) * " " + raw] (a negative count gives the empty string) *)
Definition pad_left (w : N) (s : str) : str :=
  repeat SP (N.to_nat (w - N.of_nat (length s))) ++ s.

Definition fmt_col (ci : bool) (len : option N) (it : item) (x : str) : result str :=
  do raw <- item_get ci x it;
  let value := match (if str_eqb x mv_size_key then len else None) with
               | Some n => pad_left n raw
               | None => raw                               (* except KeyError *)
               end in
  if mem_char LF value then Err ValueError else Ok (SP :: value).

Definition fmt_item (ci : bool) (order : list str) (len : option N) (it : item) : result str :=
  do cols <- mapM (fmt_col ci len it) order;
  Ok (concat cols ++ [LF]).

Definition get_as_string (c : cls) (b : behav) (ci : bool) (p : para) (key : str) : result str :=
  let keyl := ascii_lower key in
  match lookup_exact keyl (table_of c) with
  | Some order =>
      match para_get key p with
      | None => Err KeyError
      | Some v =>
          let '(multi, arr) :=
            match v with
            | Single r => (false, [RecItem r])             (* hasattr(self[key], 'keys') *)
            | Multi rs => (true, map RecItem rs)
            | Plain s => (true, map (fun _ => StrItem) s)
            end in
          do lens <- fixed_field_lengths c b ci p;
          let len := match lens with Some l => lookup_exact keyl l | None => None end in
          do lines <- mapM (fmt_item ci order len) arr;
          Ok (rstrip_by (N.eqb LF) ((if multi then [LF] else []) ++ concat lines))
      end
  | None =>
      match para_get key p with
      | Some (Plain s) => Ok s                             (* Deb822.get_as_string: str(self[key]) *)
      | Some _ => Err OtherError                           (* repr of a container: not modelled *)
      | None => Err KeyError
      end
  end.

(** * dump *)
Definition COLON : N := 58.
Definition entry (key value : str) : str :=
  match value with
  | [] => key ++ [COLON] ++ value ++ [LF]
  | ch :: _ =>
      if (ch =? LF)%N then key ++ [COLON] ++ value ++ [LF]
      else key ++ [COLON; SP] ++ value ++ [LF]
  end.

Definition dump_para (c : cls) (b : behav) (ci : bool) (p : para) : result str :=
  do es <- mapM (fun kv => do v <- get_as_string c b ci p (fst kv); Ok (entry (fst kv) v)) p;
  Ok (concat es).

(** * Edits of one object between dumps (what user code does with the values the
      paragraph hands out; the lists and mappings are Python's own, the paragraph
      holds references to them, so an in-place edit is an update of the stored value) *)
Inductive edit :=
| ESetRec (key : str) (i : nat) (r : record)         (* p[key][i] = r *)
| ESetSub (key : str) (i : nat) (sub v : str)        (* p[key][i][sub] = v *)
| ERotate (key : str) (r : record)                   (* l = p[key]; l.pop(0); l.append(r) *)
| EAppend (key : str) (r : record)                   (* p[key].append(r) *)
| EAssign (key : str) (v : fvalue)                   (* p[key] = v *)
| EDel (key : str).                                  (* del p[key] *)

Fixpoint set_nth {A} (i : nat) (a : A) (l : list A) : option (list A) :=
  match l, i with
  | [], _ => None
  | _ :: l', O => Some (a :: l')
  | x :: l', S i' => option_map (cons x) (set_nth i' a l')
  end.

Fixpoint para_del (k : str) (p : para) : option para :=
  match p with
  | [] => None
  | (k', v) :: p' => if key_eqb true k' k then Some p' else option_map (cons (k', v)) (para_del k p')
  end.

(** Edits are only generated on list values with valid indices; the other
    branches give the exception Python raises (an integer key on a Deb822Dict
    ends in AttributeError inside _strI: OtherError). *)
Definition apply_edit (c : cls) (ci : bool) (p : para) (e : edit) : result para :=
  match e with
  | ESetRec key i r =>
      match para_get key p with
      | None => Err KeyError
      | Some (Multi rs) =>
          match set_nth i r rs with Some rs' => Ok (para_set key (Multi rs') p) | None => Err IndexError end
      | Some (Single _) => Err OtherError
      | Some (Plain _) => Err TypeError
      end
  | ESetSub key i sub v =>
      match para_get key p with
      | None => Err KeyError
      | Some (Multi rs) =>
          match nth_error rs i with
          | Some r =>
              match set_nth i (rec_set ci sub v r) rs with
              | Some rs' => Ok (para_set key (Multi rs') p)
              | None => Err IndexError
              end
          | None => Err IndexError
          end
      | Some (Single _) => Err OtherError
      | Some (Plain s) => if (i <? length s)%nat then Err TypeError else Err IndexError
      end
  | ERotate key r =>
      match para_get key p with
      | None => Err KeyError
      | Some (Multi []) => Err IndexError
      | Some (Multi (_ :: rs)) => Ok (para_set key (Multi (rs ++ [r])) p)
      | Some _ => Err OtherError
      end
  | EAppend key r =>
      match para_get key p with
      | None => Err KeyError
      | Some (Multi rs) => Ok (para_set key (Multi (rs ++ [r])) p)
      | Some _ => Err OtherError
      end
  | EAssign key v => build_step c (Ok p) (key, v)
  | EDel key =>
      match para_del key p with Some p' => Ok p' | None => Err KeyError end
  end.
