(** C13 — the bridge between the theorems of Deb822/RelationProofs.v (about the
    model) and the two predicates the correspondence check evaluates
    (Deb822/RelationCheck.v): when the implementation's observation agrees with
    the model ([agree]) the property's judgement of that observation ([holds])
    is true.

    [holds] of a [CRel] case consults one observation that [agree] does not
    look at: [via_pkg] (the Packages / Sources accessors gave the same
    structure and the same number of warnings as parse_relations).  Nothing in
    the model speaks about the accessors, so [agree] cannot force it; the
    theorem is therefore proved under the computable side condition [judged]
    (the accessor observation is positive, or the structure is outside the
    domain so that [holds] judges nothing), and [judged] is shown to be exactly
    what is missing: an agreeing case that is not [judged] does NOT hold. *)
From Coq Require Import String.
From Verif Require Import Lib.Base Lib.Dec Lib.PyStr Gen.PyChars
  Deb822.Relation Deb822.RelationSpec Deb822.RelationProofs Deb822.RelationCheck.

(** * Reflection of the structure equality of the spec *)
Lemma option_eqb_true {A} (f : A -> A -> bool) :
  (forall a b, f a b = true <-> a = b) -> forall x y, option_eqb f x y = true <-> x = y.
Proof.
  intros Hf [a|] [b|]; simpl; split; intros H; try discriminate; try reflexivity.
  - apply Hf in H. now subst.
  - inversion H; subst. now apply Hf.
Qed.

Lemma pair_eqb_true {A B} (f : A -> A -> bool) (g : B -> B -> bool) :
  (forall a b, f a b = true <-> a = b) -> (forall a b, g a b = true <-> a = b) ->
  forall x y, pair_eqb f g x y = true <-> x = y.
Proof.
  intros Hf Hg [a1 b1] [a2 b2]. unfold pair_eqb. simpl. rewrite andb_true_iff, Hf, Hg.
  split; [intros [-> ->]; reflexivity|intros H; inversion H; auto].
Qed.

Lemma term_eqb_true a b : term_eqb a b = true <-> a = b.
Proof.
  destruct a as [e1 s1], b as [e2 s2]. unfold term_eqb. simpl.
  rewrite andb_true_iff, Bool.eqb_true_iff, str_eqb_eq.
  split; [intros [-> ->]; reflexivity|intros H; inversion H; auto].
Qed.

Lemma rel_eqb_true a b : rel_eqb a b = true <-> a = b.
Proof.
  destruct a as [n1 q1 v1 a1 r1], b as [n2 q2 v2 a2 r2]. unfold rel_eqb. simpl.
  rewrite !andb_true_iff, str_eqb_eq.
  rewrite (option_eqb_true str_eqb str_eqb_eq).
  rewrite (option_eqb_true _ (pair_eqb_true _ _ str_eqb_eq str_eqb_eq)).
  rewrite (option_eqb_true _ (list_eqb_eq _ term_eqb_true)).
  rewrite (option_eqb_true _ (list_eqb_eq _ (list_eqb_eq _ term_eqb_true))).
  split.
  - intros [[[[-> ->] ->] ->] ->]. reflexivity.
  - intros H. inversion H. auto.
Qed.

Lemma rels_eqb_true a b : rels_eqb a b = true <-> a = b.
Proof. unfold rels_eqb. apply list_eqb_eq. apply list_eqb_eq. exact rel_eqb_true. Qed.

(** * The side condition *)
Definition judged (c : case) : bool :=
  match c with
  | CRel rels _ _ _ via_pkg => via_pkg || negb (wf_rels (dec_rels rels))
  | _ => true
  end.

(** what [agree] forces the observations of a [CRel] case to be, on the domain *)
Lemma agree_forces_roundtrip rels s1 parsed s2 via_pkg :
  wf_rels (dec_rels rels) = true ->
  agree (CRel rels s1 parsed s2 via_pkg) = true ->
  roundtrip_ok (dec_rels rels) (dec s1) (dec_pobs parsed) (option_map dec s2) = true.
Proof.
  intros Hwf. cbn [agree]. cbv zeta. rewrite !andb_true_iff. intros [[Hs1 Hp] Hs2].
  apply str_eqb_eq in Hs1. rewrite <- Hs1 in *.
  rewrite (parse_str_inverse _ Hwf) in Hp.
  destruct (dec_pobs parsed) as [[r' w]|e]; [|discriminate Hp].
  cbn [result_eqb] in Hp. unfold parsed_eqb in Hp. cbn [fst snd] in Hp.
  apply andb_true_iff in Hp. destruct Hp as [Hr Hw].
  apply rels_eqb_true in Hr. subst r'. apply N.eqb_eq in Hw. subst w.
  cbn [str_again_agrees] in Hs2.
  destruct s2 as [s|]; [|discriminate Hs2].
  apply str_eqb_eq in Hs2.
  cbn [roundtrip_ok option_map]. rewrite rels_eqb_refl. rewrite <- Hs2. rewrite str_eqb_refl. reflexivity.
Qed.

Theorem agree_implies_holds c : judged c = true -> agree c = true -> holds c = true.
Proof.
  destruct c as [rels s1 parsed s2 via_pkg| | | |]; try reflexivity.
  intros Hj Hag. cbn [holds]. cbv zeta.
  destruct (wf_rels (dec_rels rels)) eqn:Hwf; [|reflexivity].
  cbn [judged] in Hj. rewrite Hwf in Hj. cbn [negb] in Hj. rewrite orb_false_r in Hj. subst via_pkg.
  rewrite (agree_forces_roundtrip _ _ _ _ _ Hwf Hag). reflexivity.
Qed.

(** Without the accessor observation the statement is unconditional for every
    constructor but [CRel], and for [CRel] it is the round trip itself. *)
Theorem agree_implies_roundtrip rels s1 parsed s2 via_pkg :
  agree (CRel rels s1 parsed s2 via_pkg) = true ->
  holds (CRel rels s1 parsed s2 true) = true.
Proof.
  intros Hag. apply agree_implies_holds.
  - reflexivity.
  - exact Hag.
Qed.

(** [judged] is the weakest side condition: an agreeing case outside it fails [holds]. *)
Theorem judged_is_needed c : agree c = true -> judged c = false -> holds c = false.
Proof.
  destruct c as [rels s1 parsed s2 via_pkg| | | |]; try discriminate.
  intros _ Hj. cbn [judged] in Hj. apply orb_false_iff in Hj. destruct Hj as [-> Hwf].
  apply negb_false_iff in Hwf. cbn [holds]. cbv zeta. rewrite Hwf. apply andb_false_r.
Qed.

(** such a case exists (so the unconditional statement is false) *)
Local Open Scope string_scope.
Example unconditional_statement_fails :
  let c := CRel [[mkC "a" None None None None]] "a" (Ok ([[mkC "a" None None None None]], 0%N)) (Some "a") false in
  agree c = true /\ holds c = false.
Proof. vm_compute. split; reflexivity. Qed.
