(** Primitives that the regenerated control flow of deb822._multivalued and of PdiffIndex / Release
    (Gen/TrMvLengths.v, Gen/TrMultivalued.v: regenerated from lib/debian/deb822.py on every run) calls.
    Everything here is hand-written and is DEFINED THROUGH the model's own types and leaves
    (Deb822/Multivalued.v): the object is the model's [para] (an ordered, case-insensitive mapping from
    names to dynamic values [fvalue] = a str / one mapping / a list of mappings), a mapping is the
    model's [record], what [for item in value] yields is the model's [item].

    Dynamic values.  Python decides at run time what [self[key]] is; the translated code asks
    [hasattr(v, 'keys')], iterates over v, calls [v.count] / [v.splitlines]: each of these is a
    primitive on [fvalue] that says what Python does for each of the three shapes (including the
    AttributeError / TypeError of the shapes that do not support the operation).

    Class-level tables ([self._multivalued_fields]) are the constants of Gen/MvTables.v, reached
    through [table_of c] where [c : cls] is the class of the object (a leading parameter of the
    translated functions). *)
From Verif Require Import Lib.Base Lib.PyStr Lib.Dec Lib.Tr Gen.PyChars Gen.MvTables Deb822.Multivalued.

(** ** [self._multivalued_fields]: a dict literal with distinct str keys (the generator of
       Gen/MvTables.v rejects a repeated key), as the association list in source order.
       [k in d], [d[k]] (KeyError), [for k in d] (insertion order), [d.items()]. *)
Definition trp_table := list (str * list str).
Definition trp_table_contains (t : trp_table) (k : str) : bool := tr_is_some (lookup_exact k t).
Definition trp_table_getitem (t : trp_table) (k : str) : result (list str) :=
  match lookup_exact k t with Some o => Ok o | None => Err KeyError end.
Definition trp_table_keys (t : trp_table) : list str := map fst t.
Definition trp_table_items (t : trp_table) : list (str * list str) := t.

(** ** the object: [key in self], [self[key]] (Deb822Dict: names compared ignoring case; KeyError) *)
Definition trp_para_contains (p : para) (k : str) : bool := tr_is_some (para_get k p).
Definition trp_para_getitem (p : para) (k : str) : result fvalue :=
  match para_get k p with Some v => Ok v | None => Err KeyError end.

(** ** dynamic values *)
(** (the translated code has a variable named [item]: the type gets another name) *)
Definition trp_item := item.
(** [hasattr(v, 'keys')]: a mapping has it; a list and a str do not *)
Definition trp_hasattr_keys (v : fvalue) (_ : unit) : bool := has_keys v.
(** the value as ONE element of a list literal [[v]], seen as what [item[x]] will be applied to:
    a mapping is itself; a list or a str subscripted by a str is a TypeError (the model's [StrItem]) *)
Definition trp_item_of_value (v : fvalue) : trp_item :=
  match v with Single r => RecItem r | _ => StrItem end.
(** [for item in v] / [[.. for item in v]]: the mappings of a list; the keys (strings) of a mapping; the
    characters of a str — the model's [items_iter] *)
Definition trp_value_iter (v : fvalue) : list trp_item := items_iter v.
(** [item[x]] ([ci]: the mappings are Deb822Dicts (true) or plain dicts (false)) *)
Definition trp_item_getitem (ci : bool) (it : trp_item) (x : str) : result str := item_get ci x it.
(** [str(x)] of a sub-field value: values are carried as their str() (harness ASSUMPTIONS: str or int) *)
Definition trp_str (s : str) : str := s.
(** [key.lower()] (field names are US-ASCII: harness ASSUMPTIONS) *)
Definition trp_lower (s : str) : str := ascii_lower s.
(** [s.rstrip(chars)] *)
Definition trp_rstrip (s chars : str) : str := rstrip_by (fun c => tr_char_in c chars) s.

(** ** _fixed_field_lengths: {field: {"size": n}} *)
(** the inner dict literal [{"size": length}]: its one value; [d[x]] is a KeyError for any other key *)
Definition trp_sizedict := Z.
Definition trp_sizedict_new (n : Z) : trp_sizedict := n.
Definition trp_sizedict_getitem (d : trp_sizedict) (x : str) : result Z :=
  if str_eqb x mv_size_key then Ok d else Err KeyError.
(** the outer dict, str keys in insertion order (Lib/Tr.v: tr_dict_get / tr_dict_set) *)
Definition trp_lengths := list (str * trp_sizedict).
Definition trp_lengths_empty : trp_lengths := [].
Definition trp_lengths_getitem (l : trp_lengths) (k : str) : result trp_sizedict :=
  match tr_dict_get l k with Some d => Ok d | None => Err KeyError end.
Definition trp_lengths_setitem (l : trp_lengths) (k : str) (d : trp_sizedict) : unit * trp_lengths :=
  (tt, tr_dict_set l k d).
(** [max(list of ints)]: ValueError on an empty list *)
Definition trp_max (l : list Z) : result Z :=
  match l with [] => Err ValueError | x :: r => Ok (fold_left Z.max r x) end.
(** [self.size_field_behavior] (Release): the property returns the private attribute
    [self.__size_field_behavior], carried as the leading parameter [sfb] *)
Definition trp_size_field_behavior (sfb : str) (_ : para) : str := sfb.
(** the name under which a behaviour is stored *)
Definition behav_name (b : behav) : str :=
  match b with Apt => release_fixed_name | Dak => release_computed_name end.

(** ** get_as_string of the base class for a field that is not structured: [str(self[key])]
       (C02's tie is about this function on str values; the repr of a container is not modelled) *)
Definition trp_base_get_as_string (p : para) (key : str) : result str :=
  match para_get key p with
  | Some (Plain s) => Ok s
  | Some _ => Err OtherError
  | None => Err KeyError
  end.

(** ** the reader (_multivalued.__init__) *)
(** [Deb822.__init__(self, *args, **kwargs)]: whatever arguments the constructor got, the base
    constructor leaves the object holding the mapping it parsed — the leading parameter [p0] of the
    translated methods (its parsing is C02's subject).  Calling convention of a primitive on the
    object's state (py2coq Call.stateprim): leading parameters, the state, the arguments. *)
Definition trp_deb822_init (c : cls) (p0 : para) (self : para) (_ : unit) : mres unit para := MOk tt p0.
(** [Deb822Dict.__setitem__(self, key, value)]: the model's [para_set] (an existing name keeps its
    place and first spelling) *)
Definition trp_dict_setitem (c : cls) (p0 : para) (self : para) (_ : unit) (key : str) (value : fvalue)
  : mres unit para := MOk tt (para_set key value self).
(** [Deb822.validate_input(key, value)] (reached through super()): the model's check of a str value;
    a list / mapping has no [endswith]: AttributeError *)
Definition base_validate_input (v : fvalue) : result unit :=
  match v with
  | Plain s =>
      if endswith [LF] s then Err ValueError
      else validate_lines (tl (splitlines py_islinebreak false s))
  | _ => Err OtherError
  end.
Definition trp_base_validate_input (c : cls) (p0 : para) (self : para) (key : str) (value : fvalue)
  : mres unit para :=
  match base_validate_input value with Ok _ => MOk tt self | Err e => MErr e self end.
(** [s.count("\n")]: occurrences in a str; in a list, the elements equal to "\n" (a mapping never
    is); a mapping has no [count]: AttributeError *)
Definition trp_value_count_lf (v : fvalue) (_ : unit) : result Z :=
  match v with
  | Plain s => Ok (Z.of_nat (length (filter (N.eqb LF) s)))
  | Multi _ => Ok 0%Z
  | Single _ => Err OtherError
  end.
(** [contents.splitlines()]: only a str has it *)
Definition trp_value_splitlines (v : fvalue) : result (list str) :=
  match v with Plain s => Ok (splitlines py_islinebreak false s) | _ => Err OtherError end.
(** [filter(None, lines)]: the non-empty ones *)
Definition trp_filter_none (_ : unit) (l : list str) : list str := filter nonempty l.
(** [line.split()], [zip(a, b)] (truncates to the shorter), [Deb822Dict(pairs)], [Deb822Dict()] as a value *)
Definition trp_split (s : str) : list str := split_ws py_isspace s.
Definition trp_zip (a b : list str) : list (str * str) := combine a b.
Definition trp_record_of_pairs (kvs : list (str * str)) : record := rec_of_pairs kvs [].
Definition trp_empty_mapping : fvalue := Single [].

(** [updater_method = self[field].append] / [.update]: a bound method of the object stored under
    [field].  The variable is rendered as WHICH method of WHICH entry it is; calling it changes that
    entry of the object (the list / mapping object is the one the paragraph holds — nothing re-assigns
    [self[field]] between the binding and the calls: the hand-made claim of this rendering).
    [append] on anything but a list and [update] on anything but a mapping cannot happen after the
    assignments of the two branches; they are AttributeErrors here. *)
Inductive trp_updater := BoundAppend (field : str) | BoundUpdate (field : str).
Definition trp_call_updater (u : trp_updater) (c : cls) (p0 : para) (self : para) (r : record)
  : mres unit para :=
  match u with
  | BoundAppend f =>
      match para_get f self with
      | Some (Multi rs) => MOk tt (para_set f (Multi (rs ++ [r])) self)
      | _ => MErr OtherError self
      end
  | BoundUpdate f =>
      match para_get f self with
      | Some (Single r0) => MOk tt (para_set f (Single (rec_update r0 r)) self)
      | _ => MErr OtherError self
      end
  end.
