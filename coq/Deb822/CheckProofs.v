(** C02: on every case of the check (Deb822/Check.v), [agree] implies [holds].

    [holds] compares the observation [obs] with [expected_para] of the GENERATED
    paragraphs [paras]; [agree] compares [obs] with what the model reads from the
    case's [input].  Nothing in the [case] type ties [input] to [paras]: they are
    two independent fields (the harness builds the one from the other, the type
    does not say so).  So the bare implication is false (Example
    [side_condition_needed] in Props/C02.v) and a side condition is needed that
    speaks about the pair (paras, input):

    - [judged c]     : the model, run on [input], returns the expected
                       paragraphs.  It is the weakest side condition
                       ([agree_holds_iff_judged]: under [agree], [holds] and
                       [judged] are the same boolean).
    - [judged_spec c]: phrased against the Spec alone (no model function):
                       the physical lines of [input] are boundary-free text
                       followed by CR/LF only, and with the line ends and the
                       comment lines removed they are [doc_lines lead bs] for
                       leading blank lines [lead] and a [valid_blocks] list [bs]
                       whose paragraphs are the generated ones (the witness is
                       found by the recogniser [recog], and CHECKED).
                       [judged_spec_judged] derives [judged] from it with the
                       property theorems [roundtrip_any_form_any_class] /
                       [commented_doc_structure] / [init_of_block] /
                       [gpgmv_init_cblock] (the content of C02). *)
From Coq Require Import String.
From Verif Require Import Lib.Base Lib.Dec Lib.PyStr Gen.PyChars
  Deb822.Model Deb822.Spec Deb822.ProofsStr Deb822.ProofsConsume Deb822.Proofs Deb822.ProofsMore
  Deb822.ProofsGpgMv Deb822.ProofsGpgMv2 Deb822.Check.

(** * Boolean equalities of the check reflect equality *)

Lemma kv_eqb_eq a b : kv_eqb a b = true <-> a = b.
Proof.
  unfold kv_eqb, pair_eqb. destruct a as [a1 a2], b as [b1 b2]. cbn [fst snd].
  rewrite andb_true_iff, !str_eqb_eq. split; [intros [-> ->]; reflexivity|].
  intros E. injection E as -> ->. now split.
Qed.

Lemma dict_eqb_eq a b : dict_eqb a b = true <-> a = b.
Proof. apply list_eqb_eq. apply kv_eqb_eq. Qed.

Lemma dicts_eqb_eq a b : dicts_eqb a b = true <-> a = b.
Proof. apply list_eqb_eq. apply dict_eqb_eq. Qed.

Lemma result_eqb_eq {A} (eqb : A -> A -> bool) (H : forall a b, eqb a b = true <-> a = b) x y :
  result_eqb eqb x y = true <-> x = y.
Proof.
  destruct x as [a|e], y as [b|f]; cbn [result_eqb]; split; intros E; try discriminate.
  - f_equal. now apply H.
  - injection E as ->. now apply H.
  - f_equal. now apply err_eqb_eq.
  - injection E as ->. now apply err_eqb_eq.
Qed.

Lemma res_dicts_eqb_eq x y : result_eqb dicts_eqb x y = true <-> x = y.
Proof. apply result_eqb_eq. apply dicts_eqb_eq. Qed.

(** * The weakest side condition *)

(** what [holds] compares the observation with *)
Definition expected_result (single : bool) (ds : list dict) : result (list dict) :=
  let exp := map expected_para ds in Ok (if single then firstn 1 exp else exp).

Definition judged (c : case) : bool :=
  match c with
  | Doc cl ws single form (Some ps) dumps input obs =>
      let ds := map dec_dict ps in
      if forallb valid_para ds && negb (existsb is_nil ds) then
        result_eqb dicts_eqb (model_doc cl ws single form input) (expected_result single ds)
      else true
  | _ => true
  end.

(** On a case where the implementation behaved like the model, the property
    holds exactly when the side condition does. *)
Theorem agree_holds_iff_judged c : agree c = true -> holds c = judged c.
Proof.
  destruct c as [cl ws single form [ps|] dumps input obs| | | |]; intros Hag; try reflexivity.
  cbn [agree] in Hag. apply andb_true_iff in Hag. destruct Hag as [_ Hobs].
  apply res_dicts_eqb_eq in Hobs. cbn [holds judged]. cbv zeta. rewrite <- Hobs. reflexivity.
Qed.

Theorem agree_implies_holds c : judged c = true -> agree c = true -> holds c = true.
Proof. intros Hj Ha. now rewrite (agree_holds_iff_judged c Ha). Qed.

(** Outside the judged domain (no generated paragraphs, or one of them not
    valid or empty) there is no side condition. *)
Theorem agree_implies_holds_raw cl ws single form dumps input obs :
  holds (Doc cl ws single form None dumps input obs) = true.
Proof. reflexivity. Qed.

Theorem holds_aux c :
  match c with Doc _ _ _ _ _ _ _ _ => True | _ => holds c = true end.
Proof. destruct c; try exact I; reflexivity. Qed.

(** * The side condition against the Spec *)

(** Cut the document's lines (comments and line ends already removed, leading
    blank lines already taken off) into blocks, one per generated paragraph: an
    armoured block when the line begins with the BEGIN PGP SIGNED MESSAGE
    marker, a plain one otherwise.  The result is only a candidate: nothing is
    assumed about it, [judged_spec] checks it. *)
Definition nonblank (l : str) : bool := negb (forallb bytes_isspace l).
Definition not_dashes (l : str) : bool := negb (startswith s_dashes5 l).

Fixpoint recog (ds : list dict) (ls : list str) : list block :=
  match ds with
  | [] => []
  | d :: ds' =>
    let n := List.length (para_lines d) in
    match ls with
    | [] => []
    | l :: ls1 =>
      if startswith s_begin_signed l then
        let w1 := skipn (List.length s_begin_signed) l in
        let (hdr, r1) := span nonblank ls1 in
        match r1 with
        | [] => []
        | blank :: r2 =>
          match skipn n r2 with
          | [] => []
          | sb :: r4 =>
            let w2 := skipn (List.length s_begin_signature) sb in
            let (sg, r5) := span not_dashes r4 in
            match r5 with
            | [] => []
            | se :: r6 =>
              let w3 := skipn (List.length s_end_signature) se in
              let (seps, r7) := span ws_line r6 in
              mkBlock d (Some (mkArmor w1 w2 w3 hdr blank sg)) seps :: recog ds' r7
            end
          end
        end
      else
        let (seps, r) := span ws_line (skipn n ls) in
        mkBlock d None seps :: recog ds' r
    end
  end.

(** The document shape of a [Doc] case: physical lines, logical lines, the
    candidate witness. *)
Definition phys_lines (form : N) (input : list string) : list str := lines_of (input_of form input).
Definition logical_lines (form : N) (input : list string) : list str := map chomp (phys_lines form input).
Definition witness (ds : list dict) (ls : list str) : list str * list block :=
  let (lead, rest) := span ws_line (filter not_comment ls) in (lead, recog ds rest).

Definition doc_shape (ws single : bool) (ds : list dict) (phys : list str) : bool :=
  let ls := map chomp phys in
  let (lead, bs) := witness ds ls in
  forallb line_ok phys
  && forallb ws_line lead && valid_blocks ws bs
  && strs_eqb (filter not_comment ls) (doc_lines lead bs)
  && dicts_eqb (map b_para bs) ds
  && (negb single || negb (is_nil ds)).

Definition judged_spec (c : case) : bool :=
  match c with
  | Doc cl ws single form (Some ps) dumps input obs =>
      let ds := map dec_dict ps in
      if forallb valid_para ds && negb (existsb is_nil ds) then
        doc_shape ws single ds (phys_lines form input)
      else true
  | _ => true
  end.

(** ** From the shape to the model's result: the property theorems *)

Lemma in_forms_lines ls : In (InLines ls) (forms_of false ls).
Proof. cbn [forms_of In]. right. right. right. now left. Qed.

Lemma line_ok_chomped phys : forallb line_ok phys = true -> forallb no_linebreak (map chomp phys) = true.
Proof. intros H. rewrite forallb_forall in *. intros x Hx. apply in_map_iff in Hx. destruct Hx as (l & <- & Hl). exact (H l Hl). Qed.

(** iter_paragraphs on ANY input whose physical lines are [line_ok] and whose
    logical lines, comments removed, are a valid document *)
Theorem iter_paragraphs_shape c ws lead bs i :
  forallb line_ok (lines_of i) = true ->
  forallb ws_line lead = true -> valid_blocks ws bs = true ->
  filter not_comment (map chomp (lines_of i)) = doc_lines lead bs ->
  iter_paragraphs c ws i = Ok (map (fun b => expected_para (b_para b)) bs).
Proof.
  intros Hok Hlead Hbs Hf. unfold iter_paragraphs.
  rewrite <- (iter_lines_chomp c ws _ Hok).
  change (iter_lines c ws (map chomp (lines_of i)))
    with (iter_paragraphs c ws (InLines (map chomp (lines_of i)))).
  apply (roundtrip_any_form_any_class c ws false lead bs (map chomp (lines_of i)));
    [exact Hlead|exact Hbs|now apply line_ok_chomped|exact Hf|apply in_forms_lines].
Qed.

(** the constructor, likewise (the proof of [deb822_new_doc_comments_any] with
    the form hypothesis replaced by what it is used for) *)
Theorem deb822_new_shape c ws lead b bs i :
  forallb line_ok (lines_of i) = true ->
  forallb ws_line lead = true -> valid_blocks ws (b :: bs) = true ->
  filter not_comment (map chomp (lines_of i)) = doc_lines lead (b :: bs) ->
  deb822_new c ws i = Ok (expected_para (b_para b)).
Proof.
  intros Hok Hlead Hbs Hf.
  pose proof (line_ok_chomped _ Hok) as Hnl.
  destruct (deb822_new_init c ws i) as [c' ->].
  assert (E : fst (init_of c' ws (lines_of i)) = fst (init_of c' ws (map chomp (lines_of i))))
    by now rewrite init_of_chomp.
  rewrite E. destruct c'; cbn [init_of].
  - rewrite deb822_init_comments, Hf.
    cbn [valid_blocks] in Hbs. apply andb_true_iff in Hbs. destruct Hbs as [Hb _].
    unfold doc_lines. cbn [map concat].
    destruct (init_of_block CDeb822 ws (is_nil' bs) lead b (concat (map block_lines bs)) Hlead Hb) as (E2 & _).
    { destruct bs; [reflexivity|discriminate]. }
    cbn [init_of] in E2. now rewrite E2.
  - destruct (commented_doc_structure ws (b :: bs) lead _ Hnl Hf Hbs Hlead)
      as (gap & cbs & Hls & Hgap & Hcbs & Hmap).
    rewrite Hls.
    destruct cbs as [|cb cbs]; [discriminate|]. cbn [map] in Hmap. injection Hmap as Hp _.
    cbn [valid_cblocks] in Hcbs. apply andb_true_iff in Hcbs. destruct Hcbs as [Hcb _].
    unfold cdoc_lines. cbn [map concat].
    rewrite (gpgmv_init_cblock ws (is_nil' cbs) gap cb (concat (map cblock_lines cbs)) Hgap Hcb).
    + cbn [fst]. now rewrite Hp.
    + intros Hl. destruct cbs; [reflexivity|discriminate].
Qed.

Lemma doc_shape_model cl ws single form input ds :
  doc_shape ws single ds (phys_lines form input) = true ->
  model_doc cl ws single form input = expected_result single ds.
Proof.
  unfold doc_shape. destruct (witness ds (map chomp (phys_lines form input))) as [lead bs].
  intros H. rewrite !andb_true_iff in H.
  destruct H as (((((Hok & Hlead) & Hbs) & Hf) & Hmap) & Hsingle).
  apply strs_eqb_eq in Hf. apply dicts_eqb_eq in Hmap. subst ds.
  unfold phys_lines in *. unfold model_doc, expected_result.
  destruct single.
  - destruct bs as [|b bs]; [discriminate Hsingle|].
    rewrite (deb822_new_shape (cls_of cl) ws lead b bs _ Hok Hlead Hbs Hf). reflexivity.
  - rewrite (iter_paragraphs_shape (cls_of cl) ws lead bs _ Hok Hlead Hbs Hf).
    now rewrite map_map.
Qed.

Theorem judged_spec_judged c : judged_spec c = true -> judged c = true.
Proof.
  destruct c as [cl ws single form [ps|] dumps input obs| | | |]; try reflexivity.
  cbn [judged_spec judged]. cbv zeta.
  destruct (forallb valid_para (map dec_dict ps) && negb (existsb is_nil (map dec_dict ps))); [|reflexivity].
  intros H. rewrite (doc_shape_model cl ws single form input _ H). now apply res_dicts_eqb_eq.
Qed.

Theorem agree_implies_holds_spec c : judged_spec c = true -> agree c = true -> holds c = true.
Proof. intros Hj. apply agree_implies_holds. now apply judged_spec_judged. Qed.
