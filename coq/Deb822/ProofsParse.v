(** C02 proofs, part 1: the field loop of _internal_parser on the lines of a
    dumped paragraph, validate_input on the values it assembles, and
    dump = unlines of those lines. *)
From Coq Require Import Lia ZifyBool.
From Verif Require Import Lib.Base Lib.PyStr Gen.PyChars Deb822.Model Deb822.Spec Deb822.ProofsStr.

Local Open Scope N_scope.

(** * Regex leaves on the lines of a valid field *)

Lemma valid_name_inv k :
  valid_name k = true ->
  exists c r, k = c :: r /\ (c =? 35) = false /\ (c =? 45) = false /\ forallb name_char k = true.
Proof.
  destruct k as [|c r]; [discriminate|]. unfold valid_name. intros H.
  apply andb_true_iff in H. destruct H as [H H3]. apply andb_true_iff in H. destruct H as [H1 H2].
  apply negb_true_iff in H1, H2. now exists c, r.
Qed.

Lemma valid_name_key_chars k : valid_name k = true -> forallb key_char k = true.
Proof.
  intros H. destruct (valid_name_inv k H) as (c & r & -> & _ & _ & Hn).
  eapply forallb_impl; [|exact Hn]. apply name_char_key_char.
Qed.

Definition after_colon (first : str) : str := match first with [] => [] | _ => SP :: first end.

Lemma head_line_eq k first : head_line k first = k ++ COLON :: after_colon first.
Proof. reflexivity. Qed.

Lemma dropwhile_after_colon first :
  dropwhile py_isspace (after_colon first) = dropwhile py_isspace first.
Proof. destruct first; reflexivity. Qed.

Lemma match_key_part_head k first :
  valid_name k = true ->
  match_key_part (head_line k first) = Some (k, after_colon first).
Proof.
  intros Hk. unfold match_key_part. rewrite head_line_eq.
  rewrite span_forall_app; [|now apply valid_name_key_chars|reflexivity].
  destruct (valid_name_inv k Hk) as (c & r & -> & _). cbn [dropwhile].
  replace (py_isspace COLON) with false by reflexivity.
  now rewrite N.eqb_refl.
Qed.

Lemma no_linebreak_rstrip p l : no_linebreak l = true -> no_linebreak (rdropwhile p l) = true.
Proof. apply rdropwhile_forallb. Qed.

Lemma no_linebreak_lstrip p l : no_linebreak l = true -> no_linebreak (dropwhile p l) = true.
Proof. apply dropwhile_forallb. Qed.

Lemma no_linebreak_strip p l : no_linebreak l = true -> no_linebreak (strip_by p l) = true.
Proof. intros H. unfold strip_by, lstrip_by, rstrip_by. now apply no_linebreak_rstrip, no_linebreak_lstrip. Qed.

(** first line with visible text: _single matches, data = the trimmed first line *)
Lemma match_single_head k first c r :
  valid_name k = true -> no_linebreak first = true ->
  dropwhile py_isspace first = c :: r ->
  match_single (head_line k first) = Some (k, strip_by py_isspace first).
Proof.
  intros Hk Hf Hd. unfold match_single. rewrite match_key_part_head by exact Hk.
  rewrite dropwhile_after_colon, Hd. unfold re_lazy_tail.
  assert (Hr : no_linebreak r = true).
  { pose proof (no_linebreak_lstrip py_isspace first Hf) as H. rewrite Hd in H.
    rewrite no_linebreak_cons in H. apply andb_true_iff in H. tauto. }
  unfold rstrip_by. rewrite (no_linebreak_mem_lf _ (no_linebreak_rstrip py_isspace r Hr)).
  rewrite (strip_by_cons _ _ _ _ Hd). reflexivity.
Qed.

(** first line empty or blank: _single fails, _multi matches *)
Lemma match_single_head_blank k first :
  valid_name k = true -> dropwhile py_isspace first = [] ->
  match_single (head_line k first) = None /\ match_multi (head_line k first) = Some k.
Proof.
  intros Hk Hd. unfold match_single, match_multi. rewrite match_key_part_head by exact Hk.
  rewrite dropwhile_after_colon, Hd. split; [reflexivity|].
  assert (H : forallb py_isspace (after_colon first) = true).
  { apply dropwhile_nil_all in Hd. destruct first as [|n f]; [reflexivity|]. cbn [after_colon].
    change (py_isspace SP && forallb py_isspace (n :: f) = true). now rewrite Hd. }
  now rewrite H.
Qed.

Lemma valid_cont_inv l :
  valid_cont l = true ->
  exists c r, l = c :: r /\ is_sp_tab c = true
              /\ existsb (fun x => negb (bytes_isspace x)) r = true /\ no_linebreak l = true.
Proof.
  destruct l as [|c r]; [discriminate|]. unfold valid_cont. intros H.
  apply andb_true_iff in H. destruct H as [H H3]. apply andb_true_iff in H. destruct H as [H1 H2].
  exists c, r. repeat split; try assumption.
  cbn [existsb] in H2. rewrite (sp_tab_bytes_space _ H1) in H2. exact H2.
Qed.

Lemma match_key_part_space c r : bytes_isspace c = true -> match_key_part (c :: r) = None.
Proof. intros H. unfold match_key_part. cbn [span]. unfold key_char. rewrite H, orb_true_r. reflexivity. Qed.

Lemma match_cont l :
  valid_cont l = true ->
  match_single l = None /\ match_multi l = None /\ exists d, match_multidata l = Some d.
Proof.
  intros H. destruct (valid_cont_inv l H) as (c & r & -> & Hc & Hex & Hnl).
  unfold match_single, match_multi. rewrite match_key_part_space by now apply sp_tab_bytes_space.
  split; [reflexivity|]. split; [reflexivity|].
  unfold match_multidata. rewrite (sp_tab_pyspace _ Hc).
  rewrite no_linebreak_cons in Hnl. apply andb_true_iff in Hnl. destruct Hnl as [_ Hr].
  destruct r as [|r0 r']; [discriminate|].
  destruct (rstrip_by py_isspace (r0 :: r')) as [|p0 p] eqn:Ep.
  - rewrite no_linebreak_cons in Hr. apply andb_true_iff in Hr. destruct Hr as [Hr0 _].
    apply negb_true_iff in Hr0. rewrite (no_lb_not_lf _ Hr0). eauto.
  - pose proof (no_linebreak_rstrip py_isspace _ Hr) as Hp. unfold rstrip_by in Ep. rewrite Ep in Hp.
    rewrite (no_linebreak_mem_lf _ Hp). eauto.
Qed.

(** * validate_input on a value assembled by the parser *)

Lemma value_of_cons first c conts : value_of first (c :: conts) = first ++ LF :: value_of c conts.
Proof. unfold value_of. cbn [map concat]. cbn [app]. reflexivity. Qed.

Lemma value_of_nil first : value_of first [] = first.
Proof. unfold value_of. cbn. apply app_nil_r. Qed.

Lemma value_of_snoc first conts l :
  value_of first (conts ++ [l]) = value_of first conts ++ LF :: l.
Proof.
  unfold value_of. rewrite map_app, concat_app. cbn [map concat]. rewrite app_nil_r.
  now rewrite app_assoc.
Qed.

Lemma value_of_app first conts conts' :
  value_of first (conts ++ conts') = value_of first conts ++ concat (map (cons LF) conts').
Proof. unfold value_of. rewrite map_app, concat_app. now rewrite app_assoc. Qed.

Lemma endswith1_app_nonnil x a b : b <> [] -> endswith [x] (a ++ b) = endswith [x] b.
Proof.
  intros Hb. unfold endswith. rewrite rev_app_distr.
  destruct (rev b) as [|c t] eqn:E.
  - exfalso. apply Hb. apply (f_equal (@rev N)) in E. now rewrite rev_involutive in E.
  - reflexivity.
Qed.

Lemma endswith_lf_no_linebreak l : no_linebreak l = true -> endswith [LF] l = false.
Proof.
  intros H. unfold endswith. destruct (rev l) as [|c t] eqn:E; [reflexivity|].
  cbn [rev app startswith].
  assert (Hc : In c l) by (apply in_rev; rewrite E; now left).
  unfold no_linebreak in H. rewrite forallb_forall in H. specialize (H c Hc).
  apply negb_true_iff in H. rewrite N.eqb_sym. now rewrite (no_lb_not_lf _ H).
Qed.

Lemma valid_cont_no_linebreak l : valid_cont l = true -> no_linebreak l = true.
Proof. intros H. destruct (valid_cont_inv l H) as (c & r & _ & _ & _ & Hn). exact Hn. Qed.

Lemma valid_cont_nonnil l : valid_cont l = true -> l <> [].
Proof. destruct l; [discriminate|discriminate]. Qed.

Lemma value_of_nonnil_cont c conts : c <> [] -> value_of c conts <> [].
Proof. unfold value_of. destruct c; [congruence|discriminate]. Qed.

Lemma endswith_lf_value_of conts : forall first,
  no_linebreak first = true -> forallb valid_cont conts = true ->
  endswith [LF] (value_of first conts) = false.
Proof.
  induction conts as [|c conts IH]; intros first Hf Hc.
  - rewrite value_of_nil. now apply endswith_lf_no_linebreak.
  - cbn [forallb] in Hc. apply andb_true_iff in Hc. destruct Hc as [Hc Hcs].
    rewrite value_of_cons.
    change (first ++ LF :: value_of c conts) with (first ++ [LF] ++ value_of c conts).
    rewrite app_assoc, endswith1_app_nonnil
      by (apply value_of_nonnil_cont; now apply valid_cont_nonnil).
    apply IH; [now apply valid_cont_no_linebreak|exact Hcs].
Qed.

Lemma splitlines_value_of_conts conts : forall c,
  valid_cont c = true -> forallb valid_cont conts = true ->
  splitlines_aux py_islinebreak false (value_of c conts) [] = c :: conts.
Proof.
  induction conts as [|c2 conts IH]; intros c Hc Hcs.
  - rewrite value_of_nil, splitlines_aux_last by now apply valid_cont_no_linebreak.
    cbn [rev app]. destruct c; [discriminate|reflexivity].
  - cbn [forallb] in Hcs. apply andb_true_iff in Hcs. destruct Hcs as [Hc2 Hcs].
    rewrite value_of_cons, splitlines_aux_line; [|now apply valid_cont_no_linebreak|reflexivity].
    cbn [rev app]. rewrite app_nil_r. now rewrite IH.
Qed.

Lemma splitlines_value_of_tl first conts :
  no_linebreak first = true -> forallb valid_cont conts = true ->
  tl (splitlines py_islinebreak false (value_of first conts)) = conts.
Proof.
  intros Hf Hcs. unfold splitlines. destruct conts as [|c conts].
  - rewrite value_of_nil, splitlines_aux_last by exact Hf. cbn [rev app]. destruct first; reflexivity.
  - cbn [forallb] in Hcs. apply andb_true_iff in Hcs. destruct Hcs as [Hc Hcs].
    rewrite value_of_cons, splitlines_aux_line; [|exact Hf|reflexivity]. cbn [tl].
    now apply splitlines_value_of_conts.
Qed.

Lemma check_cont_lines_ok conts : forallb valid_cont conts = true -> check_cont_lines conts = Ok tt.
Proof.
  induction conts as [|l conts IH]; [reflexivity|]. intros H.
  cbn [forallb] in H. apply andb_true_iff in H. destruct H as [Hl Hc].
  destruct (valid_cont_inv l Hl) as (c & r & -> & Hsp & _). cbn [check_cont_lines].
  rewrite (sp_tab_pyspace _ Hsp). now apply IH.
Qed.

Lemma validate_value_of first conts :
  no_linebreak first = true -> forallb valid_cont conts = true ->
  validate_input (value_of first conts) = Ok tt.
Proof.
  intros Hf Hc. unfold validate_input. rewrite endswith_lf_value_of by assumption.
  rewrite splitlines_value_of_tl by assumption. now apply check_cont_lines_ok.
Qed.

(** * dict_set on a fresh key *)

Definition fresh_key (d : dict) (k : str) : bool :=
  forallb (fun kv => negb (key_eqb (fst kv) k)) d.

Lemma dict_set_fresh d k v : fresh_key d k = true -> dict_set d k v = d ++ [(k, v)].
Proof.
  induction d as [|[k' v'] d IH]; [reflexivity|]. unfold fresh_key. cbn [forallb fst]. intros H.
  apply andb_true_iff in H. destruct H as [H1 H2]. apply negb_true_iff in H1.
  cbn [dict_set]. rewrite H1. cbn [app]. f_equal. now apply IH.
Qed.

Lemma distinct_keys_app_fresh a k r :
  distinct_keys (a ++ k :: r) = true ->
  forallb (fun k' => negb (key_eqb k' k)) a = true.
Proof.
  induction a as [|x a IH]; [reflexivity|]. cbn [app distinct_keys]. intros H.
  apply andb_true_iff in H. destruct H as [H1 H2]. cbn [forallb]. rewrite (IH H2), andb_true_r.
  apply negb_true_iff in H1. apply negb_true_iff.
  rewrite map_app, existsb_app in H1. apply orb_false_iff in H1. destruct H1 as [_ H1].
  cbn [map existsb] in H1. apply orb_false_iff in H1. destruct H1 as [H1 _]. exact H1.
Qed.

(** * The field loop *)

Lemma fields_loop_conts cs : forall d ck content rest,
  forallb valid_cont cs = true ->
  fields_loop d ck content (cs ++ rest)
  = fields_loop d ck (content ++ concat (map (cons LF) cs)) rest.
Proof.
  induction cs as [|l cs IH]; intros d ck content rest H.
  - cbn. now rewrite app_nil_r.
  - cbn [forallb] in H. apply andb_true_iff in H. destruct H as [Hl Hcs].
    destruct (match_cont l Hl) as (H1 & H2 & dd & H3).
    cbn [app fields_loop]. rewrite H1, H2, H3. rewrite IH by exact Hcs.
    cbn [map concat]. now rewrite <- app_assoc.
Qed.

Lemma fields_loop_field k first conts d ck content rest :
  valid_sfield (k, first, conts) = true ->
  fields_loop d ck content (sfield_lines (k, first, conts) ++ rest)
  = do d' <- flush d ck content;
    fields_loop d' (Some k) (value_of (strip_by py_isspace first) conts) rest.
Proof.
  unfold valid_sfield. intros H. apply andb_true_iff in H. destruct H as [H Hc].
  apply andb_true_iff in H. destruct H as [Hk Hf].
  cbn [sfield_lines app fields_loop].
  destruct (dropwhile py_isspace first) as [|c r] eqn:Hd.
  - destruct (match_single_head_blank k first Hk Hd) as [H1 H2]. rewrite H1, H2.
    destruct (flush d ck content) as [d'|e]; [|reflexivity]. cbn [bind].
    rewrite fields_loop_conts by exact Hc. rewrite (strip_by_blank _ _ Hd). reflexivity.
  - rewrite (match_single_head k first c r Hk Hf Hd).
    destruct (flush d ck content) as [d'|e]; [|reflexivity]. cbn [bind].
    rewrite fields_loop_conts by exact Hc. reflexivity.
Qed.

Lemma flush_fresh d k v first conts :
  valid_name k = true -> fresh_key d k = true ->
  v = value_of first conts -> no_linebreak first = true -> forallb valid_cont conts = true ->
  flush d (Some k) v = Ok (d ++ [(k, v)]).
Proof.
  intros Hk Hfr -> Hf Hc. destruct (valid_name_inv k Hk) as (c & r & -> & _).
  unfold flush, setitem. rewrite validate_value_of by assumption. cbn [bind].
  now rewrite dict_set_fresh.
Qed.

Lemma fresh_key_map d k :
  fresh_key d k = forallb (fun k' => negb (key_eqb k' k)) (map fst d).
Proof. unfold fresh_key. induction d as [|kv d IH]; [reflexivity|]. cbn. now rewrite IH. Qed.

(** the loop with a pending field (k0, first0', conts0) whose value has been
    assembled, over the lines of the remaining fields *)
Lemma fields_loop_pending p : forall d k0 first0 conts0,
  forallb valid_sfield p = true ->
  valid_name k0 = true -> no_linebreak first0 = true -> forallb valid_cont conts0 = true ->
  distinct_keys (map fst d ++ k0 :: map sname p) = true ->
  fields_loop d (Some k0) (value_of first0 conts0) (spara_lines p)
  = Ok (d ++ (k0, value_of first0 conts0) :: expected_of p).
Proof.
  induction p as [|[[k first] conts] p IH]; intros d k0 first0 conts0 Hp Hk0 Hf0 Hc0 Hd.
  - cbn [spara_lines map concat fields_loop expected_of].
    eapply flush_fresh; try eassumption; [|reflexivity].
    rewrite fresh_key_map. eapply distinct_keys_app_fresh. exact Hd.
  - cbn [forallb] in Hp. apply andb_true_iff in Hp. destruct Hp as [Hfld Hp].
    unfold spara_lines. cbn [map concat]. fold (spara_lines p).
    rewrite fields_loop_field by exact Hfld.
    erewrite flush_fresh; try eassumption; try reflexivity.
    2:{ rewrite fresh_key_map. eapply distinct_keys_app_fresh. exact Hd. }
    cbn [bind].
    unfold valid_sfield in Hfld. apply andb_true_iff in Hfld. destruct Hfld as [Hfld Hcs].
    apply andb_true_iff in Hfld. destruct Hfld as [Hk Hf].
    rewrite IH; try assumption.
    + cbn [expected_of map]. now rewrite <- app_assoc.
    + now apply no_linebreak_strip.
    + rewrite map_app. cbn [map fst sname]. rewrite <- app_assoc. exact Hd.
Qed.

(** _internal_parser's loop on the lines of a valid paragraph *)
Theorem fields_loop_spara p :
  valid_spara p = true -> fields_loop [] None [] (spara_lines p) = Ok (expected_of p).
Proof.
  unfold valid_spara. intros H. apply andb_true_iff in H. destruct H as [Hp Hd].
  destruct p as [|[[k first] conts] p]; [reflexivity|].
  cbn [forallb] in Hp. apply andb_true_iff in Hp. destruct Hp as [Hfld Hp].
  unfold spara_lines. cbn [map concat]. fold (spara_lines p).
  rewrite fields_loop_field by exact Hfld. cbn [flush bind].
  unfold valid_sfield in Hfld. apply andb_true_iff in Hfld. destruct Hfld as [Hfld Hcs].
  apply andb_true_iff in Hfld. destruct Hfld as [Hk Hf].
  rewrite fields_loop_pending; try assumption; [reflexivity|now apply no_linebreak_strip].
Qed.

(** * dump is the text of those lines *)

Lemma value_of_lf_unlines first conts :
  value_of first conts ++ [LF] = first ++ LF :: unlines conts.
Proof.
  revert first. induction conts as [|c conts IH]; intros first.
  - now rewrite value_of_nil.
  - rewrite value_of_cons, unlines_cons, <- app_assoc. cbn [app]. now rewrite IH.
Qed.

Lemma dump_entry_lines k first conts :
  no_linebreak first = true ->
  dump_entry (k, value_of first conts) = unlines (sfield_lines (k, first, conts)).
Proof.
  intros Hf. cbn [sfield_lines]. rewrite unlines_cons, head_line_eq. unfold dump_entry.
  destruct first as [|c f].
  - cbn [after_colon]. destruct conts as [|c0 conts].
    + rewrite value_of_nil. cbn [unlines map concat]. now rewrite <- !app_assoc.
    + rewrite value_of_cons. cbn [app]. rewrite N.eqb_refl.
      rewrite <- !app_assoc. cbn [app]. f_equal. f_equal.
      now rewrite value_of_lf_unlines, unlines_cons.
  - rewrite no_linebreak_cons in Hf. apply andb_true_iff in Hf. destruct Hf as [Hc _].
    apply negb_true_iff in Hc.
    assert (E : value_of (c :: f) conts = c :: value_of f conts) by reflexivity.
    rewrite E. rewrite (no_lb_not_lf _ Hc). rewrite <- E. cbn [after_colon].
    rewrite <- !app_assoc. f_equal. cbn [app]. f_equal. f_equal.
    now rewrite value_of_lf_unlines.
Qed.

Lemma valid_sfield_first k first conts :
  valid_sfield (k, first, conts) = true -> no_linebreak first = true.
Proof.
  unfold valid_sfield. intros H. apply andb_true_iff in H. destruct H as [H _].
  apply andb_true_iff in H. tauto.
Qed.

Lemma dump_para_of p :
  forallb valid_sfield p = true -> dump (para_of p) = unlines (spara_lines p).
Proof.
  induction p as [|[[k first] conts] p IH]; [reflexivity|]. intros H.
  cbn [forallb] in H. apply andb_true_iff in H. destruct H as [Hf Hp].
  unfold dump, spara_lines. cbn [para_of map concat]. rewrite unlines_app.
  rewrite dump_entry_lines by (eapply valid_sfield_first; eassumption).
  f_equal. now apply IH.
Qed.

(** * From (name, value) pairs to structured fields and back *)

Lemma sfield_of_value k v :
  match sfield_of (k, v) with (k', first, conts) => k' = k /\ value_of first conts = v end.
Proof.
  unfold sfield_of. cbn [fst snd]. pose proof (value_of_split v) as H.
  destruct (split_on LF v) as [|first conts]; [contradiction|]. now split.
Qed.

Lemma para_of_sfields d : para_of (map sfield_of d) = d.
Proof.
  induction d as [|[k v] d IH]; [reflexivity|]. cbn [map para_of].
  pose proof (sfield_of_value k v) as H. destruct (sfield_of (k, v)) as [[k' first] conts].
  destruct H as [-> ->]. f_equal. exact IH.
Qed.

Lemma sname_sfield_of kv : sname (sfield_of kv) = fst kv.
Proof. unfold sfield_of, sname. destruct (split_on LF (snd kv)); reflexivity. Qed.

Lemma valid_sfield_of k v :
  valid_name k && valid_value v = valid_sfield (sfield_of (k, v)).
Proof.
  unfold valid_value, sfield_of. cbn [fst snd]. pose proof (split_on_nonempty LF v) as Hn.
  destruct (split_on LF v) as [|first conts]; [congruence|]. cbn [valid_sfield].
  now rewrite andb_assoc.
Qed.

Lemma valid_para_sfields d : valid_para d = valid_spara (map sfield_of d).
Proof.
  unfold valid_para, valid_spara. f_equal.
  - induction d as [|[k v] d IH]; [reflexivity|]. cbn [forallb map fst snd].
    now rewrite valid_sfield_of, IH.
  - rewrite map_map. f_equal. apply map_ext. intros kv. now rewrite sname_sfield_of.
Qed.

Lemma expected_of_sfields d :
  forallb valid_sfield (map sfield_of d) = true ->
  expected_of (map sfield_of d) = expected_para d.
Proof.
  induction d as [|[k v] d IH]; [reflexivity|]. cbn [map forallb]. intros H.
  apply andb_true_iff in H. destruct H as [Hf Hd].
  cbn [expected_of expected_para map fst snd].
  pose proof (sfield_of_value k v) as Hv. destruct (sfield_of (k, v)) as [[k' first] conts].
  destruct Hv as [-> <-]. rewrite trim_value_value_of by (eapply valid_sfield_first; eassumption).
  f_equal. now apply IH.
Qed.
