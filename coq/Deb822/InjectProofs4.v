(** C08 proofs, part 4: the check itself.  Whatever the case, if the
    observations are what the model computes ([agree]), the property as the
    check judges it ([holds]) is true: the model satisfies [holds] on every
    sequence of assignments, so a failing [holds] always comes with a failing
    [agree]. *)
From Coq Require Import String Lia ZifyBool.
From Verif Require Import Lib.Base Lib.Dec Lib.PyStr Gen.PyChars Deb822.Model Deb822.Spec
  Deb822.InjectSpec Deb822.ProofsStr Deb822.InjectStr Deb822.InjectBrk Deb822.InjectProofs
  Deb822.InjectProofs2 Deb822.InjectProofs3 Deb822.InjectCheck.

(** * Boolean equalities *)

Lemma kv_eqb_eq a b : kv_eqb a b = true <-> a = b.
Proof.
  unfold kv_eqb, pair_eqb. destruct a as [a1 a2], b as [b1 b2]. cbn [fst snd]. split.
  - intros H. apply andb_true_iff in H. destruct H as [H1 H2].
    apply str_eqb_eq in H1, H2. now subst.
  - intros [= -> ->]. now rewrite !str_eqb_refl.
Qed.

Lemma dict_eqb_eq a b : dict_eqb a b = true <-> a = b.
Proof. apply list_eqb_eq. apply kv_eqb_eq. Qed.

Lemma dicts_eqb_eq a b : dicts_eqb a b = true <-> a = b.
Proof. apply list_eqb_eq. apply dict_eqb_eq. Qed.

Lemma oerr_eqb_eq a b : oerr_eqb a b = true <-> a = b.
Proof.
  unfold oerr_eqb, option_eqb. destruct a as [a|], b as [b|]; split; intros H;
    try discriminate; try reflexivity.
  - apply err_eqb_eq in H. now subst.
  - injection H as ->. now apply err_eqb_eq.
Qed.

Lemma result_dicts_eqb_ok x r : result_eqb dicts_eqb (Ok x) r = true -> r = Ok x.
Proof. destruct r as [y|e]; [|discriminate]. cbn. intros H. apply dicts_eqb_eq in H. now subst. Qed.

(** * The model's steps *)

Lemma setitem_err d k v e : setitem d k v = Err e -> e = ValueError.
Proof.
  unfold setitem, validate_input. destruct (endswith [LF] v); [now intros [= <-]|].
  destruct (check_cont_lines (tl (splitlines py_islinebreak false v))) as [[]|e'] eqn:E; [discriminate|].
  cbn [bind]. intros [= <-]. clear -E.
  revert E. generalize (tl (splitlines py_islinebreak false v)). intros ls.
  induction ls as [|x ls IH]; [discriminate|]. cbn [check_cont_lines].
  destruct x as [|c1 x]; [now intros [= <-]|]. destruct (py_isspace c1); [exact IH|now intros [= <-]].
Qed.

Lemma model_step_cases d kv :
  (exists d', setitem d (fst kv) (snd kv) = Ok d' /\ model_step d kv = (None, d'))
  \/ (setitem d (fst kv) (snd kv) = Err ValueError /\ model_step d kv = (Some ValueError, d)).
Proof.
  unfold model_step. destruct (setitem d (fst kv) (snd kv)) as [d'|e] eqn:E.
  - left. now exists d'.
  - right. pose proof (setitem_err _ _ _ _ E) as ->. now split.
Qed.

Lemma model_steps_cons d kv ops :
  model_steps d (kv :: ops)
  = (model_step d kv :: fst (model_steps (snd (model_step d kv)) ops),
     snd (model_steps (snd (model_step d kv)) ops)).
Proof. cbn [model_steps]. destruct (model_steps (snd (model_step d kv)) ops). reflexivity. Qed.

(** every value in the mapping has been accepted *)
Lemma all_accepted_dict_set d k v :
  all_accepted d = true -> validate_input v = Ok tt -> all_accepted (dict_set d k v) = true.
Proof.
  intros Ha Hv. unfold all_accepted in *. induction d as [|[k' v'] d IH]; cbn [dict_set forallb snd].
  - now rewrite Hv.
  - cbn [forallb snd] in Ha. apply andb_true_iff in Ha. destruct Ha as [Hx Ha].
    destruct (key_eqb k' k); cbn [forallb snd].
    + now rewrite Hv, Ha.
    + now rewrite Hx, IH.
Qed.

Lemma all_accepted_step d kv :
  all_accepted d = true -> all_accepted (snd (model_step d kv)) = true.
Proof.
  intros Ha. destruct (model_step_cases d kv) as [(d' & Es & ->)|[_ ->]]; [|exact Ha].
  cbn [snd]. unfold setitem in Es. destruct (validate_input (snd kv)) as [[]|] eqn:Ev; [|discriminate].
  cbn [bind] in Es. injection Es as <-. now apply all_accepted_dict_set.
Qed.

Lemma all_accepted_steps ops : forall d,
  all_accepted d = true -> all_accepted (snd (model_steps d ops)) = true.
Proof.
  induction ops as [|kv ops IH]; intros d Ha; [exact Ha|].
  rewrite model_steps_cons. cbn [snd]. apply IH. now apply all_accepted_step.
Qed.

(** * steps_ok *)

Definition known (prev : option dict) (d : dict) : Prop :=
  match prev with Some p => p = d | None => True end.

Lemma steps_ok_model ops : forall d prev errs states,
  known prev d ->
  list_eqb oerr_eqb (map fst (fst (model_steps d ops))) errs = true ->
  states_agree (is_some prev) (fst (model_steps d ops)) states = true ->
  steps_ok prev ops errs states = true.
Proof.
  induction ops as [|kv ops IH]; intros d prev errs states Hk He Hs.
  - cbn in He, Hs. destruct errs; [|discriminate]. destruct states; [reflexivity|discriminate].
  - rewrite model_steps_cons in He, Hs. cbn [fst map] in He, Hs.
    destruct errs as [|e errs]; [discriminate|]. cbn [list_eqb] in He.
    apply andb_true_iff in He. destruct He as [He1 He].
    destruct (model_step d kv) as [e0 d1] eqn:Em. cbn [fst snd] in *.
    apply oerr_eqb_eq in He1. subst e.
    destruct states as [|s states]; [discriminate|]. cbn [states_agree] in Hs.
    apply andb_true_iff in Hs. destruct Hs as [Hs Hs4]. apply andb_true_iff in Hs. destruct Hs as [Hs Hs3].
    apply andb_true_iff in Hs. destruct Hs as [Hs1 Hs2].
    cbn [steps_ok]. rewrite (IH d1 s errs states); [| |exact He|exact Hs4].
    2:{ destruct s as [p|]; [|exact I]. cbn. apply dict_eqb_eq in Hs1. now subst. }
    rewrite andb_true_r.
    destruct (model_step_cases d kv) as [(d' & Es & Em')|[Es Em']]; rewrite Em in Em'; injection Em' as -> ->.
    + cbn [andb]. destruct (c08_dom (snd kv) && spec_rejects (snd kv)) eqn:Er; [|reflexivity].
      apply andb_true_iff in Er. destruct Er as [Er1 Er2].
      destruct (rejected_valueerror d (fst kv) (snd kv) Er1 Er2) as [_ Hr]. congruence.
    + apply andb_true_iff in Hs2. destruct Hs2 as [Hp Hss].
      destruct prev as [p|]; [|discriminate]. destruct s as [a|]; [|discriminate].
      cbn in Hk. subst p. apply dict_eqb_eq in Hs1. subst a.
      cbn [err_eqb andb is_some]. assert (Hdd : dict_eqb d d = true) by now apply dict_eqb_eq.
      rewrite Hdd. destruct (c08_dom (snd kv) && spec_rejects (snd kv)); reflexivity.
Qed.

(** * The final state *)

Fixpoint last_state (d0 : option dict) (states : list (option dict)) : option dict :=
  match states with [] => d0 | s :: r => last_state s r end.

Lemma last_state_snoc l x d0 : last_state d0 (l ++ [x]) = x.
Proof. revert d0. induction l as [|y l IH]; intros d0; [reflexivity|]. cbn [app last_state]. apply IH. Qed.

Lemma final_state_last states : final_state states = last_state (Some []) states.
Proof.
  unfold final_state. destruct states as [|s0 l] using rev_ind; [reflexivity|].
  rewrite rev_app_distr, last_state_snoc. reflexivity.
Qed.

Lemma last_state_model ops : forall d b states d0,
  states_agree b (fst (model_steps d ops)) states = true ->
  known d0 d ->  (ops = [] -> d0 = Some d) ->
  last_state d0 states = Some (snd (model_steps d ops)).
Proof.
  induction ops as [|kv ops IH]; intros d b states d0 Hs Hk H0.
  - cbn in Hs. destruct states; [|discriminate]. cbn. now apply H0.
  - rewrite model_steps_cons in *. cbn [fst snd] in *.
    destruct (model_step d kv) as [e0 d1] eqn:Em. cbn [fst snd] in *.
    destruct states as [|s states]; [discriminate|]. cbn [states_agree] in Hs.
    apply andb_true_iff in Hs. destruct Hs as [Hs Hs4]. apply andb_true_iff in Hs. destruct Hs as [Hs Hs3].
    apply andb_true_iff in Hs. destruct Hs as [Hs1 _].
    cbn [last_state]. apply (IH d1 (is_some s)); [exact Hs4| |].
    + destruct s as [p|]; [|exact I]. cbn. apply dict_eqb_eq in Hs1. now subst.
    + intros ->. cbn [model_steps fst] in Hs3. destruct s as [p|]; [|discriminate].
      apply dict_eqb_eq in Hs1. now subst.
Qed.

(** * agree implies holds *)

Lemma one_para_ok d x : names x = names d -> one_para_with_names (names d) (Ok [x]) = true.
Proof. intros E. cbn [one_para_with_names]. rewrite E. now apply strs_eqb_eq. Qed.

Theorem agree_holds c : agree c = true -> holds c = true.
Proof.
  unfold agree, holds.
  destruct (model_steps [] (dec_dict (c_ops c))) as [steps df] eqn:Em.
  intros H.
  apply andb_true_iff in H. destruct H as [H H7]. apply andb_true_iff in H. destruct H as [H H6].
  apply andb_true_iff in H. destruct H as [H H5]. apply andb_true_iff in H. destruct H as [H H4].
  apply andb_true_iff in H. destruct H as [H _]. apply andb_true_iff in H. destruct H as [H1 H2].
  assert (Es : steps = fst (model_steps [] (dec_dict (c_ops c)))) by now rewrite Em.
  assert (Ed : df = snd (model_steps [] (dec_dict (c_ops c)))) by now rewrite Em.
  rewrite Es in H1, H2.
  rewrite (steps_ok_model _ [] (Some []) _ _ eq_refl H1 H2). cbn [andb].
  unfold reread_ok. rewrite final_state_last.
  rewrite (last_state_model _ [] true _ (Some []) H2 eq_refl (fun _ => eq_refl)), <- Ed.
  destruct (para_dom df && negb (is_nil df)) eqn:Edom; [|reflexivity].
  apply andb_true_iff in Edom. destruct Edom as [Hdom Hnn].
  assert (Hne : df <> []) by (destruct df; [discriminate|discriminate]).
  assert (Ha : all_accepted df = true) by (rewrite Ed; now apply all_accepted_steps).
  rewrite (reread_instr false df Hdom Ha Hne) in H4 by discriminate.
  rewrite (reread_infile false df Hdom Ha Hne) in H5 by discriminate.
  apply result_dicts_eqb_ok in H4, H5. rewrite H4, H5.
  rewrite !one_para_ok by (apply names_reread || apply names_reread_file). cbn [andb].
  destruct (para_no_blank_cont df) eqn:Eb; [|reflexivity].
  rewrite (reread_instr true df Hdom Ha Hne (fun _ => Eb)) in H6.
  rewrite (reread_infile true df Hdom Ha Hne (fun _ => Eb)) in H7.
  apply result_dicts_eqb_ok in H6, H7. rewrite H6, H7.
  now rewrite !one_para_ok by (apply names_reread || apply names_reread_file).
Qed.

(** * The statements of Props/C08.v that need more than one lemma *)

Theorem setitem_accepted_safe d k v d' :
  para_dom d = true -> all_accepted d = true ->
  valid_field_name k = true -> c08_dom v = true ->
  setitem d k v = Ok d' ->
  d' = spec_set d k v
  /\ one_para_with_names (names d') (iter_paragraphs CDeb822 false (InStr (dump d'))) = true
  /\ one_para_with_names (names d') (iter_paragraphs CDeb822 false (InFile (dump d'))) = true
  /\ (para_no_blank_cont d' = true ->
      one_para_with_names (names d') (iter_paragraphs CDeb822 true (InStr (dump d'))) = true
      /\ one_para_with_names (names d') (iter_paragraphs CDeb822 true (InFile (dump d'))) = true).
Proof.
  intros Hd Ha Hk Hv Hs.
  destruct (setitem_keeps_dom d k v d' Hd Ha Hk Hv Hs) as (Hd' & Ha' & Hne).
  split.
  { unfold setitem in Hs. destruct (validate_input v); [|discriminate]. now injection Hs as <-. }
  split; [|split].
  - rewrite (reread_instr false d' Hd' Ha' Hne) by discriminate. apply one_para_ok, names_reread.
  - rewrite (reread_infile false d' Hd' Ha' Hne) by discriminate. apply one_para_ok, names_reread_file.
  - intros Hb. split.
    + rewrite (reread_instr true d' Hd' Ha' Hne (fun _ => Hb)). apply one_para_ok, names_reread.
    + rewrite (reread_infile true d' Hd' Ha' Hne (fun _ => Hb)). apply one_para_ok, names_reread_file.
Qed.

Theorem rejected_unchanged d k v :
  c08_dom v = true -> spec_rejects v = true ->
  validate_input v = Err ValueError
  /\ setitem d k v = Err ValueError
  /\ model_step d (k, v) = (Some ValueError, d).
Proof.
  intros Hd Hr. destruct (rejected_valueerror d k v Hd Hr) as [H1 H2].
  repeat split; try assumption. unfold model_step. cbn [fst snd]. now rewrite H2.
Qed.

Theorem accepted_safe_str ws d :
  para_dom d = true -> all_accepted d = true -> d <> [] ->
  (ws = true -> para_no_blank_cont d = true) ->
  iter_paragraphs CDeb822 ws (InStr (dump d)) = Ok [reread_para d]
  /\ keys (reread_para d) = keys d.
Proof. intros Hd Ha Hne Hb. split; [now apply reread_instr|exact (names_reread d)]. Qed.

Theorem accepted_safe_file ws d :
  para_dom d = true -> all_accepted d = true -> d <> [] ->
  (ws = true -> para_no_blank_cont d = true) ->
  iter_paragraphs CDeb822 ws (InFile (dump d)) = Ok [reread_para_file d]
  /\ keys (reread_para_file d) = keys d.
Proof. intros Hd Ha Hne Hb. split; [now apply reread_infile|exact (names_reread_file d)]. Qed.

(** * The bytes form: over the alphabet bytes.splitlines and str.splitlines agree *)

Lemma splitlines_aux_ext islb1 islb2 keep s :
  forallb (fun c => Bool.eqb (islb1 c) (islb2 c)) s = true ->
  forall cur, splitlines_aux islb1 keep s cur = splitlines_aux islb2 keep s cur.
Proof.
  induction s as [| x | x y s IH1 IH2] using list_ind2; intros H cur.
  - reflexivity.
  - cbn [forallb] in H. rewrite andb_true_r in H. apply Bool.eqb_prop in H.
    cbn [splitlines_aux]. now rewrite H.
  - cbn [forallb] in H. apply andb_true_iff in H. destruct H as [Hx H].
    apply Bool.eqb_prop in Hx. rewrite !splitlines_aux_cons2, Hx.
    assert (H1 : forallb (fun c => Bool.eqb (islb1 c) (islb2 c)) s = true)
      by (cbn [forallb] in H; apply andb_true_iff in H; tauto).
    destruct (islb2 x); [|now apply IH2].
    destruct ((x =? 13)%N && (y =? 10)%N); f_equal; [now apply IH1|now apply IH2].
Qed.

Lemma c08_char_lb_bytes c : c08_char c = true -> Bool.eqb (py_islinebreak c) (bytes_islinebreak c) = true.
Proof.
  intros H. destruct (py_islinebreak c) eqn:E.
  - destruct (c08_lb c H E) as [->| ->]; reflexivity.
  - destruct (bytes_islinebreak c) eqn:E2; [|reflexivity]. apply bytes_lb_py_lb in E2. congruence.
Qed.

Lemma field_char_c08 c : field_char c = true -> c08_char c = true.
Proof.
  unfold field_char, c08_char. intros H. apply andb_true_iff in H. destruct H as [H H3].
  apply andb_true_iff in H. destruct H as [_ H2]. apply negb_true_iff in H2, H3.
  rewrite H2, H3. cbn [orb negb]. now rewrite !orb_true_r.
Qed.

Lemma dump_c08_dom' d :
  forallb valid_field_name (names d) = true -> forallb (fun kv => c08_dom (snd kv)) d = true ->
  c08_dom (dump d) = true.
Proof.
  induction d as [|[k v] d IH]; intros Hks Hvs; [reflexivity|].
  cbn [names map forallb fst snd] in Hks, Hvs.
  apply andb_true_iff in Hks. destruct Hks as [Hk Hks]. apply andb_true_iff in Hvs. destruct Hvs as [Hv Hvs].
  unfold dump. cbn [map concat]. fold (dump d). unfold c08_dom in *. rewrite forallb_app.
  rewrite (IH Hks Hvs), andb_true_r.
  rewrite dump_entry_eq, !forallb_app, Hv. cbn [forallb].
  assert (Hkd : forallb c08_char k = true).
  { destruct k as [|c k]; [discriminate|]. unfold valid_field_name in Hk.
    apply andb_true_iff in Hk. destruct Hk as [_ Hk]. eapply forallb_impl; [|exact Hk]. apply field_char_c08. }
  rewrite Hkd. cbn [andb]. rewrite andb_true_r.
  destruct v as [|c v]; [reflexivity|]. cbn [sep_of]. destruct (c =? LF)%N; reflexivity.
Qed.

Lemma dump_c08_dom d : para_dom d = true -> c08_dom (dump d) = true.
Proof. intros H. destruct (para_dom_inv _ H) as (H1 & _ & H3). now apply dump_c08_dom'. Qed.

Theorem bytes_form_same ws d :
  para_dom d = true ->
  iter_paragraphs CDeb822 ws (InBytes (dump d)) = iter_paragraphs CDeb822 ws (InStr (dump d)).
Proof.
  intros Hd. unfold iter_paragraphs. cbn [lines_of]. unfold splitlines.
  rewrite (splitlines_aux_ext py_islinebreak bytes_islinebreak); [reflexivity|].
  eapply forallb_impl; [|exact (dump_c08_dom d Hd)]. apply c08_char_lb_bytes.
Qed.
