(** Case format evaluated by the correspondence check of C13.
    [agree]: the model (Deb822/Relation.v) reproduces what the implementation did.
    [holds]: the property itself, judged on what the implementation did, against
             Deb822/RelationSpec.v (domain [wf_rels], judgement [roundtrip_ok]) —
             never against the model. *)
From Coq Require Import String.
From Verif Require Import Lib.Base Lib.Dec Lib.PyStr Gen.PyChars
  Deb822.Relation Deb822.RelationSpec.

(** a relation dictionary as the harness writes it *)
Record crel := mkC {
  c_name : string;
  c_aq : option string;
  c_ver : option (string * string);
  c_arch : option (list (bool * string));
  c_restr : option (list (list (bool * string)));
}.

Definition pobs := result (list (list crel) * N).     (* parsed structure, number of warnings | exception kind *)

Inductive case :=
  (* PkgRelation.str(rels) = s1; parse_relations(s1) = parsed; PkgRelation.str(parsed) = s2;
     via_pkg: Packages({'Depends': s1}).relations['depends'] and Sources({'Build-Depends': s1})
     .relations['build-depends'] gave the same structure and the same number of warnings *)
| CRel (rels : list (list crel)) (s1 : string) (parsed : pobs) (s2 : option string) (via_pkg : bool)
  (* a free-form string: parse_relations(raw) = parsed; PkgRelation.str(parsed) = s2 *)
| CParse (raw : string) (parsed : pobs) (s2 : option string)
  (* PkgRelation._PkgRelation__dep_RE.match(raw): name archqual relop version archs restrictions *)
| CLeaf (raw : string)
        (groups : option (string * option string * option string * option string
                          * option string * option string))
  (* the separator patterns' own split(): 0 __comma_sep_RE 1 __pipe_sep_RE 2 __blank_sep_RE 3 __restriction_sep_RE *)
| CSplit (which : N) (raw : string) (pieces : list string)
  (* __restriction_RE.match(raw): enabled, profile *)
| CTerm (raw : string) (groups : option (option string * string)).

Definition dec_term (t : bool * string) : term := (fst t, dec (snd t)).
Definition dec_rel (c : crel) : rel :=
  mkRel (dec (c_name c)) (option_map dec (c_aq c))
        (option_map (fun ov => (dec (fst ov), dec (snd ov))) (c_ver c))
        (option_map (map dec_term) (c_arch c))
        (option_map (map (map dec_term)) (c_restr c)).
Definition dec_rels (r : list (list crel)) : list (list rel) := map (map dec_rel) r.

Definition dec_pobs (o : pobs) : result (list (list rel) * N) :=
  match o with Ok (r, n) => Ok (dec_rels r, n) | Err e => Err e end.

Definition parsed_eqb (a b : list (list rel) * N) : bool :=
  rels_eqb (fst a) (fst b) && (snd a =? snd b)%N.

(** the second formatting, by the model, of what the implementation parsed *)
Definition str_again_agrees (parsed : result (list (list rel) * N)) (s2 : option string) : bool :=
  match parsed, s2 with
  | Ok (r, _), Some s => str_eqb (rel_str r) (dec s)
  | Err _, None => true
  | _, _ => false
  end.

Definition model_split (which : N) (s : str) : list str :=
  if (which =? 0)%N then sep_split COMMA s
  else if (which =? 1)%N then sep_split PIPE s
  else if (which =? 2)%N then blank_split s
  else restr_split s.

Definition groups_eqb (g : dep_groups)
    (o : string * option string * option string * option string * option string * option string) : bool :=
  let '(n, aq, op, v, ar, rs) := o in
  str_eqb (g_name g) (dec n)
  && option_eqb str_eqb (g_archqual g) (option_map dec aq)
  && option_eqb str_eqb (option_map fst (g_version g)) (option_map dec op)
  && option_eqb str_eqb (option_map snd (g_version g)) (option_map dec v)
  && option_eqb str_eqb (g_archs g) (option_map dec ar)
  && option_eqb str_eqb (g_restr g) (option_map dec rs).

Definition agree (c : case) : bool :=
  match c with
  | CRel rels s1 parsed s2 _ =>
      let p := dec_pobs parsed in
      str_eqb (rel_str (dec_rels rels)) (dec s1)
      && result_eqb parsed_eqb (parse_relations (dec s1)) p
      && str_again_agrees p s2
  | CParse raw parsed s2 =>
      let p := dec_pobs parsed in
      result_eqb parsed_eqb (parse_relations (dec raw)) p
      && str_again_agrees p s2
  | CLeaf raw groups =>
      match match_dep (dec raw), groups with
      | Some g, Some o => groups_eqb g o
      | None, None => true
      | _, _ => false
      end
  | CSplit which raw pieces => strs_eqb (model_split which (dec raw)) (map dec pieces)
  | CTerm raw groups =>
      match parse_term (dec raw), groups with
      | Some (en, p), Some (bang, prof) =>
          Bool.eqb en (match bang with Some _ => false | None => true end)
          && option_eqb str_eqb (option_map dec bang) (if en then None else Some [BANG])
             (* the group, when it took part, is the one character *)
          && str_eqb p (dec prof)
      | None, None => true
      | _, _ => false
      end
  end.

(** The property: on every structure of the domain the implementation's
    format -> parse -> format is the identity (and the same through the
    Packages / Sources accessors). *)
Definition holds (c : case) : bool :=
  match c with
  | CRel rels s1 parsed s2 via_pkg =>
      let r := dec_rels rels in
      if wf_rels r
      then roundtrip_ok r (dec s1) (dec_pobs parsed) (option_map dec s2) && via_pkg
      else true
  | _ => true
  end.

Definition bad_agree (cs : list case) : list N := bad agree cs.
Definition bad_holds (cs : list case) : list N := bad holds cs.

(** * Spec-side validation: the domain predicate of RelationSpec.v against the
      harness's regular-expression reading of the documented domain
      (nothing here depends on /repo) *)
Inductive speccase := SW (rels : list (list crel)) (wf : bool).
Definition spec_agree (c : speccase) : bool :=
  match c with SW r w => Bool.eqb (wf_rels (dec_rels r)) w end.
Definition spec_bad (cs : list speccase) : list N := bad spec_agree cs.
