(** Compact case literals for the correspondence shards (used by MvCheck and
    RelCheck only; no theorem depends on this file).

    Elaborating a Coq [string] literal costs about 65 microseconds per character
    (ten term nodes each); a case of C12 carries about 2 kB of text.  The harness
    therefore serialises a case as a tree over 7-bit symbols

        0x01 = open a node, 0x02 = close it, 0x03 = end of an atom,
        everything else = the text of an atom in the escaped form of Lib/Dec.v
        (printable ASCII other than double-quote and backslash stands for itself,
        every other code point is a backslash followed by six hexadecimal digits)

    and packs nine symbols into one primitive 63-bit integer literal (one term
    node).  [unpack] and [parse_tree] undo this inside Coq (vm_compute).  A literal
    that does not parse yields [None], which the Check modules turn into a case that
    fails [agree], so that an encoding error can never hide a disagreement. *)
From Coq Require Import Uint63 String.
From Verif Require Import Lib.Base Lib.Dec.
Local Open Scope string_scope.

Definition unpack1 (x : int) : list N :=
  let n := Z.to_N (Uint63.to_Z x) in
  let sym (k : N) := N.land (N.shiftr n (7 * k)) 127 in
  filter (fun c => negb (c =? 0)%N) (map sym [0; 1; 2; 3; 4; 5; 6; 7; 8]%N).

Definition unpack (xs : list int) : list N := flat_map unpack1 xs.

Definition hexv (c : N) : N :=
  if (48 <=? c)%N && (c <=? 57)%N then c - 48
  else if (97 <=? c)%N && (c <=? 102)%N then c - 87
  else if (65 <=? c)%N && (c <=? 70)%N then c - 55
  else 0.

(** The same decoding as [Lib.Dec.dec], on symbol lists. *)
Fixpoint unesc (s : list N) : str :=
  match s with
  | [] => []
  | c :: s' =>
      if (c =? 92)%N then
        match s' with
        | h1 :: h2 :: h3 :: h4 :: h5 :: h6 :: r =>
            (hexv h1 * 1048576 + hexv h2 * 65536 + hexv h3 * 4096
             + hexv h4 * 256 + hexv h5 * 16 + hexv h6)%N :: unesc r
        | _ => []
        end
      else c :: unesc s'
  end.

Inductive tree := Atom (s : str) | Node (ts : list tree).

(** [stack]: the children collected so far (in reverse) of every node that is
    still open, innermost first. *)
Fixpoint parse_syms (l : list N) (cur : list N) (stack : list (list tree)) : option tree :=
  match l with
  | [] => match stack, cur with [[t]], [] => Some t | _, _ => None end
  | c :: l' =>
      if (c =? 1)%N then parse_syms l' [] ([] :: stack)
      else if (c =? 2)%N then
        match stack with
        | top :: next :: rest => parse_syms l' [] ((Node (rev top) :: next) :: rest)
        | _ => None
        end
      else if (c =? 3)%N then
        match stack with
        | top :: rest => parse_syms l' [] ((Atom (unesc (rev cur)) :: top) :: rest)
        | [] => None
        end
      else parse_syms l' (c :: cur) stack
  end.

Definition parse_tree (xs : list int) : option tree := parse_syms (unpack xs) [] [[]].

(** ** Readers *)
Definition t_str (t : tree) : option str := match t with Atom s => Some s | Node _ => None end.

Fixpoint mapO {A B} (f : A -> option B) (l : list A) : option (list B) :=
  match l with
  | [] => Some []
  | a :: l' => match f a, mapO f l' with Some b, Some bs => Some (b :: bs) | _, _ => None end
  end.

Definition t_list {A} (f : tree -> option A) (t : tree) : option (list A) :=
  match t with Node ts => mapO f ts | Atom _ => None end.

Definition t_pair {A B} (f : tree -> option A) (g : tree -> option B) (t : tree) : option (A * B) :=
  match t with
  | Node [a; b] => match f a, g b with Some x, Some y => Some (x, y) | _, _ => None end
  | _ => None
  end.

(** [None] is the empty node, [Some x] a node with one child. *)
Definition t_opt {A} (f : tree -> option A) (t : tree) : option (option A) :=
  match t with
  | Node [] => Some None
  | Node [a] => match f a with Some x => Some (Some x) | None => None end
  | _ => None
  end.

Definition t_bool (t : tree) : option bool :=
  match t with
  | Atom [84%N] => Some true      (* "T" *)
  | Atom [70%N] => Some false     (* "F" *)
  | _ => None
  end.

(** decimal digits *)
Definition t_N (t : tree) : option N :=
  match t with
  | Atom (c :: s) =>
      if forallb (fun d => (48 <=? d)%N && (d <=? 57)%N) (c :: s)
      then Some (fold_left (fun acc d => acc * 10 + (d - 48))%N (c :: s) 0%N) else None
  | _ => None
  end.
Definition t_nat (t : tree) : option nat := option_map N.to_nat (t_N t).

(** Python exception kinds by name *)
Definition err_of_name (s : str) : option err :=
  let names : list (str * err) :=
    [(dec "ValueError", ValueError);
     (dec "KeyError", KeyError);
     (dec "TypeError", TypeError);
     (dec "IndexError", IndexError);
     (dec "ParseError", ParseError);
     (dec "DebError", DebError);
     (dec "IOError", IOError);
     (dec "FormatError", FormatError);
     (dec "AssertionError", AssertionError);
     (dec "NotImplementedError", NotImplementedError);
     (dec "StopIteration", StopIteration);
     (dec "OutOfFuel", OutOfFuel);
     (dec "OtherError", OtherError)] in
  match filter (fun ne => str_eqb (fst ne) s) names with
  | (_, e) :: _ => Some e
  | [] => None
  end.
Definition t_err (t : tree) : option err :=
  match t with Atom s => err_of_name s | Node _ => None end.

(** [Ok x] = node ["O"; x], [Err e] = node ["E"; name] *)
Definition t_result {A} (f : tree -> option A) (t : tree) : option (result A) :=
  match t with
  | Node [Atom [79%N]; a] => option_map Ok (f a)
  | Node [Atom [69%N]; e] => option_map Err (t_err e)
  | _ => None
  end.
