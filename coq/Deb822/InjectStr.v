(** String-level lemmas for C08: str.splitlines on arbitrary text (two-step
    induction for the CR LF look-ahead), the lines of a value over the
    property's alphabet, and the bridge between Spec.cont_lines (written with
    norm_eol/split_on) and the model's [tl (splitlines ...)]. *)
From Coq Require Import Lia ZifyBool.
From Verif Require Import Lib.Base Lib.PyStr Gen.PyChars Deb822.Spec Deb822.InjectSpec
  Deb822.ProofsStr.

Local Open Scope N_scope.

(** * Two-step list induction *)

Lemma list_ind2 {A} (P : list A -> Prop) :
  P [] -> (forall x, P [x]) -> (forall x y s, P s -> P (y :: s) -> P (x :: y :: s)) ->
  forall s, P s.
Proof.
  intros H0 H1 H2.
  assert (G : forall s, P s /\ forall x, P (x :: s)).
  { induction s as [|y s [IH1 IH2]]; split; auto. }
  intros s. apply G.
Qed.

(** * The property's alphabet *)

Lemma c08_lb c : c08_char c = true -> py_islinebreak c = true -> c = LF \/ c = CR.
Proof.
  unfold c08_char. intros H Hlb. rewrite Hlb, orb_true_r in H. cbn [negb] in H.
  rewrite orb_false_r in H.
  destruct (N.eqb_spec c LF); [now left|]. destruct (N.eqb_spec c CR); [now right|].
  destruct (N.eqb_spec c TAB) as [E|]; [subst c; vm_compute in Hlb; discriminate|].
  destruct (N.eqb_spec c SP) as [E|]; [subst c; vm_compute in Hlb; discriminate|]. discriminate.
Qed.

Lemma c08_space c :
  c08_char c = true -> py_islinebreak c = false -> py_isspace c = true -> is_sp_tab c = true.
Proof.
  unfold c08_char, is_sp_tab. intros H Hlb Hsp. rewrite Hsp in H. cbn [orb negb] in H.
  rewrite orb_false_r in H.
  destruct (N.eqb_spec c LF) as [E|]; [subst c; vm_compute in Hlb; discriminate|].
  destruct (N.eqb_spec c CR) as [E|]; [subst c; vm_compute in Hlb; discriminate|].
  cbn [orb] in H. rewrite orb_comm. exact H.
Qed.

(** a character of a line of a value: in the alphabet, not a line boundary *)
Definition line_char (c : N) : bool := negb (py_islinebreak c) && c08_char c.
Definition line_dom (l : str) : bool := forallb line_char l.

Lemma line_dom_no_linebreak l : line_dom l = true -> no_linebreak l = true.
Proof. apply forallb_impl. intros c H. apply andb_true_iff in H. tauto. Qed.

Lemma line_dom_head_space c l :
  line_dom (c :: l) = true -> py_isspace c = true -> is_sp_tab c = true.
Proof.
  cbn [line_dom forallb]. intros H Hs. apply andb_true_iff in H. destruct H as [H _].
  apply andb_true_iff in H. destruct H as [H1 H2]. apply negb_true_iff in H1.
  now apply c08_space.
Qed.

(** * splitlines on arbitrary text *)

Lemma splitlines_aux_cons2 islb keep x y s cur :
  splitlines_aux islb keep (x :: y :: s) cur
  = if islb x then
      if (x =? 13) && (y =? 10)
      then (rev cur ++ if keep then [x; y] else []) :: splitlines_aux islb keep s []
      else (rev cur ++ if keep then [x] else []) :: splitlines_aux islb keep (y :: s) []
    else splitlines_aux islb keep (y :: s) (x :: cur).
Proof. reflexivity. Qed.

Section Split.
Variable islb : N -> bool.

Lemma splitlines_aux_prefix keep a : forall s cur,
  lb_free islb a = true ->
  splitlines_aux islb keep (a ++ s) cur = splitlines_aux islb keep s (rev a ++ cur).
Proof.
  induction a as [|x a IH]; intros s cur H; [reflexivity|].
  cbn [lb_free forallb] in H. apply andb_true_iff in H. destruct H as [Hx Ha].
  apply negb_true_iff in Hx. cbn [app splitlines_aux]. rewrite Hx.
  rewrite IH by exact Ha. cbn [rev]. now rewrite <- app_assoc.
Qed.

(** text before a LF and text after it are split independently *)
Lemma splitlines_aux_app_lf keep s : forall cur rest,
  islb LF = true ->
  splitlines_aux islb keep (s ++ LF :: rest) cur
  = splitlines_aux islb keep (s ++ [LF]) cur ++ splitlines_aux islb keep rest [].
Proof.
  induction s as [| x | x y s IH1 IH2] using list_ind2; intros cur rest Hlf.
  - cbn [app splitlines_aux]. rewrite Hlf. destruct rest as [|z r]; [reflexivity|].
    replace ((LF =? 13) && (z =? 10)) with false by reflexivity. reflexivity.
  - cbn [app splitlines_aux]. destruct (islb x).
    + destruct ((x =? 13) && (LF =? 10)).
      * cbn [splitlines_aux app]. reflexivity.
      * rewrite Hlf. destruct rest as [|z r].
        -- reflexivity.
        -- replace ((LF =? 13) && (z =? 10)) with false by reflexivity. reflexivity.
    + rewrite Hlf. destruct rest as [|z r]; [reflexivity|].
      replace ((LF =? 13) && (z =? 10)) with false by reflexivity. reflexivity.
  - change ((x :: y :: s) ++ LF :: rest) with (x :: y :: (s ++ LF :: rest)).
    change ((x :: y :: s) ++ [LF]) with (x :: y :: (s ++ [LF])).
    rewrite !splitlines_aux_cons2. destruct (islb x).
    + destruct ((x =? 13) && (y =? 10)).
      * rewrite IH1 by exact Hlf. reflexivity.
      * change (y :: s ++ LF :: rest) with ((y :: s) ++ LF :: rest).
        change (y :: s ++ [LF]) with ((y :: s) ++ [LF]).
        rewrite IH2 by exact Hlf. reflexivity.
    + change (y :: s ++ LF :: rest) with ((y :: s) ++ LF :: rest).
      change (y :: s ++ [LF]) with ((y :: s) ++ [LF]).
      now rewrite IH2 by exact Hlf.
Qed.

(** what is already accumulated only extends the first line *)
Definition prepend (p : str) (ls : list str) : list str :=
  match ls with
  | [] => match p with [] => [] | _ => [p] end
  | h :: t => (p ++ h) :: t
  end.

Lemma splitlines_aux_cur s : forall cur2 cur1,
  splitlines_aux islb false s (cur2 ++ cur1)
  = prepend (rev cur1) (splitlines_aux islb false s cur2).
Proof.
  induction s as [| x | x y s IH1 IH2] using list_ind2; intros cur2 cur1.
  - cbn [splitlines_aux]. destruct cur2 as [|c cur2].
    + cbn [app prepend]. destruct cur1 as [|c1 cur1]; [reflexivity|].
      destruct (rev (c1 :: cur1)) eqn:E; [|reflexivity].
      apply (f_equal (@length N)) in E. rewrite rev_length in E. discriminate.
    + cbn [prepend]. rewrite <- rev_app_distr. reflexivity.
  - cbn [splitlines_aux]. destruct (islb x).
    + cbn [prepend]. now rewrite rev_app_distr, !app_nil_r.
    + change (x :: cur2 ++ cur1) with ((x :: cur2) ++ cur1). cbn [prepend].
      rewrite <- rev_app_distr. reflexivity.
  - rewrite !splitlines_aux_cons2. destruct (islb x).
    + destruct ((x =? 13) && (y =? 10)); cbn [prepend]; now rewrite rev_app_distr, !app_nil_r.
    + change (x :: cur2 ++ cur1) with ((x :: cur2) ++ cur1). apply IH2.
Qed.

(** every line consists of characters of the text that are not boundaries *)
Lemma splitlines_aux_forall (P : N -> bool) s : forall cur,
  forallb (fun c => islb c || P c) s = true -> forallb P cur = true ->
  forallb (forallb P) (splitlines_aux islb false s cur) = true.
Proof.
  assert (Hrev : forall l, forallb P l = true -> forallb P (rev l) = true).
  { intros l H. apply forallb_forall. intros c Hc. rewrite forallb_forall in H. apply H.
    now apply in_rev. }
  induction s as [| x | x y s IH1 IH2] using list_ind2; intros cur Hs Hcur.
  - cbn [splitlines_aux]. destruct cur; [reflexivity|]. cbn [forallb]. now rewrite Hrev.
  - cbn [splitlines_aux]. cbn [forallb] in Hs. rewrite andb_true_r in Hs.
    destruct (islb x) eqn:Ex.
    + cbn [forallb]. rewrite app_nil_r. now rewrite Hrev.
    + cbn [orb] in Hs. cbn [forallb]. rewrite andb_true_r. apply Hrev. cbn [forallb]. now rewrite Hs.
  - rewrite splitlines_aux_cons2. cbn [forallb] in Hs. apply andb_true_iff in Hs. destruct Hs as [Hx Hs].
    destruct (islb x) eqn:Ex.
    + destruct ((x =? 13) && (y =? 10)).
      * cbn [forallb]. rewrite app_nil_r, Hrev by exact Hcur. cbn [andb].
        apply IH1; [|reflexivity]. apply andb_true_iff in Hs. tauto.
      * cbn [forallb]. rewrite app_nil_r, Hrev by exact Hcur. cbn [andb].
        apply IH2; [exact Hs|reflexivity].
    + cbn [orb] in Hx. apply IH2; [exact Hs|]. cbn [forallb]. now rewrite Hx.
Qed.

End Split.

(** * endswith *)

Lemma endswith1_cons x c s : s <> [] -> endswith [x] (c :: s) = endswith [x] s.
Proof.
  intros Hs. unfold endswith. cbn [rev].
  destruct (rev s) as [|d t] eqn:E.
  - exfalso. apply Hs. apply (f_equal (@rev N)) in E. now rewrite rev_involutive in E.
  - reflexivity.
Qed.

Lemma endswith1_single x c : endswith [x] [c] = (x =? c).
Proof. unfold endswith. cbn. now rewrite andb_true_r. Qed.

(** * The lines of a value over the property's alphabet *)

(** In the alphabet only CR and LF are boundaries: a final LF after a value
    that does not end in LF adds no line. *)
Lemma splitlines_aux_final_lf v : forall cur,
  c08_dom v = true -> endswith [LF] v = false -> rev cur ++ v <> [] ->
  splitlines_aux py_islinebreak false (v ++ [LF]) cur
  = splitlines_aux py_islinebreak false v cur.
Proof.
  induction v as [| x | x y v IH1 IH2] using list_ind2; intros cur Hd He Hne.
  - rewrite app_nil_r in Hne. cbn [app splitlines_aux].
    replace (py_islinebreak LF) with true by reflexivity.
    destruct cur as [|c cur]; [cbn in Hne; congruence|]. now rewrite app_nil_r.
  - rewrite endswith1_single in He. cbn [c08_dom forallb] in Hd. rewrite andb_true_r in Hd.
    cbn [app splitlines_aux]. destruct (py_islinebreak x) eqn:Ex.
    + destruct (c08_lb x Hd Ex) as [->| ->]; [discriminate|]. reflexivity.
    + replace (py_islinebreak LF) with true by reflexivity. now rewrite app_nil_r.
  - rewrite endswith1_cons in He by discriminate.
    cbn [c08_dom forallb] in Hd. apply andb_true_iff in Hd. destruct Hd as [Hx Hd].
    change ((x :: y :: v) ++ [LF]) with (x :: y :: (v ++ [LF])).
    rewrite !splitlines_aux_cons2. destruct (py_islinebreak x) eqn:Ex.
    + destruct ((x =? 13) && (y =? 10)) eqn:Exy.
      * f_equal. apply andb_true_iff in Exy. destruct Exy as [_ Ey]. apply N.eqb_eq in Ey. subst y.
        destruct v as [|z v]; [discriminate|].
        rewrite endswith1_cons in He by discriminate.
        apply IH1; [|exact He|discriminate].
        cbn [forallb] in Hd. apply andb_true_iff in Hd. tauto.
      * f_equal. change (y :: v ++ [LF]) with ((y :: v) ++ [LF]).
        apply IH2; [exact Hd|exact He|discriminate].
    + change (y :: v ++ [LF]) with ((y :: v) ++ [LF]).
      apply IH2; [exact Hd|exact He|]. destruct (rev (x :: cur)); discriminate.
Qed.

Definition vlines (v : str) : list str := splitlines py_islinebreak false v.

Lemma c08_dom_line_pred v :
  c08_dom v = true -> forallb (fun c => py_islinebreak c || line_char c) v = true.
Proof.
  apply forallb_impl. intros c H. unfold line_char. rewrite H.
  destruct (py_islinebreak c); reflexivity.
Qed.

Lemma vlines_line_dom v : c08_dom v = true -> forallb line_dom (vlines v) = true.
Proof.
  intros H. unfold vlines, splitlines. apply splitlines_aux_forall; [|reflexivity].
  now apply c08_dom_line_pred.
Qed.

Lemma forallb_tl {A} (p : A -> bool) l : forallb p l = true -> forallb p (tl l) = true.
Proof. destruct l; [reflexivity|]. cbn [forallb tl]. intros H. apply andb_true_iff in H. tauto. Qed.

Lemma forallb_hd (p : str -> bool) l : p [] = true -> forallb p l = true -> p (hd [] l) = true.
Proof. destruct l; [now intros|]. cbn [forallb hd]. intros _ H. apply andb_true_iff in H. tauto. Qed.

(** * Spec.cont_lines is the model's [tl (splitlines v)] *)

Lemma chop_last_snoc a x :
  chop_last (a ++ [x]) = a ++ match x with [] => [] | _ => [x] end.
Proof.
  induction a as [|y a IH]; [reflexivity|].
  cbn [app]. destruct (a ++ [x]) as [|z r] eqn:E.
  - destruct a; discriminate.
  - cbn [chop_last]. cbn [chop_last] in IH. rewrite IH. reflexivity.
Qed.

Lemma chop_last_rev ls :
  chop_last ls = match rev ls with [] :: r => rev r | _ => ls end.
Proof.
  destruct ls as [|l0 ls0] using rev_ind; [reflexivity|].
  rewrite chop_last_snoc, rev_app_distr. cbn [rev app].
  destruct l0; [now rewrite rev_involutive, app_nil_r|reflexivity].
Qed.

Lemma cont_lines_chop v : cont_lines v = tl (value_lines v).
Proof.
  unfold cont_lines, value_lines. rewrite chop_last_rev.
  destruct (rev (split_on LF (norm_eol v))) as [|l r] eqn:E.
  - apply (f_equal (@rev str)) in E. rewrite rev_involutive in E. now rewrite E.
  - destruct l; [reflexivity|]. rewrite <- E, rev_involutive. reflexivity.
Qed.

Lemma chop_last_cons l ls : ls <> [] -> chop_last (l :: ls) = l :: chop_last ls.
Proof. destruct ls; [congruence|reflexivity]. Qed.

Lemma prepend_chop p h t :
  prepend p (chop_last (h :: t)) = chop_last ((p ++ h) :: t).
Proof.
  destruct t as [|h2 t].
  - cbn [chop_last]. destruct h as [|c h].
    + rewrite app_nil_r. destruct p; reflexivity.
    + cbn [prepend]. destruct p; reflexivity.
  - reflexivity.
Qed.

Lemma split_on_cons_ne c x s :
  (x =? c) = false ->
  split_on c (x :: s) = match split_on c s with p :: ps => (x :: p) :: ps | [] => [[x]] end.
Proof. intros H. cbn [split_on]. now rewrite H. Qed.

(** splitlines, for text whose only boundaries are CR and LF, in terms of
    norm_eol / split_on *)
Lemma splitlines_aux_norm v : forall cur,
  c08_dom v = true ->
  splitlines_aux py_islinebreak false v cur
  = match split_on LF (norm_eol v) with
    | h :: t => chop_last ((rev cur ++ h) :: t)
    | [] => []
    end.
Proof.
  assert (Hlf : forall s cur, splitlines_aux py_islinebreak false s [] = chop_last (split_on LF (norm_eol s)) ->
                 (rev cur ++ []) :: splitlines_aux py_islinebreak false s []
                 = chop_last ((rev cur ++ []) :: split_on LF (norm_eol s))).
  { intros s cur E. rewrite chop_last_cons by apply split_on_nonempty. now rewrite E. }
  assert (Hnil : forall s, c08_dom s = true ->
                 (forall cur, splitlines_aux py_islinebreak false s cur
                              = match split_on LF (norm_eol s) with
                                | h :: t => chop_last ((rev cur ++ h) :: t) | [] => [] end) ->
                 splitlines_aux py_islinebreak false s [] = chop_last (split_on LF (norm_eol s))).
  { intros s _ H. rewrite (H []). destruct (split_on LF (norm_eol s)); reflexivity. }
  induction v as [| x | x y v IH1 IH2] using list_ind2; intros cur Hd.
  - cbn [splitlines_aux norm_eol split_on]. rewrite app_nil_r.
    destruct cur as [|c cur]; [reflexivity|]. cbn [chop_last].
    destruct (rev (c :: cur)) eqn:E; [|reflexivity].
    apply (f_equal (@length N)) in E. rewrite rev_length in E. discriminate.
  - cbn [c08_dom forallb] in Hd. rewrite andb_true_r in Hd.
    cbn [splitlines_aux]. destruct (py_islinebreak x) eqn:Ex.
    + destruct (c08_lb x Hd Ex) as [->| ->]; cbn; now rewrite !app_nil_r.
    + assert (Hcr : (x =? CR) = false) by (destruct (N.eqb_spec x CR) as [->|]; [discriminate|reflexivity]).
      assert (Hl : (x =? LF) = false) by (destruct (N.eqb_spec x LF) as [->|]; [discriminate|reflexivity]).
      cbn [norm_eol]. rewrite Hcr. cbn [norm_eol split_on]. rewrite Hl. cbn [chop_last rev].
      destruct (rev cur ++ [x]) eqn:E; [destruct (rev cur); discriminate|]. reflexivity.
  - cbn [c08_dom forallb] in Hd. apply andb_true_iff in Hd. destruct Hd as [Hx Hd].
    assert (Hd1 : c08_dom v = true) by (cbn [c08_dom forallb] in Hd; apply andb_true_iff in Hd; tauto).
    rewrite splitlines_aux_cons2. destruct (py_islinebreak x) eqn:Ex.
    + destruct (c08_lb x Hx Ex) as [->| ->].
      * (* LF *)
        replace ((LF =? 13) && (y =? 10)) with false by reflexivity.
        change (norm_eol (LF :: y :: v)) with (LF :: norm_eol (y :: v)).
        cbn [split_on]. replace (LF =? LF) with true by reflexivity.
        apply Hlf. apply Hnil; [exact Hd|]. intros c. now apply IH2.
      * (* CR *)
        replace (CR =? 13) with true by reflexivity. cbn [andb].
        destruct (N.eqb_spec y 10) as [->|Hy].
        -- change (norm_eol (CR :: 10 :: v)) with (LF :: norm_eol v).
           cbn [split_on]. replace (LF =? LF) with true by reflexivity.
           apply Hlf. apply Hnil; [exact Hd1|]. intros c. now apply IH1.
        -- assert (E : norm_eol (CR :: y :: v) = LF :: norm_eol (y :: v)).
           { cbn [norm_eol]. replace (CR =? CR) with true by reflexivity.
             destruct (N.eqb_spec y LF); [contradiction|reflexivity]. }
           rewrite E. cbn [split_on]. replace (LF =? LF) with true by reflexivity.
           apply Hlf. apply Hnil; [exact Hd|]. intros c. now apply IH2.
    + assert (Hcr : (x =? CR) = false) by (destruct (N.eqb_spec x CR) as [->|]; [discriminate|reflexivity]).
      assert (Hl : (x =? LF) = false) by (destruct (N.eqb_spec x LF) as [->|]; [discriminate|reflexivity]).
      assert (E : norm_eol (x :: y :: v) = x :: norm_eol (y :: v)).
      { cbn [norm_eol]. now rewrite Hcr. }
      rewrite E, split_on_cons_ne by exact Hl.
      rewrite IH2 by exact Hd.
      pose proof (split_on_nonempty LF (norm_eol (y :: v))) as Hn.
      destruct (split_on LF (norm_eol (y :: v))) as [|h t]; [congruence|].
      cbn [rev]. now rewrite <- app_assoc.
Qed.

Theorem vlines_value_lines v : c08_dom v = true -> vlines v = value_lines v.
Proof.
  intros H. unfold vlines, splitlines, value_lines. rewrite splitlines_aux_norm by exact H.
  destruct (split_on LF (norm_eol v)); reflexivity.
Qed.

Theorem cont_lines_vlines v : c08_dom v = true -> cont_lines v = tl (vlines v).
Proof. intros H. now rewrite cont_lines_chop, vlines_value_lines. Qed.
