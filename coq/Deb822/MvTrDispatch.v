(** [self._fixed_field_lengths] — WHICH code an attribute read runs depends on the class of the
    object: PdiffIndex and Release define the property (their bodies are regenerated:
    Gen/TrMvLengths.v, with [self._multivalued_fields] = the class's own table); for Dsc, Changes and
    BuildInfo the lookup fails: AttributeError (kind OtherError).  This dispatch is hand-written; the
    generator of Gen/MvTables.v fails closed unless exactly these two classes define the property
    ([dispatch_matches_tables] below re-checks it against the regenerated flags).  It stands between
    the two generated files: Gen/TrMultivalued.v (get_as_string) calls it. *)
From Verif Require Import Lib.Base Lib.PyStr Lib.Dec Lib.Tr Gen.MvTables
  Deb822.Multivalued Deb822.MvTrPrims Gen.TrMvLengths.

Definition trp_fixed_field_lengths (c : cls) (sfb : str) (ci : bool) (self : para) (_ : unit)
  : result trp_lengths :=
  match c with
  | PdiffIndex => tr_pdiff_fixed_field_lengths (table_of PdiffIndex) ci self
  | Release => tr_release_fixed_field_lengths (table_of Release) sfb ci self
  | _ => Err OtherError
  end.

Definition dispatches (c : cls) : bool :=
  match c with PdiffIndex | Release => true | _ => false end.

Lemma dispatch_matches_tables : forall c, dispatches c = has_ffl c.
Proof. intros []; reflexivity. Qed.
