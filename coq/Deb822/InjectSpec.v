(** SPEC side of C08 that is not already in Deb822/Spec.v: the domain of the
    property (field names, paragraphs over the control-file alphabet) and what
    "one paragraph with exactly the same field names" means for a re-read.
    Nothing here mentions the model (Deb822/Model.v).

    From Deb822/Spec.v: [c08_char]/[c08_dom] (the property's alphabet),
    [cont_lines] (continuation lines of a value, written without splitlines),
    [spec_rejects] (the three rejection reasons), [no_blank_cont], [spec_set],
    [distinct_keys]. *)
From Verif Require Import Lib.Base Lib.PyStr Gen.PyChars Deb822.Spec.

(** A field-name character: not ':' and none of the characters Python treats
    as whitespace or as a line boundary (so in particular inside [c08_char]). *)
Definition field_char (c : N) : bool :=
  negb (c =? 58)%N && negb (py_isspace c) && negb (py_islinebreak c).

(** A field name: non-empty, field characters, not starting with '#'
    (a line starting with '#' is a comment). *)
Definition valid_field_name (k : str) : bool :=
  match k with
  | [] => false
  | c :: _ => negb (c =? 35)%N && forallb field_char k
  end.

Definition names (d : list (str * str)) : list str := map fst d.

(** The paragraphs the property quantifies over: valid names, pairwise distinct
    ignoring case, values over the property's alphabet. *)
Definition para_dom (d : list (str * str)) : bool :=
  forallb valid_field_name (names d) && distinct_keys (names d)
  && forallb (fun kv => c08_dom (snd kv)) d.

(** "no continuation line of any value is blank" *)
Definition para_no_blank_cont (d : list (str * str)) : bool :=
  forallb (fun kv => no_blank_cont (snd kv)) d.

(** Reading back gave exactly one paragraph with exactly the names [ks]. *)
Definition one_para_with_names (ks : list str) (r : result (list (list (str * str)))) : bool :=
  match r with
  | Ok [p] => strs_eqb (names p) ks
  | _ => false
  end.

(** * What reading back gives (stronger than the property: names AND values)

    The lines of a value as a control file has them (CRLF, CR and LF each end a
    line; a final line end opens no further line), written without reference
    to splitlines. *)
Fixpoint chop_last (ls : list str) : list str :=
  match ls with
  | [] => []
  | [l] => match l with [] => [] | _ => [l] end
  | l :: ls' => l :: chop_last ls'
  end.

Definition value_lines (v : str) : list str := chop_last (split_on LF (norm_eol v)).

(** a continuation line that is one single blank carries no data and is dropped
    by the reader; every other one is kept as it is *)
Definition kept_cont (l : str) : bool := match l with [_] => false | _ => true end.

(** The value read back: first line trimmed, line ends normalised to LF. *)
Definition reread_value (v : str) : str :=
  match value_lines v with
  | [] => []
  | first :: conts => value_of (strip_by py_isspace first) (filter kept_cont conts)
  end.

Definition reread_para (d : list (str * str)) : list (str * str) :=
  map (fun kv => (fst kv, reread_value (snd kv))) d.

(** * The same through a file object (lines end at LF only; a CR inside a line
      stays where it is) *)
Definition crlf_char (c : N) : bool := (c =? CR)%N || (c =? LF)%N.

Definition reread_value_file (v : str) : str :=
  match split_on LF v with
  | [] => []
  | first :: conts =>
      value_of (strip_by py_isspace first) (filter kept_cont (map (rstrip_by crlf_char) conts))
  end.

Definition reread_para_file (d : list (str * str)) : list (str * str) :=
  map (fun kv => (fst kv, reread_value_file (snd kv))) d.
