(** C12 — the bridge between the theorems of Deb822/MvProofs.v (about the model) and
    the two predicates the correspondence check evaluates (Deb822/MvCheck.v): when
    the implementation's observation agrees with the model ([agree]) the property's
    judgement of that observation ([holds]) is true.

    The unconditional statement is FALSE, for three reasons, all in [Some c] cases:

    (a) [agree (Some c) = negb (faithful_dom c) || agree_dom c]: outside the
        faithful domain (a non-ASCII field or sub-field name) [agree] is [true]
        whatever was observed, while [holds] still judges the observation.
    (b) [ObsFull _ raw parsed dump2]: [raw] (what [Deb822(text).items()] gave) is an
        observation that [agree] takes as the INPUT of its second stage and never
        compares with anything.  [holds_parsed] judges [parsed]/[dump2] against the
        spec field by field; if [raw] repeats a field name (up to case), the
        constructor's loop — and the model — rewrites only the first occurrence, and
        [holds_parsed] fails on the second.  A Deb822 object never has two such keys,
        but nothing in [agree] says so.
    (c) [c_build = Some _] with [ObsFull]: [holds_build] demands that the re-parsed
        object IS the last state of the built object (when that state is in the
        property's domain).  [agree] only checks that [parsed] is what the model's
        constructor makes of the OBSERVED [raw]; how the dumped text is split into
        [raw] is C02's parser, not part of this model (see Props/C12.v, 4.).

    [judged] is the computable side condition: (a) the case is in the faithful
    domain, (b) the observed raw keys are distinct up to case, (c) in a build case
    whose last state is in the domain, the re-parsed object is that state.  (c) is
    literally the conjunct of [holds_build] that [agree] cannot force — it is the
    weakest possible; [documented_split_judged] shows that it follows (with (b))
    from "the observed [raw] is the documented split [spec_raw] of the documented
    text", which is what C02's parser is expected to deliver.  The three examples at
    the end show that none of the three conjuncts can be dropped. *)
From Coq Require Import String.
From Verif Require Import Lib.Base Lib.PyStr Lib.Dec Gen.PyChars Gen.MvTables
  Deb822.Multivalued Deb822.MvSpec Deb822.MvProofs Deb822.MvCheck.

(** * Reflection of the equalities of MvCheck *)
Lemma pair_eqb_iff {A B} (f : A -> A -> bool) (g : B -> B -> bool) :
  (forall a b, f a b = true <-> a = b) -> (forall a b, g a b = true <-> a = b) ->
  forall x y, pair_eqb f g x y = true <-> x = y.
Proof.
  intros Hf Hg [a1 b1] [a2 b2]. unfold pair_eqb. cbn [fst snd].
  rewrite andb_true_iff, Hf, Hg.
  split; [intros [-> ->]; reflexivity|intros H; inversion H; auto].
Qed.

Lemma rec_eqb_iff a b : rec_eqb a b = true <-> a = b.
Proof. unfold rec_eqb. apply list_eqb_eq. apply pair_eqb_iff; apply str_eqb_eq. Qed.

Lemma fvalue_eqb_iff a b : fvalue_eqb a b = true <-> a = b.
Proof.
  destruct a as [s|r|rs], b as [s'|r'|rs']; cbn [fvalue_eqb];
    try (split; intros H; discriminate H).
  - rewrite str_eqb_eq. split; [now intros ->|intros H; now inversion H].
  - rewrite rec_eqb_iff. split; [now intros ->|intros H; now inversion H].
  - rewrite (list_eqb_eq _ rec_eqb_iff). split; [now intros ->|intros H; now inversion H].
Qed.

Lemma fvalue_eqb_refl a : fvalue_eqb a a = true.
Proof. now apply fvalue_eqb_iff. Qed.

Lemma para_eqb_iff a b : para_eqb a b = true <-> a = b.
Proof.
  unfold para_eqb. apply list_eqb_eq. apply pair_eqb_iff; [apply str_eqb_eq|apply fvalue_eqb_iff].
Qed.

Lemma result_str_eqb_iff (x y : result str) : result_eqb str_eqb x y = true <-> x = y.
Proof.
  destruct x as [a|e], y as [a'|e']; cbn [result_eqb]; try (split; intros H; discriminate H).
  - rewrite str_eqb_eq. split; [now intros ->|intros H; now inversion H].
  - rewrite err_eqb_eq. split; [now intros ->|intros H; now inversion H].
Qed.

(** * The side condition *)
Definition raw_distinct (c : kase) : bool :=
  match c_obs c with
  | ObsFull _ raw _ _ => distinct_keys (map fst raw)
  | _ => true
  end.

Definition reparse_judged (c : kase) : bool :=
  match c_build c, behav_of (c_behav c), c_obs c with
  | Some ops, Ok _, ObsFull _ _ parsed _ =>
      match build (c_cls c) ops with
      | Ok p =>
          match final_state (c_cls c) (negb (c_plainrec c)) p (c_edits c) with
          | Some pn =>
              match in_domain (c_cls c) pn with
              | Some sp => para_eqb parsed (para_of_spara (c_cls c) sp)
              | None => true
              end
          | None => true
          end
      | Err _ => true
      end
  | _, _, _ => true
  end.

Definition judged (c : case) : bool :=
  match c with
  | Some c => faithful_dom c && raw_distinct c && reparse_judged c
  | None => true
  end.

(** "the observed raw pairs are the documented split of the documented text" *)
Definition raw_eqb (a b : list (str * str)) : bool := list_eqb (pair_eqb str_eqb str_eqb) a b.
Definition documented_split (c : kase) : bool :=
  match c_build c, behav_of (c_behav c), c_obs c with
  | Some ops, Ok b, ObsFull _ raw _ _ =>
      match build (c_cls c) ops with
      | Ok p =>
          match final_state (c_cls c) (negb (c_plainrec c)) p (c_edits c) with
          | Some pn =>
              match in_domain (c_cls c) pn with
              | Some sp => raw_eqb raw (spec_raw (c_cls c) b sp)
              | None => true
              end
          | None => true
          end
      | Err _ => true
      end
  | _, _, _ => true
  end.

(** * The histories *)
Section Hist.
  Variables (k : cls) (b : behav) (ci : bool).

  (** a dump that succeeded in a state of the domain is the documented text *)
  Lemma dom_dump p d :
    dump_para k b ci p = Ok d ->
    match in_domain k p with Some sp => str_eqb d (spec_dump k b sp) | None => true end = true.
  Proof.
    intros Hd. destruct (in_domain k p) as [sp|] eqn:Hin; [|reflexivity].
    rewrite (dump_para_spec k b ci p sp Hin) in Hd. injection Hd as <-. apply str_eqb_refl.
  Qed.

  Lemma run_history_done : forall es p acc ds pn,
    run_history k b ci p es acc = HDone ds pn ->
    exists ds', ds = rev acc ++ ds'
                /\ (forall df, holds_hist k b ci p es ds' df = true)
                /\ final_state k ci p es = Some pn.
  Proof.
    induction es as [|e es IH]; intros p acc ds pn H; cbn [run_history] in H;
      destruct (dump_para k b ci p) as [d|x] eqn:Hd; try discriminate H.
    - injection H as <- <-. exists [d]. cbn [rev]. split; [reflexivity|]. split; [|reflexivity].
      intros df. cbn [holds_hist]. now rewrite (dom_dump p d Hd).
    - destruct (apply_edit k ci p e) as [p'|x] eqn:Ea; [|discriminate H].
      destruct (IH p' (d :: acc) ds pn H) as [ds' [E [Hh Hf]]].
      exists (d :: ds'). cbn [rev] in E. rewrite <- app_assoc in E. split; [exact E|]. split.
      + intros df. cbn [holds_hist]. rewrite (dom_dump p d Hd), Ea. apply Hh.
      + cbn [final_state]. now rewrite Ea.
  Qed.

  Lemma run_history_editerr : forall es p acc ds x,
    run_history k b ci p es acc = HEditErr ds x ->
    exists ds', ds = rev acc ++ ds' /\ forall df, holds_hist k b ci p es ds' df = true.
  Proof.
    induction es as [|e es IH]; intros p acc ds x H; cbn [run_history] in H;
      destruct (dump_para k b ci p) as [d|y] eqn:Hd; try discriminate H.
    destruct (apply_edit k ci p e) as [p'|y] eqn:Ea.
    - destruct (IH p' (d :: acc) ds x H) as [ds' [E Hh]].
      exists (d :: ds'). cbn [rev] in E. rewrite <- app_assoc in E. split; [exact E|].
      intros df. cbn [holds_hist]. rewrite (dom_dump p d Hd), Ea. apply Hh.
    - injection H as <- <-. exists [d]. cbn [rev]. split; [reflexivity|].
      intros df. cbn [holds_hist]. now rewrite (dom_dump p d Hd), Ea.
  Qed.

  Lemma run_history_dumperr : forall es p acc ds x,
    run_history k b ci p es acc = HDumpErr ds x ->
    exists ds', ds = rev acc ++ ds'
                /\ holds_hist k b ci p es ds' true = true
                /\ exists q, In q (states k ci p es) /\ is_ok (dump_para k b ci q) = false.
  Proof.
    induction es as [|e es IH]; intros p acc ds x H; cbn [run_history] in H;
      destruct (dump_para k b ci p) as [d|y] eqn:Hd; try discriminate H.
    - injection H as <- <-. exists []. rewrite app_nil_r. split; [reflexivity|]. split.
      + cbn [holds_hist]. destruct (in_domain k p) as [sp|] eqn:Hin; [|reflexivity].
        rewrite (dump_para_spec k b ci p sp Hin) in Hd. discriminate Hd.
      + exists p. split; [now left|]. now rewrite Hd.
    - destruct (apply_edit k ci p e) as [p'|y] eqn:Ea; [|discriminate H].
      destruct (IH p' (d :: acc) ds x H) as [ds' [E [Hh [q [Hq Hbad]]]]].
      exists (d :: ds'). cbn [rev] in E. rewrite <- app_assoc in E. split; [exact E|]. split.
      + cbn [holds_hist]. rewrite (dom_dump p d Hd), Ea. exact Hh.
      + exists q. split; [|exact Hbad]. cbn [states]. rewrite Ea. now right.
    - injection H as <- <-. exists []. rewrite app_nil_r. split; [reflexivity|]. split.
      + cbn [holds_hist]. destruct (in_domain k p) as [sp|] eqn:Hin; [|reflexivity].
        rewrite (dump_para_spec k b ci p sp Hin) in Hd. discriminate Hd.
      + exists p. split; [now left|]. now rewrite Hd.
  Qed.

  (** "can always be dumped", as [holds_build] tests it *)
  Lemma no_dump_error es p acc ds x :
    para_dumpable k b ci p = true -> forallb (edit_ok k b ci) es = true ->
    run_history k b ci p es acc = HDumpErr ds x -> False.
  Proof.
    intros Hp Hes H.
    destruct (run_history_dumperr es p acc ds x H) as [_ [_ [_ [q [Hq Hbad]]]]].
    rewrite (always_dumpable k b ci es p q Hp Hes Hq) in Hbad. discriminate Hbad.
  Qed.
End Hist.

(** * The re-parse stage *)
Lemma forallb_combine_map {A B} (P : A * B -> bool) (f : A -> B) : forall l,
  forallb P (combine l (map f l)) = forallb (fun a => P (a, f a)) l.
Proof. induction l as [|a l IH]; [reflexivity|]. cbn [map combine forallb]. now rewrite IH. Qed.

Lemma map_fst_parse_entry tbl raw : map fst (map (parse_entry tbl) raw) = map fst raw.
Proof. rewrite map_map. apply map_ext. reflexivity. Qed.

(** what [stage2_agree] forces, once the raw keys are distinct *)
Lemma stage2_forces k b raw parsed dump2 :
  distinct_keys (map fst raw) = true ->
  stage2_agree k b raw parsed dump2 = true ->
  parsed = map (parse_entry (table_of k)) raw /\ dump2 = dump_para k b true parsed.
Proof.
  intros Hd H. unfold stage2_agree in H. rewrite (mv_init_map k raw Hd) in H.
  apply andb_true_iff in H. destruct H as [H1 H2].
  apply para_eqb_iff in H1. apply result_str_eqb_iff in H2. subst parsed. split; [reflexivity|now symmetry].
Qed.

Lemma holds_parsed_of_stage2 c ds raw parsed dump2 b :
  c_obs c = ObsFull ds raw parsed dump2 -> behav_of (c_behav c) = Ok b ->
  distinct_keys (map fst raw) = true ->
  stage2_agree (c_cls c) b raw parsed dump2 = true ->
  holds_parsed c = true.
Proof.
  intros Ho Hb Hd Hs. unfold holds_parsed. rewrite Ho, Hb. cbv zeta.
  destruct (stage2_forces _ _ _ _ _ Hd Hs) as [Hp Hd2]. set (k := c_cls c) in *.
  assert (Hdp : distinct_keys (map fst parsed) = true).
  { rewrite Hp, map_fst_parse_entry. exact Hd. }
  repeat (apply andb_true_iff; split).
  - rewrite Hp, map_length. apply Nat.eqb_refl.
  - rewrite Hp, forallb_combine_map. apply forallb_forall. intros [key s] _.
    cbn [fst snd parse_entry]. rewrite str_eqb_refl. cbn [andb].
    rewrite spec_order_is_lookup.
    destruct (lookup_exact (ascii_lower key) (table_of k)) as [order|] eqn:Hl; [|apply fvalue_eqb_refl].
    destruct (spec_rows order s) as [rows|] eqn:Hr.
    + rewrite (parse_exposes_records k key order s rows Hl Hr). apply fvalue_eqb_refl.
    + destruct (spec_single order s) as [toks|] eqn:Hsg; [|reflexivity].
      rewrite (parse_single_line k key order s toks Hl Hsg). apply fvalue_eqb_refl.
  - destruct (spara_of false k parsed) as [sp|] eqn:Hsp; [|reflexivity].
    rewrite Hd2, (dump_para_spec_gen false k b true parsed sp Hdp Hsp). cbn [result_eqb]. apply str_eqb_refl.
  - destruct (raw_ok k b raw) eqn:Hok; [|reflexivity].
    rewrite Hd2, Hp. apply dump_para_total. now apply parsed_dumpable.
Qed.

(** * The theorem *)
Lemma agree_dom_implies_holds (c : kase) :
  raw_distinct c = true -> reparse_judged c = true -> agree_dom c = true ->
  holds_build c && holds_parsed c = true.
Proof.
  intros Hrd Hrj Hag. unfold agree_dom in Hag. cbv zeta in Hag.
  unfold holds_build. unfold reparse_judged in Hrj. unfold raw_distinct in Hrd.
  destruct (behav_of (c_behav c)) as [b|eb] eqn:Hb.
  2:{ (* assigning the behaviour raised: nothing is judged *)
      unfold holds_parsed. rewrite Hb.
      destruct (c_build c); destruct (c_obs c); reflexivity. }
  destruct (c_build c) as [ops|] eqn:Hbuild.
  - cbv zeta.
    destruct (build (c_cls c) ops) as [p|e] eqn:Hbd.
    2:{ destruct (c_obs c) eqn:Ho; try discriminate Hag.
        unfold holds_parsed. rewrite Ho. reflexivity. }
    destruct (run_history (c_cls c) b (negb (c_plainrec c)) p (c_edits c) []) as [ds pn|ds e|ds e] eqn:Hrun.
    + (* every dump succeeded *)
      destruct (c_obs c) as [| | | |ds' raw parsed dump2] eqn:Ho; try discriminate Hag.
      apply andb_true_iff in Hag. destruct Hag as [Hds Hs2]. apply strs_eqb_eq in Hds. subst ds'.
      destruct (run_history_done _ _ _ _ _ _ _ _ Hrun) as [ds' [E [Hh Hf]]]. cbn [rev app] in E. subst ds'.
      rewrite (holds_parsed_of_stage2 c ds raw parsed dump2 b Ho Hb Hrd Hs2), andb_true_r.
      rewrite Hh, Hf. cbn [andb]. rewrite Hf in Hrj.
      destruct (stage2_forces _ _ _ _ _ Hrd Hs2) as [_ Hd2].
      replace (if para_dumpable (c_cls c) b (negb (c_plainrec c)) p
                  && forallb (edit_ok (c_cls c) b (negb (c_plainrec c))) (c_edits c)
               then true else true) with true by (now destruct (_ && _)).
      rewrite andb_true_r.
      destruct (in_domain (c_cls c) pn) as [sp|] eqn:Hin; [|reflexivity].
      rewrite Hrj. cbn [andb]. apply para_eqb_iff in Hrj. rewrite Hd2, Hrj.
      rewrite (in_domain_is_spec _ _ _ Hin).
      rewrite (dump_para_spec (c_cls c) b true pn sp Hin). cbn [result_eqb]. apply str_eqb_refl.
    + (* a dump raised *)
      destruct (c_obs c) as [| |ds' e'| |] eqn:Ho; try discriminate Hag.
      apply andb_true_iff in Hag. destruct Hag as [Hds _]. apply strs_eqb_eq in Hds. subst ds'.
      destruct (run_history_dumperr _ _ _ _ _ _ _ _ Hrun) as [ds' [E [Hh _]]]. cbn [rev app] in E. subst ds'.
      unfold holds_parsed. rewrite Ho, andb_true_r. rewrite Hh. cbn [andb].
      destruct (para_dumpable (c_cls c) b (negb (c_plainrec c)) p
                && forallb (edit_ok (c_cls c) b (negb (c_plainrec c))) (c_edits c)) eqn:Hdump; [|reflexivity].
      apply andb_true_iff in Hdump. destruct Hdump as [Hp Hes].
      destruct (no_dump_error _ _ _ _ _ _ _ _ Hp Hes Hrun).
    + (* an edit raised *)
      destruct (c_obs c) as [| | |ds' e'|] eqn:Ho; try discriminate Hag.
      apply andb_true_iff in Hag. destruct Hag as [Hds _]. apply strs_eqb_eq in Hds. subst ds'.
      destruct (run_history_editerr _ _ _ _ _ _ _ _ Hrun) as [ds' [E Hh]]. cbn [rev app] in E. subst ds'.
      unfold holds_parsed. rewrite Ho, andb_true_r. rewrite Hh. cbn [andb].
      now destruct (_ && _).
  - (* no build stage: only the parse is judged *)
    cbn [andb].
    destruct (c_obs c) as [| | | |ds raw parsed dump2] eqn:Ho; try discriminate Hag.
    destruct ds as [|d ds]; [|discriminate Hag].
    exact (holds_parsed_of_stage2 c [] raw parsed dump2 b Ho Hb Hrd Hag).
Qed.

Theorem agree_implies_holds (c : case) : judged c = true -> agree c = true -> holds c = true.
Proof.
  destruct c as [c|]; [|discriminate 2].
  cbn [judged agree holds]. intros Hj Hag.
  apply andb_true_iff in Hj. destruct Hj as [Hj Hrj]. apply andb_true_iff in Hj. destruct Hj as [Hf Hrd].
  rewrite Hf in Hag. cbn [negb orb] in Hag.
  now apply agree_dom_implies_holds.
Qed.

(** (c) follows from: the observed [raw] is the documented split of the documented
    text of the last state (then [raw]'s keys are distinct as well). *)
Lemma documented_split_judged (c : kase) :
  faithful_dom c = true -> raw_distinct c = true -> documented_split c = true ->
  agree_dom c = true -> judged (Some c) = true.
Proof.
  intros Hf Hrd Hsplit Hag. cbn [judged]. rewrite Hf, Hrd. cbn [andb].
  unfold reparse_judged. unfold documented_split in Hsplit. unfold agree_dom in Hag. cbv zeta in Hag.
  destruct (c_build c) as [ops|]; [|reflexivity].
  destruct (behav_of (c_behav c)) as [b|]; [|reflexivity].
  destruct (c_obs c) as [| | | |ds raw parsed dump2] eqn:Ho; try reflexivity.
  destruct (build (c_cls c) ops) as [p|]; [|reflexivity].
  destruct (final_state (c_cls c) (negb (c_plainrec c)) p (c_edits c)) as [pn|]; [|reflexivity].
  destruct (in_domain (c_cls c) pn) as [sp|] eqn:Hin; [|reflexivity].
  apply (list_eqb_eq _ (pair_eqb_iff _ _ str_eqb_eq str_eqb_eq)) in Hsplit. subst raw.
  destruct (run_history _ _ _ _ _ _); try discriminate Hag.
  apply andb_true_iff in Hag. destruct Hag as [_ Hs2].
  unfold stage2_agree in Hs2. rewrite (reparse_in_domain (c_cls c) b pn sp Hin) in Hs2.
  apply andb_true_iff in Hs2. destruct Hs2 as [Hp _]. apply para_eqb_iff in Hp. subst parsed.
  rewrite (in_domain_is_spec _ _ _ Hin). now apply para_eqb_iff.
Qed.

Theorem agree_implies_holds_split (c : kase) :
  faithful_dom c = true -> raw_distinct c = true -> documented_split c = true ->
  agree (Some c) = true -> holds (Some c) = true.
Proof.
  intros Hf Hrd Hsplit Hag. apply agree_implies_holds; [|exact Hag].
  apply documented_split_judged; try assumption.
  cbn [agree] in Hag. rewrite Hf in Hag. exact Hag.
Qed.

(** * None of the three conjuncts of [judged] can be dropped *)
Local Open Scope string_scope.

(** (a) a non-ASCII field name: [agree] does not look, [holds] does *)
Example unfaithful_case_fails :
  let s := dec in
  let c := Some (mk Dsc None false None [] []
                    (ObsFull [] [(s "\0000e9", s "x")] [(s "\0000e9", Plain (s "y"))] (Ok (s "")))) in
  agree c = true /\ holds c = false.
Proof. vm_compute. split; reflexivity. Qed.

(** (b) a repeated key in the observed raw pairs *)
Example repeated_key_fails :
  let s := dec in
  let v := s "\00000a a 1 n" in
  let r := [(s "md5sum", s "a"); (s "size", s "1"); (s "name", s "n")] in
  let c := Some (mk Dsc None false None [] []
                    (ObsFull [] [(s "Files", v); (s "files", v)]
                             [(s "Files", Multi [r]); (s "files", Plain v)]
                             (Ok (s "Files:\00000a a 1 n\00000afiles:\00000a a 1 n\00000a")))) in
  agree c = true /\ holds c = false
  /\ judged c = false.
Proof. vm_compute. repeat split. Qed.

(** (c) a built paragraph of the domain, every stage as the model computes it FROM the
    observed raw pairs — which are not the pairs of the dumped text *)
Example foreign_raw_fails :
  let s := dec in
  let c := Some (mk Dsc None false (Some [(s "Origin", Plain (s "Debian"))]) [] []
                    (ObsFull [s "Origin: Debian\00000a"] [(s "Origin", s "Ubuntu")]
                             [(s "Origin", Plain (s "Ubuntu"))] (Ok (s "Origin: Ubuntu\00000a")))) in
  agree c = true /\ holds c = false /\ judged c = false.
Proof. vm_compute. repeat split. Qed.
