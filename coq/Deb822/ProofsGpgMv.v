(** C02 proofs, part 5: Dsc/Changes ([CGpgMv]) and comment lines.

    _gpg_multivalued.__init__ runs split_gpg_and_payload on the RAW lines
    (comment lines included) and only then hands the payload to Deb822.__init__,
    which filters comments.  So for these classes a comment line is an ordinary
    non-blank line while the paragraph is being delimited; a block that consists
    of comment lines (and whitespace-only lines) only is recognised afterwards
    and the splitter is run again on the rest of the iterator ([gpgmv_split]).  Proved here: comment lines
    anywhere - inside blocks, among armour header and signature lines, and as
    blocks of their own between blank lines - are ignored. *)
From Coq Require Import Lia ZifyBool.
From Verif Require Import Lib.Base Lib.PyStr Gen.PyChars Deb822.Model Deb822.Spec
  Deb822.ProofsStr Deb822.ProofsParse Deb822.ProofsConsume Deb822.Proofs.

Local Open Scope N_scope.

(** * Raw-safe lines: what the raw splitter appends to the payload *)

Definition raw_safe (l : str) : bool :=
  no_linebreak l && negb (blank_ws l) && negb (startswith s_dashes l).

Lemma raw_safe_inv l :
  raw_safe l = true ->
  no_linebreak l = true /\ blank_ws l = false /\ startswith s_dashes l = false.
Proof.
  unfold raw_safe. intros H.
  apply andb_true_iff in H. destruct H as [H H3]. apply andb_true_iff in H. destruct H as [H1 H2].
  apply negb_true_iff in H2, H3. tauto.
Qed.

Lemma safe_line_raw_safe l : safe_line l = true -> raw_safe l = true.
Proof.
  intros H. destruct (safe_line_inv l H) as (H1 & _ & H3 & H4). unfold raw_safe.
  now rewrite H1, H3, H4.
Qed.

Lemma comment_line_raw_safe l : comment_line l = true -> raw_safe l = true.
Proof.
  unfold comment_line, is_comment. intros H. apply andb_true_iff in H. destruct H as [Hc Hn].
  unfold raw_safe. rewrite Hn. destruct l as [|c r]; [discriminate|].
  cbn [startswith] in Hc. apply andb_true_iff in Hc. destruct Hc as [Hc _].
  apply N.eqb_eq in Hc. subst c. reflexivity.
Qed.

Lemma gpg_step_raw_safe ws g l :
  raw_safe l = true -> g_state g = s_SAFE ->
  gpg_step ws g l = (mkG false s_SAFE (g_pre g) (g_lines g ++ [l]) (g_post g), false).
Proof.
  intros Hl Hst. destruct (raw_safe_inv l Hl) as (Hnl & Hb & Hd).
  unfold gpg_step. rewrite (strip_crlf_id _ Hnl), Hb, andb_false_r.
  rewrite (match_gpgre_nodash _ Hd), Hst.
  replace (str_eqb s_SAFE s_SAFE) with true by reflexivity.
  now rewrite (not_blank_ws_line ws _ Hb).
Qed.

Lemma consume_raw_one ws ab g l rest :
  raw_safe l = true -> g_state g = s_SAFE ->
  consume false ws ab g (l :: rest)
  = consume false ws false (mkG false s_SAFE (g_pre g) (g_lines g ++ [l]) (g_post g)) rest.
Proof.
  intros Hl Hst. rewrite consume_cons. cbn [andb]. now rewrite gpg_step_raw_safe.
Qed.

Lemma consume_raw ws ls : forall ab g rest,
  forallb raw_safe ls = true -> g_state g = s_SAFE ->
  exists ab' g',
    consume false ws ab g (ls ++ rest) = consume false ws ab' g' rest
    /\ g_state g' = s_SAFE /\ g_pre g' = g_pre g /\ g_lines g' = g_lines g ++ ls
    /\ g_post g' = g_post g /\ (ls <> [] -> ab' = false /\ g_first g' = false)
    /\ (ls = [] -> ab' = ab /\ g' = g).
Proof.
  induction ls as [|l ls IH]; intros ab g rest H Hst.
  - exists ab, g. rewrite app_nil_r. repeat split; try reflexivity; try assumption; congruence.
  - cbn [forallb] in H. apply andb_true_iff in H. destruct H as [Hl Hls].
    cbn [app]. rewrite consume_raw_one by assumption.
    destruct (IH false (mkG false s_SAFE (g_pre g) (g_lines g ++ [l]) (g_post g)) rest Hls eq_refl)
      as (ab' & g' & E & H1 & H2 & H3 & H4 & H5 & H6).
    exists ab', g'. cbn [g_pre g_lines g_post] in *. rewrite E.
    repeat split; try assumption.
    + rewrite H3, <- app_assoc. reflexivity.
    + destruct ls as [|l2 ls2]; [|apply H5; discriminate]. destruct (H6 eq_refl) as [-> _]. reflexivity.
    + destruct ls as [|l2 ls2]; [|apply H5; discriminate]. destruct (H6 eq_refl) as [_ ->]. reflexivity.
    + discriminate.
    + discriminate.
Qed.

(** * The envelope, from any SAFE state, raw-safe payload *)

Lemma consume_hdr' skip ws hdr : forall pre lines post rest,
  forallb armor_text_line hdr = true ->
  exists pre',
    consume skip ws false (mkG false s_SIGNED_MESSAGE pre lines post) (hdr ++ rest)
    = consume skip ws false (mkG false s_SIGNED_MESSAGE pre' lines post) rest.
Proof.
  induction hdr as [|h hdr IH]; intros pre lines post rest H.
  - now exists pre.
  - cbn [forallb] in H. apply andb_true_iff in H. destruct H as [Hh Hhdr].
    destruct (armor_text_line_inv h Hh) as (Hnl & Hb & Hd).
    cbn [app]. rewrite consume_cons. rewrite andb_false_r. cbn [andb].
    destruct (skip && startswith [HASH] h); [now apply IH|].
    unfold gpg_step. rewrite (strip_crlf_id _ Hnl). cbn [g_first andb g_state g_pre g_lines g_post].
    rewrite (match_gpgre_nodash _ Hd).
    replace (str_eqb s_SIGNED_MESSAGE s_SAFE) with false by reflexivity.
    replace (str_eqb s_SIGNED_MESSAGE s_SIGNED_MESSAGE) with true by reflexivity.
    rewrite (not_blank_ws_line ws _ Hb). now apply IH.
Qed.

Lemma gpg_step_begin' ws g s w what :
  armor_const s = true -> armor_pad w = true ->
  match_gpgre (s ++ w) = Some (true, what) ->
  exists pre post, gpg_step ws g (s ++ w) = (mkG false what pre (g_lines g) post, false).
Proof.
  intros Hs Hw Hm. destruct (gpg_step_begin ws g s w what Hs Hw Hm) as (pre & post & E & _).
  now exists pre, post.
Qed.

Theorem consume_armor_raw ws ab g a body rest :
  valid_armor ws a = true -> forallb raw_safe body = true -> g_state g = s_SAFE ->
  exists g', consume false ws ab g (armor_lines a body ++ rest) = (g', rest)
             /\ g_lines g' = g_lines g ++ body.
Proof.
  intros Ha Hbody Hst.
  destruct (valid_armor_inv ws a Ha) as (Hw1 & Hw2 & Hw3 & Hhdr & Hbl & Hsig).
  rewrite armor_lines_eq. cbn [app].
  rewrite consume_armor_line by (exact armor_const_begin_signed || assumption).
  destruct (gpg_step_begin' ws g _ _ _ armor_const_begin_signed Hw1
              (match_gpgre_begin_signed _ Hw1)) as (pre1 & post1 & E1).
  rewrite E1. rewrite <- app_assoc.
  destruct (consume_hdr' false ws (a_hdr a) pre1 (g_lines g) post1
              ((a_blank a :: body ++ (s_begin_signature ++ a_w2 a) :: a_sig a ++ [s_end_signature ++ a_w3 a]) ++ rest)
              Hhdr) as (pre2 & E2).
  rewrite E2. cbn [app]. rewrite consume_hdr_blank by exact Hbl.
  rewrite <- app_assoc.
  match goal with |- context [consume false ws false ?g0 (body ++ ?X)] =>
    destruct (consume_raw ws body false g0 X Hbody eq_refl) as (ab3 & g3 & E3 & Hst3 & _ & Hl3 & _)
  end.
  rewrite E3. cbn [app g_lines] in *.
  rewrite consume_armor_line by (exact armor_const_begin_signature || assumption).
  destruct (gpg_step_begin' ws g3 _ _ _ armor_const_begin_signature Hw2
              (match_gpgre_begin_signature _ Hw2)) as (pre4 & post4 & E4).
  rewrite E4. rewrite <- app_assoc.
  destruct (consume_sig false ws (a_sig a) pre4 (g_lines g3) post4 (@app str [s_end_signature ++ a_w3 a] rest) Hsig)
    as (post5 & E5).
  rewrite E5. cbn [app].
  rewrite consume_armor_line by (exact armor_const_end_signature || assumption).
  destruct (armor_line_facts _ _ armor_const_end_signature Hw3) as (Hnl & _ & Hb & _).
  unfold gpg_step. rewrite (strip_crlf_id _ Hnl). cbn [g_first andb].
  rewrite (match_gpgre_end_signature _ Hw3).
  eexists. split; [reflexivity|]. cbn [g_lines]. exact Hl3.
Qed.

(** * The loop of _gpg_multivalued.__init__ from a run of ignorable lines *)

(** the splitter's state after the lines [cs] of a run (comment lines and, under
    whitespace-separates-paragraphs=False, whitespace-only lines after them) *)
Definition run_state (cs : list str) : gpg :=
  match cs with [] => gpg_init | _ => mkG false s_SAFE [] cs [] end.

Definition gpgmv_from (f : nat) (ws : bool) (cs ls : list str) : result (list str) * list str :=
  let (g, rest) := consume false ws (is_nil cs) (run_state cs) ls in
  match g_lines g with
  | [] => (Ok [], rest)
  | l0 :: ls0 =>
    if is_nil (g_pre g) && forallb ignorable_line (l0 :: ls0)
    then gpgmv_split f ws rest else (Ok (l0 :: ls0), rest)
  end.

Lemma gpgmv_split_from f ws ls : gpgmv_split (S f) ws ls = gpgmv_from f ws [] ls.
Proof. reflexivity. Qed.

Lemma run_state_facts cs :
  g_state (run_state cs) = s_SAFE /\ g_pre (run_state cs) = [] /\ g_lines (run_state cs) = cs
  /\ g_post (run_state cs) = [].
Proof. destruct cs; repeat split; reflexivity. Qed.

Lemma run_state_snoc cs l : run_state (cs ++ [l]) = mkG false s_SAFE [] (cs ++ [l]) [].
Proof. destruct cs; reflexivity. Qed.

Lemma gap_line_inv l : gap_line l = true -> comment_line l = true \/ ws_line l = true.
Proof. unfold gap_line. intros H. apply orb_true_iff in H. exact H. Qed.

Lemma gap_line_ignorable l : gap_line l = true -> ignorable_line l = true.
Proof.
  intros H. unfold ignorable_line. destruct (gap_line_inv l H) as [Hc|Hw].
  - unfold comment_line, is_comment in Hc. apply andb_true_iff in Hc. destruct Hc as [Hc _].
    change (startswith [35] l) with (startswith [HASH] l) in Hc. now rewrite Hc.
  - now rewrite (ws_line_blank_ws _ Hw), orb_true_r.
Qed.

Lemma gap_lines_ignorable cs : forallb gap_line cs = true -> forallb ignorable_line cs = true.
Proof. apply forallb_impl. apply gap_line_ignorable. Qed.

(** under whitespace-separates-paragraphs=False a non-empty whitespace-only line
    after the first line of a block is an ordinary payload line for the splitter *)
Lemma consume_ws_join cs c r rest :
  ws_line (c :: r) = true -> cs <> [] ->
  consume false false false (mkG false s_SAFE [] cs []) ((c :: r) :: rest)
  = consume false false false (mkG false s_SAFE [] (cs ++ [c :: r]) []) rest.
Proof.
  intros Hw Hcs. rewrite consume_cons. cbn [andb]. unfold gpg_step.
  rewrite (strip_crlf_id _ (ws_line_no_linebreak _ Hw)). cbn [g_first andb g_state g_pre g_lines g_post].
  rewrite (match_gpgre_nodash _ (ws_line_not_dashes _ Hw)).
  replace (str_eqb s_SAFE s_SAFE) with true by reflexivity.
  assert (Hb : blank_line false (c :: r) = false).
  { cbn [blank_line blank_nows]. destruct r; [|reflexivity].
    cbn [ws_line forallb] in Hw. rewrite andb_true_r in Hw. unfold is_sp_tab in Hw.
    apply orb_true_iff in Hw. destruct Hw as [Hw|Hw]; apply N.eqb_eq in Hw; subst c; reflexivity. }
  now rewrite Hb.
Qed.

(** a gap is swallowed, whatever run precedes it; the fuel stays above what is
    still to be read *)
Lemma gap_from ws gap : forall cs X f,
  forallb gap_line gap = true -> forallb gap_line cs = true ->
  (length cs + length (gap ++ X) <= f)%nat ->
  exists cs' f',
    forallb gap_line cs' = true /\ (length cs' + length X <= f')%nat
    /\ gpgmv_from f ws cs (gap ++ X) = gpgmv_from f' ws cs' X.
Proof.
  induction gap as [|l gap IH]; intros cs X f Hgap Hcs Hf.
  - exists cs, f. now repeat split.
  - cbn [forallb] in Hgap. apply andb_true_iff in Hgap. destruct Hgap as [Hl Hgap].
    cbn [app length] in *. destruct (run_state_facts cs) as (Hst & Hpre & Hlines & Hpost).
    assert (Hjoin : gpgmv_from f ws cs (l :: gap ++ X) = gpgmv_from f ws (cs ++ [l]) (gap ++ X) ->
                    exists cs' f', forallb gap_line cs' = true /\ (length cs' + length X <= f')%nat
                      /\ gpgmv_from f ws cs (l :: gap ++ X) = gpgmv_from f' ws cs' X).
    { intros E. rewrite E. apply IH; [exact Hgap| |rewrite app_length; cbn [length]; lia].
      rewrite forallb_app, Hcs. cbn [forallb]. now rewrite Hl. }
    destruct (gap_line_inv l Hl) as [Hc|Hw].
    + (* a comment line joins the run *)
      apply Hjoin. unfold gpgmv_from.
      rewrite consume_raw_one by (exact Hst || now apply comment_line_raw_safe).
      rewrite Hpre, Hlines, Hpost, run_state_snoc.
      replace (is_nil (cs ++ [l])) with false by (destruct cs; reflexivity). reflexivity.
    + destruct cs as [|c0 cs0].
      * (* blank line before anything: skipped *)
        assert (E : gpgmv_from f ws [] (l :: gap ++ X) = gpgmv_from f ws [] (gap ++ X)).
        { unfold gpgmv_from. cbn [run_state is_nil]. now rewrite consume_lead_one by (reflexivity || exact Hw). }
        rewrite E. apply IH; [exact Hgap|reflexivity|cbn [length] in *; lia].
      * assert (Hbreak : sep_line ws l = true ->
                  exists cs' f', forallb gap_line cs' = true /\ (length cs' + length X <= f')%nat
                    /\ gpgmv_from f ws (c0 :: cs0) (l :: gap ++ X) = gpgmv_from f' ws cs' X).
        { (* a separator after the run: a block of ignorable lines only; next round *)
          intros Hs. destruct f as [|f]; [cbn [length] in Hf; lia|].
          assert (E : gpgmv_from (S f) ws (c0 :: cs0) (l :: gap ++ X) = gpgmv_from f ws [] (gap ++ X)).
          { unfold gpgmv_from at 1. cbn [run_state is_nil]. rewrite consume_sep by exact Hs.
            cbn [g_lines g_pre is_nil andb]. rewrite (gap_lines_ignorable _ Hcs). apply gpgmv_split_from. }
          rewrite E. apply IH; [exact Hgap|reflexivity|cbn [length] in *; lia]. }
        destruct ws; [apply Hbreak; exact Hw|].
        destruct l as [|c r]; [apply Hbreak; reflexivity|].
        (* whitespace-only, not empty, strict setting False: it joins the run *)
        apply Hjoin. unfold gpgmv_from. cbn [run_state is_nil].
        rewrite consume_ws_join by (exact Hw || discriminate).
        replace (is_nil ((c0 :: cs0) ++ [c :: r])) with false by reflexivity. reflexivity.
Qed.

(** * One commented block *)

Lemma filter_comments_nil ls : forallb comment_line ls = true -> filter not_comment ls = [].
Proof.
  induction ls as [|l ls IH]; [reflexivity|]. cbn [forallb filter]. intros H.
  apply andb_true_iff in H. destruct H as [Hl Hls]. unfold comment_line in Hl.
  apply andb_true_iff in Hl. destruct Hl as [Hc _]. unfold not_comment. rewrite Hc. cbn [negb].
  now apply IH.
Qed.

(** the non-comment lines of a run are whitespace-only lines *)
Lemma filter_run_ws cs : forallb gap_line cs = true -> forallb ws_line (filter not_comment cs) = true.
Proof.
  intros H. apply forallb_forall. intros x Hx. apply filter_In in Hx. destruct Hx as [Hx Hnc].
  rewrite forallb_forall in H. destruct (gap_line_inv x (H x Hx)) as [Hc|Hw]; [|exact Hw].
  unfold comment_line in Hc. apply andb_true_iff in Hc. destruct Hc as [Hc _].
  unfold not_comment in Hnc. rewrite Hc in Hnc. discriminate.
Qed.

Lemma commented_body_raw_safe body d :
  valid_para d = true -> forallb no_linebreak body = true ->
  filter not_comment body = para_lines d -> forallb raw_safe body = true.
Proof.
  intros Hv Hnl Hf. pose proof (para_lines_safe d Hv) as Hs. rewrite <- Hf in Hs.
  rewrite forallb_forall in *. intros l Hl.
  destruct (is_comment l) eqn:Ec.
  - apply comment_line_raw_safe. unfold comment_line. now rewrite Ec, (Hnl l Hl).
  - apply safe_line_raw_safe. apply Hs. apply filter_In. split; [exact Hl|].
    unfold not_comment. now rewrite Ec.
Qed.

(** Deb822.__init__ on leading blank lines and the lines of a paragraph *)
Lemma deb822_init_lead_payload ws lead d :
  forallb ws_line lead = true -> valid_para d = true -> d <> [] ->
  fst (deb822_init ws (lead ++ para_lines d)) = Ok (expected_para d).
Proof.
  intros Hlead Hv Hne. pose (b := mkBlock d None []).
  assert (Hb : valid_block ws true b = true).
  { unfold valid_block. cbn [b b_para b_armor b_seps]. rewrite Hv.
    destruct d; [congruence|reflexivity]. }
  destruct (init_of_block CDeb822 ws true lead b [] Hlead Hb) as (E & _); [reflexivity|].
  unfold block_lines, after_block in E. cbn [b b_para b_armor b_seps wrap_lines app init_of] in E.
  rewrite !app_nil_r in E. now rewrite E.
Qed.

(** Deb822.__init__ on a payload that still contains the run and the comment lines *)
Lemma deb822_init_commented ws cs body d :
  valid_para d = true -> d <> [] -> forallb gap_line cs = true ->
  filter not_comment body = para_lines d ->
  fst (deb822_init ws (cs ++ body)) = Ok (expected_para d).
Proof.
  intros Hv Hne Hcs Hf. rewrite deb822_init_comments, filter_app, Hf.
  apply deb822_init_lead_payload; [now apply filter_run_ws|exact Hv|exact Hne].
Qed.

Lemma body_nonnil body d : d <> [] -> filter not_comment body = para_lines d -> body <> [].
Proof.
  intros Hne Hf Hb. subst body. cbn in Hf. symmetry in Hf. now apply (para_lines_nonnil d Hne).
Qed.

(** a payload that contains a line of a valid paragraph does not look like a
    block of ignorable lines *)
Lemma not_all_ignorable cs body d :
  valid_para d = true -> d <> [] -> filter not_comment body = para_lines d ->
  forallb ignorable_line (cs ++ body) = false.
Proof.
  intros Hv Hne Hf. pose proof (para_lines_safe d Hv) as Hs. pose proof (para_lines_nonnil d Hne) as Hn.
  destruct (para_lines d) as [|x P] eqn:EP; [congruence|].
  assert (Hin : In x body).
  { assert (H : In x (filter not_comment body)) by (rewrite Hf; now left). apply filter_In in H. tauto. }
  cbn [forallb] in Hs. apply andb_true_iff in Hs. destruct Hs as [Hx _].
  destruct (forallb ignorable_line (cs ++ body)) eqn:E; [|reflexivity].
  rewrite forallb_forall in E. pose proof (safe_line_not_ignorable x Hx) as Hni.
  rewrite (E x) in Hni; [discriminate|]. apply in_or_app. now right.
Qed.

Lemma valid_cblock_inv ws last cb :
  valid_cblock ws last cb = true ->
  valid_para (cb_para cb) = true /\ cb_para cb <> []
  /\ forallb no_linebreak (cb_body cb) = true
  /\ filter not_comment (cb_body cb) = para_lines (cb_para cb)
  /\ forallb gap_line (cb_gap cb) = true
  /\ match cb_armor cb with
     | None => (last = true /\ cb_gap cb = [])
               \/ exists s more, cb_gap cb = s :: more /\ sep_line ws s = true
     | Some a => valid_armor ws a = true
     end.
Proof.
  unfold valid_cblock. intros H.
  apply andb_true_iff in H. destruct H as [H H6]. apply andb_true_iff in H. destruct H as [H H5].
  apply andb_true_iff in H. destruct H as [H H4]. apply andb_true_iff in H. destruct H as [H H3].
  apply andb_true_iff in H. destruct H as [H1 H2].
  split; [exact H1|]. split; [destruct (cb_para cb); discriminate|].
  split; [exact H3|]. split; [now apply strs_eqb_eq|]. split; [exact H5|].
  destruct (cb_armor cb) as [a|]; [exact H6|].
  destruct (cb_gap cb) as [|s more]; [left; now split|right; now exists s, more].
Qed.

(** what is left of the iterator behind a block *)
Definition after_cblock (cb : cblock) (tail : list str) : list str :=
  match cb_armor cb with
  | None => match cb_gap cb with [] => tail | _ :: more => more ++ tail end
  | Some _ => cb_gap cb ++ tail
  end.

(** from any run, the splitter returns the run and the block's payload (with
    whatever comment lines it contains) and stops behind the first blank line /
    the END line; the fuel does not matter *)
Lemma block_from ws last f cs cb tail :
  forallb gap_line cs = true -> valid_cblock ws last cb = true -> (last = true -> tail = []) ->
  gpgmv_from f ws cs (cblock_lines cb ++ tail) = (Ok (cs ++ cb_body cb), after_cblock cb tail).
Proof.
  intros Hcs Hcb Htail.
  destruct (valid_cblock_inv ws last cb Hcb) as (Hv & Hne & Hnl & Hf & Hgap & Hshape).
  pose proof (commented_body_raw_safe _ _ Hv Hnl Hf) as Hbody.
  pose proof (body_nonnil _ _ Hne Hf) as Hbne.
  destruct (run_state_facts cs) as (Hst & Hpre & Hlines & Hpost).
  pose proof (not_all_ignorable cs _ _ Hv Hne Hf) as Hnot.
  assert (Hcsb : cs ++ cb_body cb <> []).
  { intros E. apply app_eq_nil in E. tauto. }
  unfold gpgmv_from, cblock_lines, after_cblock. destruct (cb_armor cb) as [a|]; cbn [wrap_lines].
  - (* signed *)
    rewrite <- app_assoc.
    destruct (consume_armor_raw ws (is_nil cs) (run_state cs) a (cb_body cb) (cb_gap cb ++ tail)
                Hshape Hbody Hst) as (g2 & E2 & Hl2).
    rewrite E2, Hl2, Hlines.
    destruct (cs ++ cb_body cb) as [|l0 ls0] eqn:E; [congruence|].
    now rewrite Hnot, andb_false_r.
  - (* unsigned *)
    rewrite <- app_assoc.
    destruct (consume_raw ws (cb_body cb) (is_nil cs) (run_state cs) (cb_gap cb ++ tail) Hbody Hst)
      as (ab2 & g2 & E2 & Hst2 & Hp2 & Hl2 & Hpo2 & Hflags & _).
    rewrite E2. destruct (Hflags Hbne) as [-> Hfirst2].
    assert (Eg2 : g2 = mkG false s_SAFE [] (cs ++ cb_body cb) []).
    { rewrite Hpre in Hp2. rewrite Hlines in Hl2. rewrite Hpost in Hpo2.
      destruct g2 as [f2 st2 pre2 lines2 post2]. cbn [g_first g_state g_pre g_lines g_post] in *.
      now subst. }
    rewrite Eg2. destruct Hshape as [[Hl Hnil]|(s & more & Eg & Hs)].
    + rewrite Hnil, (Htail Hl). cbn [app consume g_lines g_pre is_nil andb].
      destruct (cs ++ cb_body cb) as [|l0 ls0] eqn:E; [congruence|]. now rewrite Hnot.
    + rewrite Eg. cbn [app]. rewrite consume_sep by exact Hs. cbn [g_lines g_pre is_nil andb].
      destruct (cs ++ cb_body cb) as [|l0 ls0] eqn:E; [congruence|]. now rewrite Hnot.
Qed.

(** Dsc(iterator) positioned in front of a gap and a block *)
Theorem gpgmv_init_cblock ws last lead cb tail :
  forallb gap_line lead = true -> valid_cblock ws last cb = true -> (last = true -> tail = []) ->
  gpgmv_init ws (lead ++ cblock_lines cb ++ tail)
  = (Ok (expected_para (cb_para cb)), after_cblock cb tail).
Proof.
  intros Hlead Hcb Htail. unfold gpgmv_init. rewrite gpgmv_split_from.
  destruct (gap_from ws lead [] (cblock_lines cb ++ tail) (length (lead ++ cblock_lines cb ++ tail))
              Hlead eq_refl (le_n _)) as (cs' & f' & Hcs' & _ & E).
  rewrite E, (block_from ws last f' cs' cb tail Hcs' Hcb Htail). cbn [bind]. f_equal.
  destruct (valid_cblock_inv ws last cb Hcb) as (Hv & Hne & _ & Hf & _).
  now apply deb822_init_commented.
Qed.

(** ... in front of a gap and nothing else *)
Theorem gpgmv_init_gap ws lead :
  forallb gap_line lead = true -> gpgmv_init ws lead = (Ok [], []).
Proof.
  intros Hlead. unfold gpgmv_init. rewrite gpgmv_split_from.
  destruct (gap_from ws lead [] [] (length lead) Hlead eq_refl) as (cs' & f' & Hcs' & Hf' & E).
  { rewrite app_nil_r. cbn [length]. lia. }
  rewrite app_nil_r in E. rewrite E. unfold gpgmv_from. cbn [consume].
  destruct (run_state_facts cs') as (_ & Hpre & Hlines & _). rewrite Hlines, Hpre.
  destruct cs' as [|c0 cs0]; [reflexivity|]. cbn [is_nil andb].
  rewrite (gap_lines_ignorable _ Hcs'). destruct f' as [|f']; [cbn [length] in Hf'; lia|]. reflexivity.
Qed.

(** * Documents with comment lines, read by Dsc/Changes *)

Lemma after_cblock_shape ws cb cbs :
  valid_cblock ws (is_nil' cbs) cb = true ->
  exists lead',
    after_cblock cb (concat (map cblock_lines cbs)) = cdoc_lines lead' cbs
    /\ forallb gap_line lead' = true.
Proof.
  intros Hcb. destruct (valid_cblock_inv _ _ _ Hcb) as (_ & _ & _ & _ & Hgap & Hshape).
  unfold after_cblock, cdoc_lines. destruct (cb_armor cb) as [a|].
  - now exists (cb_gap cb).
  - destruct Hshape as [[Hl Hnil]|(s & more & Eg & Hs)].
    + rewrite Hnil. now exists [].
    + rewrite Eg in *. cbn [forallb] in Hgap. apply andb_true_iff in Hgap. now exists more.
Qed.

Theorem iter_lines_cdoc ws cbs : forall lead,
  forallb gap_line lead = true -> valid_cblocks ws cbs = true ->
  iter_lines CGpgMv ws (cdoc_lines lead cbs)
  = Ok (map (fun cb => expected_para (cb_para cb)) cbs).
Proof.
  induction cbs as [|cb cbs IH]; intros lead Hlead Hcbs.
  - unfold cdoc_lines. cbn [map concat]. rewrite app_nil_r. unfold iter_lines. cbn [iter_loop init_of].
    now rewrite gpgmv_init_gap.
  - cbn [valid_cblocks] in Hcbs. apply andb_true_iff in Hcbs. destruct Hcbs as [Hcb Hcbs].
    unfold cdoc_lines. cbn [map concat].
    assert (E : init_of CGpgMv ws (lead ++ cblock_lines cb ++ concat (map cblock_lines cbs))
                = (Ok (expected_para (cb_para cb)), after_cblock cb (concat (map cblock_lines cbs)))).
    { cbn [init_of]. apply (gpgmv_init_cblock ws (is_nil' cbs)); try assumption.
      intros Hl. destruct cbs; [reflexivity|discriminate]. }
    destruct (valid_cblock_inv _ _ _ Hcb) as (_ & Hne & _).
    rewrite (iter_lines_step _ _ _ _ _ E) by now apply expected_para_nonnil.
    destruct (after_cblock_shape ws cb cbs Hcb) as (lead' & -> & Hlead').
    rewrite IH by assumption. reflexivity.
Qed.
