(** C02 proofs, part 5: Dsc/Changes ([CGpgMv]) and comment lines.

    _gpg_multivalued.__init__ runs split_gpg_and_payload on the RAW lines
    (comment lines included) and only then hands the payload to Deb822.__init__,
    which filters comments.  So for these classes a comment line is an ordinary
    non-blank line while the paragraph is being delimited.  Consequence proved
    here: comment lines anywhere INSIDE a block (before its first line, between
    its lines, among the armour header or signature lines) are ignored; what is
    not ignored - a block of comment lines closed by a blank line - is outside
    [valid_cblocks]. *)
From Coq Require Import Lia ZifyBool.
From Verif Require Import Lib.Base Lib.PyStr Gen.PyChars Deb822.Model Deb822.Spec
  Deb822.ProofsStr Deb822.ProofsParse Deb822.ProofsConsume Deb822.Proofs.

Local Open Scope N_scope.

(** * Raw-safe lines: what the raw splitter appends to the payload *)

Definition raw_safe (l : str) : bool :=
  no_linebreak l && negb (blank_ws l) && negb (startswith s_dashes l).

Lemma raw_safe_inv l :
  raw_safe l = true ->
  no_linebreak l = true /\ blank_ws l = false /\ startswith s_dashes l = false.
Proof.
  unfold raw_safe. intros H.
  apply andb_true_iff in H. destruct H as [H H3]. apply andb_true_iff in H. destruct H as [H1 H2].
  apply negb_true_iff in H2, H3. tauto.
Qed.

Lemma safe_line_raw_safe l : safe_line l = true -> raw_safe l = true.
Proof.
  intros H. destruct (safe_line_inv l H) as (H1 & _ & H3 & H4). unfold raw_safe.
  now rewrite H1, H3, H4.
Qed.

Lemma comment_line_raw_safe l : comment_line l = true -> raw_safe l = true.
Proof.
  unfold comment_line, is_comment. intros H. apply andb_true_iff in H. destruct H as [Hc Hn].
  unfold raw_safe. rewrite Hn. destruct l as [|c r]; [discriminate|].
  cbn [startswith] in Hc. apply andb_true_iff in Hc. destruct Hc as [Hc _].
  apply N.eqb_eq in Hc. subst c. reflexivity.
Qed.

Lemma gpg_step_raw_safe ws g l :
  raw_safe l = true -> g_state g = s_SAFE ->
  gpg_step ws g l = (mkG false s_SAFE (g_pre g) (g_lines g ++ [l]) (g_post g), false).
Proof.
  intros Hl Hst. destruct (raw_safe_inv l Hl) as (Hnl & Hb & Hd).
  unfold gpg_step. rewrite (strip_crlf_id _ Hnl), Hb, andb_false_r.
  rewrite (match_gpgre_nodash _ Hd), Hst.
  replace (str_eqb s_SAFE s_SAFE) with true by reflexivity.
  now rewrite (not_blank_ws_line ws _ Hb).
Qed.

Lemma consume_raw_one ws ab g l rest :
  raw_safe l = true -> g_state g = s_SAFE ->
  consume false ws ab g (l :: rest)
  = consume false ws false (mkG false s_SAFE (g_pre g) (g_lines g ++ [l]) (g_post g)) rest.
Proof.
  intros Hl Hst. rewrite consume_cons. cbn [andb]. now rewrite gpg_step_raw_safe.
Qed.

Lemma consume_raw ws ls : forall ab g rest,
  forallb raw_safe ls = true -> g_state g = s_SAFE ->
  exists ab' g',
    consume false ws ab g (ls ++ rest) = consume false ws ab' g' rest
    /\ g_state g' = s_SAFE /\ g_pre g' = g_pre g /\ g_lines g' = g_lines g ++ ls
    /\ g_post g' = g_post g /\ (ls <> [] -> ab' = false /\ g_first g' = false)
    /\ (ls = [] -> ab' = ab /\ g' = g).
Proof.
  induction ls as [|l ls IH]; intros ab g rest H Hst.
  - exists ab, g. rewrite app_nil_r. repeat split; try reflexivity; try assumption; congruence.
  - cbn [forallb] in H. apply andb_true_iff in H. destruct H as [Hl Hls].
    cbn [app]. rewrite consume_raw_one by assumption.
    destruct (IH false (mkG false s_SAFE (g_pre g) (g_lines g ++ [l]) (g_post g)) rest Hls eq_refl)
      as (ab' & g' & E & H1 & H2 & H3 & H4 & H5 & H6).
    exists ab', g'. cbn [g_pre g_lines g_post] in *. rewrite E.
    repeat split; try assumption.
    + rewrite H3, <- app_assoc. reflexivity.
    + destruct ls as [|l2 ls2]; [|apply H5; discriminate]. destruct (H6 eq_refl) as [-> _]. reflexivity.
    + destruct ls as [|l2 ls2]; [|apply H5; discriminate]. destruct (H6 eq_refl) as [_ ->]. reflexivity.
    + discriminate.
    + discriminate.
Qed.

(** * The envelope, from any SAFE state, raw-safe payload *)

Lemma consume_hdr' skip ws hdr : forall pre lines post rest,
  forallb armor_text_line hdr = true ->
  exists pre',
    consume skip ws false (mkG false s_SIGNED_MESSAGE pre lines post) (hdr ++ rest)
    = consume skip ws false (mkG false s_SIGNED_MESSAGE pre' lines post) rest.
Proof.
  induction hdr as [|h hdr IH]; intros pre lines post rest H.
  - now exists pre.
  - cbn [forallb] in H. apply andb_true_iff in H. destruct H as [Hh Hhdr].
    destruct (armor_text_line_inv h Hh) as (Hnl & Hb & Hd).
    cbn [app]. rewrite consume_cons. rewrite andb_false_r. cbn [andb].
    destruct (skip && startswith [HASH] h); [now apply IH|].
    unfold gpg_step. rewrite (strip_crlf_id _ Hnl). cbn [g_first andb g_state g_pre g_lines g_post].
    rewrite (match_gpgre_nodash _ Hd).
    replace (str_eqb s_SIGNED_MESSAGE s_SAFE) with false by reflexivity.
    replace (str_eqb s_SIGNED_MESSAGE s_SIGNED_MESSAGE) with true by reflexivity.
    rewrite (not_blank_ws_line ws _ Hb). now apply IH.
Qed.

Lemma gpg_step_begin' ws g s w what :
  armor_const s = true -> armor_pad w = true ->
  match_gpgre (s ++ w) = Some (true, what) ->
  exists pre post, gpg_step ws g (s ++ w) = (mkG false what pre (g_lines g) post, false).
Proof.
  intros Hs Hw Hm. destruct (gpg_step_begin ws g s w what Hs Hw Hm) as (pre & post & E & _).
  now exists pre, post.
Qed.

Theorem consume_armor_raw ws ab g a body rest :
  valid_armor ws a = true -> forallb raw_safe body = true -> g_state g = s_SAFE ->
  exists g', consume false ws ab g (armor_lines a body ++ rest) = (g', rest)
             /\ g_lines g' = g_lines g ++ body.
Proof.
  intros Ha Hbody Hst.
  destruct (valid_armor_inv ws a Ha) as (Hw1 & Hw2 & Hw3 & Hhdr & Hbl & Hsig).
  rewrite armor_lines_eq. cbn [app].
  rewrite consume_armor_line by (exact armor_const_begin_signed || assumption).
  destruct (gpg_step_begin' ws g _ _ _ armor_const_begin_signed Hw1
              (match_gpgre_begin_signed _ Hw1)) as (pre1 & post1 & E1).
  rewrite E1. rewrite <- app_assoc.
  destruct (consume_hdr' false ws (a_hdr a) pre1 (g_lines g) post1
              ((a_blank a :: body ++ (s_begin_signature ++ a_w2 a) :: a_sig a ++ [s_end_signature ++ a_w3 a]) ++ rest)
              Hhdr) as (pre2 & E2).
  rewrite E2. cbn [app]. rewrite consume_hdr_blank by exact Hbl.
  rewrite <- app_assoc.
  match goal with |- context [consume false ws false ?g0 (body ++ ?X)] =>
    destruct (consume_raw ws body false g0 X Hbody eq_refl) as (ab3 & g3 & E3 & Hst3 & _ & Hl3 & _)
  end.
  rewrite E3. cbn [app g_lines] in *.
  rewrite consume_armor_line by (exact armor_const_begin_signature || assumption).
  destruct (gpg_step_begin' ws g3 _ _ _ armor_const_begin_signature Hw2
              (match_gpgre_begin_signature _ Hw2)) as (pre4 & post4 & E4).
  rewrite E4. rewrite <- app_assoc.
  destruct (consume_sig false ws (a_sig a) pre4 (g_lines g3) post4 (@app str [s_end_signature ++ a_w3 a] rest) Hsig)
    as (post5 & E5).
  rewrite E5. cbn [app].
  rewrite consume_armor_line by (exact armor_const_end_signature || assumption).
  destruct (armor_line_facts _ _ armor_const_end_signature Hw3) as (Hnl & _ & Hb & _).
  unfold gpg_step. rewrite (strip_crlf_id _ Hnl). cbn [g_first andb].
  rewrite (match_gpgre_end_signature _ Hw3).
  eexists. split; [reflexivity|]. cbn [g_lines]. exact Hl3.
Qed.

(** * One commented block *)

Lemma filter_comments_nil ls : forallb comment_line ls = true -> filter not_comment ls = [].
Proof.
  induction ls as [|l ls IH]; [reflexivity|]. cbn [forallb filter]. intros H.
  apply andb_true_iff in H. destruct H as [Hl Hls]. unfold comment_line in Hl.
  apply andb_true_iff in Hl. destruct Hl as [Hc _]. unfold not_comment. rewrite Hc. cbn [negb].
  now apply IH.
Qed.

Lemma commented_body_raw_safe body d :
  valid_para d = true -> forallb no_linebreak body = true ->
  filter not_comment body = para_lines d -> forallb raw_safe body = true.
Proof.
  intros Hv Hnl Hf. pose proof (para_lines_safe d Hv) as Hs. rewrite <- Hf in Hs.
  rewrite forallb_forall in *. intros l Hl.
  destruct (is_comment l) eqn:Ec.
  - apply comment_line_raw_safe. unfold comment_line. now rewrite Ec, (Hnl l Hl).
  - apply safe_line_raw_safe. apply Hs. apply filter_In. split; [exact Hl|].
    unfold not_comment. now rewrite Ec.
Qed.

(** Deb822.__init__ on a payload that still contains the comment lines *)
Lemma deb822_init_commented ws lines d :
  valid_para d = true -> d <> [] -> filter not_comment lines = para_lines d ->
  fst (deb822_init ws lines) = Ok (expected_para d).
Proof.
  intros Hv Hne Hf. rewrite deb822_init_comments, Hf.
  eapply deb822_init_payload; [exact Hv|exact Hne|reflexivity].
Qed.

Lemma valid_cblock_inv ws last cb :
  valid_cblock ws last cb = true ->
  valid_para (cb_para cb) = true /\ cb_para cb <> []
  /\ forallb comment_line (cb_pre cb) = true
  /\ forallb no_linebreak (cb_body cb) = true
  /\ filter not_comment (cb_body cb) = para_lines (cb_para cb)
  /\ match cb_armor cb with
     | None => valid_seps ws (cb_seps cb) = true \/ (last = true /\ cb_seps cb = [])
     | Some a => valid_armor ws a = true /\ forallb ws_line (cb_seps cb) = true
     end.
Proof.
  unfold valid_cblock. intros H.
  apply andb_true_iff in H. destruct H as [H H6]. apply andb_true_iff in H. destruct H as [H H5].
  apply andb_true_iff in H. destruct H as [H H4]. apply andb_true_iff in H. destruct H as [H H3].
  apply andb_true_iff in H. destruct H as [H1 H2].
  split; [exact H1|]. split; [destruct (cb_para cb); discriminate|].
  split; [exact H3|]. split; [exact H4|]. split; [now apply strs_eqb_eq|].
  destruct (cb_armor cb) as [a|].
  - apply andb_true_iff in H6. exact H6.
  - apply orb_true_iff in H6. destruct H6 as [H6|H6]; [now left|right].
    apply andb_true_iff in H6. destruct H6 as [-> H6]. destruct (cb_seps cb); [tauto|discriminate].
Qed.

Definition after_cblock (cb : cblock) (tail : list str) : list str :=
  match cb_armor cb with
  | None => match cb_seps cb with [] => [] | _ :: more => more ++ tail end
  | Some _ => cb_seps cb ++ tail
  end.

Lemma body_nonnil body d : d <> [] -> filter not_comment body = para_lines d -> body <> [].
Proof.
  intros Hne Hf Hb. subst body. cbn in Hf. symmetry in Hf. now apply (para_lines_nonnil d Hne).
Qed.

(** [tail]: what follows the block; when the block is the last one, only
    comment lines may follow. *)
Theorem gpgmv_init_cblock ws last lead cb tail :
  forallb ws_line lead = true -> valid_cblock ws last cb = true ->
  (last = true -> forallb comment_line tail = true) ->
  gpgmv_init ws (lead ++ cblock_lines cb ++ tail)
  = (Ok (expected_para (cb_para cb)), after_cblock cb tail).
Proof.
  intros Hlead Hcb Htail.
  destruct (valid_cblock_inv ws last cb Hcb) as (Hv & Hne & Hpre & Hnl & Hf & Hshape).
  pose proof (commented_body_raw_safe _ _ Hv Hnl Hf) as Hbody.
  pose proof (body_nonnil _ _ Hne Hf) as Hbne.
  pose proof (forallb_impl _ _ _ comment_line_raw_safe Hpre) as Hpre'.
  unfold gpgmv_init, cblock_lines, after_cblock.
  rewrite consume_lead by (reflexivity || assumption).
  rewrite <- app_assoc.
  destruct (consume_raw ws (cb_pre cb) true gpg_init
              ((wrap_lines (cb_armor cb) (cb_body cb) ++ cb_seps cb) ++ tail) Hpre' eq_refl)
    as (ab1 & g1 & E1 & Hst1 & Hp1 & Hl1 & Hpo1 & _ & _).
  rewrite E1. cbn [gpg_init g_pre g_lines g_post app] in Hp1, Hl1, Hpo1.
  assert (Hfilt : filter not_comment (cb_pre cb ++ cb_body cb) = para_lines (cb_para cb)).
  { rewrite filter_app, (filter_comments_nil _ Hpre). exact Hf. }
  destruct (cb_armor cb) as [a|]; cbn [wrap_lines].
  - (* signed *)
    destruct Hshape as [Ha Hseps]. rewrite <- app_assoc.
    destruct (consume_armor_raw ws ab1 g1 a (cb_body cb) (cb_seps cb ++ tail) Ha Hbody Hst1)
      as (g2 & E2 & Hl2).
    rewrite E2. rewrite Hl2, Hl1. f_equal.
    now apply deb822_init_commented.
  - (* unsigned *)
    rewrite <- app_assoc.
    destruct (consume_raw ws (cb_body cb) ab1 g1 (cb_seps cb ++ tail) Hbody Hst1)
      as (ab2 & g2 & E2 & Hst2 & Hp2 & Hl2 & Hpo2 & Hflags & _).
    rewrite E2. destruct (Hflags Hbne) as [-> Hfirst2].
    assert (Eg2 : g2 = mkG false s_SAFE [] (cb_pre cb ++ cb_body cb) []).
    { rewrite Hp1 in Hp2. rewrite Hl1 in Hl2. rewrite Hpo1 in Hpo2.
      destruct g2 as [f2 st2 pre2 lines2 post2]. cbn [g_first g_state g_pre g_lines g_post] in *.
      now subst. }
    rewrite Eg2. destruct Hshape as [Hseps|[Hl Hnil]].
    + destruct (valid_seps_inv _ _ Hseps) as (s & more & -> & Hs1 & Hmore).
      cbn [app]. rewrite consume_sep by exact Hs1. cbn [g_lines]. f_equal.
      now apply deb822_init_commented.
    + rewrite Hnil. cbn [app].
      pose proof (forallb_impl _ _ _ comment_line_raw_safe (Htail Hl)) as Htl.
      destruct (consume_raw ws tail false (mkG false s_SAFE [] (cb_pre cb ++ cb_body cb) []) []
                  Htl eq_refl) as (ab3 & g3 & E3 & _ & _ & Hl3 & _).
      rewrite app_nil_r in E3. rewrite E3. cbn [consume].
      cbn [g_lines] in Hl3. rewrite Hl3. f_equal.
      apply deb822_init_commented; [exact Hv|exact Hne|].
      rewrite filter_app, (filter_comments_nil _ (Htail Hl)), app_nil_r. exact Hfilt.
Qed.

(** * Documents with comment lines, read by Dsc/Changes *)

Lemma gpgmv_init_trail ws lead trail :
  forallb ws_line lead = true -> forallb comment_line trail = true ->
  gpgmv_init ws (lead ++ trail) = (Ok [], []).
Proof.
  intros Hlead Htrail. unfold gpgmv_init.
  replace (lead ++ trail) with (lead ++ trail ++ []) by now rewrite app_nil_r.
  rewrite consume_lead by (reflexivity || assumption).
  pose proof (forallb_impl _ _ _ comment_line_raw_safe Htrail) as Hraw.
  destruct (consume_raw ws trail true gpg_init [] Hraw eq_refl) as (ab & g & E & _ & _ & Hl & _).
  rewrite E. cbn [consume]. cbn [gpg_init g_lines app] in Hl. rewrite Hl. f_equal.
  rewrite deb822_init_comments, (filter_comments_nil _ Htrail). reflexivity.
Qed.

Lemma after_cblock_shape ws cb cbs trail :
  valid_cblock ws (is_nil' cbs) cb = true ->
  exists lead' trail',
    after_cblock cb (concat (map cblock_lines cbs) ++ trail) = cdoc_lines lead' cbs trail'
    /\ forallb ws_line lead' = true
    /\ (forallb comment_line trail = true -> forallb comment_line trail' = true).
Proof.
  intros Hcb. destruct (valid_cblock_inv _ _ _ Hcb) as (_ & _ & _ & _ & _ & Hshape).
  unfold after_cblock, cdoc_lines. destruct (cb_armor cb) as [a|].
  - destruct Hshape as [_ Hseps]. now exists (cb_seps cb), trail.
  - destruct Hshape as [Hseps|[Hl Hnil]].
    + destruct (valid_seps_inv _ _ Hseps) as (s & more & -> & _ & Hmore). now exists more, trail.
    + rewrite Hnil. destruct cbs; [|discriminate]. exists [], []. now repeat split.
Qed.

Theorem iter_lines_cdoc ws cbs : forall lead trail,
  forallb ws_line lead = true -> valid_cblocks ws cbs = true ->
  forallb comment_line trail = true ->
  iter_lines CGpgMv ws (cdoc_lines lead cbs trail)
  = Ok (map (fun cb => expected_para (cb_para cb)) cbs).
Proof.
  induction cbs as [|cb cbs IH]; intros lead trail Hlead Hcbs Htrail.
  - unfold cdoc_lines. cbn [map concat app]. unfold iter_lines. cbn [iter_loop init_of].
    now rewrite gpgmv_init_trail.
  - cbn [valid_cblocks] in Hcbs. apply andb_true_iff in Hcbs. destruct Hcbs as [Hcb Hcbs].
    unfold cdoc_lines. cbn [map concat]. rewrite <- app_assoc.
    assert (E : init_of CGpgMv ws (lead ++ cblock_lines cb ++ concat (map cblock_lines cbs) ++ trail)
                = (Ok (expected_para (cb_para cb)),
                   after_cblock cb (concat (map cblock_lines cbs) ++ trail))).
    { cbn [init_of]. apply (gpgmv_init_cblock ws (is_nil' cbs)); try assumption.
      intros Hl. destruct cbs; [exact Htrail|discriminate]. }
    destruct (valid_cblock_inv _ _ _ Hcb) as (_ & Hne & _).
    rewrite (iter_lines_step _ _ _ _ _ E) by now apply expected_para_nonnil.
    destruct (after_cblock_shape ws cb cbs trail Hcb) as (lead' & trail' & -> & Hlead' & Htrail').
    rewrite IH by auto. reflexivity.
Qed.

(** every line of such a document is free of line-boundary characters *)
Lemma comment_line_no_linebreak l : comment_line l = true -> no_linebreak l = true.
Proof. unfold comment_line. intros H. apply andb_true_iff in H. tauto. Qed.

Lemma cblock_lines_no_linebreak ws last cb :
  valid_cblock ws last cb = true -> forallb no_linebreak (cblock_lines cb) = true.
Proof.
  intros H. destruct (valid_cblock_inv _ _ _ H) as (Hv & _ & Hpre & Hnl & _ & Hshape).
  unfold cblock_lines. rewrite !forallb_app.
  rewrite (forallb_impl _ _ _ comment_line_no_linebreak Hpre). cbn [andb].
  destruct (cb_armor cb) as [a|]; cbn [wrap_lines].
  - destruct Hshape as [Ha Hseps]. destruct (valid_armor_inv _ _ Ha) as (Hw1 & Hw2 & Hw3 & Hhdr & Hbl & Hsig).
    unfold armor_lines, armor_head, armor_tail. rewrite !forallb_app. cbn [forallb]. rewrite !forallb_app.
    cbn [forallb]. rewrite Hnl.
    rewrite !no_linebreak_app, (armor_pad_no_linebreak _ Hw1), (armor_pad_no_linebreak _ Hw2),
      (armor_pad_no_linebreak _ Hw3).
    rewrite (forallb_impl _ _ _ armor_text_line_no_linebreak Hhdr).
    rewrite (forallb_impl _ _ _ sig_line_no_linebreak Hsig).
    rewrite (ws_line_no_linebreak _ (sep_line_ws_line _ _ Hbl)).
    rewrite (forallb_impl _ _ _ ws_line_no_linebreak Hseps). reflexivity.
  - rewrite Hnl. destruct Hshape as [Hseps|[_ ->]]; [|reflexivity].
    destruct (valid_seps_inv _ _ Hseps) as (s & more & -> & Hs1 & Hmore). cbn [forallb].
    rewrite (ws_line_no_linebreak _ (sep_line_ws_line _ _ Hs1)).
    now rewrite (forallb_impl _ _ _ ws_line_no_linebreak Hmore).
Qed.

Lemma cdoc_lines_no_linebreak ws lead cbs trail :
  forallb ws_line lead = true -> valid_cblocks ws cbs = true -> forallb comment_line trail = true ->
  forallb no_linebreak (cdoc_lines lead cbs trail) = true.
Proof.
  intros Hlead H Htrail. unfold cdoc_lines. rewrite !forallb_app.
  rewrite (forallb_impl _ _ _ ws_line_no_linebreak Hlead).
  rewrite (forallb_impl _ _ _ comment_line_no_linebreak Htrail). rewrite andb_true_r. cbn [andb].
  induction cbs as [|cb cbs IH]; [reflexivity|]. cbn [valid_cblocks] in H.
  apply andb_true_iff in H. destruct H as [Hcb Hcbs]. cbn [map concat]. rewrite forallb_app.
  rewrite (cblock_lines_no_linebreak _ _ _ Hcb). now apply IH.
Qed.

(** comments_ignored for Dsc/Changes, in every input form *)
Theorem gpgmv_roundtrip_comments ws crlf lead cbs trail i :
  forallb ws_line lead = true -> valid_cblocks ws cbs = true -> forallb comment_line trail = true ->
  In i (forms_of crlf (cdoc_lines lead cbs trail)) ->
  iter_paragraphs CGpgMv ws i = Ok (map (fun cb => expected_para (cb_para cb)) cbs).
Proof.
  intros Hlead Hcbs Htrail Hi.
  rewrite (iter_paragraphs_forms _ _ crlf _ i (cdoc_lines_no_linebreak ws _ _ _ Hlead Hcbs Htrail) Hi).
  now apply iter_lines_cdoc.
Qed.
