(** Case format evaluated by the correspondence check of C02.
    [agree]: the model (Deb822/Model.v) reproduces what the implementation did.
    [holds]: the property, judged on what the implementation did, against
             Deb822/Spec.v (the generated field list with first lines trimmed). *)
From Coq Require Import String.
From Verif Require Import Lib.Base Lib.Dec Lib.PyStr Gen.PyChars Deb822.Model Deb822.Spec.

Definition sdict := list (string * string).
Definition dec_dict (d : sdict) : dict := map (fun kv => (dec (fst kv), dec (snd kv))) d.

Inductive case :=
| Doc (cls : N)                      (* 0 = Deb822, 1 = Dsc, 2 = Changes *)
      (ws_sep single : bool)         (* strict setting; cls(seq) instead of iter_paragraphs *)
      (form : N)                     (* 0 str, 1 bytes, 2 list with line ends, 3 list without,
                                        4 text file object, 5 binary file object, 6/7 lists of bytes lines *)
      (paras : option (list sdict))  (* generated paragraphs (name, value); None = malformed stream *)
      (dumps : list string)          (* what dump() returned for each generated paragraph *)
      (input : list string)          (* the object handed to the reader: [text] or the lines *)
      (obs : result (list sdict))
| Leaf (which : N) (line : string) (obs : option (list string))   (* 0 _single 1 _multi 2 _multidata 3 _gpgre *)
| Blank (line : string) (o_init o_ws o_nows : bool)
| Split (ws_sep : bool) (lines : list string)
        (obs : result (list string * list string * list string)) (nleft : N)
| Valid (v : string) (ok : bool).

Definition kv_eqb (a b : str * str) : bool := pair_eqb str_eqb str_eqb a b.
Definition dict_eqb : dict -> dict -> bool := list_eqb kv_eqb.
Definition dicts_eqb : list dict -> list dict -> bool := list_eqb dict_eqb.

Definition input_of (form : N) (input : list string) : Model.input :=
  let text := match input with t :: _ => dec t | [] => [] end in
  match form with
  | 0%N => InStr text
  | 1%N => InBytes text
  | 4%N | 5%N => InFile text
  | _ => InLines (map dec input)
  end.

Definition cls_of (c : N) : cls := match c with 0%N => CDeb822 | _ => CGpgMv end.

Definition model_doc (c : N) (ws_sep single : bool) (form : N) (input : list string)
  : result (list dict) :=
  if single then do d <- deb822_new (cls_of c) ws_sep (input_of form input); Ok [d]
  else iter_paragraphs (cls_of c) ws_sep (input_of form input).

Definition obs_dicts (o : result (list sdict)) : result (list dict) :=
  match o with Ok l => Ok (map dec_dict l) | Err e => Err e end.

Definition opt_strs_eqb (a b : option (list str)) : bool := option_eqb strs_eqb a b.

Definition model_leaf (which : N) (l : str) : option (list str) :=
  match which with
  | 0%N => match match_single l with Some (k, d) => Some [k; d] | None => None end
  | 1%N => match match_multi l with Some k => Some [k] | None => None end
  | 2%N => match match_multidata l with Some d => Some [d] | None => None end
  | _ => match match_gpgre l with
         | Some (b, w) => Some [(if b then s_BEGIN else s_END); w]
         | None => None
         end
  end.

Definition triple_eqb (a b : list str * list str * list str) : bool :=
  strs_eqb (fst (fst a)) (fst (fst b)) && strs_eqb (snd (fst a)) (snd (fst b))
  && strs_eqb (snd a) (snd b).

Definition agree (c : case) : bool :=
  match c with
  | Doc cl ws single form paras dumps input obs =>
      (match paras with
       | Some ps => strs_eqb (map (fun p => dump (dec_dict p)) ps) (map dec dumps)
       | None => true
       end)
      && result_eqb dicts_eqb (model_doc cl ws single form input) (obs_dicts obs)
  | Leaf which line obs =>
      opt_strs_eqb (model_leaf which (dec line))
                   (match obs with Some g => Some (map dec g) | None => None end)
  | Blank line oi ow on =>
      let l := dec line in
      Bool.eqb (blank_ws l) oi && Bool.eqb (blank_line true l) ow && Bool.eqb (blank_line false l) on
  | Split ws lines obs nleft =>
      let (r, rest) := split_gpg_and_payload ws (map dec lines) in
      result_eqb triple_eqb r
        (match obs with
         | Ok (a, b, c) => Ok (map dec a, map dec b, map dec c)
         | Err e => Err e
         end)
      && (N.of_nat (List.length rest) =? nleft)%N
  | Valid v ok => Bool.eqb (is_ok (validate_input (dec v))) ok
  end.

Definition holds (c : case) : bool :=
  match c with
  | Doc cl ws single form (Some ps) dumps input obs =>
      let ds := map dec_dict ps in
      if forallb valid_para ds && negb (existsb is_nil ds) then
        let exp := map expected_para ds in
        result_eqb dicts_eqb (obs_dicts obs) (Ok (if single then firstn 1 exp else exp))
      else true
  | _ => true
  end.

Definition bad_agree (cs : list case) : list N := bad agree cs.
Definition bad_holds (cs : list case) : list N := bad holds cs.
