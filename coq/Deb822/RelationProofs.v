(** Proofs for C13: parse_relations (rel_str r) = Ok (r, 0) on the domain
    [wf_rels] of Deb822/RelationSpec.v, for the model of Deb822/Relation.v.
    Induction over the structure (conjuncts, alternatives, architecture lists,
    restriction groups, the characters of every name) — no enumeration. *)
From Coq Require Import Lia ZifyBool.
From Verif Require Import Lib.Base Lib.PyStr Gen.PyChars Deb822.Relation Deb822.RelationSpec.

(** * Characters *)

Ltac unfold_classes :=
  cbv [ws nonws py_isspace in_ranges py_space_ranges existsb fst snd
       is_alnum name_char aq_char relop_char ver_char
       sp_alnum sp_name_char sp_archqual_char sp_relop_char sp_version_char sp_profile_char
       in_range in_chars BANG LPAR RPAR COMMA COLON LT GT LBRK RBRK PIPE SP LF] in *.

Lemma ws_SP : ws SP = true. Proof. reflexivity. Qed.
Lemma ws_LF : ws 10 = true. Proof. reflexivity. Qed.
Lemma ws_BANG : ws BANG = false. Proof. reflexivity. Qed.
Lemma ws_LPAR : ws LPAR = false. Proof. reflexivity. Qed.
Lemma ws_RPAR : ws RPAR = false. Proof. reflexivity. Qed.
Lemma ws_LBRK : ws LBRK = false. Proof. reflexivity. Qed.
Lemma ws_RBRK : ws RBRK = false. Proof. reflexivity. Qed.
Lemma ws_LT : ws LT = false. Proof. reflexivity. Qed.
Lemma ws_GT : ws GT = false. Proof. reflexivity. Qed.
Lemma ws_COLON : ws COLON = false. Proof. reflexivity. Qed.

Lemma sp_alnum_model c : sp_alnum c = is_alnum c.
Proof. reflexivity. Qed.
Lemma sp_name_char_model c : sp_name_char c = true -> name_char c = true.
Proof. unfold_classes. lia. Qed.
Lemma sp_archqual_char_model c : sp_archqual_char c = true -> aq_char c = true.
Proof. unfold_classes. lia. Qed.
Lemma sp_relop_char_model c : sp_relop_char c = true -> relop_char c = true.
Proof. unfold_classes. lia. Qed.
Lemma sp_version_char_model c : sp_version_char c = true -> ver_char c = true.
Proof. unfold_classes. lia. Qed.

Lemma is_alnum_name_char c : is_alnum c = true -> name_char c = true.
Proof. unfold_classes. lia. Qed.
Lemma is_alnum_aq_char c : is_alnum c = true -> aq_char c = true.
Proof. unfold_classes. lia. Qed.

(** what a class excludes: blanks and the two separators *)
Definition plain (c : N) : bool := negb (ws c) && negb (c =? COMMA)%N && negb (c =? PIPE)%N.
(** the same, blanks allowed *)
Definition nosep (c : N) : bool := negb (c =? COMMA)%N && negb (c =? PIPE)%N.

Lemma plain_nosep c : plain c = true -> nosep c = true.
Proof. unfold plain, nosep. destruct (ws c); simpl; [discriminate|auto]. Qed.
Lemma plain_nonws c : plain c = true -> ws c = false.
Proof. unfold plain. destruct (ws c); simpl; [discriminate|auto]. Qed.

Lemma name_char_plain c : name_char c = true -> plain c = true.
Proof. unfold plain. unfold_classes. lia. Qed.
Lemma aq_char_plain c : aq_char c = true -> plain c = true.
Proof. unfold plain. unfold_classes. lia. Qed.
Lemma relop_char_plain c : relop_char c = true -> plain c = true.
Proof. unfold plain. unfold_classes. lia. Qed.
Lemma ver_char_plain c : ver_char c = true -> plain c = true.
Proof. unfold plain. unfold_classes. lia. Qed.
Lemma sp_profile_char_plain c : sp_profile_char c = true -> plain c = true.
Proof. unfold plain. unfold_classes. lia. Qed.

Lemma sp_arch_char_plain c : sp_arch_char c = true -> plain c = true.
Proof.
  unfold sp_arch_char, plain. intros H. apply andb_true_iff in H. destruct H as [H1 H2].
  change (py_isspace c) with (ws c) in H2. rewrite H2. simpl.
  destruct (N.eqb_spec c COMMA) as [->|_]; [vm_compute in H1; discriminate|].
  destruct (N.eqb_spec c PIPE) as [->|_]; [vm_compute in H1; discriminate|]. reflexivity.
Qed.

Lemma sp_arch_char_archs c : sp_arch_char c = true -> archs_char c = true.
Proof.
  unfold sp_arch_char, archs_char. intros H. apply andb_true_iff in H. destruct H as [H1 _].
  apply orb_true_iff in H1. destruct H1 as [H1|H1].
  - rewrite H1. now rewrite !orb_true_r.
  - unfold in_chars in H1. simpl in H1. rewrite !orb_true_iff in H1.
    destruct H1 as [H1|[H1|H1]]; [| |discriminate]; rewrite H1; now rewrite ?orb_true_r.
Qed.

Lemma archs_char_SP : archs_char SP = true. Proof. reflexivity. Qed.
Lemma archs_char_BANG : archs_char BANG = true. Proof. reflexivity. Qed.
Lemma archs_char_RBRK : archs_char RBRK = false. Proof. vm_compute. reflexivity. Qed.

Lemma name_char_SP : name_char SP = false. Proof. reflexivity. Qed.
Lemma name_char_COLON : name_char COLON = false. Proof. reflexivity. Qed.
Lemma aq_char_SP : aq_char SP = false. Proof. reflexivity. Qed.
Lemma relop_char_SP : relop_char SP = false. Proof. reflexivity. Qed.
Lemma ver_char_RPAR : ver_char RPAR = false. Proof. reflexivity. Qed.

Lemma sp_profile_char_lower c : sp_profile_char c = true -> ascii_lower_char c = c.
Proof.
  unfold ascii_lower_char. intros H.
  destruct ((65 <=? c)%N && (c <=? 90)%N) eqn:E; [|reflexivity].
  unfold_classes. lia.
Qed.

(** the characters that parse_restrictions strips: '<' '>' ' ' *)
Definition edge (c : N) : bool := in_chars [LT; GT; SP] c.
Lemma sp_profile_char_edge c : sp_profile_char c = true -> edge c = false.
Proof. unfold edge. unfold_classes. lia. Qed.
Lemma sp_profile_char_notGT c : sp_profile_char c = true -> (c =? GT)%N = false.
Proof. unfold_classes. lia. Qed.
Lemma sp_profile_char_notLF c : sp_profile_char c = true -> (c =? 10)%N = false.
Proof. unfold_classes. lia. Qed.

(** * Lists: first and last character of a string *)

Section Ends.
Variable p : N -> bool.        (* the characters that must not be at an end *)

Definition starts_ok (s : str) : bool := match s with [] => true | c :: _ => negb (p c) end.
Fixpoint ends_ok (s : str) : bool :=
  match s with [] => true | [c] => negb (p c) | _ :: s' => ends_ok s' end.

Lemma starts_ok_dropwhile s : starts_ok s = true -> dropwhile p s = s.
Proof. destruct s as [|c s]; simpl; [reflexivity|]. now destruct (p c). Qed.

Lemma ends_ok_app a b : b <> [] -> ends_ok (a ++ b) = ends_ok b.
Proof.
  intros Hb. induction a as [|x a IH]; [reflexivity|].
  cbn [app ends_ok]. destruct (a ++ b) eqn:E; [|exact IH].
  destruct a; destruct b; simpl in E; congruence.
Qed.

Lemma ends_ok_app_nil a b : ends_ok a = true -> ends_ok b = true -> ends_ok (a ++ b) = true.
Proof.
  intros Ha Hb. destruct b as [|y b]; [now rewrite app_nil_r|].
  rewrite ends_ok_app by discriminate. exact Hb.
Qed.

Lemma ends_ok_snoc a c : ends_ok (a ++ [c]) = negb (p c).
Proof. rewrite ends_ok_app by discriminate. reflexivity. Qed.

Lemma ends_ok_rdropwhile s : ends_ok s = true -> rdropwhile p s = s.
Proof.
  destruct (rev s) as [|c r] eqn:E.
  - intros _. apply (f_equal (@rev N)) in E. rewrite rev_involutive in E. now subst.
  - assert (Hs : s = rev r ++ [c]).
    { apply (f_equal (@rev N)) in E. rewrite rev_involutive in E. exact E. }
    rewrite Hs. rewrite ends_ok_snoc. intros H. apply negb_true_iff in H.
    now apply rdropwhile_app_keep.
Qed.

Lemma dropwhile_all_nil b : forallb p b = true -> dropwhile p b = [].
Proof. intros H. rewrite <- (app_nil_r b). now rewrite dropwhile_app_all. Qed.

Lemma strip_ok a s b :
  forallb p a = true -> forallb p b = true -> starts_ok s = true -> ends_ok s = true ->
  strip_by p (a ++ s ++ b) = s.
Proof.
  intros Ha Hb Hs He. unfold strip_by, lstrip_by, rstrip_by.
  rewrite dropwhile_app_all by exact Ha.
  destruct s as [|c s].
  - simpl. rewrite (dropwhile_all_nil b Hb). reflexivity.
  - simpl in Hs. apply negb_true_iff in Hs. cbn [app]. rewrite dropwhile_head_false by exact Hs.
    change (c :: s ++ b) with ((c :: s) ++ b).
    rewrite rdropwhile_app_drop by exact Hb. now apply ends_ok_rdropwhile.
Qed.

Lemma forallb_all_ends s : s <> [] -> forallb (fun c => negb (p c)) s = true ->
  starts_ok s = true /\ ends_ok s = true.
Proof.
  intros Hne H. split.
  - destruct s; [congruence|]. simpl in *. now apply andb_true_iff in H.
  - induction s as [|c s IH]; [congruence|]. simpl in H. apply andb_true_iff in H. destruct H as [H1 H2].
    destruct s as [|d s]; [exact H1|]. apply IH; [discriminate|exact H2].
Qed.

(** joins of non-empty pieces with good ends have good ends *)
Lemma starts_ok_join sep l ls : l <> [] -> starts_ok (join sep (l :: ls)) = starts_ok l.
Proof.
  intros Hl. destruct ls as [|l2 ls]; [reflexivity|]. rewrite join_cons by discriminate.
  destruct l; [congruence|reflexivity].
Qed.

Lemma ends_ok_join sep ls :
  ls <> [] -> Forall (fun l => l <> [] /\ ends_ok l = true) ls -> ends_ok (join sep ls) = true.
Proof.
  induction ls as [|l ls IH]; [congruence|]. intros _ H. inversion H as [|? ? [Hl He] Hr]; subst.
  destruct ls as [|l2 ls]; [exact He|]. rewrite join_cons by discriminate.
  rewrite app_assoc. rewrite ends_ok_app.
  - apply IH; [discriminate|exact Hr].
  - inversion Hr as [|? ? [Hl2 _] _]; subst. destruct ls; simpl.
    + exact Hl2.
    + destruct l2; [congruence|discriminate].
Qed.
End Ends.

Lemma join_nonempty sep l ls : l <> [] -> join sep (l :: ls) <> [].
Proof.
  intros Hl. destruct ls; simpl; [exact Hl|]. destruct l; [congruence|discriminate].
Qed.

Lemma forallb_join (q : N -> bool) sep ls :
  forallb q sep = true -> Forall (fun l => forallb q l = true) ls -> forallb q (join sep ls) = true.
Proof.
  intros Hsep. induction ls as [|l ls IH]; intros H; [reflexivity|].
  inversion H as [|? ? Hl Hr]; subst. destruct ls as [|l2 ls]; [exact Hl|].
  rewrite join_cons by discriminate. rewrite !forallb_app, Hl, Hsep. simpl. now apply IH.
Qed.

Lemma forallb_impl {A} (f g : A -> bool) l :
  (forall a, f a = true -> g a = true) -> forallb f l = true -> forallb g l = true.
Proof.
  intros H. induction l as [|a l IH]; simpl; [auto|]. intros E. apply andb_true_iff in E.
  destruct E as [E1 E2]. now rewrite (H a E1), IH.
Qed.

Lemma Forall_map_iff {A B} (f : A -> B) (P : B -> Prop) l :
  Forall P (map f l) <-> Forall (fun a => P (f a)) l.
Proof.
  induction l as [|a l IH]; simpl; split; intros H; try constructor; inversion H; subst; try assumption;
    now apply IH.
Qed.

Lemma forallb_Forall {A} (f : A -> bool) l : forallb f l = true <-> Forall (fun a => f a = true) l.
Proof.
  induction l as [|a l IH]; simpl; split; intros H; try constructor; try reflexivity.
  - now apply andb_true_iff in H.
  - apply IH. now apply andb_true_iff in H.
  - inversion H; subst. apply andb_true_iff. split; [assumption|now apply IH].
Qed.

Lemma span_stop (q : N -> bool) a rest :
  forallb q a = true -> starts_ok q rest = true -> span q (a ++ rest) = (a, rest).
Proof.
  intros Ha Hr. destruct rest as [|x r].
  - rewrite app_nil_r. now apply span_forall_nil.
  - simpl in Hr. apply negb_true_iff in Hr. now apply span_forall_app.
Qed.

(** * The separator splits *)

Lemma split_on_app_sep c l rest :
  forallb (fun x => negb (x =? c)%N) l = true -> split_on c (l ++ c :: rest) = l :: split_on c rest.
Proof.
  induction l as [|x l IH]; simpl; intros H.
  - now rewrite N.eqb_refl.
  - apply andb_true_iff in H. destruct H as [H1 H2]. apply negb_true_iff in H1.
    rewrite H1. now rewrite IH.
Qed.

Lemma split_on_nosep c l :
  forallb (fun x => negb (x =? c)%N) l = true -> split_on c l = [l].
Proof.
  induction l as [|x l IH]; simpl; intros H; [reflexivity|].
  apply andb_true_iff in H. destruct H as [H1 H2]. apply negb_true_iff in H1.
  rewrite H1. now rewrite IH.
Qed.

Section SepSplit.
Variables (c : N) (pre post : str).
Hypothesis Hc : ws c = false.
Hypothesis Hpre : forallb ws pre = true.
Hypothesis Hpost : forallb ws post = true.

Let noc (s : str) : bool := forallb (fun x => negb (x =? c)%N) s.

Lemma ws_noc s : forallb ws s = true -> noc s = true.
Proof.
  unfold noc. apply forallb_impl. intros a Ha. apply negb_true_iff.
  destruct (N.eqb_spec a c) as [->|]; [congruence|reflexivity].
Qed.

Definition piece_ok (s : str) : Prop :=
  forallb (fun x => negb (x =? c)%N) s = true /\ starts_ok ws s = true /\ ends_ok ws s = true.

Lemma trim_split ps : ps <> [] -> Forall piece_ok ps -> forall first,
  trim_pieces first (split_on c ((if first then [] else post) ++ join (pre ++ c :: post) ps)) = ps.
Proof.
  induction ps as [|p ps IH]; [congruence|]. intros _ H first.
  inversion H as [|? ? (Hpc & Hps & Hpe) Hr]; subst.
  set (pfx := if first then [] else post).
  assert (Hpfx : noc pfx = true) by (subst pfx; destruct first; [reflexivity|now apply ws_noc]).
  destruct ps as [|p2 ps].
  - cbn [join intersperse_concat]. rewrite split_on_nosep.
    2:{ fold (noc (pfx ++ p)). unfold noc. rewrite forallb_app. fold (noc pfx). now rewrite Hpfx. }
    cbn [trim_pieces]. subst pfx. destruct first; [reflexivity|].
    unfold lstrip_by. rewrite dropwhile_app_all by exact Hpost.
    now rewrite starts_ok_dropwhile.
  - rewrite join_cons by discriminate.
    set (rest := join (pre ++ c :: post) (p2 :: ps)).
    assert (E : pfx ++ p ++ (pre ++ c :: post) ++ rest = (pfx ++ p ++ pre) ++ c :: post ++ rest).
    { repeat rewrite <- app_assoc. reflexivity. }
    rewrite E. rewrite split_on_app_sep.
    2:{ rewrite !forallb_app. fold (noc pfx). rewrite Hpfx, Hpc. simpl. now apply ws_noc. }
    specialize (IH ltac:(discriminate) Hr false). cbn beta iota in IH. fold rest in IH.
    pose proof (split_on_nonempty c (post ++ rest)) as Hne.
    destruct (split_on c (post ++ rest)) as [|l0 L] eqn:EL; [congruence|].
    cbn [trim_pieces]. cbn [trim_pieces] in IH. rewrite IH. f_equal.
    subst pfx. destruct first.
    + cbn [app]. unfold rstrip_by. rewrite rdropwhile_app_drop by exact Hpre.
      now apply ends_ok_rdropwhile.
    + now apply strip_ok.
Qed.

Lemma sep_split_join ps : ps <> [] -> Forall piece_ok ps ->
  sep_split c (join (pre ++ c :: post) ps) = ps.
Proof. intros Hne H. unfold sep_split. exact (trim_split ps Hne H true). Qed.
End SepSplit.

(** ** \s+ *)
Definition prepend (p : str) (l : list str) : list str :=
  match l with q :: qs => (p ++ q) :: qs | [] => [p] end.

Lemma cons_head_prepend x l : cons_head x l = prepend [x] l.
Proof. destruct l; reflexivity. Qed.
Lemma cons_head_prepend2 x p l : cons_head x (prepend p l) = prepend (x :: p) l.
Proof. destruct l; reflexivity. Qed.

Definition word (s : str) : Prop := s <> [] /\ forallb nonws s = true.

Lemma blank_split_word p : word p -> forall b r,
  blank_split_aux b (p ++ r) = prepend p (blank_split_aux false r).
Proof.
  intros [Hne Hall]. induction p as [|x p IH]; [congruence|]. intros b r.
  cbn [forallb] in Hall. apply andb_true_iff in Hall. destruct Hall as [Hx Hp].
  unfold nonws in Hx. apply negb_true_iff in Hx.
  cbn [app blank_split_aux]. rewrite Hx. destruct p as [|y p].
  - cbn [app]. apply cons_head_prepend.
  - rewrite IH by (try discriminate; exact Hp). apply cons_head_prepend2.
Qed.

Lemma blank_split_join ps : ps <> [] -> Forall word ps -> forall b,
  blank_split_aux b (join [SP] ps) = ps.
Proof.
  induction ps as [|p ps IH]; [congruence|]. intros _ H b. inversion H as [|? ? Hp Hr]; subst.
  destruct ps as [|p2 ps].
  - cbn [join intersperse_concat]. rewrite <- (app_nil_r p) at 1.
    rewrite blank_split_word by exact Hp. simpl. now rewrite app_nil_r.
  - rewrite join_cons by discriminate. rewrite blank_split_word by exact Hp.
    cbn [app blank_split_aux]. rewrite ws_SP. rewrite IH by (try discriminate; exact Hr).
    simpl. now rewrite app_nil_r.
Qed.

(** ** >\s*< *)
Lemma restr_split_aux_nonempty b s : restr_split_aux b s <> [].
Proof.
  revert b. induction s as [|x s IH]; intros b; simpl; [discriminate|].
  destruct b.
  - destruct (x =? LT)%N; apply IH.
  - destruct ((x =? GT)%N && ws_then_lt s); [discriminate|].
    destruct (restr_split_aux false s) eqn:E; [now apply IH in E|discriminate].
Qed.

Lemma restr_split_nogt g : forallb (fun x => negb (x =? GT)%N) g = true -> forall r,
  restr_split_aux false (g ++ r) = prepend g (restr_split_aux false r).
Proof.
  induction g as [|x g IH]; intros H r.
  - simpl. pose proof (restr_split_aux_nonempty false r).
    destruct (restr_split_aux false r); [congruence|reflexivity].
  - cbn [forallb] in H. apply andb_true_iff in H. destruct H as [Hx Hg]. apply negb_true_iff in Hx.
    cbn [app restr_split_aux]. rewrite Hx. cbn [andb]. rewrite IH by exact Hg.
    pose proof (restr_split_aux_nonempty false r).
    destruct (restr_split_aux false r); [congruence|reflexivity].
Qed.

Lemma restr_split_sep r :
  restr_split_aux false (GT :: SP :: LT :: r) = [] :: restr_split_aux false r.
Proof. reflexivity. Qed.

Lemma restr_split_join gs : gs <> [] -> Forall (fun g => forallb (fun x => negb (x =? GT)%N) g = true) gs ->
  restr_split (join [GT; SP; LT] gs) = gs.
Proof.
  unfold restr_split. induction gs as [|g gs IH]; [congruence|]. intros _ H.
  inversion H as [|? ? Hg Hr]; subst. destruct gs as [|g2 gs].
  - cbn [join intersperse_concat]. rewrite <- (app_nil_r g) at 1. rewrite restr_split_nogt by exact Hg.
    simpl. now rewrite app_nil_r.
  - rewrite join_cons by discriminate. rewrite restr_split_nogt by exact Hg.
    change ([GT; SP; LT] ++ join [GT; SP; LT] (g2 :: gs)) with (GT :: SP :: LT :: join [GT; SP; LT] (g2 :: gs)).
    rewrite restr_split_sep. rewrite IH by (try discriminate; exact Hr). simpl. now rewrite app_nil_r.
Qed.

(** * Plain and negated names *)

Lemma strip_tight p s : starts_ok p s = true -> ends_ok p s = true -> strip_by p s = s.
Proof.
  intros Hs He. pose proof (strip_ok p [] s [] eq_refl eq_refl Hs He) as H.
  simpl in H. now rewrite app_nil_r in H.
Qed.

Lemma wf_signed_inv q en a : wf_signed q (en, a) = true ->
  exists c r, a = c :: r /\ forallb q a = true /\ (en = true -> (c =? BANG)%N = false).
Proof.
  unfold wf_signed. cbn [fst snd]. destruct a as [|c r]; [discriminate|]. intros H.
  apply andb_true_iff in H. destruct H as [H1 H2]. exists c, r. split; [reflexivity|]. split; [exact H1|].
  intros ->. cbn [andb] in H2. now apply negb_true_iff in H2.
Qed.

Lemma pp_term_all (q : N -> bool) t q0 :
  wf_signed q0 t = true -> (forall c, q0 c = true -> q c = true) -> q BANG = true ->
  forallb q (pp_term t) = true.
Proof.
  destruct t as [en a]. intros H Hq Hb. destruct (wf_signed_inv _ _ _ H) as (c & r & -> & Hall & _).
  unfold pp_term. cbn [fst snd]. rewrite forallb_app. rewrite (forallb_impl _ _ _ Hq Hall).
  destruct en; simpl; [reflexivity|now rewrite Hb].
Qed.

Lemma pp_term_nonempty q0 t : wf_signed q0 t = true -> pp_term t <> [].
Proof.
  destruct t as [en a]. intros H. destruct (wf_signed_inv _ _ _ H) as (c & r & -> & _).
  unfold pp_term. cbn [fst snd]. destruct en; discriminate.
Qed.

Lemma pp_term_word q0 t :
  (forall c, q0 c = true -> ws c = false) -> wf_signed q0 t = true -> word (pp_term t).
Proof.
  intros Hq H. split; [now apply (pp_term_nonempty q0)|].
  apply (pp_term_all nonws t q0 H); [|reflexivity].
  intros c Hc. unfold nonws. now rewrite (Hq c Hc).
Qed.

Lemma parse_arch_pieces_pp q0 a :
  forallb (wf_signed q0) a = true -> parse_arch_pieces (map pp_term a) = Ok a.
Proof.
  induction a as [|[en s] a IH]; [reflexivity|]. cbn [forallb map]. intros H.
  apply andb_true_iff in H. destruct H as [Ht Ha].
  destruct (wf_signed_inv _ _ _ Ht) as (c & r & -> & _ & Hc).
  destruct en.
  - change (pp_term (true, c :: r)) with (c :: r). cbn [parse_arch_pieces].
    rewrite (IH Ha). cbn [bind]. now rewrite (Hc eq_refl).
  - change (pp_term (false, c :: r)) with (BANG :: c :: r). cbn [parse_arch_pieces].
    rewrite (IH Ha). cbn [bind]. now rewrite N.eqb_refl.
Qed.

Lemma parse_term_pp q0 t :
  (forall c, q0 c = true -> ws c = false) -> wf_signed q0 t = true -> parse_term (pp_term t) = Some t.
Proof.
  intros Hq H. destruct (pp_term_word q0 t Hq H) as [_ Hall].
  unfold parse_term, takewhile. rewrite (span_forall_nil nonws _ Hall). cbn [fst].
  destruct t as [en a]. destruct (wf_signed_inv _ _ _ H) as (c & r & -> & _ & Hc).
  unfold pp_term. cbn [fst snd]. destruct en.
  - cbn [app]. now rewrite (Hc eq_refl).
  - cbn [app]. now rewrite N.eqb_refl.
Qed.

Lemma filter_map_parse_term q0 g :
  (forall c, q0 c = true -> ws c = false) -> forallb (wf_signed q0) g = true ->
  filter_map parse_term (map pp_term g) = g.
Proof.
  intros Hq. induction g as [|t g IH]; [reflexivity|]. cbn [forallb map filter_map]. intros H.
  apply andb_true_iff in H. destruct H as [Ht Hg]. rewrite (parse_term_pp q0 t Hq Ht). now rewrite IH.
Qed.

(** the blank-separated text of a non-empty list of names *)
Definition body (g : list term) : str := join [SP] (map pp_term g).

Lemma words_of q0 g : (forall c, q0 c = true -> ws c = false) -> forallb (wf_signed q0) g = true ->
  Forall word (map pp_term g).
Proof.
  intros Hq H. apply Forall_map_iff. apply forallb_Forall in H.
  eapply Forall_impl; [|exact H]. intros t Ht. now apply (pp_term_word q0).
Qed.

Lemma word_ends s : word s -> s <> [] /\ starts_ok ws s = true /\ ends_ok ws s = true.
Proof.
  intros [Hne Hall]. split; [exact Hne|]. now apply forallb_all_ends.
Qed.

Lemma body_ends (p : N -> bool) q0 g :
  g <> [] -> forallb (wf_signed q0) g = true -> (forall c, q0 c = true -> p c = false) -> p BANG = false ->
  body g <> [] /\ starts_ok p (body g) = true /\ ends_ok p (body g) = true.
Proof.
  intros Hne H Hq Hb.
  assert (HF : Forall (fun l => l <> [] /\ starts_ok p l = true /\ ends_ok p l = true) (map pp_term g)).
  { apply Forall_map_iff. apply forallb_Forall in H. eapply Forall_impl; [|exact H].
    intros t Ht. split; [now apply (pp_term_nonempty q0)|].
    apply forallb_all_ends; [now apply (pp_term_nonempty q0)|].
    apply (pp_term_all _ t q0 Ht); [|now rewrite Hb].
    intros c Hc. now rewrite (Hq c Hc). }
  unfold body. destruct g as [|t g]; [congruence|]. cbn [map] in *.
  inversion HF as [|? ? (Ht1 & Ht2 & Ht3) HF']; subst.
  split; [now apply join_nonempty|]. split.
  - rewrite starts_ok_join by exact Ht1. exact Ht2.
  - apply ends_ok_join; [discriminate|]. eapply Forall_impl; [|exact HF]. intros l (A & _ & B). now split.
Qed.

Lemma body_all (q : N -> bool) q0 g :
  forallb (wf_signed q0) g = true -> (forall c, q0 c = true -> q c = true) -> q BANG = true -> q SP = true ->
  forallb q (body g) = true.
Proof.
  intros H Hq Hb Hs. unfold body. apply forallb_join; [simpl; now rewrite Hs|].
  apply Forall_map_iff. apply forallb_Forall in H. eapply Forall_impl; [|exact H].
  intros t Ht. now apply (pp_term_all q t q0 Ht).
Qed.

(** ** parse_archs *)
Lemma parse_archs_body a :
  nonempty_all wf_arch a = true -> parse_archs (body a) = Ok a.
Proof.
  intros H. assert (Hne : a <> []) by (destruct a; [discriminate|discriminate]).
  assert (Hall : forallb wf_arch a = true) by (destruct a; [discriminate|exact H]).
  assert (Hq : forall c, sp_arch_char c = true -> ws c = false)
    by (intros c Hc; now apply plain_nonws, sp_arch_char_plain).
  destruct (body_ends ws sp_arch_char a Hne Hall Hq ws_BANG) as (_ & Hs & He).
  unfold parse_archs. rewrite (strip_tight ws _ Hs He). unfold blank_split, body.
  rewrite blank_split_join.
  - now apply (parse_arch_pieces_pp sp_arch_char).
  - destruct a; [congruence|discriminate].
  - now apply (words_of sp_arch_char).
Qed.

(** ** parse_restrictions *)
Lemma groups_text r : r <> [] ->
  join [SP] (map pp_group r) = LT :: join [GT; SP; LT] (map body r) ++ [GT].
Proof.
  induction r as [|g r IH]; [congruence|]. intros _. destruct r as [|g2 r].
  - reflexivity.
  - cbn [map]. cbn [map] in IH. rewrite (join_cons [SP]) by discriminate.
    rewrite (join_cons [GT; SP; LT]) by discriminate. rewrite IH by discriminate.
    unfold pp_group. fold (body g). cbn [app]. rewrite <- !app_assoc. reflexivity.
Qed.

Lemma map_fixed (f : N -> N) s : forallb (fun c => (f c =? c)%N) s = true -> map f s = s.
Proof.
  induction s as [|c s IH]; [reflexivity|]. simpl. intros H. apply andb_true_iff in H.
  destruct H as [H1 H2]. apply N.eqb_eq in H1. now rewrite H1, IH.
Qed.

Definition wf_groups (r : list (list term)) : bool := nonempty_all (nonempty_all wf_profile) r.

Lemma wf_groups_inv r : wf_groups r = true ->
  r <> [] /\ Forall (fun g => g <> [] /\ forallb wf_profile g = true) r.
Proof.
  unfold wf_groups, nonempty_all. destruct r as [|g r]; [discriminate|]. intros H. split; [discriminate|].
  apply forallb_Forall in H. eapply Forall_impl; [|exact H]. intros g0 Hg.
  destruct g0; [discriminate|]. split; [discriminate|exact Hg].
Qed.

Lemma restr_text_all (q : N -> bool) r :
  wf_groups r = true -> (forall c, sp_profile_char c = true -> q c = true) ->
  q BANG = true -> q SP = true -> q LT = true -> q GT = true ->
  forallb q (join [SP] (map pp_group r)) = true.
Proof.
  intros H Hq Hb Hs Hl Hg. destruct (wf_groups_inv r H) as [_ HF].
  apply forallb_join; [simpl; now rewrite Hs|]. apply Forall_map_iff.
  eapply Forall_impl; [|exact HF]. intros g [_ Hwf]. unfold pp_group.
  rewrite !forallb_app. fold (body g). rewrite (body_all q sp_profile_char g Hwf Hq Hb Hs).
  simpl. now rewrite Hl, Hg.
Qed.

Lemma profile_nonws c : sp_profile_char c = true -> ws c = false.
Proof. intros H. now apply plain_nonws, sp_profile_char_plain. Qed.

Lemma parse_restrictions_text r :
  wf_groups r = true -> parse_restrictions (join [SP] (map pp_group r)) = r.
Proof.
  intros H. destruct (wf_groups_inv r H) as [Hne HF]. unfold parse_restrictions.
  assert (Hlow : ascii_lower (join [SP] (map pp_group r)) = join [SP] (map pp_group r)).
  { apply map_fixed. apply (restr_text_all (fun c => (ascii_lower_char c =? c)%N) r H); try reflexivity.
    intros c Hc. apply N.eqb_eq. now apply sp_profile_char_lower. }
  rewrite Hlow. rewrite (groups_text r Hne).
  set (K := join [GT; SP; LT] (map body r)).
  assert (HB : Forall (fun l => l <> [] /\ starts_ok edge l = true /\ ends_ok edge l = true) (map body r)).
  { apply Forall_map_iff. eapply Forall_impl; [|exact HF]. intros g [Hg Hwf].
    apply (body_ends edge sp_profile_char g Hg Hwf); [exact sp_profile_char_edge|reflexivity]. }
  assert (HK : starts_ok edge K = true /\ ends_ok edge K = true).
  { subst K. destruct r as [|g r]; [congruence|]. cbn [map] in *.
    inversion HB as [|? ? (B1 & B2 & B3) HB']; subst. split.
    - rewrite starts_ok_join by exact B1. exact B2.
    - apply ends_ok_join; [discriminate|]. eapply Forall_impl; [|exact HB]. intros l (A & _ & B). now split. }
  destruct HK as [HKs HKe].
  change (LT :: K ++ [GT]) with ([LT] ++ K ++ [GT]).
  change (in_chars [LT; GT; SP]) with edge.
  rewrite (strip_ok edge [LT] K [GT] eq_refl eq_refl HKs HKe). subst K.
  rewrite restr_split_join.
  - rewrite map_map. rewrite <- (map_id r) at 2. apply map_ext_in. intros g Hg.
    rewrite Forall_forall in HF. destruct (HF g Hg) as [Hgne Hwf].
    unfold blank_split, body. rewrite blank_split_join.
    + now apply (filter_map_parse_term sp_profile_char g profile_nonws).
    + destruct g; [congruence|discriminate].
    + now apply (words_of sp_profile_char g profile_nonws).
  - destruct r; [congruence|discriminate].
  - apply Forall_map_iff. eapply Forall_impl; [|exact HF]. intros g [_ Hwf].
    apply (body_all (fun x => negb (x =? GT)%N) sp_profile_char g Hwf); try reflexivity.
    intros c Hc. now rewrite (sp_profile_char_notGT c Hc).
Qed.

(** * The leaf: __dep_RE on a formatted atom *)

Definition aq_part (d : rel) : str :=
  match r_archqual d with Some q => COLON :: q | None => [] end.
Definition ver_part (d : rel) : str :=
  match r_version d with Some (o, v) => [SP; LPAR] ++ o ++ [SP] ++ v ++ [RPAR] | None => [] end.
Definition arch_part (d : rel) : str :=
  match r_arch d with Some a => [SP; LBRK] ++ join [SP] (map pp_term a) ++ [RBRK] | None => [] end.
Definition restr_part (d : rel) : str :=
  match r_restr d with Some r => SP :: join [SP] (map pp_group r) | None => [] end.

Lemma pp_atomic_parts d :
  pp_atomic d = r_name d ++ aq_part d ++ ver_part d ++ arch_part d ++ restr_part d.
Proof. reflexivity. Qed.

Lemma wf_rel_inv d : wf_rel d = true ->
  wf_name (r_name d) = true
  /\ opt_ok wf_archqual (r_archqual d) = true
  /\ opt_ok (fun ov => wf_relop (fst ov) && wf_version (snd ov)) (r_version d) = true
  /\ opt_ok (nonempty_all wf_arch) (r_arch d) = true
  /\ opt_ok wf_groups (r_restr d) = true.
Proof.
  unfold wf_rel. intros H. repeat (apply andb_true_iff in H; destruct H as [H ?]). auto.
Qed.

Lemma headed_inv f g s : headed f g s = true -> exists c t, s = c :: t /\ f c = true /\ forallb g t = true.
Proof.
  destruct s as [|c t]; [discriminate|]. simpl. intros H. apply andb_true_iff in H.
  exists c, t. tauto.
Qed.

Lemma mem_char_rev_false c s :
  forallb (fun x => negb (x =? c)%N) s = true -> mem_char c (rev s) = false.
Proof.
  intros H. unfold mem_char. destruct (existsb (N.eqb c) (rev s)) eqn:E; [|reflexivity].
  apply existsb_exists in E. destruct E as (x & Hin & Hx). apply N.eqb_eq in Hx. subst x.
  apply in_rev in Hin. rewrite forallb_forall in H. specialize (H c Hin). now rewrite N.eqb_refl in H.
Qed.

(** the formatted restriction formula is '<' t '>' with t non-empty, free of line feeds *)
Lemma restr_text_shape r : wf_groups r = true ->
  exists t, join [SP] (map pp_group r) = LT :: t ++ [GT] /\ t <> [] /\ mem_char 10 (rev t) = false.
Proof.
  intros H. destruct (wf_groups_inv r H) as [Hne HF]. exists (join [GT; SP; LT] (map body r)).
  split; [now apply groups_text|]. split.
  - destruct r as [|g r]; [congruence|]. cbn [map]. apply join_nonempty.
    inversion HF as [|? ? [Hg Hwf] _]; subst.
    now apply (body_ends ws sp_profile_char g Hg Hwf profile_nonws ws_BANG).
  - apply mem_char_rev_false.
    pose proof (restr_text_all (fun x => negb (x =? 10)%N) r H) as HA.
    rewrite (groups_text r Hne) in HA. cbn [forallb] in HA. rewrite forallb_app in HA.
    assert (HA' : negb (LT =? 10)%N && (forallb (fun x => negb (x =? 10)%N) (join [GT; SP; LT] (map body r))
                   && forallb (fun x => negb (x =? 10)%N) [GT]) = true).
    { apply HA; try reflexivity. intros c Hc. now rewrite (sp_profile_char_notLF c Hc). }
    apply andb_true_iff in HA'. destruct HA' as [_ HA']. now apply andb_true_iff in HA'.
Qed.

Notation D := (dropwhile ws).

Definition sp_start (s : str) : bool := match s with [] => true | x :: _ => (x =? SP)%N end.

Lemma sp_start_app a b : sp_start a = true -> sp_start b = true -> sp_start (a ++ b) = true.
Proof. destruct a; simpl; auto. Qed.
Lemma sp_start_ver d : sp_start (ver_part d) = true.
Proof. unfold ver_part. destruct (r_version d) as [[o v]|]; reflexivity. Qed.
Lemma sp_start_arch d : sp_start (arch_part d) = true.
Proof. unfold arch_part. destruct (r_arch d); reflexivity. Qed.
Lemma sp_start_restr d : sp_start (restr_part d) = true.
Proof. unfold restr_part. destruct (r_restr d); reflexivity. Qed.
Lemma sp_start_starts p s : sp_start s = true -> p SP = false -> starts_ok p s = true.
Proof.
  destruct s as [|x s]; [reflexivity|]. simpl. intros H Hp. apply N.eqb_eq in H. subst x. now rewrite Hp.
Qed.

Lemma D_SP s : D (SP :: s) = D s.
Proof. cbn [dropwhile]. now rewrite ws_SP. Qed.

Lemma D_restr_starts p d : opt_ok wf_groups (r_restr d) = true -> p LT = false ->
  starts_ok p (D (restr_part d)) = true.
Proof.
  unfold restr_part. destruct (r_restr d) as [r|]; [|reflexivity]. cbn [opt_ok]. intros H Hp.
  destruct (restr_text_shape r H) as (t & -> & _). rewrite D_SP.
  rewrite dropwhile_head_false by exact ws_LT. simpl. now rewrite Hp.
Qed.

Lemma D_arch_starts p d : opt_ok wf_groups (r_restr d) = true -> p LT = false -> p LBRK = false ->
  starts_ok p (D (arch_part d ++ restr_part d)) = true.
Proof.
  intros H Hl Hb. unfold arch_part. destruct (r_arch d) as [a|].
  - cbn [app]. rewrite D_SP. rewrite dropwhile_head_false by exact ws_LBRK. simpl. now rewrite Hb.
  - cbn [app]. now apply D_restr_starts.
Qed.

Lemma scan_archqual_other r : starts_ok (fun c => (c =? COLON)%N) r = true -> scan_archqual r = Some (None, r).
Proof.
  destruct r as [|x r]; [reflexivity|]. simpl. intros H. apply negb_true_iff in H.
  unfold scan_archqual. destruct x as [|px]; [reflexivity|].
  destruct (N.eqb_spec (N.pos px) 58) as [E|E]; [rewrite E in H; discriminate|].
  destruct px as [px|px|]; try reflexivity;
  destruct px as [px|px|]; try reflexivity;
  destruct px as [px|px|]; try reflexivity;
  destruct px as [px|px|]; try reflexivity;
  destruct px as [px|px|]; try reflexivity;
  destruct px as [px|px|]; try reflexivity; congruence.
Qed.

Ltac pos_case px := try reflexivity; try congruence; destruct px as [px|px|]; try reflexivity; try congruence.

Lemma scan_version_other r : starts_ok (fun c => (c =? LPAR)%N) r = true -> scan_version r = Some (None, r).
Proof.
  destruct r as [|x r]; [reflexivity|]. simpl. intros H. apply negb_true_iff in H.
  unfold scan_version. destruct x as [|px]; [reflexivity|].
  destruct (N.eqb_spec (N.pos px) 40) as [E|E]; [rewrite E in H; discriminate|].
  do 7 pos_case px.
Qed.

Lemma scan_archs_other r : starts_ok (fun c => (c =? LBRK)%N) r = true -> scan_archs r = Some (None, r).
Proof.
  destruct r as [|x r]; [reflexivity|]. simpl. intros H. apply negb_true_iff in H.
  unfold scan_archs. destruct x as [|px]; [reflexivity|].
  destruct (N.eqb_spec (N.pos px) 91) as [E|E]; [rewrite E in H; discriminate|].
  do 8 pos_case px.
Qed.

(** ** the stages *)
Lemma stage_restr d : opt_ok wf_groups (r_restr d) = true ->
  scan_restr (D (restr_part d)) = Some (option_map (fun r => join [SP] (map pp_group r)) (r_restr d)).
Proof.
  unfold restr_part. destruct (r_restr d) as [r|]; [|reflexivity]. cbn [opt_ok option_map]. intros H.
  destruct (restr_text_shape r H) as (t & -> & Hne & Hlf). rewrite D_SP.
  rewrite dropwhile_head_false by exact ws_LT. unfold scan_restr.
  rewrite rdropwhile_app_keep by exact ws_GT. rewrite rev_app_distr. cbn [rev app].
  rewrite Hlf. destruct (rev t) eqn:E.
  - apply (f_equal (@rev N)) in E. rewrite rev_involutive in E. simpl in E. congruence.
  - reflexivity.
Qed.

Lemma stage_archs d :
  opt_ok (nonempty_all wf_arch) (r_arch d) = true -> opt_ok wf_groups (r_restr d) = true ->
  exists r4, scan_archs (D (arch_part d ++ restr_part d)) = Some (option_map body (r_arch d), r4)
             /\ D r4 = D (restr_part d).
Proof.
  intros Ha Hr. unfold arch_part. destruct (r_arch d) as [a|]; cbn [opt_ok option_map] in *.
  - exists (restr_part d). split; [|reflexivity].
    assert (Hne : a <> []) by (destruct a; discriminate).
    assert (Hall : forallb wf_arch a = true) by (destruct a; [discriminate|exact Ha]).
    fold (body a). cbn [app]. rewrite <- app_assoc. cbn [app]. rewrite D_SP.
    rewrite dropwhile_head_false by exact ws_LBRK. unfold scan_archs.
    rewrite span_forall_app.
    + destruct (body a) eqn:E; [|reflexivity].
      exfalso. revert E. apply (body_ends ws sp_arch_char a Hne Hall); [|exact ws_BANG].
      intros c Hc. now apply plain_nonws, sp_arch_char_plain.
    + apply (body_all archs_char sp_arch_char a Hall); try reflexivity. exact sp_arch_char_archs.
    + exact archs_char_RBRK.
  - exists (D (restr_part d)). cbn [app]. split; [|apply dropwhile_idem].
    apply scan_archs_other. now apply D_restr_starts.
Qed.

Lemma stage_version d :
  opt_ok (fun ov => wf_relop (fst ov) && wf_version (snd ov)) (r_version d) = true ->
  opt_ok wf_groups (r_restr d) = true ->
  exists r3, scan_version (D (ver_part d ++ arch_part d ++ restr_part d)) = Some (r_version d, r3)
             /\ D r3 = D (arch_part d ++ restr_part d).
Proof.
  intros Hv Hr. unfold ver_part. destruct (r_version d) as [[o v]|]; cbn [opt_ok fst snd] in *.
  - exists (arch_part d ++ restr_part d). split; [|reflexivity].
    apply andb_true_iff in Hv. destruct Hv as [Ho Hv].
    destruct (headed_inv _ _ _ Ho) as (co & to & -> & Hco & Hto).
    destruct (headed_inv _ _ _ Hv) as (cv & tv & -> & Hcv & Htv).
    set (rest := arch_part d ++ restr_part d).
    assert (E : ([SP; LPAR] ++ (co :: to) ++ [SP] ++ (cv :: tv) ++ [RPAR]) ++ rest
                = SP :: LPAR :: (co :: to) ++ SP :: (cv :: tv) ++ RPAR :: rest).
    { cbn [app]. repeat (rewrite <- app_assoc; cbn [app]). reflexivity. }
    rewrite E. rewrite D_SP. rewrite dropwhile_head_false by exact ws_LPAR. unfold scan_version.
    assert (Hwo : ws co = false) by now apply plain_nonws, relop_char_plain, sp_relop_char_model.
    assert (Hwv : ws cv = false) by now apply plain_nonws, ver_char_plain, sp_version_char_model.
    cbn [app]. rewrite (dropwhile_head_false ws co) by exact Hwo.
    change (co :: to ++ SP :: cv :: tv ++ RPAR :: rest) with ((co :: to) ++ SP :: cv :: tv ++ RPAR :: rest).
    rewrite span_forall_app.
    2:{ cbn [forallb]. rewrite (sp_relop_char_model co Hco). simpl.
        eapply forallb_impl; [|exact Hto]. exact sp_relop_char_model. }
    2:{ exact relop_char_SP. }
    rewrite D_SP. rewrite (dropwhile_head_false ws cv) by exact Hwv.
    change (cv :: tv ++ RPAR :: rest) with ((cv :: tv) ++ RPAR :: rest).
    rewrite span_forall_app.
    2:{ cbn [forallb]. rewrite (sp_version_char_model cv Hcv). simpl.
        eapply forallb_impl; [|exact Htv]. exact sp_version_char_model. }
    2:{ exact ver_char_RPAR. }
    rewrite dropwhile_head_false by exact ws_RPAR. reflexivity.
  - exists (D (arch_part d ++ restr_part d)). cbn [app]. split; [|apply dropwhile_idem].
    apply scan_version_other. now apply D_arch_starts.
Qed.

Lemma stage_archqual d rest :
  opt_ok wf_archqual (r_archqual d) = true -> sp_start rest = true ->
  scan_archqual (aq_part d ++ rest) = Some (r_archqual d, rest).
Proof.
  intros Hq Hs. unfold aq_part. destruct (r_archqual d) as [q|]; cbn [opt_ok] in *.
  - destruct (headed_inv _ _ _ Hq) as (c & t & -> & Hc & Ht). cbn [app]. unfold scan_archqual.
    rewrite sp_alnum_model in Hc. rewrite Hc. rewrite span_stop.
    + reflexivity.
    + eapply forallb_impl; [|exact Ht]. exact sp_archqual_char_model.
    + apply sp_start_starts; [exact Hs|exact aq_char_SP].
  - cbn [app]. apply scan_archqual_other. apply sp_start_starts; [exact Hs|reflexivity].
Qed.

Definition groups_of (d : rel) : dep_groups :=
  mkGroups (r_name d) (r_archqual d) (r_version d) (option_map body (r_arch d))
           (option_map (fun r => join [SP] (map pp_group r)) (r_restr d)).

Theorem match_dep_pp_atomic d : wf_rel d = true -> match_dep (pp_atomic d) = Some (groups_of d).
Proof.
  intros H. destruct (wf_rel_inv d H) as (Hn & Hq & Hv & Ha & Hr).
  destruct (headed_inv _ _ _ Hn) as (c & t & En & Hc & Ht). rewrite sp_alnum_model in Hc.
  rewrite pp_atomic_parts. unfold groups_of. rewrite En. cbn [app]. unfold match_dep.
  rewrite dropwhile_head_false by (now apply plain_nonws, name_char_plain, is_alnum_name_char).
  rewrite Hc.
  set (sV := ver_part d ++ arch_part d ++ restr_part d).
  assert (HsV : sp_start sV = true).
  { subst sV. apply sp_start_app; [apply sp_start_ver|]. apply sp_start_app; [apply sp_start_arch|apply sp_start_restr]. }
  rewrite span_stop.
  2:{ eapply forallb_impl; [|exact Ht]. exact sp_name_char_model. }
  2:{ unfold aq_part. destruct (r_archqual d); [reflexivity|]. cbn [app].
      apply sp_start_starts; [exact HsV|exact name_char_SP]. }
  rewrite (stage_archqual d sV Hq HsV).
  destruct (stage_version d Hv Hr) as (r3 & E3 & D3). fold sV in E3. rewrite E3.
  destruct (stage_archs d Ha Hr) as (r4 & E4 & D4). rewrite D3, E4, D4.
  now rewrite (stage_restr d Hr).
Qed.

(** * One atom *)
Theorem parse_rel_pp_atomic d : wf_rel d = true -> parse_rel (pp_atomic d) = Ok (d, false).
Proof.
  intros H. unfold parse_rel. rewrite (match_dep_pp_atomic d H). unfold groups_of.
  destruct (wf_rel_inv d H) as (_ & _ & _ & Ha & Hr).
  cbn [g_name g_archqual g_version g_archs g_restr].
  destruct d as [n q v a r]. cbn [r_name r_archqual r_version r_arch r_restr] in *.
  assert (Er : option_map parse_restrictions (option_map (fun r0 => join [SP] (map pp_group r0)) r) = r).
  { destruct r as [r|]; [|reflexivity]. cbn [option_map opt_ok] in *. now rewrite parse_restrictions_text. }
  rewrite Er. destruct a as [a|]; cbn [option_map opt_ok bind] in *.
  - rewrite (parse_archs_body a Ha). reflexivity.
  - reflexivity.
Qed.

Lemma pp_atomic_all (q : N -> bool) d :
  wf_rel d = true -> (forall c, plain c = true -> q c = true) ->
  q SP = true -> q LPAR = true -> q RPAR = true -> q LBRK = true -> q RBRK = true ->
  q LT = true -> q GT = true -> q COLON = true -> q BANG = true ->
  forallb q (pp_atomic d) = true.
Proof.
  intros H Hq HSP HLP HRP HLB HRB HLT HGT HCO HBA.
  destruct (wf_rel_inv d H) as (Hn & Hqq & Hv & Ha & Hr).
  rewrite pp_atomic_parts. rewrite !forallb_app.
  assert (E1 : forallb q (r_name d) = true).
  { destruct (headed_inv _ _ _ Hn) as (c & t & -> & Hc & Ht). cbn [forallb].
    rewrite sp_alnum_model in Hc. rewrite (Hq c) by now apply name_char_plain, is_alnum_name_char.
    eapply forallb_impl; [|exact Ht]. intros x Hx. now apply Hq, name_char_plain, sp_name_char_model. }
  assert (E2 : forallb q (aq_part d) = true).
  { unfold aq_part. destruct (r_archqual d) as [s|]; [|reflexivity]. cbn [opt_ok] in Hqq.
    destruct (headed_inv _ _ _ Hqq) as (c & t & -> & Hc & Ht). cbn [forallb]. rewrite HCO.
    rewrite sp_alnum_model in Hc. rewrite (Hq c) by now apply aq_char_plain, is_alnum_aq_char.
    eapply forallb_impl; [|exact Ht]. intros x Hx. now apply Hq, aq_char_plain, sp_archqual_char_model. }
  assert (E3 : forallb q (ver_part d) = true).
  { unfold ver_part. destruct (r_version d) as [[o v]|]; [|reflexivity]. cbn [opt_ok fst snd] in Hv.
    apply andb_true_iff in Hv. destruct Hv as [Ho Hv].
    destruct (headed_inv _ _ _ Ho) as (co & to & -> & Hco & Hto).
    destruct (headed_inv _ _ _ Hv) as (cv & tv & -> & Hcv & Htv).
    rewrite !forallb_app. cbn [forallb]. rewrite HSP, HLP, HRP.
    rewrite (Hq co) by now apply relop_char_plain, sp_relop_char_model.
    rewrite (Hq cv) by now apply ver_char_plain, sp_version_char_model.
    rewrite (forallb_impl _ q to (fun x Hx => Hq x (relop_char_plain x (sp_relop_char_model x Hx))) Hto).
    rewrite (forallb_impl _ q tv (fun x Hx => Hq x (ver_char_plain x (sp_version_char_model x Hx))) Htv).
    reflexivity. }
  assert (E4 : forallb q (arch_part d) = true).
  { unfold arch_part. destruct (r_arch d) as [a|]; [|reflexivity]. cbn [opt_ok] in Ha.
    assert (Hall : forallb wf_arch a = true) by (destruct a; [discriminate|exact Ha]).
    rewrite !forallb_app. cbn [forallb]. rewrite HSP, HLB, HRB. fold (body a).
    rewrite (body_all q sp_arch_char a Hall); [reflexivity| |exact HBA|exact HSP].
    intros c Hc. now apply Hq, sp_arch_char_plain. }
  assert (E5 : forallb q (restr_part d) = true).
  { unfold restr_part. destruct (r_restr d) as [r|]; [|reflexivity]. cbn [opt_ok] in Hr.
    cbn [forallb]. rewrite HSP. apply (restr_text_all q r Hr); try assumption.
    intros c Hc. now apply Hq, sp_profile_char_plain. }
  now rewrite E1, E2, E3, E4, E5.
Qed.

Lemma pp_atomic_nonempty d : wf_rel d = true -> pp_atomic d <> [].
Proof.
  intros H. destruct (wf_rel_inv d H) as (Hn & _). destruct (headed_inv _ _ _ Hn) as (c & t & E & _).
  rewrite pp_atomic_parts, E. discriminate.
Qed.

Lemma pp_atomic_starts d : wf_rel d = true -> starts_ok ws (pp_atomic d) = true.
Proof.
  intros H. destruct (wf_rel_inv d H) as (Hn & _). destruct (headed_inv _ _ _ Hn) as (c & t & E & Hc & _).
  rewrite pp_atomic_parts, E. cbn [app starts_ok]. rewrite sp_alnum_model in Hc.
  now rewrite (plain_nonws c (name_char_plain c (is_alnum_name_char c Hc))).
Qed.

Lemma all_nonws_ends s : forallb nonws s = true -> ends_ok ws s = true.
Proof.
  intros H. destruct s as [|c s]; [reflexivity|]. now apply forallb_all_ends.
Qed.

Lemma pp_atomic_ends d : wf_rel d = true -> ends_ok ws (pp_atomic d) = true.
Proof.
  intros H. destruct (wf_rel_inv d H) as (Hn & Hq & Hv & Ha & Hr).
  rewrite pp_atomic_parts. repeat apply ends_ok_app_nil.
  - destruct (headed_inv _ _ _ Hn) as (c & t & -> & Hc & Ht). apply all_nonws_ends. cbn [forallb].
    rewrite sp_alnum_model in Hc. unfold nonws at 1.
    rewrite (plain_nonws c (name_char_plain c (is_alnum_name_char c Hc))).
    eapply forallb_impl; [|exact Ht]. intros x Hx. unfold nonws.
    now rewrite (plain_nonws x (name_char_plain x (sp_name_char_model x Hx))).
  - unfold aq_part. destruct (r_archqual d) as [s|]; [|reflexivity]. cbn [opt_ok] in Hq.
    destruct (headed_inv _ _ _ Hq) as (c & t & -> & Hc & Ht). apply all_nonws_ends. cbn [forallb].
    rewrite sp_alnum_model in Hc. unfold nonws at 1 2. rewrite ws_COLON.
    rewrite (plain_nonws c (aq_char_plain c (is_alnum_aq_char c Hc))).
    eapply forallb_impl; [|exact Ht]. intros x Hx. unfold nonws.
    now rewrite (plain_nonws x (aq_char_plain x (sp_archqual_char_model x Hx))).
  - unfold ver_part. destruct (r_version d) as [[o v]|]; [|reflexivity].
    rewrite !app_assoc. rewrite ends_ok_snoc. now rewrite ws_RPAR.
  - unfold arch_part. destruct (r_arch d) as [a|]; [|reflexivity].
    rewrite !app_assoc. rewrite ends_ok_snoc. now rewrite ws_RBRK.
  - unfold restr_part. destruct (r_restr d) as [r|]; [|reflexivity]. cbn [opt_ok] in Hr.
    destruct (restr_text_shape r Hr) as (t & -> & _).
    change (SP :: LT :: t ++ [GT]) with ((SP :: LT :: t) ++ [GT]). rewrite ends_ok_snoc. now rewrite ws_GT.
Qed.

(** * Alternatives and conjunctions *)
Definition wf_alts (alts : list rel) : bool := nonempty_all wf_rel alts.

Lemma nonempty_all_inv {A} (f : A -> bool) l : nonempty_all f l = true -> l <> [] /\ forallb f l = true.
Proof. destruct l; [discriminate|]. intros H. split; [discriminate|exact H]. Qed.

Lemma atoms_piece_ok alts : forallb wf_rel alts = true ->
  Forall (piece_ok PIPE) (map pp_atomic alts).
Proof.
  intros H. apply Forall_map_iff. apply forallb_Forall in H. eapply Forall_impl; [|exact H].
  intros d Hd. split; [|split].
  - apply (pp_atomic_all (fun x => negb (x =? PIPE)%N) d Hd); try reflexivity.
    intros c Hc. apply plain_nosep in Hc. unfold nosep in Hc. now apply andb_true_iff in Hc.
  - now apply pp_atomic_starts.
  - now apply pp_atomic_ends.
Qed.

Lemma sep_split_pp_alts alts : wf_alts alts = true ->
  sep_split PIPE (pp_alts alts) = map pp_atomic alts.
Proof.
  intros H. destruct (nonempty_all_inv _ _ H) as [Hne Hall]. unfold pp_alts.
  change [SP; PIPE; SP] with ([SP] ++ PIPE :: [SP]).
  apply sep_split_join; try reflexivity.
  - destruct alts; [congruence|discriminate].
  - now apply atoms_piece_ok.
Qed.

Lemma parse_alts_atoms alts : forallb wf_rel alts = true ->
  parse_alts (map pp_atomic alts) = Ok (alts, 0%N).
Proof.
  induction alts as [|d alts IH]; [reflexivity|]. cbn [forallb map parse_alts]. intros H.
  apply andb_true_iff in H. destruct H as [Hd Ha].
  rewrite (parse_rel_pp_atomic d Hd). cbn [bind]. rewrite (IH Ha). reflexivity.
Qed.

Lemma pp_alts_piece_ok alts : wf_alts alts = true -> piece_ok COMMA (pp_alts alts) /\ pp_alts alts <> [].
Proof.
  intros H. destruct (nonempty_all_inv _ _ H) as [Hne Hall].
  assert (HF : Forall (fun l => l <> [] /\ starts_ok ws l = true /\ ends_ok ws l = true
                               /\ forallb (fun x => negb (x =? COMMA)%N) l = true) (map pp_atomic alts)).
  { apply Forall_map_iff. apply forallb_Forall in Hall. eapply Forall_impl; [|exact Hall].
    intros d Hd. split; [now apply pp_atomic_nonempty|]. split; [now apply pp_atomic_starts|].
    split; [now apply pp_atomic_ends|].
    apply (pp_atomic_all (fun x => negb (x =? COMMA)%N) d Hd); try reflexivity.
    intros c Hc. apply plain_nosep in Hc. unfold nosep in Hc. now apply andb_true_iff in Hc. }
  unfold pp_alts. destruct alts as [|d alts]; [congruence|]. cbn [map] in *.
  inversion HF as [|? ? (A1 & A2 & A3 & A4) HF']; subst.
  split; [|now apply join_nonempty]. split; [|split].
  - apply forallb_join; [reflexivity|]. eapply Forall_impl; [|exact HF]. intros l (_ & _ & _ & B). exact B.
  - rewrite starts_ok_join by exact A1. exact A2.
  - apply ends_ok_join; [discriminate|]. eapply Forall_impl; [|exact HF]. intros l (B1 & _ & B3 & _). now split.
Qed.

Lemma parse_conj_alts rels : forallb wf_alts rels = true ->
  parse_conj (map (sep_split PIPE) (map pp_alts rels)) = Ok (rels, 0%N).
Proof.
  induction rels as [|alts rels IH]; [reflexivity|]. cbn [forallb map parse_conj]. intros H.
  apply andb_true_iff in H. destruct H as [Ha Hr].
  rewrite (sep_split_pp_alts alts Ha). destruct (nonempty_all_inv _ _ Ha) as [_ Hall].
  rewrite (parse_alts_atoms alts Hall). cbn [bind]. rewrite (IH Hr). reflexivity.
Qed.

(** * The property *)
Theorem parse_str_inverse rels :
  wf_rels rels = true -> parse_relations (rel_str rels) = Ok (rels, 0%N).
Proof.
  intros H. destruct (nonempty_all_inv _ _ H) as [Hne Hall]. fold wf_alts in Hall.
  assert (HF : Forall (fun l => piece_ok COMMA l /\ l <> []) (map pp_alts rels)).
  { apply Forall_map_iff. apply forallb_Forall in Hall. eapply Forall_impl; [|exact Hall].
    intros alts Ha. now apply pp_alts_piece_ok. }
  assert (Htight : starts_ok ws (rel_str rels) = true /\ ends_ok ws (rel_str rels) = true).
  { unfold rel_str. destruct rels as [|alts rels]; [congruence|]. cbn [map] in *.
    inversion HF as [|? ? ((_ & A2 & A3) & A1) HF']; subst. split.
    - rewrite starts_ok_join by exact A1. exact A2.
    - apply ends_ok_join; [discriminate|]. eapply Forall_impl; [|exact HF].
      intros l ((_ & _ & B3) & B1). now split. }
  destruct Htight as [Hs He]. unfold parse_relations. rewrite (strip_tight ws _ Hs He).
  unfold rel_str. change [COMMA; SP] with ([] ++ COMMA :: [SP]).
  rewrite sep_split_join; try reflexivity.
  - now apply parse_conj_alts.
  - destruct rels; [congruence|discriminate].
  - eapply Forall_impl; [|exact HF]. intros l [A _]. exact A.
Qed.

Corollary str_parse_str rels :
  wf_rels rels = true ->
  exists rels' w, parse_relations (rel_str rels) = Ok (rels', w) /\ rel_str rels' = rel_str rels.
Proof.
  intros H. exists rels, 0%N. split; [now apply parse_str_inverse|reflexivity].
Qed.

(** * The judgement of the spec, met by the model *)
Lemma term_eqb_refl t : term_eqb t t = true.
Proof. unfold term_eqb. now rewrite eqb_reflx, str_eqb_refl. Qed.

Lemma list_eqb_refl {A} (f : A -> A -> bool) : (forall a, f a a = true) -> forall l, list_eqb f l l = true.
Proof. intros Hf. induction l as [|a l IH]; [reflexivity|]. simpl. now rewrite Hf, IH. Qed.

Lemma option_eqb_refl {A} (f : A -> A -> bool) : (forall a, f a a = true) -> forall o, option_eqb f o o = true.
Proof. intros Hf [a|]; simpl; auto. Qed.

Lemma rel_eqb_refl d : rel_eqb d d = true.
Proof.
  unfold rel_eqb. rewrite str_eqb_refl.
  rewrite (option_eqb_refl str_eqb str_eqb_refl).
  rewrite (option_eqb_refl (pair_eqb str_eqb str_eqb)).
  2:{ intros [a b]. unfold pair_eqb. simpl. now rewrite !str_eqb_refl. }
  rewrite (option_eqb_refl _ (list_eqb_refl term_eqb term_eqb_refl)).
  rewrite (option_eqb_refl _ (list_eqb_refl _ (list_eqb_refl term_eqb term_eqb_refl))).
  reflexivity.
Qed.

Lemma rels_eqb_refl r : rels_eqb r r = true.
Proof. apply list_eqb_refl. apply list_eqb_refl. exact rel_eqb_refl. Qed.

(** format, parse, format again — all by the model — judged by [roundtrip_ok] *)
Definition model_roundtrip (rels : list (list rel)) : bool :=
  let p := parse_relations (rel_str rels) in
  roundtrip_ok rels (rel_str rels) p
    (match p with Ok (r, _) => Some (rel_str r) | Err _ => None end).

Theorem model_roundtrip_ok rels : wf_rels rels = true -> model_roundtrip rels = true.
Proof.
  intros H. unfold model_roundtrip. rewrite (parse_str_inverse rels H). unfold roundtrip_ok.
  now rewrite rels_eqb_refl, str_eqb_refl.
Qed.

(** the five relational operators are in the domain *)
Lemma five_operators_wf : forallb wf_relop five_operators = true.
Proof. reflexivity. Qed.

(** formatting is unambiguous on the domain *)
Corollary str_injective r1 r2 :
  wf_rels r1 = true -> wf_rels r2 = true -> rel_str r1 = rel_str r2 -> r1 = r2.
Proof.
  intros H1 H2 E. pose proof (parse_str_inverse r1 H1) as P1. pose proof (parse_str_inverse r2 H2) as P2.
  rewrite E in P1. congruence.
Qed.

(** Unique readability: a text in the image of the formatter (over the domain) has
    exactly one domain structure behind it, and it is the one the parser returns. *)
Corollary formatted_text_unique s :
  (exists rels, wf_rels rels = true /\ rel_str rels = s) ->
  exists rels, (wf_rels rels = true /\ rel_str rels = s /\ parse_relations s = Ok (rels, 0%N))
               /\ forall r', wf_rels r' = true -> rel_str r' = s -> r' = rels.
Proof.
  intros [rels [W E]]. exists rels. split.
  - split; [exact W|]. split; [exact E|]. rewrite <- E. apply parse_str_inverse; exact W.
  - intros r' W' E'. apply str_injective; [exact W'|exact W|]. rewrite E', E. reflexivity.
Qed.
