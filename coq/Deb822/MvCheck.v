(** Case format evaluated by the correspondence check of C12.

    One case = one run of the public API on ONE object and its re-parse:
      p = K();  [p.size_field_behavior = b];  p[k] = v ... ;  d0 = p.dump()
      edit_1(p); d1 = p.dump(); ... edit_n(p); dn = p.dump()
      text = dn (or the given text when there is no build stage)
      raw = Deb822(text).items();  q = K(text);  [q.size_field_behavior = b];
      parsed = q.items();  d' = q.dump()

    [agree]: the model reproduces every observed stage.
    [holds]: the property, judged on what the implementation did, against MvSpec
             (documented sub-field names, documented alignment). *)
From Coq Require Import Uint63.
From Verif Require Import Lib.Base Lib.PyStr Lib.Dec Gen.PyChars Gen.MvTables
  Deb822.Multivalued Deb822.MvSpec Deb822.Packed.

Inductive obs :=
| ObsBehavErr (e : err)                      (* assigning size_field_behavior raised *)
| ObsBuildErr (e : err)                      (* an assignment p[k] = v raised *)
| ObsDumpErr (before : list str) (e : err)   (* a dump of p raised, after these dumps *)
| ObsEditErr (before : list str) (e : err)   (* an edit raised, after these dumps *)
| ObsFull (dumps : list str)                 (* [] : no build stage *)
          (raw : list (str * str))
          (parsed : para)
          (dump2 : result str).

Record kase := mk {
  c_cls : cls;
  c_behav : option str;             (* Release only: value assigned to size_field_behavior *)
  c_plainrec : bool;                (* records handed over as plain dicts (case-sensitive) *)
  c_build : option (list (str * fvalue));
  c_edits : list edit;
  c_text : str;                     (* parsed when there is no build stage *)
  c_obs : obs;
}.

(** ** Decoding of the packed literal *)
Definition t_cls (t : tree) : option cls :=
  match t_N t with
  | Some 0%N => Some Dsc | Some 1%N => Some Changes | Some 2%N => Some BuildInfo
  | Some 3%N => Some PdiffIndex | Some 4%N => Some Release
  | _ => None
  end.
Definition t_rec : tree -> option record := t_list (t_pair t_str t_str).
(** value: ["P"; s] | ["S"; rec] | ["M"; [rec...]] *)
Definition t_val (t : tree) : option fvalue :=
  match t with
  | Node [Atom [80%N]; s] => option_map Plain (t_str s)
  | Node [Atom [83%N]; r] => option_map Single (t_rec r)
  | Node [Atom [77%N]; rs] => option_map Multi (t_list t_rec rs)
  | _ => None
  end.
Definition t_para : tree -> option para := t_list (t_pair t_str t_val).
(** edit: ["r";key;i;rec] | ["s";key;i;sub;v] | ["o";key;rec] | ["a";key;rec] | ["=";key;val] | ["d";key] *)
Definition t_edit (t : tree) : option edit :=
  match t with
  | Node [Atom [114%N]; k; i; r] =>
      match t_str k, t_nat i, t_rec r with Some k, Some i, Some r => Some (ESetRec k i r) | _, _, _ => None end
  | Node [Atom [115%N]; k; i; s; v] =>
      match t_str k, t_nat i, t_str s, t_str v with
      | Some k, Some i, Some s, Some v => Some (ESetSub k i s v) | _, _, _, _ => None end
  | Node [Atom [111%N]; k; r] =>
      match t_str k, t_rec r with Some k, Some r => Some (ERotate k r) | _, _ => None end
  | Node [Atom [97%N]; k; r] =>
      match t_str k, t_rec r with Some k, Some r => Some (EAppend k r) | _, _ => None end
  | Node [Atom [61%N]; k; v] =>
      match t_str k, t_val v with Some k, Some v => Some (EAssign k v) | _, _ => None end
  | Node [Atom [100%N]; k] => option_map EDel (t_str k)
  | _ => None
  end.
(** obs: ["b";err] | ["u";err] | ["D";[dumps];err] | ["E";[dumps];err] | ["F";[dumps];raw;parsed;result] *)
Definition t_obs (t : tree) : option obs :=
  match t with
  | Node [Atom [98%N]; e] => option_map ObsBehavErr (t_err e)
  | Node [Atom [117%N]; e] => option_map ObsBuildErr (t_err e)
  | Node [Atom [68%N]; ds; e] =>
      match t_list t_str ds, t_err e with Some ds, Some e => Some (ObsDumpErr ds e) | _, _ => None end
  | Node [Atom [69%N]; ds; e] =>
      match t_list t_str ds, t_err e with Some ds, Some e => Some (ObsEditErr ds e) | _, _ => None end
  | Node [Atom [70%N]; ds; raw; parsed; d2] =>
      match t_list t_str ds, t_list (t_pair t_str t_str) raw, t_para parsed, t_result t_str d2 with
      | Some ds, Some raw, Some parsed, Some d2 => Some (ObsFull ds raw parsed d2)
      | _, _, _, _ => None
      end
  | _ => None
  end.

Definition t_case (t : tree) : option kase :=
  match t with
  | Node [k; b; pr; build; edits; text; o] =>
      match t_cls k, t_opt t_str b, t_bool pr, t_opt t_para build, t_list t_edit edits, t_str text, t_obs o with
      | Some k, Some b, Some pr, Some build, Some edits, Some text, Some o =>
          Some (mk k b pr build edits text o)
      | _, _, _, _, _, _, _ => None
      end
  | _ => None
  end.

(** [pc ints] : the case; [None] when the literal is malformed (fails [agree]). *)
(** The type of the elements of a shard's case list. *)
Definition case := option kase.
Definition pc (xs : list int) : case :=
  match parse_tree xs with Some t => t_case t | None => None end.

(** ** Equalities *)
Definition rec_eqb (a b : record) : bool := list_eqb (pair_eqb str_eqb str_eqb) a b.
Definition fvalue_eqb (a b : fvalue) : bool :=
  match a, b with
  | Plain s, Plain t => str_eqb s t
  | Single r, Single r' => rec_eqb r r'
  | Multi rs, Multi rs' => list_eqb rec_eqb rs rs'
  | _, _ => false
  end.
Definition para_eqb (a b : para) : bool := list_eqb (pair_eqb str_eqb fvalue_eqb) a b.

(** ** Faithful domain: field names and sub-field names are US-ASCII (the model's
    [ascii_lower] is [str.lower] there). *)
Definition rec_ascii (r : record) : bool := forallb (fun kv => is_ascii (fst kv)) r.
Definition val_keys_ascii (v : fvalue) : bool :=
  match v with
  | Plain _ => true
  | Single r => rec_ascii r
  | Multi rs => forallb rec_ascii rs
  end.
Definition para_ascii (p : para) : bool :=
  forallb (fun kv => is_ascii (fst kv) && val_keys_ascii (snd kv)) p.
Definition edit_ascii (e : edit) : bool :=
  match e with
  | ESetRec k _ r | ERotate k r | EAppend k r => is_ascii k && rec_ascii r
  | ESetSub k _ s _ => is_ascii k && is_ascii s
  | EAssign k v => is_ascii k && val_keys_ascii v
  | EDel k => is_ascii k
  end.

Definition faithful_dom (c : kase) : bool :=
  match c_build c with Some b => para_ascii b | None => true end
  && forallb edit_ascii (c_edits c)
  && match c_obs c with
     | ObsFull _ raw parsed _ => forallb (fun kv => is_ascii (fst kv)) raw && para_ascii parsed
     | _ => true
     end.

(** ** The model run on the case *)
Inductive hist :=
| HDone (dumps : list str) (p : para)
| HDumpErr (before : list str) (e : err)
| HEditErr (before : list str) (e : err).

Fixpoint run_history (k : cls) (b : behav) (ci : bool) (p : para) (es : list edit)
         (acc : list str) : hist :=
  match dump_para k b ci p with
  | Err e => HDumpErr (rev acc) e
  | Ok d =>
      match es with
      | [] => HDone (rev (d :: acc)) p
      | e :: es' =>
          match apply_edit k ci p e with
          | Err x => HEditErr (rev (d :: acc)) x
          | Ok p' => run_history k b ci p' es' (d :: acc)
          end
      end
  end.

Definition stage2_agree (k : cls) (b : behav) (raw : list (str * str))
           (parsed : para) (dump2 : result str) : bool :=
  match mv_init (table_of k) raw with
  | Ok q => para_eqb q parsed && result_eqb str_eqb (dump_para k b true q) dump2
  | Err _ => false
  end.

Definition agree_dom (c : kase) : bool :=
  let k := c_cls c in
  match behav_of (c_behav c) with
  | Err e => match c_obs c with ObsBehavErr e' => err_eqb e e' | _ => false end
  | Ok b =>
      match c_build c with
      | Some ops =>
          match build k ops with
          | Err e => match c_obs c with ObsBuildErr e' => err_eqb e e' | _ => false end
          | Ok p =>
              match run_history k b (negb (c_plainrec c)) p (c_edits c) [] with
              | HDumpErr ds e =>
                  match c_obs c with ObsDumpErr ds' e' => strs_eqb ds ds' && err_eqb e e' | _ => false end
              | HEditErr ds e =>
                  match c_obs c with ObsEditErr ds' e' => strs_eqb ds ds' && err_eqb e e' | _ => false end
              | HDone ds _ =>
                  match c_obs c with
                  | ObsFull ds' raw parsed dump2 => strs_eqb ds ds' && stage2_agree k b raw parsed dump2
                  | _ => false
                  end
              end
          end
      | None =>
          match c_obs c with
          | ObsFull [] raw parsed dump2 => stage2_agree k b raw parsed dump2
          | _ => false
          end
      end
  end.

Definition agree (c : case) : bool :=
  match c with
  | Some c => negb (faithful_dom c) || agree_dom c
  | None => false
  end.

(** ** The property *)

(** The property's domain ([in_domain], [spara_of], [para_of_spara]) is defined in MvSpec.v. *)

(** The states of the object: after the build, after each edit.  The edits are
    Python list/dict operations performed by the caller; their meaning is the
    list/dict semantics of [apply_edit].  Whenever a state is inside the domain
    the dump taken in that state must be the documented text for it (alignment
    by the CURRENT longest size of EACH field included).  [dump_failed]: the
    observation ends with a dump that raised. *)
Fixpoint holds_hist (k : cls) (b : behav) (ci : bool) (p : para) (es : list edit)
         (ds : list str) (dump_failed : bool) : bool :=
  match ds with
  | [] => match in_domain k p with Some _ => negb dump_failed | None => true end
  | d :: ds' =>
      match in_domain k p with Some sp => str_eqb d (spec_dump k b sp) | None => true end
      && match es with
         | [] => true
         | e :: es' =>
             match apply_edit k ci p e with
             | Ok p' => holds_hist k b ci p' es' ds' dump_failed
             | Err _ => true
             end
         end
  end.

Fixpoint final_state (k : cls) (ci : bool) (p : para) (es : list edit) : option para :=
  match es with
  | [] => Some p
  | e :: es' => match apply_edit k ci p e with Ok p' => final_state k ci p' es' | Err _ => None end
  end.

(** (1)+(3) for a built and edited paragraph: every dump taken inside the domain
    succeeds and is the documented text; re-parsing the last dump gives the same
    records in the same order, and the parsed paragraph dumps to the same text. *)
Definition holds_build (c : kase) : bool :=
  match c_build c, behav_of (c_behav c) with
  | Some ops, Ok b =>
      let k := c_cls c in
      let ci := negb (c_plainrec c) in
      match build k ops with
      | Ok p =>
          match c_obs c with
          | ObsFull ds _ parsed dump2 =>
              holds_hist k b ci p (c_edits c) ds false
              && match final_state k ci p (c_edits c) with
                 | Some pn =>
                     match in_domain k pn with
                     | Some sp =>
                         para_eqb parsed (para_of_spara k sp)
                         && result_eqb str_eqb dump2 (Ok (spec_dump k b sp))
                     | None => true
                     end
                 | None => true
                 end
          | ObsDumpErr ds _ => holds_hist k b ci p (c_edits c) ds true
          | ObsEditErr ds _ => holds_hist k b ci p (c_edits c) ds false
          | _ => true
          end
      | Err _ => true
      end
  | _, _ => true
  end.

(** (1) parsing exposes each line as a record with the documented sub-field names;
    (2)+(3) a parsed paragraph all of whose PRESENT structured fields are lists of
    complete records dumps without error — whichever of the class's other
    structured fields are absent — and with the documented alignment. *)
Definition holds_parsed (c : kase) : bool :=
  match c_obs c, behav_of (c_behav c) with
  | ObsFull _ raw parsed dump2, Ok b =>
      let k := c_cls c in
      (length raw =? length parsed)%nat
      && forallb (fun rq =>
           let key := fst (fst rq) in
           str_eqb key (fst (snd rq))
           && match spec_order k key with
              | Some order =>
                  match spec_rows order (snd (fst rq)) with
                  | Some rows => fvalue_eqb (snd (snd rq)) (Multi (spec_records order rows))
                  | None => true
                  end
              | None => fvalue_eqb (snd (snd rq)) (Plain (snd (fst rq)))
              end) (combine raw parsed)
      && match spara_of false k parsed with
         | Some sp => result_eqb str_eqb dump2 (Ok (spec_dump k b sp))
         | None => true
         end
  | _, _ => true
  end.

Definition holds (c : case) : bool :=
  match c with
  | Some c => holds_build c && holds_parsed c
  | None => true
  end.

Definition bad_agree (cs : list case) : list N := bad agree cs.
Definition bad_holds (cs : list case) : list N := bad holds cs.
