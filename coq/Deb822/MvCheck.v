(** Case format evaluated by the correspondence check of C12.

    One case = one run of the public API on ONE object and its re-parse:
      p = K();  [p.size_field_behavior = b];  p[k] = v ... ;  d0 = p.dump()
      edit_1(p); d1 = p.dump(); ... edit_n(p); dn = p.dump()
      text = dn (or the given text when there is no build stage)
      raw = Deb822(text).items();  q = K(text);  [q.size_field_behavior = b];
      parsed = q.items();  d' = q.dump()

    [agree]: the model reproduces every observed stage.
    [holds]: the property, judged on what the implementation did, against MvSpec
             (documented sub-field names, documented alignment):
             - every dump taken in a state of the domain ([in_domain]) is the documented
               text [spec_dump] (C12_dump_is_documented_text), so it exists and is aligned;
             - from a dumpable object under well-formed edits no dump raises
               (C12_always_dumpable);
             - the re-parsed object is the paragraph the spec expects and dumps to the
               same text (C12_paragraph_reparse, C12_domain_paragraph_is_spec);
             - each raw value that reads as rows / as the single-line form was parsed into
               exactly those records (C12_parse_exposes_records, C12_parse_single_line);
             - a parsed text whose present structured fields are complete dumps without
               error whichever fields are absent (C12_parsed_dump_total). *)
From Coq Require Import Uint63.
From Verif Require Import Lib.Base Lib.PyStr Lib.Dec Gen.PyChars Gen.MvTables
  Deb822.Multivalued Deb822.MvSpec Deb822.Packed.

Inductive obs :=
| ObsBehavErr (e : err)                      (* assigning size_field_behavior raised *)
| ObsBuildErr (e : err)                      (* an assignment p[k] = v raised *)
| ObsDumpErr (before : list str) (e : err)   (* a dump of p raised, after these dumps *)
| ObsEditErr (before : list str) (e : err)   (* an edit raised, after these dumps *)
| ObsFull (dumps : list str)                 (* [] : no build stage *)
          (raw : list (str * str))
          (parsed : para)
          (dump2 : result str).

Record kase := mk {
  c_cls : cls;
  c_behav : option str;             (* Release only: value assigned to size_field_behavior *)
  c_plainrec : bool;                (* records handed over as plain dicts (case-sensitive) *)
  c_build : option (list (str * fvalue));
  c_edits : list edit;
  c_text : str;                     (* parsed when there is no build stage *)
  c_obs : obs;
}.

(** ** Decoding of the packed literal *)
Definition t_cls (t : tree) : option cls :=
  match t_N t with
  | Some 0%N => Some Dsc | Some 1%N => Some Changes | Some 2%N => Some BuildInfo
  | Some 3%N => Some PdiffIndex | Some 4%N => Some Release
  | _ => None
  end.
Definition t_rec : tree -> option record := t_list (t_pair t_str t_str).
(** value: ["P"; s] | ["S"; rec] | ["M"; [rec...]] *)
Definition t_val (t : tree) : option fvalue :=
  match t with
  | Node [Atom [80%N]; s] => option_map Plain (t_str s)
  | Node [Atom [83%N]; r] => option_map Single (t_rec r)
  | Node [Atom [77%N]; rs] => option_map Multi (t_list t_rec rs)
  | _ => None
  end.
Definition t_para : tree -> option para := t_list (t_pair t_str t_val).
(** edit: ["r";key;i;rec] | ["s";key;i;sub;v] | ["o";key;rec] | ["a";key;rec] | ["=";key;val] | ["d";key] *)
Definition t_edit (t : tree) : option edit :=
  match t with
  | Node [Atom [114%N]; k; i; r] =>
      match t_str k, t_nat i, t_rec r with Some k, Some i, Some r => Some (ESetRec k i r) | _, _, _ => None end
  | Node [Atom [115%N]; k; i; s; v] =>
      match t_str k, t_nat i, t_str s, t_str v with
      | Some k, Some i, Some s, Some v => Some (ESetSub k i s v) | _, _, _, _ => None end
  | Node [Atom [111%N]; k; r] =>
      match t_str k, t_rec r with Some k, Some r => Some (ERotate k r) | _, _ => None end
  | Node [Atom [97%N]; k; r] =>
      match t_str k, t_rec r with Some k, Some r => Some (EAppend k r) | _, _ => None end
  | Node [Atom [61%N]; k; v] =>
      match t_str k, t_val v with Some k, Some v => Some (EAssign k v) | _, _ => None end
  | Node [Atom [100%N]; k] => option_map EDel (t_str k)
  | _ => None
  end.
(** obs: ["b";err] | ["u";err] | ["D";[dumps];err] | ["E";[dumps];err] | ["F";[dumps];raw;parsed;result] *)
Definition t_obs (t : tree) : option obs :=
  match t with
  | Node [Atom [98%N]; e] => option_map ObsBehavErr (t_err e)
  | Node [Atom [117%N]; e] => option_map ObsBuildErr (t_err e)
  | Node [Atom [68%N]; ds; e] =>
      match t_list t_str ds, t_err e with Some ds, Some e => Some (ObsDumpErr ds e) | _, _ => None end
  | Node [Atom [69%N]; ds; e] =>
      match t_list t_str ds, t_err e with Some ds, Some e => Some (ObsEditErr ds e) | _, _ => None end
  | Node [Atom [70%N]; ds; raw; parsed; d2] =>
      match t_list t_str ds, t_list (t_pair t_str t_str) raw, t_para parsed, t_result t_str d2 with
      | Some ds, Some raw, Some parsed, Some d2 => Some (ObsFull ds raw parsed d2)
      | _, _, _, _ => None
      end
  | _ => None
  end.

Definition t_case (t : tree) : option kase :=
  match t with
  | Node [k; b; pr; build; edits; text; o] =>
      match t_cls k, t_opt t_str b, t_bool pr, t_opt t_para build, t_list t_edit edits, t_str text, t_obs o with
      | Some k, Some b, Some pr, Some build, Some edits, Some text, Some o =>
          Some (mk k b pr build edits text o)
      | _, _, _, _, _, _, _ => None
      end
  | _ => None
  end.

(** ** A faster decoder for the packed literal (same result as [Packed.parse_tree]:
    the symbols stay primitive integers until an atom's text is stored; [n_of_sym] is a
    binary decision tree over the 128 symbol values).  Private to this check. *)
Definition n_of_sym (c : int) : N :=
    (if (c <? 64)%uint63 then (if (c <? 32)%uint63 then (if (c <? 16)%uint63 then (if (c <? 8)%uint63
    then (if (c <? 4)%uint63 then (if (c <? 2)%uint63 then (if (c <? 1)%uint63 then 0%N else 1%N) else
    (if (c <? 3)%uint63 then 2%N else 3%N)) else (if (c <? 6)%uint63 then (if (c <? 5)%uint63 then 4%N
    else 5%N) else (if (c <? 7)%uint63 then 6%N else 7%N))) else (if (c <? 12)%uint63 then (if (c <?
    10)%uint63 then (if (c <? 9)%uint63 then 8%N else 9%N) else (if (c <? 11)%uint63 then 10%N else
    11%N)) else (if (c <? 14)%uint63 then (if (c <? 13)%uint63 then 12%N else 13%N) else (if (c <?
    15)%uint63 then 14%N else 15%N)))) else (if (c <? 24)%uint63 then (if (c <? 20)%uint63 then (if (c
    <? 18)%uint63 then (if (c <? 17)%uint63 then 16%N else 17%N) else (if (c <? 19)%uint63 then 18%N
    else 19%N)) else (if (c <? 22)%uint63 then (if (c <? 21)%uint63 then 20%N else 21%N) else (if (c <?
    23)%uint63 then 22%N else 23%N))) else (if (c <? 28)%uint63 then (if (c <? 26)%uint63 then (if (c <?
    25)%uint63 then 24%N else 25%N) else (if (c <? 27)%uint63 then 26%N else 27%N)) else (if (c <?
    30)%uint63 then (if (c <? 29)%uint63 then 28%N else 29%N) else (if (c <? 31)%uint63 then 30%N else
    31%N))))) else (if (c <? 48)%uint63 then (if (c <? 40)%uint63 then (if (c <? 36)%uint63 then (if (c
    <? 34)%uint63 then (if (c <? 33)%uint63 then 32%N else 33%N) else (if (c <? 35)%uint63 then 34%N
    else 35%N)) else (if (c <? 38)%uint63 then (if (c <? 37)%uint63 then 36%N else 37%N) else (if (c <?
    39)%uint63 then 38%N else 39%N))) else (if (c <? 44)%uint63 then (if (c <? 42)%uint63 then (if (c <?
    41)%uint63 then 40%N else 41%N) else (if (c <? 43)%uint63 then 42%N else 43%N)) else (if (c <?
    46)%uint63 then (if (c <? 45)%uint63 then 44%N else 45%N) else (if (c <? 47)%uint63 then 46%N else
    47%N)))) else (if (c <? 56)%uint63 then (if (c <? 52)%uint63 then (if (c <? 50)%uint63 then (if (c
    <? 49)%uint63 then 48%N else 49%N) else (if (c <? 51)%uint63 then 50%N else 51%N)) else (if (c <?
    54)%uint63 then (if (c <? 53)%uint63 then 52%N else 53%N) else (if (c <? 55)%uint63 then 54%N else
    55%N))) else (if (c <? 60)%uint63 then (if (c <? 58)%uint63 then (if (c <? 57)%uint63 then 56%N else
    57%N) else (if (c <? 59)%uint63 then 58%N else 59%N)) else (if (c <? 62)%uint63 then (if (c <?
    61)%uint63 then 60%N else 61%N) else (if (c <? 63)%uint63 then 62%N else 63%N)))))) else (if (c <?
    96)%uint63 then (if (c <? 80)%uint63 then (if (c <? 72)%uint63 then (if (c <? 68)%uint63 then (if (c
    <? 66)%uint63 then (if (c <? 65)%uint63 then 64%N else 65%N) else (if (c <? 67)%uint63 then 66%N
    else 67%N)) else (if (c <? 70)%uint63 then (if (c <? 69)%uint63 then 68%N else 69%N) else (if (c <?
    71)%uint63 then 70%N else 71%N))) else (if (c <? 76)%uint63 then (if (c <? 74)%uint63 then (if (c <?
    73)%uint63 then 72%N else 73%N) else (if (c <? 75)%uint63 then 74%N else 75%N)) else (if (c <?
    78)%uint63 then (if (c <? 77)%uint63 then 76%N else 77%N) else (if (c <? 79)%uint63 then 78%N else
    79%N)))) else (if (c <? 88)%uint63 then (if (c <? 84)%uint63 then (if (c <? 82)%uint63 then (if (c
    <? 81)%uint63 then 80%N else 81%N) else (if (c <? 83)%uint63 then 82%N else 83%N)) else (if (c <?
    86)%uint63 then (if (c <? 85)%uint63 then 84%N else 85%N) else (if (c <? 87)%uint63 then 86%N else
    87%N))) else (if (c <? 92)%uint63 then (if (c <? 90)%uint63 then (if (c <? 89)%uint63 then 88%N else
    89%N) else (if (c <? 91)%uint63 then 90%N else 91%N)) else (if (c <? 94)%uint63 then (if (c <?
    93)%uint63 then 92%N else 93%N) else (if (c <? 95)%uint63 then 94%N else 95%N))))) else (if (c <?
    112)%uint63 then (if (c <? 104)%uint63 then (if (c <? 100)%uint63 then (if (c <? 98)%uint63 then (if
    (c <? 97)%uint63 then 96%N else 97%N) else (if (c <? 99)%uint63 then 98%N else 99%N)) else (if (c <?
    102)%uint63 then (if (c <? 101)%uint63 then 100%N else 101%N) else (if (c <? 103)%uint63 then 102%N
    else 103%N))) else (if (c <? 108)%uint63 then (if (c <? 106)%uint63 then (if (c <? 105)%uint63 then
    104%N else 105%N) else (if (c <? 107)%uint63 then 106%N else 107%N)) else (if (c <? 110)%uint63 then
    (if (c <? 109)%uint63 then 108%N else 109%N) else (if (c <? 111)%uint63 then 110%N else 111%N))))
    else (if (c <? 120)%uint63 then (if (c <? 116)%uint63 then (if (c <? 114)%uint63 then (if (c <?
    113)%uint63 then 112%N else 113%N) else (if (c <? 115)%uint63 then 114%N else 115%N)) else (if (c <?
    118)%uint63 then (if (c <? 117)%uint63 then 116%N else 117%N) else (if (c <? 119)%uint63 then 118%N
    else 119%N))) else (if (c <? 124)%uint63 then (if (c <? 122)%uint63 then (if (c <? 121)%uint63 then
    120%N else 121%N) else (if (c <? 123)%uint63 then 122%N else 123%N)) else (if (c <? 126)%uint63 then
    (if (c <? 125)%uint63 then 124%N else 125%N) else (if (c <? 127)%uint63 then 126%N else 127%N))))))).
Definition pstate := (list N * list (list tree))%type.
Definition psym (c : int) (st : option pstate) : option pstate :=
  match st with
  | None => None
  | Some (cur, stack) =>
      if (c =? 0)%uint63 then st
      else if (c =? 1)%uint63 then Some ([], [] :: stack)
      else if (c =? 2)%uint63 then
        match stack with
        | top :: next :: rest => Some ([], (Node (rev top) :: next) :: rest)
        | _ => None
        end
      else if (c =? 3)%uint63 then
        match stack with
        | top :: rest => Some ([], (Atom (unesc (rev cur)) :: top) :: rest)
        | [] => None
        end
      else Some (n_of_sym c :: cur, stack)
  end.
Definition pint (st : option pstate) (x : int) : option pstate :=
  psym ((x >> 56) land 127) (psym ((x >> 49) land 127) (psym ((x >> 42) land 127)
  (psym ((x >> 35) land 127) (psym ((x >> 28) land 127) (psym ((x >> 21) land 127)
  (psym ((x >> 14) land 127) (psym ((x >> 7) land 127) (psym (x land 127) st)))))))).
Definition parse_tree_fast (xs : list int) : option tree :=
  match fold_left pint xs (Some ([], [[]])) with
  | Some ([], [[t]]) => Some t
  | _ => None
  end.

(** [pc ints] : the case; [None] when the literal is malformed (fails [agree]). *)
(** The type of the elements of a shard's case list. *)
Definition case := option kase.
Definition pc (xs : list int) : case :=
  match parse_tree_fast xs with Some t => t_case t | None => None end.

(** ** Equalities *)
Definition rec_eqb (a b : record) : bool := list_eqb (pair_eqb str_eqb str_eqb) a b.
Definition fvalue_eqb (a b : fvalue) : bool :=
  match a, b with
  | Plain s, Plain t => str_eqb s t
  | Single r, Single r' => rec_eqb r r'
  | Multi rs, Multi rs' => list_eqb rec_eqb rs rs'
  | _, _ => false
  end.
Definition para_eqb (a b : para) : bool := list_eqb (pair_eqb str_eqb fvalue_eqb) a b.

(** ** Faithful domain: field names and sub-field names are US-ASCII (the model's
    [ascii_lower] is [str.lower] there). *)
Definition rec_ascii (r : record) : bool := forallb (fun kv => is_ascii (fst kv)) r.
Definition val_keys_ascii (v : fvalue) : bool :=
  match v with
  | Plain _ => true
  | Single r => rec_ascii r
  | Multi rs => forallb rec_ascii rs
  end.
Definition para_ascii (p : para) : bool :=
  forallb (fun kv => is_ascii (fst kv) && val_keys_ascii (snd kv)) p.
Definition edit_ascii (e : edit) : bool :=
  match e with
  | ESetRec k _ r | ERotate k r | EAppend k r => is_ascii k && rec_ascii r
  | ESetSub k _ s _ => is_ascii k && is_ascii s
  | EAssign k v => is_ascii k && val_keys_ascii v
  | EDel k => is_ascii k
  end.

Definition faithful_dom (c : kase) : bool :=
  match c_build c with Some b => para_ascii b | None => true end
  && forallb edit_ascii (c_edits c)
  && match c_obs c with
     | ObsFull _ raw parsed _ => forallb (fun kv => is_ascii (fst kv)) raw && para_ascii parsed
     | _ => true
     end.

(** ** The model run on the case *)
Inductive hist :=
| HDone (dumps : list str) (p : para)
| HDumpErr (before : list str) (e : err)
| HEditErr (before : list str) (e : err).

Fixpoint run_history (k : cls) (b : behav) (ci : bool) (p : para) (es : list edit)
         (acc : list str) : hist :=
  match dump_para k b ci p with
  | Err e => HDumpErr (rev acc) e
  | Ok d =>
      match es with
      | [] => HDone (rev (d :: acc)) p
      | e :: es' =>
          match apply_edit k ci p e with
          | Err x => HEditErr (rev (d :: acc)) x
          | Ok p' => run_history k b ci p' es' (d :: acc)
          end
      end
  end.

Definition stage2_agree (k : cls) (b : behav) (raw : list (str * str))
           (parsed : para) (dump2 : result str) : bool :=
  match mv_init (table_of k) raw with
  | Ok q => para_eqb q parsed && result_eqb str_eqb (dump_para k b true q) dump2
  | Err _ => false
  end.

Definition agree_dom (c : kase) : bool :=
  let k := c_cls c in
  match behav_of (c_behav c) with
  | Err e => match c_obs c with ObsBehavErr e' => err_eqb e e' | _ => false end
  | Ok b =>
      match c_build c with
      | Some ops =>
          match build k ops with
          | Err e => match c_obs c with ObsBuildErr e' => err_eqb e e' | _ => false end
          | Ok p =>
              match run_history k b (negb (c_plainrec c)) p (c_edits c) [] with
              | HDumpErr ds e =>
                  match c_obs c with ObsDumpErr ds' e' => strs_eqb ds ds' && err_eqb e e' | _ => false end
              | HEditErr ds e =>
                  match c_obs c with ObsEditErr ds' e' => strs_eqb ds ds' && err_eqb e e' | _ => false end
              | HDone ds _ =>
                  match c_obs c with
                  | ObsFull ds' raw parsed dump2 => strs_eqb ds ds' && stage2_agree k b raw parsed dump2
                  | _ => false
                  end
              end
          end
      | None =>
          match c_obs c with
          | ObsFull [] raw parsed dump2 => stage2_agree k b raw parsed dump2
          | _ => false
          end
      end
  end.

Definition agree (c : case) : bool :=
  match c with
  | Some c => negb (faithful_dom c) || agree_dom c
  | None => false
  end.

(** ** The property *)

(** The property's domain ([in_domain], [spara_of], [para_of_spara]) is defined in MvSpec.v. *)

(** The states of the object: after the build, after each edit.  The edits are
    Python list/dict operations performed by the caller; their meaning is the
    list/dict semantics of [apply_edit].  Whenever a state is inside the domain
    the dump taken in that state must be the documented text for it (alignment
    by the CURRENT longest size of EACH field included).  [dump_failed]: the
    observation ends with a dump that raised. *)
Fixpoint holds_hist (k : cls) (b : behav) (ci : bool) (p : para) (es : list edit)
         (ds : list str) (dump_failed : bool) : bool :=
  match ds with
  | [] => match in_domain k p with Some _ => negb dump_failed | None => true end
  | d :: ds' =>
      match in_domain k p with Some sp => str_eqb d (spec_dump k b sp) | None => true end
      && match es with
         | [] => true
         | e :: es' =>
             match apply_edit k ci p e with
             | Ok p' => holds_hist k b ci p' es' ds' dump_failed
             | Err _ => true
             end
         end
  end.

Fixpoint final_state (k : cls) (ci : bool) (p : para) (es : list edit) : option para :=
  match es with
  | [] => Some p
  | e :: es' => match apply_edit k ci p e with Ok p' => final_state k ci p' es' | Err _ => None end
  end.

(** (1)+(3) for a built and edited paragraph: every dump taken inside the domain
    succeeds and is the documented text; re-parsing the last dump gives the same
    records in the same order, and the parsed paragraph dumps to the same text. *)
Definition holds_build (c : kase) : bool :=
  match c_build c, behav_of (c_behav c) with
  | Some ops, Ok b =>
      let k := c_cls c in
      let ci := negb (c_plainrec c) in
      match build k ops with
      | Ok p =>
          match c_obs c with
          | ObsFull ds _ parsed dump2 =>
              holds_hist k b ci p (c_edits c) ds false
              && match final_state k ci p (c_edits c) with
                 | Some pn =>
                     match in_domain k pn with
                     | Some sp =>
                         para_eqb parsed (para_of_spara k sp)
                         && result_eqb str_eqb dump2 (Ok (spec_dump k b sp))
                     | None => true
                     end
                 | None => true
                 end
          | ObsDumpErr ds _ => holds_hist k b ci p (c_edits c) ds true
          | ObsEditErr ds _ => holds_hist k b ci p (c_edits c) ds false
          | _ => true
          end
          (* "can always be dumped": from a dumpable object, under well-formed edits,
             no dump may raise (the statement of C12_always_dumpable, on the code) *)
          && (if para_dumpable k b ci p && forallb (edit_ok k b ci) (c_edits c)
              then match c_obs c with ObsDumpErr _ _ => false | _ => true end
              else true)
      | Err _ => true
      end
  | _, _ => true
  end.

(** (1) parsing exposes each line as a record with the documented sub-field names
        (one mapping for the single-line form);
    (2)+(3) a parsed paragraph all of whose PRESENT structured fields are lists of
    complete records dumps without error — whichever of the class's other
    structured fields are absent — and with the documented alignment; with
    single-line fields among them ([raw_ok]) it still dumps without error. *)
Definition holds_parsed (c : kase) : bool :=
  match c_obs c, behav_of (c_behav c) with
  | ObsFull _ raw parsed dump2, Ok b =>
      let k := c_cls c in
      (length raw =? length parsed)%nat
      && forallb (fun rq =>
           let key := fst (fst rq) in
           str_eqb key (fst (snd rq))
           && match spec_order k key with
              | Some order =>
                  match spec_rows order (snd (fst rq)) with
                  | Some rows => fvalue_eqb (snd (snd rq)) (Multi (spec_records order rows))
                  | None =>
                      match spec_single order (snd (fst rq)) with
                      | Some toks => fvalue_eqb (snd (snd rq)) (Single (combine order toks))
                      | None => true
                      end
                  end
              | None => fvalue_eqb (snd (snd rq)) (Plain (snd (fst rq)))
              end) (combine raw parsed)
      && match spara_of false k parsed with
         | Some sp => result_eqb str_eqb dump2 (Ok (spec_dump k b sp))
         | None => true
         end
      (* whichever structured fields are present: complete lines (or the single-line
         form where the class supports it) => the dump of the parsed object succeeds *)
      && (if raw_ok k b raw then is_ok dump2 else true)
  | _, _ => true
  end.

Definition holds (c : case) : bool :=
  match c with
  | Some c => holds_build c && holds_parsed c
  | None => true
  end.

Definition bad_agree (cs : list case) : list N := bad agree cs.
Definition bad_holds (cs : list case) : list N := bad holds cs.
