(** Primitives that the regenerated control flow of PkgRelation.str / PkgRelation.parse_relations
    (Gen/TrRelation.v, produced by harness/py2coq.py from lib/debian/deb822.py on every run) calls.
    Everything here is hand-written; every regex leaf is DEFINED THROUGH the model's leaf of
    Deb822/Relation.v ([match_dep], [sep_split], [blank_split], [restr_split], [parse_term]), the str
    methods are the instances of Lib/PyStr.v that the model uses, and a relation dict IS the model's
    Record [rel].  The pattern texts are asserted by the translator spec (harness/props/c13.py): a
    changed pattern fails the translation closed.  No proofs in this file. *)
From Verif Require Import Lib.Base Lib.PyStr Lib.Tr Gen.PyChars Deb822.Relation.

(** * The namedtuples ArchRestriction(enabled, arch) and BuildRestriction(enabled, profile):
      the model's [term]; the constructors and the field reads *)
Definition trp_archr := term.
Definition trp_buildr := term.
Definition trp_arch_restriction (enabled : bool) (arch : str) : trp_archr := (enabled, arch).
Definition trp_build_restriction (enabled : bool) (profile : str) : trp_buildr := (enabled, profile).
Definition trp_archr_enabled (t : trp_archr) : bool := fst t.
Definition trp_archr_arch (t : trp_archr) : str := snd t.
Definition trp_buildr_enabled (t : trp_buildr) : bool := fst t.
Definition trp_buildr_profile (t : trp_buildr) : str := snd t.

(** * A relation dict (ParsedRelation): the model's Record [rel] with the documented keys
      'name' 'archqual' 'version' 'arch' 'restrictions'.  A missing key and a key whose value is
      None are both the Record's [None] (they are the same to [dict.get], the only way the
      formatter looks at the optional keys before it uses them); 'name' is always there. *)
Definition trp_reldict := rel.

(** [dep['name']] *)
Definition trp_rel_item_name (d : trp_reldict) (_ : unit) : str := r_name d.
(** [dep['archqual']]: read as "the key is missing" where the Record has [None] (KeyError; with a
    None-valued key Python would go on and format "None").  The formatter reads it only after
    [dep.get('archqual') is not None]; the tie shows that the branch is never reached. *)
Definition trp_rel_item_archqual (d : trp_reldict) (_ : unit) : result str :=
  match r_archqual d with Some q => Ok q | None => Err KeyError end.
(** [dep.get(key)] for the four optional keys *)
Definition trp_rel_get_archqual (d : trp_reldict) (_ : unit) : option str := r_archqual d.
Definition trp_rel_get_version (d : trp_reldict) (_ : unit) : option (str * str) := r_version d.
Definition trp_rel_get_arch (d : trp_reldict) (_ : unit) : option (list trp_archr) := r_arch d.
Definition trp_rel_get_restrictions (d : trp_reldict) (_ : unit) : option (list (list trp_buildr)) := r_restr d.

(** the dict literal {'name': …, 'archqual': …, 'version': …, 'arch': …, 'restrictions': …} *)
Definition trp_rel_new (name : str) (archqual : option str) (version : option (str * str))
    (arch : option (list trp_archr)) (restrictions : option (list (list trp_buildr))) : trp_reldict :=
  mkRel name archqual version arch restrictions.

(** [d['version'] = (relop, version)] with the two named groups as [groupdict] gives them
    (Optional[str] each).  The model's Record holds a pair of str: a pair with a None component is
    outside what is rendered ([OutOfFuel], as for every "not rendered faithfully" case; Python
    would store it) — the tie shows it never happens: the two groups take part in a match together. *)
Definition trp_rel_set_version (d : trp_reldict) (_ : unit) (v : option str * option str)
    : result (unit * trp_reldict) :=
  match v with
  | (Some o, Some x) => Ok (tt, mkRel (r_name d) (r_archqual d) (Some (o, x)) (r_arch d) (r_restr d))
  | _ => Err OutOfFuel
  end.
(** [d['arch'] = …], [d['restrictions'] = …] *)
Definition trp_rel_set_arch (d : trp_reldict) (_ : unit) (v : list trp_archr) : unit * trp_reldict :=
  (tt, mkRel (r_name d) (r_archqual d) (r_version d) (Some v) (r_restr d)).
Definition trp_rel_set_restrictions (d : trp_reldict) (_ : unit) (v : list (list trp_buildr))
    : unit * trp_reldict :=
  (tt, mkRel (r_name d) (r_archqual d) (r_version d) (r_arch d) (Some v)).

(** * str methods *)
(** [sep.join(iterable of str)] *)
Definition trp_join (sep : str) (l : list str) : str := join sep l.
(** [s.strip()] (no argument: Unicode whitespace) and [s.strip(chars)] *)
Definition trp_strip (s : str) : str := strip_by ws s.
Definition trp_strip_chars (s chars : str) : str := strip_by (in_chars chars) s.
(** [s.lower()]: ASCII lower-casing (claimed for text whose non-ASCII characters str.lower()
    leaves alone — harness ASSUMPTIONS, as for the model) *)
Definition trp_lower (s : str) : str := ascii_lower s.

(** * The regex leaves *)
(** [__comma_sep_RE.split(s)], [__pipe_sep_RE.split(s)], [__blank_sep_RE.split(s)],
    [__restriction_sep_RE.split(s)] *)
Definition trp_comma_split (s : str) : list str := sep_split COMMA s.
Definition trp_pipe_split (s : str) : list str := sep_split PIPE s.
Definition trp_blank_split (s : str) : list str := blank_split s.
Definition trp_restriction_sep_split (s : str) : list str := restr_split s.

(** [__dep_RE.match(raw)]: None or a match object; [match.groupdict()]; the named groups.
    'name' takes part in every match (str); the others are Optional[str]; 'relop' and 'version'
    are the two halves of the model's one optional version group. *)
Definition trp_dep_match_t := dep_groups.
Definition trp_dep_groups := dep_groups.
Definition trp_dep_match (raw : str) : option trp_dep_match_t := match_dep raw.
Definition trp_dep_groupdict (m : trp_dep_match_t) : trp_dep_groups := m.
Definition trp_dep_name (g : trp_dep_groups) (_ : unit) : str := g_name g.
Definition trp_dep_archqual (g : trp_dep_groups) (_ : unit) : option str := g_archqual g.
Definition trp_dep_relop (g : trp_dep_groups) (_ : unit) : option str := option_map fst (g_version g).
Definition trp_dep_version (g : trp_dep_groups) (_ : unit) : option str := option_map snd (g_version g).
Definition trp_dep_archs (g : trp_dep_groups) (_ : unit) : option str := g_archs g.
Definition trp_dep_restrictions (g : trp_dep_groups) (_ : unit) : option str := g_restr g.

(** [__restriction_RE.match(s)], pattern (?P<enabled>\!)?(?P<profile>[^\s]+): the model's
    [parse_term] gives (enabled-is-absent, profile); the group 'enabled', when it took part, is "!" *)
Definition trp_restr_match_t := term.
Definition trp_restr_groups := term.
Definition trp_restriction_match (s : str) : option trp_restr_match_t := parse_term s.
Definition trp_restr_groupdict (m : trp_restr_match_t) : trp_restr_groups := m.
Definition trp_restr_enabled (g : trp_restr_groups) (_ : unit) : option str :=
  if fst g then None else Some [BANG].
Definition trp_restr_profile (g : trp_restr_groups) (_ : unit) : str := snd g.

(** * warnings.warn(message)
      The state threaded through parse_rel / parse_relations is the number of warnings emitted so
      far (what the correspondence observes under the filter "always"; a filter "error" would turn
      the call into an exception — not modelled, as in the model).  Calling convention of a
      primitive on the state (py2coq Call.stateprim): the state, then the arguments. *)
Definition trp_warn (nwarn : N) (_msg : str) : mres unit N := MOk tt (nwarn + 1)%N.
