(** Case format evaluated by the correspondence check of C11.
    [agree]: the model (ListView) reproduces what the implementation did.
    [holds]: the property itself, judged on what the implementation did, against
             ListSpec (never against the model). *)
From Coq Require Import String.
From Verif Require Import Lib.Base Lib.Dec Lib.PyStr Gen.PyChars Repro.ListView Repro.ListSpec.

(** operations as written by the harness *)
Inductive cop :=
| PAppend (x : string)
| PRemove (x : string)
| PReplace (x y : string)
| PSnap
| PRefGet (j : nat)
| PRefSet (j : nat) (x : string)
| PRefRemove (j : nat)
| PSep (b : bool)
| PNewline
| PComment (c : string)
| PReformat.                     (* view.reformat_when_finished(): the write-back goes through the formatter *)

(** what the implementation did on one operation *)
Inductive oobs :=
| ODone (vals : list string) (got : option string)
| OFailed (e : err).

Inductive case :=
(** a session on the field [name] of the document pre ++ name ++ ":" ++ value ++ post *)
| CView (comma : bool) (pre name value post : string) (ops : list cop)
        (o_read : result (list string))        (* list(view) after interpret_as *)
        (o_ops : list oobs)
        (o_close : option err)                 (* exception raised by __exit__ *)
        (o_dump : string)                      (* file.dump() afterwards *)
        (o_valid : bool)                       (* a fresh parse of the dump has no error element *)
        (o_reread : result (list string))      (* fresh parse + fresh interpretation of the dump *)
        (o_again : result (list string))       (* the same kvpair object interpreted again *)
(** the live tokenizer function on a text: class index and text of every token *)
| CTok (comma : bool) (v : string) (out : result (list (N * string)))
(** the live compiled patterns under finditer: the groups of every match (None as "") *)
| CLeafWs (line : string) (ms : list (string * string * string))
| CLeafComma (line : string) (ms : list (string * bool * string * string * string))
(** parse_deb822_file on "name:content": the value text of that field, or the exception *)
| CReparse (name content : string) (out : result string)
(** ListSpec.split_spec against the harness's own splitting oracle (no /repo code) *)
| CSpec (comma : bool) (v : string) (out : list string)
| CSkip.

Definition lk (comma : bool) : lkind := if comma then Comma else Space.

Definition op_of (o : cop) : op :=
  match o with
  | PAppend x => OAppend (dec x)
  | PRemove x => ORemove (dec x)
  | PReplace x y => OReplace (dec x) (dec y)
  | PSnap => OSnap
  | PRefGet j => ORefGet j
  | PRefSet j x => ORefSet j (dec x)
  | PRefRemove j => ORefRemove j
  | PSep b => OSep b
  | PNewline => ONewline
  | PComment c => OComment (dec c)
  (* a reformat request is not an operation of the model ([model_ops] drops it); this image is only
     used by the walk of [holds], which looks at [aop_of] / [silent] / [may_fail] / [is_comment_op] of
     an operation and nothing else: like append_separator, the request does not concern the values
     (AOther), is not a mere read, must not be refused and appends no comment *)
  | PReformat => OSep false
  end.

Definition is_reformat (o : cop) : bool := match o with PReformat => true | _ => false end.

(** the session asked for reformatting (at any point: the flag is never taken back by the operations
    driven here) *)
Definition reformatting (ops : list cop) : bool := existsb is_reformat ops.

(** the operations the model runs *)
Definition model_ops (ops : list cop) : list op :=
  map op_of (filter (fun o => negb (is_reformat o)) ops).

(** reformat_when_finished() sets _changed: the write-back happens also without an edit.  Otherwise
    this is [run_session]. *)
Definition run_session_r (reformat : bool) (k : lkind) (name value : str) (os : list op) : session_result :=
  match interpret k value with
  | Err e => SR (Err e) [] None value
  | Ok vw =>
      let (outs, vf) := run_ops k os vw in
      let (ce, v') := close name value (if reformat then set_changed vf else vf) in
      SR (Ok (view_values vw)) outs ce v'
  end.

(** the model's outcomes with the reformat requests put back: such a request succeeds and leaves
    list(view) as it was *)
Fixpoint expand (ops : list cop) (outs : list outcome) (cur : list str) : list outcome :=
  match ops with
  | [] => outs
  | o :: ops' =>
      if is_reformat o then Done cur None :: expand ops' outs cur
      else match outs with
           | [] => []
           | (Done vals g as x) :: outs' => x :: expand ops' outs' vals
           | (Failed e as x) :: outs' => x :: expand ops' outs' cur
           end
  end.

Definition res_strs (r : result (list string)) : result (list str) :=
  match r with Ok l => Ok (map dec l) | Err e => Err e end.

Definition outcome_eqb (m : outcome) (o : oobs) : bool :=
  match m, o with
  | Done vals got, ODone ovals ogot =>
      strs_eqb vals (map dec ovals) && option_eqb str_eqb got (option_map dec ogot)
  | Failed e, OFailed f => err_eqb e f
  | _, _ => false
  end.

Fixpoint list_eqb2 {A B} (f : A -> B -> bool) (l1 : list A) (l2 : list B) : bool :=
  match l1, l2 with
  | [], [] => true
  | a :: r1, b :: r2 => f a b && list_eqb2 f r1 r2
  | _, _ => false
  end.

Definition kind_index (k : kind) : N :=
  match k with
  | KVal => 0 | KSep => 1 | KWs => 2 | KComma => 3 | KCom => 4 | KCont => 5 | KNl => 6
  end%N.

Definition read_of (k : lkind) (v : str) : result (list str) :=
  match interpret k v with Ok vw => Ok (view_values vw) | Err e => Err e end.

Definition agree (c : case) : bool :=
  match c with
  | CView comma pre name value post ops o_read o_ops o_close o_dump o_valid o_reread o_again =>
      let k := lk comma in
      let rf := reformatting ops in
      let r := run_session_r rf k (dec name) (dec value) (model_ops ops) in
      let dump := dec o_dump in
      result_eqb strs_eqb (sr_read r) (res_strs o_read)
      && list_eqb2 outcome_eqb
           (match sr_read r with Ok l => expand ops (sr_ops r) l | Err _ => sr_ops r end) o_ops
      && option_eqb err_eqb (sr_close r) o_close
      && (if rf && match sr_close r with None => true | Some _ => false end
          then
            (* a reformatted write-back: everything but the layout of the edited field - the text
               before and after it is compared, its own text is not (its reading is, below) *)
            startswith (dec pre ++ dec name ++ [COLON]) dump
            && endswith (dec post) dump
            && (length (dec pre) + length (dec name) + 1 + length (dec post) <=? length dump)%nat
          else str_eqb (doc_of (dec pre) (dec name) (sr_value r) (dec post)) dump)
      && result_eqb strs_eqb (read_of k (sr_value r)) (res_strs o_reread)
      && result_eqb strs_eqb (read_of k (sr_value r)) (res_strs o_again)
  | CTok comma v out =>
      result_eqb (list_eqb (pair_eqb N.eqb str_eqb))
                 (match tokenize (lk comma) (dec v) with
                  | Ok ts => Ok (map (fun t => (kind_index (tk t), tx t)) ts)
                  | Err e => Err e
                  end)
                 (match out with Ok l => Ok (map (fun p => (fst p, dec (snd p))) l) | Err e => Err e end)
  | CLeafWs line ms =>
      match ws_finditer (S (length (dec line))) (dec line) with
      | Ok l => list_eqb2 (fun (a : str * str * str) (b : string * string * string) =>
                             match a, b with (a1, a2, a3), (b1, b2, b3) =>
                               str_eqb a1 (dec b1) && str_eqb a2 (dec b2) && str_eqb a3 (dec b3) end) l ms
      | Err _ => false
      end
  | CLeafComma line ms =>
      match comma_groups (dec line) with
      | Ok l => list_eqb2 (fun g (b : string * bool * string * string * string) =>
                             match b with (b1, b2, b3, b4, b5) =>
                               str_eqb (g_sbc g) (dec b1) && Bool.eqb (g_comma g) b2
                               && str_eqb (g_sbw g) (dec b3) && str_eqb (g_word g) (dec b4)
                               && str_eqb (g_saw g) (dec b5) end) l ms
      | Err _ => false
      end
  | CReparse name content out =>
      result_eqb str_eqb (reparse (dec name) (dec content))
                 (match out with Ok s => Ok (dec s) | Err e => Err e end)
  | CSpec comma v out => strs_eqb (split_spec comma (dec v)) (map dec out)
  | CSkip => true
  end.

(** * The property on the implementation's behaviour *)

Definition aop_of (o : op) : aop :=
  match o with
  | OAppend x => AAppend x
  | ORemove x => ARemove x
  | OReplace x y => AReplace x y
  | OSnap => ASnap
  | ORefGet j => ARefGet j
  | ORefSet j x => ARefSet j x
  | ORefRemove j => ARefRemove j
  | OSep _ | ONewline | OComment _ => AOther
  end.

(** an operation that reads only *)
Definition silent (o : op) : bool := match o with OSnap | ORefGet _ => true | _ => false end.
(** operations the property does not name and that may be refused *)
Definition may_fail (o : op) : bool := match o with ONewline | OComment _ => true | _ => false end.
Definition is_comment_op (o : op) : bool := match o with OComment _ => true | _ => false end.

Record walk_acc := WA {
  w_st : astate;
  w_quiet : bool;          (* nothing but reads was performed *)
  w_good : bool;           (* every value brought in was a good value *)
  w_nocomment : bool;      (* no append_comment was performed *)
}.

(** [None]: the observed behaviour contradicts the abstract list *)
Fixpoint walk (comma : bool) (acc : walk_acc) (ops : list op) (obs : list oobs) : option walk_acc :=
  match ops, obs with
  | [], [] => Some acc
  | o :: ops', ob :: obs' =>
      let st := w_st acc in
      let a := aop_of o in
      match ob with
      | ODone vals got =>
          match a_step a st with
          | None => None                               (* performed an operation that is not applicable *)
          | Some (st', expect) =>
              if strs_eqb (map dec vals) (a_values st')
                 && match expect with
                    | Some v => option_eqb str_eqb (Some v) (option_map dec got)
                    | None => true
                    end
              then walk comma (WA st' (w_quiet acc && silent o)
                                  (w_good acc && forallb (good_value comma) (introduced a))
                                  (w_nocomment acc && negb (is_comment_op o))) ops' obs'
              else None
          end
      | OFailed _ =>
          (* refused: allowed unless the operation is applicable and brings only good values *)
          if is_some (a_step a st) && forallb (good_value comma) (introduced a) && negb (may_fail o)
          then None
          else walk comma acc ops' obs'
      end
  | _, _ => None
  end.

Definition holds (c : case) : bool :=
  match c with
  | CView comma pre name value post ops o_read o_ops o_close o_dump o_valid o_reread o_again =>
      let v := dec value in
      let doc := dec pre ++ dec name ++ [COLON] ++ v ++ dec post in
      let dump := dec o_dump in
      if negb (value_ok v) then true                   (* outside the property's domain *)
      else
        result_eqb strs_eqb (res_strs o_read) (Ok (split_spec comma v))
        && match walk comma (WA (a_init (split_spec comma v)) true true true) (map op_of ops) o_ops with
           | None => false
           | Some acc =>
               let final := a_values (w_st acc) in
               (* what a fresh reading shows of the edited list: a value that was brought in with a
                  comment line inside (comma lists accept "x\n# c\n y") reads back, like every
                  field text, with its comment lines ignored *)
               let final_read := map drop_comment_lines final in
               match o_close with
               | None =>
                   (if w_quiet acc then str_eqb dump doc else true)
                   && startswith (dec pre ++ dec name ++ [COLON]) dump
                   && endswith (dec post) dump
                   && (length (dec pre) + length (dec name) + 1 + length (dec post) <=? length dump)%nat
                   && o_valid
                   && result_eqb strs_eqb (res_strs o_reread) (Ok final_read)
                   && result_eqb strs_eqb (res_strs o_again) (Ok final_read)
               | Some _ =>
                   (* a refused write-back must leave the document as it was, and is only
                      allowed when the list became empty, a value outside the good values
                      was brought in, or a comment was appended *)
                   str_eqb dump doc
                   && negb (nonempty final && w_good acc && w_nocomment acc)
               end
           end
  | _ => true
  end.

Definition bad_agree (cs : list case) : list N := bad agree cs.
Definition bad_holds (cs : list case) : list N := bad holds cs.
