(** [sort_by] (Repro/StructSort.v) is a stable sort for EVERY key function into a
    type whose [<=] is total and transitive: its result is a permutation of its
    argument, ordered by key, and elements whose keys tie keep their relative
    order.  Every key function of the family [sortkey] is such a function
    ([keyfn_total], [keyfn_trans]), so sort_fields(key=...) is a stable sort for
    each of them ([sort_fields_by_*]). *)
From Coq Require Import Permutation Sorted.
From Coq Require Import Lia.
From Verif Require Import Lib.Base Lib.PyStr Repro.Doc Repro.StructSort.

Lemma str_leb_refl a : str_leb a a = true.
Proof. induction a as [|x a IH]; cbn; [reflexivity|]. now rewrite N.ltb_irrefl. Qed.

Lemma str_leb_total a : forall b, str_leb a b = false -> str_leb b a = true.
Proof.
  induction a as [|x a IH]; intros [|y b]; cbn; try discriminate; try reflexivity.
  destruct (x <? y)%N eqn:E1; [discriminate|].
  destruct (y <? x)%N eqn:E2; [reflexivity|]. apply IH.
Qed.

Lemma str_leb_trans a : forall b c, str_leb a b = true -> str_leb b c = true -> str_leb a c = true.
Proof.
  induction a as [|x a IH]; intros [|y b] [|z c]; cbn; try discriminate; try reflexivity.
  destruct (x <? y)%N eqn:E1.
  - intros _. destruct (y <? z)%N eqn:E2.
    + intros _. apply N.ltb_lt in E1, E2. assert (H : (x <? z)%N = true) by (apply N.ltb_lt; lia).
      now rewrite H.
    + destruct (z <? y)%N eqn:E3; [discriminate|]. intros _.
      apply N.ltb_lt in E1. apply N.ltb_ge in E2, E3.
      assert (H : (x <? z)%N = true) by (apply N.ltb_lt; lia). now rewrite H.
  - destruct (y <? x)%N eqn:E2; [discriminate|]. intros Hab.
    apply N.ltb_ge in E1, E2. assert (x = y) by lia. subst y.
    destruct (x <? z)%N; [reflexivity|]. destruct (z <? x)%N; [discriminate|].
    intros Hbc. now apply (IH b c).
Qed.

Lemma str_leb_antisym a : forall b, str_leb a b = true -> str_leb b a = true -> a = b.
Proof.
  induction a as [|x a IH]; intros [|y b]; cbn; try discriminate; try reflexivity.
  destruct (x <? y)%N eqn:E1.
  - intros _. destruct (y <? x)%N eqn:E2; [|discriminate].
    apply N.ltb_lt in E1, E2. lia.
  - destruct (y <? x)%N eqn:E2; [discriminate|]. intros H1 H2.
    apply N.ltb_ge in E1, E2. assert (x = y) by lia. subst. f_equal. now apply IH.
Qed.

(** * Any key function into a totally (pre)ordered type *)

Section SortProofs.
  Context {A K : Type}.
  Variable leb : K -> K -> bool.
  Variable key : A -> K.
  Hypothesis leb_total : forall a b, leb a b = false -> leb b a = true.
  Hypothesis leb_trans : forall a b c, leb a b = true -> leb b c = true -> leb a c = true.

  Definition key_le (x y : A) : Prop := leb (key x) (key y) = true.

  (** [k] and the key of [y] tie: neither is smaller *)
  Definition ties (k : K) (y : A) : bool := leb (key y) k && leb k (key y).

  Lemma leb_refl a : leb a a = true.
  Proof. destruct (leb a a) eqn:E; [reflexivity|]. pose proof (leb_total a a E). congruence. Qed.

  Lemma sort_insert_perm x l : Permutation (sort_insert leb key x l) (x :: l).
  Proof.
    induction l as [|y l IH]; cbn; [reflexivity|].
    destruct (leb (key x) (key y)); [reflexivity|].
    rewrite IH. apply perm_swap.
  Qed.

  Theorem sort_by_perm l : Permutation (sort_by leb key l) l.
  Proof.
    induction l as [|x l IH]; cbn; [reflexivity|].
    rewrite sort_insert_perm. now constructor.
  Qed.

  Lemma sort_insert_sorted x l :
    StronglySorted key_le l -> StronglySorted key_le (sort_insert leb key x l).
  Proof.
    induction l as [|y l IH]; cbn; intros Hs.
    - constructor; constructor.
    - inversion Hs as [|? ? Hl Hy]; subst.
      destruct (leb (key x) (key y)) eqn:E.
      + constructor; [exact Hs|]. constructor; [exact E|].
        rewrite Forall_forall in *. intros z Hz. unfold key_le in *.
        apply (leb_trans _ (key y)); [exact E|now apply Hy].
      + constructor; [now apply IH|].
        rewrite Forall_forall in *. intros z Hz.
        apply (Permutation_in _ (sort_insert_perm x l)) in Hz. destruct Hz as [<-|Hz].
        * now apply leb_total.
        * now apply Hy.
  Qed.

  Theorem sort_by_sorted l : StronglySorted key_le (sort_by leb key l).
  Proof.
    induction l as [|x l IH]; cbn; [constructor|]. now apply sort_insert_sorted.
  Qed.

  (** stability: for every key value, the elements whose key ties with it come
      out in the order in which they went in *)
  Lemma sort_insert_filter k x l :
    filter (ties k) (sort_insert leb key x l) = filter (ties k) (x :: l).
  Proof.
    induction l as [|y l IH]; [reflexivity|]. cbn [sort_insert].
    destruct (leb (key x) (key y)) eqn:E; [reflexivity|].
    cbn [filter] in *. rewrite IH.
    destruct (ties k x) eqn:Ex, (ties k y) eqn:Ey; try reflexivity.
    unfold ties in Ex, Ey. apply andb_true_iff in Ex as [Ex1 _]. apply andb_true_iff in Ey as [_ Ey2].
    rewrite (leb_trans _ _ _ Ex1 Ey2) in E. discriminate.
  Qed.

  Theorem sort_by_stable k l : filter (ties k) (sort_by leb key l) = filter (ties k) l.
  Proof.
    induction l as [|x l IH]; [reflexivity|]. cbn [sort_by fold_right].
    rewrite sort_insert_filter. cbn [filter]. fold (sort_by leb key l). now rewrite IH.
  Qed.

  Lemma sort_by_length l : length (sort_by leb key l) = length l.
  Proof. apply Permutation_length. apply sort_by_perm. Qed.

  (** nothing moves when the list is already in order (in particular when all keys tie) *)
  Lemma sort_insert_front x l :
    Forall (key_le x) l -> sort_insert leb key x l = x :: l.
  Proof. intros H. destruct l as [|y l]; [reflexivity|]. cbn. inversion H; subst. unfold key_le in *. now rewrite H2. Qed.

  Theorem sort_by_sorted_id l : StronglySorted key_le l -> sort_by leb key l = l.
  Proof.
    induction 1 as [|x l Hs IH Hx]; [reflexivity|]. cbn [sort_by fold_right].
    fold (sort_by leb key l). rewrite IH. now apply sort_insert_front.
  Qed.
End SortProofs.

(** for string keys, tying is being equal *)
Lemma str_ties_eqb {A} (key : A -> str) k y : ties str_leb key k y = str_eqb (key y) k.
Proof.
  unfold ties. destruct (str_eqb (key y) k) eqn:E.
  - apply str_eqb_eq in E. rewrite E. now rewrite str_leb_refl.
  - destruct (str_leb (key y) k) eqn:E1, (str_leb k (key y)) eqn:E2; try reflexivity.
    rewrite (str_leb_antisym _ _ E1 E2), str_eqb_refl in E. discriminate.
Qed.

(** * The family of key functions *)

Lemma N_leb_total a b : N.leb a b = false -> N.leb b a = true.
Proof. intros H. apply N.leb_gt in H. apply N.leb_le. lia. Qed.

Lemma N_leb_trans a b c : N.leb a b = true -> N.leb b c = true -> N.leb a c = true.
Proof. intros H1 H2. apply N.leb_le in H1, H2. apply N.leb_le. lia. Qed.

Lemma bool_leb_total a b : bool_leb a b = false -> bool_leb b a = true.
Proof. now destruct a, b. Qed.

Lemma bool_leb_trans a b c : bool_leb a b = true -> bool_leb b c = true -> bool_leb a c = true.
Proof. now destruct a, b, c. Qed.

Lemma keyfn_total k a b : k_leb (keyfn_of k) a b = false -> k_leb (keyfn_of k) b a = true.
Proof.
  destruct k; cbn [keyfn_of k_leb k_ty] in *;
    first [apply str_leb_total|apply N_leb_total|apply bool_leb_total].
Qed.

Lemma keyfn_trans k a b c :
  k_leb (keyfn_of k) a b = true -> k_leb (keyfn_of k) b c = true -> k_leb (keyfn_of k) a c = true.
Proof.
  destruct k; cbn [keyfn_of k_leb k_ty] in *;
    first [apply str_leb_trans|apply N_leb_trans|apply bool_leb_trans].
Qed.

(** sort_fields(key=k), for every [k] of the family: a permutation of the fields, *)
Theorem sort_fields_by_perm k fs : Permutation (sort_fields_by k fs) fs.
Proof. apply sort_by_perm. Qed.

(** in key order, *)
Theorem sort_fields_by_sorted k fs :
  StronglySorted (fun x y => k_leb (keyfn_of k) (field_key k x) (field_key k y) = true) (sort_fields_by k fs).
Proof. apply (sort_by_sorted _ _ (keyfn_total k) (keyfn_trans k)). Qed.

(** and the fields that tie with a given field [g] (the same key: e.g. names of the
    same length under [KLen], all fields under [KConst]) are, among themselves, in
    the order they had: in particular the occurrences of a repeated field stay
    interleaved with the fields of other names that tie with them *)
Theorem sort_fields_by_stable k g fs :
  filter (key_tie k g) (sort_fields_by k fs) = filter (key_tie k g) fs.
Proof.
  assert (E : forall l, filter (key_tie k g) l = filter (ties (k_leb (keyfn_of k)) (field_key k) (field_key k g)) l).
  { intros l. apply filter_ext. intros f. unfold key_tie, ties. apply andb_comm. }
  rewrite !E. apply (sort_by_stable _ _ (keyfn_trans k)).
Qed.

(** the default key: fields tie exactly when their lower-cased names are equal *)
Theorem sort_default_stable n fs :
  filter (fun f => str_eqb (lower (f_name f)) n) (sort_fields_by KDefault fs)
  = filter (fun f => str_eqb (lower (f_name f)) n) fs.
Proof.
  assert (E : forall l, filter (fun f => str_eqb (lower (f_name f)) n) l
                        = filter (ties str_leb (field_key KDefault) n) l).
  { intros l. apply filter_ext. intros f. symmetry. apply (str_ties_eqb (field_key KDefault)). }
  rewrite !E. apply (sort_by_stable _ _ str_leb_trans).
Qed.

(** what "tie" means for each key function of the family *)
Lemma str_leb_both a b : str_leb a b && str_leb b a = str_eqb a b.
Proof. exact (str_ties_eqb (fun x : str => x) b a). Qed.

Lemma N_leb_both a b : (N.leb a b && N.leb b a = N.eqb a b)%N.
Proof.
  destruct (N.eqb a b) eqn:E.
  - apply N.eqb_eq in E. subst. now rewrite N.leb_refl.
  - apply N.eqb_neq in E. destruct (N.leb a b) eqn:E1, (N.leb b a) eqn:E2; try reflexivity.
    apply N.leb_le in E1, E2. lia.
Qed.

Theorem key_tie_meaning f g :
  key_tie KDefault f g = str_eqb (lower (f_name f)) (lower (f_name g))
  /\ key_tie KLen f g = (N.of_nat (length (f_name f)) =? N.of_nat (length (f_name g)))%N
  /\ key_tie KConst f g = true
  /\ key_tie KXLast f g = Bool.eqb (startswith X_DASH (lower (f_name f))) (startswith X_DASH (lower (f_name g)))
  /\ key_tie KFirstChar f g = str_eqb (lower (firstn 1 (f_name f))) (lower (firstn 1 (f_name g)))
  /\ key_tie KExact f g = str_eqb (f_name f) (f_name g).
Proof.
  unfold key_tie, field_key. cbn [keyfn_of k_leb k_of k_ty].
  repeat split; try apply str_leb_both; try apply N_leb_both.
  now destruct (startswith X_DASH (lower (f_name f))), (startswith X_DASH (lower (f_name g))).
Qed.
