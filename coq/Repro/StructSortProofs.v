(** [sort_by] (Repro/StructSort.v) is a stable sort: its result is a permutation
    of its argument, ordered by key, and elements with equal keys keep their
    relative order. *)
From Coq Require Import Permutation Sorted.
From Verif Require Import Lib.Base Repro.StructSort.

Lemma str_leb_refl a : str_leb a a = true.
Proof. induction a as [|x a IH]; cbn; [reflexivity|]. now rewrite N.ltb_irrefl. Qed.

Lemma str_leb_total a : forall b, str_leb a b = false -> str_leb b a = true.
Proof.
  induction a as [|x a IH]; intros [|y b]; cbn; try discriminate; try reflexivity.
  destruct (x <? y)%N eqn:E1; [discriminate|].
  destruct (y <? x)%N eqn:E2; [reflexivity|]. apply IH.
Qed.

Lemma str_leb_trans a : forall b c, str_leb a b = true -> str_leb b c = true -> str_leb a c = true.
Proof.
  induction a as [|x a IH]; intros [|y b] [|z c]; cbn; try discriminate; try reflexivity.
  destruct (x <? y)%N eqn:E1.
  - intros _. destruct (y <? z)%N eqn:E2.
    + intros _. apply N.ltb_lt in E1, E2. assert (H : (x <? z)%N = true) by (apply N.ltb_lt; lia).
      now rewrite H.
    + destruct (z <? y)%N eqn:E3; [discriminate|]. intros _.
      apply N.ltb_lt in E1. apply N.ltb_ge in E2, E3.
      assert (H : (x <? z)%N = true) by (apply N.ltb_lt; lia). now rewrite H.
  - destruct (y <? x)%N eqn:E2; [discriminate|]. intros Hab.
    apply N.ltb_ge in E1, E2. assert (x = y) by lia. subst y.
    destruct (x <? z)%N; [reflexivity|]. destruct (z <? x)%N; [discriminate|].
    intros Hbc. now apply (IH b c).
Qed.

Lemma str_leb_antisym a : forall b, str_leb a b = true -> str_leb b a = true -> a = b.
Proof.
  induction a as [|x a IH]; intros [|y b]; cbn; try discriminate; try reflexivity.
  destruct (x <? y)%N eqn:E1.
  - intros _. destruct (y <? x)%N eqn:E2; [|discriminate].
    apply N.ltb_lt in E1, E2. lia.
  - destruct (y <? x)%N eqn:E2; [discriminate|]. intros H1 H2.
    apply N.ltb_ge in E1, E2. assert (x = y) by lia. subst. f_equal. now apply IH.
Qed.

Section SortProofs.
  Context {A : Type}.
  Variable key : A -> str.

  Definition key_le (x y : A) : Prop := str_leb (key x) (key y) = true.

  Lemma sort_insert_perm x l : Permutation (sort_insert key x l) (x :: l).
  Proof.
    induction l as [|y l IH]; cbn; [reflexivity|].
    destruct (str_leb (key x) (key y)); [reflexivity|].
    rewrite IH. apply perm_swap.
  Qed.

  Theorem sort_by_perm l : Permutation (sort_by key l) l.
  Proof.
    induction l as [|x l IH]; cbn; [reflexivity|].
    rewrite sort_insert_perm. now constructor.
  Qed.

  Lemma sort_insert_sorted x l :
    StronglySorted key_le l -> StronglySorted key_le (sort_insert key x l).
  Proof.
    induction l as [|y l IH]; cbn; intros Hs.
    - constructor; constructor.
    - inversion Hs as [|? ? Hl Hy]; subst.
      destruct (str_leb (key x) (key y)) eqn:E.
      + constructor; [exact Hs|]. constructor; [exact E|].
        rewrite Forall_forall in *. intros z Hz. unfold key_le in *.
        apply (str_leb_trans _ (key y)); [exact E|now apply Hy].
      + constructor; [now apply IH|].
        rewrite Forall_forall in *. intros z Hz.
        apply (Permutation_in _ (sort_insert_perm x l)) in Hz. destruct Hz as [<-|Hz].
        * now apply str_leb_total.
        * now apply Hy.
  Qed.

  Theorem sort_by_sorted l : StronglySorted key_le (sort_by key l).
  Proof.
    induction l as [|x l IH]; cbn; [constructor|]. now apply sort_insert_sorted.
  Qed.

  (** stability: for every key value, the elements carrying it come out in the
      order in which they went in *)
  Lemma sort_insert_filter k x l :
    filter (fun y => str_eqb (key y) k) (sort_insert key x l) =
    filter (fun y => str_eqb (key y) k) (x :: l).
  Proof.
    induction l as [|y l IH]; [reflexivity|]. cbn [sort_insert].
    destruct (str_leb (key x) (key y)) eqn:E; [reflexivity|].
    cbn [filter] in *. rewrite IH.
    destruct (str_eqb (key x) k) eqn:Ex, (str_eqb (key y) k) eqn:Ey; try reflexivity.
    apply str_eqb_eq in Ex, Ey. rewrite Ex, Ey, str_leb_refl in E. discriminate.
  Qed.

  Theorem sort_by_stable k l :
    filter (fun y => str_eqb (key y) k) (sort_by key l) = filter (fun y => str_eqb (key y) k) l.
  Proof.
    induction l as [|x l IH]; [reflexivity|]. cbn [sort_by fold_right].
    rewrite sort_insert_filter. cbn [filter]. fold (sort_by key l). now rewrite IH.
  Qed.

  Lemma sort_by_length l : length (sort_by key l) = length l.
  Proof. apply Permutation_length. apply sort_by_perm. Qed.
End SortProofs.
