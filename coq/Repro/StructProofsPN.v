(** C10 proofs, part 1: what the reference's plans depend on, the candidate lists,
    and the no-duplicates paragraph class against the list reference. *)
From Coq Require Import Permutation.
From Verif Require Import Lib.Base Lib.PyStr Gen.PyChars Repro.Doc Repro.StructSort
  Repro.Struct Repro.StructSpec Repro.StructLemmas.

(** * Plans depend on the names only *)

Lemma has_name_by_name n f g : f_name f = f_name g -> has_name n f = has_name n g.
Proof. unfold has_name. now intros ->. Qed.

Lemma occ_count_names n fs gs : map f_name fs = map f_name gs -> occ_count n fs = occ_count n gs.
Proof.
  unfold occ_count. revert gs. induction fs as [|f fs IH]; destruct gs as [|g gs]; cbn; try discriminate; auto.
  intros [= Hn Hr]. rewrite (has_name_by_name n f g Hn).
  destruct (has_name n g); cbn; now rewrite (IH gs Hr).
Qed.

Lemma mask_all_names n fs gs : map f_name fs = map f_name gs -> mask_all n fs = mask_all n gs.
Proof.
  unfold mask_all. revert gs. induction fs as [|f fs IH]; destruct gs as [|g gs]; cbn; try discriminate; auto.
  intros [= Hn Hr]. now rewrite (has_name_by_name n f g Hn), (IH gs Hr).
Qed.

Lemma map_false_names (fs gs : list field) :
  map f_name fs = map f_name gs -> map (fun _ => false) fs = map (fun _ => false) gs.
Proof.
  revert gs. induction fs as [|f fs IH]; destruct gs as [|g gs]; cbn; try discriminate; auto.
  intros [= _ Hr]. now rewrite (IH gs Hr).
Qed.

Lemma mask_nth_names n fs : forall i gs,
  map f_name fs = map f_name gs -> mask_nth n i fs = mask_nth n i gs.
Proof.
  induction fs as [|f fs IH]; intros i [|g gs]; cbn; try discriminate; auto.
  intros [= Hn Hr]. rewrite (has_name_by_name n f g Hn).
  destruct (has_name n g).
  - destruct i; [now rewrite (map_false_names fs gs Hr)|now rewrite (IH i gs Hr)].
  - now rewrite (IH i gs Hr).
Qed.

Lemma select_names w n idx fs gs :
  map f_name fs = map f_name gs -> select w n idx fs = select w n idx gs.
Proof.
  intros H. unfold select. rewrite (occ_count_names n fs gs H).
  destruct idx as [i|].
  - now rewrite (mask_nth_names n fs _ gs H).
  - destruct (occ_count n gs); [reflexivity|].
    now rewrite (mask_all_names n fs gs H), !(mask_nth_names n fs _ gs H).
Qed.

Lemma sp_plan_names o fs gs : map f_name fs = map f_name gs -> sp_plan o fs = sp_plan o gs.
Proof.
  intros H. destruct o; cbn; unfold select_key;
    try (destruct (key_parts k) as [n idx]);
    rewrite ?(select_names _ _ _ fs gs H), ?(occ_count_names _ fs gs H); reflexivity.
Qed.

Lemma sp_plan_nl o fs : sp_plan o (nl fs) = sp_plan o fs.
Proof. apply sp_plan_names. apply names_nl. Qed.

(** * The candidate list, unfolded *)

Definition refused (fs : list field) : list (bool * list field) := [(true, fs); (true, nl fs)].

Lemma sp_cands_unfold o fs :
  sp_cands o fs =
  match sp_plan o fs with
  | Some (pl, neg) =>
      [(false, run_plan pl (nl fs)); (false, run_plan pl fs)] ++ (if neg then refused fs else [])
  | None => refused fs
  end.
Proof.
  unfold sp_cands, sp_apply. rewrite sp_plan_nl.
  destruct (sp_plan o fs) as [[pl neg]|]; reflexivity.
Qed.

Definition may_refuse (o : pop) (fs : list field) : bool :=
  match sp_plan o fs with None => true | Some (_, neg) => neg end.

Lemma refuse_in o fs g :
  may_refuse o fs = true -> g = fs \/ g = nl fs -> In (true, g) (sp_cands o fs).
Proof.
  unfold may_refuse. rewrite sp_cands_unfold. intros H Hg.
  destruct (sp_plan o fs) as [[pl neg]|].
  - subst neg. cbn. destruct Hg as [->| ->]; auto.
  - cbn. destruct Hg as [->| ->]; auto.
Qed.

Lemma accept_in o fs pl neg g :
  sp_plan o fs = Some (pl, neg) -> g = run_plan pl (nl fs) \/ g = run_plan pl fs ->
  In (false, g) (sp_cands o fs).
Proof.
  intros H Hg. rewrite sp_cands_unfold, H. cbn. destruct Hg as [->| ->]; auto.
Qed.

(** * Case-insensitively distinct names *)

Definition lname (f : field) : str := lower (f_name f).
Definition names_nodup (fs : list field) : bool := nodupb (map lname fs).

Lemma str_eqb_sym a b : str_eqb a b = str_eqb b a.
Proof.
  destruct (str_eqb a b) eqn:E, (str_eqb b a) eqn:F; try reflexivity.
  - apply str_eqb_eq in E. subst. now rewrite str_eqb_refl in F.
  - apply str_eqb_eq in F. subst. now rewrite str_eqb_refl in E.
Qed.

Lemma existsb_lname n fs :
  existsb (str_eqb (lower n)) (map lname fs) = existsb (has_name n) fs.
Proof.
  induction fs as [|f fs IH]; cbn; [reflexivity|].
  rewrite IH. f_equal. unfold has_name, name_eqb, lname. apply str_eqb_sym.
Qed.

Lemma names_nodup_cons f fs :
  names_nodup (f :: fs) = negb (existsb (has_name (f_name f)) fs) && names_nodup fs.
Proof. unfold names_nodup. cbn. now rewrite <- existsb_lname. Qed.

Lemma existsb_has_name_app n a b :
  existsb (has_name n) (a ++ b) = existsb (has_name n) a || existsb (has_name n) b.
Proof. apply existsb_app. Qed.

Lemma not_exists_forall {A} (p : A -> bool) l :
  existsb p l = false -> forallb (fun y => negb (p y)) l = true.
Proof.
  induction l as [|y l IH]; cbn; [reflexivity|].
  intros H. apply orb_false_iff in H as [H1 H2]. now rewrite H1, IH.
Qed.

Lemma forall_not_exists {A} (p : A -> bool) l :
  forallb (fun y => negb (p y)) l = true -> existsb p l = false.
Proof.
  induction l as [|y l IH]; cbn; [reflexivity|].
  intros H. apply andb_true_iff in H as [H1 H2]. apply negb_true_iff in H1. now rewrite H1, IH.
Qed.

(** in a list with distinct names the field called [n] is alone *)
Lemma names_nodup_split n a x b :
  names_nodup (a ++ x :: b) = true -> has_name n x = true ->
  forallb (fun y => negb (has_name n y)) a = true /\ forallb (fun y => negb (has_name n y)) b = true.
Proof.
  assert (Hc : forall y, has_name n x = true -> has_name n y = has_name (f_name x) y).
  { intros y Hx. apply has_name_cong. unfold has_name in Hx. now rewrite name_eqb_sym. }
  induction a as [|y a IH]; cbn [app]; intros H Hx.
  - rewrite names_nodup_cons in H. apply andb_true_iff in H as [H _].
    apply negb_true_iff in H. split; [reflexivity|].
    apply not_exists_forall in H. rewrite forallb_forall in *. intros z Hz.
    rewrite (Hc z Hx). now apply H.
  - rewrite names_nodup_cons in H. apply andb_true_iff in H as [Hy H].
    destruct (IH H Hx) as [Ha Hb]. split; [|exact Hb].
    cbn. rewrite Ha, andb_true_r.
    apply negb_true_iff in Hy. rewrite existsb_has_name_app in Hy.
    apply orb_false_iff in Hy as [_ Hy]. cbn in Hy. apply orb_false_iff in Hy as [Hy _].
    (* has_name (f_name y) x = false, so y is not called n *)
    apply negb_true_iff. destruct (has_name n y) eqn:E; [|reflexivity].
    assert (has_name (f_name y) x = true); [|congruence].
    unfold has_name in *. rewrite name_eqb_sym in E.
    apply (name_eqb_trans _ n); [exact Hx|exact E].
Qed.

Lemma names_nodup_names fs gs : map f_name fs = map f_name gs -> names_nodup fs = names_nodup gs.
Proof.
  intros H. unfold names_nodup. f_equal.
  assert (E : map lname fs = map lower (map f_name fs)) by now rewrite map_map.
  assert (F : map lname gs = map lower (map f_name gs)) by now rewrite map_map.
  now rewrite E, F, H.
Qed.

Lemma names_nodup_nl fs : names_nodup (nl fs) = names_nodup fs.
Proof. apply names_nodup_names. apply names_nl. Qed.

(** [nodupb] is [NoDup] *)
Lemma existsb_str_In a l : existsb (str_eqb a) l = true <-> In a l.
Proof.
  rewrite existsb_exists. split.
  - intros (x & Hx & E). apply str_eqb_eq in E. now subst.
  - intros H. exists a. split; [exact H|apply str_eqb_refl].
Qed.

Lemma nodupb_NoDup l : nodupb l = true <-> NoDup l.
Proof.
  induction l as [|a l IH]; cbn.
  - split; [constructor|reflexivity].
  - rewrite andb_true_iff, negb_true_iff, IH. split.
    + intros [H1 H2]. constructor; [|exact H2]. intros Hin. apply existsb_str_In in Hin. congruence.
    + intros H. inversion H as [|? ? H1 H2]; subst. split; [|exact H2].
      destruct (existsb (str_eqb a) l) eqn:E; [|reflexivity]. apply existsb_str_In in E. contradiction.
Qed.

Lemma names_nodup_perm fs gs : Permutation fs gs -> names_nodup fs = true -> names_nodup gs = true.
Proof.
  unfold names_nodup. rewrite !nodupb_NoDup. intros P.
  apply Permutation_NoDup. now apply Permutation_map.
Qed.

(** * Masks in a list with distinct names *)

Lemma mask_nth_absent n fs i :
  forallb (fun y => negb (has_name n y)) fs = true -> mask_nth n i fs = map (has_name n) fs.
Proof.
  induction fs as [|f fs IH]; cbn; [reflexivity|].
  intros H. apply andb_true_iff in H as [Hf H]. apply negb_true_iff in Hf. rewrite Hf.
  now rewrite IH.
Qed.

Lemma map_has_name_absent n fs :
  forallb (fun y => negb (has_name n y)) fs = true -> map (has_name n) fs = map (fun _ => false) fs.
Proof.
  induction fs as [|f fs IH]; cbn; [reflexivity|].
  intros H. apply andb_true_iff in H as [Hf H]. apply negb_true_iff in Hf. now rewrite Hf, IH.
Qed.

Lemma mask_nth0_alone n a x b :
  forallb (fun y => negb (has_name n y)) a = true -> has_name n x = true ->
  forallb (fun y => negb (has_name n y)) b = true ->
  mask_nth n 0 (a ++ x :: b) = map (has_name n) (a ++ x :: b).
Proof.
  intros Ha Hx Hb. induction a as [|y a IH]; cbn.
  - rewrite Hx. now rewrite (map_has_name_absent n b Hb).
  - cbn in Ha. apply andb_true_iff in Ha as [Hy Ha]. apply negb_true_iff in Hy. rewrite Hy.
    now rewrite (IH Ha).
Qed.

Lemma occ_count_alone n a x b :
  forallb (fun y => negb (has_name n y)) a = true -> has_name n x = true ->
  forallb (fun y => negb (has_name n y)) b = true ->
  occ_count n (a ++ x :: b) = 1.
Proof.
  intros Ha Hx Hb. unfold occ_count. rewrite filter_app. cbn. rewrite Hx.
  now rewrite (forallb_negb_filter _ a Ha), (forallb_negb_filter _ b Hb).
Qed.

Lemma occ_count_absent n fs :
  forallb (fun y => negb (has_name n y)) fs = true -> occ_count n fs = 0.
Proof. intros H. unfold occ_count. now rewrite (forallb_negb_filter _ fs H). Qed.

(** the key of the no-duplicates class: a name, the index is 0 or absent *)
Lemma unpack_true_ok k n x :
  unpack_key k true = Ok (n, x) ->
  x = None /\ fst (key_parts k) = n /\ (snd (key_parts k) = None \/ snd (key_parts k) = Some 0%Z).
Proof.
  destruct k as [m|m i]; cbn.
  - intros [= <- <-]. auto.
  - destruct (i =? 0)%Z eqn:E; [|discriminate]. intros [= <- <-].
    apply Z.eqb_eq in E. subst. auto.
Qed.

Lemma unpack_true_err k e :
  unpack_key k true = Err e ->
  e = KeyError /\ exists i, snd (key_parts k) = Some i /\ i <> 0%Z.
Proof.
  destruct k as [m|m i]; cbn; [discriminate|].
  destruct (i =? 0)%Z eqn:E; [discriminate|]. intros [= <-].
  apply Z.eqb_neq in E. eauto.
Qed.

Lemma pn_select_present w k n x a f b :
  unpack_key k true = Ok (n, x) ->
  forallb (fun y => negb (has_name n y)) a = true -> has_name n f = true ->
  forallb (fun y => negb (has_name n y)) b = true ->
  select_key w k (a ++ f :: b) = Some (map (has_name n) (a ++ f :: b), false).
Proof.
  intros Hk Ha Hf Hb. destruct (unpack_true_ok _ _ _ Hk) as (_ & Hn & Hi).
  unfold select_key, select. rewrite Hn, (occ_count_alone n a f b Ha Hf Hb).
  destruct Hi as [-> | ->].
  - destruct w; unfold mask_all; now rewrite ?(mask_nth0_alone n a f b Ha Hf Hb).
  - cbn. now rewrite (mask_nth0_alone n a f b Ha Hf Hb).
Qed.

Lemma pn_select_absent w k n x fs :
  unpack_key k true = Ok (n, x) ->
  forallb (fun y => negb (has_name n y)) fs = true ->
  select_key w k fs = None.
Proof.
  intros Hk Ha. destruct (unpack_true_ok _ _ _ Hk) as (_ & Hn & Hi).
  unfold select_key, select. rewrite Hn, (occ_count_absent n fs Ha).
  destruct Hi as [-> | ->]; reflexivity.
Qed.

Lemma occ_count_le1 n fs : names_nodup fs = true -> occ_count n fs <= 1.
Proof.
  intros H. destruct (List.find (has_name n) fs) as [f|] eqn:E.
  - destruct (find_split _ _ _ E) as (a & b & -> & Hf & Ha).
    destruct (names_nodup_split n a f b H Hf) as [_ Hb].
    now rewrite (occ_count_alone n a f b Ha Hf Hb).
  - rewrite (occ_count_absent n fs (find_none_forall _ _ E)). lia.
Qed.

(** an indexed key other than (name, 0) may always be refused in a list with distinct names *)
Lemma pn_select_bad_index w k e fs :
  names_nodup fs = true -> unpack_key k true = Err e ->
  match select_key w k fs with None => True | Some (_, neg) => neg = true end.
Proof.
  intros Hn Hk. destruct (unpack_true_err _ _ Hk) as (_ & i & Hi & Hne).
  unfold select_key, select. rewrite Hi.
  pose proof (occ_count_le1 (fst (key_parts k)) fs Hn) as Hc.
  destruct (i <? 0)%Z eqn:Eneg.
  - destruct (_ || _); [exact I|reflexivity].
  - apply Z.ltb_ge in Eneg.
    assert (E : ((i <? 0)%Z || (Z.of_nat (occ_count (fst (key_parts k)) fs) <=? i)%Z) = true).
    { apply orb_true_iff. right. apply Z.leb_le. lia. }
    now rewrite E.
Qed.

(** * order_first / order_last *)

Section PN.
Variable fs : list field.
Hypothesis Hnd : names_nodup fs = true.

Lemma nl_nodup : names_nodup (nl fs) = true.
Proof. now rewrite names_nodup_nl. Qed.

Lemma pn_first_last_refines (last : bool) k :
  let r := if last then nd_order_last fs k else nd_order_first fs k in
  let po := if last then PLast k else PFirst k in
  In (match fst r with Some _ => true | None => false end, snd r) (sp_cands po fs)
  /\ names_nodup (snd r) = true.
Proof.
  cbn zeta.
  assert (Hsel : sp_plan (if last then PLast k else PFirst k) fs =
                 match select_key WAll k fs with
                 | Some (m, neg) => Some (if last then PlLast m else PlFirst m, neg)
                 | None => None
                 end).
  { destruct last; cbn; destruct (select_key WAll k fs) as [[m neg]|]; reflexivity. }
  destruct (unpack_key k true) as [[n x]|e] eqn:Hk.
  - (* a plain name *)
    assert (Hr : (if last then nd_order_last fs k else nd_order_first fs k) =
                 nd_reorder (nl fs) n (if last then (fun f l => l ++ [f]) else (fun f l => f :: l))).
    { destruct last; unfold nd_order_last, nd_order_first; now rewrite Hk. }
    rewrite Hr. unfold nd_reorder.
    destruct (List.find (has_name n) (nl fs)) as [f|] eqn:Ef.
    + destruct (find_split _ _ _ Ef) as (a & b & Eab & Hf & Ha).
      destruct (names_nodup_split n a f b) as [_ Hb]; [rewrite <- Eab; apply nl_nodup|exact Hf|].
      cbn [fst snd ok]. rewrite Eab, (remove_first_app _ a f b Ha Hf).
      split.
      * eapply accept_in with (pl := if last then PlLast (map (has_name n) (a ++ f :: b))
                                       else PlFirst (map (has_name n) (a ++ f :: b))) (neg := false).
        -- rewrite Hsel. rewrite <- (sp_plan_nl (if last then PLast k else PFirst k)) in *.
           clear Hsel.
           assert (Hs : select_key WAll k fs = Some (map (has_name n) (a ++ f :: b), false)).
           { unfold select_key. rewrite <- (select_names WAll _ _ (nl fs) fs (names_nl fs)).
             rewrite Eab. apply (pn_select_present WAll k n x a f b Hk Ha Hf Hb). }
           now rewrite Hs.
        -- left. rewrite Eab.
           destruct last; cbn [run_plan]; unfold mv_last, mv_first;
             rewrite pick_map_id, unpick_map_id, !filter_app; cbn [filter]; rewrite Hf; cbn [negb];
             rewrite (forallb_negb_filter _ a Ha), (forallb_negb_filter _ b Hb),
                     (forallb_negb_filter_neg _ a Ha), (forallb_negb_filter_neg _ b Hb);
             cbn; now rewrite ?app_nil_r, <- ?app_assoc.
      * apply (names_nodup_perm (a ++ f :: b)); [|rewrite <- Eab; apply nl_nodup].
        destruct last.
        -- rewrite <- app_assoc. apply Permutation_app_head. apply Permutation_cons_append.
        -- symmetry. apply Permutation_middle.
    + (* the name is not there: KeyError, the newline may have been supplied *)
      cbn [fst snd fail]. split; [|apply nl_nodup].
      apply refuse_in; [|now right].
      unfold may_refuse. rewrite Hsel.
      assert (Hs : select_key WAll k fs = None).
      { unfold select_key. rewrite <- (select_names WAll _ _ (nl fs) fs (names_nl fs)).
        apply (pn_select_absent WAll k n x (nl fs) Hk (find_none_forall _ _ Ef)). }
      now rewrite Hs.
  - (* an index other than 0 *)
    assert (Hr : (if last then nd_order_last fs k else nd_order_first fs k) = fail e fs).
    { destruct last; unfold nd_order_last, nd_order_first; now rewrite Hk. }
    rewrite Hr. cbn [fst snd fail]. split; [|exact Hnd].
    apply refuse_in; [|now left].
    unfold may_refuse. rewrite Hsel.
    pose proof (pn_select_bad_index WAll k e fs Hnd Hk) as H.
    destruct (select_key WAll k fs) as [[m neg]|]; [now subst|reflexivity].
Qed.

End PN.

(** * order_before / order_after *)

Lemma insert_before_span (q : field -> bool) f l :
  insert_before q f l =
  fst (span (fun y => negb (q y)) l) ++ f :: snd (span (fun y => negb (q y)) l).
Proof.
  induction l as [|y l IH]; cbn; [reflexivity|].
  destruct (q y); cbn; [reflexivity|].
  rewrite IH. destruct (span (fun y0 => negb (q y0)) l). reflexivity.
Qed.

Lemma insert_after_span (q : field -> bool) f l :
  insert_after q f l =
  fst (span (fun y => negb (q y)) l) ++
  match snd (span (fun y => negb (q y)) l) with x :: b => x :: f :: b | [] => [f] end.
Proof.
  induction l as [|y l IH]; cbn; [reflexivity|].
  destruct (q y); cbn; [reflexivity|].
  rewrite IH. destruct (span (fun y0 => negb (q y0)) l). reflexivity.
Qed.

(** the reference's relative move, with masks given by predicates *)
Lemma mv_rel_map {X} (p q : X -> bool) (g : X -> field) l after :
  mv_rel after (map p l) (map q l) (map g l) =
  let a := fst (span (fun x => negb (q x)) (filter (fun x => negb (p x)) l)) in
  let b := snd (span (fun x => negb (q x)) (filter (fun x => negb (p x)) l)) in
  match b with
  | x :: b' =>
      if after then map g a ++ g x :: map g (filter p l) ++ map g b'
      else map g a ++ map g (filter p l) ++ g x :: map g b'
  | [] => map g a ++ map g (filter p l)
  end.
Proof.
  unfold mv_rel. rewrite combine_map, (unpick_map p (fun x => (q x, g x))), span_map.
  rewrite pick_map. cbn beta zeta iota delta [fst snd].
  destruct (span _ _) as [a b]. cbn [fst snd].
  destruct b as [|x b']; cbn [map]; rewrite !map_map; cbn [snd]; reflexivity.
Qed.

Lemma overlap_map {X} (p q : X -> bool) l :
  overlap (map p l) (map q l) = existsb (fun x => p x && q x) l.
Proof.
  unfold overlap. rewrite combine_map. induction l as [|x l IH]; cbn; [reflexivity|]. now rewrite IH.
Qed.

Lemma span_absent {A} (p : A -> bool) l :
  forallb p l = true -> span p l = (l, []).
Proof.
  induction l as [|y l IH]; cbn; [reflexivity|].
  intros H. apply andb_true_iff in H as [Hy H]. now rewrite Hy, (IH H).
Qed.

Lemma span_hit {A} (p : A -> bool) a x b :
  forallb p a = true -> p x = false -> span p (a ++ x :: b) = (a, x :: b).
Proof.
  induction a as [|y a IH]; cbn; intros Ha Hx.
  - now rewrite Hx.
  - apply andb_true_iff in Ha as [Hy Ha]. now rewrite Hy, (IH Ha Hx).
Qed.

Lemma pn_plan_rel (after : bool) k r l :
  sp_plan (if after then PAfter k r else PBefore k r) l =
  match select_key WAll k l, select_key (if after then WLast else WFirst) r l with
  | Some (m, neg), Some (rm, neg') =>
      if overlap m rm then None else Some (PlRel after m rm, neg || neg')
  | _, _ => None
  end.
Proof. destruct after; reflexivity. Qed.

Section PNRel.
Variable fs : list field.
Hypothesis Hnd : names_nodup fs = true.

Lemma select_key_nl w k : select_key w k (nl fs) = select_key w k fs.
Proof. unfold select_key. apply select_names. apply names_nl. Qed.

Lemma pn_rel_refines after k r :
  let res := nd_order_rel after fs k r in
  In (match fst res with Some _ => true | None => false end, snd res)
     (sp_cands (if after then PAfter k r else PBefore k r) fs)
  /\ names_nodup (snd res) = true.
Proof.
  cbn zeta. unfold nd_order_rel. change (map_last add_nl fs) with (nl fs).
  set (po := if after then PAfter k r else PBefore k r).
  set (wr := if after then WLast else WFirst).
  destruct (unpack_key k true) as [[n x]|e] eqn:Hk.
  2:{ cbn [fst snd fail]. split; [|exact Hnd]. apply refuse_in; [|now left].
      unfold may_refuse, po. rewrite (pn_plan_rel after k r fs).
      pose proof (pn_select_bad_index WAll k e fs Hnd Hk) as H.
      destruct (select_key WAll k fs) as [[m neg]|]; [subst neg|reflexivity].
      destruct (select_key _ r fs) as [[rm neg']|]; [|reflexivity].
      destruct (overlap m rm); reflexivity. }
  destruct (unpack_key r true) as [[rn y]|e] eqn:Hr.
  2:{ cbn [fst snd fail]. split; [|exact Hnd]. apply refuse_in; [|now left].
      unfold may_refuse, po. rewrite (pn_plan_rel after k r fs).
      pose proof (pn_select_bad_index wr r e fs Hnd Hr) as H. fold wr.
      destruct (select_key WAll k fs) as [[m neg]|]; [|reflexivity].
      destruct (select_key wr r fs) as [[rm neg']|]; [subst neg'|reflexivity].
      destruct (overlap m rm); [reflexivity|apply orb_true_r]. }
  pose proof (nl_nodup fs Hnd) as Hnl.
  (* where the two names are in the list *)
  assert (Hplan : sp_plan po fs = sp_plan po (nl fs)) by (symmetry; apply sp_plan_nl).
  destruct (name_eqb n rn) eqn:Esame.
  { (* the same field: ValueError *)
    cbn [fst snd fail]. split; [|exact Hnl]. apply refuse_in; [|now right].
    unfold may_refuse. rewrite Hplan. unfold po. rewrite (pn_plan_rel after k r (nl fs)).
    destruct (List.find (has_name n) (nl fs)) as [f|] eqn:Ef.
    - destruct (find_split _ _ _ Ef) as (a & b & Eab & Hf & Ha).
      destruct (names_nodup_split n a f b) as [_ Hb]; [now rewrite <- Eab|exact Hf|].
      rewrite Eab, (pn_select_present WAll k n x a f b Hk Ha Hf Hb).
      assert (Hc : forall g, has_name rn g = has_name n g).
      { intros g. apply has_name_cong. now rewrite name_eqb_sym. }
      assert (Ha' : forallb (fun y0 => negb (has_name rn y0)) a = true).
      { erewrite forallb_ext; [exact Ha|]. intros g. now rewrite Hc. }
      assert (Hb' : forallb (fun y0 => negb (has_name rn y0)) b = true).
      { erewrite forallb_ext; [exact Hb|]. intros g. now rewrite Hc. }
      rewrite (pn_select_present _ r rn y a f b Hr Ha'); [|now rewrite Hc|exact Hb'].
      rewrite overlap_map.
      assert (E : existsb (fun g => has_name n g && has_name rn g) (a ++ f :: b) = true).
      { rewrite existsb_app. cbn. now rewrite Hc, Hf, orb_true_r. }
      now rewrite E.
    - now rewrite (pn_select_absent WAll k n x (nl fs) Hk (find_none_forall _ _ Ef)). }
  cbn [negb].
  destruct (existsb (has_name rn) (nl fs)) eqn:Eref; cbn [negb].
  2:{ (* no reference: KeyError *)
    cbn [fst snd fail]. split; [|exact Hnl]. apply refuse_in; [|now right].
    unfold may_refuse. rewrite Hplan. unfold po. rewrite (pn_plan_rel after k r (nl fs)).
    rewrite (pn_select_absent _ r rn y (nl fs) Hr (not_exists_forall _ _ Eref)).
    destruct (select_key WAll k (nl fs)) as [[m neg]|]; reflexivity. }
  unfold nd_reorder.
  destruct (List.find (has_name n) (nl fs)) as [f|] eqn:Ef.
  2:{ cbn [fst snd fail]. split; [|exact Hnl]. apply refuse_in; [|now right].
      unfold may_refuse. rewrite Hplan. unfold po. rewrite (pn_plan_rel after k r (nl fs)).
      now rewrite (pn_select_absent WAll k n x (nl fs) Hk (find_none_forall _ _ Ef)). }
  destruct (find_split _ _ _ Ef) as (a & b & Eab & Hf & Ha).
  destruct (names_nodup_split n a f b) as [_ Hb]; [now rewrite <- Eab|exact Hf|].
  (* the reference is among the others *)
  assert (Hfr : has_name rn f = false).
  { destruct (has_name rn f) eqn:E; [|reflexivity].
    unfold has_name in *. rewrite name_eqb_sym in Hf.
    rewrite (name_eqb_trans _ _ _ Hf E) in Esame. discriminate. }
  rewrite Eab in Eref. rewrite existsb_app in Eref. cbn [existsb] in Eref. rewrite Hfr in Eref.
  cbn [orb] in Eref. rewrite <- existsb_app in Eref.
  destruct (List.find (has_name rn) (a ++ b)) as [rf|] eqn:Erf.
  2:{ rewrite find_existsb, Erf in Eref. discriminate. }
  destruct (find_split _ _ _ Erf) as (c & d & Ecd & Hrf & Hc).
  cbn [fst snd ok]. rewrite Eab, (remove_first_app _ a f b Ha Hf).
  (* the model's answer *)
  assert (Hmodel : (if after then insert_after (has_name rn) else insert_before (has_name rn)) f (a ++ b)
                   = if after then c ++ rf :: f :: d else c ++ f :: rf :: d).
  { destruct after; rewrite ?insert_after_span, ?insert_before_span, Ecd;
      rewrite (span_hit _ c rf d Hc) by (now rewrite Hrf); reflexivity. }
  rewrite Hmodel.
  (* the selected masks *)
  assert (Hselk : select_key WAll k (a ++ f :: b) = Some (map (has_name n) (a ++ f :: b), false))
    by (apply (pn_select_present WAll k n x a f b Hk Ha Hf Hb)).
  assert (Hrsplit : exists a2 b2, a ++ f :: b = a2 ++ rf :: b2
                    /\ forallb (fun y0 => negb (has_name rn y0)) a2 = true
                    /\ forallb (fun y0 => negb (has_name rn y0)) b2 = true).
  { assert (Hn2 : names_nodup (a ++ f :: b) = true) by now rewrite <- Eab.
    assert (Hin : In rf (a ++ f :: b)).
    { assert (In rf (a ++ b)) by (rewrite Ecd; apply in_or_app; right; now left).
      apply in_app_or in H. apply in_or_app. destruct H; [now left|right; now right]. }
    apply in_split in Hin. destruct Hin as (a2 & b2 & E2). exists a2, b2. split; [exact E2|].
    rewrite E2 in Hn2. apply (names_nodup_split rn a2 rf b2 Hn2 Hrf). }
  destruct Hrsplit as (a2 & b2 & E2 & Ha2 & Hb2).
  assert (Hselr : select_key wr r (a ++ f :: b) = Some (map (has_name rn) (a ++ f :: b), false)).
  { rewrite E2. apply (pn_select_present wr r rn y a2 rf b2 Hr Ha2 Hrf Hb2). }
  assert (Hov : overlap (map (has_name n) (a ++ f :: b)) (map (has_name rn) (a ++ f :: b)) = false).
  { rewrite overlap_map. apply forall_not_exists. rewrite forallb_forall. intros g Hg.
    apply negb_true_iff. destruct (has_name n g) eqn:E1; [|reflexivity]. cbn.
    destruct (has_name rn g) eqn:E3; [|reflexivity].
    unfold has_name in E1, E3. rewrite name_eqb_sym in E1.
    rewrite (name_eqb_trans _ _ _ E1 E3) in Esame. discriminate. }
  split.
  - eapply accept_in with (pl := PlRel after (map (has_name n) (a ++ f :: b))
                                   (map (has_name rn) (a ++ f :: b))) (neg := false).
    + rewrite Hplan. unfold po. rewrite (pn_plan_rel after k r (nl fs)). fold wr.
      rewrite Eab, Hselk, Hselr, Hov. reflexivity.
    + left. rewrite Eab. cbn [run_plan].
      rewrite <- (map_id (a ++ f :: b)) at 3. rewrite mv_rel_map. cbn zeta.
      assert (Hfilt : filter (fun g => negb (has_name n g)) (a ++ f :: b) = a ++ b).
      { rewrite filter_app. cbn [filter]. rewrite Hf. cbn [negb].
        now rewrite (forallb_negb_filter_neg _ a Ha), (forallb_negb_filter_neg _ b Hb). }
      assert (Hpick : filter (has_name n) (a ++ f :: b) = [f]).
      { rewrite filter_app. cbn [filter]. rewrite Hf.
        now rewrite (forallb_negb_filter _ a Ha), (forallb_negb_filter _ b Hb). }
      rewrite Hfilt, Hpick, Ecd, (span_hit _ c rf d Hc) by (now rewrite Hrf).
      cbn [fst snd]. rewrite !map_id. destruct after; cbn; reflexivity.
  - apply (names_nodup_perm (a ++ f :: b)); [|now rewrite <- Eab].
    transitivity (f :: a ++ b); [symmetry; apply Permutation_middle|].
    rewrite Ecd. destruct after.
    + transitivity (c ++ f :: rf :: d); [apply Permutation_middle|].
      apply Permutation_app_head. apply perm_swap.
    + apply Permutation_middle.
Qed.

End PNRel.

(** * sort_fields, set_kvpair_element, remove_kvpair_element *)

From Verif Require Import Repro.StructSortProofs.

Lemma pn_sort_refines sk fs :
  names_nodup fs = true ->
  In (false, nd_sort sk fs) (sp_cands (PSort sk) fs) /\ names_nodup (nd_sort sk fs) = true.
Proof.
  intros Hnd. split.
  - eapply accept_in with (pl := PlSort sk) (neg := false); [reflexivity|]. left. reflexivity.
  - unfold nd_sort. apply (names_nodup_perm (nl fs)); [|now rewrite names_nodup_nl].
    symmetry. apply sort_fields_by_perm.
Qed.

Lemma set_mask_alone n v a f b :
  forallb (fun y => negb (has_name n y)) a = true -> has_name n f = true ->
  forallb (fun y => negb (has_name n y)) b = true ->
  set_mask (map (has_name n) (a ++ f :: b)) v (a ++ f :: b) = a ++ v :: b.
Proof.
  intros Ha Hf Hb. induction a as [|y a IH]; cbn.
  - rewrite Hf. f_equal. rewrite unpick_map_id. now apply forallb_negb_filter_neg.
  - cbn in Ha. apply andb_true_iff in Ha as [Hy Ha]. apply negb_true_iff in Hy. rewrite Hy.
    now rewrite (IH Ha).
Qed.

Lemma replace_first_app {A} (p : A -> bool) v a x b :
  forallb (fun y => negb (p y)) a = true -> p x = true ->
  replace_first p v (a ++ x :: b) = a ++ v :: b.
Proof.
  induction a as [|y a IH]; cbn; intros Ha Hx.
  - now rewrite Hx.
  - apply andb_true_iff in Ha as [Hy Ha]. apply negb_true_iff in Hy. rewrite Hy. now rewrite IH.
Qed.

Lemma pn_plan_set k v l :
  sp_plan (PSetF k v) l =
  if negb (has_name (fst (key_parts k)) v) then None else
  match occ_count (fst (key_parts k)) l with
  | O => match snd (key_parts k) with
         | None => Some (PlAdd v, false)
         | Some i => if (i =? 0)%Z then Some (PlAdd v, true) else None
         end
  | S _ => match select_key WAll k l with
           | Some (m, neg) => Some (PlSet m v, neg)
           | None => None
           end
  end.
Proof. cbn. unfold select_key. destruct (key_parts k). reflexivity. Qed.

Lemma pn_set_refines fs k v :
  names_nodup fs = true ->
  match nd_set_kvpair fs k v with
  | Ok fs' => In (false, fs') (sp_cands (PSetF k v) fs) /\ names_nodup fs' = true
  | Err _ => In (true, fs) (sp_cands (PSetF k v) fs)
  end.
Proof.
  intros Hnd. unfold nd_set_kvpair.
  destruct (unpack_key k true) as [[n x]|e] eqn:Hk; cbn [bind].
  2:{ apply refuse_in; [|now left]. unfold may_refuse. rewrite pn_plan_set.
      destruct (negb _); [reflexivity|].
      destruct (unpack_true_err _ _ Hk) as (_ & i & Hi & Hne).
      destruct (occ_count _ fs).
      - rewrite Hi. apply Z.eqb_neq in Hne. now rewrite Hne.
      - pose proof (pn_select_bad_index WAll k e fs Hnd Hk) as H.
        destruct (select_key WAll k fs) as [[m neg]|]; [now subst|reflexivity]. }
  destruct (unpack_true_ok _ _ _ Hk) as (_ & Hn & Hi). cbn [fst].
  assert (Hhn : has_name n v = name_eqb n (f_name v)) by (unfold has_name; apply name_eqb_sym).
  destruct (name_eqb n (f_name v)) eqn:Ename; cbn [negb].
  2:{ apply refuse_in; [|now left]. unfold may_refuse. rewrite pn_plan_set, Hn, Hhn. reflexivity. }
  assert (Hc : forall g, has_name (f_name v) g = has_name n g).
  { intros g. apply has_name_cong. now rewrite name_eqb_sym. }
  rewrite (find_existsb (has_name (f_name v)) fs).
  destruct (List.find (has_name (f_name v)) fs) as [f|] eqn:Ef.
  - destruct (find_split _ _ _ Ef) as (a & b & Eab & Hf & Ha).
    rewrite Hc in Hf. assert (Ha' : forallb (fun y => negb (has_name n y)) a = true).
    { rewrite <- Ha. apply forallb_ext. intros g. now rewrite (Hc g). }
    destruct (names_nodup_split n a f b) as [_ Hb]; [now rewrite <- Eab|exact Hf|].
    assert (Hf' : has_name (f_name v) f = true) by (now rewrite (Hc f)).
    rewrite Eab. cbn match. rewrite (replace_first_app _ v a f b Ha Hf').
    split.
    + eapply accept_in with (pl := PlSet (map (has_name n) (a ++ f :: b)) v) (neg := false).
      * rewrite pn_plan_set, Hn, Hhn. cbn [negb]. rewrite (occ_count_alone n a f b Ha' Hf Hb).
        now rewrite (pn_select_present WAll k n x a f b Hk Ha' Hf Hb).
      * right. cbn [run_plan]. now rewrite (set_mask_alone n v a f b Ha' Hf Hb).
    + rewrite Eab in Hnd. rewrite <- Hnd. unfold names_nodup. f_equal.
      rewrite !map_app. cbn. f_equal. f_equal.
      unfold lname. unfold has_name in Hf. apply name_eqb_eq in Hf. apply name_eqb_eq in Ename. congruence.
  - pose proof (find_none_forall _ _ Ef) as Habs.
    assert (Habs' : forallb (fun y => negb (has_name n y)) fs = true).
    { rewrite <- Habs. apply forallb_ext. intros g. now rewrite (Hc g). }
    split.
    + destruct Hi as [Hi|Hi].
      * eapply accept_in with (pl := PlAdd v) (neg := false).
        -- rewrite pn_plan_set, Hn, Hhn, Hi, (occ_count_absent n fs Habs'). reflexivity.
        -- left. reflexivity.
      * eapply accept_in with (pl := PlAdd v) (neg := true).
        -- rewrite pn_plan_set, Hn, Hhn, Hi, (occ_count_absent n fs Habs'). reflexivity.
        -- left. reflexivity.
    + apply (names_nodup_perm (v :: nl fs)); [apply Permutation_cons_append|].
      rewrite names_nodup_cons, names_nodup_nl, Hnd, andb_true_r.
      apply negb_true_iff. apply forall_not_exists.
      rewrite forallb_forall in *. intros g Hg.
      destruct (list_snoc_cases fs) as [->|(a & z & ->)]; [destruct Hg|].
      unfold nl in Hg. rewrite map_last_snoc in Hg. apply in_app_or in Hg. destruct Hg as [Hg|[<-|[]]].
      * apply Habs. apply in_or_app. now left.
      * rewrite has_name_add_nl. apply Habs. apply in_or_app. right. now left.
Qed.

Lemma pn_plan_del k l :
  sp_plan (PDel k) l = match select_key WAll k l with
                       | Some (m, neg) => Some (PlDel m, neg) | None => None end.
Proof. reflexivity. Qed.

Lemma pn_remove_refines fs k :
  names_nodup fs = true ->
  match nd_remove fs k with
  | Ok fs' => In (false, fs') (sp_cands (PDel k) fs) /\ names_nodup fs' = true
  | Err _ => In (true, fs) (sp_cands (PDel k) fs)
  end.
Proof.
  intros Hnd. unfold nd_remove.
  destruct (unpack_key k true) as [[n x]|e] eqn:Hk; cbn [bind].
  2:{ apply refuse_in; [|now left]. unfold may_refuse. rewrite pn_plan_del.
      pose proof (pn_select_bad_index WAll k e fs Hnd Hk) as H.
      destruct (select_key WAll k fs) as [[m neg]|]; [now subst|reflexivity]. }
  cbn [fst]. rewrite (find_existsb (has_name n) fs).
  destruct (List.find (has_name n) fs) as [f|] eqn:Ef.
  - destruct (find_split _ _ _ Ef) as (a & b & Eab & Hf & Ha).
    destruct (names_nodup_split n a f b) as [_ Hb]; [now rewrite <- Eab|exact Hf|].
    rewrite Eab, (remove_first_app _ a f b Ha Hf). split.
    + eapply accept_in with (pl := PlDel (map (has_name n) (a ++ f :: b))) (neg := false).
      * rewrite pn_plan_del. now rewrite (pn_select_present WAll k n x a f b Hk Ha Hf Hb).
      * right. cbn [run_plan]. rewrite unpick_map_id, filter_app. cbn [filter]. rewrite Hf. cbn [negb].
        now rewrite (forallb_negb_filter_neg _ a Ha), (forallb_negb_filter_neg _ b Hb).
    + rewrite Eab in Hnd. clear -Hnd. induction a as [|y a IH]; cbn [app] in *.
      * rewrite names_nodup_cons in Hnd. now apply andb_true_iff in Hnd as [_ Hnd].
      * rewrite names_nodup_cons in *. apply andb_true_iff in Hnd as [Hy Hnd].
        rewrite (IH Hnd), andb_true_r. apply negb_true_iff. apply negb_true_iff in Hy.
        rewrite existsb_app in *. cbn in Hy. apply orb_false_iff in Hy as [H1 H2].
        apply orb_false_iff in H2 as [_ H2]. now rewrite H1, H2.
  - apply refuse_in; [|now left]. unfold may_refuse. rewrite pn_plan_del.
    now rewrite (pn_select_absent WAll k n x fs Hk (find_none_forall _ _ Ef)).
Qed.
