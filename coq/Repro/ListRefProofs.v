(** Proofs for C11, part 3: edits through value references (whitespace-separated lists).
    The session of the model refines the abstract list-with-identities machine of
    ListSpec ([a_step]) under a renaming [phi] of node identities. *)
From Verif Require Import Lib.Base Lib.PyStr Gen.PyChars Repro.ListView Repro.ListSpec
  Repro.ListLemmas Repro.ListProofs Repro.ListEditProofs.
From Coq Require Import Lia.

Definition isvaln (n : node) : bool := is_value (snd n).
Definition vnodes (vw : view) : list node := filter isvaln (v_nodes vw).
Definition g (phi : N -> N) (n : node) : N * str := (phi (fst n), render (snd n)).

Lemma values_of_nodes ns : values_of (map snd ns) = map (fun n => render (snd n)) (filter isvaln ns).
Proof.
  induction ns as [|n ns IH]; [reflexivity|]. cbn [map]. rewrite values_of_cons. cbn [filter].
  unfold isvaln at 1. destruct (is_value (snd n)); cbn [map app]; now rewrite IH.
Qed.

Lemma view_values_nodes vw : view_values vw = map (fun n => render (snd n)) (vnodes vw).
Proof. unfold view_values, v_items, vnodes. apply values_of_nodes. Qed.

(** * identities *)

Definition ids_ok (vw : view) : Prop :=
  NoDup (map fst (v_nodes vw))
  /\ Forall (fun n => (fst n < v_next vw)%N) (v_nodes vw)
  /\ Forall (fun id => (id < v_next vw)%N) (v_refs vw)
  /\ (forall id it, In id (v_refs vw) -> In (id, it) (v_nodes vw) -> is_value it = true).

Lemma find_id_some id : forall ns i0 i, find_id id ns i0 = Some i ->
  exists npre it npost, ns = npre ++ (id, it) :: npost /\ i = i0 + length npre.
Proof.
  induction ns as [|[j it] ns IH]; intros i0 i H; [discriminate|]. cbn [find_id] in H.
  destruct (N.eqb_spec j id) as [->|Hne].
  - injection H as <-. exists [], it, ns. split; [reflexivity|simpl; lia].
  - destruct (IH _ _ H) as [npre [it' [npost [-> ->]]]]. exists ((j, it) :: npre), it', npost.
    split; [reflexivity|simpl; lia].
Qed.

Lemma find_id_none id : forall ns i0, find_id id ns i0 = None -> ~ In id (map fst ns).
Proof.
  induction ns as [|[j it] ns IH]; intros i0 H; [intros []|]. cbn [find_id] in H.
  destruct (N.eqb_spec j id) as [->|Hne]; [discriminate|]. intros [E|E]; [now apply Hne|].
  now apply (IH _ H).
Qed.

Lemma NoDup_split_notin (ns1 : list node) id it ns2 :
  NoDup (map fst (ns1 ++ (id, it) :: ns2)) -> ~ In id (map fst ns1) /\ ~ In id (map fst ns2).
Proof.
  rewrite map_app. cbn [map fst]. intros H. apply NoDup_remove_2 in H. rewrite in_app_iff in H. tauto.
Qed.

Lemma in_filter_fst (ns : list node) id : In id (map fst (filter isvaln ns)) -> In id (map fst ns).
Proof.
  rewrite !in_map_iff. intros [n [E Hn]]. apply filter_In in Hn. exists n. tauto.
Qed.

(** * the abstraction relation *)

Definition relevant (vw : view) (id : N) : Prop := In id (map fst (vnodes vw)) \/ In id (v_refs vw).

Definition R (phi : N -> N) (vw : view) (st : astate) : Prop :=
  a_list st = map (g phi) (vnodes vw)
  /\ a_refs st = map phi (v_refs vw)
  /\ (forall id, relevant vw id -> (phi id < a_next st)%N)
  /\ (forall id id', relevant vw id -> relevant vw id' -> phi id = phi id' -> id = id').

Definition nofst (a : N) (l : list (N * str)) : bool := forallb (fun p => negb (fst p =? a)%N) l.

(** the entry of a value node in the abstract list is the only one with its identity *)
Lemma split_entry phi vw VX id it VZ :
  vnodes vw = VX ++ (id, it) :: VZ -> NoDup (map fst (v_nodes vw)) ->
  (forall id id', relevant vw id -> relevant vw id' -> phi id = phi id' -> id = id') ->
  nofst (phi id) (map (g phi) VX) = true /\ nofst (phi id) (map (g phi) VZ) = true.
Proof.
  intros Ev Hnd Hinj.
  assert (Hnd' : NoDup (map fst (vnodes vw))).
  { unfold vnodes. clear -Hnd. induction (v_nodes vw) as [|n ns IH]; [constructor|].
    cbn [map] in Hnd. inversion Hnd; subst. cbn [filter]. destruct (isvaln n); [|auto].
    cbn [map]. constructor; [|auto]. intros Hin. apply in_filter_fst in Hin. contradiction. }
  rewrite Ev in Hnd'. destruct (NoDup_split_notin _ _ _ _ Hnd') as [N1 N2].
  assert (Hrel : forall n, In n (vnodes vw) -> relevant vw (fst n)).
  { intros n Hn. left. now apply in_map. }
  unfold nofst. split; apply forallb_forall; intros p Hp; apply in_map_iff in Hp;
    destruct Hp as [n [<- Hn]]; cbn [g fst]; apply negb_true_iff, N.eqb_neq; intros E.
  - apply Hinj in E; [|apply Hrel; rewrite Ev; apply in_or_app; now left|apply (Hrel (id, it)); rewrite Ev; apply in_or_app; right; now left].
    apply N1. rewrite <- E. now apply in_map.
  - apply Hinj in E; [|apply Hrel; rewrite Ev; apply in_or_app; right; now right|apply (Hrel (id, it)); rewrite Ev; apply in_or_app; right; now left].
    apply N2. rewrite <- E. now apply in_map.
Qed.

Lemma lookup_split a v A1 A2 : nofst a A1 = true -> lookup_id a (A1 ++ (a, v) :: A2) = Some v.
Proof.
  unfold lookup_id, nofst. induction A1 as [|p A1 IH]; intros H.
  - cbn. now rewrite N.eqb_refl.
  - cbn [forallb] in H. apply andb_true_iff in H. destruct H as [Hp H]. apply negb_true_iff in Hp.
    cbn [app List.find]. rewrite Hp. now apply IH.
Qed.

Lemma has_id_split a v A1 A2 : has_id a (A1 ++ (a, v) :: A2) = true.
Proof. unfold has_id. rewrite existsb_app. cbn. now rewrite N.eqb_refl, orb_true_r. Qed.

Lemma nofst_absent a l : nofst a l = true -> has_id a l = false /\ lookup_id a l = None.
Proof.
  unfold nofst, has_id, lookup_id. induction l as [|p l IH]; intros H; [split; reflexivity|].
  cbn [forallb] in H. apply andb_true_iff in H. destruct H as [Hp H]. apply negb_true_iff in Hp.
  cbn [existsb List.find]. rewrite Hp. now apply IH.
Qed.

Lemma map_update_split a x v A1 A2 : nofst a A1 = true -> nofst a A2 = true ->
  map (fun p : N * str => if (fst p =? a)%N then (fst p, x) else p) (A1 ++ (a, v) :: A2) = A1 ++ (a, x) :: A2.
Proof.
  intros H1 H2.
  assert (G : forall l, nofst a l = true -> map (fun p : N * str => if (fst p =? a)%N then (fst p, x) else p) l = l).
  { unfold nofst. induction l as [|p l IH]; intros H; [reflexivity|]. cbn [forallb] in H.
    apply andb_true_iff in H. destruct H as [Hp H]. apply negb_true_iff in Hp. cbn [map]. now rewrite Hp, IH. }
  rewrite map_app. cbn [map fst]. now rewrite N.eqb_refl, !G.
Qed.

Lemma filter_remove_split a v A1 A2 : nofst a A1 = true -> nofst a A2 = true ->
  filter (fun p : N * str => negb (fst p =? a)%N) (A1 ++ (a, v) :: A2) = A1 ++ A2.
Proof.
  intros H1 H2.
  assert (G : forall l, nofst a l = true -> filter (fun p : N * str => negb (fst p =? a)%N) l = l).
  { unfold nofst. induction l as [|p l IH]; intros H; [reflexivity|]. cbn [forallb] in H.
    apply andb_true_iff in H. destruct H as [Hp H]. cbn [filter]. now rewrite Hp, IH. }
  rewrite filter_app. cbn [filter fst]. now rewrite N.eqb_refl, !G.
Qed.

(** * nodes under push *)

Lemma NoDup_snoc {A} (l : list A) a : NoDup l -> ~ In a l -> NoDup (l ++ [a]).
Proof.
  induction l as [|x l IH]; intros H Hn; [constructor; [intros []|constructor]|].
  inversion H; subst. cbn [app]. constructor.
  - intros Hin. apply in_app_or in Hin. destruct Hin as [Hin|[E|[]]]; [contradiction|].
    subst. apply Hn. now left.
  - apply IH; [assumption|]. intros Hin. apply Hn. now right.
Qed.

Lemma NoDup_drop_middle {A} (x y z : list A) : NoDup (x ++ y ++ z) -> NoDup (x ++ z).
Proof.
  induction y as [|a y IH]; intros H; [exact H|]. apply IH. cbn [app] in H. now apply NoDup_remove_1 in H.
Qed.

Lemma ids_ok_push vw it : ids_ok vw -> ids_ok (push vw it).
Proof.
  intros [H1 [H2 [H3 H4]]]. unfold ids_ok, push. cbn [v_nodes v_next v_refs].
  rewrite Forall_forall in H2, H3. splits.
  - rewrite map_app. cbn [map fst]. apply NoDup_snoc; [assumption|].
    intros Hin. apply in_map_iff in Hin. destruct Hin as [n [E Hn]]. specialize (H2 n Hn). lia.
  - apply Forall_app. split.
    + apply Forall_forall. intros n Hn. specialize (H2 n Hn). lia.
    + constructor; [cbn; lia|constructor].
  - apply Forall_forall. intros id Hid. specialize (H3 id Hid). lia.
  - intros id it' Hid Hin. apply in_app_or in Hin. destruct Hin as [Hin|[E|[]]].
    + now apply (H4 id it').
    + injection E as E1 _. specialize (H3 _ Hid). lia.
Qed.

Lemma vnodes_push vw it :
  vnodes (push vw it) = vnodes vw ++ (if is_value it then [(v_next vw, it)] else []).
Proof.
  unfold vnodes, push. cbn [v_nodes]. rewrite filter_app. cbn [filter]. unfold isvaln at 2. cbn [snd].
  destruct (is_value it); reflexivity.
Qed.

(** an extension of the view that leaves the value nodes and the references alone *)
Definition ext (vw vw1 : view) : Prop :=
  vnodes vw1 = vnodes vw /\ ids_ok vw1 /\ (v_next vw <= v_next vw1)%N /\ v_refs vw1 = v_refs vw.

Lemma ext_refl vw : ids_ok vw -> ext vw vw.
Proof. intros H. unfold ext. splits; auto. lia. Qed.

Lemma ext_trans a b c : ext a b -> ext b c -> ext a c.
Proof.
  intros [A1 [A2 [A3 A4]]] [B1 [B2 [B3 B4]]]. unfold ext. splits; try congruence; auto. lia.
Qed.

Lemma ext_push_nonvalue vw it : ids_ok vw -> is_value it = false -> ext vw (push vw it).
Proof.
  intros H Hv. unfold ext. splits.
  - rewrite vnodes_push, Hv. now rewrite app_nil_r.
  - now apply ids_ok_push.
  - unfold push. cbn [v_next]. lia.
  - reflexivity.
Qed.

Lemma ext_same_nodes vw vw1 : ids_ok vw ->
  v_nodes vw1 = v_nodes vw -> v_next vw1 = v_next vw -> v_refs vw1 = v_refs vw -> ext vw vw1.
Proof.
  intros [H1 [H2 [H3 H4]]] E1 E2 E3. unfold ext, ids_ok, vnodes. rewrite E1, E2, E3. splits; auto. lia.
Qed.

Lemma ext_set_changed vw : ids_ok vw -> ext vw (set_changed vw).
Proof. intros H. now apply ext_same_nodes. Qed.

Lemma ext_cont_char vw : ids_ok vw -> ext vw (snd (cont_char vw)).
Proof.
  intros H. unfold cont_char. destruct (v_cont vw); cbn [snd]; [now apply ext_refl|].
  now apply ext_same_nodes.
Qed.

Lemma ext_ids_ok a b : ext a b -> ids_ok b.
Proof. intros [_ [H _]]. exact H. Qed.

Lemma ext_append_cont vw : ids_ok vw -> ext vw (append_cont_if_necessary vw).
Proof.
  intros H. unfold append_cont_if_necessary. destruct (tail_ends_lf vw); [|now apply ext_refl].
  pose proof (ext_cont_char vw H) as E. destruct (cont_char vw) as [c vw1]. cbn [snd] in E.
  eapply ext_trans; [exact E|]. apply ext_push_nonvalue; [now apply ext_ids_ok with vw|reflexivity].
Qed.

Lemma ext_append_separator b vw : ids_ok vw -> ext vw (append_separator Space b vw).
Proof.
  intros H. unfold append_separator.
  pose proof (ext_set_changed vw H) as E1.
  pose proof (ext_append_cont _ (ext_ids_ok _ _ E1)) as E2.
  eapply ext_trans; [exact E1|]. eapply ext_trans; [exact E2|].
  apply ext_push_nonvalue; [now apply ext_ids_ok with (set_changed vw)|reflexivity].
Qed.

(** append_value: one new value node with a fresh identity *)
Lemma append_value_nodes vt vw : ids_ok vw -> is_value vt = true ->
  let vw' := append_value Space vt vw in
  exists idv, vnodes vw' = vnodes vw ++ [(idv, vt)]
    /\ (v_next vw <= idv)%N /\ (idv < v_next vw')%N
    /\ ids_ok vw' /\ v_refs vw' = v_refs vw.
Proof.
  intros H Hv vw'. subst vw'. unfold append_value.
  set (vwA := match v_nodes vw with
              | [] => push vw (IT (Tok KWs [SP]))
              | _ :: _ => if needs_separator Space (rev (v_items vw)) then append_separator Space true vw else vw
              end).
  assert (EA : ext vw vwA).
  { subst vwA. destruct (v_nodes vw).
    - now apply ext_push_nonvalue.
    - destruct (needs_separator Space (rev (v_items vw))); [now apply ext_append_separator|now apply ext_refl]. }
  pose proof (ext_append_cont vwA (ext_ids_ok _ _ EA)) as EB.
  pose proof (ext_trans _ _ _ EA EB) as E1. set (vw1 := append_cont_if_necessary vwA) in *.
  pose proof (ext_set_changed vw1 (ext_ids_ok _ _ E1)) as E2.
  pose proof (ext_trans _ _ _ E1 E2) as [X1 [X2 [X3 X4]]].
  exists (v_next (set_changed vw1)). splits.
  - rewrite vnodes_push, Hv, X1. reflexivity.
  - exact X3.
  - unfold push. cbn [v_next]. lia.
  - now apply ids_ok_push.
  - exact X4.
Qed.

(** * nodes under node.value = ... and _remove_node *)

Lemma ids_ok_sub vw vw' X Y Z :
  ids_ok vw -> v_nodes vw = X ++ Y ++ Z -> v_nodes vw' = X ++ Z ->
  v_next vw' = v_next vw -> v_refs vw' = v_refs vw -> ids_ok vw'.
Proof.
  intros [H1 [H2 [H3 H4]]] E E' En Er. unfold ids_ok. rewrite E', En, Er. rewrite E in H1, H2, H4.
  splits; auto.
  - rewrite !map_app in H1. rewrite map_app. now apply NoDup_drop_middle in H1.
  - apply Forall_app in H2. destruct H2 as [A B]. apply Forall_app in B. apply Forall_app. tauto.
  - intros id it Hid Hin. apply (H4 id it Hid). apply in_app_or in Hin. apply in_or_app.
    destruct Hin; [now left|right; apply in_or_app; now right].
Qed.

Lemma set_value_at_nodes vw npre id it npost vt :
  ids_ok vw -> v_nodes vw = npre ++ (id, it) :: npost -> is_value vt = true ->
  let vw' := set_value_at (length npre) vt vw in
  v_nodes vw' = npre ++ (id, vt) :: npost /\ ids_ok vw'
  /\ v_refs vw' = v_refs vw /\ v_next vw' = v_next vw.
Proof.
  intros [H1 [H2 [H3 H4]]] E Hv vw'. subst vw'. unfold set_value_at.
  cbn [set_changed set_nodes v_nodes v_refs v_next]. rewrite E, set_at_app. cbn [fst].
  splits; auto. unfold ids_ok. cbn [set_changed set_nodes v_nodes v_next v_refs]. rewrite E in H1, H2, H4. splits; auto.
  - rewrite map_app in *. cbn [map fst] in *. exact H1.
  - apply Forall_app in H2. destruct H2 as [A B]. inversion B; subst. apply Forall_app. split; [assumption|].
    constructor; assumption.
  - intros id' it' Hid Hin. apply in_app_or in Hin. destruct Hin as [Hin|[Ei|Hin]].
    + apply (H4 id' it' Hid). apply in_or_app. now left.
    + injection Ei as <- <-. exact Hv.
    + apply (H4 id' it' Hid). apply in_or_app. right. now right.
Qed.

Lemma filter_isvaln_nonvalues ns : forallb nonvalue (map snd ns) = true -> filter isvaln ns = [].
Proof.
  induction ns as [|n ns IH]; [reflexivity|]. cbn [map forallb]. intros H.
  apply andb_true_iff in H. destruct H as [Hn H]. cbn [filter]. unfold isvaln at 1.
  unfold nonvalue in Hn. apply negb_true_iff in Hn. rewrite Hn. now apply IH.
Qed.

Lemma remove_at_nodes vw npre n npost :
  ids_ok vw -> v_nodes vw = npre ++ n :: npost ->
  let vw' := remove_at (length npre) vw in
  vnodes vw' = filter isvaln npre ++ filter isvaln npost
  /\ ids_ok vw' /\ v_refs vw' = v_refs vw /\ v_next vw' = v_next vw.
Proof.
  intros Hok E vw'.
  assert (G : exists X Y Z, v_nodes vw = X ++ Y ++ Z /\ v_nodes vw' = X ++ Z
                /\ filter isvaln X ++ filter isvaln Z = filter isvaln npre ++ filter isvaln npost).
  { subst vw'. unfold remove_at. rewrite v_items_set_changed. unfold v_items. rewrite E.
    rewrite map_app. cbn [map]. unfold node in *.
    pose proof (remove_range_spec (map snd npre) (snd n) (map snd npost)) as Hs.
    rewrite map_length in Hs.
    destruct (remove_range (map snd npre ++ snd n :: map snd npost) (length npre)) as [[a b]|] eqn:Err;
      try rewrite Err in Hs.
    - cbn [set_nodes set_changed v_nodes]. rewrite E.
      destruct Hs as [[pre' [pv [mid [Epre [Hpv [Hmid [_ [Ha Hb]]]]]]]]|[mid [nv [post' [Epost [Hnv [Hmid [_ [Ha Hb]]]]]]]]].
      + apply map_eq_app in Epre. destruct Epre as [n1 [n2 [-> [En1 En2]]]].
        apply map_eq_cons in En2. destruct En2 as [npv [nm [-> [Epv Enm]]]].
        exists (n1 ++ [npv]), (nm ++ [n]), npost. splits.
        * now rewrite <- !app_assoc.
        * unfold delete_range. rewrite Hb. rewrite skipn_S_pre. f_equal.
          replace ((n1 ++ npv :: nm) ++ n :: npost) with ((n1 ++ [npv]) ++ (nm ++ n :: npost))
            by (now rewrite <- !app_assoc).
          rewrite Ha. rewrite <- En1, map_length.
          replace (length n1 + 1) with (length (n1 ++ [npv])) by (rewrite app_length; simpl; lia).
          apply firstn_length_app.
        * rewrite !filter_app. cbn [filter]. rewrite <- Enm in Hmid.
          pose proof (filter_isvaln_nonvalues nm Hmid) as Hf. unfold node in Hf. rewrite Hf.
          destruct (isvaln npv); reflexivity.
      + apply map_eq_app in Epost. destruct Epost as [nm [n2 [-> [Enm En2]]]].
        apply map_eq_cons in En2. destruct En2 as [nnv [np' [-> [Env Enp]]]].
        exists npre, (n :: nm), (nnv :: np'). splits.
        * reflexivity.
        * unfold delete_range. rewrite Ha, Hb. rewrite firstn_pre. f_equal.
          replace (npre ++ n :: nm ++ nnv :: np') with ((npre ++ n :: nm) ++ nnv :: np')
            by (now rewrite <- app_assoc).
          rewrite <- Enm, map_length.
          replace (S (length npre) + length nm) with (length (npre ++ n :: nm)) by (rewrite app_length; simpl; lia).
          apply skipn_length_app.
        * rewrite (filter_app _ nm). rewrite <- Enm in Hmid.
          pose proof (filter_isvaln_nonvalues nm Hmid) as Hf. unfold node in Hf. now rewrite Hf.
    - destruct Hs as [Hp Hq]. cbn [set_nodes set_changed v_nodes].
      exists [], (npre ++ n :: npost), []. splits.
      + now rewrite app_nil_r.
      + reflexivity.
      + pose proof (filter_isvaln_nonvalues npre Hp) as Hf1. pose proof (filter_isvaln_nonvalues npost Hq) as Hf2.
        unfold node in Hf1, Hf2. now rewrite Hf1, Hf2. }
  destruct G as [X [Y [Z [G1 [G2 G3]]]]].
  assert (Hn : v_next vw' = v_next vw).
  { subst vw'. unfold remove_at. destruct (remove_range _ _) as [[a b]|]; reflexivity. }
  assert (Hr : v_refs vw' = v_refs vw).
  { subst vw'. unfold remove_at. destruct (remove_range _ _) as [[a b]|]; reflexivity. }
  splits; auto.
  - unfold vnodes. rewrite G2, filter_app. exact G3.
  - now apply (ids_ok_sub vw vw' X Y Z).
Qed.

(** * One operation refines one step of the abstract machine *)

Definition J (phi : N -> N) (vw : view) (st : astate) : Prop := inv vw /\ ids_ok vw /\ R phi vw st.

Lemma a_values_view phi vw st : R phi vw st -> a_values st = view_values vw.
Proof.
  intros [H _]. unfold a_values. rewrite H, view_values_nodes, map_map. reflexivity.
Qed.

Lemma vnodes_in vw n : In n (vnodes vw) -> In n (v_nodes vw) /\ isvaln n = true.
Proof. unfold vnodes. apply filter_In. Qed.

Lemma relevant_lt vw id : ids_ok vw -> relevant vw id -> (id < v_next vw)%N.
Proof.
  intros [_ [H2 [H3 _]]] [H|H].
  - apply in_map_iff in H. destruct H as [n [<- Hn]]. apply vnodes_in in Hn.
    rewrite Forall_forall in H2. now apply H2.
  - rewrite Forall_forall in H3. now apply H3.
Qed.

Lemma NoDup_fst_unique (ns : list node) id it it' :
  NoDup (map fst ns) -> In (id, it) ns -> In (id, it') ns -> it = it'.
Proof.
  induction ns as [|[j x] ns IH]; intros Hnd H1 H2; [destruct H1|].
  cbn [map fst] in Hnd. inversion Hnd as [|? ? Hnot Hnd']; subst.
  destruct H1 as [E1|H1], H2 as [E2|H2].
  - congruence.
  - injection E1 as -> ->. exfalso. apply Hnot. apply in_map_iff. now exists (id, it').
  - injection E2 as -> ->. exfalso. apply Hnot. apply in_map_iff. now exists (id, it).
  - now apply IH.
Qed.

(** what a reference resolves to, on both sides *)
Lemma resolve_cases phi vw st id : J phi vw st -> In id (v_refs vw) ->
  (exists npre it npost, v_nodes vw = npre ++ (id, it) :: npost
      /\ find_id id (v_nodes vw) 0 = Some (length npre) /\ is_value it = true
      /\ a_list st = map (g phi) (filter isvaln npre) ++ (phi id, render it) :: map (g phi) (filter isvaln npost)
      /\ nofst (phi id) (map (g phi) (filter isvaln npre)) = true
      /\ nofst (phi id) (map (g phi) (filter isvaln npost)) = true)
  \/ (find_id id (v_nodes vw) 0 = None /\ nofst (phi id) (a_list st) = true).
Proof.
  intros [Hinv [Hok [R1 [R2 [R3 R4]]]]] Hid.
  destruct Hok as [O1 [O2 [O3 O4]]].
  destruct (find_id id (v_nodes vw) 0) as [i|] eqn:Ef.
  - left. destruct (find_id_some _ _ _ _ Ef) as [npre [it [npost [E ->]]]].
    assert (Hv : is_value it = true).
    { apply (O4 id it Hid). rewrite E. apply in_or_app. right. now left. }
    assert (Ev : vnodes vw = filter isvaln npre ++ (id, it) :: filter isvaln npost).
    { unfold vnodes. rewrite E, filter_app. cbn [filter]. unfold isvaln at 2. cbn [snd]. now rewrite Hv. }
    destruct (split_entry phi vw _ id it _ Ev O1 R4) as [S1 S2].
    exists npre, it, npost. splits; auto. rewrite R1, Ev, map_app. reflexivity.
  - right. split; [reflexivity|]. apply find_id_none in Ef. rewrite R1. unfold nofst.
    apply forallb_forall. intros p Hp. apply in_map_iff in Hp. destruct Hp as [n [<- Hn]].
    cbn [g fst]. apply negb_true_iff, N.eqb_neq. intros E.
    apply R4 in E; [|left; now apply in_map|now right]. apply Ef. rewrite <- E.
    apply vnodes_in in Hn. apply in_map. tauto.
Qed.

Definition value_op (o : op) : bool :=
  match o with
  | OAppend x | ORefSet _ x | OReplace _ x => good_value false x
  | ORemove _ | OSnap | ORefGet _ | ORefRemove _ => true
  | _ => false
  end.

Definition aop (o : op) : aop :=
  match o with
  | OAppend x => AAppend x
  | ORemove x => ARemove x
  | OReplace x y => AReplace x y
  | OSnap => ASnap
  | ORefGet j => ARefGet j
  | ORefSet j x => ARefSet j x
  | ORefRemove j => ARefRemove j
  | OSep _ | ONewline | OComment _ => AOther
  end.

Lemma R_shrink phi vw vw' st l' :
  R phi vw st -> (forall id, relevant vw' id -> relevant vw id) ->
  l' = map (g phi) (vnodes vw') -> v_refs vw' = v_refs vw ->
  R phi vw' (AS l' (a_next st) (a_refs st)).
Proof.
  intros [R1 [R2 [R3 R4]]] Hsub El Er. unfold R. cbn [a_list a_refs a_next]. rewrite Er. splits; auto.
Qed.

Lemma remove_first_split x A1 a A2 :
  forallb (fun p : N * str => negb (str_eqb (snd p) x)) A1 = true ->
  remove_first x (A1 ++ (a, x) :: A2) = Some (A1 ++ A2).
Proof.
  induction A1 as [|[i v] A1 IH]; intros H.
  - cbn. now rewrite str_eqb_refl.
  - cbn [forallb snd] in H. apply andb_true_iff in H. destruct H as [Hv H]. apply negb_true_iff in Hv.
    cbn [app remove_first]. rewrite Hv, IH by assumption. reflexivity.
Qed.

Lemma remove_first_absent x A :
  forallb (fun p : N * str => negb (str_eqb (snd p) x)) A = true -> remove_first x A = None.
Proof.
  induction A as [|[i v] A IH]; intros H; [reflexivity|].
  cbn [forallb snd] in H. apply andb_true_iff in H. destruct H as [Hv H]. apply negb_true_iff in Hv.
  cbn [remove_first]. rewrite Hv, IH by assumption. reflexivity.
Qed.

Lemma replace_first_split x y A1 a A2 :
  forallb (fun p : N * str => negb (str_eqb (snd p) x)) A1 = true ->
  replace_first x y (A1 ++ (a, x) :: A2) = Some (A1 ++ (a, y) :: A2).
Proof.
  induction A1 as [|[i v] A1 IH]; intros H.
  - cbn. now rewrite str_eqb_refl.
  - cbn [forallb snd] in H. apply andb_true_iff in H. destruct H as [Hv H]. apply negb_true_iff in Hv.
    cbn [app replace_first]. rewrite Hv, IH by assumption. reflexivity.
Qed.

Lemma replace_first_absent x y A :
  forallb (fun p : N * str => negb (str_eqb (snd p) x)) A = true -> replace_first x y A = None.
Proof.
  induction A as [|[i v] A IH]; intros H; [reflexivity|].
  cbn [forallb snd] in H. apply andb_true_iff in H. destruct H as [Hv H]. apply negb_true_iff in Hv.
  cbn [replace_first]. rewrite Hv, IH by assumption. reflexivity.
Qed.

(** value nodes that do not render [x] give abstract entries that do not hold [x] *)
Lemma nomatch_entries phi x ns : forallb (fun p => negb (matches x p)) (map snd ns) = true ->
  forallb (fun p : N * str => negb (str_eqb (snd p) x)) (map (g phi) (filter isvaln ns)) = true.
Proof.
  induction ns as [|n ns IH]; [reflexivity|]. cbn [map forallb]. intros H.
  apply andb_true_iff in H. destruct H as [Hn H]. cbn [filter]. unfold isvaln at 1.
  unfold matches in Hn. destruct (is_value (snd n)); [|now apply IH].
  cbn [map forallb g snd]. cbn [andb] in Hn. rewrite Hn. now apply IH.
Qed.

Definition step_ok (phi : N -> N) (vw : view) (st : astate) (o : op) : Prop :=
  match a_step (aop o) st with
  | Some (st', expect) =>
      exists vw' phi', step Space o vw = (vw', None, expect) /\ J phi' vw' st'
        /\ (v_changed vw' = true \/ (v_items vw' = v_items vw /\ v_changed vw' = v_changed vw))
  | None => exists e, step Space o vw = (vw, Some e, None)
  end.

Lemma step_append phi vw st x : J phi vw st -> good_value false x = true -> step_ok phi vw st (OAppend x).
Proof.
  intros [Hinv [Hok [R1 [R2 [R3 R4]]]]] Hg. unfold step_ok. cbn [aop a_step].
  pose proof (good_value_word x Hg) as Hw.
  cbn [step]. unfold append. rewrite value_factory_word by assumption. cbn [bind].
  set (vt := IV [Tok KVal x] true). set (vw' := append_value Space vt vw).
  destruct (append_value_inv x vw Hinv Hw) as [I1 [I2 I3]]. fold vt in I1, I2, I3. fold vw' in I1, I2, I3.
  destruct (append_value_nodes vt vw Hok eq_refl) as [idv [N1 [N2 [N3 [N4 N5]]]]]. fold vw' in N1, N3, N4, N5.
  set (phi' := fun id => if (id =? idv)%N then a_next st else phi id).
  exists vw', phi'. split; [reflexivity|]. split; [|now left].
  assert (Hold : forall id, relevant vw id -> phi' id = phi id).
  { intros id Hr. subst phi'. cbn beta. pose proof (relevant_lt vw id Hok Hr).
    destruct (N.eqb_spec id idv); [lia|reflexivity]. }
  assert (Hnew : phi' idv = a_next st) by (subst phi'; cbn beta; now rewrite N.eqb_refl).
  assert (Hrel' : forall id, relevant vw' id -> relevant vw id \/ id = idv).
  { intros id [H|H].
    - rewrite N1, map_app in H. apply in_app_or in H. destruct H as [H|[H|[]]]; [left; now left|now right].
    - rewrite N5 in H. left. now right. }
  unfold J. splits; auto. unfold R. cbn [a_list a_refs a_next]. splits.
  - rewrite N1, map_app, R1. change (map (g phi') [(idv, vt)]) with [(phi' idv, render vt)].
    rewrite Hnew. f_equal.
    + apply map_ext_in. intros n Hn. unfold g. rewrite Hold; [reflexivity|]. left. now apply in_map.
    + subst vt. rewrite render_sp_item by reflexivity. reflexivity.
  - rewrite N5, R2. apply map_ext_in. intros id Hid. symmetry. apply Hold. now right.
  - intros id Hr. destruct (Hrel' id Hr) as [H| ->].
    + rewrite Hold by assumption. specialize (R3 id H). lia.
    + rewrite Hnew. lia.
  - intros id id' Hr Hr' E. destruct (Hrel' id Hr) as [H| ->], (Hrel' id' Hr') as [H'| ->].
    + rewrite !Hold in E by assumption. now apply R4.
    + rewrite Hold, Hnew in E by assumption. specialize (R3 id H). lia.
    + rewrite Hnew, Hold in E by assumption. specialize (R3 id' H'). lia.
    + reflexivity.
Qed.

Lemma nodes_split_items (ns : list node) pre it post :
  map snd ns = pre ++ it :: post ->
  exists npre n npost, ns = npre ++ n :: npost /\ map snd npre = pre /\ snd n = it /\ map snd npost = post.
Proof.
  intros H. apply map_eq_app in H. destruct H as [npre [r [-> [E1 E2]]]].
  apply map_eq_cons in E2. destruct E2 as [n [npost [-> [E3 E4]]]]. now exists npre, n, npost.
Qed.

Lemma relevant_sub_vnodes vw vw' :
  (forall n, In n (vnodes vw') -> In (fst n) (map fst (vnodes vw))) -> v_refs vw' = v_refs vw ->
  forall id, relevant vw' id -> relevant vw id.
Proof.
  intros H Er id [Hi|Hi].
  - left. apply in_map_iff in Hi. destruct Hi as [n [<- Hn]]. now apply H.
  - right. now rewrite <- Er.
Qed.

Lemma step_remove phi vw st x : J phi vw st -> step_ok phi vw st (ORemove x).
Proof.
  intros [Hinv [Hok [R1 [R2 [R3 R4]]]]]. unfold step_ok. cbn [aop a_step step]. unfold remove.
  destruct (find_value x (v_items vw) 0) as [i|] eqn:Ef.
  - destruct (find_value_some _ _ _ _ Ef) as [pre [it [post [Eits [-> [Hm Hpre]]]]]]. cbn [plus].
    destruct (matches_inv _ _ Hm) as [Hv Hr].
    destruct (nodes_split_items _ _ _ _ Eits) as [npre [n [npost [En [Ep [Es Epo]]]]]].
    assert (Evn : vnodes vw = filter isvaln npre ++ n :: filter isvaln npost).
    { unfold vnodes. rewrite En, filter_app. cbn [filter]. unfold isvaln at 2. now rewrite Es, Hv. }
    assert (Hrm : remove_first x (a_list st) = Some (map (g phi) (filter isvaln npre) ++ map (g phi) (filter isvaln npost))).
    { rewrite R1, Evn, map_app. cbn [map]. unfold g at 2. rewrite Es, Hr.
      apply remove_first_split. apply nomatch_entries. now rewrite Ep. }
    rewrite Hrm.
    assert (Hlen : length pre = length npre) by (rewrite <- Ep; apply map_length).
    rewrite Hlen.
    destruct (remove_at_inv vw pre it post Hinv Eits Hv) as [I1 [I2 I3]]. rewrite Hlen in I1, I2, I3.
    destruct (remove_at_nodes vw npre n npost Hok En) as [N1 [N2 [N3 N4]]].
    set (vw' := remove_at (length npre) vw) in *.
    exists vw', phi. split; [reflexivity|]. split; [|now left]. unfold J. splits; auto.
    apply R_shrink with vw; [unfold R; tauto| |now rewrite N1, map_app|exact N3].
    apply relevant_sub_vnodes; [|exact N3]. intros m Hm'. rewrite N1 in Hm'. rewrite Evn.
    apply in_map. apply in_app_or in Hm'. apply in_or_app. destruct Hm'; [now left|right; now right].
  - apply find_value_none in Ef.
    assert (Hrm : remove_first x (a_list st) = None).
    { rewrite R1. apply remove_first_absent. unfold vnodes. apply nomatch_entries. exact Ef. }
    rewrite Hrm. now eexists.
Qed.

(** R after node.value = vt on the value node [id] *)
Lemma R_set_value phi vw st npre id it npost y vw' :
  ids_ok vw -> R phi vw st -> v_nodes vw = npre ++ (id, it) :: npost -> is_value it = true ->
  v_nodes vw' = npre ++ (id, IV [Tok KVal y] true) :: npost -> v_refs vw' = v_refs vw ->
  R phi vw' (AS (map (g phi) (filter isvaln npre) ++ (phi id, y) :: map (g phi) (filter isvaln npost))
                (a_next st) (a_refs st)).
Proof.
  intros Hok HR En Hv En' Er.
  assert (Evn' : vnodes vw' = filter isvaln npre ++ (id, IV [Tok KVal y] true) :: filter isvaln npost).
  { unfold vnodes. rewrite En', filter_app. reflexivity. }
  assert (Evn : vnodes vw = filter isvaln npre ++ (id, it) :: filter isvaln npost).
  { unfold vnodes. rewrite En, filter_app. cbn [filter]. unfold isvaln at 2. cbn [snd]. now rewrite Hv. }
  apply R_shrink with vw; auto.
  - apply relevant_sub_vnodes; [|exact Er]. intros m Hm. rewrite Evn' in Hm. rewrite Evn, !map_app.
    cbn [map fst]. apply in_app_or in Hm. apply in_or_app. destruct Hm as [Hm|[<-|Hm]].
    + left. now apply in_map.
    + right. now left.
    + right. right. now apply in_map.
  - rewrite Evn', map_app. cbn [map]. unfold g at 4. cbn [fst snd].
    now rewrite render_sp_item by reflexivity.
Qed.

Lemma step_replace phi vw st x y : J phi vw st -> good_value false y = true -> step_ok phi vw st (OReplace x y).
Proof.
  intros [Hinv [Hok HR]] Hg. pose proof HR as [R1 [R2 [R3 R4]]].
  unfold step_ok. cbn [aop a_step step]. unfold replace.
  pose proof (good_value_word y Hg) as Hw.
  destruct (find_value x (v_items vw) 0) as [i|] eqn:Ef.
  - destruct (find_value_some _ _ _ _ Ef) as [pre [it [post [Eits [-> [Hm Hpre]]]]]]. cbn [plus].
    destruct (matches_inv _ _ Hm) as [Hv Hr].
    destruct (nodes_split_items _ _ _ _ Eits) as [npre [[id it0] [npost [En [Ep [Es Epo]]]]]].
    cbn [snd] in Es. subst it0.
    assert (Evn : vnodes vw = filter isvaln npre ++ (id, it) :: filter isvaln npost).
    { unfold vnodes. rewrite En, filter_app. cbn [filter]. unfold isvaln at 2. cbn [snd]. now rewrite Hv. }
    assert (Hrp : replace_first x y (a_list st)
                  = Some (map (g phi) (filter isvaln npre) ++ (phi id, y) :: map (g phi) (filter isvaln npost))).
    { rewrite R1, Evn, map_app. cbn [map]. unfold g at 2. cbn [fst snd]. rewrite Hr.
      apply replace_first_split. apply nomatch_entries. now rewrite Ep. }
    rewrite Hrp. rewrite value_factory_word by assumption. cbn [bind].
    assert (Hlen : length pre = length npre) by (rewrite <- Ep; apply map_length).
    rewrite Hlen.
    destruct (set_value_at_inv y vw pre it post Hinv Hw Eits Hv) as [I1 [_ [_ I3]]]. rewrite Hlen in I1, I3.
    destruct (set_value_at_nodes vw npre id it npost (IV [Tok KVal y] true) Hok En eq_refl) as [N1 [N2 [N3 N4]]].
    set (vw' := set_value_at (length npre) (IV [Tok KVal y] true) vw) in *.
    exists vw', phi. split; [reflexivity|]. split; [|now left]. unfold J. splits; auto.
    now apply (R_set_value phi vw st npre id it npost y vw').
  - apply find_value_none in Ef.
    assert (Hrp : replace_first x y (a_list st) = None).
    { rewrite R1. apply replace_first_absent. unfold vnodes. apply nomatch_entries. exact Ef. }
    rewrite Hrp. now eexists.
Qed.

Lemma inv_snapshot vw : inv vw -> inv (snapshot vw).
Proof. intros H. exact H. Qed.

Lemma step_snap phi vw st : J phi vw st -> step_ok phi vw st OSnap.
Proof.
  intros [Hinv [Hok HR]]. pose proof HR as [R1 [R2 [R3 R4]]]. pose proof Hok as [O1 [O2 [O3 O4]]].
  unfold step_ok. cbn [aop a_step step].
  exists (snapshot vw), phi. split; [reflexivity|]. split; [|right; split; reflexivity].
  assert (Erefs : v_refs (snapshot vw) = map fst (vnodes vw)) by reflexivity.
  unfold J. splits.
  - exact Hinv.
  - unfold ids_ok. rewrite Erefs. change (v_nodes (snapshot vw)) with (v_nodes vw).
    change (v_next (snapshot vw)) with (v_next vw). splits; auto.
    + apply Forall_forall. intros id Hid. apply (relevant_lt vw id Hok). now left.
    + intros id it Hid Hin. apply in_map_iff in Hid. destruct Hid as [[id' it'] [E Hn]]. cbn [fst] in E. subst id'.
      apply vnodes_in in Hn. destruct Hn as [Hn Hv]. rewrite (NoDup_fst_unique _ id it it' O1 Hin Hn). exact Hv.
  - unfold R. cbn [a_list a_refs a_next]. change (vnodes (snapshot vw)) with (vnodes vw). rewrite Erefs. splits; auto.
    + rewrite R1, !map_map. reflexivity.
    + intros id Hr. apply R3. destruct Hr as [H|H]; left; exact H.
    + intros id id' Hr Hr'. apply R4; [destruct Hr as [H|H]|destruct Hr' as [H|H]]; left; exact H.
Qed.

Lemma nth_error_refs phi vw st j : R phi vw st ->
  nth_error (a_refs st) j = option_map phi (nth_error (v_refs vw) j).
Proof. intros [_ [R2 _]]. rewrite R2. apply nth_error_map. Qed.

Lemma step_refget phi vw st j : J phi vw st -> step_ok phi vw st (ORefGet j).
Proof.
  intros HJ. pose proof HJ as [Hinv [Hok HR]].
  unfold step_ok. cbn [aop a_step step]. rewrite (nth_error_refs phi vw st j HR).
  unfold ref_get, resolve. destruct (nth_error (v_refs vw) j) as [id|] eqn:En; cbn [option_map bind].
  - assert (Hid : In id (v_refs vw)) by (eapply nth_error_In; eassumption).
    destruct (resolve_cases phi vw st id HJ Hid) as [[npre [it [npost [E [Ef [Hv [El [S1 S2]]]]]]]]|[Ef Hno]].
    + rewrite Ef. cbn [bind]. rewrite El, lookup_split by assumption.
      assert (Hnth : nth_error (v_items vw) (length npre) = Some it).
      { unfold v_items. rewrite E, map_app. cbn [map snd]. rewrite nth_error_app2 by (rewrite map_length; lia).
        rewrite map_length, Nat.sub_diag. reflexivity. }
      rewrite Hnth. exists vw, phi. split; [reflexivity|]. split; [exact HJ|right; split; reflexivity].
    + rewrite Ef. cbn [bind]. destruct (nofst_absent _ _ Hno) as [_ Hl]. rewrite Hl. now eexists.
  - now eexists.
Qed.

Lemma step_refset phi vw st j x : J phi vw st -> good_value false x = true -> step_ok phi vw st (ORefSet j x).
Proof.
  intros HJ Hg. pose proof HJ as [Hinv [Hok HR]]. pose proof (good_value_word x Hg) as Hw.
  unfold step_ok. cbn [aop a_step step]. rewrite (nth_error_refs phi vw st j HR).
  unfold ref_set, resolve. destruct (nth_error (v_refs vw) j) as [id|] eqn:En; cbn [option_map].
  - rewrite value_factory_word by assumption. cbn [bind].
    assert (Hid : In id (v_refs vw)) by (eapply nth_error_In; eassumption).
    destruct (resolve_cases phi vw st id HJ Hid) as [[npre [it [npost [E [Ef [Hv [El [S1 S2]]]]]]]]|[Ef Hno]].
    + rewrite Ef. cbn [bind]. rewrite El, has_id_split, map_update_split by assumption.
      assert (Eits : v_items vw = map snd npre ++ it :: map snd npost).
      { unfold v_items. rewrite E, map_app. reflexivity. }
      destruct (set_value_at_inv x vw _ it _ Hinv Hw Eits Hv) as [I1 [_ [_ I3]]]. rewrite map_length in I1, I3.
      destruct (set_value_at_nodes vw npre id it npost (IV [Tok KVal x] true) Hok E eq_refl) as [N1 [N2 [N3 N4]]].
      set (vw' := set_value_at (length npre) (IV [Tok KVal x] true) vw) in *.
      exists vw', phi. split; [reflexivity|]. split; [|now left]. unfold J. splits; auto.
      now apply (R_set_value phi vw st npre id it npost x vw').
    + rewrite Ef. cbn [bind]. destruct (nofst_absent _ _ Hno) as [Hh _]. rewrite Hh. now eexists.
  - now eexists.
Qed.

Lemma step_refremove phi vw st j : J phi vw st -> step_ok phi vw st (ORefRemove j).
Proof.
  intros HJ. pose proof HJ as [Hinv [Hok HR]]. pose proof HR as [R1 [R2 [R3 R4]]].
  unfold step_ok. cbn [aop a_step step]. rewrite (nth_error_refs phi vw st j HR).
  unfold ref_remove, resolve. destruct (nth_error (v_refs vw) j) as [id|] eqn:En; cbn [option_map bind].
  - assert (Hid : In id (v_refs vw)) by (eapply nth_error_In; eassumption).
    destruct (resolve_cases phi vw st id HJ Hid) as [[npre [it [npost [E [Ef [Hv [El [S1 S2]]]]]]]]|[Ef Hno]].
    + rewrite Ef. cbn [bind]. rewrite El, has_id_split, filter_remove_split by assumption.
      assert (Eits : v_items vw = map snd npre ++ it :: map snd npost).
      { unfold v_items. rewrite E, map_app. reflexivity. }
      destruct (remove_at_inv vw _ it _ Hinv Eits Hv) as [I1 [_ I3]]. rewrite map_length in I1, I3.
      destruct (remove_at_nodes vw npre (id, it) npost Hok E) as [N1 [N2 [N3 N4]]].
      exists (remove_at (length npre) vw), phi. split; [reflexivity|]. split; [|left; exact I3].
      unfold J. splits; [exact I1|exact N2|].
      apply R_shrink with vw; [exact HR| |rewrite <- map_app; f_equal; symmetry; exact N1|exact N3].
      apply relevant_sub_vnodes; [|exact N3]. intros m Hm.
      assert (Hm' : In m (filter isvaln npre ++ filter isvaln npost)) by (rewrite <- N1; exact Hm).
      clear Hm. rename Hm' into Hm.
      unfold vnodes. rewrite E, filter_app. apply in_map. apply in_app_or in Hm. apply in_or_app.
      destruct Hm as [Hm|Hm]; [now left|right]. cbn [filter]. destruct (isvaln (id, it)); [now right|assumption].
    + rewrite Ef. cbn [bind]. destruct (nofst_absent _ _ Hno) as [Hh _]. rewrite Hh. now eexists.
  - now eexists.
Qed.

Theorem step_refines phi vw st o : J phi vw st -> value_op o = true -> step_ok phi vw st o.
Proof.
  intros HJ Ho. destruct o; cbn [value_op] in Ho; try discriminate.
  - now apply step_append.
  - now apply step_remove.
  - now apply step_replace.
  - now apply step_snap.
  - now apply step_refget.
  - now apply step_refset.
  - now apply step_refremove.
Qed.

(** * The initial state *)

Lemma exists_phi : forall (ms bs : list N),
  length ms = length bs -> NoDup ms -> NoDup bs ->
  exists phi, map phi ms = bs /\ (forall x y, In x ms -> In y ms -> phi x = phi y -> x = y).
Proof.
  induction ms as [|m ms IH]; intros [|b bs] Hl Hm Hb; try discriminate.
  - exists (fun x => x). split; [reflexivity|]. intros x y [].
  - inversion Hm as [|? ? Hm1 Hm2]; subst. inversion Hb as [|? ? Hb1 Hb2]; subst.
    destruct (IH bs ltac:(simpl in Hl; lia) Hm2 Hb2) as [phi [E Hinj]].
    exists (fun x => if (x =? m)%N then b else phi x). split.
    + cbn [map]. rewrite N.eqb_refl. f_equal. rewrite <- E. apply map_ext_in. intros x Hx.
      destruct (N.eqb_spec x m); [subst; contradiction|reflexivity].
    + assert (Himg : forall x, In x ms -> In (phi x) bs) by (intros x Hx; rewrite <- E; now apply in_map).
      intros x y Hx Hy. destruct (N.eqb_spec x m) as [->|Nx], (N.eqb_spec y m) as [->|Ny]; intros Ee.
      * reflexivity.
      * destruct Hy as [Hy|Hy]; [congruence|]. exfalso. apply Hb1. rewrite Ee. now apply Himg.
      * destruct Hx as [Hx|Hx]; [congruence|]. exfalso. apply Hb1. rewrite <- Ee. now apply Himg.
      * destruct Hx as [Hx|Hx]; [congruence|]. destruct Hy as [Hy|Hy]; [congruence|]. now apply Hinj.
Qed.

Lemma number_from_ids : forall l n,
  NoDup (map fst (number_from n l))
  /\ Forall (fun p : node => (n <= fst p /\ fst p < n + N.of_nat (length l))%N) (number_from n l).
Proof.
  induction l as [|x l IH]; intros n; [split; constructor|].
  destruct (IH (N.succ n)) as [H1 H2]. cbn [number_from map fst length]. split.
  - constructor; [|exact H1]. intros Hin. apply in_map_iff in Hin. destruct Hin as [p [E Hp]].
    rewrite Forall_forall in H2. specialize (H2 p Hp). lia.
  - constructor; [cbn [fst]; lia|]. eapply Forall_impl; [|exact H2]. intros p Hp. cbn beta in *. lia.
Qed.

Lemma number_vals_ids : forall vs n,
  NoDup (map fst (number_vals n vs)) /\ map snd (number_vals n vs) = vs
  /\ Forall (fun a => (a < n + N.of_nat (length vs))%N /\ (n <= a)%N) (map fst (number_vals n vs)).
Proof.
  induction vs as [|v vs IH]; intros n; [splits; constructor|].
  destruct (IH (N.succ n)) as [H1 [H2 H3]]. cbn [number_vals map fst snd length]. splits.
  - constructor; [|exact H1]. intros Hin. rewrite Forall_forall in H3. specialize (H3 _ Hin). lia.
  - now rewrite H2.
  - constructor; [lia|]. eapply Forall_impl; [|exact H3]. intros a Ha. cbn beta in *. lia.
Qed.

Lemma pair_list_eq {A B} (l1 l2 : list (A * B)) :
  map fst l1 = map fst l2 -> map snd l1 = map snd l2 -> l1 = l2.
Proof.
  revert l2. induction l1 as [|[a b] l1 IH]; intros [|[a' b'] l2] H1 H2; try discriminate; [reflexivity|].
  cbn in H1, H2. injection H1 as -> H1. injection H2 as -> H2. f_equal. now apply IH.
Qed.

Lemma interpret_shape k v vw : interpret k v = Ok vw ->
  exists its, v_nodes vw = number_from 0 its /\ v_next vw = N.of_nat (length its) /\ v_refs vw = [].
Proof.
  unfold interpret. destruct (parse_str k v) as [its|]; [|discriminate]. cbn [bind]. unfold mk_view.
  destruct its as [|i0 its0]; [discriminate|]. intros [= <-]. eexists. cbn [v_nodes v_next v_refs]. splits; reflexivity.
Qed.

Lemma initial_J v : value_ok v = true -> closed_value v = true ->
  exists vw phi, interpret Space v = Ok vw /\ J phi vw (a_init (split_spec false v))
    /\ view_values vw = split_spec false v /\ v_changed vw = false.
Proof.
  intros Hv Hc. destruct (interpret_inv v Hv Hc) as [vw [Hi [Hinv [Hvals Hch]]]].
  destruct (interpret_shape _ _ _ Hi) as [its [En [Enx Er]]].
  destruct (number_from_ids its 0) as [D1 D2].
  assert (Hok : ids_ok vw).
  { unfold ids_ok. rewrite En, Enx, Er. splits; auto; try (now intros id it []).
    eapply Forall_impl; [|exact D2]. intros p Hp. cbn beta in *. lia. }
  set (l0 := split_spec false v) in *.
  destruct (number_vals_ids l0 0) as [V1 [V2 V3]].
  assert (Hnd : NoDup (map fst (vnodes vw))).
  { unfold vnodes. rewrite En. clear -D1. induction (number_from 0 its) as [|n ns IH]; [constructor|].
    cbn [map] in D1. inversion D1; subst. cbn [filter]. destruct (isvaln n); [|auto].
    cbn [map]. constructor; [|auto]. intros Hin. apply in_filter_fst in Hin. contradiction. }
  assert (Hlen : length (map fst (vnodes vw)) = length (map fst (number_vals 0 l0))).
  { rewrite !map_length. rewrite <- (map_length snd (number_vals 0 l0)), V2, <- Hvals, view_values_nodes.
    now rewrite map_length. }
  destruct (exists_phi _ _ Hlen Hnd V1) as [phi [Ephi Hinj]].
  exists vw, phi. splits; auto. unfold J. splits; auto. unfold R, a_init. cbn [a_list a_refs a_next].
  assert (Hrel : forall id, relevant vw id -> In id (map fst (vnodes vw))).
  { intros id [H|H]; [exact H|]. rewrite Er in H. destruct H. }
  splits.
  - apply pair_list_eq.
    + rewrite <- Ephi, !map_map. reflexivity.
    + rewrite V2, map_map. cbn [g snd]. now rewrite <- Hvals, view_values_nodes.
  - now rewrite Er.
  - intros id Hr. apply Hrel in Hr. rewrite Forall_forall in V3.
    assert (Hin : In (phi id) (map fst (number_vals 0 l0))) by (rewrite <- Ephi; now apply in_map).
    specialize (V3 _ Hin). lia.
  - intros id id' Hr Hr'. apply Hinj; now apply Hrel.
Qed.

(** * A whole session *)

Fixpoint a_run (os : list op) (st : astate) : list (option (list str * option str)) * astate :=
  match os with
  | [] => ([], st)
  | o :: os' =>
      match a_step (aop o) st with
      | Some (st', e) => let (outs, sf) := a_run os' st' in (Some (a_values st', e) :: outs, sf)
      | None => let (outs, sf) := a_run os' st in (None :: outs, sf)
      end
  end.

Definition outcome_abs (o : outcome) : option (list str * option str) :=
  match o with Done vals got => Some (vals, got) | Failed _ => None end.

Lemma run_ops_refines os : forall phi vw st, J phi vw st -> forallb value_op os = true ->
  exists phi', map outcome_abs (fst (run_ops Space os vw)) = fst (a_run os st)
    /\ J phi' (snd (run_ops Space os vw)) (snd (a_run os st))
    /\ (v_changed (snd (run_ops Space os vw)) = true
        \/ (v_items (snd (run_ops Space os vw)) = v_items vw
            /\ v_changed (snd (run_ops Space os vw)) = v_changed vw)).
Proof.
  induction os as [|o os IH]; intros phi vw st HJ Hos.
  - exists phi. cbn. splits; auto.
  - cbn [forallb] in Hos. apply andb_true_iff in Hos. destruct Hos as [Ho Hos].
    pose proof (step_refines phi vw st o HJ Ho) as Hs. unfold step_ok in Hs. cbn [run_ops a_run].
    destruct (a_step (aop o) st) as [[st' e]|].
    + destruct Hs as [vw' [phi1 [Hst [HJ' Hch]]]]. rewrite Hst.
      destruct (IH phi1 vw' st' HJ' Hos) as [phi' [I1 [I2 I3]]].
      destruct (run_ops Space os vw') as [outs vf]. destruct (a_run os st') as [aouts sf].
      cbn [fst snd map outcome_abs] in *. exists phi'. splits; auto.
      * destruct HJ' as [_ [_ HR']]. rewrite (a_values_view _ _ _ HR'). now rewrite I1.
      * destruct I3 as [I3|[I3 I4]]; [now left|]. destruct Hch as [Hch|[Hc1 Hc2]].
        -- left. congruence.
        -- right. split; congruence.
    + destruct Hs as [e Hst]. rewrite Hst.
      destruct (IH phi vw st HJ Hos) as [phi' [I1 [I2 I3]]].
      destruct (run_ops Space os vw) as [outs vf]. destruct (a_run os st) as [aouts sf].
      cbn [fst snd map outcome_abs] in *. exists phi'. splits; auto. now rewrite I1.
Qed.

(** view_edit_readback, whitespace-separated lists, direct edits AND edits through references *)
Theorem view_session_refines_space name v os :
  value_ok v = true -> closed_value v = true -> name_ok name = true ->
  forallb value_op os = true ->
  let r := run_session Space name v os in
  let st0 := a_init (split_spec false v) in
  sr_read r = Ok (split_spec false v)
  /\ map outcome_abs (sr_ops r) = fst (a_run os st0)
  /\ (sr_close r = None ->
      value_ok (sr_value r) = true
      /\ exists vw', interpret Space (sr_value r) = Ok vw'
                     /\ view_values vw' = a_values (snd (a_run os st0)))
  /\ (forall e, sr_close r = Some e -> sr_value r = v).
Proof.
  intros Hv Hc Hname Hos r st0. subst r st0.
  destruct (initial_J v Hv Hc) as [vw [phi [Hi [HJ [Hvals Hch]]]]].
  unfold run_session. rewrite Hi.
  destruct (run_ops_refines os phi vw _ HJ Hos) as [phi' [R1 [R2 R3]]].
  destruct (run_ops Space os vw) as [outs vf]. cbn [fst snd] in *.
  destruct R2 as [Finv [_ FR]]. pose proof (a_values_view _ _ _ FR) as Hav.
  unfold close. destruct (v_changed vf) eqn:Ecf.
  - destruct (update_field name vf) as [v'|e] eqn:Eu; cbn [sr_read sr_ops sr_close sr_value].
    + rewrite Hvals. splits; auto; try discriminate. intros _.
      destruct (update_field_readback name vf v' Finv Hname Eu) as [U1 [_ [vw' [U2 U3]]]].
      split; [exact U1|]. exists vw'. split; [exact U2|]. now rewrite U3, Hav.
    + rewrite Hvals. splits; auto. discriminate.
  - cbn [sr_read sr_ops sr_close sr_value]. rewrite Hvals. splits; auto; try discriminate. intros _.
    split; [exact Hv|]. destruct R3 as [R3|[R3 _]]; [congruence|].
    exists vw. split; [exact Hi|]. rewrite Hav. unfold view_values. now rewrite R3.
Qed.
