(** SPEC for C01: the two input forms the property quantifies over, and the
    text the parser must give back.  Independent of the model: only list
    functions on the input lines. *)
From Verif Require Import Lib.Base Lib.PyStr.

Definition lf_free (s : str) : bool := negb (mem_char LF s).

(** A line of form 1: non-empty text, LF nowhere except possibly as the last
    character. *)
Definition line1_ok (l : str) : bool :=
  match l with [] => false | _ => lf_free (removelast l) end.

Definition terminated (l : str) : bool :=
  match last_opt l with Some c => (c =? LF)%N | None => false end.

(** Form 1: every line newline-terminated except possibly the last. *)
Fixpoint form1 (ls : list str) : bool :=
  match ls with
  | [] => true
  | [l] => line1_ok l
  | l :: rest => line1_ok l && terminated l && form1 rest
  end.

(** Form 2: two or more lines, none containing a newline. *)
Definition form2 (ls : list str) : bool :=
  (2 <=? length ls)%nat && forallb lf_free ls.

Definition add_lf (l : str) : str := l ++ [LF].

(** What parse-then-dump must reproduce; [None] outside the two forms. *)
Definition expected_text (ls : list str) : option str :=
  if form1 ls then Some (concat ls)
  else if form2 ls then Some (concat (map add_lf ls))
  else None.
