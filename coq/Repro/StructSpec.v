(** Reference (Spec) for C10: a document is a list of paragraphs, each a plain
    LIST OF FIELDS (comment, name, text after the name), with free text between
    them.  Nothing here knows about paragraph classes, node identities, name
    indexes, linked lists or ordered sets.

    A key denotes fields by a MASK over the list: an un-indexed key all fields of
    that name (case-insensitively), (name, i) the i-th of them in document order
    (i < 0 counts from the end, Python style; such a key may also be refused).
    The structural operations move / remove / replace exactly the masked
    elements, as whole elements, keeping the relative order of what moves and of
    what stays:

      first / last        masked ++ others        /  others ++ masked
      before / after ref  others, with the masked block put directly before /
                          after the reference element (first / last field of the
                          reference name when that key is un-indexed); refused
                          when the reference is itself being moved
      sort key            stable sort by the key of the name (default: the lower-cased
                          name): fields whose keys tie keep their relative order
      set                 the first masked field is replaced by the new field, the
                          other masked fields go; a new name is appended
      del                 the masked fields go
      append / insert     the new paragraph is put at the end / somewhere between
                          paragraph i-1 and paragraph i, separated by newline tokens

    The one permitted side effect: the last field of the paragraph operated on
    (for append: of the document) may be given its missing final newline, also
    when the operation is refused.  Which of the permitted outcomes an
    implementation produced is read off its dump ([s_cands] lists them,
    [first_match] in StructCheck picks the one that explains the observation). *)
From Verif Require Import Lib.Base Lib.PyStr Gen.PyChars Repro.Doc Repro.StructSort.

(** * Masks *)

Fixpoint pick {A} (m : list bool) (l : list A) : list A :=
  match m, l with
  | b :: m', a :: l' => if b then a :: pick m' l' else pick m' l'
  | _, _ => []
  end.

Fixpoint unpick {A} (m : list bool) (l : list A) : list A :=
  match m, l with
  | b :: m', a :: l' => if b then unpick m' l' else a :: unpick m' l'
  | _, _ => l
  end.

Definition occ_count (n : str) (fs : list field) : nat := length (filter (has_name n) fs).

Definition mask_all (n : str) (fs : list field) : list bool := map (has_name n) fs.

(** only the [i]-th field called [n] *)
Fixpoint mask_nth (n : str) (i : nat) (fs : list field) : list bool :=
  match fs with
  | [] => []
  | f :: fs' =>
      if has_name n f then
        match i with
        | O => true :: map (fun _ => false) fs'
        | S i' => false :: mask_nth n i' fs'
        end
      else false :: mask_nth n i fs'
  end.

(** what an un-indexed key stands for *)
Inductive which := WAll | WFirst | WLast.

(** the mask of (n, idx), and whether the key used a negative index; [None]: the
    key denotes nothing *)
Definition select (w : which) (n : str) (idx : option Z) (fs : list field)
  : option (list bool * bool) :=
  let c := occ_count n fs in
  match idx with
  | None =>
      match c with
      | O => None
      | S c' => Some (match w with
                      | WAll => mask_all n fs
                      | WFirst => mask_nth n 0 fs
                      | WLast => mask_nth n c' fs
                      end, false)
      end
  | Some i =>
      let j := if (i <? 0)%Z then (i + Z.of_nat c)%Z else i in
      if (j <? 0)%Z || (Z.of_nat c <=? j)%Z then None
      else Some (mask_nth n (Z.to_nat j) fs, (i <? 0)%Z)
  end.

Definition key_parts (k : key) : str * option Z :=
  match k with KStr n => (n, None) | KIdx n i => (n, Some i) end.

Definition select_key (w : which) (k : key) (fs : list field) : option (list bool * bool) :=
  select w (fst (key_parts k)) (snd (key_parts k)) fs.

(** * The operations on one list of fields *)

Definition mv_first (m : list bool) (fs : list field) : list field := pick m fs ++ unpick m fs.
Definition mv_last (m : list bool) (fs : list field) : list field := unpick m fs ++ pick m fs.

Definition overlap (m r : list bool) : bool :=
  existsb (fun p => fst p && snd p) (combine m r).

(** [r] marks the reference element (exactly one, not among the moved ones:
    [sp_plan] checks it, so the last case is never reached) *)
Definition mv_rel (after : bool) (m r : list bool) (fs : list field) : list field :=
  let rest := unpick m (combine r fs) in
  let (a, b) := span (fun x => negb (fst x)) rest in
  match b with
  | x :: b' =>
      if after then map snd a ++ snd x :: pick m fs ++ map snd b'
      else map snd a ++ pick m fs ++ snd x :: map snd b'
  | [] => map snd a ++ pick m fs
  end.

Fixpoint set_mask (m : list bool) (v : field) (fs : list field) : list field :=
  match m, fs with
  | b :: m', f :: fs' => if b then v :: unpick m' fs' else f :: set_mask m' v fs'
  | _, _ => fs
  end.

Inductive pop :=
| PFirst (k : key) | PLast (k : key)
| PBefore (k r : key) | PAfter (k r : key)
| PSort (sk : sortkey)
| PSetF (k : key) (v : field)        (* the new field, as a whole element *)
| PDel (k : key).

(** what is to be done, decided from the NAMES of the fields alone *)
Inductive plan :=
| PlFirst (m : list bool) | PlLast (m : list bool)
| PlRel (after : bool) (m r : list bool)
| PlSort (sk : sortkey)
| PlAdd (v : field)
| PlSet (m : list bool) (v : field)
| PlDel (m : list bool).

(** the plan and whether the operation may also be refused (negative index;
    (name, 0) for a name that is not there); [None]: the operation must be refused *)
Definition sp_plan (o : pop) (fs : list field) : option (plan * bool) :=
  match o with
  | PFirst k =>
      match select_key WAll k fs with
      | Some (m, neg) => Some (PlFirst m, neg)
      | None => None
      end
  | PLast k =>
      match select_key WAll k fs with
      | Some (m, neg) => Some (PlLast m, neg)
      | None => None
      end
  | PBefore k r =>
      match select_key WAll k fs, select_key WFirst r fs with
      | Some (m, neg), Some (rm, neg') =>
          if overlap m rm then None else Some (PlRel false m rm, neg || neg')
      | _, _ => None
      end
  | PAfter k r =>
      match select_key WAll k fs, select_key WLast r fs with
      | Some (m, neg), Some (rm, neg') =>
          if overlap m rm then None else Some (PlRel true m rm, neg || neg')
      | _, _ => None
      end
  | PSort sk => Some (PlSort sk, false)
  | PSetF k v =>
      let (n, idx) := key_parts k in
      if negb (has_name n v) then None else
      match occ_count n fs with
      | O =>
          match idx with
          | None => Some (PlAdd v, false)
          | Some i => if (i =? 0)%Z then Some (PlAdd v, true) else None
          end
      | S _ =>
          match select WAll n idx fs with
          | Some (m, neg) => Some (PlSet m v, neg)
          | None => None
          end
      end
  | PDel k =>
      match select_key WAll k fs with
      | Some (m, neg) => Some (PlDel m, neg)
      | None => None
      end
  end.

Definition run_plan (pl : plan) (fs : list field) : list field :=
  match pl with
  | PlFirst m => mv_first m fs
  | PlLast m => mv_last m fs
  | PlRel after m r => mv_rel after m r fs
  | PlSort sk => sort_fields_by sk fs
  | PlAdd v => fs ++ [v]
  | PlSet m v => set_mask m v fs
  | PlDel m => unpick m fs
  end.

Definition sp_apply (o : pop) (fs : list field) : option (list field * bool) :=
  match sp_plan o fs with
  | Some (pl, neg) => Some (run_plan pl fs, neg)
  | None => None
  end.

(** the missing final newline *)
Definition nl (fs : list field) : list field := map_last add_nl fs.

(** permitted outcomes for one paragraph: (refused?, fields afterwards) *)
Definition sp_cands (o : pop) (fs : list field) : list (bool * list field) :=
  let refused := [(true, fs); (true, nl fs)] in
  match sp_apply o (nl fs), sp_apply o fs with
  | Some (r1, neg), Some (r2, _) => [(false, r1); (false, r2)] ++ (if neg then refused else [])
  | _, _ => refused
  end.

(** * Documents *)

Inductive sitem := SP (fs : list field) | SO (t : str).
Definition sdoc := list sitem.

Definition sitem_text (it : sitem) : str :=
  match it with SP fs => concat (map field_text fs) | SO t => t end.
Definition sdump (s : sdoc) : str := concat (map sitem_text s).

Definition sparas (s : sdoc) : list (list field) :=
  flat_map (fun it => match it with SP fs => [fs] | SO _ => [] end) s.

(** what a fresh parse must show: the non-empty paragraphs, every field with its
    name and its exact text *)
Definition sread (s : sdoc) : list (list (str * str)) :=
  flat_map (fun it => match it with
                      | SP (f :: fs) => [map (fun f => (f_name f, field_text f)) (f :: fs)]
                      | _ => []
                      end) s.

(** every field starts at the beginning of a line *)
Fixpoint fields_bol (bol : bool) (fs : list field) : option bool :=
  match fs with
  | [] => Some bol
  | f :: fs' =>
      if bol then
        fields_bol (match field_text f with [] => bol | t => ends_nl t end) fs'
      else None
  end.

Fixpoint sep_ok_from (bol : bool) (s : sdoc) : bool :=
  match s with
  | [] => true
  | SP fs :: s' => match fields_bol bol fs with Some b => sep_ok_from b s' | None => false end
  | SO t :: s' => sep_ok_from (match t with [] => bol | _ => ends_nl t end) s'
  end.
Definition sep_ok (s : sdoc) : bool := sep_ok_from true s.

(** replace the [j]-th paragraph *)
Fixpoint split_para (s : sdoc) (j : nat) : option (sdoc * list field * sdoc) :=
  match s with
  | [] => None
  | SP fs :: s' =>
      match j with
      | O => Some ([], fs, s')
      | S j' => match split_para s' j' with
                | Some (a, x, b) => Some (SP fs :: a, x, b)
                | None => None
                end
      end
  | it :: s' => match split_para s' j with
                | Some (a, x, b) => Some (it :: a, x, b)
                | None => None
                end
  end.

Definition NLTOK : sitem := SO [LF].

Definition nl_item (it : sitem) : sitem := match it with SP fs => SP (nl fs) | _ => it end.
Definition nl_end (s : sdoc) : sdoc := map_last nl_item s.

(** the new paragraph at the end, after 0, 1 or 2 newline tokens *)
Definition append_cands (s : sdoc) (p : list field) : list (bool * sdoc) :=
  flat_map (fun b => [(false, b ++ [SP p]); (false, b ++ [NLTOK; SP p]);
                      (false, b ++ [NLTOK; NLTOK; SP p])])
           [nl_end s; s].

Fixpoint count_paras (s : sdoc) : nat :=
  match s with
  | [] => O
  | SP _ :: s' => S (count_paras s')
  | SO _ :: s' => count_paras s'
  end.

(** the new paragraph at item position [pos], with or without a newline token on
    either side *)
Definition insert_at (s : sdoc) (pos : nat) (p : list field) : list (bool * sdoc) :=
  let a := firstn pos s in
  let b := skipn pos s in
  [(false, a ++ SP p :: NLTOK :: b); (false, a ++ SP p :: b);
   (false, a ++ NLTOK :: SP p :: NLTOK :: b); (false, a ++ NLTOK :: SP p :: b)].

(** every item position that has exactly [i] paragraphs in front of it *)
Definition insert_cands (s : sdoc) (i : nat) (p : list field) : list (bool * sdoc) :=
  flat_map (fun pos => if (count_paras (firstn pos s) =? i)%nat then insert_at s pos p else [])
           (rev (seq 0 (S (length s)))).

Inductive dop :=
| DPara (j : nat) (o : pop)
| DAppend (p : list field)
| DInsert (i : Z) (p : list field)
| DReappend (j : nat).

(** permitted outcomes (refused?, document afterwards); [None]: the operation is
    outside the property's quantifier (negative paragraph index, no such paragraph) *)
Definition s_cands (s : sdoc) (o : dop) : option (list (bool * sdoc)) :=
  match o with
  | DPara j po =>
      match split_para s j with
      | None => None
      | Some (a, fs, b) =>
          Some (map (fun c => (fst c, a ++ SP (snd c) :: b)) (sp_cands po fs))
      end
  | DAppend p => Some (append_cands s p)
  | DInsert i p =>
      if (i <? 0)%Z then None
      else if (Z.to_nat i <? count_paras s)%nat then Some (insert_cands s (Z.to_nat i) p)
      else Some (append_cands s p ++ insert_cands s (count_paras s) p)   (* anywhere after the last paragraph *)
  | DReappend j =>
      match split_para s j with
      | None => None
      | Some _ => Some [(true, s)]
      end
  end.

(** * New fields, as the dict interface writes them for a plain one-line value *)

Definition SEP : str := [58; 32]%N.     (* ": " *)

Definition simple_value (v : str) : bool :=
  forallb (fun c => negb (py_islinebreak c)) v &&
  str_eqb (strip_by py_isspace v) v.

Definition alnum (c : N) : bool :=
  ((48 <=? c)%N && (c <=? 57)%N) || ((65 <=? c)%N && (c <=? 90)%N) || ((97 <=? c)%N && (c <=? 122)%N).
Definition safe_name (n : str) : bool :=
  match n with
  | c :: r => alnum c && forallb (fun c => alnum c || (c =? 45)%N || (c =? 95)%N) r
  | [] => false
  end.

(** the field written for key [n]: name spelling and comment of the field it
    replaces when there is one *)
Definition simple_field (orig : option field) (n v : str) : field :=
  match orig with
  | Some f => mkF (f_comment f) (f_name f) (SEP ++ v ++ [LF])
  | None => mkF [] n (SEP ++ v ++ [LF])
  end.

(** the field that p[k] = v replaces: the first one the key covers *)
Definition set_target (k : key) (fs : list field) : option field :=
  let (n, idx) := key_parts k in
  match select WAll n idx fs with
  | Some (m, _) => hd_error (pick m fs)
  | None => None
  end.

(** [None]: outside the judged domain (value not a plain line; a new name that is
    not beyond doubt a field name) *)
Definition set_pop (k : key) (v : str) (fs : list field) : option pop :=
  let n := fst (key_parts k) in
  if negb (simple_value v) then None
  else
    match set_target k fs with
    | Some f => Some (PSetF k (simple_field (Some f) n v))
    | None => if safe_name n then Some (PSetF k (simple_field None n v)) else None
    end.

(** the paragraph built by new_empty_paragraph() and p[k] = v for each pair *)
Fixpoint build_fields (kvs : list (str * str)) (fs : list field) : option (list field) :=
  match kvs with
  | [] => Some fs
  | (k, v) :: kvs' =>
      match set_pop (KStr k) v fs with
      | Some po =>
          match sp_apply po fs with
          | Some (fs', _) => build_fields kvs' fs'
          | None => None
          end
      | None => None
      end
  end.

(** * Reading (name, i) back *)

Fixpoint first_true (m : list bool) (q : nat) : option nat :=
  match m with
  | [] => None
  | b :: m' => if b then Some q else first_true m' (S q)
  end.

(** position of the i-th field called [n] *)
Definition occ_position (n : str) (i : nat) (fs : list field) : option nat :=
  if (i <? occ_count n fs)%nat then first_true (mask_nth n i fs) O else None.

(** the answer to get_kvpair_element((n, i)): [Some q] = the element at position q,
    [None] = refused *)
Definition position_ok (fs : list field) (n : str) (i : Z) (ans : option nat) : bool :=
  if (0 <=? i)%Z then option_eqb Nat.eqb ans (occ_position n (Z.to_nat i) fs)
  else
    match ans with
    | None => true
    | Some _ =>
        let j := (i + Z.of_nat (occ_count n fs))%Z in
        (0 <=? j)%Z && option_eqb Nat.eqb ans (occ_position n (Z.to_nat j) fs)
    end.
