(** Generic list lemmas for the C10 proofs: masks ([pick]/[unpick]) against
    [filter], [find]/[remove_first]/[span] decompositions, [last_opt]/[map_last],
    names. *)
From Coq Require Import Permutation.
From Verif Require Import Lib.Base Lib.PyStr Gen.PyChars Repro.Doc Repro.StructSort
  Repro.Struct Repro.StructSpec.

(** * Masks and filter *)

Lemma pick_map {X A} (p : X -> bool) (g : X -> A) l :
  pick (map p l) (map g l) = map g (filter p l).
Proof.
  induction l as [|x l IH]; cbn; [reflexivity|].
  destruct (p x); cbn; now rewrite IH.
Qed.

Lemma unpick_map {X A} (p : X -> bool) (g : X -> A) l :
  unpick (map p l) (map g l) = map g (filter (fun x => negb (p x)) l).
Proof.
  induction l as [|x l IH]; cbn; [reflexivity|].
  destruct (p x); cbn; now rewrite IH.
Qed.

Lemma pick_map_id {A} (p : A -> bool) l : pick (map p l) l = filter p l.
Proof. rewrite <- (map_id l) at 2. rewrite pick_map. apply map_id. Qed.

Lemma unpick_map_id {A} (p : A -> bool) l :
  unpick (map p l) l = filter (fun x => negb (p x)) l.
Proof. rewrite <- (map_id l) at 2. rewrite unpick_map. apply map_id. Qed.

Lemma combine_map {X A B} (f : X -> A) (g : X -> B) l :
  combine (map f l) (map g l) = map (fun x => (f x, g x)) l.
Proof. induction l; cbn; [reflexivity|now rewrite IHl]. Qed.

Lemma span_map {X A} (f : X -> A) (h : A -> bool) l :
  span h (map f l) = (map f (fst (span (fun x => h (f x)) l)),
                      map f (snd (span (fun x => h (f x)) l))).
Proof.
  induction l as [|x l IH]; cbn; [reflexivity|].
  destruct (h (f x)); cbn; [|reflexivity].
  rewrite IH. destruct (span (fun x0 => h (f x0)) l). reflexivity.
Qed.

Lemma filter_ext_in' {A} (p q : A -> bool) l :
  (forall x, In x l -> p x = q x) -> filter p l = filter q l.
Proof.
  induction l as [|x l IH]; cbn; intros H; [reflexivity|].
  rewrite (H x (or_introl eq_refl)). rewrite IH; [reflexivity|].
  intros y Hy. apply H. now right.
Qed.

Lemma filter_none {A} (p : A -> bool) l :
  (forall x, In x l -> p x = false) -> filter p l = [].
Proof.
  induction l as [|x l IH]; cbn; intros H; [reflexivity|].
  rewrite (H x (or_introl eq_refl)). apply IH. intros y Hy. apply H. now right.
Qed.

Lemma filter_all {A} (p : A -> bool) l :
  (forall x, In x l -> p x = true) -> filter p l = l.
Proof.
  induction l as [|x l IH]; cbn; intros H; [reflexivity|].
  rewrite (H x (or_introl eq_refl)). f_equal. apply IH. intros y Hy. apply H. now right.
Qed.

Lemma filter_filter {A} (p q : A -> bool) l :
  filter p (filter q l) = filter (fun x => q x && p x) l.
Proof.
  induction l as [|x l IH]; cbn; [reflexivity|].
  destruct (q x); cbn; [destruct (p x); now rewrite IH|exact IH].
Qed.

Lemma map_const_false {A B} (g : A -> B) (l : list A) :
  map (fun _ => false) (map g l) = map (fun _ => false) l.
Proof. now rewrite map_map. Qed.

(** * find / remove_first / existsb *)

Lemma find_split {A} (p : A -> bool) l x :
  List.find p l = Some x ->
  exists a b, l = a ++ x :: b /\ p x = true /\ forallb (fun y => negb (p y)) a = true.
Proof.
  induction l as [|y l IH]; cbn; [discriminate|].
  destruct (p y) eqn:E.
  - intros [= <-]. exists [], l. now repeat split.
  - intros H. destruct (IH H) as (a & b & -> & Hp & Ha).
    exists (y :: a), b. cbn. rewrite E. now repeat split.
Qed.

Lemma find_none_forall {A} (p : A -> bool) l :
  List.find p l = None -> forallb (fun y => negb (p y)) l = true.
Proof.
  induction l as [|y l IH]; cbn; [reflexivity|].
  destruct (p y); [discriminate|]. exact IH.
Qed.

Lemma find_existsb {A} (p : A -> bool) l :
  existsb p l = match List.find p l with Some _ => true | None => false end.
Proof.
  induction l as [|y l IH]; cbn; [reflexivity|]. destruct (p y); [reflexivity|exact IH].
Qed.

Lemma remove_first_app {A} (p : A -> bool) a x b :
  forallb (fun y => negb (p y)) a = true -> p x = true ->
  remove_first p (a ++ x :: b) = a ++ b.
Proof.
  induction a as [|y a IH]; cbn; intros Ha Hx.
  - now rewrite Hx.
  - apply andb_true_iff in Ha as [Hy Ha]. apply negb_true_iff in Hy. rewrite Hy.
    now rewrite IH.
Qed.

Lemma remove_first_none {A} (p : A -> bool) l :
  forallb (fun y => negb (p y)) l = true -> remove_first p l = l.
Proof.
  induction l as [|y l IH]; cbn; [reflexivity|].
  intros H. apply andb_true_iff in H as [Hy H]. apply negb_true_iff in Hy. rewrite Hy.
  now rewrite IH.
Qed.

Lemma forallb_negb_filter {A} (p : A -> bool) l :
  forallb (fun y => negb (p y)) l = true -> filter p l = [].
Proof.
  intros H. apply filter_none. intros x Hx.
  rewrite forallb_forall in H. apply negb_true_iff. now apply H.
Qed.

Lemma forallb_negb_filter_neg {A} (p : A -> bool) l :
  forallb (fun y => negb (p y)) l = true -> filter (fun y => negb (p y)) l = l.
Proof.
  intros H. apply filter_all. intros x Hx. rewrite forallb_forall in H. now apply H.
Qed.

Lemma forallb_ext {A} (p q : A -> bool) l : (forall a, p a = q a) -> forallb p l = forallb q l.
Proof. intros H. induction l as [|x l IH]; cbn; [reflexivity|]. now rewrite H, IH. Qed.

Lemma NoDup_snoc {A} (l : list A) x : NoDup l -> ~ In x l -> NoDup (l ++ [x]).
Proof.
  intros H Hx. apply (Permutation_NoDup (l := x :: l)); [apply Permutation_cons_append|].
  now constructor.
Qed.

Lemma NoDup_app_r {A} (l l' : list A) : NoDup (l ++ l') -> NoDup l'.
Proof. induction l as [|x l IH]; cbn; [auto|]. intros H. inversion H; subst. auto. Qed.

(** * last_opt / map_last *)

Lemma last_opt_snoc {A} (a : list A) x : last_opt (a ++ [x]) = Some x.
Proof.
  induction a as [|y a IH]; [reflexivity|].
  cbn [app last_opt]. destruct (a ++ [x]) eqn:E; [now destruct a|exact IH].
Qed.

Lemma last_opt_cons {A} (y : A) l : l <> [] -> last_opt (y :: l) = last_opt l.
Proof. destruct l; [congruence|reflexivity]. Qed.

Lemma last_opt_some_split {A} (l : list A) x : last_opt l = Some x -> exists a0, l = a0 ++ [x].
Proof.
  induction l as [|y l IH]; [discriminate|].
  destruct l as [|z l].
  - intros [= ->]. now exists [].
  - intros H. destruct (IH H) as (a0 & E). exists (y :: a0). cbn. now rewrite <- E.
Qed.

Lemma last_opt_none {A} (l : list A) : last_opt l = None -> l = [].
Proof.
  induction l as [|y l IH]; [reflexivity|].
  destruct l; [discriminate|]. intros H. specialize (IH H). discriminate.
Qed.

Lemma map_last_snoc {A} (g : A -> A) a x : map_last g (a ++ [x]) = a ++ [g x].
Proof.
  induction a as [|y a IH]; [reflexivity|].
  cbn [app map_last]. destruct (a ++ [x]) eqn:E; [now destruct a|]. now rewrite IH.
Qed.

Lemma map_last_length {A} (g : A -> A) l : length (map_last g l) = length l.
Proof.
  induction l as [|y l IH]; [reflexivity|]. destruct l; [reflexivity|].
  cbn [map_last length] in *. now rewrite IH.
Qed.

(** every list is empty or ends in an element *)
Lemma list_snoc_cases {A} (l : list A) : l = [] \/ exists a x, l = a ++ [x].
Proof.
  destruct (last_opt l) as [z|] eqn:E.
  - right. destruct (last_opt_some_split _ _ E) as (a0 & ->). eauto.
  - left. now apply last_opt_none.
Qed.

Lemma map_last_map {A B} (g : A -> A) (h : A -> B) l :
  (forall x, h (g x) = h x) -> map h (map_last g l) = map h l.
Proof.
  intros H. destruct (list_snoc_cases l) as [->|(a & x & ->)]; [reflexivity|].
  rewrite map_last_snoc, !map_app. cbn. now rewrite H.
Qed.

(** * Names *)

Lemma name_eqb_eq a b : name_eqb a b = true <-> lower a = lower b.
Proof. unfold name_eqb. apply str_eqb_eq. Qed.

Lemma name_eqb_refl a : name_eqb a a = true.
Proof. now apply name_eqb_eq. Qed.

Lemma name_eqb_sym a b : name_eqb a b = name_eqb b a.
Proof.
  destruct (name_eqb a b) eqn:E, (name_eqb b a) eqn:F; try reflexivity.
  - apply name_eqb_eq in E. symmetry in E. apply name_eqb_eq in E. congruence.
  - apply name_eqb_eq in F. symmetry in F. apply name_eqb_eq in F. congruence.
Qed.

Lemma name_eqb_trans a b c : name_eqb a b = true -> name_eqb b c = true -> name_eqb a c = true.
Proof. rewrite !name_eqb_eq. congruence. Qed.

Lemma has_name_cong a b f : name_eqb a b = true -> has_name a f = has_name b f.
Proof.
  intros H. unfold has_name.
  destruct (name_eqb (f_name f) a) eqn:E, (name_eqb (f_name f) b) eqn:F; try reflexivity.
  - rewrite (name_eqb_trans _ _ _ E H) in F. discriminate.
  - rewrite name_eqb_sym in H. rewrite (name_eqb_trans _ _ _ F H) in E. discriminate.
Qed.

Lemma has_name_lower n f : has_name n f = str_eqb (lower (f_name f)) (lower n).
Proof. reflexivity. Qed.

Lemma has_name_add_nl n f : has_name n (add_nl f) = has_name n f.
Proof. unfold add_nl, has_name. now destruct (ends_nl (f_rest f)). Qed.

Lemma f_name_add_nl f : f_name (add_nl f) = f_name f.
Proof. unfold add_nl. now destruct (ends_nl (f_rest f)). Qed.

Lemma names_nl fs : map f_name (nl fs) = map f_name fs.
Proof. apply map_last_map. apply f_name_add_nl. Qed.

Lemma nl_length fs : length (nl fs) = length fs.
Proof. apply map_last_length. Qed.

Lemma map_has_name_nl n fs : map (has_name n) (nl fs) = map (has_name n) fs.
Proof. apply map_last_map. apply has_name_add_nl. Qed.
