(** Proofs for C11, part 4b: edits of a comma-separated list through the view.
    - the invariant [inv_c] on the items of a view: item shapes, token texts, comment tokens
      are complete lines, the line automaton [crun] accepts the flattened tokens, and between
      two value items there is at least one comma ([srun]);
    - interpret establishes it; append / replace / remove (with the left/right choice of
      _remove_node, comment lines included) preserve it and act on the values as the Python
      list operations;
    - the text written by _update_field is a value text of the property's domain, re-parses
      to itself, and a fresh comma view of it reads exactly the values of the view;
    - whole sessions: direct edits ([view_edit_readback_comma]) and edits through value
      references ([view_session_refines_comma]): the session of the model refines the abstract
      list-with-identities machine of ListSpec ([a_step]) under a renaming [phi] of node
      identities; the identity bookkeeping ([ids_ok], [R], [ext], ...) is the kind-independent
      part of ListRefProofs;
    - when the close succeeds ([view_close_succeeds_comma], [session_close_succeeds_comma]):
      for a value text that does not end on a comment line, whenever the edited list is not
      empty. *)
From Verif Require Import Lib.Base Lib.PyStr Gen.PyChars Repro.ListView Repro.ListSpec
  Repro.ListLemmas Repro.ListProofs Repro.ListEditProofs Repro.ListRefProofs Repro.ListCommaBase.
From Coq Require Import Lia.

(** * The invariant *)

Definition inv_c (vw : view) : Prop :=
  (exists s' q, Seg (v_items vw) c0 s' false q /\ c_ok s' || c_lf s' = true)
  /\ cache_ok vw.

(** ** interpret establishes it *)

Lemma Seg_values its s s' q : Seg its s s' false q -> cvals (flat its) = values_of its.
Proof.
  intros [H1 [_ [_ [_ H5]]]]. apply cvals_flat; [assumption|]. now rewrite H5.
Qed.

Lemma interpret_inv_c v : value_ok v = true -> closed_value v = true ->
  exists vw, interpret Comma v = Ok vw /\ inv_c vw /\ view_values vw = split_spec true v
    /\ v_changed vw = false.
Proof.
  intros Hv Hc. destruct (tokenize_c_ok v Hv) as [ts [s' [Htok [Htx [Hok [Hdc [Hcl [Hrun Hfin]]]]]]]].
  rewrite closed_value_open in Hc. apply negb_true_iff in Hc. specialize (Hcl Hc).
  destruct (parse_stream_c (length ts) ts (S (length ts)) false) as [its [Hits [Hflat [Hic Hsr]]]]; try lia; auto.
  destruct (srun false its) as [q|] eqn:Eq; [|congruence].
  assert (HS : Seg its c0 s' false q).
  { unfold Seg. rewrite Hflat. splits; auto. }
  unfold interpret, parse_str. rewrite Htok. cbn [bind]. rewrite Htx, Nat.eqb_refl. cbn [negb].
  rewrite Hits. cbn [bind]. rewrite items_text_flat, Hflat, Htx, Nat.eqb_refl. cbn [negb].
  assert (Hne : its <> []).
  { intros ->. cbn in Hflat. subst ts. unfold toks_text in Htx. simpl in Htx. subst v. discriminate. }
  cbn [bind]. rewrite mk_view_eq by assumption.
  eexists. split; [reflexivity|].
  unfold inv_c, cache_ok, view_values, v_items. cbn [v_nodes v_cont v_changed]. rewrite map_snd_number.
  assert (Hvals : values_of its = split_spec true v).
  { rewrite <- (Seg_values _ _ _ _ HS), Hflat. unfold split_spec. rewrite <- Hdc.
    change py_isspace with isws. symmetry. apply (cm_vals ts). now apply Forall_tok_ok_c_cm. }
  unfold drop_nl. destruct (last_opt its) as [[t|tt f]|] eqn:El;
    try (splits; auto; exists s', q; split; assumption).
  destruct (kind_eqb (tk t) KNl) eqn:Ek; [|splits; auto; exists s', q; split; assumption].
  assert (Hk : tk t = KNl) by (destruct (tk t); try discriminate; reflexivity).
  apply ends_snoc_inv in El. rewrite El in HS. apply Seg_app in HS.
  destruct HS as [s1 [q1 [HS0 [_ [_ [_ [H4 _]]]]]]].
  cbn [flat flat_map item_toks app crun] in H4. rewrite Hk in H4. cbn [cstep] in H4.
  destruct (c_lf s1 || negb (c_ok s1)) eqn:E2; [discriminate|].
  apply orb_false_iff in E2. destruct E2 as [_ E2]. apply negb_false_iff in E2.
  splits; auto.
  - exists s1, q1. split; [exact HS0|]. now rewrite E2.
  - rewrite <- Hvals. rewrite El at 2. rewrite values_of_app. unfold values_of at 3. simpl. now rewrite app_nil_r.
Qed.

(** * The state after the last token *)

Lemma tok_ok_c_nonempty t : tok_ok_c t = true -> tx t <> [].
Proof.
  unfold tok_ok_c. destruct t as [k x]. cbn [tk tx]. destruct k; intros H; try discriminate.
  - apply andb_true_iff in H. destruct H as [H _]. destruct x; discriminate.
  - apply andb_true_iff in H. destruct H as [H _]. apply andb_true_iff in H. destruct H as [H _]. destruct x; discriminate.
  - apply str_eqb_eq in H. subst x. discriminate.
  - apply andb_true_iff in H. destruct H as [H _]. destruct x; discriminate.
  - apply orb_true_iff in H. destruct H as [H|H]; apply str_eqb_eq in H; subst x; discriminate.
  - apply str_eqb_eq in H. subst x. discriminate.
Qed.

Lemma tok_ends_lf_c t : tok_ok_c t = true -> com_lf t = true -> ends_with_lf (tx t) = lf_kind (tk t).
Proof.
  unfold tok_ok_c, com_lf, is_comment_tok. destruct t as [k x]. cbn [tk tx].
  destruct k; cbn [kind_eqb lf_kind]; intros H Hc; try discriminate.
  - apply andb_true_iff in H. destruct H as [_ H]. now apply no_lb_not_ends_lf.
  - apply andb_true_iff in H. destruct H as [_ H]. now apply no_lb_not_ends_lf.
  - apply str_eqb_eq in H. subst x. reflexivity.
  - exact Hc.
  - apply orb_true_iff in H. destruct H as [H|H]; apply str_eqb_eq in H; subst x; reflexivity.
  - apply str_eqb_eq in H. subst x. reflexivity.
Qed.

Lemma cstep_flags s k s1 : cstep s k = Some s1 -> c_lf s1 = lf_kind k.
Proof.
  destruct k; cbn [cstep lf_kind].
  - destruct (c_lf s); [discriminate|]. now intros [= <-].
  - discriminate.
  - destruct (c_lf s); [discriminate|]. now intros [= <-].
  - destruct (c_lf s); [discriminate|]. now intros [= <-].
  - destruct (c_lf s); [|discriminate]. now intros [= <-].
  - destruct (c_lf s); [|discriminate]. now intros [= <-].
  - destruct (c_lf s || negb (c_ok s)); [discriminate|]. now intros [= <-].
Qed.

Lemma toks_text_nonempty_c ts : ts <> [] -> Forall (fun t => tok_ok_c t = true) ts -> toks_text ts <> [].
Proof.
  destruct ts as [|t ts]; [congruence|]. intros _ H. inversion H; subst.
  rewrite toks_text_cons. pose proof (tok_ok_c_nonempty t H2). destruct (tx t); [congruence|discriminate].
Qed.

Lemma ends_with_lf_app a b : b <> [] -> ends_with_lf (a ++ b) = ends_with_lf b.
Proof. intros H. unfold ends_with_lf. now rewrite last_opt_app. Qed.

Lemma crun_lf : forall ts s s',
  Forall (fun t => tok_ok_c t = true) ts -> forallb com_lf ts = true -> crun s ts = Some s' ->
  c_lf s' = match ts with [] => c_lf s | _ => ends_with_lf (toks_text ts) end.
Proof.
  induction ts as [|t r IH]; intros s s' Hok Hcl Hrun.
  - simpl in Hrun. now injection Hrun as <-.
  - inversion Hok as [|? ? Hokt Hok']; subst. cbn [forallb] in Hcl. apply andb_true_iff in Hcl.
    destruct Hcl as [Hct Hcl']. cbn [crun] in Hrun.
    destruct (cstep s (tk t)) as [s1|] eqn:Es; [|discriminate].
    specialize (IH s1 s' Hok' Hcl' Hrun). rewrite toks_text_cons. destruct r as [|t2 r2].
    + change (toks_text []) with (@nil N). rewrite app_nil_r, IH.
      rewrite (cstep_flags _ _ _ Es). symmetry. now apply tok_ends_lf_c.
    + rewrite ends_with_lf_app; [exact IH|]. apply toks_text_nonempty_c; [discriminate|assumption].
Qed.

Lemma item_c_toks_nonempty it : item_c it = true -> item_toks it <> [].
Proof. destruct it as [t|[|t ts] f]; cbn; intros H; try discriminate. Qed.

Lemma tail_state_c its s' q : Seg its c0 s' false q -> c_lf s' = last_lf its.
Proof.
  intros HS. unfold last_lf. destruct its as [|it its0] using rev_ind.
  - destruct HS as [_ [_ [_ [H4 _]]]]. simpl in H4. now injection H4 as <-.
  - clear IHits0. rewrite last_opt_snoc. apply Seg_app in HS.
    destruct HS as [s1 [q1 [_ [H1 [H2 [H3 [H4 _]]]]]]].
    cbn [flat flat_map] in *. rewrite app_nil_r in *. cbn [forallb] in H1. rewrite andb_true_r in H1.
    pose proof (crun_lf _ _ _ H2 H3 H4) as HL. pose proof (item_c_toks_nonempty it H1) as Hne.
    destruct (item_toks it) eqn:E; [congruence|]. rewrite HL. unfold item_ends_lf, item_text. now rewrite E.
Qed.

(** * Pushing tokens *)

Lemma cont_char_ok_c vw : Forall (fun t => tok_ok_c t = true) (flat (v_items vw)) -> cache_ok vw ->
  ok_cont (fst (cont_char vw))
  /\ v_nodes (snd (cont_char vw)) = v_nodes vw
  /\ v_next (snd (cont_char vw)) = v_next vw
  /\ v_changed (snd (cont_char vw)) = v_changed vw
  /\ cache_ok (snd (cont_char vw)).
Proof.
  intros H2 Hc. unfold cont_char, cache_ok in *.
  destruct (v_cont vw) as [c|] eqn:Ec.
  - cbn [fst snd]. rewrite Ec. splits; auto.
  - set (f := fun it => match it with IT t => kind_eqb (tk t) KCont | IV _ _ => false end).
    assert (G : ok_cont (match List.find f (v_items vw) with Some it => item_text it | None => [SP] end)).
    { destruct (List.find f (v_items vw)) as [it|] eqn:Ef; [|now left].
      apply find_some in Ef. destruct Ef as [Hin Hf]. destruct it as [t|]; [|discriminate].
      rewrite item_text_IT. rewrite Forall_forall in H2.
      assert (Ht : tok_ok_c t = true).
      { apply H2. unfold flat. apply in_flat_map. exists (IT t). split; [assumption|now left]. }
      unfold tok_ok_c in Ht. subst f. cbn beta iota in Hf.
      destruct (tk t); try discriminate. apply orb_true_iff in Ht.
      destruct Ht as [Ht|Ht]; apply str_eqb_eq in Ht; [now left|now right]. }
    cbn [fst snd v_nodes v_next v_changed v_cont]. splits; auto.
Qed.

Lemma Seg_snoc its it s s1 s' q q1 q' :
  Seg its s s1 q q1 -> Seg [it] s1 s' q1 q' -> Seg (its ++ [it]) s s' q q'.
Proof. intros A B. apply Seg_app. now exists s1, q1. Qed.

Lemma values_of_snoc_IT its t : values_of (its ++ [IT t]) = values_of its.
Proof. rewrite values_of_app. unfold values_of at 2. simpl. now rewrite app_nil_r. Qed.

(** _append_continuation_line_token_if_necessary *)
Lemma append_cont_c vw s' q : Seg (v_items vw) c0 s' false q -> cache_ok vw ->
  exists s1, Seg (v_items (append_cont_if_necessary vw)) c0 s1 false q
    /\ cache_ok (append_cont_if_necessary vw)
    /\ c_lf s1 = false
    /\ values_of (v_items (append_cont_if_necessary vw)) = values_of (v_items vw)
    /\ v_changed (append_cont_if_necessary vw) = v_changed vw.
Proof.
  intros HS Hc. pose proof (tail_state_c _ _ _ HS) as T1.
  unfold append_cont_if_necessary. unfold tail_ends_lf. fold (last_lf (v_items vw)).
  rewrite <- T1. destruct (c_lf s') eqn:El.
  - assert (H2 : Forall (fun t => tok_ok_c t = true) (flat (v_items vw))) by (destruct HS; tauto).
    destruct (cont_char_ok_c vw H2 Hc) as [C1 [C2 [C3 [C4 C5]]]].
    destruct (cont_char vw) as [c vw1]. cbn [fst snd] in *.
    assert (Hit : v_items vw1 = v_items vw) by (unfold v_items; now rewrite C2).
    exists (CS false false). rewrite v_items_push, Hit. splits.
    + eapply Seg_snoc; [exact HS|].
      apply (Seg_IT (Tok KCont c) s' (CS false false) q); try reflexivity.
      * unfold tok_ok_c. cbn [tk tx]. destruct C1 as [-> | ->]; reflexivity.
      * cbn [tk cstep]. now rewrite El.
    + exact C5.
    + reflexivity.
    + apply values_of_snoc_IT.
    + exact C4.
  - exists s'. splits; auto.
Qed.

(** * append *)

Lemma append_separator_c b vw s' q : Seg (v_items vw) c0 s' false q -> cache_ok vw ->
  exists s1, Seg (v_items (append_separator Comma b vw)) c0 s1 false false
    /\ cache_ok (append_separator Comma b vw)
    /\ c_lf s1 = false
    /\ values_of (v_items (append_separator Comma b vw)) = values_of (v_items vw).
Proof.
  intros HS Hc. unfold append_separator.
  destruct (append_cont_c (set_changed vw) s' q HS Hc) as [s1 [HS1 [Hc1 [L1 [V1 _]]]]].
  set (vw1 := append_cont_if_necessary (set_changed vw)) in *.
  assert (HS2 : Seg (v_items (push vw1 (IT (Tok KComma [COMMA])))) c0 c0 false false).
  { rewrite v_items_push. eapply Seg_snoc; [exact HS1|].
    apply (Seg_IT (Tok KComma [COMMA]) s1 c0 q); try reflexivity. cbn [tk cstep]. now rewrite L1. }
  destruct b.
  - exists c0. rewrite v_items_push. splits; auto.
    + eapply Seg_snoc; [exact HS2|]. apply (Seg_IT (Tok KWs [SP]) c0 c0 false); reflexivity.
    + rewrite values_of_snoc_IT, v_items_push, values_of_snoc_IT. exact V1.
  - exists c0. splits; auto. rewrite v_items_push, values_of_snoc_IT. exact V1.
Qed.

Lemma needs_sep_q its : forall q, srun false its = Some q -> needs_separator Comma (rev its) = q.
Proof.
  induction its as [|it its0 IH] using rev_ind; intros q H.
  - simpl in H. now injection H as <-.
  - rewrite srun_app in H. destruct (srun false its0) as [q0|]; [|discriminate].
    specialize (IH q0 eq_refl). rewrite rev_app_distr. cbn [rev app needs_separator].
    cbn [srun] in H. unfold sstep in H. destruct (is_value it).
    + destruct q0; [discriminate|]. now injection H as <-.
    + destruct (is_stype Comma it); injection H as <-; [reflexivity|exact IH].
Qed.

Lemma render_word x : render (IV [Tok KVal x] true) = x.
Proof. unfold render, toks_text. simpl. now rewrite app_nil_r. Qed.

Lemma append_value_inv_c x vw : inv_c vw -> word_ok x = true -> no_lb x = true ->
  inv_c (append_value Comma (IV [Tok KVal x] true) vw)
  /\ view_values (append_value Comma (IV [Tok KVal x] true) vw) = view_values vw ++ [x]
  /\ v_changed (append_value Comma (IV [Tok KVal x] true) vw) = true.
Proof.
  intros [[s' [q [HS Hfin]]] Hc] Hw Hlb. unfold append_value.
  (* phase A: a separator if one is needed *)
  assert (A : exists vwA sA, (match v_nodes vw with
                              | [] => push vw (IT (Tok KWs [SP]))
                              | _ => if needs_separator Comma (rev (v_items vw))
                                     then append_separator Comma true vw else vw
                              end) = vwA
                /\ Seg (v_items vwA) c0 sA false false /\ cache_ok vwA
                /\ values_of (v_items vwA) = values_of (v_items vw)).
  { destruct (v_nodes vw) as [|n0 ns] eqn:En.
    - assert (Hi : v_items vw = []) by (apply v_nodes_nil_items; assumption).
      eexists. exists c0. split; [reflexivity|]. rewrite v_items_push, Hi. splits.
      + apply (Seg_IT (Tok KWs [SP]) c0 c0 false); reflexivity.
      + exact Hc.
      + reflexivity.
    - destruct HS as [H1 [H2 [H3 [H4 H5]]]]. rewrite (needs_sep_q _ _ H5).
      assert (HS : Seg (v_items vw) c0 s' false q) by (unfold Seg; tauto).
      destruct q.
      + destruct (append_separator_c true vw s' true HS Hc) as [s1 [HS1 [Hc1 [L1 V1]]]].
        eexists. exists s1. split; [reflexivity|]. splits; assumption.
      + exists vw, s'. split; [reflexivity|]. splits; try assumption; reflexivity. }
  destruct A as [vwA [sA [-> [HSA [HcA VA]]]]].
  destruct (append_cont_c vwA sA false HSA HcA) as [s1 [HS1 [Hc1 [L1 [V1 _]]]]].
  set (vw1 := append_cont_if_necessary vwA) in *.
  assert (HSf : Seg (v_items (push (set_changed vw1) (IV [Tok KVal x] true))) c0 c0 false true).
  { rewrite v_items_push, v_items_set_changed. eapply Seg_snoc; [exact HS1|]. now apply Seg_IV_word. }
  splits.
  - split; [|exact Hc1]. exists c0, true. split; [exact HSf|reflexivity].
  - unfold view_values. rewrite v_items_push, v_items_set_changed, values_of_app, V1, VA.
    f_equal. unfold values_of. cbn [filter is_value map]. now rewrite render_word.
  - reflexivity.
Qed.

(** ** the value factory on a good value *)

Lemma comma_tail_word x : word_ok x = true -> comma_tail x = (([], x, []), []).
Proof.
  intros Hw. destruct (word_ok_parts _ Hw) as [c [x' [E [Hc [[d [Hd1 Hd2]] Hnc]]]]].
  unfold comma_tail. rewrite E at 1. rewrite (span_cons_false isws c x' Hc).
  assert (Hcc : not_comma c = true).
  { rewrite E in Hnc. cbn [forallb] in Hnc. apply andb_true_iff in Hnc. tauto. }
  rewrite Hcc. rewrite <- E. rewrite (span_forall_nil not_comma x Hnc).
  unfold rstrip_by. rewrite (rdropwhile_keep_last isws x d Hd1 Hd2).
  now rewrite skipn_all.
Qed.

Lemma value_factory_c x : word_ok x = true -> no_lb x = true ->
  value_factory Comma x = Ok (IV [Tok KVal x] true).
Proof.
  intros Hw Hlb. pose proof (word_ok_not_ws x Hw) as Haw.
  destruct x as [|c x']; [discriminate|]. set (x := c :: x') in *.
  assert (Hgroups : comma_groups x = Ok [CG [] false [] x []]).
  { unfold comma_groups.
    replace (2 * length x + 2) with (S (S (2 * length x))) by lia.
    rewrite comma_finditer_S. cbn [comma_try]. rewrite (comma_tail_word x Hw).
    subst x. cbn [nonempty orb negb andb]. rewrite comma_finditer_S. reflexivity. }
  assert (Htok : tokenize Comma x = Ok [Tok KVal x]).
  { unfold tokenize. unfold all_ws. rewrite Haw, andb_false_r.
    rewrite splitlines_lf_only by now apply no_lb_lf_only.
    rewrite lines_lf_last by (try apply no_lb_no_lf; try assumption; subst x; discriminate).
    cbn [lines_tokens line_tokens negb andb bind]. rewrite no_lb_not_ends_lf by assumption.
    cbn [line_func]. unfold comma_line_tokens. rewrite Hgroups. subst x. reflexivity. }
  unfold value_factory. fold x. unfold parse_str. rewrite Htok. cbn [bind].
  assert (Ht : toks_text [Tok KVal x] = x) by (unfold toks_text; simpl; now rewrite app_nil_r).
  rewrite Ht, Nat.eqb_refl. cbn [negb length].
  assert (Hps : parse_stream Comma 2 [Tok KVal x] = Ok [IV [Tok KVal x] false]) by reflexivity.
  rewrite Hps. cbn [bind].
  assert (Hi : items_text [IV [Tok KVal x] false] = x).
  { unfold items_text, item_text. cbn [map concat item_toks]. rewrite Ht. now rewrite app_nil_r. }
  rewrite Hi, Nat.eqb_refl. cbn [negb bind]. rewrite Ht, Nat.eqb_refl. subst x. reflexivity.
Qed.

Lemma good_value_c x : good_value true x = true -> word_ok x = true /\ no_lb x = true.
Proof.
  unfold good_value. intros H. apply andb_true_iff in H. destruct H as [H H3].
  apply andb_true_iff in H. destruct H as [H1 H2].
  apply andb_true_iff in H3. destruct H3 as [H3 H5]. apply andb_true_iff in H3. destruct H3 as [H3 H4].
  split.
  - unfold word_ok. destruct x as [|c x']; [discriminate|]. change py_isspace with isws in *.
    rewrite H4. cbn [andb]. destruct (last_opt (c :: x')) as [d|]; [|discriminate]. rewrite H5. cbn [andb].
    apply negb_true_iff in H3. clear -H3. induction (c :: x') as [|a l IH]; [reflexivity|].
    rewrite mem_char_cons in H3. apply orb_false_iff in H3. destruct H3 as [Ha Hl].
    cbn [forallb]. rewrite IH by assumption. unfold not_comma, COMMA. rewrite N.eqb_sym, Ha. reflexivity.
  - apply negb_true_iff in H2. clear -H2. unfold no_lb. induction x as [|a l IH]; [reflexivity|].
    cbn [existsb] in H2. apply orb_false_iff in H2. destruct H2 as [Ha Hl].
    cbn [forallb]. now rewrite Ha, IH.
Qed.

Lemma append_inv_c x vw : inv_c vw -> good_value true x = true ->
  exists vw', append Comma x vw = Ok vw' /\ inv_c vw'
    /\ view_values vw' = view_values vw ++ [x] /\ v_changed vw' = true.
Proof.
  intros Hinv Hg. destruct (good_value_c x Hg) as [Hw Hlb]. unfold append.
  rewrite value_factory_c by assumption. cbn [bind].
  destruct (append_value_inv_c x vw Hinv Hw Hlb) as [H1 [H2 H3]]. eexists. split; [reflexivity|]. auto.
Qed.

(** * replace *)

(** the three segments around the item at position [length pre] *)
Lemma Seg_split3 pre it post s' q :
  Seg (pre ++ it :: post) c0 s' false q ->
  exists s1 q1 s2 q2, Seg pre c0 s1 false q1 /\ Seg [it] s1 s2 q1 q2 /\ Seg post s2 s' q2 q.
Proof.
  intros H. apply Seg_app in H. destruct H as [s1 [q1 [A B]]]. apply Seg_cons in B.
  destruct B as [s2 [q2 [B C]]]. now exists s1, q1, s2, q2.
Qed.

Lemma Seg_join3 pre it post s1 q1 s2 q2 s' q :
  Seg pre c0 s1 false q1 -> Seg [it] s1 s2 q1 q2 -> Seg post s2 s' q2 q ->
  Seg (pre ++ it :: post) c0 s' false q.
Proof.
  intros A B C. apply Seg_app. exists s1, q1. split; [exact A|]. apply Seg_cons. now exists s2, q2.
Qed.

(** node.value = vt for a value node at position [length pre] *)
Lemma set_value_at_inv_c y vw pre it post : inv_c vw -> word_ok y = true -> no_lb y = true ->
  v_items vw = pre ++ it :: post -> is_value it = true ->
  let vw' := set_value_at (length pre) (IV [Tok KVal y] true) vw in
  inv_c vw' /\ v_items vw' = pre ++ IV [Tok KVal y] true :: post
  /\ view_values vw' = values_of pre ++ y :: values_of post /\ v_changed vw' = true.
Proof.
  intros [[s' [q [HS Hfin]]] Hc] Hw Hlb Eits Hv vw'.
  assert (Hitems : v_items vw' = pre ++ IV [Tok KVal y] true :: post).
  { subst vw'. unfold set_value_at, v_items. cbn [set_changed set_nodes v_nodes].
    rewrite map_snd_set_at. fold (v_items vw). rewrite Eits. now rewrite set_at_app. }
  splits.
  - split; [|exact Hc]. exists s', q. split; [|exact Hfin]. rewrite Hitems. rewrite Eits in HS.
    destruct (Seg_split3 _ _ _ _ _ HS) as [s1 [q1 [s2 [q2 [A [B C]]]]]].
    destruct (Seg_value _ _ _ _ _ Hv B) as [L1 [-> [-> [-> _]]]].
    apply (Seg_join3 pre _ post s1 false c0 true); auto. now apply Seg_IV_word.
  - exact Hitems.
  - unfold view_values. rewrite Hitems, values_of_app, values_of_cons. cbn [is_value app]. now rewrite render_word.
  - reflexivity.
Qed.

Lemma replace_inv_c x y vw : inv_c vw -> good_value true y = true ->
  match list_replace x y (view_values vw) with
  | Some l' => exists vw', replace Comma x y vw = Ok vw' /\ inv_c vw' /\ view_values vw' = l' /\ v_changed vw' = true
  | None => exists e, replace Comma x y vw = Err e
  end.
Proof.
  intros Hinv Hg. destruct (good_value_c y Hg) as [Hw Hlb].
  unfold replace, view_values. destruct (find_value x (v_items vw) 0) as [i|] eqn:Ef.
  - destruct (find_value_some _ _ _ _ Ef) as [pre [it [post [Eits [-> [Hm Hpre]]]]]].
    destruct (matches_inv _ _ Hm) as [Hv Hr].
    rewrite Eits, values_of_app, values_of_cons, Hv, Hr. cbn [app].
    rewrite list_replace_first by now apply nomatch_values.
    rewrite value_factory_c by assumption. cbn [bind plus]. eexists. split; [reflexivity|].
    destruct (set_value_at_inv_c y vw pre it post Hinv Hw Hlb Eits Hv) as [H1 [_ [H3 H4]]]. splits; assumption.
  - apply find_value_none in Ef. rewrite list_replace_absent by now apply nomatch_values.
    now eexists.
Qed.

(** * remove *)

(** _remove_node for a value node at position [length pre]: whichever side is unlinked
    (the choice looks at the comment lines between the node and its neighbours), what
    remains keeps a comma between any two values and the line structure *)
Lemma remove_at_inv_c vw pre it post : inv_c vw ->
  v_items vw = pre ++ it :: post -> is_value it = true ->
  let vw' := remove_at (length pre) vw in
  inv_c vw' /\ view_values vw' = values_of pre ++ values_of post /\ v_changed vw' = true.
Proof.
  intros [[s' [q [HS Hfin]]] Hc] Eits Hv vw'. subst vw'.
  unfold view_values.
  pose proof (remove_range_spec pre it post) as Hspec.
  unfold remove_at. rewrite v_items_set_changed, Eits.
  rewrite Eits in HS.
  destruct (Seg_split3 _ _ _ _ _ HS) as [s1 [q1 [s2 [q2 [A [B C]]]]]].
  destruct (Seg_value _ _ _ _ _ Hv B) as [L1 [-> [-> [-> _]]]].
  destruct (remove_range (pre ++ it :: post) (length pre)) as [[a b]|].
  + assert (Hitems : v_items (set_nodes (set_changed vw) (delete_range a b (v_nodes (set_changed vw))))
                     = delete_range a b (pre ++ it :: post)).
    { unfold v_items at 1. cbn [set_nodes v_nodes]. rewrite map_snd_delete_range.
      change (map snd (v_nodes (set_changed vw))) with (v_items vw). now rewrite Eits. }
    destruct Hspec as [[pre' [pv [mid [Epre [Hpv [Hmid [Hdel _]]]]]]]|[mid [nv [post' [Epost [Hnv [Hmid [Hdel _]]]]]]]].
    * (* delete to the left: the previous value is followed by what followed the node *)
      rewrite Hdel in Hitems. splits.
      -- split; [|exact Hc]. exists s', q. split; [|exact Hfin]. rewrite Hitems.
         rewrite Epre in A. destruct (Seg_split3 _ _ _ _ _ A) as [sa [qa [sb [qb [A1 [A2 A3]]]]]].
         destruct (Seg_value _ _ _ _ _ Hpv A2) as [_ [-> [-> [-> _]]]].
         apply (Seg_join3 pre' pv post sa false c0 true); auto.
      -- rewrite Hitems. rewrite Epre. rewrite !values_of_app, !values_of_cons, Hpv.
         rewrite (values_of_nonvalues mid) by assumption. rewrite app_nil_r.
         now rewrite <- !app_assoc.
      -- reflexivity.
    * (* delete to the right: the next value takes the node's place *)
      rewrite Hdel in Hitems. splits.
      -- split; [|exact Hc]. exists s', q. split; [|exact Hfin]. rewrite Hitems.
         rewrite Epost in C. apply Seg_app in C. destruct C as [sm [qm [_ C]]].
         apply Seg_cons in C. destruct C as [sn [qn [C1 C2]]].
         destruct (Seg_value _ _ _ _ _ Hnv C1) as [_ [-> [-> [-> Hany]]]].
         apply (Seg_join3 pre nv post' s1 false c0 true); auto.
      -- rewrite Hitems. rewrite Epost. rewrite !values_of_app, !values_of_cons, Hnv.
         rewrite (values_of_nonvalues mid) by assumption. reflexivity.
      -- reflexivity.
  + (* the only value: everything goes *)
    destruct Hspec as [Hp Hq]. splits.
    * split; [|exact Hc]. exists c0, false. split; [apply Seg_nil|reflexivity].
    * cbn [set_nodes v_items v_nodes map]. rewrite values_of_nil.
      now rewrite (values_of_nonvalues pre), (values_of_nonvalues post).
    * reflexivity.
Qed.

Lemma remove_inv_c x vw : inv_c vw ->
  match list_remove x (view_values vw) with
  | Some l' => exists vw', remove x vw = Ok vw' /\ inv_c vw' /\ view_values vw' = l' /\ v_changed vw' = true
  | None => exists e, remove x vw = Err e
  end.
Proof.
  intros Hinv.
  unfold remove, view_values. destruct (find_value x (v_items vw) 0) as [i|] eqn:Ef.
  - destruct (find_value_some _ _ _ _ Ef) as [pre [it [post [Eits [-> [Hm Hpre]]]]]].
    destruct (matches_inv _ _ Hm) as [Hv Hr]. cbn [plus].
    rewrite Eits, values_of_app, values_of_cons, Hv, Hr. cbn [app].
    rewrite list_remove_first by now apply nomatch_values.
    eexists. split; [reflexivity|].
    destruct (remove_at_inv_c vw pre it post Hinv Eits Hv) as [H1 [H2 H3]]. splits; assumption.
  - apply find_value_none in Ef. rewrite list_remove_absent by now apply nomatch_values.
    now eexists.
Qed.

(** * From an accepted token list back to lines *)

(** the tokens up to the first line end *)
Lemma split_at_lf_c : forall ts s s',
  crun s ts = Some s' -> c_lf s = false -> c_lf s' = true ->
  Forall (fun t => tok_ok_c t = true) ts ->
  exists line rest s1, ts = line ++ Tok KNl [LF] :: rest
    /\ forallb inline_cm line = true /\ crun s line = Some s1 /\ c_ok s1 = true
    /\ crun cLF rest = Some s'.
Proof.
  induction ts as [|t r IH]; intros s s' Hrun Hs Hs' Hok.
  - simpl in Hrun. injection Hrun as <-. congruence.
  - inversion Hok as [|? ? Hokt Hok']; subst. cbn [crun] in Hrun.
    destruct (cstep s (tk t)) as [s2|] eqn:Es; [|discriminate].
    destruct (tk t) eqn:Ek; cbn [cstep] in Es; try discriminate; try (rewrite Hs in Es; discriminate).
    + rewrite Hs in Es. injection Es as <-.
      destruct (IH _ _ Hrun eq_refl Hs' Hok') as [line [rest [s1 [-> [Hin [Hr [Hk Hrest]]]]]]].
      exists (t :: line), rest, s1. splits; auto.
      * cbn [forallb]. unfold inline_cm at 1. now rewrite Ek, Hin.
      * cbn [crun]. rewrite Ek. cbn [cstep]. now rewrite Hs.
    + rewrite Hs in Es. injection Es as <-.
      destruct (IH _ _ Hrun eq_refl Hs' Hok') as [line [rest [s1 [-> [Hin [Hr [Hk Hrest]]]]]]].
      exists (t :: line), rest, s1. splits; auto.
      * cbn [forallb]. unfold inline_cm at 1. now rewrite Ek, Hin.
      * cbn [crun]. rewrite Ek. cbn [cstep]. now rewrite Hs.
    + rewrite Hs in Es. injection Es as <-.
      destruct (IH _ _ Hrun eq_refl Hs' Hok') as [line [rest [s1 [-> [Hin [Hr [Hk Hrest]]]]]]].
      exists (t :: line), rest, s1. splits; auto.
      * cbn [forallb]. unfold inline_cm at 1. now rewrite Ek, Hin.
      * cbn [crun]. rewrite Ek. cbn [cstep]. now rewrite Hs.
    + rewrite Hs in Es. cbn [orb] in Es. destruct (c_ok s) eqn:Eo; [|discriminate].
      cbn [negb] in Es. injection Es as <-.
      exists [], r, s. splits; auto.
      unfold tok_ok_c in Hokt. rewrite Ek in Hokt. apply str_eqb_eq in Hokt.
      destruct t as [k x]. cbn [tk tx] in *. now subst.
Qed.

Lemma cont_tokens_lines_c : forall n ts s',
  length ts <= n ->
  Forall (fun t => tok_ok_c t = true) ts -> forallb com_lf ts = true ->
  crun cLF ts = Some s' -> c_lf s' = true ->
  let v := toks_text ts in
  lf_only v = true
  /\ forallb shape (lines_lf v) = true
  /\ concat (filter noncomment_line (lines_lf v)) = toks_text (filter nc ts)
  /\ last_com_line (lines_lf v) = last_com_tok ts.
Proof.
  induction n as [|n IH]; intros ts s' Hn Hok Hcl Hrun Hs' v.
  { destruct ts; [|simpl in Hn; lia]. subst v. splits; reflexivity. }
  destruct ts as [|t r]; [subst v; splits; reflexivity|].
  inversion Hok as [|? ? Hokt Hok']; subst. cbn [forallb] in Hcl. apply andb_true_iff in Hcl.
  destruct Hcl as [Hct Hcl']. cbn [crun] in Hrun. simpl in Hn.
  destruct (cstep cLF (tk t)) as [s2|] eqn:Es; [|discriminate].
  destruct (tk t) eqn:Ek; cbn [cstep cLF c_lf] in Es; try discriminate.
  - (* a comment line *)
    injection Es as <-. fold cLF in Hrun.
    assert (Hcm : is_comment_tok t = true) by (unfold is_comment_tok; now rewrite Ek).
    unfold com_lf in Hct. rewrite Hcm in Hct.
    unfold tok_ok_c in Hokt. rewrite Ek in Hokt. apply andb_true_iff in Hokt. destruct Hokt as [Hh Hlb].
    assert (Etx : tx t = removelast (tx t) ++ [LF]).
    { unfold ends_with_lf in Hct. destruct (last_opt (tx t)) as [c|] eqn:El; [|discriminate].
      apply N.eqb_eq in Hct. subst c. now apply ends_snoc_inv. }
    set (b := removelast (tx t)) in *.
    destruct (IH r s' ltac:(lia) Hok' Hcl' Hrun Hs') as [I1 [I2 [I3 I4]]].
    subst v. rewrite toks_text_cons, Etx, <- app_assoc. cbn [app].
    rewrite lines_lf_line by now apply no_lb_no_lf.
    assert (Hhb : starts_hash (b ++ [LF]) = true) by now rewrite <- Etx.
    splits.
    + now apply lf_only_cons_line.
    + cbn [forallb]. rewrite I2, andb_true_r. unfold shape.
      rewrite ends_with_lf_snoc, removelast_snoc, Hlb, Hhb. reflexivity.
    + cbn [filter]. unfold nc at 1. rewrite Hcm. cbn [negb].
      assert (Hn' : noncomment_line (b ++ [LF]) = false).
      { unfold noncomment_line, is_comment_line. unfold starts_hash in Hhb.
        destruct (b ++ [LF]); [discriminate|]. unfold HASH in Hhb. now rewrite Hhb. }
      rewrite Hn'. exact I3.
    + destruct r as [|t2 r2].
      * cbn. now rewrite Hhb, Hcm.
      * unfold last_com_line, last_com_tok in *.
        rewrite !last_opt_cons by (try discriminate; apply lines_lf_nonempty; apply toks_text_nonempty_c; [discriminate|assumption]).
        exact I4.
  - (* a continuation line *)
    injection Es as <-.
    destruct (split_at_lf_c r _ s' Hrun eq_refl Hs' Hok') as [line [rest [s1 [-> [Hin [Hr [Hk Hrest]]]]]]].
    apply Forall_app in Hok'. destruct Hok' as [Hokl Hokr]. inversion Hokr as [|? ? _ Hokr']; subst.
    rewrite forallb_app in Hcl'. apply andb_true_iff in Hcl'. destruct Hcl' as [_ Hclr].
    cbn [forallb] in Hclr. apply andb_true_iff in Hclr. destruct Hclr as [_ Hclr].
    rewrite inline_crun in Hr by (try assumption; reflexivity). injection Hr as <-.
    cbn [c_ok orb] in Hk.
    destruct (inline_text line Hin Hokl) as [L3 [L4 L5]]. rewrite Hk in L5. cbn [negb] in L5.
    assert (Hlen : length rest <= n) by (rewrite app_length in Hn; simpl in Hn; lia).
    destruct (IH rest s' Hlen Hokr' Hclr Hrest Hs') as [I1 [I2 [I3 I4]]].
    unfold tok_ok_c in Hokt. rewrite Ek in Hokt.
    assert (Hc : exists c, tx t = [c] /\ (c =? SP)%N || (c =? TAB)%N = true).
    { apply orb_true_iff in Hokt. destruct Hokt as [H|H]; apply str_eqb_eq in H; rewrite H.
      - exists SP. split; reflexivity.
      - exists TAB. split; reflexivity. }
    destruct Hc as [c [Etx Hc]].
    assert (Hlbc : no_lb [c] = true).
    { apply orb_true_iff in Hc. destruct Hc as [H|H]; apply N.eqb_eq in H; subst c; reflexivity. }
    subst v. rewrite toks_text_cons, toks_text_app, toks_text_cons, Etx. cbn [tx].
    set (body := toks_text line) in *.
    replace ([c] ++ body ++ [LF] ++ toks_text rest) with ((c :: body) ++ LF :: toks_text rest)
      by reflexivity.
    assert (Hlbb : no_lb (c :: body) = true).
    { change (c :: body) with ([c] ++ body). now rewrite no_lb_app, Hlbc, L3. }
    rewrite lines_lf_line by now apply no_lb_no_lf.
    assert (Hnh : starts_hash ((c :: body) ++ [LF]) = false).
    { cbn. apply orb_true_iff in Hc. destruct Hc as [H|H]; apply N.eqb_eq in H; subst c; reflexivity. }
    splits.
    + now apply lf_only_cons_line.
    + cbn [forallb]. rewrite I2, andb_true_r. unfold shape.
      rewrite ends_with_lf_snoc, removelast_snoc, Hlbb, Hnh. cbn [andb orb].
      assert (Hst : starts_sp_tab ((c :: body) ++ [LF]) = true) by exact Hc.
      rewrite Hst. cbn [andb]. apply negb_true_iff.
      change ((c :: body) ++ [LF]) with ([c] ++ body ++ [LF]). rewrite !blank_app.
      unfold blank at 2. change py_isspace with isws. rewrite L5. now rewrite andb_false_r.
    + cbn [filter]. unfold noncomment_line at 1, is_comment_line.
      assert (Hnc : (c =? 35)%N = false).
      { apply orb_true_iff in Hc. destruct Hc as [H|H]; apply N.eqb_eq in H; subst c; reflexivity. }
      cbn [app]. rewrite Hnc. cbn [negb concat]. rewrite I3.
      assert (Hnt : nc t = true) by (unfold nc, is_comment_tok; now rewrite Ek).
      rewrite Hnt. rewrite filter_app. cbn [filter nc is_comment_tok tk kind_eqb negb].
      rewrite L4. rewrite toks_text_cons, toks_text_app, toks_text_cons, Etx. cbn [tx app].
      fold body. now rewrite <- app_assoc.
    + destruct rest as [|t2 r2].
      * change (toks_text []) with (@nil N). rewrite lines_lf_nil.
        unfold last_com_line, last_com_tok.
        rewrite (last_opt_cons t) by (destruct line; discriminate).
        rewrite last_opt_snoc. cbn [last_opt]. rewrite Hnh. reflexivity.
      * unfold last_com_line, last_com_tok in *.
        rewrite last_opt_cons by (apply lines_lf_nonempty; apply toks_text_nonempty_c; [discriminate|assumption]).
        rewrite I4. rewrite (last_opt_cons t) by (destruct line; discriminate).
        rewrite last_opt_app by discriminate.
        rewrite (last_opt_cons (Tok KNl [LF])) by discriminate. reflexivity.
Qed.

(** * The text that _update_field writes *)

Lemma solid_not_blank ts : Forall (fun t => tok_ok_c t = true) ts -> solid ts = true ->
  forallb isws (toks_text ts) = false.
Proof.
  induction ts as [|t ts IH]; intros Hok Hv; [discriminate|].
  inversion Hok as [|? ? Ht Hok']; subst. unfold solid in Hv. cbn [existsb] in Hv. fold (solid ts) in Hv.
  rewrite toks_text_cons, forallb_app. destruct (solid_tok t) eqn:Ev.
  - unfold solid_tok in Ev. unfold tok_ok_c in Ht. destruct (tk t); try discriminate.
    + apply andb_true_iff in Ht. destruct Ht as [Hw _]. now rewrite (word_ok_not_ws _ Hw).
    + apply str_eqb_eq in Ht. rewrite Ht. reflexivity.
  - cbn [orb] in Hv. rewrite IH by assumption. now rewrite andb_false_r.
Qed.

(** the written tokens: accepted from the start state, ending a line, not ending on a comment,
    holding at least one value or comma *)
Lemma written_text_c ts s' :
  Forall (fun t => tok_ok_c t = true) ts -> forallb com_lf ts = true ->
  crun c0 ts = Some s' -> c_lf s' = true -> last_com_tok ts = false -> solid ts = true ->
  let v := toks_text ts in
  exists b ls, lines_lf v = (b ++ [LF]) :: ls /\ no_lb b = true
    /\ forallb shape ls = true /\ last_com_line ls = false
    /\ lf_only v = true /\ value_ok v = true
    /\ drop_comment_lines v = toks_text (filter nc ts).
Proof.
  intros Hok Hcl Hrun Hs' Hlast Hhv v.
  destruct (split_at_lf_c ts c0 s' Hrun eq_refl Hs' Hok) as [line [rest [s1 [E [Hin [Hr [Hk Hrest]]]]]]].
  assert (Hok2 := Hok). rewrite E in Hok2. apply Forall_app in Hok2. destruct Hok2 as [Hokl Hokr].
  inversion Hokr as [|? ? _ Hokr']; subst.
  rewrite forallb_app in Hcl. apply andb_true_iff in Hcl. destruct Hcl as [_ Hclr].
  cbn [forallb] in Hclr. apply andb_true_iff in Hclr. destruct Hclr as [_ Hclr].
  destruct (inline_text line Hin Hokl) as [L3 [L4 _]].
  destruct (cont_tokens_lines_c (length rest) rest s' (le_n _) Hokr' Hclr Hrest Hs') as [I1 [I2 [I3 I4]]].
  set (body := toks_text line) in *.
  assert (Ev : v = body ++ LF :: toks_text rest).
  { subst v. now rewrite toks_text_app, toks_text_cons. }
  assert (Hlines : lines_lf v = (body ++ [LF]) :: lines_lf (toks_text rest)).
  { rewrite Ev. apply lines_lf_line. now apply no_lb_no_lf. }
  assert (Hlf : lf_only v = true) by (rewrite Ev; now apply lf_only_cons_line).
  assert (Hlc : last_com_line (lines_lf (toks_text rest)) = false).
  { rewrite I4. destruct rest as [|t2 r2]; [reflexivity|].
    unfold last_com_tok in *. rewrite last_opt_app in Hlast by discriminate.
    now rewrite (last_opt_cons (Tok KNl [LF])) in Hlast by discriminate. }
  exists body, (lines_lf (toks_text rest)). splits; auto.
  - unfold value_ok. rewrite Hlf, Hlines. cbn [andb].
    change (fun l : str => starts_cont l && negb (blank l)) with cont_line_ok.
    rewrite (forallb_impl shape cont_line_ok _ shape_cont_line_ok I2), andb_true_r.
    apply negb_true_iff. unfold blank. change py_isspace with isws.
    now apply solid_not_blank.
  - unfold drop_comment_lines. rewrite Hlines.
    change (fun l : str => negb (is_comment_line l)) with noncomment_line. rewrite I3.
    rewrite filter_app. cbn [filter nc is_comment_tok tk kind_eqb negb].
    rewrite L4, toks_text_app, toks_text_cons. cbn [tx]. fold body. now rewrite <- app_assoc.
Qed.

(** * _update_field: what is written reads back as the values of the view *)

Lemma has_content_solid its : has_content its = solid (flat its).
Proof.
  unfold has_content, solid. fold (flat its). induction (flat its) as [|t ts IH]; [reflexivity|].
  cbn [existsb]. rewrite IH. f_equal.
  unfold is_comment_tok, is_whitespace_tok, solid_tok. destruct (tk t); reflexivity.
Qed.

Lemma last_com_flat_snoc its0 tail : item_c tail = true -> is_comment_item tail = false ->
  last_com_tok (flat (its0 ++ [tail])) = false.
Proof.
  intros Hi Hc. unfold last_com_tok. rewrite flat_app. cbn [flat flat_map]. rewrite app_nil_r.
  pose proof (item_c_toks_nonempty tail Hi) as Hne. rewrite last_opt_app by assumption.
  destruct (item_c_cases tail Hi) as [[t [-> Hv]]|[t [ts [f [-> [Hv [Hl [_ _]]]]]]]]; cbn [item_toks].
  - exact Hc.
  - destruct ts as [|t2 ts2]; [cbn [last_opt]; now apply is_val_nc|].
    rewrite last_opt_cons by discriminate. unfold last_is_val in Hl.
    destruct (last_opt (t2 :: ts2)) as [l|]; [now apply is_val_nc|reflexivity].
Qed.

(** the text of the items that _update_field writes (the items of the view, a newline
    supplied when they do not end a line): it re-parses to itself, is in the domain, and a
    fresh comma view of it reads the values of the view *)
Lemma written_c name vw tail :
  inv_c vw -> name_ok name = true ->
  solid (flat (v_items vw)) = true -> last_opt (v_items vw) = Some tail -> is_comment_item tail = false ->
  let its := v_items vw in
  let v' := items_text (if item_ends_lf tail then its else its ++ [IT (Tok KNl [LF])]) in
  reparse name v' = Ok v'
  /\ value_ok v' = true
  /\ exists vw', interpret Comma v' = Ok vw' /\ view_values vw' = view_values vw.
Proof.
  intros [[s' [q [HS Hfin]]] _] Hname Hcont El Etc its. subst its. set (its := v_items vw) in *.
  apply ends_snoc_inv in El. set (its0 := removelast its) in *.
  (* the written items end a line *)
  assert (W : exists its' s'' q', (if item_ends_lf tail then its else its ++ [IT (Tok KNl [LF])]) = its'
               /\ Seg its' c0 s'' false q' /\ c_lf s'' = true /\ last_com_tok (flat its') = false
               /\ values_of its' = values_of its /\ solid (flat its') = true).
  { pose proof (tail_state_c _ _ _ HS) as T1. unfold last_lf in T1. rewrite El, last_opt_snoc in T1.
    assert (Hti : item_c tail = true).
    { destruct HS as [H1 _]. rewrite El, forallb_app in H1. apply andb_true_iff in H1.
      destruct H1 as [_ H1]. cbn [forallb] in H1. now rewrite andb_true_r in H1. }
    destruct (item_ends_lf tail) eqn:Et.
    - exists its, s', q. splits; auto. rewrite El. now apply last_com_flat_snoc.
    - exists (its ++ [IT (Tok KNl [LF])]), cLF, q. splits; auto.
      + eapply Seg_snoc; [exact HS|]. apply (Seg_IT (Tok KNl [LF]) s' cLF q); try reflexivity.
        cbn [tk cstep]. rewrite T1. cbn [orb]. rewrite T1, orb_false_r in Hfin. now rewrite Hfin.
      + unfold last_com_tok. rewrite flat_app. cbn [flat flat_map item_toks app].
        now rewrite last_opt_snoc.
      + apply values_of_snoc_IT.
      + rewrite flat_app, solid_app, Hcont. reflexivity. }
  destruct W as [its' [s'' [q' [Eits' [HS' [Hlf' [Hlast' [Hvals' Hhv']]]]]]]].
  cbn zeta. rewrite Eits'. rewrite items_text_flat.
  pose proof (Seg_values _ _ _ _ HS') as Hcv.
  destruct HS' as [Q1 [Q2 [Q3 [Q4 Q5]]]].
  destruct (written_text_c (flat its') s'' Q2 Q3 Q4 Hlf' Hlast' Hhv')
    as [b [ls [Hlines [Hb [Hshape [Hlc [Hlfo [Hvok Hdrop]]]]]]]].
  pose proof (reparse_ok name _ b ls Hname Hlfo Hlines Hb Hshape Hlc) as Hrp.
  split; [exact Hrp|]. split; [exact Hvok|].
  destruct (view_reads_split_comma _ Hvok) as [vw' [Hi Hv]].
  exists vw'. split; [exact Hi|]. rewrite Hv. unfold split_spec. rewrite Hdrop.
  change py_isspace with isws. unfold view_values. fold its. rewrite <- Hvals', <- Hcv.
  apply (cm_vals (flat its')). now apply Forall_tok_ok_c_cm.
Qed.

Theorem update_field_readback_c name vw v' :
  inv_c vw -> name_ok name = true -> update_field name vw = Ok v' ->
  value_ok v' = true
  /\ reparse name v' = Ok v'
  /\ exists vw', interpret Comma v' = Ok vw' /\ view_values vw' = view_values vw.
Proof.
  intros Hinv Hname Hup.
  unfold update_field in Hup.
  destruct (has_content (v_items vw)) eqn:Hcont; [|discriminate]. cbn [negb] in Hup.
  rewrite has_content_solid in Hcont.
  destruct (last_opt (v_items vw)) as [tail|] eqn:El; [|discriminate].
  destruct (is_comment_item tail) eqn:Etc; [discriminate|].
  destruct (written_c name vw tail Hinv Hname Hcont El Etc) as [W1 [W2 W3]]. cbn zeta in W1, W2, W3.
  rewrite W1 in Hup. injection Hup as <-. splits; assumption.
Qed.

(** ** when _update_field succeeds *)

(** the last item is not a comment token *)
Definition tail_nc (its : list item) : bool :=
  match last_opt its with Some it => negb (is_comment_item it) | None => true end.

Lemma values_solid its : forallb item_c its = true -> values_of its <> [] -> solid (flat its) = true.
Proof.
  induction its as [|it its IH]; intros Hi Hv; [now contradiction Hv|].
  cbn [forallb] in Hi. apply andb_true_iff in Hi. destruct Hi as [Hit Hi].
  rewrite flat_cons, solid_app.
  destruct (item_c_cases it Hit) as [[t [-> Hvt]]|[t [ts [f [-> [Hvt _]]]]]].
  - rewrite values_of_cons_IT in Hv. rewrite (IH Hi Hv). now rewrite orb_true_r.
  - cbn [item_toks]. unfold solid at 1. cbn [existsb]. unfold solid_tok at 1.
    unfold is_val in Hvt. destruct (tk t); try discriminate. reflexivity.
Qed.

(** a view in the invariant that holds a value and does not end on a comment can be written *)
Lemma update_field_ok name vw :
  inv_c vw -> name_ok name = true -> view_values vw <> [] -> tail_nc (v_items vw) = true ->
  exists v', update_field name vw = Ok v'.
Proof.
  intros Hinv Hname Hv Ht.
  assert (Hsol : solid (flat (v_items vw)) = true).
  { destruct Hinv as [[s' [q [[H1 _] _]]] _]. now apply values_solid. }
  unfold update_field. rewrite has_content_solid, Hsol. cbn [negb].
  unfold tail_nc in Ht. destruct (last_opt (v_items vw)) as [tail|] eqn:El.
  - apply negb_true_iff in Ht. rewrite Ht.
    destruct (written_c name vw tail Hinv Hname Hsol El Ht) as [W1 _]. cbn zeta in W1. rewrite W1. now eexists.
  - apply last_opt_none in El. unfold view_values in Hv. rewrite El in Hv. now contradiction Hv.
Qed.

(** * A whole session of direct edits *)

(** the operations this development proves: append / remove / replace, new values being
    good values of a comma-separated list (non-empty, no line boundary, no comma, no
    whitespace at either end) *)
Definition edit_op_c (o : op) : bool :=
  match o with
  | OAppend x => good_value true x
  | ORemove _ => true
  | OReplace _ y => good_value true y
  | _ => false
  end.

Lemma step_edit_c o vw : inv_c vw -> edit_op_c o = true ->
  match l_step o (view_values vw) with
  | Some l' => exists vw', step Comma o vw = (vw', None, None) /\ inv_c vw'
                           /\ view_values vw' = l' /\ v_changed vw' = true
  | None => exists e, step Comma o vw = (vw, Some e, None)
  end.
Proof.
  intros Hinv Ho. destruct o; try discriminate; cbn [edit_op_c l_step step] in *.
  - destruct (append_inv_c x vw Hinv Ho) as [vw' [H1 [H2 [H3 H4]]]]. exists vw'. rewrite H1. auto.
  - pose proof (remove_inv_c x vw Hinv) as H. destruct (list_remove x (view_values vw)).
    + destruct H as [vw' [H1 [H2 [H3 H4]]]]. exists vw'. rewrite H1. auto.
    + destruct H as [e H]. exists e. now rewrite H.
  - pose proof (replace_inv_c x y vw Hinv Ho) as H. destruct (list_replace x y (view_values vw)).
    + destruct H as [vw' [H1 [H2 [H3 H4]]]]. exists vw'. rewrite H1. auto.
    + destruct H as [e H]. exists e. now rewrite H.
Qed.

Lemma run_ops_edit_c os : forall vw, inv_c vw -> forallb edit_op_c os = true ->
  map outcome_list (fst (run_ops Comma os vw)) = fst (l_run os (view_values vw))
  /\ inv_c (snd (run_ops Comma os vw))
  /\ view_values (snd (run_ops Comma os vw)) = snd (l_run os (view_values vw))
  /\ (v_changed (snd (run_ops Comma os vw)) = true \/ snd (run_ops Comma os vw) = vw).
Proof.
  induction os as [|o os IH]; intros vw Hinv Hos.
  - cbn. splits; auto.
  - cbn [forallb] in Hos. apply andb_true_iff in Hos. destruct Hos as [Ho Hos].
    pose proof (step_edit_c o vw Hinv Ho) as Hs. cbn [run_ops l_run].
    destruct (l_step o (view_values vw)) as [l'|].
    + destruct Hs as [vw' [Hst [Hinv' [Hv' Hc']]]]. rewrite Hst.
      destruct (IH vw' Hinv' Hos) as [I1 [I2 [I3 I4]]]. rewrite Hv' in *.
      destruct (run_ops Comma os vw') as [outs vf]. destruct (l_run os l') as [louts lf].
      cbn [fst snd map outcome_list] in *. splits; auto.
      * now rewrite I1.
      * left. destruct I4 as [I4| ->]; assumption.
    + destruct Hs as [e Hst]. rewrite Hst.
      destruct (IH vw Hinv Hos) as [I1 [I2 [I3 I4]]].
      destruct (run_ops Comma os vw) as [outs vf]. destruct (l_run os (view_values vw)) as [louts lf].
      cbn [fst snd map outcome_list] in *. splits; auto. now rewrite I1.
Qed.

(** view_edit_readback for comma-separated lists *)
Theorem view_edit_readback_comma name v os :
  value_ok v = true -> closed_value v = true -> name_ok name = true ->
  forallb edit_op_c os = true ->
  let r := run_session Comma name v os in
  let l0 := split_spec true v in
  sr_read r = Ok l0
  /\ map outcome_list (sr_ops r) = fst (l_run os l0)
  /\ (sr_close r = None ->
      value_ok (sr_value r) = true
      /\ (sr_value r = v \/ reparse name (sr_value r) = Ok (sr_value r))
      /\ exists vw', interpret Comma (sr_value r) = Ok vw' /\ view_values vw' = snd (l_run os l0))
  /\ (forall e, sr_close r = Some e -> sr_value r = v).
Proof.
  intros Hv Hc Hname Hos r l0. subst r l0.
  destruct (interpret_inv_c v Hv Hc) as [vw [Hi [Hinv [Hvals Hch]]]].
  unfold run_session. rewrite Hi.
  destruct (run_ops_edit_c os vw Hinv Hos) as [R1 [R2 [R3 R4]]]. rewrite Hvals in *.
  destruct (run_ops Comma os vw) as [outs vf]. cbn [fst snd] in *.
  unfold close. destruct (v_changed vf) eqn:Ecf.
  - destruct (update_field name vf) as [v'|e] eqn:Eu; cbn [sr_read sr_ops sr_close sr_value].
    + splits; auto; try discriminate. intros _.
      destruct (update_field_readback_c name vf v' R2 Hname Eu) as [U1 [U0 [vw' [U2 U3]]]].
      split; [exact U1|]. split; [now right|]. exists vw'. split; [exact U2|]. now rewrite U3.
    + splits; auto. discriminate.
  - cbn [sr_read sr_ops sr_close sr_value]. splits; auto; try discriminate. intros _.
    split; [exact Hv|]. split; [now left|]. destruct R4 as [R4| ->]; [congruence|].
    exists vw. split; [exact Hi|]. now rewrite <- R3.
Qed.

(** * Edits through value references *)

(** ** nodes under the pushes of append *)

Lemma ext_append_separator_c b vw : ids_ok vw -> ext vw (append_separator Comma b vw).
Proof.
  intros H. unfold append_separator.
  pose proof (ext_set_changed vw H) as E1.
  pose proof (ext_append_cont _ (ext_ids_ok _ _ E1)) as E2.
  pose proof (ext_trans _ _ _ E1 E2) as E3.
  set (vw1 := append_cont_if_necessary (set_changed vw)) in *.
  assert (E4 : ext vw (push vw1 (IT (Tok KComma [COMMA])))).
  { eapply ext_trans; [exact E3|]. apply ext_push_nonvalue; [now apply ext_ids_ok with vw|reflexivity]. }
  destruct b; [|exact E4].
  eapply ext_trans; [exact E4|]. apply ext_push_nonvalue; [now apply ext_ids_ok with vw|reflexivity].
Qed.

(** append_value: one new value node with a fresh identity *)
Lemma append_value_nodes_c vt vw : ids_ok vw -> is_value vt = true ->
  let vw' := append_value Comma vt vw in
  exists idv, vnodes vw' = vnodes vw ++ [(idv, vt)]
    /\ (v_next vw <= idv)%N /\ (idv < v_next vw')%N
    /\ ids_ok vw' /\ v_refs vw' = v_refs vw.
Proof.
  intros H Hv vw'. subst vw'. unfold append_value.
  set (vwA := match v_nodes vw with
              | [] => push vw (IT (Tok KWs [SP]))
              | _ :: _ => if needs_separator Comma (rev (v_items vw)) then append_separator Comma true vw else vw
              end).
  assert (EA : ext vw vwA).
  { subst vwA. destruct (v_nodes vw).
    - now apply ext_push_nonvalue.
    - destruct (needs_separator Comma (rev (v_items vw))); [now apply ext_append_separator_c|now apply ext_refl]. }
  pose proof (ext_append_cont vwA (ext_ids_ok _ _ EA)) as EB.
  pose proof (ext_trans _ _ _ EA EB) as E1. set (vw1 := append_cont_if_necessary vwA) in *.
  pose proof (ext_set_changed vw1 (ext_ids_ok _ _ E1)) as E2.
  pose proof (ext_trans _ _ _ E1 E2) as [X1 [X2 [X3 X4]]].
  exists (v_next (set_changed vw1)). splits.
  - rewrite vnodes_push, Hv, X1. reflexivity.
  - exact X3.
  - unfold push. cbn [v_next]. lia.
  - now apply ids_ok_push.
  - exact X4.
Qed.

(** * One operation refines one step of the abstract machine *)

Definition Jc (phi : N -> N) (vw : view) (st : astate) : Prop := inv_c vw /\ ids_ok vw /\ R phi vw st.

(** what a reference resolves to, on both sides *)
Lemma resolve_cases_c phi vw st id : ids_ok vw -> R phi vw st -> In id (v_refs vw) ->
  (exists npre it npost, v_nodes vw = npre ++ (id, it) :: npost
      /\ find_id id (v_nodes vw) 0 = Some (length npre) /\ is_value it = true
      /\ a_list st = map (g phi) (filter isvaln npre) ++ (phi id, render it) :: map (g phi) (filter isvaln npost)
      /\ nofst (phi id) (map (g phi) (filter isvaln npre)) = true
      /\ nofst (phi id) (map (g phi) (filter isvaln npost)) = true)
  \/ (find_id id (v_nodes vw) 0 = None /\ nofst (phi id) (a_list st) = true).
Proof.
  intros Hok [R1 [R2 [R3 R4]]] Hid.
  destruct Hok as [O1 [O2 [O3 O4]]].
  destruct (find_id id (v_nodes vw) 0) as [i|] eqn:Ef.
  - left. destruct (find_id_some _ _ _ _ Ef) as [npre [it [npost [E ->]]]].
    assert (Hv : is_value it = true).
    { apply (O4 id it Hid). rewrite E. apply in_or_app. right. now left. }
    assert (Ev : vnodes vw = filter isvaln npre ++ (id, it) :: filter isvaln npost).
    { unfold vnodes. rewrite E, filter_app. cbn [filter]. unfold isvaln at 2. cbn [snd]. now rewrite Hv. }
    destruct (split_entry phi vw _ id it _ Ev O1 R4) as [S1 S2].
    exists npre, it, npost. splits; auto. rewrite R1, Ev, map_app. reflexivity.
  - right. split; [reflexivity|]. apply find_id_none in Ef. rewrite R1. unfold nofst.
    apply forallb_forall. intros p Hp. apply in_map_iff in Hp. destruct Hp as [n [<- Hn]].
    cbn [g fst]. apply negb_true_iff, N.eqb_neq. intros E.
    apply R4 in E; [|left; now apply in_map|now right]. apply Ef. rewrite <- E.
    apply vnodes_in in Hn. apply in_map. tauto.
Qed.

(** the operations on values: direct edits, snapshots of the value references, reads, writes
    and removals through a reference; new values are good values of a comma list *)
Definition value_op_c (o : op) : bool :=
  match o with
  | OAppend x | ORefSet _ x | OReplace _ x => good_value true x
  | ORemove _ | OSnap | ORefGet _ | ORefRemove _ => true
  | _ => false
  end.

Definition step_ok_c (phi : N -> N) (vw : view) (st : astate) (o : op) : Prop :=
  match a_step (aop o) st with
  | Some (st', expect) =>
      exists vw' phi', step Comma o vw = (vw', None, expect) /\ Jc phi' vw' st'
        /\ (v_changed vw' = true \/ (v_items vw' = v_items vw /\ v_changed vw' = v_changed vw))
  | None => exists e, step Comma o vw = (vw, Some e, None)
  end.

Lemma step_append_c phi vw st x : Jc phi vw st -> good_value true x = true -> step_ok_c phi vw st (OAppend x).
Proof.
  intros [Hinv [Hok [R1 [R2 [R3 R4]]]]] Hg. unfold step_ok_c. cbn [aop a_step].
  destruct (good_value_c x Hg) as [Hw Hlb].
  cbn [step]. unfold append. rewrite value_factory_c by assumption. cbn [bind].
  set (vt := IV [Tok KVal x] true). set (vw' := append_value Comma vt vw).
  destruct (append_value_inv_c x vw Hinv Hw Hlb) as [I1 [I2 I3]]. fold vt in I1, I2, I3. fold vw' in I1, I2, I3.
  destruct (append_value_nodes_c vt vw Hok eq_refl) as [idv [N1 [N2 [N3 [N4 N5]]]]]. fold vw' in N1, N3, N4, N5.
  set (phi' := fun id => if (id =? idv)%N then a_next st else phi id).
  exists vw', phi'. split; [reflexivity|]. split; [|now left].
  assert (Hold : forall id, relevant vw id -> phi' id = phi id).
  { intros id Hr. subst phi'. cbn beta. pose proof (relevant_lt vw id Hok Hr).
    destruct (N.eqb_spec id idv); [lia|reflexivity]. }
  assert (Hnew : phi' idv = a_next st) by (subst phi'; cbn beta; now rewrite N.eqb_refl).
  assert (Hrel' : forall id, relevant vw' id -> relevant vw id \/ id = idv).
  { intros id [H|H].
    - rewrite N1, map_app in H. apply in_app_or in H. destruct H as [H|[H|[]]]; [left; now left|now right].
    - rewrite N5 in H. left. now right. }
  unfold Jc. splits; auto. unfold R. cbn [a_list a_refs a_next]. splits.
  - rewrite N1, map_app, R1. change (map (g phi') [(idv, vt)]) with [(phi' idv, render vt)].
    rewrite Hnew. f_equal.
    + apply map_ext_in. intros n Hn. unfold g. rewrite Hold; [reflexivity|]. left. now apply in_map.
    + subst vt. rewrite render_word. reflexivity.
  - rewrite N5, R2. apply map_ext_in. intros id Hid. symmetry. apply Hold. now right.
  - intros id Hr. destruct (Hrel' id Hr) as [H| ->].
    + rewrite Hold by assumption. specialize (R3 id H). lia.
    + rewrite Hnew. lia.
  - intros id id' Hr Hr' E. destruct (Hrel' id Hr) as [H| ->], (Hrel' id' Hr') as [H'| ->].
    + rewrite !Hold in E by assumption. now apply R4.
    + rewrite Hold, Hnew in E by assumption. specialize (R3 id H). lia.
    + rewrite Hnew, Hold in E by assumption. specialize (R3 id' H'). lia.
    + reflexivity.
Qed.

Lemma step_remove_c phi vw st x : Jc phi vw st -> step_ok_c phi vw st (ORemove x).
Proof.
  intros [Hinv [Hok [R1 [R2 [R3 R4]]]]]. unfold step_ok_c. cbn [aop a_step step]. unfold remove.
  destruct (find_value x (v_items vw) 0) as [i|] eqn:Ef.
  - destruct (find_value_some _ _ _ _ Ef) as [pre [it [post [Eits [-> [Hm Hpre]]]]]]. cbn [plus].
    destruct (matches_inv _ _ Hm) as [Hv Hr].
    destruct (nodes_split_items _ _ _ _ Eits) as [npre [n [npost [En [Ep [Es Epo]]]]]].
    assert (Evn : vnodes vw = filter isvaln npre ++ n :: filter isvaln npost).
    { unfold vnodes. rewrite En, filter_app. cbn [filter]. unfold isvaln at 2. now rewrite Es, Hv. }
    assert (Hrm : remove_first x (a_list st) = Some (map (g phi) (filter isvaln npre) ++ map (g phi) (filter isvaln npost))).
    { rewrite R1, Evn, map_app. cbn [map]. unfold g at 2. rewrite Es, Hr.
      apply remove_first_split. apply nomatch_entries. now rewrite Ep. }
    rewrite Hrm.
    assert (Hlen : length pre = length npre) by (rewrite <- Ep; apply map_length).
    rewrite Hlen.
    destruct (remove_at_inv_c vw pre it post Hinv Eits Hv) as [I1 [I2 I3]]. rewrite Hlen in I1, I2, I3.
    destruct (remove_at_nodes vw npre n npost Hok En) as [N1 [N2 [N3 N4]]].
    set (vw' := remove_at (length npre) vw) in *.
    exists vw', phi. split; [reflexivity|]. split; [|now left]. unfold Jc. splits; auto.
    apply R_shrink with vw; [unfold R; tauto| |now rewrite N1, map_app|exact N3].
    apply relevant_sub_vnodes; [|exact N3]. intros m Hm'. rewrite N1 in Hm'. rewrite Evn.
    apply in_map. apply in_app_or in Hm'. apply in_or_app. destruct Hm'; [now left|right; now right].
  - apply find_value_none in Ef.
    assert (Hrm : remove_first x (a_list st) = None).
    { rewrite R1. apply remove_first_absent. unfold vnodes. apply nomatch_entries. exact Ef. }
    rewrite Hrm. now eexists.
Qed.

Lemma step_replace_c phi vw st x y : Jc phi vw st -> good_value true y = true -> step_ok_c phi vw st (OReplace x y).
Proof.
  intros [Hinv [Hok HR]] Hg. pose proof HR as [R1 [R2 [R3 R4]]].
  unfold step_ok_c. cbn [aop a_step step]. unfold replace.
  destruct (good_value_c y Hg) as [Hw Hlb].
  destruct (find_value x (v_items vw) 0) as [i|] eqn:Ef.
  - destruct (find_value_some _ _ _ _ Ef) as [pre [it [post [Eits [-> [Hm Hpre]]]]]]. cbn [plus].
    destruct (matches_inv _ _ Hm) as [Hv Hr].
    destruct (nodes_split_items _ _ _ _ Eits) as [npre [[id it0] [npost [En [Ep [Es Epo]]]]]].
    cbn [snd] in Es. subst it0.
    assert (Evn : vnodes vw = filter isvaln npre ++ (id, it) :: filter isvaln npost).
    { unfold vnodes. rewrite En, filter_app. cbn [filter]. unfold isvaln at 2. cbn [snd]. now rewrite Hv. }
    assert (Hrp : replace_first x y (a_list st)
                  = Some (map (g phi) (filter isvaln npre) ++ (phi id, y) :: map (g phi) (filter isvaln npost))).
    { rewrite R1, Evn, map_app. cbn [map]. unfold g at 2. cbn [fst snd]. rewrite Hr.
      apply replace_first_split. apply nomatch_entries. now rewrite Ep. }
    rewrite Hrp. rewrite value_factory_c by assumption. cbn [bind].
    assert (Hlen : length pre = length npre) by (rewrite <- Ep; apply map_length).
    rewrite Hlen.
    destruct (set_value_at_inv_c y vw pre it post Hinv Hw Hlb Eits Hv) as [I1 [_ [_ I3]]]. rewrite Hlen in I1, I3.
    destruct (set_value_at_nodes vw npre id it npost (IV [Tok KVal y] true) Hok En eq_refl) as [N1 [N2 [N3 N4]]].
    set (vw' := set_value_at (length npre) (IV [Tok KVal y] true) vw) in *.
    exists vw', phi. split; [reflexivity|]. split; [|now left]. unfold Jc. splits; auto.
    now apply (R_set_value phi vw st npre id it npost y vw').
  - apply find_value_none in Ef.
    assert (Hrp : replace_first x y (a_list st) = None).
    { rewrite R1. apply replace_first_absent. unfold vnodes. apply nomatch_entries. exact Ef. }
    rewrite Hrp. now eexists.
Qed.

Lemma step_snap_c phi vw st : Jc phi vw st -> step_ok_c phi vw st OSnap.
Proof.
  intros [Hinv [Hok HR]]. pose proof HR as [R1 [R2 [R3 R4]]]. pose proof Hok as [O1 [O2 [O3 O4]]].
  unfold step_ok_c. cbn [aop a_step step].
  exists (snapshot vw), phi. split; [reflexivity|]. split; [|right; split; reflexivity].
  assert (Erefs : v_refs (snapshot vw) = map fst (vnodes vw)) by reflexivity.
  unfold Jc. splits.
  - exact Hinv.
  - unfold ids_ok. rewrite Erefs. change (v_nodes (snapshot vw)) with (v_nodes vw).
    change (v_next (snapshot vw)) with (v_next vw). splits; auto.
    + apply Forall_forall. intros id Hid. apply (relevant_lt vw id Hok). now left.
    + intros id it Hid Hin. apply in_map_iff in Hid. destruct Hid as [[id' it'] [E Hn]]. cbn [fst] in E. subst id'.
      apply vnodes_in in Hn. destruct Hn as [Hn Hv]. rewrite (NoDup_fst_unique _ id it it' O1 Hin Hn). exact Hv.
  - unfold R. cbn [a_list a_refs a_next]. change (vnodes (snapshot vw)) with (vnodes vw). rewrite Erefs. splits; auto.
    + rewrite R1, !map_map. reflexivity.
    + intros id Hr. apply R3. destruct Hr as [H|H]; left; exact H.
    + intros id id' Hr Hr'. apply R4; [destruct Hr as [H|H]|destruct Hr' as [H|H]]; left; exact H.
Qed.

Lemma step_refget_c phi vw st j : Jc phi vw st -> step_ok_c phi vw st (ORefGet j).
Proof.
  intros HJ. pose proof HJ as [Hinv [Hok HR]].
  unfold step_ok_c. cbn [aop a_step step]. rewrite (nth_error_refs phi vw st j HR).
  unfold ref_get, resolve. destruct (nth_error (v_refs vw) j) as [id|] eqn:En; cbn [option_map bind].
  - assert (Hid : In id (v_refs vw)) by (eapply nth_error_In; eassumption).
    destruct (resolve_cases_c phi vw st id Hok HR Hid) as [[npre [it [npost [E [Ef [Hv [El [S1 S2]]]]]]]]|[Ef Hno]].
    + rewrite Ef. cbn [bind]. rewrite El, lookup_split by assumption.
      assert (Hnth : nth_error (v_items vw) (length npre) = Some it).
      { unfold v_items. rewrite E, map_app. cbn [map snd]. rewrite nth_error_app2 by (rewrite map_length; lia).
        rewrite map_length, Nat.sub_diag. reflexivity. }
      rewrite Hnth. exists vw, phi. split; [reflexivity|]. split; [exact HJ|right; split; reflexivity].
    + rewrite Ef. cbn [bind]. destruct (nofst_absent _ _ Hno) as [_ Hl]. rewrite Hl. now eexists.
  - now eexists.
Qed.

Lemma step_refset_c phi vw st j x : Jc phi vw st -> good_value true x = true -> step_ok_c phi vw st (ORefSet j x).
Proof.
  intros HJ Hg. pose proof HJ as [Hinv [Hok HR]]. destruct (good_value_c x Hg) as [Hw Hlb].
  unfold step_ok_c. cbn [aop a_step step]. rewrite (nth_error_refs phi vw st j HR).
  unfold ref_set, resolve. destruct (nth_error (v_refs vw) j) as [id|] eqn:En; cbn [option_map].
  - rewrite value_factory_c by assumption. cbn [bind].
    assert (Hid : In id (v_refs vw)) by (eapply nth_error_In; eassumption).
    destruct (resolve_cases_c phi vw st id Hok HR Hid) as [[npre [it [npost [E [Ef [Hv [El [S1 S2]]]]]]]]|[Ef Hno]].
    + rewrite Ef. cbn [bind]. rewrite El, has_id_split, map_update_split by assumption.
      assert (Eits : v_items vw = map snd npre ++ it :: map snd npost).
      { unfold v_items. rewrite E, map_app. reflexivity. }
      destruct (set_value_at_inv_c x vw _ it _ Hinv Hw Hlb Eits Hv) as [I1 [_ [_ I3]]]. rewrite map_length in I1, I3.
      destruct (set_value_at_nodes vw npre id it npost (IV [Tok KVal x] true) Hok E eq_refl) as [N1 [N2 [N3 N4]]].
      set (vw' := set_value_at (length npre) (IV [Tok KVal x] true) vw) in *.
      exists vw', phi. split; [reflexivity|]. split; [|now left]. unfold Jc. splits; auto.
      now apply (R_set_value phi vw st npre id it npost x vw').
    + rewrite Ef. cbn [bind]. destruct (nofst_absent _ _ Hno) as [Hh _]. rewrite Hh. now eexists.
  - now eexists.
Qed.

Lemma step_refremove_c phi vw st j : Jc phi vw st -> step_ok_c phi vw st (ORefRemove j).
Proof.
  intros HJ. pose proof HJ as [Hinv [Hok HR]]. pose proof HR as [R1 [R2 [R3 R4]]].
  unfold step_ok_c. cbn [aop a_step step]. rewrite (nth_error_refs phi vw st j HR).
  unfold ref_remove, resolve. destruct (nth_error (v_refs vw) j) as [id|] eqn:En; cbn [option_map bind].
  - assert (Hid : In id (v_refs vw)) by (eapply nth_error_In; eassumption).
    destruct (resolve_cases_c phi vw st id Hok HR Hid) as [[npre [it [npost [E [Ef [Hv [El [S1 S2]]]]]]]]|[Ef Hno]].
    + rewrite Ef. cbn [bind]. rewrite El, has_id_split, filter_remove_split by assumption.
      assert (Eits : v_items vw = map snd npre ++ it :: map snd npost).
      { unfold v_items. rewrite E, map_app. reflexivity. }
      destruct (remove_at_inv_c vw _ it _ Hinv Eits Hv) as [I1 [_ I3]]. rewrite map_length in I1, I3.
      destruct (remove_at_nodes vw npre (id, it) npost Hok E) as [N1 [N2 [N3 N4]]].
      exists (remove_at (length npre) vw), phi. split; [reflexivity|]. split; [|left; exact I3].
      unfold Jc. splits; [exact I1|exact N2|].
      apply R_shrink with vw; [exact HR| |rewrite <- map_app; f_equal; symmetry; exact N1|exact N3].
      apply relevant_sub_vnodes; [|exact N3]. intros m Hm.
      assert (Hm' : In m (filter isvaln npre ++ filter isvaln npost)) by (rewrite <- N1; exact Hm).
      clear Hm. rename Hm' into Hm.
      unfold vnodes. rewrite E, filter_app. apply in_map. apply in_app_or in Hm. apply in_or_app.
      destruct Hm as [Hm|Hm]; [now left|right]. cbn [filter]. destruct (isvaln (id, it)); [now right|assumption].
    + rewrite Ef. cbn [bind]. destruct (nofst_absent _ _ Hno) as [Hh _]. rewrite Hh. now eexists.
  - now eexists.
Qed.

Theorem step_refines_c phi vw st o : Jc phi vw st -> value_op_c o = true -> step_ok_c phi vw st o.
Proof.
  intros HJ Ho. destruct o; cbn [value_op_c] in Ho; try discriminate.
  - now apply step_append_c.
  - now apply step_remove_c.
  - now apply step_replace_c.
  - now apply step_snap_c.
  - now apply step_refget_c.
  - now apply step_refset_c.
  - now apply step_refremove_c.
Qed.

(** * The initial state *)

Lemma initial_Jc v : value_ok v = true -> closed_value v = true ->
  exists vw phi, interpret Comma v = Ok vw /\ Jc phi vw (a_init (split_spec true v))
    /\ view_values vw = split_spec true v /\ v_changed vw = false.
Proof.
  intros Hv Hc. destruct (interpret_inv_c v Hv Hc) as [vw [Hi [Hinv [Hvals Hch]]]].
  destruct (interpret_shape _ _ _ Hi) as [its [En [Enx Er]]].
  destruct (number_from_ids its 0) as [D1 D2].
  assert (Hok : ids_ok vw).
  { unfold ids_ok. rewrite En, Enx, Er. splits; auto; try (now intros id it []).
    eapply Forall_impl; [|exact D2]. intros p Hp. cbn beta in *. lia. }
  set (l0 := split_spec true v) in *.
  destruct (number_vals_ids l0 0) as [V1 [V2 V3]].
  assert (Hnd : NoDup (map fst (vnodes vw))).
  { unfold vnodes. rewrite En. clear -D1. induction (number_from 0 its) as [|n ns IH]; [constructor|].
    cbn [map] in D1. inversion D1; subst. cbn [filter]. destruct (isvaln n); [|auto].
    cbn [map]. constructor; [|auto]. intros Hin. apply in_filter_fst in Hin. contradiction. }
  assert (Hlen : length (map fst (vnodes vw)) = length (map fst (number_vals 0 l0))).
  { rewrite !map_length. rewrite <- (map_length snd (number_vals 0 l0)), V2, <- Hvals, view_values_nodes.
    now rewrite map_length. }
  destruct (exists_phi _ _ Hlen Hnd V1) as [phi [Ephi Hinj]].
  exists vw, phi. splits; auto. unfold Jc. splits; auto. unfold R, a_init. cbn [a_list a_refs a_next].
  assert (Hrel : forall id, relevant vw id -> In id (map fst (vnodes vw))).
  { intros id [H|H]; [exact H|]. rewrite Er in H. destruct H. }
  splits.
  - apply pair_list_eq.
    + rewrite <- Ephi, !map_map. reflexivity.
    + rewrite V2, map_map. cbn [g snd]. now rewrite <- Hvals, view_values_nodes.
  - now rewrite Er.
  - intros id Hr. apply Hrel in Hr. rewrite Forall_forall in V3.
    assert (Hin : In (phi id) (map fst (number_vals 0 l0))) by (rewrite <- Ephi; now apply in_map).
    specialize (V3 _ Hin). lia.
  - intros id id' Hr Hr'. apply Hinj; now apply Hrel.
Qed.

(** * A whole session *)

Lemma run_ops_refines_c os : forall phi vw st, Jc phi vw st -> forallb value_op_c os = true ->
  exists phi', map outcome_abs (fst (run_ops Comma os vw)) = fst (a_run os st)
    /\ Jc phi' (snd (run_ops Comma os vw)) (snd (a_run os st))
    /\ (v_changed (snd (run_ops Comma os vw)) = true
        \/ (v_items (snd (run_ops Comma os vw)) = v_items vw
            /\ v_changed (snd (run_ops Comma os vw)) = v_changed vw)).
Proof.
  induction os as [|o os IH]; intros phi vw st HJ Hos.
  - exists phi. cbn. splits; auto.
  - cbn [forallb] in Hos. apply andb_true_iff in Hos. destruct Hos as [Ho Hos].
    pose proof (step_refines_c phi vw st o HJ Ho) as Hs. unfold step_ok_c in Hs. cbn [run_ops a_run].
    destruct (a_step (aop o) st) as [[st' e]|].
    + destruct Hs as [vw' [phi1 [Hst [HJ' Hch]]]]. rewrite Hst.
      destruct (IH phi1 vw' st' HJ' Hos) as [phi' [I1 [I2 I3]]].
      destruct (run_ops Comma os vw') as [outs vf]. destruct (a_run os st') as [aouts sf].
      cbn [fst snd map outcome_abs] in *. exists phi'. splits; auto.
      * destruct HJ' as [_ [_ HR']]. rewrite (a_values_view _ _ _ HR'). now rewrite I1.
      * destruct I3 as [I3|[I3 I4]]; [now left|]. destruct Hch as [Hch|[Hc1 Hc2]].
        -- left. congruence.
        -- right. split; congruence.
    + destruct Hs as [e Hst]. rewrite Hst.
      destruct (IH phi vw st HJ Hos) as [phi' [I1 [I2 I3]]].
      destruct (run_ops Comma os vw) as [outs vf]. destruct (a_run os st) as [aouts sf].
      cbn [fst snd map outcome_abs] in *. exists phi'. splits; auto. now rewrite I1.
Qed.

(** view_edit_readback, comma-separated lists, direct edits AND edits through references *)
Theorem view_session_refines_comma name v os :
  value_ok v = true -> closed_value v = true -> name_ok name = true ->
  forallb value_op_c os = true ->
  let r := run_session Comma name v os in
  let st0 := a_init (split_spec true v) in
  sr_read r = Ok (split_spec true v)
  /\ map outcome_abs (sr_ops r) = fst (a_run os st0)
  /\ (sr_close r = None ->
      value_ok (sr_value r) = true
      /\ (sr_value r = v \/ reparse name (sr_value r) = Ok (sr_value r))
      /\ exists vw', interpret Comma (sr_value r) = Ok vw'
                     /\ view_values vw' = a_values (snd (a_run os st0)))
  /\ (forall e, sr_close r = Some e -> sr_value r = v).
Proof.
  intros Hv Hc Hname Hos r st0. subst r st0.
  destruct (initial_Jc v Hv Hc) as [vw [phi [Hi [HJ [Hvals Hch]]]]].
  unfold run_session. rewrite Hi.
  destruct (run_ops_refines_c os phi vw _ HJ Hos) as [phi' [R1 [R2 R3]]].
  destruct (run_ops Comma os vw) as [outs vf]. cbn [fst snd] in *.
  destruct R2 as [Finv [_ FR]]. pose proof (a_values_view _ _ _ FR) as Hav.
  unfold close. destruct (v_changed vf) eqn:Ecf.
  - destruct (update_field name vf) as [v'|e] eqn:Eu; cbn [sr_read sr_ops sr_close sr_value].
    + rewrite Hvals. splits; auto; try discriminate. intros _.
      destruct (update_field_readback_c name vf v' Finv Hname Eu) as [U1 [U0 [vw' [U2 U3]]]].
      split; [exact U1|]. split; [now right|]. exists vw'. split; [exact U2|]. now rewrite U3, Hav.
    + rewrite Hvals. splits; auto. discriminate.
  - cbn [sr_read sr_ops sr_close sr_value]. rewrite Hvals. splits; auto; try discriminate. intros _.
    split; [exact Hv|]. split; [now left|]. destruct R3 as [R3|[R3 _]]; [congruence|].
    exists vw. split; [exact Hi|]. rewrite Hav. unfold view_values. now rewrite R3.
Qed.

(** * When the close succeeds
    For a value text whose last line is not a comment line (what a parsed document
    guarantees: such a line belongs to what follows the field) the write-back succeeds
    whenever the edited list is not empty. *)

(** the last line of the value is a comment line *)
Definition ends_on_comment (v : str) : bool := last_com_line (tl (lines_lf v)).

Lemma ends_on_comment_closed v : ends_on_comment v = false -> closed_value v = true.
Proof.
  unfold ends_on_comment, closed_value, last_com_line. destruct (lines_lf v) as [|l ls]; [reflexivity|].
  cbn [tl]. destruct (last_opt ls) as [l'|]; [|reflexivity]. intros H.
  assert (E : is_comment_line l' = starts_hash l') by (destruct l'; reflexivity).
  now rewrite E, H.
Qed.

Lemma crun_last_com ts : forall s s', crun s ts = Some s' -> last_com_tok ts = true -> c_lf s' = true.
Proof.
  intros s s' Hr Hl. destruct ts as [|t ts0] using rev_ind; [discriminate|]. clear IHts0.
  unfold last_com_tok in Hl. rewrite last_opt_snoc in Hl.
  rewrite crun_app in Hr. destruct (crun s ts0) as [s1|]; [|discriminate]. cbn [crun] in Hr.
  assert (Hk : tk t = KCom) by (unfold is_comment_tok in Hl; destruct (tk t); try discriminate; reflexivity).
  rewrite Hk in Hr. cbn [cstep] in Hr. destruct (c_lf s1); [|discriminate]. now injection Hr as <-.
Qed.

(** an accepted token list that ends with a comment token spells a text whose last line is
    a comment line *)
Lemma tokens_last_com ts s' :
  Forall (fun t => tok_ok_c t = true) ts -> forallb com_lf ts = true ->
  crun c0 ts = Some s' -> last_com_tok ts = true -> ends_on_comment (toks_text ts) = true.
Proof.
  intros Hok Hcl Hrun Hlast. pose proof (crun_last_com _ _ _ Hrun Hlast) as Hs'.
  destruct (split_at_lf_c ts c0 s' Hrun eq_refl Hs' Hok) as [line [rest [s1 [E [Hin [Hr [Hk Hrest]]]]]]].
  assert (Hok2 := Hok). rewrite E in Hok2. apply Forall_app in Hok2. destruct Hok2 as [Hokl Hokr].
  inversion Hokr as [|? ? _ Hokr']; subst.
  rewrite forallb_app in Hcl. apply andb_true_iff in Hcl. destruct Hcl as [_ Hclr].
  cbn [forallb] in Hclr. apply andb_true_iff in Hclr. destruct Hclr as [_ Hclr].
  destruct (inline_text line Hin Hokl) as [L3 _].
  destruct (cont_tokens_lines_c (length rest) rest s' (le_n _) Hokr' Hclr Hrest Hs') as [_ [_ [_ I4]]].
  unfold ends_on_comment. rewrite toks_text_app, toks_text_cons. cbn [tx app].
  rewrite lines_lf_line by now apply no_lb_no_lf. cbn [tl]. rewrite I4.
  destruct rest as [|t2 r2].
  - unfold last_com_tok in Hlast. rewrite last_opt_snoc in Hlast. discriminate.
  - unfold last_com_tok in *. rewrite last_opt_app in Hlast by discriminate.
    now rewrite (last_opt_cons (Tok KNl [LF])) in Hlast by discriminate.
Qed.

Lemma tail_nc_of_flat its : last_com_tok (flat its) = false -> tail_nc its = true.
Proof.
  unfold tail_nc. destruct its as [|it its0] using rev_ind; [reflexivity|]. clear IHits0.
  rewrite last_opt_snoc. destruct it as [t|ts f]; [|reflexivity].
  rewrite flat_app. cbn [flat flat_map item_toks app]. unfold last_com_tok. rewrite last_opt_snoc.
  cbn [is_comment_item]. now intros ->.
Qed.

(** what interpret builds, before the final newline token is dropped *)
Lemma interpret_c_items v : value_ok v = true -> closed_value v = true ->
  exists its s' q, Seg its c0 s' false q /\ toks_text (flat its) = v /\ its <> []
    /\ interpret Comma v = Ok (View (number_from 0 (drop_nl its)) (N.of_nat (length (drop_nl its))) None false []).
Proof.
  intros Hv Hc. destruct (tokenize_c_ok v Hv) as [ts [s' [Htok [Htx [Hok [Hdc [Hcl [Hrun Hfin]]]]]]]].
  rewrite closed_value_open in Hc. apply negb_true_iff in Hc. specialize (Hcl Hc).
  destruct (parse_stream_c (length ts) ts (S (length ts)) false) as [its [Hits [Hflat [Hic Hsr]]]]; try lia; auto.
  destruct (srun false its) as [q|] eqn:Eq; [|congruence].
  assert (HS : Seg its c0 s' false q).
  { unfold Seg. rewrite Hflat. splits; auto. }
  assert (Hne : its <> []).
  { intros ->. cbn in Hflat. subst ts. unfold toks_text in Htx. simpl in Htx. subst v. discriminate. }
  exists its, s', q. splits; auto; [now rewrite Hflat|].
  unfold interpret, parse_str. rewrite Htok. cbn [bind]. rewrite Htx, Nat.eqb_refl. cbn [negb].
  rewrite Hits. cbn [bind]. rewrite items_text_flat, Hflat, Htx, Nat.eqb_refl. cbn [negb bind].
  now apply mk_view_eq.
Qed.

Lemma interpret_tail_nc v vw : value_ok v = true -> ends_on_comment v = false ->
  interpret Comma v = Ok vw -> tail_nc (v_items vw) = true.
Proof.
  intros Hv He Hi. pose proof (ends_on_comment_closed v He) as Hc.
  destruct (interpret_c_items v Hv Hc) as [its [s' [q [HS [Htx [Hne Hi']]]]]].
  rewrite Hi' in Hi. injection Hi as <-. unfold v_items. cbn [v_nodes]. rewrite map_snd_number.
  assert (Hlast : last_com_tok (flat its) = false).
  { destruct (last_com_tok (flat its)) eqn:E; [|reflexivity].
    destruct HS as [_ [H2 [H3 [H4 _]]]]. pose proof (tokens_last_com _ _ H2 H3 H4 E) as H.
    rewrite Htx in H. congruence. }
  unfold drop_nl. destruct (last_opt its) as [[t|tt f]|] eqn:El; try (now apply tail_nc_of_flat).
  destruct (kind_eqb (tk t) KNl) eqn:Ek; [|now apply tail_nc_of_flat].
  assert (Hk : tk t = KNl) by (destruct (tk t); try discriminate; reflexivity).
  apply ends_snoc_inv in El. rewrite El in HS. apply Seg_app in HS.
  destruct HS as [s1 [q1 [[_ [_ [_ [A4 _]]]] [_ [_ [_ [H4 _]]]]]]].
  cbn [flat flat_map item_toks app crun] in H4. rewrite Hk in H4. cbn [cstep] in H4.
  destruct (c_lf s1) eqn:E1; [discriminate|].
  apply tail_nc_of_flat. destruct (last_com_tok (flat (removelast its))) eqn:E; [|reflexivity].
  pose proof (crun_last_com _ _ _ A4 E). congruence.
Qed.

(** ** the operations keep the last item from being a comment *)

Lemma tail_nc_app_ne a b : b <> [] -> tail_nc (a ++ b) = tail_nc b.
Proof. intros H. unfold tail_nc. now rewrite last_opt_app. Qed.

Lemma tail_nc_value_last a it : is_value it = true -> tail_nc (a ++ [it]) = true.
Proof. unfold tail_nc. rewrite last_opt_snoc. destruct it; [discriminate|reflexivity]. Qed.

Lemma tail_nc_mid pre x y post : is_value y = true ->
  tail_nc (pre ++ x :: post) = true -> tail_nc (pre ++ y :: post) = true.
Proof.
  intros Hy H. destruct post as [|p post'].
  - now apply tail_nc_value_last.
  - change (pre ++ x :: p :: post') with (pre ++ [x] ++ p :: post') in H.
    rewrite app_assoc, tail_nc_app_ne in H by discriminate.
    change (pre ++ y :: p :: post') with (pre ++ [y] ++ p :: post').
    rewrite app_assoc, tail_nc_app_ne by discriminate. exact H.
Qed.

Lemma value_factory_value k x vt : value_factory k x = Ok vt -> is_value vt = true.
Proof.
  unfold value_factory. destruct x as [|c x']; [discriminate|].
  destruct (parse_str k (c :: x')) as [its|]; [|discriminate]. cbn [bind].
  destruct its as [|[t|ts f] [|it2 r]]; try discriminate.
  destruct (length (toks_text ts) =? length (c :: x')); [|discriminate]. now intros [= <-].
Qed.

Lemma tail_nc_append_value k vt vw : is_value vt = true -> tail_nc (v_items (append_value k vt vw)) = true.
Proof. intros H. unfold append_value. rewrite v_items_push. now apply tail_nc_value_last. Qed.

Lemma v_items_set_value_at vw pre it post vt : v_items vw = pre ++ it :: post ->
  v_items (set_value_at (length pre) vt vw) = pre ++ vt :: post.
Proof.
  intros Eits. unfold set_value_at, v_items. cbn [set_changed set_nodes v_nodes].
  rewrite map_snd_set_at. fold (v_items vw). rewrite Eits. now rewrite set_at_app.
Qed.

Lemma tail_nc_remove_at vw pre it post : v_items vw = pre ++ it :: post ->
  tail_nc (v_items vw) = true -> tail_nc (v_items (remove_at (length pre) vw)) = true.
Proof.
  intros Eits Ht. rewrite Eits in Ht.
  pose proof (remove_range_spec pre it post) as Hspec.
  unfold remove_at. rewrite v_items_set_changed, Eits.
  destruct (remove_range (pre ++ it :: post) (length pre)) as [[a b]|]; [|reflexivity].
  assert (Hitems : v_items (set_nodes (set_changed vw) (delete_range a b (v_nodes (set_changed vw))))
                   = delete_range a b (pre ++ it :: post)).
  { unfold v_items at 1. cbn [set_nodes v_nodes]. rewrite map_snd_delete_range.
    change (map snd (v_nodes (set_changed vw))) with (v_items vw). now rewrite Eits. }
  rewrite Hitems.
  destruct Hspec as [[pre' [pv [mid [Epre [Hpv [Hmid [Hdel _]]]]]]]|[mid [nv [post' [Epost [Hnv [Hmid [Hdel _]]]]]]]];
    rewrite Hdel.
  - destruct post as [|p post'].
    + now apply tail_nc_value_last.
    + change (pre' ++ pv :: p :: post') with (pre' ++ [pv] ++ p :: post').
      rewrite app_assoc, tail_nc_app_ne by discriminate.
      change (pre ++ it :: p :: post') with (pre ++ [it] ++ p :: post') in Ht.
      now rewrite app_assoc, tail_nc_app_ne in Ht by discriminate.
  - rewrite Epost in Ht. rewrite tail_nc_app_ne by discriminate.
    replace (pre ++ it :: mid ++ nv :: post') with ((pre ++ it :: mid) ++ nv :: post') in Ht
      by (now rewrite <- app_assoc).
    now rewrite tail_nc_app_ne in Ht by discriminate.
Qed.

Lemma resolve_items j vw i : resolve j vw = Ok i ->
  exists pre it post, v_items vw = pre ++ it :: post /\ i = length pre.
Proof.
  unfold resolve. destruct (nth_error (v_refs vw) j) as [id|]; [|discriminate].
  destruct (find_id id (v_nodes vw) 0) as [i'|] eqn:Ef; [|discriminate]. intros [= <-].
  destruct (find_id_some _ _ _ _ Ef) as [npre [it [npost [E ->]]]].
  exists (map snd npre), it, (map snd npost). split.
  - unfold v_items. rewrite E, map_app. reflexivity.
  - now rewrite map_length.
Qed.

Lemma step_tail_nc o vw : value_op_c o = true -> tail_nc (v_items vw) = true ->
  tail_nc (v_items (fst (fst (step Comma o vw)))) = true.
Proof.
  intros Ho Ht. destruct o; try discriminate; cbn [step].
  - (* append *)
    unfold append. destruct (value_factory Comma x) as [vt|] eqn:Ef; cbn [bind fst]; [|exact Ht].
    apply tail_nc_append_value. now apply value_factory_value in Ef.
  - (* remove *)
    unfold remove. destruct (find_value x (v_items vw) 0) as [i|] eqn:Ef; cbn [fst]; [|exact Ht].
    destruct (find_value_some _ _ _ _ Ef) as [pre [it [post [Eits [-> _]]]]]. cbn [plus].
    now apply tail_nc_remove_at with it post.
  - (* replace *)
    unfold replace. destruct (find_value x (v_items vw) 0) as [i|] eqn:Ef; cbn [fst]; [|exact Ht].
    destruct (value_factory Comma y) as [vt|] eqn:Efy; cbn [bind fst]; [|exact Ht].
    destruct (find_value_some _ _ _ _ Ef) as [pre [it [post [Eits [-> _]]]]]. cbn [plus].
    rewrite (v_items_set_value_at vw pre it post vt Eits). rewrite Eits in Ht.
    apply tail_nc_mid with it; [now apply value_factory_value in Efy|exact Ht].
  - exact Ht.
  - destruct (ref_get j vw); exact Ht.
  - (* ref.value = x *)
    unfold ref_set. destruct (nth_error (v_refs vw) j) as [id|]; cbn [fst]; [|exact Ht].
    destruct (value_factory Comma x) as [vt|] eqn:Efx; cbn [bind fst]; [|exact Ht].
    destruct (resolve j vw) as [i|] eqn:Er; cbn [bind fst]; [|exact Ht].
    destruct (resolve_items _ _ _ Er) as [pre [it [post [Eits ->]]]].
    rewrite (v_items_set_value_at vw pre it post vt Eits). rewrite Eits in Ht.
    apply tail_nc_mid with it; [now apply value_factory_value in Efx|exact Ht].
  - (* ref.remove() *)
    unfold ref_remove. destruct (resolve j vw) as [i|] eqn:Er; cbn [bind fst]; [|exact Ht].
    destruct (resolve_items _ _ _ Er) as [pre [it [post [Eits ->]]]].
    now apply tail_nc_remove_at with it post.
Qed.

Lemma run_ops_tail_nc os : forall vw, forallb value_op_c os = true -> tail_nc (v_items vw) = true ->
  tail_nc (v_items (snd (run_ops Comma os vw))) = true.
Proof.
  induction os as [|o os IH]; intros vw Hos Ht; [exact Ht|].
  cbn [forallb] in Hos. apply andb_true_iff in Hos. destruct Hos as [Ho Hos].
  pose proof (step_tail_nc o vw Ho Ht) as Hs. cbn [run_ops].
  destruct (step Comma o vw) as [[vw' e] got]. cbn [fst] in Hs.
  specialize (IH vw' Hos Hs).
  destruct e; destruct (run_ops Comma os vw') as [outs vf]; exact IH.
Qed.

Lemma edit_op_value_op o : edit_op_c o = true -> value_op_c o = true.
Proof. destruct o; cbn [edit_op_c value_op_c]; intros H; try discriminate; solve [exact H|reflexivity]. Qed.

(** the write-back succeeds whenever the edited list is not empty: direct edits *)
Theorem view_close_succeeds_comma name v os :
  value_ok v = true -> ends_on_comment v = false -> name_ok name = true ->
  forallb edit_op_c os = true ->
  snd (l_run os (split_spec true v)) <> [] ->
  sr_close (run_session Comma name v os) = None.
Proof.
  intros Hv He Hname Hos Hne. pose proof (ends_on_comment_closed v He) as Hc.
  destruct (interpret_inv_c v Hv Hc) as [vw [Hi [Hinv [Hvals Hch]]]].
  pose proof (interpret_tail_nc v vw Hv He Hi) as Ht.
  unfold run_session. rewrite Hi.
  destruct (run_ops_edit_c os vw Hinv Hos) as [_ [R2 [R3 _]]]. rewrite Hvals in R3.
  assert (Hos' : forallb value_op_c os = true).
  { apply (forallb_impl edit_op_c); [exact edit_op_value_op|exact Hos]. }
  pose proof (run_ops_tail_nc os vw Hos' Ht) as Ht'.
  destruct (run_ops Comma os vw) as [outs vf]. cbn [fst snd] in *.
  unfold close. destruct (v_changed vf); [|reflexivity].
  destruct (update_field_ok name vf R2 Hname) as [v' Hu]; [now rewrite R3|exact Ht'|].
  now rewrite Hu.
Qed.

(** ... and edits through value references *)
Theorem session_close_succeeds_comma name v os :
  value_ok v = true -> ends_on_comment v = false -> name_ok name = true ->
  forallb value_op_c os = true ->
  a_values (snd (a_run os (a_init (split_spec true v)))) <> [] ->
  sr_close (run_session Comma name v os) = None.
Proof.
  intros Hv He Hname Hos Hne. pose proof (ends_on_comment_closed v He) as Hc.
  destruct (initial_Jc v Hv Hc) as [vw [phi [Hi [HJ [Hvals Hch]]]]].
  pose proof (interpret_tail_nc v vw Hv He Hi) as Ht.
  unfold run_session. rewrite Hi.
  destruct (run_ops_refines_c os phi vw _ HJ Hos) as [phi' [_ [R2 _]]].
  pose proof (run_ops_tail_nc os vw Hos Ht) as Ht'.
  destruct (run_ops Comma os vw) as [outs vf]. cbn [fst snd] in *.
  destruct R2 as [Finv [_ FR]]. pose proof (a_values_view _ _ _ FR) as Hav.
  unfold close. destruct (v_changed vf); [|reflexivity].
  destruct (update_field_ok name vf Finv Hname) as [v' Hu]; [now rewrite <- Hav|exact Ht'|].
  now rewrite Hu.
Qed.
