(** C05 — tie by regeneration for the SETTERS of the format-preserving paragraph (Gen/TrDocSet.v is regenerated from
    debian/_deb822_repro/parsing.py on every run).  Proofs; statements are repeated in Props/C05Tie.v. *)
From Coq Require Import Lia ZArith List Permutation.
From Verif Require Import Lib.Base Lib.PyStr Lib.PySlice Lib.Tr Gen.PyChars Dict.Common Dict.Heap Dict.TrPrims Dict.ProofsLL
  Dict.ProofsOS Dict.Tie Gen.TrLinkedList.
From Verif Require Import Repro.Doc Repro.DocProofs Repro.Struct Repro.StructLemmas Repro.StructTrPrims Gen.TrStruct
  Repro.StructTie Repro.DocTrPrims Gen.TrDocSet.
Import ListNotations.
Local Open Scope Z_scope.

(** * _format_comment *)
Lemma slice_drop_last (c : str) : tr_slice c None (Some (-1)) = removelast c.
Proof.
  unfold tr_slice, slice, clamp_index. rewrite removelast_firstn_len.
  replace (0 <? 0) with false by reflexivity. replace (-1 <? 0) with true by reflexivity.
  replace (Z.to_nat (Z.min 0 (Z.of_nat (length c)))) with O by lia.
  replace (Z.to_nat (Z.max 0 (-1 + Z.of_nat (length c)))) with (pred (length c)) by lia.
  cbn [skipn]. now rewrite Nat.sub_0_r.
Qed.

Lemma format_comment_tail (c1 : str) :
  (if negb (starts_hash c1) then Ok ([35%N; 32%N] ++ py_lstrip c1) else Ok c1)
  = Ok (match c1 with
        | x :: _ => if (x =? HASH)%N then c1 else [HASH; SP] ++ py_lstrip c1
        | [] => [HASH; SP]
        end).
Proof. destruct c1 as [|y c1]; [reflexivity|]. unfold starts_hash. destruct (y =? HASH)%N; reflexivity. Qed.

Theorem tr_format_comment_eq c : tr_format_comment c = format_comment c.
Proof.
  unfold tr_format_comment, format_comment.
  destruct c as [|x c]; [reflexivity|].
  change (str_eqb (x :: c) []) with false. cbn [is_nil Z.opp].
  rewrite slice_drop_last. change (tr_char_in 10%N) with (mem_char LF).
  destruct (mem_char LF (removelast (x :: c))); [reflexivity|].
  unfold trp_ends_nl, trp_starts_hash, trp_rstrip, trp_lstrip. cbv zeta.
  destruct (ends_nl (x :: c)); cbn [negb]; apply format_comment_tail.
Qed.

(** * The result of a delegating call is handed on as it is *)
Lemma mres_eta (r : mres unit ndst) :
  match r with
  | MOk _ st => let '(hp, kvs, s_kv, s_order) := st in MOk tt (hp, kvs, s_kv, s_order)
  | MErr e st => MErr e st
  end = r.
Proof. destruct r as [[] [[[? ?] ?] ?]|e st]; reflexivity. Qed.

(** * set_field_to_simple_value: the newline rejection, then set_field_from_raw_string on [" " + strip + LF] — the
      text the model's [set_simple] hands to [set_raw] — on every state *)
Theorem tr_nd_set_simple_eq lw hp kvs kvd os k v pres fc :
  tr_nd_set_field_to_simple_value lw hp kvs kvd os k v pres fc
  = if mem_char LF v then MErr ValueError (hp, kvs, kvd, os)
    else tr_nd_set_field_from_raw_string lw hp kvs kvd os k ([SP] ++ py_strip v ++ [LF]) pres fc.
Proof.
  unfold tr_nd_set_field_to_simple_value. change (tr_char_in 10%N v) with (mem_char LF v).
  destruct (mem_char LF v); [reflexivity|]. cbv zeta. rewrite mres_eta. unfold trp_strip.
  now rewrite <- app_assoc.
Qed.

(** * __setitem__: the lookup of the original field's comment, then the two text forms — exactly the expressions of
      the model's [setitem] — on every state *)
Definition setitem_lookup_key (k : key) : key := match k with KStr n => KIdx n 0 | _ => k end.

Theorem tr_nd_setitem_eq lw hp kvs kvd os k value :
  tr_nd_setitem lw hp kvs kvd os k value
  = match tr_nd_get_kvpair_element lw hp kvs kvd os (setitem_lookup_key k) true with
    | Err e => MErr e (hp, kvs, kvd, os)
    | Ok orig =>
        match (match orig with None => Ok None | Some kv => trp_kv_comment kvs kv end) with
        | Err e => MErr e (hp, kvs, kvd, os)
        | Ok comment =>
            let fc := option_map CElem comment in
            match split_on_first LF value with
            | (_, None) => tr_nd_set_field_to_simple_value lw hp kvs kvd os k (py_strip value) None fc
            | (first_line, Some rest) =>
                let value' := [SP] ++ py_strip first_line ++ [LF] ++ rest in
                let value'' := if ends_nl value' then value' else value' ++ [LF] in
                tr_nd_set_field_from_raw_string lw hp kvs kvd os k value'' None fc
            end
        end
    end.
Proof.
  unfold tr_nd_setitem, trp_flag_true, setitem_lookup_key. cbv zeta. cbn [andb negb].
  assert (Hsplit : forall a b, split_on_first LF value = (a, Some b) ->
            ((Z.of_nat (length a) =? - (1)) || (Z.of_nat (length a) =? tr_len value)) = false).
  { intros a b E. destruct (split_on_first_some _ _ _ _ E) as [Hs _].
    apply orb_false_iff. split; apply Z.eqb_neq; [lia|].
    unfold tr_len. rewrite Hs, app_length. cbn [length]. lia. }
  destruct k as [n|n i]; cbn [trp_key_is_str trp_key_pair fst snd];
    (destruct (tr_nd_get_kvpair_element lw hp kvs kvd os _ true) as [[kv|]|e]; [| |reflexivity]);
    try (destruct (trp_kv_comment kvs kv) as [c|e]; [|reflexivity]);
    unfold trp_index_lf, trp_split_lf_1;
    (destruct (split_on_first LF value) as [a [b|]] eqn:E; cbn [bind];
     [ rewrite (Hsplit _ _ eq_refl); unfold trp_join4, trp_strip, trp_ends_nl; cbn [app];
       change ([32%N] ++ py_strip a ++ [10%N] ++ b) with (32%N :: py_strip a ++ 10%N :: b);
       rewrite !mres_eta; change SP with 32%N; change LF with 10%N; cbn [app];
       destruct (ends_nl (32%N :: py_strip a ++ 10%N :: b)); cbn [negb]; reflexivity
     | cbn [Z.opp Z.eqb Pos.eqb orb]; rewrite mres_eta; reflexivity ]).
Qed.

(** * get_kvpair_element of the no-duplicates class on a represented list: the model's [nd_get]; the element returned
      is the object whose stored field the model returns *)
Theorem tr_nd_get_rep hp kvs kvd os fs k ug :
  nd_rep hp kvs kvd os fs ->
  match nd_get fs k ug with
  | Err e => tr_nd_get_kvpair_element lower hp kvs kvd os k ug = Err e
  | Ok None => tr_nd_get_kvpair_element lower hp kvs kvd os k ug = Ok None
  | Ok (Some f) => exists kv, tr_nd_get_kvpair_element lower hp kvs kvd os k ug = Ok (Some kv) /\ t_get kv kvs = Some f
  end.
Proof.
  intros (R & [Ro Ki] & <-). unfold tr_nd_get_kvpair_element, nd_get, trp_unpack_key.
  destruct (unpack_key k true) as [[n i]|e]; cbn [bind fst]; [|reflexivity].
  unfold trp_kvd_get_opt, trp_kvd_get.
  destruct (rows_find n R) as [[Ef Hn]|(A & r & B & ER & Hk & HnA & Ef & Erm)]; rewrite Ef.
  - assert (G : t_get (lower n) kvd = None).
    { destruct (t_get (lower n) kvd) eqn:G; [|reflexivity]. exfalso. apply Hn.
      rewrite <- map_pk_rowP. apply (kv_inv_keys _ _ _ _ Ki).
      destruct (In_dec (list_eq_dec N.eq_dec) (lower n) (map fst kvd)) as [Hi|Hi]; [exact Hi|].
      apply t_get_none in Hi. congruence. }
    rewrite G. destruct ug; reflexivity.
  - assert (Hin : In r R) by (rewrite ER; apply in_or_app; right; now left).
    pose proof (kv_get_row _ _ _ _ Ki Hin) as G. unfold trp_kvd_get in G.
    fold (rk r) in G. rewrite Hk in G.
    destruct (t_get (lower n) kvd) as [kv|] eqn:G2; [|discriminate]. injection G as ->.
    destruct Ki as [_ _ _ _ S]. rewrite Forall_forall in S.
    specialize (S (rowP r) (in_map rowP _ _ Hin)). cbn [rowP fst snd] in S.
    exists (r_kv r). split; [destruct ug; reflexivity|exact S].
Qed.

(** * set_kvpair_element of the no-duplicates class on a represented list: the model's [nd_set_kvpair] *)

(** [self._kvpair_order.append(key)] is C09's regenerated OrderedSet.add on (heap, record) *)
Lemma trp_os_add_eq lw hp (os : oset) item :
  trp_os_add lw hp os item = lift2 (os_add lw item (hp, os)).
Proof. apply os_run_lift. intros. apply tr_os_add_eq. Qed.

(** the new element is not (yet) an element of the paragraph: no entry of the dict holds it *)
Definition kv_unused (kvd : kvdict) (v : kvelem) : bool := forallb (fun p => negb (str_eqb (snd p) v)) kvd.
(** if the paragraph has a field of that name, the new field spells the name as the existing one does (the order set
    keeps the spelling of the existing key; the model reads the names off the fields) *)
Definition spell_ok (fs : list field) (vf : field) : bool :=
  match List.find (has_name (f_name vf)) fs with
  | Some f => str_eqb (f_name f) (f_name vf)
  | None => true
  end.

Lemma t_get_in {V} k (t : tbl V) x : t_get k t = Some x -> exists k', In (k', x) t.
Proof.
  induction t as [|[k0 v0] t IH]; cbn; [discriminate|].
  destruct (str_eqb k k0).
  - intros [= <-]. exists k0. now left.
  - intros H. destruct (IH H) as [k' Hk]. exists k'. now right.
Qed.

Lemma kv_unused_rows kvs kvd R v :
  kv_inv kvs kvd (map rowP R) -> kv_unused kvd v = true -> forall r, In r R -> r_kv r <> v.
Proof.
  intros Ki Hu r Hr E. pose proof (kv_get_row _ _ _ _ Ki Hr) as G. unfold trp_kvd_get in G.
  destruct (t_get (lower (f_name (r_f r))) kvd) as [x|] eqn:G2; [|discriminate]. injection G as ->.
  destruct (t_get_in _ _ _ G2) as [k' Hin]. unfold kv_unused in Hu. rewrite forallb_forall in Hu.
  specialize (Hu _ Hin). cbn [snd] in Hu. rewrite E, str_eqb_refl in Hu. discriminate.
Qed.

Lemma tr_nd_ensure_rep' hp kvs kvd os R :
  nd_inv hp kvs kvd os R ->
  exists kvs', tr_nd_ensure_final_newline lower hp kvs kvd os = MOk tt (hp, kvs', kvd, os)
               /\ nd_inv hp kvs' kvd os (map_last row_nl R)
               /\ forall x, (forall r, In r R -> r_kv r <> x) -> t_get x kvs' = t_get x kvs.
Proof.
  intros I. pose proof I as [Ro Ki]. unfold tr_nd_ensure_final_newline.
  rewrite (tr_nd_iter_parts_rep _ _ _ _ _ I), ensure_loop_last.
  destruct (list_snoc_cases R) as [->|(A & r & ->)].
  - exists kvs. split; [reflexivity|]. split; [exact I|reflexivity].
  - rewrite map_app. cbn [map]. rewrite StructLemmas.last_opt_snoc. cbn [tr_nd_ensure_final_newline_loop1].
    destruct (kv_inv_nl _ _ _ _ Ki) as [Hg Ki'].
    unfold trp_kv_value_element, trp_ve_add_final_newline. rewrite Hg.
    eexists. split; [reflexivity|]. rewrite map_last_snoc. split; [split; [|exact Ki']|].
    + rewrite <- (map_last_snoc row_nl), rows_nl_L. exact Ro.
    + intros x Hx. rewrite t_get_set. destruct (str_eqb x (r_kv r)) eqn:E; [|reflexivity].
      apply str_eqb_eq in E. exfalso. apply (Hx r); [apply in_or_app; right; now left|now symmetry].
Qed.

Lemma kvd_get_absent kvs kvd R n :
  kv_inv kvs kvd (map rowP R) -> ~ In (lower n) (map rk R) -> t_get (lower n) kvd = None.
Proof.
  intros Ki Hn. destruct (t_get (lower n) kvd) eqn:G; [|reflexivity]. exfalso. apply Hn.
  rewrite <- map_pk_rowP. apply (kv_inv_keys _ _ _ _ Ki).
  destruct (In_dec (list_eq_dec N.eq_dec) (lower n) (map fst kvd)) as [Hi|Hi]; [exact Hi|].
  apply t_get_none in Hi. congruence.
Qed.

(** the dict and the store after the new element has replaced the one of the same name *)
Lemma kv_inv_replace kvs kvd A r B v vf :
  kv_inv kvs kvd (map rowP (A ++ r :: B)) ->
  rk r = lower (f_name vf) -> t_get v kvs = Some vf -> (forall r', In r' (A ++ r :: B) -> r_kv r' <> v) ->
  kv_inv kvs (t_set (lower (f_name vf)) v kvd) (map rowP (A ++ mkRow (r_id r) v vf :: B)).
Proof.
  intros [K G D Rf S] Hk Hv Hfr. rewrite map_app in *. cbn [map] in *.
  assert (Epk : pk (rowP (mkRow (r_id r) v vf)) = pk (rowP r)).
  { unfold pk, rowP. cbn [snd r_f]. symmetry. exact Hk. }
  assert (K' : NoDup (map pk (map rowP A ++ rowP (mkRow (r_id r) v vf) :: map rowP B))).
  { rewrite map_app in *. cbn [map] in *. now rewrite Epk. }
  constructor.
  - exact K'.
  - intros kl. rewrite t_get_set, G, (afind_mid pk) by exact K. rewrite (afind_mid pk) by exact K'.
    rewrite Epk. change (pk (rowP r)) with (rk r). rewrite Hk.
    destruct (str_eqb kl (lower (f_name vf))); reflexivity.
  - now apply t_set_nodup.
  - rewrite map_app in Rf |- *. cbn [map rowP fst r_kv] in Rf |- *.
    apply (NoDup_Add (Add_app v _ _)). split; [now apply NoDup_remove_1 in Rf|].
    intros Hin. apply in_app_or in Hin.
    destruct Hin as [Hin|Hin]; apply in_map_iff in Hin; destruct Hin as (p & Ep & Hp);
      apply in_map_iff in Hp; destruct Hp as (r' & <- & Hr'); cbn [rowP fst] in Ep;
      (apply (Hfr r'); [apply in_or_app; (now left) || (right; now right)|exact Ep]).
  - apply Forall_app in S as [SA SB]. inversion SB as [|? ? _ SB']; subst. apply Forall_app. split; [exact SA|].
    constructor; [exact Hv|exact SB'].
Qed.

(** ... after the new element has been appended *)
Lemma kv_inv_append kvs kvd R i v vf :
  kv_inv kvs kvd (map rowP R) ->
  ~ In (lower (f_name vf)) (map rk R) -> t_get v kvs = Some vf -> (forall r', In r' R -> r_kv r' <> v) ->
  kv_inv kvs (t_set (lower (f_name vf)) v kvd) (map rowP (R ++ [mkRow i v vf])).
Proof.
  intros [K G D Rf S] Hn Hv Hfr. rewrite map_app. cbn [map]. constructor.
  - rewrite map_app. cbn [map]. apply nodup_snoc; [exact K|]. rewrite map_pk_rowP. exact Hn.
  - intros kl. rewrite t_get_set, G, afind_app. cbn [afind].
    change (pk (rowP (mkRow i v vf))) with (lower (f_name vf)).
    destruct (str_eqb kl (lower (f_name vf))) eqn:E.
    + apply str_eqb_eq in E. subst kl.
      assert (Hno : afind pk (lower (f_name vf)) (map rowP R) = None) by (apply afind_none; now rewrite map_pk_rowP).
      rewrite Hno. reflexivity.
    + destruct (afind pk kl (map rowP R)); reflexivity.
  - now apply t_set_nodup.
  - rewrite map_app. cbn [map rowP fst r_kv]. apply nodup_snoc; [exact Rf|].
    intros Hin. apply in_map_iff in Hin. destruct Hin as (p & Ep & Hp).
    apply in_map_iff in Hp. destruct Hp as (r' & <- & Hr'). cbn [rowP fst] in Ep. now apply (Hfr r').
  - apply Forall_app. split; [exact S|]. constructor; [exact Hv|constructor].
Qed.

Lemma rows_nl_kv R : map r_kv (map_last row_nl R) = map r_kv R.
Proof. apply map_last_map. intros r. reflexivity. Qed.

Theorem tr_nd_set_kvpair_refines hp kvs kvd os fs k v vf :
  nd_rep hp kvs kvd os fs ->
  t_get v kvs = Some vf -> kv_unused kvd v = true -> spell_ok fs vf = true ->
  nd_refines (tr_nd_set_kvpair_element lower hp kvs kvd os k v) (res_sres fs (nd_set_kvpair fs k vf)).
Proof.
  intros (R & [Ro Ki] & <-) Hv Hu Hs. unfold tr_nd_set_kvpair_element, nd_set_kvpair, trp_unpack_key.
  destruct (unpack_key k true) as [[n i]|e]; cbn [bind fst]; [|apply nd_refines_fail; exists R; now split].
  unfold trp_stri_is_nametoken, trp_kv_field_name. rewrite Hv. cbv beta iota zeta.
  unfold trp_stri_eqb. change (str_eqb (lower n) (lower (f_name vf))) with (name_eqb n (f_name vf)).
  destruct (name_eqb n (f_name vf)); cbn [negb]; [|apply nd_refines_fail; exists R; now split].
  unfold trp_kvd_get_opt, trp_kvd_set, trp_kv_set_parent.
  pose proof (kv_unused_rows _ _ _ _ Ki Hu) as Hfr.
  destruct (rows_find (f_name vf) R) as [[Ef Hn]|(A & r & B & ER & Hk & HnA & Ef & Erm)]; rewrite find_existsb, Ef.
  - rewrite (kvd_get_absent _ _ _ _ Ki Hn).
    destruct (tr_nd_ensure_rep' _ _ _ _ _ (conj Ro Ki)) as (kvs' & Ee & [Ro' Ki'] & Hsame). rewrite Ee.
    cbv beta iota zeta. rewrite trp_os_add_eq.
    assert (Hn' : afind (keyL lower) (lower (f_name vf)) (map rowL (map_last row_nl R)) = None).
    { apply afind_none. now rewrite map_keyL_rowL, rows_nl_rk. }
    destruct (os_add_absent lower hp os _ (f_name vf) Ro' Hn') as (h' & os' & Eo & Ro'' & _). rewrite Eo.
    cbn [lift2 res_sres]. eexists. split; [reflexivity|].
    exists (map_last row_nl R ++ [mkRow (nxt hp) v vf]). split.
    + split; [rewrite map_app; exact Ro''|].
      apply kv_inv_append; [exact Ki'|now rewrite rows_nl_rk| |].
      * rewrite Hsame; [exact Hv|exact Hfr].
      * intros r' Hr' E. apply (in_map r_kv) in Hr'. rewrite rows_nl_kv in Hr'.
        apply in_map_iff in Hr'. destruct Hr' as (r2 & E2 & Hr2). apply (Hfr r2 Hr2). congruence.
    + rewrite map_app, rows_nl_fields. reflexivity.
  - assert (Hin : In r R) by (rewrite ER; apply in_or_app; right; now left).
    pose proof (kv_get_row _ _ _ _ Ki Hin) as G. unfold trp_kvd_get in G. fold (rk r) in G. rewrite Hk in G.
    destruct (t_get (lower (f_name vf)) kvd) as [okv|] eqn:G2; [|discriminate].
    cbv beta iota zeta. rewrite trp_os_add_eq.
    assert (Hp : afind (keyL lower) (lower (f_name vf)) (map rowL R) <> None).
    { intros Hno. apply afind_none in Hno. apply Hno. rewrite map_keyL_rowL, ER, map_app.
      apply in_or_app. right. left. exact Hk. }
    rewrite (os_add_present lower hp os _ (f_name vf) Ro Hp). cbn [lift2 res_sres].
    eexists. split; [reflexivity|].
    unfold spell_ok in Hs. rewrite Ef in Hs. apply str_eqb_eq in Hs.
    exists (A ++ mkRow (r_id r) v vf :: B). split.
    + split.
      * rewrite ER in Ro. rewrite map_app in *. cbn [map] in *.
        replace (rowL (mkRow (r_id r) v vf)) with (rowL r); [exact Ro|].
        unfold rowL. cbn [r_id r_f]. now rewrite Hs.
      * rewrite ER in Ki. apply kv_inv_replace; [exact Ki|exact Hk|exact Hv|].
        intros r' Hr'. apply Hfr. now rewrite ER.
    + rewrite ER, !map_app. cbn [map r_f]. rewrite DocProofs.replace_first_split; [reflexivity| |].
      * now apply not_in_rk_forallb.
      * rewrite has_name_lower. fold (rk r). rewrite Hk. apply str_eqb_refl.
Qed.

(** * set_field_from_raw_string on a represented list: the model's [set_raw] *)

(** ** freshness of the element the parser primitive allocates *)
Definition maxlen (kvs : kvstore) : nat := fold_right (fun p m => Nat.max (length (fst p)) m) O kvs.
Lemma maxlen_ge (kvs : kvstore) k : In k (map fst kvs) -> (length k <= maxlen kvs)%nat.
Proof.
  induction kvs as [|[k0 f0] t IH]; cbn; [tauto|]. intros [<-|H]; [lia|]. specialize (IH H). unfold maxlen in IH. lia.
Qed.
Lemma kv_fresh_get kvs : t_get (kv_fresh kvs) kvs = None.
Proof.
  apply t_get_none. intros H. apply maxlen_ge in H. unfold kv_fresh in H. rewrite repeat_length in H.
  unfold maxlen in H. lia.
Qed.
Lemma kv_fresh_unused kvs kvd P : kv_inv kvs kvd P -> kv_unused kvd (kv_fresh kvs) = true.
Proof.
  intros [K G D Rf S]. unfold kv_unused. apply forallb_forall. intros [k' x] Hin. cbn [snd].
  destruct (str_eqb x (kv_fresh kvs)) eqn:E; [|reflexivity]. apply str_eqb_eq in E. exfalso.
  pose proof (t_get_in_nodup _ _ _ D Hin) as Gx. rewrite G in Gx.
  destruct (afind pk k' P) as [p|] eqn:Ea; [|discriminate]. cbn in Gx. injection Gx as Ex.
  apply afind_some in Ea. destruct Ea as [Hp _]. rewrite Forall_forall in S. specialize (S p Hp).
  rewrite Ex, E, kv_fresh_get in S. discriminate.
Qed.

(** ** small facts *)
Lemma mapM_format_comment l :
  tr_mapM (fun x => do t <- tr_format_comment x; Ok t) l = map_result format_comment l.
Proof.
  induction l as [|c l IH]; [reflexivity|]. cbn [tr_mapM map_result]. rewrite tr_format_comment_eq, IH.
  destruct (format_comment c); reflexivity.
Qed.

Lemma nth_error_last {A} (l : list A) : nth_error l (pred (length l)) = last_opt l.
Proof.
  induction l as [|a l IH]; [reflexivity|]. destruct l as [|b l]; [reflexivity|].
  change (pred (length (a :: b :: l))) with (S (pred (length (b :: l)))). cbn [nth_error]. rewrite IH. reflexivity.
Qed.

Lemma last_line_check (ls : list str) :
  (if tr_len ls >? 1 then do l <- tr_index ls (- (1)); Ok (trp_starts_hash l tt) else Ok false)
  = Ok (match ls with
        | _ :: _ :: _ => match last_opt ls with Some l => starts_hash l | None => false end
        | _ => false
        end).
Proof.
  destruct ls as [|a [|b ls]]; [reflexivity|reflexivity|].
  assert (E : tr_len (a :: b :: ls) >? 1 = true) by (unfold tr_len; cbn [length]; lia).
  rewrite E. unfold tr_index. cbn [Z.opp]. replace (-1 <? 0) with true by reflexivity.
  set (n := length (a :: b :: ls)).
  assert (Hn : (2 <= n)%nat) by (unfold n; cbn [length]; lia).
  replace (-1 + Z.of_nat n <? 0) with false by (symmetry; apply Z.ltb_ge; lia).
  replace (Z.to_nat (-1 + Z.of_nat n)) with (pred n) by lia.
  unfold n. rewrite nth_error_last. destruct (last_opt (a :: b :: ls)) eqn:El; [reflexivity|].
  apply last_opt_none in El. discriminate.
Qed.

(** ** the line checks: the loop of set_field_from_raw_string is the model's [check_raw_lines] *)
Lemma raw_loop_check lw item rsv p fc hp kvs kvd os nc fnm vv cfn orig raw rl END :
  END = tr_nd_set_field_from_raw_string_loop1 [] lw item rsv p fc hp kvs kvd os nc fnm vv cfn orig raw rl ->
  forall ls i first, 1 <= i -> (i =? 1) = first ->
  tr_nd_set_field_from_raw_string_loop1 (tr_enumerate_from i ls) lw item rsv p fc hp kvs kvd os nc fnm vv cfn orig raw rl
  = match check_raw_lines first ls with
    | Ok _ => END
    | Err e => MErr e (hp, kvs, kvd, os)
    end.
Proof.
  intros HE. induction ls as [|l ls IH]; intros i first Hi Hf.
  - cbn [tr_enumerate_from check_raw_lines]. now rewrite HE.
  - cbn [tr_enumerate_from check_raw_lines]. cbn [tr_nd_set_field_from_raw_string_loop1].
    unfold trp_ends_nl. destruct (ends_nl l) eqn:En; cbn [negb]; [|reflexivity].
    rewrite Hf. destruct l as [|c l]; [discriminate|].
    destruct first; cbn [negb andb].
    + apply IH; [lia|]. apply Z.eqb_neq. lia.
    + unfold tr_index. cbn [length]. replace (0 <? 0) with false by reflexivity. cbn [Z.to_nat nth_error bind].
      replace (0 <? 0) with false by reflexivity. cbn [bind].
      cbn [tr_str_in existsb str_eqb list_eqb]. rewrite !andb_true_r, orb_false_r.
      change 32%N with SP. change 9%N with TAB. change 35%N with HASH.
      rewrite <- orb_assoc.
      destruct ((c =? SP)%N || ((c =? TAB)%N || (c =? HASH)%N)); cbn [negb].
      * apply IH; [lia|]. apply Z.eqb_neq. lia.
      * reflexivity.
Qed.

(** ** the store after the field of one row has been replaced by one of the same name *)
Lemma kv_inv_upd kvs kvd A r B f' :
  kv_inv kvs kvd (map rowP (A ++ r :: B)) -> f_name f' = f_name (r_f r) ->
  kv_inv (t_set (r_kv r) f' kvs) kvd (map rowP (A ++ mkRow (r_id r) (r_kv r) f' :: B)).
Proof.
  intros [K G D Rf S] Hn. rewrite map_app in *. cbn [map] in *.
  assert (Epk : pk (rowP (mkRow (r_id r) (r_kv r) f')) = pk (rowP r)).
  { unfold pk, rowP. cbn [snd r_f]. now rewrite Hn. }
  assert (K' : NoDup (map pk (map rowP A ++ rowP (mkRow (r_id r) (r_kv r) f') :: map rowP B))).
  { rewrite map_app in *. cbn [map] in *. now rewrite Epk. }
  constructor.
  - exact K'.
  - intros kl. rewrite G, (afind_mid pk) by exact K. rewrite (afind_mid pk) by exact K'. rewrite Epk.
    destruct (str_eqb kl (pk (rowP r))); reflexivity.
  - exact D.
  - rewrite map_app in Rf |- *. cbn [map rowP fst r_kv] in Rf |- *. exact Rf.
  - rewrite map_app in Rf. cbn [map rowP fst r_kv] in Rf.
    apply Forall_app in S as [SA SB]. inversion SB as [|? ? _ SB']; subst.
    assert (Hout : forall p, In p (map rowP A ++ map rowP B) -> t_get (fst p) (t_set (r_kv r) f' kvs) = t_get (fst p) kvs).
    { intros p Hp. rewrite t_get_set. destruct (str_eqb (fst p) (r_kv r)) eqn:E; [|reflexivity].
      apply str_eqb_eq in E. exfalso. apply NoDup_remove_2 in Rf. apply Rf. rewrite <- E, <- map_app. now apply in_map. }
    apply Forall_app. split.
    + rewrite Forall_forall in *. intros p Hp. rewrite Hout by (apply in_or_app; now left). now apply SA.
    + constructor.
      * cbn [rowP fst snd r_kv r_f]. now rewrite t_get_set, str_eqb_refl.
      * rewrite Forall_forall in *. intros p Hp. rewrite Hout by (apply in_or_app; now right). now apply SB'.
Qed.

(** ** get_kvpair_element at row level *)
Lemma tr_nd_get_rows hp kvs kvd os R k n i :
  nd_inv hp kvs kvd os R -> unpack_key k true = Ok (n, i) ->
  (List.find (has_name n) (map r_f R) = None /\ ~ In (lower n) (map rk R)
   /\ tr_nd_get_kvpair_element lower hp kvs kvd os k true = Ok None)
  \/ exists A r B, R = A ++ r :: B /\ rk r = lower n /\ ~ In (lower n) (map rk A)
       /\ List.find (has_name n) (map r_f R) = Some (r_f r)
       /\ tr_nd_get_kvpair_element lower hp kvs kvd os k true = Ok (Some (r_kv r))
       /\ t_get (r_kv r) kvs = Some (r_f r).
Proof.
  intros [Ro Ki] Hu. unfold tr_nd_get_kvpair_element, trp_unpack_key. rewrite Hu. cbn [bind].
  unfold trp_kvd_get_opt.
  destruct (rows_find n R) as [[Ef Hn]|(A & r & B & ER & Hk & HnA & Ef & Erm)].
  - left. split; [exact Ef|]. split; [exact Hn|]. now rewrite (kvd_get_absent _ _ _ _ Ki Hn).
  - right. exists A, r, B. split; [exact ER|]. split; [exact Hk|]. split; [exact HnA|]. split; [exact Ef|].
    assert (Hin : In r R) by (rewrite ER; apply in_or_app; right; now left).
    pose proof (kv_get_row _ _ _ _ Ki Hin) as G. unfold trp_kvd_get in G. fold (rk r) in G. rewrite Hk in G.
    destruct (t_get (lower n) kvd) as [kv|] eqn:G2; [|discriminate]. injection G as ->.
    split; [reflexivity|]. destruct Ki as [_ _ _ _ S]. rewrite Forall_forall in S.
    exact (S (rowP r) (in_map rowP _ _ Hin)).
Qed.
