(** C05 — tie by regeneration for the SETTERS of the format-preserving paragraph (Gen/TrDocSet.v is regenerated from
    debian/_deb822_repro/parsing.py on every run).  Proofs; statements are repeated in Props/C05Tie.v. *)
From Coq Require Import Lia ZArith List Permutation.
From Verif Require Import Lib.Base Lib.PyStr Lib.PySlice Lib.Tr Gen.PyChars Dict.Common Dict.Heap Dict.TrPrims Dict.ProofsLL
  Dict.ProofsOS Dict.Tie Gen.TrLinkedList.
From Verif Require Import Repro.Doc Repro.DocProofs Repro.Struct Repro.StructLemmas Repro.StructTrPrims Gen.TrStruct
  Repro.StructTie Repro.DocTrPrims Gen.TrDocSet.
Import ListNotations.
Local Open Scope Z_scope.

(** * _format_comment *)
Lemma slice_drop_last (c : str) : tr_slice c None (Some (-1)) = removelast c.
Proof.
  unfold tr_slice, slice, clamp_index. rewrite removelast_firstn_len.
  replace (0 <? 0) with false by reflexivity. replace (-1 <? 0) with true by reflexivity.
  replace (Z.to_nat (Z.min 0 (Z.of_nat (length c)))) with O by lia.
  replace (Z.to_nat (Z.max 0 (-1 + Z.of_nat (length c)))) with (pred (length c)) by lia.
  cbn [skipn]. now rewrite Nat.sub_0_r.
Qed.

Lemma format_comment_tail (c1 : str) :
  (if negb (starts_hash c1) then Ok ([35%N; 32%N] ++ py_lstrip c1) else Ok c1)
  = Ok (match c1 with
        | x :: _ => if (x =? HASH)%N then c1 else [HASH; SP] ++ py_lstrip c1
        | [] => [HASH; SP]
        end).
Proof. destruct c1 as [|y c1]; [reflexivity|]. unfold starts_hash. destruct (y =? HASH)%N; reflexivity. Qed.

Theorem tr_format_comment_eq c : tr_format_comment c = format_comment c.
Proof.
  unfold tr_format_comment, format_comment.
  destruct c as [|x c]; [reflexivity|].
  change (str_eqb (x :: c) []) with false. cbn [is_nil Z.opp].
  rewrite slice_drop_last. change (tr_char_in 10%N) with (mem_char LF).
  destruct (mem_char LF (removelast (x :: c))); [reflexivity|].
  unfold trp_ends_nl, trp_starts_hash, trp_rstrip, trp_lstrip. cbv zeta.
  destruct (ends_nl (x :: c)); cbn [negb]; apply format_comment_tail.
Qed.

(** * The result of a delegating call is handed on as it is *)
Lemma mres_eta (r : mres unit ndst) :
  match r with
  | MOk _ st => let '(hp, kvs, s_kv, s_order) := st in MOk tt (hp, kvs, s_kv, s_order)
  | MErr e st => MErr e st
  end = r.
Proof. destruct r as [[] [[[? ?] ?] ?]|e st]; reflexivity. Qed.

(** * set_field_to_simple_value: the newline rejection, then set_field_from_raw_string on [" " + strip + LF] — the
      text the model's [set_simple] hands to [set_raw] — on every state *)
Theorem tr_nd_set_simple_eq lw hp kvs kvd os k v pres fc :
  tr_nd_set_field_to_simple_value lw hp kvs kvd os k v pres fc
  = if mem_char LF v then MErr ValueError (hp, kvs, kvd, os)
    else tr_nd_set_field_from_raw_string lw hp kvs kvd os k ([SP] ++ py_strip v ++ [LF]) pres fc.
Proof.
  unfold tr_nd_set_field_to_simple_value. change (tr_char_in 10%N v) with (mem_char LF v).
  destruct (mem_char LF v); [reflexivity|]. cbv zeta. rewrite mres_eta. unfold trp_strip.
  now rewrite <- app_assoc.
Qed.

(** * __setitem__: the lookup of the original field's comment, then the two text forms — exactly the expressions of
      the model's [setitem] — on every state *)
Definition setitem_lookup_key (k : key) : key := match k with KStr n => KIdx n 0 | _ => k end.

Theorem tr_nd_setitem_eq lw hp kvs kvd os k value :
  tr_nd_setitem lw hp kvs kvd os k value
  = match tr_nd_get_kvpair_element lw hp kvs kvd os (setitem_lookup_key k) true with
    | Err e => MErr e (hp, kvs, kvd, os)
    | Ok orig =>
        match (match orig with None => Ok None | Some kv => trp_kv_comment kvs kv end) with
        | Err e => MErr e (hp, kvs, kvd, os)
        | Ok comment =>
            let fc := option_map CElem comment in
            match split_on_first LF value with
            | (_, None) => tr_nd_set_field_to_simple_value lw hp kvs kvd os k (py_strip value) None fc
            | (first_line, Some rest) =>
                let value' := [SP] ++ py_strip first_line ++ [LF] ++ rest in
                let value'' := if ends_nl value' then value' else value' ++ [LF] in
                tr_nd_set_field_from_raw_string lw hp kvs kvd os k value'' None fc
            end
        end
    end.
Proof.
  unfold tr_nd_setitem, trp_flag_true, setitem_lookup_key. cbv zeta. cbn [andb negb].
  assert (Hsplit : forall a b, split_on_first LF value = (a, Some b) ->
            ((Z.of_nat (length a) =? - (1)) || (Z.of_nat (length a) =? tr_len value)) = false).
  { intros a b E. destruct (split_on_first_some _ _ _ _ E) as [Hs _].
    apply orb_false_iff. split; apply Z.eqb_neq; [lia|].
    unfold tr_len. rewrite Hs, app_length. cbn [length]. lia. }
  destruct k as [n|n i]; cbn [trp_key_is_str trp_key_pair fst snd];
    (destruct (tr_nd_get_kvpair_element lw hp kvs kvd os _ true) as [[kv|]|e]; [| |reflexivity]);
    try (destruct (trp_kv_comment kvs kv) as [c|e]; [|reflexivity]);
    unfold trp_index_lf, trp_split_lf_1;
    (destruct (split_on_first LF value) as [a [b|]] eqn:E; cbn [bind];
     [ rewrite (Hsplit _ _ eq_refl); unfold trp_join4, trp_strip, trp_ends_nl; cbn [app];
       change ([32%N] ++ py_strip a ++ [10%N] ++ b) with (32%N :: py_strip a ++ 10%N :: b);
       rewrite !mres_eta; change SP with 32%N; change LF with 10%N; cbn [app];
       destruct (ends_nl (32%N :: py_strip a ++ 10%N :: b)); cbn [negb]; reflexivity
     | cbn [Z.opp Z.eqb Pos.eqb orb]; rewrite mres_eta; reflexivity ]).
Qed.

(** * get_kvpair_element of the no-duplicates class on a represented list: the model's [nd_get]; the element returned
      is the object whose stored field the model returns *)
Theorem tr_nd_get_rep hp kvs kvd os fs k ug :
  nd_rep hp kvs kvd os fs ->
  match nd_get fs k ug with
  | Err e => tr_nd_get_kvpair_element lower hp kvs kvd os k ug = Err e
  | Ok None => tr_nd_get_kvpair_element lower hp kvs kvd os k ug = Ok None
  | Ok (Some f) => exists kv, tr_nd_get_kvpair_element lower hp kvs kvd os k ug = Ok (Some kv) /\ t_get kv kvs = Some f
  end.
Proof.
  intros (R & [Ro Ki] & <-). unfold tr_nd_get_kvpair_element, nd_get, trp_unpack_key.
  destruct (unpack_key k true) as [[n i]|e]; cbn [bind fst]; [|reflexivity].
  unfold trp_kvd_get_opt, trp_kvd_get.
  destruct (rows_find n R) as [[Ef Hn]|(A & r & B & ER & Hk & HnA & Ef & Erm)]; rewrite Ef.
  - assert (G : t_get (lower n) kvd = None).
    { destruct (t_get (lower n) kvd) eqn:G; [|reflexivity]. exfalso. apply Hn.
      rewrite <- map_pk_rowP. apply (kv_inv_keys _ _ _ _ Ki).
      destruct (In_dec (list_eq_dec N.eq_dec) (lower n) (map fst kvd)) as [Hi|Hi]; [exact Hi|].
      apply t_get_none in Hi. congruence. }
    rewrite G. destruct ug; reflexivity.
  - assert (Hin : In r R) by (rewrite ER; apply in_or_app; right; now left).
    pose proof (kv_get_row _ _ _ _ Ki Hin) as G. unfold trp_kvd_get in G.
    fold (rk r) in G. rewrite Hk in G.
    destruct (t_get (lower n) kvd) as [kv|] eqn:G2; [|discriminate]. injection G as ->.
    destruct Ki as [_ _ _ _ S]. rewrite Forall_forall in S.
    specialize (S (rowP r) (in_map rowP _ _ Hin)). cbn [rowP fst snd] in S.
    exists (r_kv r). split; [destruct ug; reflexivity|exact S].
Qed.
