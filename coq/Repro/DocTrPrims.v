(** C05 — primitives of the regenerated SETTERS of the format-preserving paragraph (Gen/TrDocSet.v, regenerated from
    debian/_deb822_repro/parsing.py on every run; METHOD + HEAP MODE of harness/py2coq.py): _format_comment,
    Deb822ParagraphToStrWrapperMixin.__setitem__, Deb822ParagraphElement.set_field_to_simple_value /
    set_field_from_raw_string, and get_kvpair_element / set_kvpair_element of Deb822NoDuplicateFieldsParagraphElement.

    The state is C10's (Repro/StructTrPrims.v): the heap of C09's list nodes, the store of key-value pair elements
    ([kvstore]: references to the model's [field]s), the dict and the OrderedSet object; OrderedSet.append is C09's
    regenerated [add] (the class says [append = add]; asserted by the generator).  Everything here is hand-written and
    DEFINED from the model's own functions (Repro/Doc.v) wherever the model has one.

    Definitions only. *)
From Coq Require Import ZArith List.
From Verif Require Import Lib.Base Lib.PyStr Lib.Tr Gen.PyChars Dict.Common Dict.Heap Dict.TrPrims Gen.TrLinkedList
  Repro.StructTrPrims.
From Verif Require Repro.Doc.
Import ListNotations.
Local Open Scope Z_scope.

(** * str methods (the literal arguments are asserted by the translator spec) *)
Definition trp_ends_nl (s : str) (_ : unit) : bool := Doc.ends_nl s.             (* s.endswith("\n") *)
Definition trp_starts_hash (s : str) (_ : unit) : bool := Doc.starts_hash s.     (* s.startswith("#") *)
Definition trp_rstrip (s : str) : str := Doc.py_rstrip s.
Definition trp_lstrip (s : str) : str := Doc.py_lstrip s.
Definition trp_strip (s : str) : str := Doc.py_strip s.
(** [sep.join((a, b))], [sep.join((a, b, c, d))] *)
Definition trp_join2 (sep : str) (p : stri * str) : str := fst p ++ sep ++ snd p.
Definition trp_join4 (sep : str) (p : str * str * str * str) : str :=
  let '(a, b, c, d) := p in a ++ sep ++ b ++ sep ++ c ++ sep ++ d.
(** [s.splitlines(keepends=True)], [enumerate(l, start=k)] *)
Definition trp_splitlines_keep (s : str) (_ : unit) : list str := splitlines py_islinebreak true s.
Definition trp_enumerate (l : list str) (start : Z) : list (Z * str) := tr_enumerate_from start l.
(** [msg.format(..)]: the text of an exception message is never observed *)
Definition trp_fmt_i (msg : str) (i : Z) : str := msg.
Definition trp_fmt_i_line (msg : str) (i : Z) (c : N) : str := msg.
(** [s.index("\n")] (ValueError when absent), [s.split("\n", 1)] — through the model's [split_on_first] *)
Definition trp_index_lf (s : str) (_ : unit) : result Z :=
  match split_on_first LF s with
  | (a, Some _) => Ok (Z.of_nat (length a))
  | (_, None) => Err ValueError
  end.
Definition trp_split_lf_1 (s : str) (_ _ : unit) : list str :=
  match split_on_first LF s with
  | (a, Some b) => [a; b]
  | (a, None) => [a]
  end.

(** the four [_auto_*] / [_preserve_*] properties of the mixins: [return True] (source text asserted by the generator;
    Deb822ParagraphElement does not override them) *)
Definition trp_flag_true : bool := true.

(** * Keys *)
Definition trp_key_is_str (k : trp_key) (_ : unit) : bool := match k with Doc.KStr _ => true | Doc.KIdx _ _ => false end.
(** [(item, 0)] for a str [item] (the only use is guarded by [isinstance(item, str)]) *)
Definition trp_key_pair (p : trp_key * Z) : trp_key :=
  match fst p with Doc.KStr n => Doc.KIdx n (snd p) | k => k end.
(** [(field_name, 0)] *)
Definition trp_key_name_idx (p : stri * Z) : trp_key := Doc.KIdx (fst p) (snd p).
(** [isinstance(key, Deb822FieldNameToken)] / [key is tok] on the _strI that _unpack_key returned: never a token *)
Definition trp_stri_is_nametoken (k : stri) (_ : unit) : bool := false.
Definition trp_stri_is_token (k : stri) (t : nametoken) : bool := match t with end.

(** * The dict of the no-duplicates class (keyed by the lowered name) *)
Definition trp_kvd_get_opt (lower : str -> str) (d : kvdict) (k : stri) : option kvelem := t_get (lower k) d.
Definition trp_kvd_set (lower : str -> str) (d : kvdict) (k : stri) (v : kvelem) : unit * kvdict := (tt, t_set (lower k) v d).

(** [self._kvpair_order.append(key)]: OrderedSet.append = OrderedSet.add, C09's regenerated function on (heap, record) *)
Definition trp_os_add (lower : str -> str) (hp : heap) (os : osobj) (item : stri) :=
  os_run (fun h tb hd tl z => tr_os_add lower h tb hd tl z item) hp os.

(** * Key-value pair elements (references into the store of fields) *)
(** [kv.field_token]: name tokens do not exist in the model; only evaluated in the branch
    [isinstance(key, Deb822FieldNameToken)] of set_kvpair_element, which is never taken *)
Definition trp_kv_field_token (kvs : kvstore) (kv : kvelem) : result nametoken := Err OtherError.
(** [x.parent_element = p] on a pair element: parent pointers of pair elements are not part of the model *)
Definition pararef := unit.
Definition trp_self_para : pararef := tt.
Definition trp_kv_set_parent (kvs : kvstore) (kv : kvelem) (p : option pararef) : mres unit kvstore := MOk tt kvs.

(** a Deb822CommentElement is its text (never empty); Commentish = a list of str or a comment element *)
Definition celem := str.
Inductive commentish := CList (l : list str) | CElem (t : celem).
Definition fc_of_cm (o : option commentish) : Doc.fcomment :=
  match o with None => Doc.FCNone | Some (CList l) => Doc.FCList l | Some (CElem t) => Doc.FCElem t end.
Definition trp_cm_is_comment_element (c : commentish) (_ : unit) : bool :=
  match c with CElem _ => true | CList _ => false end.
Definition trp_cm_iter (c : commentish) : result (list str) :=
  match c with CList l => Ok l | CElem _ => Err TypeError end.
Definition trp_cm_as_elem (c : commentish) : option celem :=
  match c with CElem t => Some t | CList _ => None end.

(** [kv.comment_element] *)
Definition trp_kv_comment (kvs : kvstore) (kv : kvelem) : result (option celem) :=
  match t_get kv kvs with
  | Some f => Ok (if Doc.is_nil (Doc.f_comment f) then None else Some (Doc.f_comment f))
  | None => Err OtherError
  end.
(** [kv.comment_element = c]: the model's [set_comment] on the stored field *)
Definition trp_kv_set_comment (kvs : kvstore) (kv : kvelem) (c : option celem) : mres unit kvstore :=
  match t_get kv kvs with
  | None => MErr OtherError kvs
  | Some f =>
      match Doc.set_comment f (match c with Some t => t | None => [] end) with
      | Ok f' => MOk tt (t_set kv f' kvs)
      | Err e => MErr e kvs
      end
  end.

(** * The parser on the assembled lines: C01/C02's, represented by the model's recogniser of a one-field text
      ([Doc.scan_head]).  [parse_deb822_file] raises ValueError on lines without LF (tokenizer); an error token in the
      result is reported by [find_first_error_element]. *)
Definition errtok := unit.
Record pfile := mkPF { pf_err : bool; pf_field : option Doc.field }.
Definition ppara := Doc.field.
Definition trp_parse_file (content : list str) : result pfile :=
  if negb (forallb Doc.ends_nl content) then Err ValueError else
  match Doc.scan_head content [] with
  | Ok o => Ok (mkPF false o)
  | Err ValueError => Ok (mkPF true None)
  | Err e => Err e
  end.
Definition trp_pf_first_error (f : pfile) : option errtok := if pf_err f then Some tt else None.
(** [next(iter(deb822_file))] *)
Definition trp_pf_first_para (f : pfile) : result ppara :=
  match pf_field f with Some x => Ok x | None => Err StopIteration end.
Definition trp_pp_is_nodup (p : ppara) (_ : unit) : bool := true.
(** a reference that the store does not use yet *)
Definition kv_fresh (kvs : kvstore) : kvelem :=
  repeat 0%N (S (fold_right (fun p m => Nat.max (length (fst p)) m) O kvs)).
(** [paragraph.get_kvpair_element(field_name)] on the one-field paragraph: the new pair element becomes an object of
    the store *)
Definition trp_pp_get (kvs : kvstore) (p : ppara) (name : stri) : mres (option kvelem) kvstore :=
  if Doc.name_eqb (Doc.f_name p) name then let r := kv_fresh kvs in MOk (Some r) (t_set r p kvs)
  else MErr KeyError kvs.
