(** C10 proofs, part 4: order_first / order_last / order_before / order_after of
    the duplicate-fields class refine the list reference and keep the name index
    consistent with the order. *)
From Coq Require Import Permutation.
From Verif Require Import Lib.Base Lib.PyStr Gen.PyChars Repro.Doc Repro.StructSort
  Repro.Struct Repro.StructSpec Repro.StructLemmas Repro.StructProofsPN Repro.StructProofsPD1
  Repro.StructProofsPD2.

(** * More list facts *)

Lemma existsb_rev {A} (p : A -> bool) l : existsb p (rev l) = existsb p l.
Proof.
  induction l as [|x l IH]; cbn; [reflexivity|].
  rewrite existsb_app, IH. cbn. rewrite orb_false_r. apply orb_comm.
Qed.

Lemma notin_rev xs nf : notin (rev xs) nf = notin xs nf.
Proof. unfold notin, isin. now rewrite existsb_rev. Qed.

Lemma assoc_set_same {B} k (v : B) l : assoc_get k l = Some v -> assoc_set k v l = l.
Proof.
  induction l as [|[k' v'] l IH]; cbn; [discriminate|].
  destruct (str_eqb k k') eqn:E.
  - now intros [= ->].
  - intros H. now rewrite (IH H).
Qed.

Lemma ids_named_cons k nf o :
  ids_named k (nf :: o) = if named k nf then fst nf :: ids_named k o else ids_named k o.
Proof. unfold ids_named. cbn [filter]. now destruct (named k nf). Qed.

Lemma ids_named_app k a b : ids_named k (a ++ b) = ids_named k a ++ ids_named k b.
Proof. unfold ids_named. now rewrite filter_app, map_app. Qed.

Lemma rm_cons x nf o : rm x (nf :: o) = if is_node x nf then rm x o else nf :: rm x o.
Proof. unfold rm. cbn [filter]. now destruct (is_node x nf). Qed.

Lemma ids_named_rm k x o :
  NoDup (ids o) -> ids_named k (rm x o) = remove_first (N.eqb x) (ids_named k o).
Proof.
  induction o as [|nf o IH]; intros Hn; [reflexivity|].
  inversion Hn as [|? ? Hx Hn']; subst.
  rewrite rm_cons, (ids_named_cons k nf o).
  destruct (is_node x nf) eqn:E.
  - unfold is_node in E. apply N.eqb_eq in E. subst x.
    assert (Hrm : rm (fst nf) o = o).
    { apply rm_absent. intros y Hy E. apply Hx. rewrite <- E. now apply in_ids. }
    rewrite Hrm.
    assert (Habs : remove_first (N.eqb (fst nf)) (ids_named k o) = ids_named k o).
    { apply remove_first_none. apply forallb_forall. intros y Hy. apply negb_true_iff.
      apply N.eqb_neq. intros Ey. apply Hx. rewrite Ey. now apply (ids_named_incl k). }
    destruct (named k nf); cbn [remove_first]; [now rewrite N.eqb_refl|now rewrite Habs].
  - rewrite (ids_named_cons k nf (rm x o)), (IH Hn').
    destruct (named k nf); [|reflexivity].
    cbn [remove_first]. unfold is_node in E. rewrite N.eqb_sym, E. reflexivity.
Qed.

Lemma filter_named_filter_neg k (P : N * field -> bool) (o : order) :
  (forall nf, In nf o -> named k nf = true -> P nf = false) ->
  filter (named k) (filter (fun x => negb (P x)) o) = filter (named k) o.
Proof.
  intros H. rewrite filter_filter. apply filter_ext_in'. intros nf Hin.
  destruct (named k nf) eqn:E; [|now rewrite andb_false_r].
  now rewrite (H nf Hin E).
Qed.

(** a block move keeps, for every name, the order of the nodes with that name:
    (a) names that none of the moved nodes carries *)
Lemma blockmove_other k (P : N * field -> bool) (X Y o : order) :
  X ++ Y = filter (fun x => negb (P x)) o ->
  (forall nf, In nf o -> named k nf = true -> P nf = false) ->
  ids_named k (X ++ filter P o ++ Y) = ids_named k o.
Proof.
  intros HXY H. rewrite !ids_named_app.
  assert (E : ids_named k (filter P o) = []).
  { unfold ids_named. rewrite filter_filter. rewrite filter_none; [reflexivity|].
    intros nf Hin. destruct (P nf) eqn:EP; [|reflexivity]. cbn.
    destruct (named k nf) eqn:En; [|reflexivity]. rewrite (H nf Hin En) in EP. discriminate. }
  rewrite E. cbn [app]. rewrite <- ids_named_app, HXY. unfold ids_named.
  now rewrite (filter_named_filter_neg k P o H).
Qed.

(** (b) the name whose nodes are exactly the moved ones *)
Lemma blockmove_same k (P : N * field -> bool) (X Y o : order) :
  X ++ Y = filter (fun x => negb (P x)) o ->
  (forall nf, In nf o -> named k nf = P nf) ->
  ids_named k (X ++ filter P o ++ Y) = ids_named k o.
Proof.
  intros HXY H. rewrite !ids_named_app.
  assert (EXY : ids_named k (X ++ Y) = []).
  { rewrite HXY. unfold ids_named. rewrite filter_filter, filter_none; [reflexivity|].
    intros nf Hin. rewrite <- (H nf Hin). now destruct (named k nf). }
  rewrite ids_named_app in EXY. apply app_eq_nil in EXY as [-> ->]. cbn [app]. rewrite app_nil_r.
  unfold ids_named. rewrite filter_filter. f_equal. apply filter_ext_in'. intros nf Hin.
  rewrite <- (H nf Hin). now destruct (named k nf).
Qed.

(** a node carries one name *)
Lemma named_unique k k' nf : named k nf = true -> named k' nf = true -> k = k'.
Proof. unfold named. intros H1 H2. apply str_eqb_eq in H1, H2. congruence. Qed.

Lemma str_eqb_neq_named k k' nf : str_eqb k' k = false -> named k nf = true -> named k' nf = false.
Proof.
  intros Hne H. destruct (named k' nf) eqn:E; [|reflexivity].
  rewrite (named_unique _ _ _ H E), str_eqb_refl in Hne. discriminate.
Qed.

(** * What the model's relocation list looks like *)

Lemma idmask_ids xs (o o' : order) : ids o = ids o' -> idmask xs o = idmask xs o'.
Proof.
  intros H. unfold idmask.
  assert (E : forall l : order, map (fun nf => existsb (N.eqb (fst nf)) xs) l
                                = map (fun i => existsb (N.eqb i) xs) (ids l)).
  { intros l. unfold ids. now rewrite map_map. }
  now rewrite (E o), (E o'), H.
Qed.

Lemma idmask_isin xs (o : order) : idmask xs o = map (isin xs) o.
Proof. reflexivity. Qed.

Record reloc_ok (o : order) (key : str) (nodes reloc : list N) (P : N * field -> bool) : Prop := {
  ro_list : reloc = map fst (filter P o);
  ro_named : forall nf, In nf o -> P nf = true -> named key nf = true;
  ro_nodes : nodes = ids_named key o;
  ro_shape : (reloc = nodes /\ forall nf, P nf = named key nf)
             \/ (exists x, reloc = [x] /\ In x nodes /\ forall nf, P nf = is_node x nf)
}.

Lemma relocated_shape d k key nodes reloc (o1 : order) :
  WfD d -> sig o1 = sig (d_order d) ->
  relocated d k = Ok (key, nodes, reloc) ->
  exists P, reloc_ok o1 key nodes reloc P.
Proof.
  intros Hwf Hs Hr. pose proof (relocated_select d k Hwf) as H. cbn zeta in H. rewrite Hr in H.
  destruct H as (Hkey & Hnodes & Hne & _ & Hshape & _).
  assert (Hn1 : NoDup (ids o1)) by (rewrite (ids_sig _ _ Hs); apply (wf_ids d Hwf)).
  rewrite <- (ids_named_sig key _ _ Hs) in Hnodes.
  destruct (snd (key_parts k)) as [i|].
  - destruct Hshape as (x & Hx & ->). apply py_index_In in Hx.
    exists (is_node x). rewrite Hnodes in Hx.
    destruct (in_ids_named _ _ _ Hx) as (nx & Hin & Efst & Hnamed). subst x.
    constructor.
    + now rewrite (filter_is_node o1 nx Hn1 Hin).
    + intros nf Hnf HP. unfold is_node in HP. apply N.eqb_eq in HP.
      now rewrite (nodup_ids_eq o1 nf nx Hn1 Hnf Hin HP).
    + exact Hnodes.
    + right. exists (fst nx). rewrite Hnodes. auto.
  - subst reloc. exists (named key). constructor; auto.
Qed.

Lemma reloc_nodup o key nodes reloc P :
  NoDup (ids o) -> reloc_ok o key nodes reloc P -> NoDup reloc.
Proof. intros Hn [-> _ _ _]. now apply NoDup_map_filter. Qed.

Lemma reloc_in_ids o key nodes reloc P x :
  reloc_ok o key nodes reloc P -> In x reloc -> In x (ids o).
Proof.
  intros [-> _ _ _] H. apply in_map_iff in H as (nf & <- & Hin). apply filter_In in Hin as [Hin _].
  now apply in_ids.
Qed.

(** * order_first / order_last *)

Lemma pd_plan_first_last (last : bool) k l :
  sp_plan (if last then PLast k else PFirst k) l =
  match select_key WAll k l with
  | Some (m, neg) => Some (if last then PlLast m else PlFirst m, neg)
  | None => None
  end.
Proof. destruct last; cbn; destruct (select_key WAll k l) as [[m neg]|]; reflexivity. Qed.

Lemma byname_single_update (first : bool) d key nodes x :
  assoc_get key (d_byname d) = Some nodes -> NoDup nodes -> In x nodes ->
  (if first
   then if option_eqb N.eqb (hd_error nodes) (Some x) then d_byname d
        else assoc_set key (x :: remove_first (N.eqb x) nodes) (d_byname d)
   else if option_eqb N.eqb (last_opt nodes) (Some x) then d_byname d
        else assoc_set key (remove_first (N.eqb x) nodes ++ [x]) (d_byname d))
  = assoc_set key (if first then x :: remove_first (N.eqb x) nodes
                   else remove_first (N.eqb x) nodes ++ [x]) (d_byname d).
Proof.
  intros Hget Hnd Hin. destruct first.
  - destruct (option_eqb N.eqb (hd_error nodes) (Some x)) eqn:E; [|reflexivity].
    destruct nodes as [|y t]; [discriminate|]. cbn in E. apply N.eqb_eq in E. subst y.
    cbn [remove_first]. rewrite N.eqb_refl. symmetry. now apply assoc_set_same.
  - destruct (option_eqb N.eqb (last_opt nodes) (Some x)) eqn:E; [|reflexivity].
    destruct (last_opt nodes) as [z|] eqn:El; [|discriminate]. cbn in E. apply N.eqb_eq in E. subst z.
    destruct (last_opt_some_split _ _ El) as (a & ->).
    assert (Ha : ~ In x a).
    { intros Hx. apply NoDup_remove_2 in Hnd. apply Hnd. rewrite app_nil_r. exact Hx. }
    assert (Er : remove_first (N.eqb x) (a ++ [x]) = a).
    { rewrite (remove_first_app (N.eqb x) a x []); [apply app_nil_r| |apply N.eqb_refl].
      apply forallb_forall. intros y Hy. apply negb_true_iff. apply N.eqb_neq. intros ->. contradiction. }
    rewrite Er. symmetry. now apply assoc_set_same.
Qed.

Theorem pd_first_last_refines (last : bool) d k :
  WfD d ->
  let r := if last then d_order_last d k else d_order_first d k in
  In (match fst r with Some _ => true | None => false end, map snd (d_order (snd r)))
     (sp_cands (if last then PLast k else PFirst k) (map snd (d_order d)))
  /\ WfD (snd r).
Proof.
  intros Hwf. cbn zeta.
  set (fs := map snd (d_order d)).
  pose proof (relocated_select d k Hwf) as Hsel. cbn zeta in Hsel. fold fs in Hsel.
  assert (Hunf : (if last then d_order_last d k else d_order_first d k) =
    match relocated d k with
    | Err e => fail e d
    | Ok (key, nodes, reloc) =>
        let d1 := d_ensure d in
        match fold_left (if last then step_last else step_first) (if last then reloc else rev reloc)
                        (Ok (d_order d1)) with
        | Err e => fail e d1
        | Ok o2 =>
            ok (mkD o2 (match reloc with
                        | [x] =>
                            if last
                            then if option_eqb N.eqb (last_opt nodes) (Some x) then d_byname d
                                 else assoc_set key (remove_first (N.eqb x) nodes ++ [x]) (d_byname d)
                            else if option_eqb N.eqb (hd_error nodes) (Some x) then d_byname d
                                 else assoc_set key (x :: remove_first (N.eqb x) nodes) (d_byname d)
                        | _ => d_byname d
                        end) (d_next d))
        end
    end).
  { destruct last; unfold d_order_last, d_order_first;
      destruct (relocated d k) as [[[key nodes] reloc]|e]; reflexivity. }
  rewrite Hunf. clear Hunf.
  destruct (relocated d k) as [[[key nodes] reloc]|e] eqn:Hr.
  2:{ destruct Hsel as [Hnone _]. cbn [fst snd fail]. split; [|exact Hwf].
      apply refuse_in; [|now left]. unfold may_refuse. rewrite pd_plan_first_last. fold fs.
      now rewrite Hnone. }
  destruct Hsel as (Hkey & Hnodes & Hne & Hget & Hshape & neg & Hmask).
  cbn zeta.
  set (o1 := d_order (d_ensure d)).
  assert (Hs1 : sig o1 = sig (d_order d)) by apply sig_ensure_nl.
  assert (Hn1 : NoDup (ids o1)) by (rewrite (ids_sig _ _ Hs1); apply (wf_ids d Hwf)).
  assert (Hfs1 : map snd o1 = nl fs) by apply map_snd_ensure_nl.
  destruct (relocated_shape d k key nodes reloc o1 Hwf Hs1 Hr) as (P & HP).
  pose proof (reloc_nodup _ _ _ _ _ Hn1 HP) as Hnd.
  assert (Hin : forall x, In x reloc -> In x (ids o1)) by (intros x; apply (reloc_in_ids _ _ _ _ _ _ HP)).
  (* the loop, in closed form *)
  assert (Hfold : fold_left (if last then step_last else step_first) (if last then reloc else rev reloc) (Ok o1)
                  = Ok (if last then filter (fun x => negb (P x)) o1 ++ filter P o1
                        else filter P o1 ++ filter (fun x => negb (P x)) o1)).
  { destruct (filter_isin_map_filter P o1 Hn1) as [_ Enot]. rewrite <- (ro_list _ _ _ _ _ HP) in Enot.
    destruct last.
    - rewrite (fold_last reloc o1 Hn1 Hnd Hin). f_equal. rewrite Enot. f_equal.
      rewrite (ro_list _ _ _ _ _ HP). now apply nodes_of_filter.
    - rewrite (fold_first (rev reloc) o1 Hn1).
      + rewrite rev_involutive. f_equal.
        rewrite (filter_ext (notin (rev reloc)) (notin reloc) (notin_rev reloc)), Enot. f_equal.
        rewrite (ro_list _ _ _ _ _ HP). now apply nodes_of_filter.
      + now apply NoDup_rev.
      + intros x Hx. apply Hin. now apply in_rev. }
  rewrite Hfold. cbn [fst snd ok d_order].
  set (o2 := if last then filter (fun x => negb (P x)) o1 ++ filter P o1
             else filter P o1 ++ filter (fun x => negb (P x)) o1).
  split.
  - (* the list reference *)
    eapply accept_in with (pl := if last then PlLast (idmask reloc (d_order d))
                                 else PlFirst (idmask reloc (d_order d))) (neg := neg).
    + rewrite pd_plan_first_last. fold fs. now rewrite Hmask.
    + left. rewrite <- Hfs1.
      rewrite (idmask_ids reloc (d_order d) o1) by (symmetry; apply (ids_sig _ _ Hs1)).
      rewrite idmask_isin. destruct (filter_isin_map_filter P o1 Hn1) as [Eis Enot].
      rewrite <- (ro_list _ _ _ _ _ HP) in Eis, Enot. unfold notin in Enot.
      destruct last; cbn [run_plan]; unfold mv_last, mv_first, o2;
        rewrite pick_map, unpick_map, Eis, Enot, map_app; reflexivity.
  - (* the invariant *)
    assert (Hperm : Permutation o2 o1).
    { unfold o2. destruct last; [etransitivity; [apply Permutation_app_comm|]|]; apply filter_perm. }
    assert (Hget1 : forall k', assoc_get k' (d_byname d) = nonempty_opt (ids_named k' o1)).
    { intros k'. rewrite (ids_named_sig k' _ _ Hs1). apply (wf_by d Hwf). }
    assert (Hother : forall k', str_eqb k' key = false -> ids_named k' o2 = ids_named k' o1).
    { intros k' Hne'. unfold o2. destruct last.
      - rewrite <- (app_nil_r (filter P o1)).
        apply (blockmove_other k' P (filter (fun x => negb (P x)) o1) [] o1); [apply app_nil_r|].
        intros nf Hnf Hk'. destruct (P nf) eqn:EP; [|reflexivity].
        rewrite (str_eqb_neq_named key k' nf Hne' (ro_named _ _ _ _ _ HP nf Hnf EP)) in Hk'. discriminate.
      - apply (blockmove_other k' P [] (filter (fun x => negb (P x)) o1) o1); [reflexivity|].
        intros nf Hnf Hk'. destruct (P nf) eqn:EP; [|reflexivity].
        rewrite (str_eqb_neq_named key k' nf Hne' (ro_named _ _ _ _ _ HP nf Hnf EP)) in Hk'. discriminate. }
    constructor; cbn [d_order d_byname d_next].
    + apply (Permutation_NoDup (l := ids o1)); [symmetry; now apply ids_perm|exact Hn1].
    + intros nf Hnf. apply (Permutation_in _ Hperm) in Hnf.
      assert (Hi : In (fst nf) (ids (d_order d))).
      { rewrite <- (ids_sig _ _ Hs1). now apply in_ids. }
      apply in_ids_inv in Hi as (nf' & Hin' & E). rewrite <- E. now apply (wf_next d Hwf).
    + destruct reloc as [|x [|y t]]; try apply (wf_keys d Hwf).
      destruct last; destruct (option_eqb _ _ _); try apply (wf_keys d Hwf);
        apply keys_nodup_set; apply (wf_keys d Hwf).
    + intros k'.
      destruct (ro_shape _ _ _ _ _ HP) as [[Ebulk HPn]|(x & Ex & Hxin & HPx)].
      * (* all fields of that name: the index is untouched *)
        assert (Ebn : match reloc with
                      | [x] => if last
                               then if option_eqb N.eqb (last_opt nodes) (Some x) then d_byname d
                                    else assoc_set key (remove_first (N.eqb x) nodes ++ [x]) (d_byname d)
                               else if option_eqb N.eqb (hd_error nodes) (Some x) then d_byname d
                                    else assoc_set key (x :: remove_first (N.eqb x) nodes) (d_byname d)
                      | _ => d_byname d
                      end = d_byname d).
        { subst reloc. destruct nodes as [|x [|y t]]; try reflexivity.
          destruct last; cbn; now rewrite N.eqb_refl. }
        rewrite Ebn, Hget1. f_equal.
        destruct (str_eqb k' key) eqn:Ek.
        -- apply str_eqb_eq in Ek. subst k'. symmetry. unfold o2. destruct last.
           ++ rewrite <- (app_nil_r (filter P o1)).
              apply (blockmove_same key P (filter (fun x => negb (P x)) o1) [] o1); [apply app_nil_r|].
              intros nf _. now rewrite HPn.
           ++ apply (blockmove_same key P [] (filter (fun x => negb (P x)) o1) o1); [reflexivity|].
              intros nf _. now rewrite HPn.
        -- symmetry. now apply Hother.
      * (* one field: the index entry of that name is rotated *)
        subst reloc.
        assert (Hnodes1 : nodes = ids_named key o1) by apply (ro_nodes _ _ _ _ _ HP).
        assert (Hndn : NoDup nodes) by (rewrite Hnodes1; now apply ids_named_nodup).
        pose proof (byname_single_update (negb last) d key nodes x Hget Hndn Hxin) as Hupd.
        assert (Ebn : (if last
                       then if option_eqb N.eqb (last_opt nodes) (Some x) then d_byname d
                            else assoc_set key (remove_first (N.eqb x) nodes ++ [x]) (d_byname d)
                       else if option_eqb N.eqb (hd_error nodes) (Some x) then d_byname d
                            else assoc_set key (x :: remove_first (N.eqb x) nodes) (d_byname d))
                      = assoc_set key (if last then remove_first (N.eqb x) nodes ++ [x]
                                       else x :: remove_first (N.eqb x) nodes) (d_byname d)).
        { destruct last; exact Hupd. }
        rewrite Ebn. clear Ebn Hupd.
        destruct (str_eqb k' key) eqn:Ek.
        -- apply str_eqb_eq in Ek. subst k'. rewrite assoc_get_set_same.
           rewrite Hnodes1 in Hxin. destruct (in_ids_named _ _ _ Hxin) as (nx & Hnx & Efx & Hnamed).
           subst x.
           assert (EP : filter P o1 = [nx]).
           { rewrite (filter_ext P (is_node (fst nx)) HPx). now apply filter_is_node. }
           assert (EnP : filter (fun y => negb (P y)) o1 = rm (fst nx) o1).
           { unfold rm. apply filter_ext. intros y. now rewrite HPx. }
           unfold o2. rewrite EP, EnP, Hnodes1. destruct last.
           ++ rewrite ids_named_app, (ids_named_rm key (fst nx) o1 Hn1).
              rewrite (ids_named_cons key nx []), Hnamed. change (ids_named key []) with (@nil N).
              now destruct (remove_first (N.eqb (fst nx)) (ids_named key o1)).
           ++ cbn [app]. rewrite (ids_named_cons key nx), Hnamed, (ids_named_rm key (fst nx) o1 Hn1).
              reflexivity.
        -- rewrite (assoc_get_set_other key k' _ _ Ek), Hget1. f_equal. symmetry. now apply Hother.
Qed.

(** * order_before / order_after *)

Lemma relocated_ensure d k : relocated (d_ensure d) k = relocated d k.
Proof. reflexivity. Qed.

Lemma select_key_indexed w n i l : select_key w (KIdx n i) l = select_key WAll (KIdx n i) l.
Proof. reflexivity. Qed.

(** the reference field: first node of the name for "before", last for "after" *)
Lemma ref_select (after : bool) d r :
  WfD d ->
  let fs := map snd (d_order d) in
  let w := if after then WLast else WFirst in
  match relocated d r with
  | Ok (_, _, refs) =>
      exists ref neg, py_index refs (if after then (-1)%Z else 0%Z) = Some ref
                      /\ In ref (ids (d_order d))
                      /\ select_key w r fs = Some (idmask [ref] (d_order d), neg)
  | Err e => select_key w r fs = None
  end.
Proof.
  intros Hwf. cbn zeta.
  pose proof (relocated_select d r Hwf) as Hsel. cbn zeta in Hsel.
  destruct (relocated d r) as [[[rkey rnodes] refs]|e] eqn:Hr.
  2:{ destruct Hsel as [Hnone _]. destruct r as [n|n i]; [|exact Hnone].
      unfold select_key, select in *. cbn [key_parts fst snd] in *.
      destruct (occ_count n (map snd (d_order d))); [reflexivity|discriminate]. }
  destruct Hsel as (Hkey & Hnodes & Hne & _ & Hshape & neg & Hmask).
  destruct r as [n|n i]; cbn [key_parts fst snd] in *.
  - (* un-indexed: first / last node of the name *)
    subst refs rkey.
    set (c := length rnodes).
    assert (Hc : c <> 0) by (unfold c; destruct rnodes; [congruence|discriminate]).
    set (j := if after then Nat.pred c else 0).
    assert (Hj : j < c) by (unfold j; destruct after; lia).
    destruct (nth_error rnodes j) as [ref|] eqn:Eref; [|apply nth_error_None in Eref; fold c in Eref; lia].
    exists ref, false. repeat split.
    + rewrite py_index_spec. cbn zeta. fold c. unfold j in Eref. destruct after.
      * assert (E1 : (-1 <? 0)%Z = true) by reflexivity. rewrite E1.
        assert (E2 : ((-1 + Z.of_nat c <? 0)%Z || (Z.of_nat c <=? -1 + Z.of_nat c)%Z) = false).
        { apply orb_false_iff. split; [apply Z.ltb_ge|apply Z.leb_gt]; lia. }
        rewrite E2. replace (Z.to_nat (-1 + Z.of_nat c)) with (Nat.pred c) by lia. exact Eref.
      * change (0 <? 0)%Z with false. cbv iota. cbn [orb].
        assert (E2 : (Z.of_nat c <=? 0)%Z = false) by (apply Z.leb_gt; lia).
        rewrite E2. exact Eref.
    + apply (ids_named_incl (lower n)). rewrite <- Hnodes. eapply nth_error_In. exact Eref.
    + unfold select_key, select. cbn [key_parts fst snd]. rewrite occ_count_ids, <- Hnodes. fold c.
      destruct c as [|c']; [congruence|].
      rewrite Hnodes in Eref.
      rewrite (idmask_single n (d_order d) j ref (wf_ids d Hwf) Eref).
      unfold j. now destruct after.
  - (* indexed: that node *)
    destruct Hshape as (x & Hx & ->).
    exists x, neg. repeat split.
    + rewrite py_index_spec. cbn. now destruct after.
    + apply (ids_named_incl rkey). rewrite <- Hnodes. now apply py_index_In in Hx.
    + destruct after; exact Hmask.
Qed.

Lemma overlap_ref reloc ref (o : order) :
  In ref (ids o) -> overlap (idmask reloc o) (idmask [ref] o) = existsb (N.eqb ref) reloc.
Proof.
  intros Hin. rewrite !idmask_isin, overlap_map.
  destruct (existsb (N.eqb ref) reloc) eqn:E.
  - apply existsb_exists. apply in_ids_inv in Hin as (nf & Hnf & Ef).
    exists nf. split; [exact Hnf|]. apply andb_true_iff. split.
    + unfold isin. rewrite Ef. exact E.
    + unfold isin. cbn. now rewrite Ef, N.eqb_refl.
  - apply forall_not_exists. apply forallb_forall. intros nf Hnf. apply negb_true_iff.
    destruct (isin [ref] nf) eqn:F; [|now rewrite andb_false_r].
    unfold isin in F. cbn in F. rewrite orb_false_r in F. apply N.eqb_eq in F.
    unfold isin. rewrite F, E. reflexivity.
Qed.

Lemma node_val_in (o : order) nf : NoDup (ids o) -> In nf o -> node_val (fst nf) o = Some (snd nf).
Proof.
  intros Hn Hin. unfold node_val.
  change (fun nf0 : N * field => (fst nf0 =? fst nf)%N) with (is_node (fst nf)).
  now rewrite (find_is_node o nf Hn Hin).
Qed.

Lemma pd_plan_rel (after : bool) k r l :
  sp_plan (if after then PAfter k r else PBefore k r) l =
  match select_key WAll k l, select_key (if after then WLast else WFirst) r l with
  | Some (m, neg), Some (rm, neg') =>
      if overlap m rm then None else Some (PlRel after m rm, neg || neg')
  | _, _ => None
  end.
Proof. apply pn_plan_rel. Qed.

Theorem pd_rel_refines (after : bool) d k r :
  WfD d ->
  let res := d_order_rel after d k r in
  In (match fst res with Some _ => true | None => false end, map snd (d_order (snd res)))
     (sp_cands (if after then PAfter k r else PBefore k r) (map snd (d_order d)))
  /\ WfD (snd res).
Proof.
  intros Hwf. cbn zeta. unfold d_order_rel.
  set (fs := map snd (d_order d)).
  set (po := if after then PAfter k r else PBefore k r).
  set (wr := if after then WLast else WFirst).
  pose proof (relocated_select d k Hwf) as Hsel. cbn zeta in Hsel. fold fs in Hsel.
  destruct (relocated d k) as [[[key nodes] reloc]|e] eqn:Hr.
  2:{ destruct Hsel as [Hnone _]. cbn [fst snd fail]. split; [|exact Hwf].
      apply refuse_in; [|now left]. unfold may_refuse, po. rewrite pd_plan_rel. fold fs.
      now rewrite Hnone. }
  destruct Hsel as (Hkey & Hnodes & Hne & Hget & Hshape & neg & Hmask).
  pose proof (WfD_ensure d Hwf) as Hwf1.
  assert (Hfs1 : map snd (d_order (d_ensure d)) = nl fs) by apply map_snd_ensure_nl.
  rewrite relocated_ensure.
  pose proof (ref_select after d r Hwf) as Href. cbn zeta in Href. fold fs wr in Href.
  destruct (relocated d r) as [[[rkey rnodes] refs]|e] eqn:Hrr.
  2:{ cbn [fst snd fail]. split; [|exact Hwf1]. rewrite Hfs1.
      apply refuse_in; [|now right]. unfold may_refuse, po. rewrite pd_plan_rel. fold fs wr.
      rewrite Href. now destruct (select_key WAll k fs) as [[m0 neg0]|]. }
  destruct Href as (ref & neg' & Hidx & Hrefin & Hrmask). rewrite Hidx.
  pose proof (overlap_ref reloc ref (d_order d) Hrefin) as Hov.
  destruct (existsb (N.eqb ref) reloc) eqn:Eself.
  { (* relative to itself: ValueError *)
    cbn [fst snd fail]. split; [|exact Hwf1]. rewrite Hfs1.
    apply refuse_in; [|now right]. unfold may_refuse, po. rewrite pd_plan_rel. fold fs wr.
    now rewrite Hmask, Hrmask, Hov. }
  set (o1 := d_order (d_ensure d)).
  assert (Hs1 : sig o1 = sig (d_order d)) by apply sig_ensure_nl.
  assert (Hn1 : NoDup (ids o1)) by (rewrite (ids_sig _ _ Hs1); apply (wf_ids d Hwf)).
  destruct (relocated_shape d k key nodes reloc o1 Hwf Hs1 Hr) as (P & HP).
  pose proof (reloc_nodup _ _ _ _ _ Hn1 HP) as Hnd.
  (* split the order at the reference *)
  assert (Hrefin1 : In ref (ids o1)) by (rewrite (ids_sig _ _ Hs1); exact Hrefin).
  apply in_ids_inv in Hrefin1 as (refn & Hrefn & Eref).
  destruct (in_split _ _ Hrefn) as (A & B0 & Eo1).
  assert (Hstate : o1 = rel_state refn A [] [] B0) by (unfold rel_state; exact Eo1).
  assert (Hnotref : forall x, In x reloc -> x <> ref).
  { intros x Hx ->. assert (existsb (N.eqb ref) reloc = true); [|congruence].
    apply existsb_exists. exists ref. split; [exact Hx|apply N.eqb_refl]. }
  assert (HinAB : forall x, In x reloc -> In x (ids (A ++ B0))).
  { intros x Hx. pose proof (reloc_in_ids _ _ _ _ _ _ HP Hx) as Hi. rewrite Eo1 in Hi.
    unfold ids in *. rewrite map_app in *. cbn [map] in Hi.
    apply in_app_or in Hi. apply in_or_app. destruct Hi as [Hi|[Hi|Hi]]; auto.
    exfalso. apply (Hnotref x Hx). now rewrite <- Eref, Hi. }
  assert (Prefn : P refn = false).
  { destruct (P refn) eqn:E; [|reflexivity]. exfalso. apply (Hnotref ref); [|reflexivity].
    rewrite (ro_list _ _ _ _ _ HP). rewrite <- Eref. apply in_map. apply filter_In. now split. }
  destruct (filter_isin_map_filter P o1 Hn1) as [Eis Enot].
  rewrite <- (ro_list _ _ _ _ _ HP) in Eis, Enot.
  (* nodes of the relocation list, with and without the reference in the list *)
  assert (EnodesAB : nodes_of reloc (A ++ B0) = filter P o1).
  { transitivity (nodes_of reloc o1).
    - apply nodes_of_ext. intros x Hx. rewrite Eo1, !filter_app. cbn [filter].
      assert (Ef : is_node x refn = false).
      { unfold is_node. apply N.eqb_neq. rewrite Eref. intros E. now apply (Hnotref x Hx). }
      now rewrite Ef.
    - rewrite (ro_list _ _ _ _ _ HP). now apply nodes_of_filter. }
  assert (EFA : forall l, (forall y, In y l -> In y o1) -> filter (notin reloc) l = filter (fun y => negb (P y)) l).
  { intros l Hl. apply filter_ext_in'. intros y Hy. unfold notin.
    rewrite (ro_list _ _ _ _ _ HP). now rewrite (isin_map_filter P o1 y Hn1 (Hl y Hy)). }
  assert (HA : forall y, In y A -> In y o1) by (intros y Hy; rewrite Eo1; apply in_or_app; now left).
  assert (HB : forall y, In y B0 -> In y o1) by (intros y Hy; rewrite Eo1; apply in_or_app; right; now right).
  set (FA := filter (fun y => negb (P y)) A).
  set (FB := filter (fun y => negb (P y)) B0).
  set (M := filter P o1).
  set (o2 := if after then FA ++ refn :: M ++ FB else FA ++ M ++ refn :: FB).
  assert (Hfold : fold_left (step_rel after ref) (if after then rev reloc else reloc) (Ok o1) = Ok o2).
  { rewrite Hstate at 1. rewrite <- Eref.
    rewrite (fold_rel after refn (if after then rev reloc else reloc) A [] [] B0).
    - f_equal. unfold o2. destruct after.
      + rewrite rev_involutive, EnodesAB.
        rewrite !(filter_ext (notin (rev reloc)) (notin reloc) (notin_rev reloc)).
        rewrite (EFA A HA), (EFA B0 HB). cbn [app]. reflexivity.
      + rewrite EnodesAB, (EFA A HA), (EFA B0 HB). cbn [app]. reflexivity.
    - now rewrite <- Hstate.
    - destruct after; [now apply NoDup_rev|exact Hnd].
    - intros x Hx. apply HinAB. destruct after; [now apply in_rev|exact Hx]. }
  fold o1. rewrite Hfold. cbn [fst snd ok d_order].
  (* the others, split at the reference *)
  assert (EnegP : filter (fun y => negb (P y)) o1 = FA ++ refn :: FB).
  { rewrite Eo1, filter_app. cbn [filter]. now rewrite Prefn. }
  assert (HFAref : forallb (fun y => negb (isin [ref] y)) FA = true).
  { apply forallb_forall. intros y Hy. apply filter_In in Hy as [Hy _]. apply negb_true_iff.
    unfold isin. cbn. rewrite orb_false_r. apply N.eqb_neq. rewrite <- Eref.
    assert (Hn1' := Hn1). rewrite Eo1 in Hn1'.
    apply (nodup_ids_disjoint A (refn :: B0) y refn Hn1' Hy). now left. }
  split.
  - eapply accept_in with (pl := PlRel after (idmask reloc (d_order d)) (idmask [ref] (d_order d)))
                          (neg := neg || neg').
    + unfold po. rewrite pd_plan_rel. fold fs wr. now rewrite Hmask, Hrmask, Hov.
    + left. rewrite <- Hfs1. fold o1. cbn [run_plan].
      rewrite !(idmask_ids _ (d_order d) o1) by (symmetry; apply (ids_sig _ _ Hs1)).
      rewrite !idmask_isin, mv_rel_map. cbn zeta.
      unfold notin in Enot. rewrite Enot, Eis, EnegP.
      rewrite (span_hit _ FA refn FB HFAref)
        by (unfold isin; cbn; now rewrite Eref, N.eqb_refl).
      cbn [fst snd]. unfold o2. fold M.
      destruct after; rewrite !map_app; cbn [map]; rewrite ?map_app; reflexivity.
  - (* the invariant *)
    set (X := if after then FA ++ [refn] else FA).
    set (Y := if after then FB else refn :: FB).
    assert (Eo2 : o2 = X ++ M ++ Y).
    { unfold o2, X, Y. destruct after; [now rewrite <- !app_assoc|reflexivity]. }
    assert (EXY : X ++ Y = filter (fun y => negb (P y)) o1).
    { rewrite EnegP. unfold X, Y. destruct after; [now rewrite <- app_assoc|reflexivity]. }
    assert (Hperm : Permutation o2 o1).
    { rewrite Eo2. transitivity (M ++ X ++ Y).
      - rewrite app_assoc. etransitivity; [apply Permutation_app_tail, Permutation_app_comm|].
        now rewrite <- app_assoc.
      - rewrite EXY. apply filter_perm. }
    assert (Hn2 : NoDup (ids o2)).
    { apply (Permutation_NoDup (l := ids o1)); [symmetry; now apply ids_perm|exact Hn1]. }
    assert (Hget1 : forall k', assoc_get k' (d_byname d) = nonempty_opt (ids_named k' o1)).
    { intros k'. rewrite (ids_named_sig k' _ _ Hs1). apply (wf_by d Hwf). }
    assert (Hother : forall k', str_eqb k' key = false -> ids_named k' o2 = ids_named k' o1).
    { intros k' Hne'. rewrite Eo2. apply (blockmove_other k' P X Y o1 EXY).
      intros nf Hnf Hk'. destruct (P nf) eqn:EP; [|reflexivity].
      rewrite (str_eqb_neq_named key k' nf Hne' (ro_named _ _ _ _ _ HP nf Hnf EP)) in Hk'. discriminate. }
    assert (Hsame : (forall nf, In nf o1 -> named key nf = P nf) -> ids_named key o2 = ids_named key o1).
    { intros H. rewrite Eo2. now apply (blockmove_same key P X Y o1 EXY). }
    constructor; cbn [d_order d_byname d_next].
    + exact Hn2.
    + intros nf Hnf. apply (Permutation_in _ Hperm) in Hnf.
      assert (Hi : In (fst nf) (ids (d_order d))).
      { rewrite <- (ids_sig _ _ Hs1). now apply in_ids. }
      apply in_ids_inv in Hi as (nf' & Hin' & E). rewrite <- E. now apply (wf_next d Hwf).
    + destruct reloc as [|x [|y t]]; try apply (wf_keys d Hwf).
      destruct nodes as [|n1 [|n2 nt]]; try apply (wf_keys d Hwf).
      destruct (node_val x o2); [|apply (wf_keys d Hwf)].
      unfold regenerate. apply keys_nodup_set. apply (wf_keys d Hwf).
    + intros k'.
      destruct (ro_shape _ _ _ _ _ HP) as [[Ebulk HPn]|(x & Ex & Hxin & HPx)].
      * (* all fields of the name: the index is not touched *)
        assert (Ebn : match reloc, nodes with
                      | [x], _ :: _ :: _ =>
                          match node_val x o2 with
                          | Some f => regenerate (f_name f) o2 (d_byname d)
                          | None => d_byname d
                          end
                      | _, _ => d_byname d
                      end = d_byname d).
        { subst reloc. now destruct nodes as [|x [|y t]]. }
        rewrite Ebn, Hget1. f_equal. symmetry.
        destruct (str_eqb k' key) eqn:Ek.
        -- apply str_eqb_eq in Ek. subst k'. apply Hsame. intros nf _. now rewrite HPn.
        -- now apply Hother.
      * subst reloc.
        assert (Hnodes1 : nodes = ids_named key o1) by apply (ro_nodes _ _ _ _ _ HP).
        rewrite Hnodes1 in Hxin. destruct (in_ids_named _ _ _ Hxin) as (nx & Hnx & Efx & Hnamed).
        subst x.
        assert (Hnx2 : In nx o2) by (apply (Permutation_in (l := o1)); [now symmetry|exact Hnx]).
        destruct nodes as [|n1 [|n2 nt]].
        -- congruence.
        -- (* the only field of that name *)
           rewrite Hget1. f_equal. symmetry.
           destruct (str_eqb k' key) eqn:Ek; [|now apply Hother].
           apply str_eqb_eq in Ek. subst k'. apply Hsame. intros nf Hnf. rewrite HPx.
           destruct (named key nf) eqn:En.
           ++ assert (Hi : In (fst nf) (ids_named key o1)).
              { unfold ids_named. apply in_map. apply filter_In. now split. }
              rewrite <- Hnodes1 in Hi. rewrite <- Hnodes1 in Hxin.
              destruct Hi as [Hi|[]]. destruct Hxin as [Hx|[]].
              unfold is_node. symmetry. apply N.eqb_eq. congruence.
           ++ destruct (is_node (fst nx) nf) eqn:Ei; [|reflexivity].
              unfold is_node in Ei. apply N.eqb_eq in Ei.
              rewrite (nodup_ids_eq o1 nf nx Hn1 Hnf Hnx Ei) in En. congruence.
        -- (* several: the entry is regenerated from the new order *)
           rewrite (node_val_in o2 nx Hn2 Hnx2).
           assert (Ekey : lower (f_name (snd nx)) = key).
           { unfold named in Hnamed. now apply str_eqb_eq in Hnamed. }
           assert (Ereg : regenerate (f_name (snd nx)) o2 (d_byname d)
                          = assoc_set key (ids_named key o2) (d_byname d)).
           { unfold regenerate, ids_named. rewrite Ekey. f_equal. f_equal. apply filter_ext.
             intros nf. unfold named, name_eqb, lname. now rewrite Ekey. }
           rewrite Ereg.
           destruct (str_eqb k' key) eqn:Ek.
           ++ apply str_eqb_eq in Ek. subst k'. rewrite assoc_get_set_same.
              assert (Hi : In (fst nx) (ids_named key o2)).
              { unfold ids_named. apply in_map. apply filter_In. now split. }
              destruct (ids_named key o2); [destruct Hi|reflexivity].
           ++ rewrite (assoc_get_set_other key k' _ _ Ek), Hget1. f_equal. symmetry. now apply Hother.
Qed.
